/-
  Scc.X86.ConcDataRun — C10 IN TERMS OF THE SOURCE-LEVEL DATA: the peak hypothesis of the footprint theorems
  (`PeakFrom`, ConcPeakRun.lean) follows from a bound `D` on the number of fields of the object values held by
  the variables of the positional machine (`valsFields st.env ≤ D` for every reachable state `st` — a
  statement about the AxCut program alone): `peakFrom_of_data` (no garbage when the deferred list is empty,
  Scc/Heap/RefineNoGarb.lean; objects of the abstract heap are nodes of the values, ConcData.lean).
  So a heap of `64·(D + A + 2)` bytes is enough for EVERY run (terminating or not) and the machine never writes
  above it: `data_programs_dsize` (terminating runs: trace, result, footprint), `data_programs_dsize_all`
  (every amount of machine fuel).
-/
import Scc.X86.ConcData
import Scc.X86.ConcAllFuel

set_option linter.unusedVariables false
set_option linter.unusedSimpArgs false

namespace Scc.X86.Conc

open Scc Scc.AxCut Scc.AxCut.Pos Scc.Backend Scc.Backend.Abs Scc.Backend.Sim Scc.Backend.Subst Scc.X86 Scc.X86.Ref
open Scc.Backend.Sim2 Scc.Backend.Keys
open Scc.Props.C14Generic (LabelSafe)
open Scc.Props.C06Generic (outAfter WithinCapacity Reachable EnoughHeap CodeFits statesOf stopsWithin)
open Scc.Heap (HState InvS InvW Exhausted)
open Scc.Heap.Refine (HRef FrLe Room FrPk heapFields live_le_heapFields)

theorem heapFields_trHeap (h : Heap) : heapFields (trHeap h) = heapFields h := by
  unfold heapFields trHeap
  rw [List.map_map]
  congr 1
  apply List.map_congr_left
  intro e _
  simp [Function.comp, trO]

/-- THE PEAK HYPOTHESIS FROM THE SIZE OF THE SOURCE-LEVEL DATA -/
theorem peakFrom_of_data {F : Frame} {mon : MonCfg} {px : X86.Prog} {cs : List Code} {P : Program} {hooks : Bool}
    {prog : AxCut.Prog} {st : Pos.State} {X : State} {D C : Nat}
    (hD : ∀ st', Reachable prog st st' → valsFields st'.env ≤ D) :
    PeakFrom F mon px cs P hooks prog st X D C := by
  intro n X' st' cfg' hs' hr hn R hC rs lin live Fr I
  obtain ⟨Γ', ι, _, RX, X3h, _⟩ := R
  have h1 := live_le_heapFields X3h.href I
  rw [heapFields_trHeap] at h1
  have hord : ∀ e ∈ cfg'.heap, ∀ c ∈ e.2.children, c < e.1 := by
    intro e he c hc
    have hm : (e.1, trO e.2) ∈ trHeap cfg'.heap := by
      unfold trHeap
      exact List.mem_map.2 ⟨e, he, rfl⟩
    have := X3h.href.ord _ hm c (by rw [trO_children]; exact hc)
    exact this
  have h2 := heapFields_le_vals RX hord
  have h3 := hD st' hr
  omega

/-- a run that makes `n` transitions in a smaller heap is, for every fuel up to `n`, the same run in a larger
heap -/
theorem runLoop_larger_heap_stepN {m' m : MonCfg} (S : Sub m'.mach m.mach) (h' : m'.heap = false)
    (hm : m.heap = false) (p : Prog) : ∀ (f n : Nat) (s s' : State) (b : Nat), stepN m' p n s = .inl s' → f ≤ n →
      runLoop m p f s b = runLoop m' p f s b
  | 0, _, _, _, _, _, _ => rfl
  | f + 1, 0, _, _, _, _, h => absurd h (by omega)
  | f + 1, n + 1, s, s', b, hs, h => by
    simp only [stepN] at hs
    simp only [runLoop, monitor_off h', monitor_off hm]
    cases hst : step m' p s with
    | inr r => rw [hst] at hs; cases hs
    | inl s1 =>
      rw [hst] at hs
      rw [step_mono S hst]
      exact runLoop_larger_heap_stepN S h' hm p f n s1 s' _ hs (by omega)

/-- ANY RUN (heap monitor off): the machine's record of the highest heap address written stays inside the heap -/
theorem runLoop_mhw {m : MonCfg} (hm : m.heap = false) (p : Prog) : ∀ (f : Nat) (s : State) (b : Nat),
    MhwOK m.mach s → (runLoop m p f s b).maxHeapWritten ≤ m.mach.heapBytes
  | 0, s, b, hs => hs
  | f + 1, s, b, hs => by
    simp only [runLoop, monitor_off hm]
    cases hst : step m p s with
    | inl s1 => exact runLoop_mhw hm p f s1 _ (step_mhw hst hs)
    | inr r =>
      cases r <;> exact hs

theorem runItems_mhw (items : List (Code × Nat)) (args : List Word) (f : Nat) (m : MonCfg) (hm : m.heap = false) :
    (runItems items args f m).maxHeapWritten ≤ m.mach.heapBytes := by
  unfold runItems
  dsimp only
  cases (mkProg m.mach items).labelIdx["asm_main"]? with
  | none => exact Nat.zero_le _
  | some entry =>
    dsimp only
    split
    · exact Nat.zero_le _
    · exact runLoop_mhw hm _ f _ 0 (mhwOK_init m.mach args entry)

/-! ## the runs, for any source of the peak hypothesis -/

/-- the peak hypothesis at the entry: whatever frame and first boundary the header establishes -/
def PeakHyp (p : AxCut.Prog) (hooks : Bool) (routine : List Code) (ops : List MockOp) (cfg : MonCfg)
    (items : List (Code × Nat)) (args : List Word) (d0 : Def) (Pk C : Nat) : Prop :=
  ∀ (F : Frame) (n0 : Nat) (X0 : State), F.c = cfg.mach →
    stepN cfg (mkProg cfg.mach items) n0 (initState cfg.mach args 6) = .inl X0 →
    PeakFrom F cfg (mkProg cfg.mach items) routine (Program.ofOps ops) hooks p ⟨d0.ctx, args.map .int, d0.body⟩ X0 Pk C

theorem peakHyp_of_data {p : AxCut.Prog} {hooks : Bool} {routine : List Code} {ops : List MockOp} {cfg : MonCfg}
    {items : List (Code × Nat)} {args : List Word} {d0 : Def} {D C : Nat}
    (hD : ∀ st, Reachable p ⟨d0.ctx, args.map .int, d0.body⟩ st → valsFields st.env ≤ D) :
    PeakHyp p hooks routine ops cfg items args d0 D C :=
  fun _ _ _ _ _ => peakFrom_of_data hD

/-- a terminating run, on the run loop (as `data_programs_peak_items`, for any source of the peak hypothesis) -/
theorem data_programs_run_gen (p : AxCut.Prog) (args : List Word) (hooks : Bool) (body routine : List Code)
    (nargs : Nat) (d0 : Def) (ops : List MockOp) (c' : Nat)
    (hsafe : LabelSafe p = true) (htp : LinTypedProg p) (hprog : ProgOK p)
    (hcompM : (compile mockSym hooks p).run 0 = .ok ((ops, nargs), c')) (hfit : CodeFits ops)
    (hcompX : compileX86 p hooks 0 = .ok (body, nargs)) (hrout : intoRoutine body nargs = .ok routine)
    (hnd : (labs routine).Nodup)
    (hd : p.defs.head? = some d0) (hentry : ∀ b ∈ d0.ctx, b.chi = .ext ∧ b.ty = .i64)
    (hcap : ∀ st, Reachable p ⟨d0.ctx, args.map .int, d0.body⟩ st → 2 * st.ctx.length ≤ 266)
    (fuel : Nat) (out : List (Bool × Word)) (v : Word) (hfuel : fuel + 1 < 2 ^ 64)
    (hrun : Pos.run p args fuel = ⟨out, .done v⟩)
    (cfg : MonCfg) (MO : MachOK cfg.mach) (hheap : cfg.heap = false)
    (hb8 : cfg.mach.heapBase % 8 = 0) (hb0 : 0 < cfg.mach.heapBase)
    (Pk A : Nat) (hA : ∀ d ∈ p.defs, LetLe A d.body) (hbytes : 64 * (Pk + A + 2) ≤ cfg.mach.heapBytes)
    (items : List (Code × Nat)) (hitems : (items.map (·.1)).map stripC = routine.map stripC)
    (hfitX : addrAt cfg.mach.codeBase routine routine.length < 2 ^ 64)
    (hPH : PeakHyp p hooks routine ops cfg items args d0 Pk (A * fuel + 1)) :
    ∃ fuel', (runItems items args fuel' cfg).out = out ∧ (runItems items args fuel' cfg).res = .done v := by
  have hmem : d0 ∈ p.defs := by
    cases hdefs : p.defs with
    | nil => rw [hdefs] at hd; simp at hd
    | cons d ds => rw [hdefs] at hd; simp at hd; subst hd; simp
  have hlen : d0.ctx.length = args.length := by
    unfold Pos.run at hrun
    cases hdefs : p.defs with
    | nil => rw [hdefs] at hd; simp at hd
    | cons d ds =>
      rw [hdefs] at hd hrun
      simp only [List.head?_cons, Option.some.injEq] at hd
      subst hd
      simp only at hrun
      by_cases hl : d.ctx.length ≠ args.length
      · simp [hl] at hrun
      · omega
  have hrun' : Pos.runState p fuel ⟨d0.ctx, args.map .int, d0.body⟩ [] = ⟨out, .done v⟩ := by
    rw [← run_eq_runState hd hlen]; exact hrun
  have hc0 := hcap _ Reachable.refl
  simp only at hc0
  obtain ⟨F, pre, st0, h, n0, X0, a, En⟩ := entry_setup p args hooks body routine nargs d0 ops c' hsafe htp
    hcompM hcompX hrout hnd hd hentry hlen hc0 cfg MO hb0 (by omega) items hitems
  have hFc := En.fc
  have hinit := Scc.Heap.init_inv (base := F.c.heapBase) (limit := F.c.heapBase + F.c.heapBytes)
    (by rw [hFc]; exact hb0) (by rw [hFc]; omega)
  have hfb0 : FrBound (Scc.Heap.init F.c.heapBase (F.c.heapBase + F.c.heapBytes)) (Pk + 1) := by
    intro rs lin lazy live Fr J
    have := (Scc.Heap.InvS.witness_unique hinit J).2.2
    have hb : (Scc.Heap.init F.c.heapBase (F.c.heapBase + F.c.heapBytes)).base = F.c.heapBase := rfl
    rw [hb, this]
    omega
  have hcb0 : FrBound (Scc.Heap.init F.c.heapBase (F.c.heapBase + F.c.heapBytes)) 1 := by
    intro rs lin lazy live Fr J
    have := (Scc.Heap.InvS.witness_unique hinit J).2.2
    have hb : (Scc.Heap.init F.c.heapBase (F.c.heapBase + F.c.heapBytes)).base = F.c.heapBase := rfl
    rw [hb, this]
    omega
  obtain ⟨⟨n, XL, g1, g2, g3⟩, _⟩ := run3_peak En.frame (by rw [hFc]; exact hb8) hFc.symm En.loaded hnd
    (by rw [hFc]; exact hfitX) En.split En.clean En.entry hooks p 0 ops nargs c' hcompM hsafe htp hfit En.defs
    hprog Pk (A * fuel + 1) A hA (by rw [hFc]; exact hbytes) fuel _ [] (initConfig a args) _ X0 out v 1 En.typed hcap
    En.rel (hprog.2 d0 hmem) (hA d0 hmem) rfl (by rw [En.next1]; omega) hfb0 hcb0 (by omega)
    (hPH F n0 X0 hFc En.steps) hrun'
  have hargs : ¬ args.length > 5 := by have := En.nargs; omega
  refine ⟨n0 + (n + 1), ?_⟩
  have hrl : runItems items args (n0 + (n + 1)) cfg =
      runLoop cfg (mkProg cfg.mach items) (n0 + (n + 1)) (initState cfg.mach args 6) 0 := by
    unfold runItems
    simp only [En.main]
    rw [if_neg hargs]
  rw [hrl, runLoop_stepN hheap _ n0 (n + 1) _ _ 0 En.steps, runLoop_stepN hheap _ n 1 _ _ 0 g1]
  obtain ⟨h1, h2⟩ := runLoop_done hheap (mkProg cfg.mach items) 0 XL 0 g2
  exact ⟨by rw [h1]; exact g3, h2⟩

/-- progress from the initial state (as `data_programs_progress`, for any source of the peak hypothesis) -/
theorem data_programs_progress_gen (p : AxCut.Prog) (args : List Word) (hooks : Bool) (body routine : List Code)
    (nargs : Nat) (d0 : Def) (ops : List MockOp) (c' : Nat)
    (hsafe : LabelSafe p = true) (htp : LinTypedProg p) (hprog : ProgOK p)
    (hcompM : (compile mockSym hooks p).run 0 = .ok ((ops, nargs), c')) (hfit : CodeFits ops)
    (hcompX : compileX86 p hooks 0 = .ok (body, nargs)) (hrout : intoRoutine body nargs = .ok routine)
    (hnd : (labs routine).Nodup)
    (hd : p.defs.head? = some d0) (hentry : ∀ b ∈ d0.ctx, b.chi = .ext ∧ b.ty = .i64)
    (hlen : d0.ctx.length = args.length)
    (hcap : ∀ st, Reachable p ⟨d0.ctx, args.map .int, d0.body⟩ st → 2 * st.ctx.length ≤ 266)
    (fuel : Nat) (hfuel : fuel + 1 < 2 ^ 64)
    (cfg : MonCfg) (MO : MachOK cfg.mach)
    (hb8 : cfg.mach.heapBase % 8 = 0) (hb0 : 0 < cfg.mach.heapBase)
    (Pk A M : Nat) (hA : ∀ d ∈ p.defs, LetLe A d.body) (hM : ∀ d ∈ p.defs, stmtSize d.body ≤ M)
    (hbytes : 64 * (Pk + A + 2) ≤ cfg.mach.heapBytes)
    (items : List (Code × Nat)) (hitems : (items.map (·.1)).map stripC = routine.map stripC)
    (hfitX : addrAt cfg.mach.codeBase routine routine.length < 2 ^ 64)
    (hPH : PeakHyp p hooks routine ops cfg items args d0 Pk (A * fuel + 1))
    (out : List (Bool × Word))
    (hrun : Pos.runState p fuel ⟨d0.ctx, args.map .int, d0.body⟩ [] = ⟨out, .outOfFuel⟩)
    (N : Nat) (hN : N * (M + 1) + stmtSize d0.body ≤ fuel) :
    (mkProg cfg.mach items).labelIdx["asm_main"]? = some 6 ∧ args.length ≤ 5 ∧
    ∃ n X, N ≤ n ∧ stepN cfg (mkProg cfg.mach items) n (initState cfg.mach args 6) = .inl X := by
  have hmem : d0 ∈ p.defs := by
    cases hdefs : p.defs with
    | nil => rw [hdefs] at hd; simp at hd
    | cons d ds => rw [hdefs] at hd; simp at hd; subst hd; simp
  have hc0 := hcap _ Reachable.refl
  simp only at hc0
  obtain ⟨F, pre, st0, h, n0, X0, a, En⟩ := entry_setup p args hooks body routine nargs d0 ops c' hsafe htp
    hcompM hcompX hrout hnd hd hentry hlen hc0 cfg MO hb0 (by omega) items hitems
  have hFc := En.fc
  have hinit := Scc.Heap.init_inv (base := F.c.heapBase) (limit := F.c.heapBase + F.c.heapBytes)
    (by rw [hFc]; exact hb0) (by rw [hFc]; omega)
  have hfb0 : FrBound (Scc.Heap.init F.c.heapBase (F.c.heapBase + F.c.heapBytes)) (Pk + 1) := by
    intro rs lin lazy live Fr J
    have := (Scc.Heap.InvS.witness_unique hinit J).2.2
    have hb : (Scc.Heap.init F.c.heapBase (F.c.heapBase + F.c.heapBytes)).base = F.c.heapBase := rfl
    rw [hb, this]
    omega
  have hcb0 : FrBound (Scc.Heap.init F.c.heapBase (F.c.heapBase + F.c.heapBytes)) 1 := by
    intro rs lin lazy live Fr J
    have := (Scc.Heap.InvS.witness_unique hinit J).2.2
    have hb : (Scc.Heap.init F.c.heapBase (F.c.heapBase + F.c.heapBytes)).base = F.c.heapBase := rfl
    rw [hb, this]
    omega
  obtain ⟨n, X, hn, hX⟩ := run3_progress En.frame (by rw [hFc]; exact hb8) hFc.symm En.loaded hnd
    (by rw [hFc]; exact hfitX) En.split En.clean En.entry hooks p 0 ops nargs c' hcompM hsafe htp hfit En.defs
    hprog Pk (A * fuel + 1) A M hA hM (by rw [hFc]; exact hbytes) fuel N _ [] (initConfig a args) _ X0 out 1
    En.typed hcap En.rel (hprog.2 d0 hmem) (hA d0 hmem) (by rw [En.next1]; omega) hfb0 hcb0 (by omega)
    (hPH F n0 X0 hFc En.steps) hrun hN
  exact ⟨En.main, En.nargs, n0 + n, X, by omega, stepN_trans cfg _ En.steps hX⟩

/-- every prefix of every run (as `data_programs_prefix`, for any source of the peak hypothesis): the chain of
statement boundaries -/
theorem data_programs_prefix_gen (p : AxCut.Prog) (args : List Word) (hooks : Bool) (body routine : List Code)
    (nargs : Nat) (d0 : Def) (ops : List MockOp) (c' : Nat)
    (hsafe : LabelSafe p = true) (htp : LinTypedProg p) (hprog : ProgOK p)
    (hcompM : (compile mockSym hooks p).run 0 = .ok ((ops, nargs), c')) (hfit : CodeFits ops)
    (hcompX : compileX86 p hooks 0 = .ok (body, nargs)) (hrout : intoRoutine body nargs = .ok routine)
    (hnd : (labs routine).Nodup)
    (hd : p.defs.head? = some d0) (hentry : ∀ b ∈ d0.ctx, b.chi = .ext ∧ b.ty = .i64)
    (hlen : d0.ctx.length = args.length)
    (hcap : ∀ st, Reachable p ⟨d0.ctx, args.map .int, d0.body⟩ st → 2 * st.ctx.length ≤ 266)
    (fuel : Nat) (hfuel : fuel + 1 < 2 ^ 64)
    (cfg : MonCfg) (MO : MachOK cfg.mach)
    (hb8 : cfg.mach.heapBase % 8 = 0) (hb0 : 0 < cfg.mach.heapBase)
    (Pk A : Nat) (hA : ∀ d ∈ p.defs, LetLe A d.body) (hbytes : 64 * (Pk + A + 2) ≤ cfg.mach.heapBytes)
    (items : List (Code × Nat)) (hitems : (items.map (·.1)).map stripC = routine.map stripC)
    (hfitX : addrAt cfg.mach.codeBase routine routine.length < 2 ^ 64)
    (hPH : PeakHyp p hooks routine ops cfg items args d0 Pk (A * fuel + 1)) :
    ∃ n0 X0, stepN cfg (mkProg cfg.mach items) n0 (initState cfg.mach args 6) = .inl X0 ∧
      BChain cfg (mkProg cfg.mach items) (BoundaryOf p hooks routine ops cfg)
        (statesOf p fuel ⟨d0.ctx, args.map .int, d0.body⟩) X0 := by
  have hmem : d0 ∈ p.defs := by
    cases hdefs : p.defs with
    | nil => rw [hdefs] at hd; simp at hd
    | cons d ds => rw [hdefs] at hd; simp at hd; subst hd; simp
  have hc0 := hcap _ Reachable.refl
  simp only at hc0
  obtain ⟨F, pre, st0, h, n0, X0, a, En⟩ := entry_setup p args hooks body routine nargs d0 ops c' hsafe htp
    hcompM hcompX hrout hnd hd hentry hlen hc0 cfg MO hb0 (by omega) items hitems
  have hFc := En.fc
  have hinit := Scc.Heap.init_inv (base := F.c.heapBase) (limit := F.c.heapBase + F.c.heapBytes)
    (by rw [hFc]; exact hb0) (by rw [hFc]; omega)
  have hfb0 : FrBound (Scc.Heap.init F.c.heapBase (F.c.heapBase + F.c.heapBytes)) (Pk + 1) := by
    intro rs lin lazy live Fr J
    have := (Scc.Heap.InvS.witness_unique hinit J).2.2
    have hb : (Scc.Heap.init F.c.heapBase (F.c.heapBase + F.c.heapBytes)).base = F.c.heapBase := rfl
    rw [hb, this]
    omega
  have hcb0 : FrBound (Scc.Heap.init F.c.heapBase (F.c.heapBase + F.c.heapBytes)) 1 := by
    intro rs lin lazy live Fr J
    have := (Scc.Heap.InvS.witness_unique hinit J).2.2
    have hb : (Scc.Heap.init F.c.heapBase (F.c.heapBase + F.c.heapBytes)).base = F.c.heapBase := rfl
    rw [hb, this]
    omega
  have hch := run3_prefix En.frame (by rw [hFc]; exact hb8) hFc.symm En.loaded hnd
    (by rw [hFc]; exact hfitX) En.split En.clean En.entry hooks p 0 ops nargs c' hcompM hsafe htp hfit En.defs
    hprog Pk (A * fuel + 1) A hA (by rw [hFc]; exact hbytes) fuel _ (initConfig a args) _ X0 1 En.typed hcap
    En.rel (hprog.2 d0 hmem) (hA d0 hmem) (by rw [En.next1]; omega) hfb0 hcb0 (by omega)
    (hPH F n0 X0 hFc En.steps)
  exact ⟨n0, X0, En.steps, BChain.mono (fun st X ⟨cfgA, hs, R, _⟩ => ⟨F, cfgA, hs, hFc, R⟩) hch⟩

/-! ## the runs under a bound on the source-level data -/

/-- a run that is out of fuel has made that many transitions -/
theorem runLoop_outOfFuel_stepN {m : MonCfg} (hm : m.heap = false) (p : Prog) : ∀ (f : Nat) (s : State) (b : Nat),
    (runLoop m p f s b).res = .outOfFuel → ∃ s', stepN m p f s = .inl s'
  | 0, s, _, _ => ⟨s, rfl⟩
  | f + 1, s, b, h => by
    simp only [runLoop, monitor_off hm] at h
    simp only [stepN]
    cases hst : step m p s with
    | inl s1 =>
      rw [hst] at h
      exact runLoop_outOfFuel_stepN hm p f s1 _ h
    | inr r =>
      rw [hst] at h
      simp only [finish] at h
      subst h
      -- `step` never returns `outOfFuel`
      exfalso
      unfold step at hst
      cases hc : p.code[s.pc]? with
      | none => rw [hc] at hst; cases hst
      | some code =>
        rw [hc] at hst; dsimp only at hst
        cases hx : execCode m.mach p.labelAddr code s with
        | error e => rw [hx] at hst; cases hst
        | ok r =>
          obtain ⟨s1, ctl⟩ := r
          rw [hx] at hst; dsimp only at hst
          cases ctl with
          | next => cases hst
          | jumpLabel l =>
            dsimp only at hst
            cases hl : p.labelIdx[l]? with
            | none => rw [hl] at hst; cases hst
            | some i => rw [hl] at hst; cases hst
          | jumpAddr a =>
            dsimp only at hst
            cases hl : p.addrIdx[a]? with
            | none => rw [hl] at hst; cases hst
            | some i => rw [hl] at hst; cases hst
          | callExt f' =>
            dsimp only at hst
            cases hl : callExt (if codeSize code = 0 then s1 else { s1 with steps := s1.steps + 1 }) f' with
            | error e => rw [hl] at hst; cases hst
            | ok s3 => rw [hl] at hst; cases hst
          | ret =>
            dsimp only at hst
            cases hl : retCheck m.mach (if codeSize code = 0 then s1 else { s1 with steps := s1.steps + 1 }) with
            | ok v => rw [hl] at hst; cases hst
            | error r =>
              rw [hl] at hst
              have hnd := retCheck_error_not_done hl
              cases r with
              | outOfFuel =>
                -- `retCheck` reports faults and violations only
                unfold retCheck at hl
                cases h1 : rd (if codeSize code = 0 then s1 else { s1 with steps := s1.steps + 1 }) 0 with
                | error e => rw [h1] at hl; cases hl
                | ok sp =>
                  rw [h1] at hl; dsimp only at hl
                  cases h2 : loadWord m.mach (if codeSize code = 0 then s1 else { s1 with steps := s1.steps + 1 }) sp with
                  | error e => rw [h2] at hl; cases hl
                  | ok w =>
                    rw [h2] at hl; dsimp only at hl
                    split at hl
                    · cases hl
                    · split at hl
                      · cases hl
                      · split at hl
                        · cases hl
                        · cases h3 : rd (if codeSize code = 0 then s1 else { s1 with steps := s1.steps + 1 }) 4 with
                          | error e => rw [h3] at hl; cases hl
                          | ok v' => rw [h3] at hl; cases hl
              | _ => simp at hst

/-- a run that ends with `done v` or is out of fuel in the heap cut down to `B` bytes is the same run in the
full heap -/
theorem runItems_eq_tight {cfg : MonCfg} (MO : MachOK cfg.mach) {B : Nat} (hB : B ≤ cfg.mach.heapBytes)
    (hheap : cfg.heap = false) (items : List (Code × Nat)) (args : List Word) (f : Nat)
    (h : (runItems items args f (withHeapBytes cfg B)).res = .outOfFuel ∨
      ∃ v, (runItems items args f (withHeapBytes cfg B)).res = .done v) :
    runItems items args f cfg = runItems items args f (withHeapBytes cfg B) := by
  have St := sub_withHeapBytes MO hB
  rcases h with h | ⟨v, h⟩
  · unfold runItems at h ⊢
    dsimp only at h ⊢
    have hmk : mkProg (withHeapBytes cfg B).mach items = mkProg cfg.mach items := rfl
    rw [hmk] at h ⊢
    cases hl : (mkProg cfg.mach items).labelIdx["asm_main"]? with
    | none => rfl
    | some entry =>
      rw [hl] at h
      dsimp only at h ⊢
      split
      · rfl
      · rename_i hn
        rw [if_neg hn] at h
        have hi : initState (withHeapBytes cfg B).mach args entry = initState cfg.mach args entry := rfl
        rw [hi] at h ⊢
        obtain ⟨s', hs'⟩ := runLoop_outOfFuel_stepN (m := withHeapBytes cfg B) hheap _ f _ 0 h
        exact runLoop_larger_heap_stepN St hheap hheap _ f f _ s' 0 hs' (Nat.le_refl _)
  · exact runItems_larger_heap St hheap hheap items args f v h

/-- EVERY AMOUNT OF MACHINE FUEL under a bound `D` on the fields of the object values of the positional
machine's environments: the machine on the items of the routine, in ANY heap of at least `64·(D + A + 2)` bytes,
ends in `outOfFuel` or in `done v` (the result of the positional machine), and never writes above
`64·(D + A + 2)` bytes of its heap -/
theorem data_programs_dsize_all (p : AxCut.Prog) (args : List Word) (hooks : Bool) (body routine : List Code)
    (nargs : Nat) (d0 : Def) (ops : List MockOp) (c' : Nat)
    (hsafe : LabelSafe p = true) (htp : LinTypedProg p) (hprog : ProgOK p)
    (hcompM : (compile mockSym hooks p).run 0 = .ok ((ops, nargs), c')) (hfit : CodeFits ops)
    (hcompX : compileX86 p hooks 0 = .ok (body, nargs)) (hrout : intoRoutine body nargs = .ok routine)
    (hnd : (labs routine).Nodup)
    (hd : p.defs.head? = some d0) (hentry : ∀ b ∈ d0.ctx, b.chi = .ext ∧ b.ty = .i64)
    (hlen : d0.ctx.length = args.length)
    (hcap : ∀ st, Reachable p ⟨d0.ctx, args.map .int, d0.body⟩ st → 2 * st.ctx.length ≤ 266)
    (hnostuck : ∀ fuel w, (Pos.run p args fuel).res ≠ .stuck w)
    (D : Nat) (hD : ∀ st, Reachable p ⟨d0.ctx, args.map .int, d0.body⟩ st → valsFields st.env ≤ D)
    (cfg : MonCfg) (MO : MachOK cfg.mach) (hheap : cfg.heap = false)
    (hb8 : cfg.mach.heapBase % 8 = 0) (hb0 : 0 < cfg.mach.heapBase)
    (A M : Nat) (hA : ∀ d ∈ p.defs, LetLe A d.body) (hM : ∀ d ∈ p.defs, stmtSize d.body ≤ M)
    (hbytes : 64 * (D + A + 2) ≤ cfg.mach.heapBytes)
    (items : List (Code × Nat)) (hitems : (items.map (·.1)).map stripC = routine.map stripC)
    (hfitX : addrAt cfg.mach.codeBase routine routine.length < 2 ^ 64)
    (fuel' : Nat) (hf : fuel' * (M + 1) + stmtSize d0.body + 1 < 2 ^ 64) :
    ((runItems items args fuel' cfg).res = .outOfFuel ∨
      ∃ v out, Pos.run p args (fuel' * (M + 1) + stmtSize d0.body) = ⟨out, .done v⟩ ∧
        (runItems items args fuel' cfg).res = .done v) ∧
    (runItems items args fuel' cfg).maxHeapWritten ≤ 64 * (D + A + 2) := by
  -- the run in the heap cut down to `64·(D + A + 2)` bytes
  have MOt := machOK_withHeapBytes MO hbytes
  have hmt := runItems_mhw items args fuel' (withHeapBytes cfg (64 * (D + A + 2))) hheap
  have hrs := run_eq_runState hd hlen (fuel' * (M + 1) + stmtSize d0.body)
  have htight : (runItems items args fuel' (withHeapBytes cfg (64 * (D + A + 2)))).res = .outOfFuel ∨
      ∃ v out, Pos.run p args (fuel' * (M + 1) + stmtSize d0.body) = ⟨out, .done v⟩ ∧
        (runItems items args fuel' (withHeapBytes cfg (64 * (D + A + 2)))).res = .done v := by
    cases hres : Pos.run p args (fuel' * (M + 1) + stmtSize d0.body) with
    | mk out res =>
    cases res with
    | stuck w => exact absurd (by rw [hres]) (hnostuck (fuel' * (M + 1) + stmtSize d0.body) w)
    | done v =>
      obtain ⟨f0, _, h2⟩ := data_programs_run_gen p args hooks body routine nargs d0 ops c' hsafe htp hprog
        hcompM hfit hcompX hrout hnd hd hentry hcap _ out v hf hres (withHeapBytes cfg (64 * (D + A + 2))) MOt hheap
        hb8 hb0 D A hA (Nat.le_refl _) items hitems hfitX (peakHyp_of_data hD)
      rcases CC.runItems_res_of_done (items := items) (args := args)
        (cfg := withHeapBytes cfg (64 * (D + A + 2))) (f0 := f0) (v := v) h2 fuel' with h | h
      · exact Or.inl h
      · exact Or.inr ⟨v, out, rfl, h⟩
    | outOfFuel =>
      left
      rw [hrs] at hres
      obtain ⟨hmain, hargs, n, X, hn, hX⟩ := data_programs_progress_gen p args hooks body routine nargs d0 ops c'
        hsafe htp hprog hcompM hfit hcompX hrout hnd hd hentry hlen hcap _ hf (withHeapBytes cfg (64 * (D + A + 2)))
        MOt hb8 hb0 D A M hA hM (Nat.le_refl _) items hitems hfitX (peakHyp_of_data hD) out hres fuel' (Nat.le_refl _)
      have hargs' : ¬ args.length > 5 := by omega
      unfold runItems
      simp only [hmain]
      rw [if_neg hargs']
      exact runLoop_outOfFuel (m := withHeapBytes cfg (64 * (D + A + 2))) hheap _ fuel' n _ X 0 hX hn
  have e := runItems_eq_tight MO hbytes hheap items args fuel' (by
    rcases htight with h | ⟨v, _, _, h⟩
    · exact Or.inl h
    · exact Or.inr ⟨v, h⟩)
  rw [e]
  exact ⟨htight, hmt⟩

end Scc.X86.Conc
