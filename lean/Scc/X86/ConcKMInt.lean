/-
  Scc.X86.ConcKMInt — THE THREE-WAY SIMULATION OF THE HEAP-FREE STATEMENTS (`lit`, `op`, `print`, `ifc`;
  Scc/X86/RefClosHInt.lean) WITH THE PROGRAM COUNTERS IN BETWEEN: none of the machine states strictly between the
  statement boundary and the next one is at a `#ctx` comment (`Mid`, Scc/X86/ConcKMid.lean) — gap (4b) of
  `C09_x86_monitor_statement`.  `lit_x3M` … are `lit_x3` … with this one more conjunct (same proofs); `op_x3M`
  needs that the name of the target variable does not start with `#` (its comment starts with the name).
-/
import Scc.X86.ConcKNoCtx

set_option linter.unusedVariables false
set_option linter.unusedSimpArgs false

namespace Scc.X86.Ref.K

open Scc.AxCut Scc.AxCut.Pos Scc.Backend Scc.Backend.Abs Scc.Backend.Sim Scc.Backend.Sim2 Scc.X86
open Scc.Heap (HState)
open Scc.Heap.Refine (HRef)


section Int3M

variable {F : Frame} (HF : FrameOK F) {mon : MonCfg} (hmon : mon.mach = F.c)
  {px : X86.Prog} {cs : List Code} (L : Loaded px cs) (hndL : (labs cs).Nodup)

include HF hmon L in
/-- THREE-WAY SIMULATION OF `lit` -/
theorem lit_x3M {P : Program} {hooks : Bool} {prog : AxCut.Prog} {Γ : Ctx} {ρ : List Value} {x : Ident}
    {n : Int} {next : Stmt} {fv : FV} {cfg : Config}
    (R : RelX P hooks prog ⟨Γ, ρ, .lit x n next fv⟩ cfg)
    (hfresh : ∀ b ∈ Γ, b.var.id ≠ x.id) (hcap : 2 * (Γ.length + 1) + 2 < Mock.T_TEMP)
    {hs : HState} {ι : Nat → Nat} {κ : Nat → Nat → Word} {st : State} (X : X3 F Γ cfg hs ι κ st)
    {kx kx' : Nat} {items : List Code}
    (hrunX : (codeStatementR x86Backend hooks natRen prog.types (.lit x n next fv) Γ).run kx = .ok (items, kx'))
    (hatX : XAt cs st.pc items) (hfit : fitsI64 n = true) :
    ∃ cfg' st' m, stepsTo P 1 cfg cfg' ∧ stepN mon px m st = .inl st' ∧
      cfg'.out = cfg.out ∧ cfg'.next = cfg.next ∧
      RelX P hooks prog ⟨Γ ++ [⟨x, .ext, .i64⟩], ρ ++ [.int (BitVec.ofInt 64 n)], next⟩ cfg' ∧
      X3 F (Γ ++ [⟨x, .ext, .i64⟩]) cfg' hs ι κ st' ∧
      ∃ k1 k1' items', (codeStatementR x86Backend hooks natRen prog.types next
          (Γ ++ [⟨x, .ext, .i64⟩])).run k1 = .ok (items', k1') ∧ XAt cs st'.pc items' ∧
        cfg'.heap = cfg.heap ∧ KeepPos F Γ.length cfg cfg' st st' ∧ Mid mon px cs m st := by
  obtain ⟨cfg', hst, hout, hnext, R'⟩ := sim2_lit R hfresh hcap
  -- the mock code, the abstract step explicitly
  obtain ⟨c, c', ops, hrun, hat⟩ := R.code
  simp only [codeStatementR, run_bind_ok, run_pure_ok, mockSym_variableTemporary, vt_run_ok] at hrun
  obtain ⟨t, k1, ⟨pos, hpos, rfl, rfl⟩, c2, k2, h2, rfl, rfl⟩ := hrun
  have hp : pos = Γ.length := by
    rw [ctxPosition_eq_posOf] at hpos
    have := posOf_append_fresh Γ ⟨x, .ext, .i64⟩ hfresh
    rw [this] at hpos
    exact (Option.some.inj hpos).symm
  subst hp
  simp only [mockSym_loadImmediate, mockSym_comment, List.append_assoc, CodeAt_hook] at hat
  simp only [List.cons_append, List.nil_append, CodeAt, TempNum.toNat] at hat
  obtain ⟨hcode, _⟩ := hat
  have hB := step_li P cfg _ n hcode (by unfold Mock.T_TEMP at hcap ⊢; omega)
  rw [stepsTo_one_inv hst] at hB
  injection hB with hB
  -- the x86 code
  simp only [codeStatementR, run_bind_ok, run_pure_ok] at hrunX
  obtain ⟨tX, _, htX, c2X, k2X, h2X, rfl, rfl⟩ := hrunX
  obtain ⟨pX, hpX, hltX, rfl, rfl⟩ := (x86_vt_run_ok _ _ _ _ _ _).1 htX
  have hpX' : pX = Γ.length := by
    have := posOf_append_fresh Γ ⟨x, .ext, .i64⟩ hfresh
    rw [this] at hpX
    exact (Option.some.inj hpX).symm
  subst hpX'
  simp only [TempNum.toNat] at hltX
  generalize hc0 : hookCode x86Backend hooks Γ ++
    [x86Backend.comment ("lit " ++ x.print ++ " <- " ++ toString n ++ ";")] = c0 at hatX
  have hc0c : ∀ y ∈ c0, ∃ m', y = Code.COMMENT m' := by rw [← hc0]; exact hook_comments hooks Γ _
  have hxl : x86Backend.loadImmediate (posTemp (2 * Γ.length + TempNum.snd.toNat)) n =
      loadImmediate (posTemp (2 * Γ.length + 1)) n := rfl
  rw [hxl] at hatX
  have hatA : XAt cs st.pc (c0 ++ (loadImmediate (posTemp (2 * Γ.length + 1)) n ++ c2X)) := by
    simpa [List.append_assoc] using hatX
  obtain ⟨k0, hk0⟩ := x_steps_straight mon L hatA.left
    (execStraight_comments mon.mach px.labelAddr c0 st hc0c)
  have X0 : X3 F Γ cfg hs ι κ (setPS st (st.pc + c0.length) k0) := X3R.setPS X _ _
  obtain ⟨st2, hx2, B2, hv2, P2⟩ := loadImmediate_correct (la := px.labelAddr) X0.bnd (tempOK_posTemp hltX) hfit
  rw [← hmon] at hx2
  obtain ⟨k2', hk2⟩ := x_steps_straight mon L (s := setPS st (st.pc + c0.length) k0) hatA.right.left hx2
  have X2 : X3R F (Γ ++ [⟨x, .ext, .i64⟩]) cfg' (roots Γ cfg.temps) hs ι κ st2 :=
    X3R.snoc HF X0 hltX B2 P2 (a := BitVec.ofInt 64 n) hv2 (fun _ => rfl) (by rw [hB]) (by rw [hB])
      (by rw [hB]) (by rw [hB]) (fun h => absurd rfl h)
  have hcapX := X.cap
  have hmid : Mid mon px cs _ st := Mid.trans (mid_comments mon L hatA.left hc0c (by
      rw [← hc0]; exact noCtx_tail_hook hooks Γ (by simp only [String.append_assoc]; exact not_isCtx_lit_head _ _ (c := 'l') (by decide) (by decide)))) hk0
    (midS_straight mon L hatA.right.left hx2 (noCtx_loadImmediate _ _)) (by rw [← hc0]; exact hookCode_length_pos _ _ _)
  refine ⟨cfg', _, _, hst, stepN_trans mon px hk0 hk2, hout, hnext, R', ?_, _, _, c2X, h2X,
    hatA.right.right, by rw [hB], ⟨fun t ht => by
      rw [hB]; simp only
      rw [get_set_other _ _ (by omega), get_clobberTemp _ (by unfold Mock.T_TEMP; omega)], fun i hi => by
      rw [tempVal_setPS, mach_keep_some hltX P2 (by omega) (by omega), tempVal_setPS]⟩, hmid⟩
  show X3R F _ cfg' (roots _ cfg'.temps) hs ι κ _
  rw [roots_snoc_ext cfg.temps cfg'.temps Γ _ rfl (fun t ht => by
    rw [hB]; simp only
    rw [get_set_other _ _ (by omega), get_clobberTemp _ (by unfold Mock.T_TEMP; omega)])]
  exact X3R.setPS X2 _ _

include HF hmon L in
/-- THREE-WAY SIMULATION OF `op` -/
theorem op_x3M {P : Program} {hooks : Bool} {prog : AxCut.Prog} {Γ : Ctx} {ρ : List Value} {x a b : Ident}
    {o : BinOp} {next : Stmt} {fv : FV} {cfg : Config} {va vb v : Word}
    (R : RelX P hooks prog ⟨Γ, ρ, .op x a o b next fv⟩ cfg)
    (hfresh : ∀ b' ∈ Γ, b'.var.id ≠ x.id) (hcap : 2 * (Γ.length + 1) + 2 < Mock.T_TEMP)
    (ha : readInt Γ ρ a = .ok va) (hb : readInt Γ ρ b = .ok vb) (hv : Pos.evalOp o va vb = .ok v)
    {hs : HState} {ι : Nat → Nat} {κ : Nat → Nat → Word} {st : State} (X : X3 F Γ cfg hs ι κ st)
    {kx kx' : Nat} {items : List Code}
    (hrunX : (codeStatementR x86Backend hooks natRen prog.types (.op x a o b next fv) Γ).run kx = .ok (items, kx'))
    (hatX : XAt cs st.pc items) (hxh : HashFree x) :
    ∃ cfg' st' m, stepsTo P 1 cfg cfg' ∧ stepN mon px m st = .inl st' ∧
      cfg'.out = cfg.out ∧ cfg'.next = cfg.next ∧
      RelX P hooks prog ⟨Γ ++ [⟨x, .ext, .i64⟩], ρ ++ [.int v], next⟩ cfg' ∧
      X3 F (Γ ++ [⟨x, .ext, .i64⟩]) cfg' hs ι κ st' ∧
      ∃ k1 k1' items', (codeStatementR x86Backend hooks natRen prog.types next
          (Γ ++ [⟨x, .ext, .i64⟩])).run k1 = .ok (items', k1') ∧ XAt cs st'.pc items' ∧
        cfg'.heap = cfg.heap ∧ KeepPos F Γ.length cfg cfg' st st' ∧ Mid mon px cs m st := by
  obtain ⟨cfg', hst, hout, hnext, R'⟩ := sim2_op R hfresh hcap ha hb hv
  obtain ⟨c, c', ops, hrun, hat⟩ := R.code
  simp only [codeStatementR, run_bind_ok, run_pure_ok, mockSym_variableTemporary, vt_run_ok] at hrun
  obtain ⟨t, k1, ⟨pos, hpos, rfl, rfl⟩, s1, k2, ⟨p1, hp1, rfl, rfl⟩, s2, k3, ⟨p2, hp2, rfl, rfl⟩,
    c2, k4, h2, rfl, rfl⟩ := hrun
  have hp : pos = Γ.length := by
    rw [ctxPosition_eq_posOf] at hpos
    have := posOf_append_fresh Γ ⟨x, .ext, .i64⟩ hfresh
    rw [this] at hpos
    exact (Option.some.inj hpos).symm
  subst hp
  obtain ⟨i1, hi1, hl1, hg1⟩ := R.readInt ha
  obtain ⟨i2, hi2, hl2, hg2⟩ := R.readInt hb
  simp only at hi1 hi2 hl1 hl2
  have e1 : p1 = i1 := by
    rw [ctxPosition_eq_posOf] at hp1 hi1
    have := posOf_append_old [⟨x, .ext, .i64⟩] hi1
    rw [this] at hp1; exact (Option.some.inj hp1).symm
  have e2 : p2 = i2 := by
    rw [ctxPosition_eq_posOf] at hp2 hi2
    have := posOf_append_old [⟨x, .ext, .i64⟩] hi2
    rw [this] at hp2; exact (Option.some.inj hp2).symm
  subst e1 e2
  simp only [mockSym_binop, mockSym_comment, List.append_assoc, CodeAt_hook] at hat
  simp only [List.cons_append, List.nil_append, CodeAt, TempNum.toNat] at hat
  obtain ⟨hcode, _⟩ := hat
  have hB := step_binop P cfg o _ _ _ va vb v hcode (by unfold Mock.T_TEMP at hcap ⊢; omega) hg1 hg2
    (evalBinOp_of_evalOp hv)
  rw [stepsTo_one_inv hst] at hB
  injection hB with hB
  -- the kinds of the operands
  have hchi1 : Γ[p1].chi = .ext := by
    have := (R.vals p1 hl1 (by show _ < ρ.length; have hlen : ρ.length = Γ.length := R.len; omega)).2.2.1
    simp only at this
    obtain ⟨_, hpo, hval⟩ := readInt_ok ha
    rw [ctxPosition_eq_posOf] at hi1
    rw [hi1] at hpo
    cases hpo
    rw [List.getElem?_eq_getElem (by show _ < ρ.length; have hlen : ρ.length = Γ.length := R.len; omega)] at hval
    injection hval with hval
    rw [this, hval]; rfl
  have hchi2 : Γ[p2].chi = .ext := by
    have := (R.vals p2 hl2 (by show _ < ρ.length; have hlen : ρ.length = Γ.length := R.len; omega)).2.2.1
    simp only at this
    obtain ⟨_, hpo, hval⟩ := readInt_ok hb
    rw [ctxPosition_eq_posOf] at hi2
    rw [hi2] at hpo
    cases hpo
    rw [List.getElem?_eq_getElem (by show _ < ρ.length; have hlen : ρ.length = Γ.length := R.len; omega)] at hval
    injection hval with hval
    rw [this, hval]; rfl
  -- the x86 code
  simp only [codeStatementR, run_bind_ok, run_pure_ok] at hrunX
  obtain ⟨tX, _, htX, s1X, _, hs1X, s2X, _, hs2X, c2X, k2X, h2X, rfl, rfl⟩ := hrunX
  obtain ⟨pX, hpX, hltX, rfl, rfl⟩ := (x86_vt_run_ok _ _ _ _ _ _).1 htX
  obtain ⟨q1, hq1, hlt1, rfl, rfl⟩ := (x86_vt_run_ok _ _ _ _ _ _).1 hs1X
  obtain ⟨q2, hq2, hlt2, rfl, rfl⟩ := (x86_vt_run_ok _ _ _ _ _ _).1 hs2X
  have hpX' : pX = Γ.length := by
    have := posOf_append_fresh Γ ⟨x, .ext, .i64⟩ hfresh
    rw [this] at hpX
    exact (Option.some.inj hpX).symm
  subst hpX'
  have eq1 : q1 = p1 := by
    rw [ctxPosition_eq_posOf] at hi1
    have := posOf_append_old [⟨x, .ext, .i64⟩] hi1
    rw [this] at hq1; exact (Option.some.inj hq1).symm
  have eq2 : q2 = p2 := by
    rw [ctxPosition_eq_posOf] at hi2
    have := posOf_append_old [⟨x, .ext, .i64⟩] hi2
    rw [this] at hq2; exact (Option.some.inj hq2).symm
  subst eq1 eq2
  simp only [TempNum.toNat] at hltX hlt1 hlt2
  generalize hc0 : hookCode x86Backend hooks Γ ++
    [x86Backend.comment (x.print ++ " <- " ++ a.print ++ " " ++ o.sym ++ " " ++ b.print ++ ";")] = c0 at hatX
  have hc0c : ∀ y ∈ c0, ∃ m', y = Code.COMMENT m' := by rw [← hc0]; exact hook_comments hooks Γ _
  have hxl : x86Backend.binop o (posTemp (2 * Γ.length + TempNum.snd.toNat))
      (posTemp (2 * q1 + TempNum.snd.toNat)) (posTemp (2 * q2 + TempNum.snd.toNat)) =
      binop o (posTemp (2 * Γ.length + 1)) (posTemp (2 * q1 + 1)) (posTemp (2 * q2 + 1)) := rfl
  rw [hxl] at hatX
  have hatA : XAt cs st.pc (c0 ++ (binop o (posTemp (2 * Γ.length + 1)) (posTemp (2 * q1 + 1))
      (posTemp (2 * q2 + 1)) ++ c2X)) := by
    simpa [List.append_assoc] using hatX
  obtain ⟨k0, hk0⟩ := x_steps_straight mon L hatA.left
    (execStraight_comments mon.mach px.labelAddr c0 st hc0c)
  have X0 : X3 F Γ cfg hs ι κ (setPS st (st.pc + c0.length) k0) := X3R.setPS X _ _
  have hw1 := X0.words q1 hl1 va hg1
  have hw2 := X0.words q2 hl2 vb hg2
  rw [hchi1] at hw1
  rw [hchi2] at hw2
  have D : DivPlacement (posTemp (2 * Γ.length + 1)) (posTemp (2 * q1 + 1)) (posTemp (2 * q2 + 1)) := by
    refine ⟨tempOK_posTemp hltX, tempOK_posTemp hlt1, tempOK_posTemp hlt2,
      fun e => by have := posTemp_inj.1 e; omega, fun e => by have := posTemp_inj.1 e; omega, ?_, ?_, ?_⟩
    · unfold posTemp; split
      · intro e; injection e with e; omega
      · intro e; cases e
    · unfold posTemp; split
      · intro e; injection e with e; omega
      · intro e; cases e
    · unfold posTemp; split
      · intro e; injection e with e; omega
      · intro e; cases e
  obtain ⟨st2, hx2, B2, hv2, P2⟩ := binop_correct (la := px.labelAddr) X0.bnd o D hw1 hw2 hv
  rw [← hmon] at hx2
  obtain ⟨k2', hk2⟩ := x_steps_straight mon L (s := setPS st (st.pc + c0.length) k0) hatA.right.left hx2
  have X2 : X3R F (Γ ++ [⟨x, .ext, .i64⟩]) cfg' (roots Γ cfg.temps) hs ι κ st2 :=
    X3R.snoc HF X0 hltX B2 P2 (a := v) hv2 (fun _ => rfl) (by rw [hB]) (by rw [hB])
      (by rw [hB]) (by rw [hB]) (fun h => absurd rfl h)
  have hcapX := X.cap
  have hmid : Mid mon px cs _ st := Mid.trans (mid_comments mon L hatA.left hc0c (by
      rw [← hc0]; exact noCtx_tail_hook hooks Γ (by simp only [String.append_assoc]; exact not_isCtx_name_first hxh (by rw [head_append_lit (a := " <- ") (c := ' ') (by decide)]; decide)))) hk0
    (midS_straight mon L hatA.right.left hx2 (noCtx_binop _ _ _ _)) (by rw [← hc0]; exact hookCode_length_pos _ _ _)
  refine ⟨cfg', _, _, hst, stepN_trans mon px hk0 hk2, hout, hnext, R', ?_, _, _, c2X, h2X,
    hatA.right.right, by rw [hB], ⟨fun t ht => by
      rw [hB]; simp only
      rw [get_set_other _ _ (by omega), get_clobberTemp _ (by unfold Mock.T_TEMP; omega)], fun i hi => by
      rw [tempVal_setPS, mach_keep_some hltX P2 (by omega) (by omega), tempVal_setPS]⟩, hmid⟩
  show X3R F _ cfg' (roots _ cfg'.temps) hs ι κ _
  rw [roots_snoc_ext cfg.temps cfg'.temps Γ _ rfl (fun t ht => by
    rw [hB]; simp only
    rw [get_set_other _ _ (by omega), get_clobberTemp _ (by unfold Mock.T_TEMP; omega)])]
  exact X3R.setPS X2 _ _

include HF hmon L in
/-- THREE-WAY SIMULATION OF `print` -/
theorem print_x3M {P : Program} {hooks : Bool} {prog : AxCut.Prog} {Γ : Ctx} {ρ : List Value} {a : Ident}
    {nl : Bool} {next : Stmt} {fv : FV} {cfg : Config} {v : Word}
    (R : RelX P hooks prog ⟨Γ, ρ, .print nl a next fv⟩ cfg) (ha : readInt Γ ρ a = .ok v)
    {hs : HState} {ι : Nat → Nat} {κ : Nat → Nat → Word} {st : State} (X : X3 F Γ cfg hs ι κ st)
    {kx kx' : Nat} {items : List Code}
    (hrunX : (codeStatementR x86Backend hooks natRen prog.types (.print nl a next fv) Γ).run kx = .ok (items, kx'))
    (hatX : XAt cs st.pc items) :
    ∃ cfg' st' m, stepsTo P 1 cfg cfg' ∧ stepN mon px m st = .inl st' ∧
      cfg'.out = (nl, v) :: cfg.out ∧ cfg'.next = cfg.next ∧
      RelX P hooks prog ⟨Γ, ρ, next⟩ cfg' ∧ X3 F Γ cfg' hs ι κ st' ∧
      ∃ k1 k1' items', (codeStatementR x86Backend hooks natRen prog.types next Γ).run k1 = .ok (items', k1') ∧
        XAt cs st'.pc items' ∧ cfg'.heap = cfg.heap ∧ KeepPos F Γ.length cfg cfg' st st' ∧ Mid mon px cs m st := by
  obtain ⟨cfg', hst, hout, hnext, R'⟩ := sim2_print R ha
  obtain ⟨c, c', ops, hrun, hat⟩ := R.code
  simp only [codeStatementR, run_bind_ok, run_pure_ok, mockSym_variableTemporary, vt_run_ok,
    mockSym_printI64] at hrun
  obtain ⟨t, k1, ⟨pos, hpos, rfl, rfl⟩, c1, k2, ⟨rfl, rfl⟩, c2, k3, h2, rfl, rfl⟩ := hrun
  obtain ⟨i, hi, hl, hg⟩ := R.readInt ha
  simp only at hi hl
  rw [hi] at hpos
  cases hpos
  simp only [mockSym_comment, List.append_assoc, CodeAt_hook] at hat
  simp only [List.cons_append, List.nil_append, CodeAt, TempNum.toNat] at hat
  obtain ⟨hcode, _⟩ := hat
  have hB := step_print P cfg nl _ _ v hcode hg
  rw [stepsTo_one_inv hst] at hB
  injection hB with hB
  have hchi : Γ[pos].chi = .ext := by
    have := (R.vals pos hl (by show _ < ρ.length; have hlen : ρ.length = Γ.length := R.len; omega)).2.2.1
    simp only at this
    obtain ⟨_, hpo, hval⟩ := readInt_ok ha
    rw [ctxPosition_eq_posOf] at hi
    rw [hi] at hpo
    cases hpo
    rw [List.getElem?_eq_getElem (by show _ < ρ.length; have hlen : ρ.length = Γ.length := R.len; omega)] at hval
    injection hval with hval
    rw [this, hval]; rfl
  -- the x86 code
  simp only [codeStatementR, run_bind_ok, run_pure_ok] at hrunX
  obtain ⟨tX, _, htX, c1X, _, hc1X, c2X, k2X, h2X, rfl, rfl⟩ := hrunX
  obtain ⟨pX, hpX, hltX, rfl, rfl⟩ := (x86_vt_run_ok _ _ _ _ _ _).1 htX
  have hpX' : pX = pos := by
    rw [ctxPosition_eq_posOf] at hi
    rw [hi] at hpX; exact (Option.some.inj hpX).symm
  subst hpX'
  simp only [TempNum.toNat] at hltX
  have hc1 : c1X = printI64 nl (posTemp (2 * pX + 1)) Γ := by
    have : (x86Backend.printI64 nl (posTemp (2 * pX + TempNum.snd.toNat)) Γ).run kx =
        .ok (printI64 nl (posTemp (2 * pX + 1)) Γ, kx) := rfl
    rw [this] at hc1X
    injection hc1X with hc1X
    injection hc1X with e1 _
    exact e1.symm
  subst hc1
  generalize hc0 : hookCode x86Backend hooks Γ ++
    [x86Backend.comment ((if nl then "println_i64" else "print_i64") ++ " " ++ a.print ++ ";")] = c0 at hatX
  have hc0c : ∀ y ∈ c0, ∃ m', y = Code.COMMENT m' := by rw [← hc0]; exact hook_comments hooks Γ _
  have hatA : XAt cs st.pc (c0 ++ (printI64 nl (posTemp (2 * pX + 1)) Γ ++ c2X)) := by
    simpa [List.append_assoc] using hatX
  obtain ⟨k0, hk0⟩ := x_steps_straight mon L hatA.left
    (execStraight_comments mon.mach px.labelAddr c0 st hc0c)
  have X0 : X3 F Γ cfg hs ι κ (setPS st (st.pc + c0.length) k0) := X3R.setPS X _ _
  have hw := X0.words pX hl v hg
  rw [hchi] at hw
  have h1 := HF.low; have h2' := HF.high; have h3 := HF.m16
  have e2 : F.spN = F.m - 2096 := rfl
  have hspe : F.sp = BitVec.ofNat 64 F.spN := rfl
  obtain ⟨st2, ex, ho, K⟩ := print_preserves_machine (la := px.labelAddr) HF.cfg nl Γ (posTemp (2 * pX + 1))
    (tempOK_posTemp hltX)
    (by
      intro r hr
      unfold posTemp at hr
      split at hr
      · injection hr with hr; omega
      · cases hr)
    X0.bnd.size (m := F.spN) (by rw [← hspe]; exact X0.bnd.rsp) (by rw [e2]; omega) (by rw [e2]; omega)
    (by rw [e2]; omega) (x := v) (by rw [← hspe]; exact hw)
  rw [← hmon] at ex
  obtain ⟨k2', hk2⟩ := x_steps_seq mon L (s := setPS st (st.pc + c0.length) k0) hatA.right.left ex
  -- every temporary of a position of the context survives the call
  have hkeepW : ∀ j, j < Γ.length → tempVal F.sp st2 (posTemp (2 * j + 1)) =
      tempVal F.sp (setPS st (st.pc + c0.length) k0) (posTemp (2 * j + 1)) := by
    intro j hj
    unfold posTemp
    by_cases hr : 2 * j + 1 + 4 < 16
    · simp only [if_pos hr]
      simp only [tempVal]
      have := K.snd j Γ[j] (by simp [hj]) (by omega)
      rw [show 2 * j + 1 + 4 = 2 * j + 5 by omega, this]
    · simp only [if_neg hr]
      simp only [tempVal]
      exact K.mem _ (by simp only [slotAddr, HF.sp_toNat]; omega)
  have hkeepP : ∀ j (hj : j < Γ.length), Γ[j].chi ≠ .ext → tempVal F.sp st2 (posTemp (2 * j)) =
      tempVal F.sp (setPS st (st.pc + c0.length) k0) (posTemp (2 * j)) := by
    intro j hj hc
    unfold posTemp
    by_cases hr : 2 * j + 4 < 16
    · simp only [if_pos hr]
      simp only [tempVal]
      have := K.fst j Γ[j] (by simp [hj]) hc (by omega)
      rw [this]
    · simp only [if_neg hr]
      simp only [tempVal]
      exact K.mem _ (by simp only [slotAddr, HF.sp_toNat]; omega)
  have hσ : ∀ t, t < 2 * Γ.length → cfg'.temps.get t = cfg.temps.get t := by
    intro t ht'
    rw [hB]
    simp only
    rw [get_keepPositions]
    simp [Mock.kindsOf, ht']
  have hmid : Mid mon px cs _ st := Mid.trans (mid_comments mon L hatA.left hc0c (by
      rw [← hc0]; exact noCtx_tail_hook hooks Γ (by
        cases nl <;> simp only [String.append_assoc, if_true, Bool.false_eq_true, if_false] <;>
          exact not_isCtx_lit_head _ _ (c := 'p') (by decide) (by decide)))) hk0
    (midS_seq mon L hatA.right.left ex (noCtx_printI64 _ _ _)) (by rw [← hc0]; exact hookCode_length_pos _ _ _)
  refine ⟨cfg', _, _, hst, stepN_trans mon px hk0 hk2, hout, hnext, R', ?_, _, _, c2X, h2X, hatA.right.right,
    by rw [hB], ⟨hσ, fun i hi => by rw [tempVal_setPS, hkeepW i hi, tempVal_setPS]⟩, hmid⟩
  apply X3R.setPS
  refine ⟨⟨K.size, by rw [K.rsp]; exact X0.bnd.rsp, X0.bnd.sp⟩, X0.cap, ?_, ?_, ?_, ?_, ?_, ?_⟩
  · intro j hj a' ha'
    rw [hσ _ (by omega)] at ha'
    rw [hkeepW j hj]
    exact X0.words j hj a' ha'
  · intro j hj hc r hr
    rw [hσ _ (by omega)] at hr
    rw [hkeepP j hj hc]
    exact X0.ptrs j hj hc r hr
  · rw [ho, hB]
    simp only
    rw [X0.out]
  · intro m hm
    rw [K.mem m (by rw [e2]; omega)]
    exact X0.frame m hm
  · refine ⟨X0.hrel.base, X0.hrel.limit, fun a' => by rw [K.heapMem]; exact X0.hrel.mem a', ?_, ?_⟩
    · obtain ⟨w, hw', e⟩ := X0.hrel.heap
      exact ⟨w, by unfold regIs at hw' ⊢; rw [show HEAP = 2 from rfl, K.heap]; exact hw', e⟩
    · obtain ⟨w, hw', e⟩ := X0.hrel.free
      exact ⟨w, by unfold regIs at hw' ⊢; rw [show FREE = 3 from rfl, K.free]; exact hw', e⟩
  · have e1 : cfg'.heap = cfg.heap := by rw [hB]
    have e2' : cfg'.next = cfg.next := by rw [hB]
    rw [e1, e2', roots_congr _ _ _ (fun i hi => hσ (2 * i) (by omega))]
    exact X0.href

include HF hmon L hndL in
/-- THREE-WAY SIMULATION OF `ifc` -/
theorem ifc_x3M {P : Program} {hooks : Bool} {prog : AxCut.Prog} {Γ : Ctx} {ρ : List Value} {a : Ident}
    {b : Option Ident} {srt : IfSort} {t e : Stmt} {cfg : Config} {va vb : Word}
    (R : RelX P hooks prog ⟨Γ, ρ, .ifc srt a b t e⟩ cfg) (ha : readInt Γ ρ a = .ok va)
    (hb : match b with | none => vb = 0 | some b' => readInt Γ ρ b' = .ok vb)
    {hs : HState} {ι : Nat → Nat} {κ : Nat → Nat → Word} {st : State} (X : X3 F Γ cfg hs ι κ st)
    {kx kx' : Nat} {items : List Code}
    (hrunX : (codeStatementR x86Backend hooks natRen prog.types (.ifc srt a b t e) Γ).run kx = .ok (items, kx'))
    (hatX : XAt cs st.pc items) :
    ∃ cfg' st' m, stepsTo P 1 cfg cfg' ∧ stepN mon px m st = .inl st' ∧
      cfg'.out = cfg.out ∧ cfg'.next = cfg.next ∧
      RelX P hooks prog ⟨Γ, ρ, if Pos.evalCmp srt va vb then t else e⟩ cfg' ∧ X3 F Γ cfg' hs ι κ st' ∧
      ∃ k1 k1' items', (codeStatementR x86Backend hooks natRen prog.types
          (if Pos.evalCmp srt va vb then t else e) Γ).run k1 = .ok (items', k1') ∧ XAt cs st'.pc items' ∧
        cfg'.heap = cfg.heap ∧ KeepPos F Γ.length cfg cfg' st st' ∧ Mid mon px cs m st := by
  obtain ⟨cfg', hst, hout, hnext, R'⟩ := sim2_ifc R ha hb
  have hstep := stepsTo_one_inv hst
  -- the abstract step changes only the program counter and TEMP
  have J : JumpFacts cfg cfg' := by
    obtain ⟨c, c', ops, hrun, hat⟩ := R.code
    simp only [codeStatementR, run_bind_ok, run_pure_ok, freshLabelStr_run_ok] at hrun
    obtain ⟨num, k1, ⟨rfl, rfl⟩, c1, k2, h1, c2, k3, h2, c3, k4, h3, rfl, rfl⟩ := hrun
    simp only [mockSym_comment, mockSym_label, List.append_assoc, CodeAt_hook] at hat
    simp only [List.cons_append, List.nil_append, CodeAt] at hat
    rw [CodeAt_append] at hat
    obtain ⟨hat1, _⟩ := hat
    cases b with
    | none =>
      simp only [run_bind_ok, run_pure_ok, mockSym_variableTemporary, vt_run_ok] at h1
      obtain ⟨ta, k5, ⟨p, hp, rfl, rfl⟩, rfl, rfl⟩ := h1
      simp only [mockSym_jumpLabelIfZero, CodeAt] at hat1
      exact step_jifz_facts hat1.1 hstep
    | some b' =>
      simp only [run_bind_ok, run_pure_ok, mockSym_variableTemporary, vt_run_ok] at h1
      obtain ⟨ta, k5, ⟨p, hp, rfl, rfl⟩, tb, k6, ⟨q, hq, rfl, rfl⟩, rfl, rfl⟩ := h1
      simp only [mockSym_jumpLabelIf, CodeAt] at hat1
      exact step_jif_facts hat1.1 hstep
  -- the kinds of the operands
  have hext : ∀ {y : Ident} {w : Word}, readInt Γ ρ y = .ok w →
      ∃ i, Pos.posOf Γ y.id = some i ∧ ∃ hi : i < Γ.length, cfg.temps.get (2 * i + 1) = some w ∧
        Γ[i].chi = .ext := by
    intro y w hy
    obtain ⟨i, hi, hl, hg⟩ := R.readInt hy
    simp only at hi hl
    rw [ctxPosition_eq_posOf] at hi
    refine ⟨i, hi, hl, hg, ?_⟩
    have := (R.vals i hl (by show _ < ρ.length; have hlen : ρ.length = Γ.length := R.len; omega)).2.2.1
    simp only at this
    obtain ⟨_, hpo, hval⟩ := readInt_ok hy
    rw [hi] at hpo
    cases hpo
    rw [List.getElem?_eq_getElem (by show _ < ρ.length; have hlen : ρ.length = Γ.length := R.len; omega)] at hval
    injection hval with hval
    rw [this, hval]; rfl
  -- the x86 code
  simp only [codeStatementR, run_bind_ok, run_pure_ok, freshLabelStr_run_ok] at hrunX
  obtain ⟨num, _, ⟨rfl, rfl⟩, c1X, k2X, h1X, c2X, k3X, h2X, c3X, k4X, h3X, rfl, rfl⟩ := hrunX
  generalize hc0 : hookCode x86Backend hooks Γ ++ [x86Backend.comment (ifcComment srt a b)] = c0 at hatX
  have hc0c : ∀ y ∈ c0, ∃ m', y = Code.COMMENT m' := by rw [← hc0]; exact hook_comments hooks Γ _
  generalize hlbl : "lab" ++ natRen (kx + 1) = lbl at *
  replace hatX : XAt cs st.pc (c0 ++ c1X ++ [Code.COMMENT "else branch"] ++ c2X ++
      [Code.LAB lbl, Code.COMMENT "then branch"] ++ c3X) := hatX
  obtain ⟨k0, hk0⟩ := x_steps_straight mon L (blk := c0)
    (XAt.left (b := c1X ++ ([Code.COMMENT "else branch"] ++ (c2X ++
      ([Code.LAB lbl, Code.COMMENT "then branch"] ++ c3X))))
      (by simpa [List.append_assoc] using hatX))
    (execStraight_comments mon.mach px.labelAddr c0 st hc0c)
  have X0 : X3 F Γ cfg hs ι κ (setPS st (st.pc + c0.length) k0) := X3R.setPS X _ _
  have hatB : XAt cs (setPS st (st.pc + c0.length) k0).pc (c1X ++ ([Code.COMMENT "else branch"] ++ (c2X ++
      ([Code.LAB lbl, Code.COMMENT "then branch"] ++ c3X)))) :=
    XAt.right (a := c0) (by simpa [List.append_assoc] using hatX)
  -- the comparison
  have hcmp : ∃ cmp st1, c1X = cmp ++ [condJump srt lbl] ∧
      execStraight F.c px.labelAddr cmp (setPS st (st.pc + c0.length) k0) = .ok st1 ∧
      Boundary F.c st1 F.sp ∧ st1.flags = some (va, vb) ∧
      Preserved F.sp (setPS st (st.pc + c0.length) k0) st1 none ∧ NoCtx cmp := by
    cases b with
    | none =>
      simp only at hb
      subst hb
      simp only [run_bind_ok, run_pure_ok] at h1X
      obtain ⟨ta, _, hta, rfl, rfl⟩ := h1X
      obtain ⟨p, hp, hlt, rfl, rfl⟩ := (x86_vt_run_ok _ _ _ _ _ _).1 hta
      obtain ⟨i, hi, hl, hg, hchi⟩ := hext ha
      rw [hi] at hp
      injection hp with hp
      subst hp
      simp only [TempNum.toNat] at hlt
      have hw := X0.words i hl va hg
      rw [hchi] at hw
      obtain ⟨st1, e1, B1, hf, P1⟩ := compareImmediate_correct (la := px.labelAddr) X0.bnd
        (tempOK_posTemp hlt) (i := 0) (by decide) hw
      exact ⟨_, st1, rfl, e1, B1, by rw [hf]; rfl, P1, noCtx_compareImmediate _ _⟩
    | some b' =>
      simp only at hb
      simp only [run_bind_ok, run_pure_ok] at h1X
      obtain ⟨ta, _, hta, tb, _, htb, rfl, rfl⟩ := h1X
      obtain ⟨p, hp, hlt, rfl, rfl⟩ := (x86_vt_run_ok _ _ _ _ _ _).1 hta
      obtain ⟨q, hq, hltq, rfl, rfl⟩ := (x86_vt_run_ok _ _ _ _ _ _).1 htb
      obtain ⟨i, hi, hl, hg, hchi⟩ := hext ha
      obtain ⟨j, hj, hlj, hgj, hchij⟩ := hext hb
      rw [hi] at hp
      injection hp with hp
      subst hp
      rw [hj] at hq
      injection hq with hq
      subst hq
      simp only [TempNum.toNat] at hlt hltq
      have hw := X0.words i hl va hg
      rw [hchi] at hw
      have hwj := X0.words j hlj vb hgj
      rw [hchij] at hwj
      obtain ⟨st1, e1, B1, hf, P1⟩ := compare_correct (la := px.labelAddr) X0.bnd
        (tempOK_posTemp hlt) (tempOK_posTemp hltq) hw hwj
      exact ⟨_, st1, rfl, e1, B1, hf, P1, noCtx_compare _ _⟩
  obtain ⟨cmp, st1, rfl, e1, B1, hfl, P1, hncmp⟩ := hcmp
  rw [← hmon] at e1
  have hatC : XAt cs (setPS st (st.pc + c0.length) k0).pc (cmp ++ (condJump srt lbl :: ([Code.COMMENT "else branch"] ++
      (c2X ++ ([Code.LAB lbl, Code.COMMENT "then branch"] ++ c3X))))) := by
    simpa [List.append_assoc] using hatB
  obtain ⟨k1, hk1⟩ := x_steps_straight mon L hatC.left e1
  have X1 : X3 F Γ cfg hs ι κ (setPS st1 ((setPS st (st.pc + c0.length) k0).pc + cmp.length) k1) :=
    X3R.setPS (X3R.keep HF X0 B1 P1) _ _
  have hjx : execCode mon.mach px.labelAddr (condJump srt lbl)
      (setPS st1 ((setPS st (st.pc + c0.length) k0).pc + cmp.length) k1) =
      .ok (setPS st1 ((setPS st (st.pc + c0.length) k0).pc + cmp.length) k1,
        if Pos.evalCmp srt va vb then .jumpLabel lbl else .next) := by
    rw [execCode_setPS, hmon, condJump_correct F.c px.labelAddr srt lbl st1 hfl, ifSortHolds_eq,
      Scc.Backend.Sim.evalCond_eq_evalCmp]
    split <;> rfl
  have X1' : X3 F Γ cfg' hs ι κ (setPS st1 ((setPS st (st.pc + c0.length) k0).pc + cmp.length) k1) := X1.jump J
  have hmidC : Mid mon px cs (c0.length) st := mid_comments mon L (blk := c0)
    (XAt.left (b := cmp ++ [condJump srt lbl] ++ ([Code.COMMENT "else branch"] ++ (c2X ++
      ([Code.LAB lbl, Code.COMMENT "then branch"] ++ c3X))))
      (by simpa [List.append_assoc] using hatX)) hc0c (by
      rw [← hc0]; exact noCtx_tail_hook hooks Γ (by
        unfold ifcComment; simp only [String.append_assoc]
        exact not_isCtx_lit_head _ _ (c := 'i') (by decide) (by decide)))
  have hc0pos : 0 < c0.length := by rw [← hc0]; exact hookCode_length_pos _ _ _
  have hmidJ : MidS mon px cs 1 (setPS st1 ((setPS st (st.pc + c0.length) k0).pc + cmp.length) k1) :=
    midS_one (not_ctxAt_of_xat hatC.right (not_isCtx_condJump _ _))
  obtain ⟨csa, csb, hcs, hpcA⟩ := hatC.right
  have hcapX := X.cap
  have hKP : ∀ (p1 k1' p2 k2' : Nat), KeepPos F Γ.length cfg cfg' st
      (setPS (setPS (setPS st1 ((setPS st (st.pc + c0.length) k0).pc + cmp.length) k1) p1 k1') p2 k2') := by
    intro p1 k1' p2 k2'
    refine ⟨fun t ht => by rw [J.temps, get_clobberTemp _ (by unfold Mock.T_TEMP; omega)], fun i hi => ?_⟩
    rw [tempVal_setPS, tempVal_setPS, tempVal_setPS, mach_keep_none P1 (by omega), tempVal_setPS]
  by_cases hcnd : Pos.evalCmp srt va vb = true
  · -- the jump is taken: to the label, over the label and the comment
    rw [if_pos hcnd] at hjx
    simp only [hcnd, if_true]
    have hcsL : cs = (csa ++ [condJump srt lbl] ++ [Code.COMMENT "else branch"] ++ c2X) ++
        Code.LAB lbl :: ([Code.COMMENT "then branch"] ++ c3X ++ csb) := by
      rw [hcs]; simp [List.append_assoc]
    have hidx : labIdx cs lbl = some (csa ++ [condJump srt lbl] ++ [Code.COMMENT "else branch"] ++ c2X).length := by
      apply labIdx_of_nodup hndL
      conv => lhs; rw [hcsL]
      exact getElem?_mid _ _ _
    obtain ⟨k2, hk2⟩ := Scc.X86.Ref.step_jump mon L (cs1 := csa) (code := condJump srt lbl)
      (rest := [Code.COMMENT "else branch"] ++ (c2X ++ ([Code.LAB lbl, Code.COMMENT "then branch"] ++ c3X)) ++ csb)
      (by rw [hcs]; simp [List.append_assoc]) (by simp [setPS]; exact hpcA.symm ▸ rfl) hjx hidx
    obtain ⟨k3, hk3⟩ := x_steps_straight mon L (blk := [Code.LAB lbl, Code.COMMENT "then branch"])
      (s := setPS (setPS st1 ((setPS st (st.pc + c0.length) k0).pc + cmp.length) k1)
        (csa ++ [condJump srt lbl] ++ [Code.COMMENT "else branch"] ++ c2X).length k2)
      ⟨csa ++ [condJump srt lbl] ++ [Code.COMMENT "else branch"] ++ c2X, c3X ++ csb,
        by rw [hcsL]; simp [List.append_assoc], by simp [setPS]⟩
      (by rw [hmon]; rfl)
    have hmid : Mid mon px cs _ st := Mid.trans hmidC hk0 (MidS.trans (midS_straight mon L hatC.left e1 hncmp) hk1
      (MidS.trans hmidJ ((stepN_one mon px _).trans hk2)
        (midS_straight mon L (blk := [Code.LAB lbl, Code.COMMENT "then branch"])
          ⟨csa ++ [condJump srt lbl] ++ [Code.COMMENT "else branch"] ++ c2X, c3X ++ csb,
            by rw [hcsL]; simp [List.append_assoc], by simp [setPS]⟩
          (by rw [hmon]; rfl) (by nc)))) hc0pos
    refine ⟨cfg', _, _, hst, stepN_trans mon px hk0 (stepN_trans mon px hk1
      (stepN_trans mon px ((stepN_one mon px _).trans hk2) hk3)), hout, hnext, ?_, X3R.setPS (X3R.setPS X1' _ _) _ _,
      _, _, c3X, h3X, ?_, J.heap, hKP _ _ _ _, hmid⟩
    · simpa [hcnd] using R'
    · exact ⟨csa ++ [condJump srt lbl] ++ [Code.COMMENT "else branch"] ++ c2X ++
        [Code.LAB lbl, Code.COMMENT "then branch"], csb, by rw [hcsL]; simp [List.append_assoc],
        by simp [setPS]; omega⟩
  · -- fall through: the comment, then the else branch
    have hcnd' : Pos.evalCmp srt va vb = false := by simpa using hcnd
    rw [if_neg hcnd] at hjx
    simp only [hcnd', Bool.false_eq_true, if_false]
    obtain ⟨k2, hk2⟩ := step_fall mon L (cs1 := csa) (code := condJump srt lbl)
      (rest := [Code.COMMENT "else branch"] ++ (c2X ++ ([Code.LAB lbl, Code.COMMENT "then branch"] ++ c3X)) ++ csb)
      (by rw [hcs]; simp [List.append_assoc]) (by simp [setPS]; exact hpcA.symm ▸ rfl) hjx
    obtain ⟨k3, hk3⟩ := x_steps_straight mon L (blk := [Code.COMMENT "else branch"])
      (s := setPS (setPS st1 ((setPS st (st.pc + c0.length) k0).pc + cmp.length) k1) (csa.length + 1) k2)
      ⟨csa ++ [condJump srt lbl], c2X ++ ([Code.LAB lbl, Code.COMMENT "then branch"] ++ c3X) ++ csb,
        by rw [hcs]; simp [List.append_assoc], by simp [setPS]⟩
      (by rw [hmon]; rfl)
    have hmid : Mid mon px cs _ st := Mid.trans hmidC hk0 (MidS.trans (midS_straight mon L hatC.left e1 hncmp) hk1
      (MidS.trans hmidJ ((stepN_one mon px _).trans hk2)
        (midS_straight mon L (blk := [Code.COMMENT "else branch"])
          ⟨csa ++ [condJump srt lbl], c2X ++ ([Code.LAB lbl, Code.COMMENT "then branch"] ++ c3X) ++ csb,
            by rw [hcs]; simp [List.append_assoc], by simp [setPS]⟩
          (by rw [hmon]; rfl) (by nc)))) hc0pos
    refine ⟨cfg', _, _, hst, stepN_trans mon px hk0 (stepN_trans mon px hk1
      (stepN_trans mon px ((stepN_one mon px _).trans hk2) hk3)), hout, hnext, ?_, X3R.setPS (X3R.setPS X1' _ _) _ _,
      _, _, c2X, h2X, ?_, J.heap, hKP _ _ _ _, hmid⟩
    · simpa [hcnd'] using R'
    · exact ⟨csa ++ [condJump srt lbl] ++ [Code.COMMENT "else branch"],
        ([Code.LAB lbl, Code.COMMENT "then branch"] ++ c3X) ++ csb, by rw [hcs]; simp [List.append_assoc],
        by simp [setPS]⟩

end Int3M

end Scc.X86.Ref.K
