/-
  Scc.X86.CCProofsSeg — property C13, x86-64, DYNAMIC part, the segments of a routine on the SPEC
  machine (Scc/X86/Machine.lean), WITHOUT any hypothesis on the values the program computes
  (registers and stack words may be undefined, operands arbitrary):

  * `Core c s`     — the calling-convention invariant at statement boundaries: 16 registers, `rsp` at the
                     bottom of the spill area, the six callee-saved entry values (sentinels) in the save
                     area above it, the return sentinel above those;
  * `RetReady c s` — what the exit check `retCheck` needs: `rsp` at its entry value, the sentinel there,
                     the callee-saved registers at their entry values;
  * `Future Q l s` — running the straight-line segment `l` (with external calls, `execSeq`) from `s`
                     either ends in a state satisfying `Q` or stops with an error that is NOT a fault of
                     the calling-convention monitor (`OKErr`).
  Proved: `straight_future` (plain instructions of integer programs keep `Core`), `prologue_future`
  (entry state ⟶ `Core`), `block_future` (a print block keeps `Core`: the call is made with
  `rsp ≡ 0 (mod 16)` WHATEVER the registers hold), `epilogue_future` (`Core` ⟶ `RetReady`),
  `retCheck_safe` (`RetReady` ⟶ the exit check ends in `done` or `read-undefined rax`).
-/
import Scc.X86.CCProofsFrame
import Scc.X86.ProofsStep

set_option linter.unusedVariables false
set_option linter.unusedSimpArgs false

namespace Scc.X86.CC

open Scc.X86 Scc.AxCut

/-! ## configuration, invariants -/

/-- the machine configuration is sane, the stack top is 16-aligned (so that the System V entry
    condition `rsp ≡ 8 (mod 16)` holds) and the stack region has room for the frame of the routine:
    return word, save area (48), spill area (2048), pushes of a print block (72) -/
structure CfgCC (c : MachCfg) : Prop where
  ok : CfgOK c
  top16 : c.stackTop % 16 = 0
  room : c.stackLow + 2176 ≤ c.stackTop

theorem cfgCC_default : CfgCC {} := ⟨cfgOK_default, by decide, by decide⟩

/-- the calling-convention invariant at statement boundaries -/
structure Core (c : MachCfg) (s : State) : Prop where
  size : s.regs.size = 16
  rsp : s.regs[0]? = some (some (BitVec.ofNat 64 (c.stackTop - 8 - 2096)))
  saved : ∀ k (hk : k < 6), s.stackMem[c.stackTop - 8 - 8 * (k + 1)]? =
    some (calleeSentinel ([2, 3, 12, 13, 14, 15][k]'hk))
  ret : s.stackMem[c.stackTop - 8]? = some retSentinel

/-- the state in which `ret` passes the exit check -/
structure RetReady (c : MachCfg) (s : State) : Prop where
  size : s.regs.size = 16
  rsp : s.regs[0]? = some (some (BitVec.ofNat 64 (c.stackTop - 8)))
  ret : s.stackMem[c.stackTop - 8]? = some retSentinel
  cs : ∀ r ∈ calleeSaved, s.regs[r]? = some (some (calleeSentinel r))

/-- the entry state of `asm_main` (System V) -/
structure Entry (c : MachCfg) (s : State) : Prop where
  size : s.regs.size = 16
  rsp : s.regs[0]? = some (some (BitVec.ofNat 64 (c.stackTop - 8)))
  rdi : ∃ h, s.regs[7]? = some (some h)
  ret : s.stackMem[c.stackTop - 8]? = some retSentinel
  cs : ∀ r ∈ calleeSaved, s.regs[r]? = some (some (calleeSentinel r))

theorem Core.setPS {c : MachCfg} {s : State} (h : Core c s) (p k : Nat) : Core c (setPS s p k) :=
  ⟨h.size, h.rsp, h.saved, h.ret⟩

theorem RetReady.setPS {c : MachCfg} {s : State} (h : RetReady c s) (p k : Nat) : RetReady c (setPS s p k) :=
  ⟨h.size, h.rsp, h.ret, h.cs⟩

/-! ## `execSeq` -/

section Seq
variable {c : MachCfg} {la : String → Option Nat}

theorem execSeq_append (l1 l2 : List Code) (s : State) :
    execSeq c la (l1 ++ l2) s =
      match execSeq c la l1 s with
      | .ok s1 => execSeq c la l2 s1
      | .error e => .error e := by
  induction l1 generalizing s with
  | nil => simp [execSeq]
  | cons code rest ih =>
    simp only [List.cons_append, execSeq]
    cases h : execCode c la code s with
    | error e => simp
    | ok r =>
      obtain ⟨s1, ctl⟩ := r
      cases ctl <;> simp only [ih]
      cases callExt s1 _ <;> simp [ih]

theorem execSeq_noCall {l : List Code} (h : NoCall l) (s : State) : execSeq c la l s = execStraight c la l s := by
  induction l generalizing s with
  | nil => rfl
  | cons code rest ih =>
    have hc : isCall code = false := h code (by simp)
    simp only [execSeq, execStraight]
    cases hx : execCode c la code s with
    | error e => rfl
    | ok r =>
      obtain ⟨s1, ctl⟩ := r
      cases ctl with
      | next => exact ih (fun c' hc' => h c' (by simp [hc'])) s1
      | callExt f =>
        rcases execCode_ctl hx with h' | ⟨l, _, h'⟩ | ⟨l, _, h'⟩ | ⟨r, a, _, h'⟩ | ⟨f', hcode, _, _⟩ | ⟨_, h', _⟩
        · cases h'
        · cases h'
        · cases h'
        · cases h'
        · rw [hcode] at hc; cases hc
        · cases h'
      | jumpLabel l => rfl
      | jumpAddr a => rfl
      | ret => rfl

/-- running the segment `l` from `s` ends in `Q` or stops with an error that the calling-convention
    monitor does not raise -/
def Future (c : MachCfg) (la : String → Option Nat) (Q : State → Prop) (l : List Code) (s : State) : Prop :=
  match execSeq c la l s with
  | .ok s' => Q s'
  | .error e => OKErr e

theorem Future.nil {Q : State → Prop} {s : State} (h : Q s) : Future c la Q [] s := h

theorem Future.append {Q : State → Prop} {l1 l2 : List Code} {s : State}
    (h : Future c la (Future c la Q l2) l1 s) : Future c la Q (l1 ++ l2) s := by
  unfold Future at h ⊢
  rw [execSeq_append]
  cases h1 : execSeq c la l1 s with
  | error e => simp only [h1] at h ⊢; exact h
  | ok s1 => simp only [h1] at h ⊢; exact h

theorem Future.mono {Q Q' : State → Prop} {l : List Code} {s : State} (h : Future c la Q l s)
    (hq : ∀ s', Q s' → Q' s') : Future c la Q' l s := by
  unfold Future at h ⊢
  cases h1 : execSeq c la l s with
  | error e => simp only [h1] at h ⊢; exact h
  | ok s1 => simp only [h1] at h ⊢; exact hq _ h

/-- from a successful straight-line execution -/
theorem Future.ofStraight {Q : State → Prop} {l : List Code} {s s' : State} (hn : NoCall l)
    (hx : execStraight c la l s = .ok s') (hq : Q s') : Future c la Q l s := by
  unfold Future
  rw [execSeq_noCall hn, hx]
  exact hq

end Seq

/-! ## plain instructions keep the invariant -/

section Plain
variable {c : MachCfg} {la : String → Option Nat}

theorem plainInt_spec {code : Code} (h : plainInt code = true) :
    plainCC code = true ∧ (∀ bi ∈ codeMems code, bi.1 = 0) ∧ isIndirect code = false ∧
      (∀ l, codeJumpRef code = some l → l ≠ "asm_main") := by
  simp only [plainInt, Bool.and_eq_true, List.all_eq_true, beq_iff_eq, Bool.not_eq_true'] at h
  refine ⟨h.1.1.1, h.1.1.2, h.1.2, ?_⟩
  intro l hl
  have := h.2
  rw [hl] at this
  simpa using this

theorem ofNat_add_ofInt {m : Nat} {i : Int} (h0 : 0 ≤ i) (hm : m + i.toNat < 2 ^ 64) :
    (BitVec.ofNat 64 m + BitVec.ofInt 64 i).toNat = m + i.toNat := by
  obtain ⟨k, rfl⟩ := Int.eq_ofNat_of_zero_le h0
  simp only [Int.toNat_natCast] at hm ⊢
  rw [show BitVec.ofInt 64 ((k : Nat) : Int) = BitVec.ofNat 64 k from by simp [BitVec.ofInt_natCast]]
  rw [ofNat_add hm, ofNat_toNat hm]

/-- a frame that does not touch `rsp`, the save area or the return word keeps the invariant -/
theorem core_of_fr {s s' : State} {W : List Nat} {A : Nat → Prop} (C : Core c s) (F : Fr W A s s')
    (h0 : 0 ∉ W) (hA : ∀ n, A n → n < c.stackTop - 8 - 48) : Core c s' := by
  refine ⟨F.size.trans C.size, (F.regs 0 h0).trans C.rsp, ?_, ?_⟩
  · intro k hk
    rw [F.mem _ (fun h => by have := hA _ h; omega)]
    exact C.saved k hk
  · rw [F.mem _ (fun h => by have := hA _ h; omega)]
    exact C.ret

/-- under `Core`, the memory operands of a plain instruction of an integer program address the spill
    area -/
theorem memAddrs_plainInt (H : CfgCC c) {s : State} (C : Core c s) {code : Code} (hp : plainInt code = true) :
    ∀ n, MemAddrs s code n → n < c.stackTop - 8 - 48 := by
  obtain ⟨hcc, hb0, _, _⟩ := plainInt_spec hp
  obtain ⟨_, _, hslot⟩ := plainCC_spec hcc
  rintro n ⟨b, i, hmem, v, hv, rfl⟩
  have hb : b = 0 := hb0 (b, i) hmem
  subst hb
  have hs := hslot (0, i) hmem rfl
  simp only [slotOK, Bool.and_eq_true, decide_eq_true_eq] at hs
  have hv' : v = BitVec.ofNat 64 (c.stackTop - 8 - 2096) := by
    simp only [rd, C.rsp, Except.ok.injEq] at hv
    exact hv.symm
  have ht := H.ok.top
  have hr := H.room
  rw [hv', ofNat_add_ofInt hs.1.1 (by omega)]
  omega

/-- fall-through plain instructions of integer programs -/
def straightInt (code : Code) : Bool := plainInt code && (codeJumpRef code).isNone

theorem plain_exec (H : CfgCC c) {s s1 : State} {code : Code} {ctl : Ctl} (C : Core c s)
    (hp : plainInt code = true) (hx : execCode c la code s = .ok (s1, ctl)) :
    Core c s1 ∧ (ctl = .next ∨ ∃ l, codeJumpRef code = some l ∧ ctl = .jumpLabel l ∧ l ≠ "asm_main") := by
  obtain ⟨hcc, _, hind, hlab⟩ := plainInt_spec hp
  obtain ⟨hso, hw0, _⟩ := plainCC_spec hcc
  refine ⟨core_of_fr C (execCode_fr hx hso) hw0 (memAddrs_plainInt H C hp), ?_⟩
  rcases execCode_ctl hx with h' | ⟨l, hl, h'⟩ | ⟨l, hcode, _⟩ | ⟨r, a, hcode, _⟩ | ⟨f, hcode, _, _⟩ | ⟨hcode, _, _⟩
  · exact Or.inl h'
  · exact Or.inr ⟨l, hl, h', hlab l hl⟩
  · rw [hcode] at hind; cases hind
  · rw [hcode] at hind; cases hind
  · rw [hcode] at hso; cases hso
  · rw [hcode] at hso; cases hso

theorem straight_future (H : CfgCC c) : ∀ (l : List Code), (∀ code ∈ l, straightInt code = true) →
    ∀ s, Core c s → Future c la (Core c) l s
  | [], _, s, C => Future.nil C
  | code :: rest, hl, s, C => by
    have hs := hl code (by simp)
    simp only [straightInt, Bool.and_eq_true] at hs
    unfold Future
    simp only [execSeq]
    cases hx : execCode c la code s with
    | error e => exact (execCode_err hx).okErr
    | ok r =>
      obtain ⟨s1, ctl⟩ := r
      obtain ⟨C1, hctl⟩ := plain_exec H C hs.1 hx
      rcases hctl with rfl | ⟨l, hl', _, _⟩
      · exact straight_future H rest (fun c' hc' => hl c' (by simp [hc'])) s1 C1
      · rw [hl'] at hs; simp at hs

end Plain

/-! ## prologue, print block, epilogue, ret -/

section Segs
variable {c : MachCfg} {la : String → Option Nat}

theorem csList_mem (k : Nat) (hk : k < 6) : ([2, 3, 12, 13, 14, 15] : List Nat)[k]'hk ∈ calleeSaved := by
  have : k = 0 ∨ k = 1 ∨ k = 2 ∨ k = 3 ∨ k = 4 ∨ k = 5 := by omega
  rcases this with rfl | rfl | rfl | rfl | rfl | rfl <;> simp [calleeSaved]

/-- the prologue takes the entry state to the boundary invariant -/
theorem prologue_core (H : CfgCC c) {s : State} (E : Entry c s) :
    ∃ s1, execStraight c la prologue s = .ok s1 ∧ Core c s1 := by
  have ht := H.ok.top
  have hr := H.room
  have h16 := H.top16
  obtain ⟨h, h7⟩ := E.rdi
  have EO : EntryOK c s (c.stackTop - 8) := ⟨H.ok, E.size, E.rsp, by omega, by omega, by omega⟩
  obtain ⟨s1, e1, P⟩ := prologue_machine (la := la) EO h7
  refine ⟨s1, e1, P.size, P.rsp, ?_, ?_⟩
  · intro k hk
    have h1 := P.saved k hk
    rw [E.cs _ (csList_mem k hk)] at h1
    injection h1
  · rw [P.mem _ (fun k hk => by omega)]
    exact E.ret

theorem noCall_prologue : NoCall prologue := by
  intro c hc
  simp only [prologue, List.mem_append, List.mem_cons, List.mem_map, List.not_mem_nil, or_false] at hc
  rcases hc with ((rfl | rfl) | ⟨_, _, rfl⟩) | rfl | rfl | rfl | rfl | rfl | rfl | rfl <;> rfl

/-- the routine header from `asm_main:` to the first instruction of the body -/
theorem prologue_future (H : CfgCC c) {s : State} (E : Entry c s) {moves : List Code}
    (hm : ∀ code ∈ moves, straightInt code = true) :
    Future c la (Core c) (Code.LAB "asm_main" :: (prologue ++ (moves ++ [Code.COMMENT "actual code"]))) s := by
  obtain ⟨s1, e1, C1⟩ := prologue_core (la := la) H E
  have h2 : Future c la (Core c) (moves ++ [Code.COMMENT "actual code"]) s1 :=
    straight_future H _ (fun code hc => by
      rcases List.mem_append.1 hc with hc | hc
      · exact hm code hc
      · simp only [List.mem_singleton] at hc; subst hc; rfl) s1 C1
  have h3 : Future c la (Core c) (prologue ++ (moves ++ [Code.COMMENT "actual code"])) s :=
    Future.append (Future.ofStraight noCall_prologue e1 h2)
  unfold Future at h3 ⊢
  simp only [execSeq, execCode]
  exact h3

/-- the epilogue takes the boundary invariant to the state in which `ret` passes the exit check -/
theorem epilogue_ready (H : CfgCC c) {s : State} (C : Core c s) :
    ∃ s3, execStraight c la epilogue s = .ok s3 ∧ RetReady c s3 := by
  have ht := H.ok.top
  have hr := H.room
  have h16 := H.top16
  have R := s.rel_view C.size
  have hsp : s.view.reg 0 = some (BitVec.ofNat 64 (c.stackTop - 8 - 2096)) := by
    have := R.regs 0 (by decide); rw [C.rsp] at this; injection this with e; exact e.symm
  obtain ⟨a3, e3, E3⟩ := a_epilogue (la := la) H.ok s.view (c.stackTop - 8) hsp (by omega) (by omega) (by omega)
  obtain ⟨s3, es, R3, _⟩ := sim_execList la R e3
  refine ⟨s3, es, R3.size, ?_, ?_, ?_⟩
  · rw [R3.regs 0 (by decide), E3.rsp]
  · rw [R3.mem, E3.mem]
    exact C.ret
  · have key : ∀ k (hk : k < 6), s3.regs[[2, 3, 12, 13, 14, 15][k]'hk]? =
        some (some (calleeSentinel ([2, 3, 12, 13, 14, 15][k]'hk))) := by
      intro k hk
      rw [R3.regs _ (csList_lt k hk), E3.restored k hk]
      show some (s.stackMem[c.stackTop - 8 - 8 * (k + 1)]?) = _
      rw [C.saved k hk]
    intro r hr
    simp only [calleeSaved, List.mem_cons, List.not_mem_nil, or_false] at hr
    rcases hr with rfl | rfl | rfl | rfl | rfl | rfl
    · exact key 0 (by decide)
    · exact key 1 (by decide)
    · exact key 2 (by decide)
    · exact key 3 (by decide)
    · exact key 4 (by decide)
    · exact key 5 (by decide)

theorem noCall_epilogue : NoCall epilogue := by
  intro c hc
  simp only [epilogue, List.mem_append, List.mem_cons, List.mem_map, List.not_mem_nil, or_false] at hc
  rcases hc with (rfl | rfl | rfl | rfl) | ⟨_, _, rfl⟩ <;> rfl

theorem epilogue_future (H : CfgCC c) {s : State} (C : Core c s) : Future c la (RetReady c) epilogue s := by
  obtain ⟨s3, e3, R3⟩ := epilogue_ready (la := la) H C
  exact Future.ofStraight noCall_epilogue e3 R3

/-- the exit check from `RetReady`: `done`, or the result register is undefined — never a
    calling-convention violation -/
theorem retCheck_safe (H : CfgCC c) {s : State} (R : RetReady c s) :
    (∃ v, retCheck c s = .ok v) ∨ (∃ e, retCheck c s = .error (.fault e 0) ∧ MErr e) := by
  have ht := H.ok.top
  have hb := H.ok.heapBelow
  have hr := H.room
  have h16 := H.top16
  cases h4 : s.regs[4]? with
  | none =>
    have : 4 < s.regs.size := by rw [R.size]; decide
    simp [Array.getElem?_eq_getElem this] at h4
  | some o =>
    cases o with
    | some v =>
      exact Or.inl ⟨v, retCheck_ok H.ok (by omega) (by omega) R.rsp R.ret R.cs h4⟩
    | none =>
      refine Or.inr ⟨_, ?_, merr_undefReg 4⟩
      have hlt : c.stackTop - 8 < 2 ^ 64 := by omega
      have e : (BitVec.ofNat 64 (c.stackTop - 8)).toNat = c.stackTop - 8 := by
        simp [BitVec.toNat_ofNat, Nat.mod_eq_of_lt hlt]
      have hload : loadWord c s (BitVec.ofNat 64 (c.stackTop - 8)) = .ok retSentinel := by
        have h1 : (c.stackTop - 8) % 8 = 0 := by omega
        have h2 : inHeap c (c.stackTop - 8) = false := by
          unfold inHeap; rw [Bool.and_eq_false_iff]; right; rw [decide_eq_false_iff_not]; omega
        have h3 : inStack c (c.stackTop - 8) = true := by
          unfold inStack; rw [Bool.and_eq_true, decide_eq_true_eq, decide_eq_true_eq]; omega
        simp [loadWord, loadWordRaw, e, h1, h2, h3, R.ret]
      have hfind : calleeSaved.find? (fun r => s.regs[r]? != some (some (calleeSentinel r))) = none := by
        rw [List.find?_eq_none]
        intro r hr
        simp [R.cs r hr]
      simp only [retCheck, rd, R.rsp, hload, h4, hfind, e]
      simp
      omega

/-! ### the print block -/

/-- view level: the part of a print block before the call runs for ANY register contents and ends
    with `rsp ≡ 0 (mod 16)` and the stack from the boundary `rsp` upwards unchanged; from any state
    with that `rsp` the part after the call runs and puts `rsp` back -/
theorem a_print_frame (hc : CfgOK c) (ctx : Ctx) (t : Temporary) (hsrc : TempOK t)
    (a : AState) (m : Nat) (hsp : a.reg 0 = some (BitVec.ofNat 64 m)) (h16 : m % 16 = 8)
    (hlow : c.stackLow + 72 ≤ m) (htop : m + 2048 ≤ c.stackTop) :
    ∃ a4 sp, aexecList c la (blockBefore t ctx) a = some a4 ∧ a4.reg 0 = some (BitVec.ofNat 64 sp) ∧
      sp % 16 = 0 ∧ sp ≤ m ∧ (∀ n, m ≤ n → a4.mem n = a.mem n) ∧
      ∀ a5 : AState, a5.reg 0 = some (BitVec.ofNat 64 sp) →
        ∃ a8, aexecList c la (blockAfter ctx) a5 = some a8 ∧ a8.reg 0 = some (BitVec.ofNat 64 m) ∧
          a8.mem = a5.mem := by
  have hcs := csri_eq ctx
  generalize hfirst : max (2 * ctx.length + 4) 12 = first at hcs
  generalize hLdef : regsToSave (ctx.take 4) 0 = L at hcs
  have hb := regsToSave_bounds (ctx.take 4) 0
  rw [hLdef] at hb
  obtain ⟨hb1, hb2⟩ := hb
  have hlen4 : (ctx.take 4).length ≤ 4 := by simp; omega
  have hLlen : L.length ≤ 8 := by omega
  have hL : ∀ r ∈ L, 4 ≤ r ∧ r < 12 := fun r hr => by have := hb1 r hr; omega
  have hf12 : 12 ≤ first := by rw [← hfirst]; exact Nat.le_max_right _ _
  have hnd : L.Nodup := hLdef ▸ regsToSave_nodup _ _
  have ht := hc.top
  have h8 : m % 8 = 0 := by omega
  -- the staging of a spilled argument
  have hpre : ∃ a0, aexecList c la (printPre t) a = some a0 ∧ a0.reg 0 = a.reg 0 ∧ a0.mem = a.mem := by
    cases t with
    | reg r => exact ⟨a, rfl, rfl, rfl⟩
    | spill p =>
      have hp : p < 256 := hsrc.2
      have hw : StackWord c (m + (2048 - 8 * (p + 1))) := ⟨by omega, by omega, by omega⟩
      have hoff : stackOffset p = ((2048 - 8 * (p + 1) : Nat) : Int) := by rw [stackOffset_eq]; omega
      refine ⟨a.setReg 1 (a.mem (m + (2048 - 8 * (p + 1)))), ?_, by simp, rfl⟩
      simp only [printPre, moveToRegister, List.singleton_append, aexecList_cons', aexec_COMMENT, TEMP_eq,
        STACK_eq]
      rw [aexec_MOVL_rsp hc hoff (by decide : 1 < 16) hsp (fitsI32_stackOffset hp) hw]
      rfl
  obtain ⟨a0, e0, hsp0', M0⟩ := hpre
  have hsp0 : a0.reg 0 = some (BitVec.ofNat 64 m) := by rw [hsp0', hsp]
  obtain ⟨a3, e3, hsp3, R3, B3, S3, M3⟩ := a_saveSeq (la := la) hc first L hL hLlen hf12 a0 m hsp0 h8 hlow
    (by omega)
  generalize hused : backupRegistersUsed first L = used at hsp3
  have hu1 : used ≤ L.length := by rw [← hused]; unfold backupRegistersUsed; omega
  have hcsp : callSp m (L.length - used) % 16 = 0 ∧ callSp m (L.length - used) ≤ m := by
    unfold callSp; split <;> omega
  have hsr : jumpReg t < 16 := by
    cases t with
    | reg r => exact hsrc.2
    | spill p => simp [jumpReg, TEMP_eq]
  refine ⟨a3.setReg 7 (a3.reg (jumpReg t)), callSp m (L.length - used), ?_, ?_, hcsp.1, hcsp.2, ?_, ?_⟩
  · unfold blockBefore
    rw [hcs]
    dsimp only
    rw [aexecList_append, aexecList_append, aexecList_append, e0]
    dsimp only [aexecList, aexec_COMMENT]
    rw [e3]
    dsimp only
    simp only [aexecList_cons', aexec_COMMENT, printArgMove, aexec_MOV' (by decide : 7 < 16) hsr, aexecList]
  · simp only [AState.setReg_reg, show ¬ ((0 : Nat) = 7) by decide, if_false]
    exact hsp3
  · intro n hn
    simp only [AState.setReg_mem]
    rw [M3 n hn, M0]
  · intro a5 hsp5
    have hsp5' : a5.reg 0 = some (BitVec.ofNat 64 (callSp m (L.length - backupRegistersUsed first L))) := by
      rw [hused]; exact hsp5
    obtain ⟨a8, e8, hsp8, _, _, _, M8⟩ := a_restoreSeq (la := la) hc first L hL hnd hLlen hf12 a5 m hsp5' h8
      hlow (by omega)
    refine ⟨a8, ?_, hsp8, M8⟩
    unfold blockAfter
    rw [hcs]
    dsimp only
    rw [aexecList_cons', aexec_COMMENT]
    exact e8

/-- A PRINT BLOCK KEEPS THE INVARIANT, whatever the registers hold: the save sequence always runs,
    the call is made with `rsp ≡ 0 (mod 16)` (the only error it can raise is an undefined argument), and
    the restore sequence puts `rsp` back; the save area and the return word are never touched -/
theorem block_future (H : CfgCC c) {ctx : Ctx} {t : Temporary} (hs : PrintSrc ctx t) (nl : Bool)
    {s : State} (C : Core c s) : Future c la (Core c) (printI64 nl t ctx) s := by
  have ht := H.ok.top
  have hr := H.room
  have h16 := H.top16
  have R := s.rel_view C.size
  have hsp : s.view.reg 0 = some (BitVec.ofNat 64 (c.stackTop - 8 - 2096)) := by
    have := R.regs 0 (by decide); rw [C.rsp] at this; injection this with e; exact e.symm
  obtain ⟨a4, sp, e4, hsp4, hal, hle, M4, hafter⟩ := a_print_frame (la := la) H.ok ctx t hs.tempOK.1 s.view
    (c.stackTop - 8 - 2096) hsp (by omega) (by omega) (by omega)
  obtain ⟨s4, es4, R4, _⟩ := sim_execList la R e4
  rw [printI64_split]
  apply Future.append
  apply Future.ofStraight (noCall_blockBefore t ctx) es4
  -- the call
  unfold Future
  simp only [execSeq, execCode]
  have hsp4' : rd s4 0 = .ok (BitVec.ofNat 64 sp) := by
    simp [rd, R4.regs 0 (by decide), hsp4]
  have hlt : sp < 2 ^ 64 := by omega
  cases h7 : a4.reg 7 with
  | none =>
    have : rd s4 7 = .error s!"read-undefined {regName 7}" := by
      simp [rd, R4.regs 7 (by decide), h7]
    have hcall : callExt s4 (printFn nl) = .error s!"read-undefined {regName 7}" := by
      unfold callExt
      have hfn : ¬ ((printFn nl ≠ "print_i64" && printFn nl ≠ "println_i64") = true) := by
        cases nl <;> simp [printFn]
      rw [if_neg hfn]
      simp only [hsp4', this]
    rw [hcall]
    exact (merr_undefReg 7).okErr
  | some arg =>
    have hacall : acall a4 (printFn nl) = some (callView a4 sp, (nl, arg)) := by
      unfold acall
      have hfn : ¬ ((printFn nl ≠ "print_i64" && printFn nl ≠ "println_i64") = true) := by
        cases nl <;> simp [printFn]
      rw [if_neg hfn]
      simp only [ard, show (0 : Nat) < 16 by decide, show (7 : Nat) < 16 by decide, if_true, hsp4, h7]
      rw [if_neg (by rw [ofNat_toNat hlt]; omega)]
      simp only [ofNat_toNat hlt]
      cases nl <;> simp [printFn]
    obtain ⟨s5, e5, R5, _, _, _⟩ := sim_call R4 hacall
    rw [e5]
    dsimp only
    have hsp5 : (callView a4 sp).reg 0 = some (BitVec.ofNat 64 sp) := by
      simp [callView, callerSaved, hsp4]
    obtain ⟨a8, e8, hsp8, M8⟩ := hafter _ hsp5
    obtain ⟨s8, es8, R8, _⟩ := sim_execList la R5 e8
    have hq : Core c s8 := by
      have hmem : ∀ n, c.stackTop - 8 - 2096 ≤ n → s8.stackMem[n]? = s.stackMem[n]? := by
        intro n hn
        rw [R8.mem, M8]
        simp only [callView]
        rw [if_pos (by omega), M4 n hn]
        rfl
      refine ⟨R8.size, by rw [R8.regs 0 (by decide), hsp8], ?_, ?_⟩
      · intro k hk
        rw [hmem _ (by omega)]
        exact C.saved k hk
      · rw [hmem _ (by omega)]
        exact C.ret
    exact Future.ofStraight (noCall_blockAfter ctx) es8 hq

end Segs

end Scc.X86.CC
