/-
  Scc.X86.MemProofsStore — the contract of `store` (memory.rs: store_field, store_zero(s),
  store_value(s), store_fields, Memory::store) against `Scc.Heap.storeObj`, for objects of ANY number
  of fields (one block or a chain of linked blocks) and EVERY placement of the stored variables and
  of the acquired-block temporaries (registers and spill slots, crossing the boundary), first on the
  view (MemProofsView.lean), then on the machine.

  Environment: the variable at context position `i` lives in the temporaries `posTemp (2 i)` (pointer
  part, only for non-`ext` variables) and `posTemp (2 i + 1)` (word part) — utils.rs
  temporary_from_position: registers 4..15, then spill slots 1..255.
-/
import Scc.X86.MemProofsHeap

set_option linter.unusedSimpArgs false
set_option linter.unusedVariables false

namespace Scc.X86

open Scc.AxCut
open Scc.Backend (GenM TempNum freshLabel)

/-! ## runs of generators -/

theorem genm_bind {α β : Type} {m : GenM α} {f : α → GenM β} {k k1 : Nat} {a : α}
    (h1 : m.run k = .ok (a, k1)) : (m >>= f).run k = (f a).run k1 := by
  rw [StateT.run_bind, h1]; rfl

theorem genm_pure {α : Type} (a : α) (k : Nat) : (pure a : GenM α).run k = .ok (a, k) := rfl

/-! ## temporaries of context positions (utils.rs) -/

/-- utils.rs temporary_from_position, total -/
def posTemp (n : Nat) : Temporary := if n + 4 < 16 then .reg (n + 4) else .spill (n - 11)

theorem temporaryFromPosition_eq {n : Nat} (h : n < 267) : temporaryFromPosition n = .ok (posTemp n) := by
  unfold temporaryFromPosition posTemp
  have hR : RESERVED = 4 := rfl
  have hN : REGISTER_NUM = 16 := rfl
  have hS : RESERVED_SPILLS = 1 := rfl
  have hP : SPILL_NUM = 256 := rfl
  simp only [hR, hN, hS, hP]
  by_cases h1 : n + 4 < 16
  · simp [h1]
  · have : n + 4 - 16 + 1 < 256 := by omega
    have e : n + 4 - 16 + 1 = n - 11 := by omega
    rw [if_neg h1, if_neg h1, if_pos this, e]

theorem tempOK_posTemp {n : Nat} (h : n < 267) : TempOK (posTemp n) := by
  unfold posTemp
  by_cases h1 : n + 4 < 16
  · rw [if_pos h1]; exact ⟨by omega, h1⟩
  · rw [if_neg h1]; exact ⟨by omega, by omega⟩

theorem posTemp_inj {m n : Nat} : posTemp m = posTemp n ↔ m = n := by
  unfold posTemp
  constructor
  · intro h
    by_cases h1 : m + 4 < 16 <;> by_cases h2 : n + 4 < 16 <;> simp only [h1, h2, if_true, if_false] at h
    · injection h with h; omega
    · cases h
    · cases h
    · injection h with h; omega
  · rintro rfl; rfl

theorem freshTemporary_run {num : TempNum} {ctx : Ctx} (k : Nat) (h : 2 * ctx.length + num.toNat < 267) :
    (freshTemporary num ctx).run k = .ok (posTemp (2 * ctx.length + num.toNat), k) := by
  unfold freshTemporary
  rw [temporaryFromPosition_eq h]
  rfl

theorem posTemp_ne_low {n : Nat} (h : n < 267) :
    posTemp n ≠ .reg TEMP ∧ posTemp n ≠ .reg HEAP ∧ posTemp n ≠ .reg FREE := by
  obtain ⟨a, b, c⟩ := tempOK_ne (tempOK_posTemp h)
  exact ⟨a, b, c⟩

/-! ## store_field, store_zero -/

/-- memory.rs store_field for the temporary `t`: shape of the code, both placements at once -/
def storeFieldCode (t : Temporary) (blk : Nat) (fo : Int) : List Code :=
  loadPtr t ++ [.MOVS (jumpReg t) blk fo]

theorem storeField_run (num : TempNum) (ctx : Ctx) (blk off k : Nat)
    (h : 2 * ctx.length + num.toNat < 267) :
    (storeField num ctx blk off).run k =
      .ok (storeFieldCode (posTemp (2 * ctx.length + num.toNat)) blk (fieldOffset num off), k) := by
  unfold storeField
  rw [genm_bind (freshTemporary_run k h)]
  cases posTemp (2 * ctx.length + num.toNat) <;> rfl

/-- no label is defined in the code -/
def NoLab (code : List Code) : Prop := ∀ l, Code.LAB l ∉ code

theorem NoLab.append {a b : List Code} (ha : NoLab a) (hb : NoLab b) : NoLab (a ++ b) := fun l h => by
  rcases List.mem_append.1 h with h | h
  · exact ha l h
  · exact hb l h

theorem NoLab.labsIn {a : List Code} (h : NoLab a) (lo hi : Nat) : LabsIn a lo hi := LabsIn.of_noLab lo hi h

theorem noLab_nil : NoLab [] := fun _ h => by simp at h

theorem noLab_storeFieldCode (t : Temporary) (blk : Nat) (fo : Int) : NoLab (storeFieldCode t blk fo) := by
  intro l; cases t <;> simp [storeFieldCode, loadPtr]

section Prim
variable {c : MachCfg} {μ : MState} {h h' : Scc.Heap.HState}

/-- `[blk + off] := t` (through TEMP for a spilled `t`) is the model's `wr` -/
theorem m_storeFieldCode (C : HeapCfgOK c) (H : HRelM c μ h) {t : Temporary} (ht : TempOK t) {v : Word}
    (hv : μ.val t = some v) {blk : Nat} (hb1 : 2 ≤ blk) (hb2 : blk < 16) {b : Word}
    (hvb : μ.val (.reg blk) = some b) {off : Nat} (ho : off < 2 ^ 31)
    (hwr : Scc.Heap.wr h (b.toNat + off) v.toNat = .ok h') :
    ∃ μ', mFwd c (storeFieldCode t blk (off : Int)) μ = some (μ', .next) ∧ HRelM c μ' h' ∧
      (∀ u, u ≠ .reg TEMP → μ'.val u = μ.val u) := by
  obtain ⟨hok, rfl⟩ := wr_eq_ok.1 hwr
  have ha := haddr_ok C H ho hok
  have hb0 : ¬ blk = 0 := by omega
  have hbo : 1 ≤ blk := by omega
  cases t with
  | reg r =>
    have hro : regOpnd r = some (.reg r) := regOpnd_of ht.opnd
    refine ⟨μ.setH (b.toNat + off) v, ?_, H.setH _ _, fun _ _ => rfl⟩
    simp [storeFieldCode, loadPtr, jumpReg, mFwd_cons, mFwd_nil, mcont, mexecC, mexec, hb0, hro, maddr, hbo,
      hb2, hvb, ha, hv]
  | spill p =>
    have hmo : memOpnd 0 (stackOffset p) = some (.spill p) := memOpnd_of ht.opnd
    have hb1' : ¬ Temporary.reg blk = .reg 1 := fun e => by injection e with e; omega
    refine ⟨(μ.setT (.reg 1) (some v)).setH (b.toNat + off) v, ?_,
      (H.setT (by simp [HEAP_eq]) (by simp [FREE_eq]) _).setH _ _, fun u hu => ?_⟩
    · simp [storeFieldCode, loadPtr, jumpReg, mFwd_cons, mFwd_nil, mcont, mexecC, mexec, hb0, hmo, maddr, hbo,
        hb2, hvb, ha, hv, TEMP_eq, STACK_eq, regOpnd1, hb1']
    · rw [TEMP_eq] at hu; simp [hu]

/-- `store_zero`: `[blk + fst off] := 0` -/
theorem m_storeZero (C : HeapCfgOK c) (H : HRelM c μ h) {blk : Nat} (hb1 : 2 ≤ blk) (hb2 : blk < 16)
    {b : Word} (hvb : μ.val (.reg blk) = some b) {off : Nat} (ho : off ≤ 1000)
    (hwr : Scc.Heap.wr h (b.toNat + Scc.Heap.fstOff off) 0 = .ok h') :
    ∃ μ', mFwd c (storeZero blk off) μ = some (μ', .next) ∧ HRelM c μ' h' ∧ μ'.val = μ.val := by
  obtain ⟨hok, rfl⟩ := wr_eq_ok.1 hwr
  have hoff : Scc.Heap.fstOff off < 2 ^ 31 := by simp [Scc.Heap.fstOff, Scc.Heap.fieldOffset]; omega
  have ha := haddr_ok C H hoff hok
  have hb0 : ¬ blk = 0 := by omega
  have hbo : 1 ≤ blk := by omega
  refine ⟨μ.setH (b.toNat + Scc.Heap.fstOff off) 0#64, ?_, H.setH _ _, rfl⟩
  simp [storeZero, fieldOffset_fst, mFwd_cons, mFwd_nil, mcont, mexecC, mexec, hb0, maddr, hbo, hb2, hvb, ha,
    fitsI32]

end Prim

end Scc.X86

/-! ## the environment: which model fields the variables of a context hold -/

namespace Scc.X86
open Scc.AxCut
open Scc.Backend (GenM TempNum freshLabel)

/-- the variable `b` at context position `n` holds the model field `f`: an `ext` variable an integer
(word part), any other variable a pointer part and a word part -/
def FieldAt (μ : MState) (n : Nat) (b : Binding) (f : Scc.Heap.Field) : Prop :=
  if (b.chi == .ext) = true then ∃ w : Word, f = .int w.toNat ∧ μ.val (posTemp (2 * n + 1)) = some w
  else ∃ p w : Word, f = .ptr p.toNat w.toNat ∧ μ.val (posTemp (2 * n)) = some p ∧
    μ.val (posTemp (2 * n + 1)) = some w

/-- the variables `Γ` at positions `n, n+1, …` hold the fields `fs` -/
def EnvFields (μ : MState) : Nat → Ctx → List Scc.Heap.Field → Prop
  | _, [], [] => True
  | n, b :: bs, f :: fs => FieldAt μ n b f ∧ EnvFields μ (n + 1) bs fs
  | _, _, _ => False

/-- the same for a REVERSED list (as the `pop` loops of memory.rs consume it): the head is the
variable at position `base + (length of the tail)` -/
def EnvFieldsRev (μ : MState) (base : Nat) : List Binding → List Scc.Heap.Field → Prop
  | [], [] => True
  | b :: bs, f :: fs => FieldAt μ (base + bs.length) b f ∧ EnvFieldsRev μ base bs fs
  | _, _ => False

theorem EnvFields.length_eq {μ : MState} : ∀ {n : Nat} {Γ : Ctx} {fs : List Scc.Heap.Field},
    EnvFields μ n Γ fs → Γ.length = fs.length
  | _, [], [], _ => rfl
  | _, [], _ :: _, h => h.elim
  | _, _ :: _, [], h => h.elim
  | _, _ :: _, _ :: _, h => by simp [EnvFields.length_eq h.2]

theorem EnvFields.snoc {μ : MState} : ∀ {n : Nat} {Γ : Ctx} {fs : List Scc.Heap.Field} {b : Binding}
    {f : Scc.Heap.Field}, EnvFields μ n Γ fs → FieldAt μ (n + Γ.length) b f →
    EnvFields μ n (Γ ++ [b]) (fs ++ [f])
  | _, [], [], _, _, _, h => ⟨by simpa using h, trivial⟩
  | _, [], _ :: _, _, _, h, _ => h.elim
  | _, _ :: _, [], _, _, h, _ => h.elim
  | n, _ :: bs, _ :: fs, b, f, h, hf =>
    ⟨h.1, EnvFields.snoc h.2 (by rw [List.length_cons] at hf; rw [show n + 1 + bs.length = n + (bs.length + 1) by omega]; exact hf)⟩

theorem EnvFields.unsnoc {μ : MState} : ∀ {n : Nat} {Γ : Ctx} {fs : List Scc.Heap.Field} {b : Binding}
    {f : Scc.Heap.Field}, Γ.length = fs.length → EnvFields μ n (Γ ++ [b]) (fs ++ [f]) →
    EnvFields μ n Γ fs ∧ FieldAt μ (n + Γ.length) b f
  | _, [], [], _, _, _, h => ⟨trivial, by simpa [EnvFields] using h.1⟩
  | _, [], _ :: _, _, _, hl, _ => by simp at hl
  | _, _ :: _, [], _, _, hl, _ => by simp at hl
  | n, _ :: bs, _ :: fs, b, f, hl, h => by
    have := EnvFields.unsnoc (n := n + 1) (Γ := bs) (fs := fs) (by simpa using hl) h.2
    refine ⟨⟨h.1, this.1⟩, ?_⟩
    rw [List.length_cons, show n + (bs.length + 1) = n + 1 + bs.length by omega]
    exact this.2

/-- front-to-back and reversed presentations agree -/
theorem envFields_rev_aux {μ : MState} (base : Nat) : ∀ (n : Nat) (Γ : Ctx) (fs : List Scc.Heap.Field),
    Γ.length = n → EnvFields μ base Γ fs → EnvFieldsRev μ base Γ.reverse fs.reverse := by
  intro n
  induction n with
  | zero =>
    intro Γ fs hn h
    have : Γ = [] := List.eq_nil_of_length_eq_zero hn
    subst this
    cases fs with
    | nil => trivial
    | cons _ _ => exact h.elim
  | succ n ih =>
    intro Γ fs hn h
    have hl := h.length_eq
    rcases List.eq_nil_or_concat Γ with rfl | ⟨bs, b, rfl⟩
    · simp at hn
    rcases List.eq_nil_or_concat fs with rfl | ⟨fs', f, rfl⟩
    · simp at hl
    · rw [List.concat_eq_append] at h hl hn ⊢
      rw [List.concat_eq_append] at h hl ⊢
      have hl' : bs.length = fs'.length := by simpa using hl
      obtain ⟨h1, h2⟩ := EnvFields.unsnoc hl' h
      rw [List.reverse_append, List.reverse_append]
      exact ⟨by simpa using h2, ih bs fs' (by simpa using hn) h1⟩

theorem envFields_rev {μ : MState} (base : Nat) (Γ : Ctx) (fs : List Scc.Heap.Field)
    (h : EnvFields μ base Γ fs) : EnvFieldsRev μ base Γ.reverse fs.reverse :=
  envFields_rev_aux base Γ.length Γ fs rfl h

theorem EnvFields.take {μ : MState} : ∀ {n : Nat} {Γ : Ctx} {fs : List Scc.Heap.Field} (k : Nat),
    EnvFields μ n Γ fs → EnvFields μ n (Γ.take k) (fs.take k)
  | _, [], [], _, _ => by simp [EnvFields]
  | _, [], _ :: _, _, h => h.elim
  | _, _ :: _, [], _, h => h.elim
  | _, _ :: _, _ :: _, 0, _ => by simp [EnvFields]
  | _, _ :: _, _ :: _, k + 1, h => ⟨h.1, EnvFields.take k h.2⟩

theorem EnvFields.drop {μ : MState} : ∀ {n : Nat} {Γ : Ctx} {fs : List Scc.Heap.Field} (k : Nat),
    EnvFields μ n Γ fs → EnvFields μ (n + min k Γ.length) (Γ.drop k) (fs.drop k)
  | _, [], [], _, _ => by simp [EnvFields]
  | _, [], _ :: _, _, h => h.elim
  | _, _ :: _, [], _, h => h.elim
  | _, _ :: _, _ :: _, 0, h => by simpa using h
  | n, _ :: bs, _ :: _, k + 1, h => by
    have := EnvFields.drop k h.2
    rw [List.drop_succ_cons, List.drop_succ_cons, List.length_cons,
      show n + min (k + 1) (bs.length + 1) = n + 1 + min k bs.length by omega]
    exact this

theorem FieldAt.congr {μ μ' : MState} {n : Nat} {b : Binding} {f : Scc.Heap.Field}
    (h : FieldAt μ n b f) (e0 : μ'.val (posTemp (2 * n)) = μ.val (posTemp (2 * n)))
    (e1 : μ'.val (posTemp (2 * n + 1)) = μ.val (posTemp (2 * n + 1))) : FieldAt μ' n b f := by
  unfold FieldAt at h ⊢
  rw [e0, e1]; exact h

theorem EnvFields.congr {μ μ' : MState} : ∀ {n : Nat} {Γ : Ctx} {fs : List Scc.Heap.Field},
    EnvFields μ n Γ fs → (∀ m, 2 * n ≤ m → m < 2 * (n + Γ.length) → μ'.val (posTemp m) = μ.val (posTemp m)) →
    EnvFields μ' n Γ fs
  | _, [], [], _, _ => trivial
  | _, [], _ :: _, h, _ => h.elim
  | _, _ :: _, [], h, _ => h.elim
  | n, _ :: bs, _ :: _, h, e =>
    ⟨h.1.congr (e _ (by omega) (by simp only [List.length_cons]; omega))
      (e _ (by omega) (by simp only [List.length_cons]; omega)),
     EnvFields.congr h.2 (fun m h1 h2 => e m (by omega) (by simp only [List.length_cons] at h2 ⊢; omega))⟩

theorem EnvFieldsRev.congr {μ μ' : MState} {base : Nat} : ∀ {Γ : List Binding} {fs : List Scc.Heap.Field},
    EnvFieldsRev μ base Γ fs →
    (∀ m, 2 * base ≤ m → m < 2 * (base + Γ.length) → μ'.val (posTemp m) = μ.val (posTemp m)) →
    EnvFieldsRev μ' base Γ fs
  | [], [], _, _ => trivial
  | [], _ :: _, h, _ => h.elim
  | _ :: _, [], h, _ => h.elim
  | _ :: bs, _ :: _, h, e =>
    ⟨h.1.congr (e _ (by omega) (by simp only [List.length_cons]; omega))
      (e _ (by omega) (by simp only [List.length_cons]; omega)),
     EnvFieldsRev.congr h.2 (fun m h1 h2 => e m h1 (by simp only [List.length_cons]; omega))⟩

end Scc.X86

/-! ## store_value, store_values -/

namespace Scc.X86
open Scc.AxCut
open Scc.Backend (GenM TempNum freshLabel)

section Values
variable {c : MachCfg}

theorem noLab_storeZero (blk off : Nat) : NoLab (storeZero blk off) := by
  intro l; simp [storeZero]

/-- CONTRACT of `store_value`: the variable `b` (the last one of the context `ctx ++ [b]`, i.e. at
position `|ctx|`) goes into field `off` of the block in register `blk` -/
theorem m_storeValue (C : HeapCfgOK c) {μ : MState} {h h' : Scc.Heap.HState} (H : HRelM c μ h)
    {b : Binding} {ctx : Ctx} {f : Scc.Heap.Field} (hf : FieldAt μ ctx.length b f)
    (hcap : 2 * ctx.length + 1 < 267) {blk : Nat} (hb1 : 2 ≤ blk) (hb2 : blk < 16) {bw : Word}
    (hvb : μ.val (.reg blk) = some bw) {off : Nat} (ho : off ≤ 1000)
    (hop : Scc.Heap.storeValue h f bw.toNat off = .ok h') (k : Nat) :
    ∃ code, (storeValue b ctx blk off).run k = .ok (code, k) ∧ NoLab code ∧
      ∃ μ', mFwd c code μ = some (μ', .next) ∧ HRelM c μ' h' ∧
        (∀ u, u ≠ .reg TEMP → μ'.val u = μ.val u) := by
  have hs : Scc.Heap.sndOff off < 2 ^ 31 := by simp [Scc.Heap.sndOff, Scc.Heap.fieldOffset]; omega
  have hfo : Scc.Heap.fstOff off < 2 ^ 31 := by simp [Scc.Heap.fstOff, Scc.Heap.fieldOffset]; omega
  have hbT : Temporary.reg blk ≠ .reg TEMP := fun e => by injection e with e; rw [TEMP_eq] at e; omega
  unfold storeValue
  rw [genm_bind (storeField_run .snd ctx blk off k (by simpa [TempNum.toNat] using hcap))]
  unfold FieldAt at hf
  by_cases hχ : (b.chi == .ext) = true
  · rw [if_pos hχ] at hf
    obtain ⟨w, rfl, hw⟩ := hf
    simp only [hχ, if_true]
    refine ⟨_, genm_pure _ k, (noLab_storeFieldCode _ _ _).append (noLab_storeZero _ _), ?_⟩
    simp only [Scc.Heap.storeValue] at hop
    cases hw1 : Scc.Heap.wr h (bw.toNat + Scc.Heap.sndOff off) w.toNat with
    | error e => simp [hw1] at hop
    | ok s1 =>
      simp only [hw1] at hop
      obtain ⟨μ1, x1, H1, F1⟩ := m_storeFieldCode C H (tempOK_posTemp hcap) hw hb1 hb2 hvb hs hw1
      obtain ⟨μ2, x2, H2, F2⟩ := m_storeZero C H1 hb1 hb2 (by rw [F1 _ hbT]; exact hvb) ho hop
      rw [fieldOffset_snd]
      exact ⟨μ2, mFwd_seq c x1 x2, H2, fun u hu => by rw [F2, F1 u hu]⟩
  · rw [if_neg hχ] at hf
    obtain ⟨p, w, rfl, hp, hw⟩ := hf
    simp only [hχ, Bool.false_eq_true, ↓reduceIte]
    rw [genm_bind (storeField_run .fst ctx blk off k (by simp [TempNum.toNat]; omega))]
    refine ⟨_, genm_pure _ k, (noLab_storeFieldCode _ _ _).append (noLab_storeFieldCode _ _ _), ?_⟩
    simp only [Scc.Heap.storeValue] at hop
    cases hw1 : Scc.Heap.wr h (bw.toNat + Scc.Heap.sndOff off) w.toNat with
    | error e => simp [hw1] at hop
    | ok s1 =>
      simp only [hw1] at hop
      obtain ⟨μ1, x1, H1, F1⟩ := m_storeFieldCode C H (tempOK_posTemp hcap) hw hb1 hb2 hvb hs hw1
      have hcap0 : 2 * ctx.length < 267 := by omega
      have hp1 : μ1.val (posTemp (2 * ctx.length)) = some p := by
        rw [F1 _ (posTemp_ne_low hcap0).1]; exact hp
      obtain ⟨μ2, x2, H2, F2⟩ := m_storeFieldCode C H1 (tempOK_posTemp hcap0) hp1 hb1 hb2
        (by rw [F1 _ hbT]; exact hvb) hfo hop
      rw [fieldOffset_snd, fieldOffset_fst]
      simp only [TempNum.toNat, Nat.add_zero]
      exact ⟨μ2, mFwd_seq c x1 x2, H2, fun u hu => by rw [F2 u hu, F1 u hu]⟩

/-- `store_zeros` for the offsets `k0, k0+1, …` -/
theorem m_storeZerosFrom (C : HeapCfgOK c) {blk : Nat} (hb1 : 2 ≤ blk) (hb2 : blk < 16) {bw : Word} :
    ∀ (n k0 : Nat) (μ : MState) (h h' : Scc.Heap.HState), HRelM c μ h → μ.val (.reg blk) = some bw →
    k0 + n ≤ 1000 → Scc.Heap.storeZerosFrom h bw.toNat k0 n = .ok h' →
    ∃ μ', mFwd c (((List.range' k0 n).map (fun off => storeZero blk off)).flatten) μ = some (μ', .next) ∧
      HRelM c μ' h' ∧ μ'.val = μ.val := by
  intro n
  induction n with
  | zero =>
    intro k0 μ h h' H hv _ hop
    simp only [Scc.Heap.storeZerosFrom, Except.ok.injEq] at hop
    subst hop
    exact ⟨μ, by simp [mFwd_nil], H, rfl⟩
  | succ n ih =>
    intro k0 μ h h' H hv hk hop
    simp only [Scc.Heap.storeZerosFrom] at hop
    cases hw : Scc.Heap.wr h (bw.toNat + Scc.Heap.fstOff k0) 0 with
    | error e => simp [hw] at hop
    | ok s1 =>
      simp only [hw] at hop
      obtain ⟨μ1, x1, H1, F1⟩ := m_storeZero C H hb1 hb2 hv (by omega) hw
      obtain ⟨μ2, x2, H2, F2⟩ := ih (k0 + 1) μ1 s1 h' H1 (by rw [F1]; exact hv) (by omega) hop
      refine ⟨μ2, ?_, H2, by rw [F2, F1]⟩
      rw [List.range'_succ, List.map_cons, List.flatten_cons]
      exact mFwd_seq c x1 x2

theorem noLab_storeZeros (n blk : Nat) : NoLab (storeZeros n blk) := by
  intro l hl
  simp only [storeZeros, List.mem_flatten, List.mem_map] at hl
  obtain ⟨_, ⟨off, _, rfl⟩, h⟩ := hl
  exact noLab_storeZero blk off l h

/-- the `pop` loop of `store_values`, on the reversed list; the zeros are stored afterwards -/
theorem m_storeValuesLoop (C : HeapCfgOK c) {rem : Ctx} {blk : Nat} (hb1 : 2 ≤ blk) (hb2 : blk < 16)
    {bw : Word} : ∀ (bsRev : List Binding) (fsRev : List Scc.Heap.Field) (ff : Nat) (μ : MState)
    (h h' : Scc.Heap.HState) (k : Nat), HRelM c μ h → μ.val (.reg blk) = some bw →
    EnvFieldsRev μ rem.length bsRev fsRev → 2 * (rem.length + bsRev.length) ≤ 267 → ff ≤ 1000 →
    Scc.Heap.storeValuesRev h bw.toNat fsRev ff = .ok h' →
    ∃ code ff', (storeValuesLoop rem blk bsRev ff).run k = .ok ((code, ff'), k) ∧ NoLab code ∧ ff' ≤ ff ∧
      ∃ μ' h1, mFwd c code μ = some (μ', .next) ∧ HRelM c μ' h1 ∧
        Scc.Heap.storeZeros h1 ff' bw.toNat = .ok h' ∧ (∀ u, u ≠ .reg TEMP → μ'.val u = μ.val u) := by
  intro bsRev
  induction bsRev with
  | nil =>
    intro fsRev ff μ h h' k H hv hE _ _ hop
    cases fsRev with
    | cons _ _ => exact hE.elim
    | nil =>
      simp only [Scc.Heap.storeValuesRev] at hop
      exact ⟨[], ff, rfl, noLab_nil, Nat.le_refl _, μ, h, mFwd_nil c μ, H, hop, fun _ _ => rfl⟩
  | cons b rest ih =>
    intro fsRev ff μ h h' k H hv hE hcap hff hop
    cases fsRev with
    | nil => exact hE.elim
    | cons f fs =>
      cases ff with
      | zero => simp [Scc.Heap.storeValuesRev] at hop
      | succ ff =>
        simp only [Scc.Heap.storeValuesRev] at hop
        cases hsv : Scc.Heap.storeValue h f bw.toNat ff with
        | error e => simp [hsv] at hop
        | ok s1 =>
          simp only [hsv] at hop
          have hlen : (rem ++ rest.reverse).length = rem.length + rest.length := by simp
          simp only [List.length_cons] at hcap
          obtain ⟨c1, hr1, hn1, μ1, x1, H1, F1⟩ := m_storeValue C H (b := b) (ctx := rem ++ rest.reverse)
            (by rw [hlen]; exact hE.1) (by rw [hlen]; omega) hb1 hb2 hv (by omega) hsv k
          have hbT : Temporary.reg blk ≠ .reg TEMP := fun e => by injection e with e; rw [TEMP_eq] at e; omega
          have hE1 : EnvFieldsRev μ1 rem.length rest fs :=
            hE.2.congr (fun m _ h2 => F1 _ (posTemp_ne_low (by omega)).1)
          obtain ⟨c2, ff', hr2, hn2, hle, μ2, h1, x2, H2, hz, F2⟩ :=
            ih fs ff μ1 s1 h' k H1 (by rw [F1 _ hbT]; exact hv) hE1 (by omega) (by omega) hop
          refine ⟨c1 ++ c2, ff', ?_, hn1.append hn2, by omega, μ2, h1, mFwd_seq c x1 x2, H2, hz,
            fun u hu => by rw [F2 u hu, F1 u hu]⟩
          simp only [storeValuesLoop]
          rw [genm_bind (show (pred1 (ff + 1)).run k = .ok (ff, k) from rfl), genm_bind hr1, genm_bind hr2]
          rfl

/-- CONTRACT of `store_values` -/
theorem m_storeValues (C : HeapCfgOK c) {μ : MState} {h h' : Scc.Heap.HState} (H : HRelM c μ h)
    {toStore rem : Ctx} {fs : List Scc.Heap.Field} (hE : EnvFields μ rem.length toStore fs)
    (hcap : 2 * (rem.length + toStore.length) ≤ 267) {blk : Nat} (hb1 : 2 ≤ blk) (hb2 : blk < 16)
    {bw : Word} (hv : μ.val (.reg blk) = some bw) {ff : Nat} (hff : ff ≤ 1000)
    (hop : Scc.Heap.storeValues h fs bw.toNat ff = .ok h') (k : Nat) :
    ∃ code, (storeValues toStore rem blk ff).run k = .ok (code, k) ∧ NoLab code ∧
      ∃ μ', mFwd c code μ = some (μ', .next) ∧ HRelM c μ' h' ∧
        (∀ u, u ≠ .reg TEMP → μ'.val u = μ.val u) := by
  have hbT : Temporary.reg blk ≠ .reg TEMP := fun e => by injection e with e; rw [TEMP_eq] at e; omega
  obtain ⟨cs, ff', hr, hn, hle, μ1, h1, x1, H1, hz, F1⟩ := m_storeValuesLoop C (rem := rem) hb1 hb2
    toStore.reverse fs.reverse ff μ h h' k H hv (envFields_rev _ _ _ hE) (by simpa using hcap) hff hop
  obtain ⟨μ2, x2, H2, F2⟩ := m_storeZerosFrom C hb1 hb2 ff' 0 μ1 h1 h' H1 (by rw [F1 _ hbT]; exact hv)
    (by omega) hz
  rw [← List.range_eq_range'] at x2
  refine ⟨[.COMMENT "##store values"] ++ cs ++
    (if ff' > 0 then [Code.COMMENT "##mark unused fields with null"] else []) ++ storeZeros ff' blk,
    ?_, ?_, μ2, ?_, H2, fun u hu => by rw [F2, F1 u hu]⟩
  · unfold storeValues
    rw [genm_bind hr]
    rfl
  · refine ((NoLab.append (fun l => by simp) hn).append ?_).append (noLab_storeZeros ff' blk)
    intro l; split <;> simp
  · refine mFwd_seq c (mFwd_seq c (mFwd_seq c (a := [.COMMENT "##store values"]) (μ1 := μ)
      (by simp [mFwd_cons, mFwd_nil, mcont, mexecC, mexec]) x1) ?_) x2
    split <;> simp [mFwd_cons, mFwd_nil, mcont, mexecC, mexec]

end Values

end Scc.X86

/-! ## store_fields, store -/

namespace Scc.X86
open Scc.AxCut
open Scc.Backend (GenM TempNum freshLabel)

/-- memory.rs BlockPosition ↦ the model's -/
def posMap : BlockPosition → Scc.Heap.BlockPosition
  | .last => .last
  | .other => .other

theorem restLength_eq (n : Nat) (pos : BlockPosition) :
    restLength n pos = Scc.Heap.restLength n (posMap pos) := by
  cases pos <;> rfl

theorem fpb_eq (pos : BlockPosition) :
    FIELDS_PER_BLOCK - pos.toNat = Scc.Heap.fieldsPerBlock - (posMap pos).toNat := by
  cases pos <;> rfl

section Fields
variable {c : MachCfg}

theorem m_loadImmediate0 {μ : MState} {t : Temporary} (ht : TempOK t) :
    mFwd c (loadImmediate t 0) μ = some (μ.setT t (some 0#64), .next) := by
  cases t with
  | reg r =>
    have hro : regOpnd r = some (.reg r) := regOpnd_of ht.opnd
    simp [loadImmediate, mFwd_cons, mFwd_nil, mcont, mexecC, mexec, hro, fitsI64]
  | spill p =>
    have hmo : memOpnd 0 (stackOffset p) = some (.spill p) := memOpnd_of ht.opnd
    simp [loadImmediate, mFwd_cons, mFwd_nil, mcont, mexecC, mexec, hmo, fitsI32, STACK_eq]

theorem noLab_loadImmediate (t : Temporary) (i : Int) : NoLab (loadImmediate t i) := by
  intro l; cases t <;> simp [loadImmediate]; split <;> simp

end Fields
end Scc.X86

namespace Scc.X86
open Scc.AxCut
open Scc.Backend (GenM TempNum freshLabel)

section Fields2
variable {c : MachCfg}

theorem heap_storeFields_nil (s : Scc.Heap.HState) (pos : Scc.Heap.BlockPosition) (prev : Nat) :
    Scc.Heap.storeFields s [] pos prev = .ok (s, if pos = .last then 0 else prev) := by
  rw [Scc.Heap.storeFields]; simp

theorem heap_storeFields_cons (s : Scc.Heap.HState) (fs : List Scc.Heap.Field) (hne : fs ≠ [])
    (pos : Scc.Heap.BlockPosition) (prev : Nat) :
    Scc.Heap.storeFields s fs pos prev =
      match (if pos = .other then Scc.Heap.wr s (s.heap + Scc.Heap.fstOff (Scc.Heap.fieldsPerBlock - 1)) prev
             else .ok s) with
      | .error e => .error e
      | .ok s1 =>
        match Scc.Heap.storeValues s1 (fs.drop (Scc.Heap.restLength fs.length pos)) s1.heap
            (Scc.Heap.fieldsPerBlock - pos.toNat) with
        | .error e => .error e
        | .ok s2 =>
          match Scc.Heap.acquire s2 with
          | .error e => .error e
          | .ok (s3, new) =>
            Scc.Heap.storeFields s3 (fs.take (Scc.Heap.restLength fs.length pos)) .other new := by
  rw [Scc.Heap.storeFields]; simp only [dif_neg hne]; rfl

end Fields2
end Scc.X86

namespace Scc.X86
open Scc.AxCut
open Scc.Backend (GenM TempNum freshLabel)

section Fields3
variable {c : MachCfg}

theorem noLab_comment (m : String) : NoLab [.COMMENT m] := fun l => by simp

theorem mFwd_comment (c : MachCfg) (m : String) (μ : MState) :
    mFwd c [.COMMENT m] μ = some (μ, .next) := by
  simp [mFwd_cons, mFwd_nil, mcont, mexecC, mexec]

/-- CONTRACT of `store_fields` on the view: ANY number of fields (the recursion allocates one block per
`FIELDS_PER_BLOCK - 1` further fields and links the blocks), every placement. -/
theorem m_storeFields (C : HeapCfgOK c) : ∀ (fuel : Nat) (toStore rem : Ctx) (pos : BlockPosition)
    (fs : List Scc.Heap.Field) (prev : Nat) (μ : MState) (h h' : Scc.Heap.HState) (ptr k : Nat),
    toStore.length < fuel → HRelM c μ h → EnvFields μ rem.length toStore fs →
    2 * (rem.length + toStore.length) ≤ 267 →
    (pos = .other → ∃ w, μ.val (posTemp (2 * (rem.length + toStore.length))) = some w ∧ w.toNat = prev) →
    Scc.Heap.storeFields h fs (posMap pos) prev = .ok (h', ptr) →
    ∃ code k', (storeFields fuel toStore rem pos).run k = .ok (code, k') ∧ k ≤ k' ∧ LabsIn code k k' ∧
      ∃ μ', mFwd c code μ = some (μ', .next) ∧ HRelM c μ' h' ∧
        (∃ w, μ'.val (posTemp (2 * rem.length)) = some w ∧ w.toNat = ptr) ∧
        (∀ u, u ≠ .reg TEMP → u ≠ .reg HEAP → u ≠ .reg FREE →
          (∀ j, j ≤ toStore.length - 1 → u ≠ posTemp (2 * (rem.length + j))) → μ'.val u = μ.val u) := by
  intro fuel
  induction fuel with
  | zero => intro toStore _ _ _ _ _ _ _ _ _ hf; exact absurd hf (Nat.not_lt_zero _)
  | succ fuel ih =>
    intro toStore rem pos fs prev μ h h' ptr k hfuel H hE hcap hlink hop
    have hlen := hE.length_eq
    simp only [storeFields]
    by_cases hne : toStore = []
    · -- no (more) fields
      subst hne
      have hfs : fs = [] := by
        cases fs with
        | nil => rfl
        | cons _ _ => exact hE.elim
      subst hfs
      rw [heap_storeFields_nil] at hop
      simp only [Except.ok.injEq, Prod.mk.injEq] at hop
      obtain ⟨rfl, rfl⟩ := hop
      simp only [List.isEmpty_nil, if_true]
      cases pos with
      | last =>
        have hc0 : 2 * rem.length + TempNum.fst.toNat < 267 := by simp [TempNum.toNat] at hcap ⊢; omega
        simp only [if_true]
        rw [genm_bind (freshTemporary_run k hc0)]
        simp only [TempNum.toNat, Nat.add_zero] at hc0 ⊢
        refine ⟨_, k, genm_pure _ k, Nat.le_refl _,
          (NoLab.append (fun l => by simp) (noLab_loadImmediate _ _)).labsIn _ _, _,
          mFwd_seq c (mFwd_comment c _ μ) (m_loadImmediate0 (tempOK_posTemp hc0)), ?_, ?_, ?_⟩
        · obtain ⟨n1, n2, n3⟩ := posTemp_ne_low hc0
          exact H.setT n2 n3 _
        · exact ⟨0#64, by simp, by simp [posMap]⟩
        · intro u _ _ _ hj
          have := hj 0 (Nat.zero_le _)
          simp only [Nat.add_zero] at this
          simp [this]
      | other =>
        simp only [reduceCtorEq, if_false]
        obtain ⟨w, hw, ew⟩ := hlink rfl
        refine ⟨[], k, genm_pure _ k, Nat.le_refl _, LabsIn.nil _ _, μ, mFwd_nil c μ, H, ?_, fun _ _ _ _ _ => rfl⟩
        exact ⟨w, by simpa using hw, by simp [posMap, ew]⟩
    · -- a block of fields
      have hie : toStore.isEmpty = false := by cases toStore <;> simp_all
      have hfne : fs ≠ [] := fun e => hne (List.eq_nil_of_length_eq_zero (by rw [hlen, e]; rfl))
      have hpos : 0 < toStore.length := List.length_pos_iff.mpr hne
      rw [heap_storeFields_cons _ _ hfne] at hop
      -- the common tail: values, acquire, the remaining fields
      have hrl : Scc.Heap.restLength fs.length (posMap pos) = restLength toStore.length pos := by
        rw [restLength_eq, hlen]
      have hrlt : restLength toStore.length pos < toStore.length := by
        rw [restLength_eq]; exact Scc.Heap.restLength_lt _ _ hpos
      rw [hrl] at hop
      generalize hrl' : restLength toStore.length pos = rl at hop hrlt ⊢
      have hlt : (rem ++ toStore.take rl).length = rem.length + rl := by
        simp [List.length_take]; omega
      have hct : 2 * (rem ++ toStore.take rl).length + TempNum.fst.toNat < 267 := by
        rw [hlt]; simp [TempNum.toNat]; omega
      have tail : ∀ (pre : List Code) (μ1 : MState) (s1 : Scc.Heap.HState), NoLab pre →
          mFwd c pre μ = some (μ1, .next) → HRelM c μ1 s1 → (∀ u, u ≠ .reg TEMP → μ1.val u = μ.val u) →
          s1.heap = h.heap →
          (match Scc.Heap.storeValues s1 (fs.drop rl) s1.heap (Scc.Heap.fieldsPerBlock - (posMap pos).toNat) with
            | .error e => Except.error e
            | .ok s2 =>
              match Scc.Heap.acquire s2 with
              | .error e => Except.error e
              | .ok (s3, new) => Scc.Heap.storeFields s3 (fs.take rl) .other new) = .ok (h', ptr) →
          ∃ c3 c4 c5 k', (storeValues (toStore.drop rl) (rem ++ toStore.take rl) HEAP
                (FIELDS_PER_BLOCK - pos.toNat)).run k = .ok (c3, k) ∧
            (acquireBlock (posTemp (2 * (rem.length + rl)))).run k = .ok (c4, k + 13) ∧
            (storeFields fuel (toStore.take rl) rem .other).run (k + 13) = .ok (c5, k') ∧ k + 13 ≤ k' ∧
            LabsIn (pre ++ c3 ++ [.COMMENT "##acquire free block from heap register"] ++ c4 ++ c5) k k' ∧
            ∃ μ', mFwd c (pre ++ c3 ++ [.COMMENT "##acquire free block from heap register"] ++ c4 ++ c5) μ =
                some (μ', .next) ∧ HRelM c μ' h' ∧
              (∃ w, μ'.val (posTemp (2 * rem.length)) = some w ∧ w.toNat = ptr) ∧
              (∀ u, u ≠ .reg TEMP → u ≠ .reg HEAP → u ≠ .reg FREE →
                (∀ j, j ≤ toStore.length - 1 → u ≠ posTemp (2 * (rem.length + j))) → μ'.val u = μ.val u) := by
        intro pre μ1 s1 hnl xpre H1 F1 hheap hop1
        obtain ⟨wH, hH, eH⟩ := H1.heap
        cases hsv : Scc.Heap.storeValues s1 (fs.drop rl) s1.heap
            (Scc.Heap.fieldsPerBlock - (posMap pos).toNat) with
        | error e => simp [hsv] at hop1
        | ok s2 =>
          simp only [hsv] at hop1
          cases hac : Scc.Heap.acquire s2 with
          | error e => simp [hac] at hop1
          | ok r =>
            obtain ⟨s3, new⟩ := r
            simp only [hac] at hop1
            -- store_values
            have hE1 : EnvFields μ1 (rem ++ toStore.take rl).length (toStore.drop rl) (fs.drop rl) := by
              have := (hE.drop rl).congr (μ' := μ1) (fun m _ h2 => F1 _ (by
                have : m < 267 := by
                  simp only [List.length_drop] at h2
                  omega
                exact (posTemp_ne_low this).1))
              rw [hlt, show rem.length + rl = rem.length + min rl toStore.length by omega]
              exact this
            rw [← eH, ← fpb_eq] at hsv
            obtain ⟨c3, hr3, hn3, μ2, x2, H2, F2⟩ := m_storeValues C H1 hE1
              (by rw [hlt]; simp only [List.length_drop]; omega) (blk := HEAP) (by decide) (by decide)
              hH (ff := FIELDS_PER_BLOCK - pos.toNat) (by cases pos <;> decide) hsv k
            -- acquire_block
            have hct' : rem.length + rl < 134 := by omega
            have htOK : TempOK (posTemp (2 * (rem.length + rl))) := tempOK_posTemp (by omega)
            obtain ⟨c4, hr4, hl4, μ3, x3, H3, ⟨wn, hwn, ewn⟩, F3⟩ := m_acquire C H2 htOK hac k
            -- the remaining fields
            have hfr : ∀ m, m < 2 * (rem.length + rl) → μ3.val (posTemp m) = μ.val (posTemp m) := by
              intro m hm
              have hm267 : m < 267 := by omega
              obtain ⟨n1, n2, n3⟩ := posTemp_ne_low hm267
              rw [F3 _ (fun e => by have := posTemp_inj.1 e; omega) n1 n2 n3, F2 _ n1, F1 _ n1]
            have hE3 : EnvFields μ3 rem.length (toStore.take rl) (fs.take rl) :=
              (hE.take rl).congr (fun m _ h2 => hfr m (by simp only [List.length_take] at h2; omega))
            have hlt2 : (toStore.take rl).length = rl := by simp [List.length_take]; omega
            obtain ⟨c5, k', hr5, hk5, hl5, μ4, x4, H4, hptr, F4⟩ := ih (toStore.take rl) rem .other (fs.take rl)
              new μ3 s3 h' ptr (k + 13) (by rw [hlt2]; omega) H3 hE3 (by rw [hlt2]; omega)
              (fun _ => ⟨wn, by rw [hlt2]; exact hwn, ewn⟩) hop1
            refine ⟨c3, c4, c5, k', hr3, hr4, hr5, hk5, ?_, μ4, ?_, H4, hptr, ?_⟩
            · exact ((((hnl.labsIn _ _).append (hn3.labsIn _ _)).append (LabsIn.of_noLab _ _ (by simp))).append
                (hl4.mono (Nat.le_refl _) hk5)).append (hl5.mono (by omega) (Nat.le_refl _))
            · exact mFwd_seq c (mFwd_seq c (mFwd_seq c (mFwd_seq c xpre x2) (mFwd_comment c _ μ2)) x3) x4
            · intro u hT hHp hFr hj
              rw [F4 u hT hHp hFr (fun j hjl => hj j (by rw [hlt2] at hjl; omega)),
                F3 u (hj rl (by omega)) hT hHp hFr, F2 u hT, F1 u hT]
      simp only [hie, Bool.false_eq_true, if_false, hrl']
      cases pos with
      | last =>
        simp only [reduceCtorEq, if_false, posMap] at hop ⊢
        obtain ⟨c3, c4, c5, k', hr3, hr4, hr5, hk5, hl, μ', x, H', hptr, F'⟩ :=
          tail [.COMMENT "#allocate memory"] μ h (fun l => by simp) (mFwd_comment c _ μ) H (fun _ _ => rfl) rfl
            hop
        refine ⟨_, k', ?_, by omega, hl, μ', x, H', hptr, F'⟩
        rw [genm_bind (genm_pure _ k), genm_bind hr3, genm_bind (freshTemporary_run k hct)]
        simp only [TempNum.toNat, Nat.add_zero, hlt]
        rw [genm_bind hr4, genm_bind hr5]
        simp [genm_pure]
        rfl
      | other =>
        simp only [if_true, posMap] at hop ⊢
        obtain ⟨w, hw, ew⟩ := hlink rfl
        obtain ⟨wH, hH, eH⟩ := H.heap
        cases hwl : Scc.Heap.wr h (h.heap + Scc.Heap.fstOff (Scc.Heap.fieldsPerBlock - 1)) prev with
        | error e => simp [hwl] at hop
        | ok s1 =>
          simp only [hwl] at hop
          have hcl : 2 * (rem ++ toStore).length + TempNum.fst.toNat < 267 := by
            simp [TempNum.toNat]; omega
          have hlk : (rem ++ toStore).length = rem.length + toStore.length := by simp
          rw [← eH, ← ew] at hwl
          obtain ⟨μ1, x1, H1, F1⟩ := m_storeFieldCode C H (t := posTemp (2 * (rem.length + toStore.length)))
            (tempOK_posTemp (by omega)) hw (blk := HEAP) (by decide) (by decide) hH
            (off := Scc.Heap.fstOff (Scc.Heap.fieldsPerBlock - 1)) (by decide) hwl
          have hs1 : s1.heap = h.heap := by
            obtain ⟨_, rfl⟩ := wr_eq_ok.1 hwl; rfl
          obtain ⟨c3, c4, c5, k', hr3, hr4, hr5, hk5, hl, μ', x, H', hptr, F'⟩ :=
            tail ([.COMMENT "##store link to previous block"] ++
                storeFieldCode (posTemp (2 * (rem.length + toStore.length))) HEAP
                  ((Scc.Heap.fstOff (Scc.Heap.fieldsPerBlock - 1) : Nat) : Int) ++ [])
              μ1 s1 (((noLab_comment "##store link to previous block").append
                (noLab_storeFieldCode _ _ _)).append noLab_nil)
              (by rw [List.append_nil]; exact mFwd_seq c (mFwd_comment c _ μ) x1) H1 F1 hs1 hop
          refine ⟨_, k', ?_, by omega, hl, μ', x, H', hptr, F'⟩
          rw [genm_bind (storeField_run .fst (rem ++ toStore) HEAP (FIELDS_PER_BLOCK - 1) k hcl)]
          rw [genm_bind (genm_pure _ k), genm_bind hr3, genm_bind (freshTemporary_run k hct)]
          simp only [TempNum.toNat, Nat.add_zero, hlt, hlk]
          rw [genm_bind hr4, genm_bind hr5]
          simp [genm_pure, fieldOffset_fst]
          rfl

end Fields3
end Scc.X86

/-! ## Memory::store on the machine -/

namespace Scc.X86
open Scc.AxCut

/-- CONTRACT of `store` (memory.rs Memory::store) on the SPEC machine, for ANY number of fields and
EVERY placement: the variables `toStore` (context positions `|rem| …`, holding the model fields `fs`)
are stored as one object — one block for up to `FIELDS_PER_BLOCK` fields, otherwise a chain of linked
blocks, each block taken by `acquire_block` — exactly as `Scc.Heap.storeObj` does on the abstract heap.
From every boundary state representing a heap on which the model succeeds, the code runs to its end;
the final state is a boundary state with the same `rsp`, represents the model's result heap, and the
first temporary of position `|rem|` holds the object pointer (0 for an object without fields).
Changed: TEMP, HEAP, FREE, the flags, the heap, and first temporaries of the stored positions (targets of
`acquire_block`; position `|rem|` alone for an object without fields); every variable of `rem`, every
second temporary and everything beyond the stored positions is preserved. -/
theorem store_contract {c : MachCfg} {la : String → Option Nat} {st : State} {sp : Word}
    (h8 : c.heapBase % 8 = 0) (B : Boundary c st sp) {h h' : Scc.Heap.HState} (R : HeapRel c st h)
    {toStore rem : Ctx} {fs : List Scc.Heap.Field} (hcap : 2 * (rem.length + toStore.length) ≤ 267)
    (hE : EnvFields (mview sp st) rem.length toStore fs) {ptr : Nat}
    (hop : Scc.Heap.storeObj h fs = .ok (h', ptr)) (k : Nat) :
    ∃ code k', (store toStore rem).run k = .ok (code, k') ∧ k ≤ k' ∧ LabsIn code k k' ∧
      ∃ st', execFwd c la code st = .ok (st', .next) ∧ Boundary c st' sp ∧ HeapRel c st' h' ∧
        (∃ w, tempVal sp st' (posTemp (2 * rem.length)) = some w ∧ w.toNat = ptr) ∧
        FrameT sp st st' (fun u => u = .reg TEMP ∨ u = .reg HEAP ∨ u = .reg FREE ∨
          ∃ j, j ≤ toStore.length - 1 ∧ u = posTemp (2 * (rem.length + j))) := by
  obtain ⟨code, k', hrun, hk, hl, μ', hx, H', ⟨w, hw, ew⟩, hfr⟩ :=
    m_storeFields (heapCfgOK_of_boundary h8 B) (toStore.length + 1) toStore rem .last fs 0 (mview sp st) h h'
      ptr k (Nat.lt_succ_self _) (heapRel_mview (sp := sp) R) hE hcap (fun e => by cases e) hop
  obtain ⟨st', e, B', M', F⟩ := m_to_machine la B hx
    (changed := fun u => u = .reg TEMP ∨ u = .reg HEAP ∨ u = .reg FREE ∨
      ∃ j, j ≤ toStore.length - 1 ∧ u = posTemp (2 * (rem.length + j)))
    (fun u hu => hfr u (fun e => hu (Or.inl e)) (fun e => hu (Or.inr (Or.inl e)))
      (fun e => hu (Or.inr (Or.inr (Or.inl e)))) (fun j hj e => hu (Or.inr (Or.inr (Or.inr ⟨j, hj, e⟩)))))
  have hok : OpndOK (posTemp (2 * rem.length)) := (tempOK_posTemp (by omega)).opnd
  exact ⟨code, k', hrun, hk, hl, st', e, B', heapRel_of_mrep M' H', ⟨w, by rw [M'.vals _ hok]; exact hw, ew⟩, F⟩

end Scc.X86
