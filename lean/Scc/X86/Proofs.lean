/-
  Scc.X86.Proofs — proof infrastructure for the x86-64 backend theorems.

  * `execStraight`: running a list of instructions as straight-line code on the SPEC machine
    (`Scc.X86.execCode` of Machine.lean), and `steps_straight`: the bridge to the machine's own
    `step` function (a program that contains the list at `pc` performs exactly these transitions).
  * `AState` / `aexec`: a FUNCTIONAL VIEW of the machine state restricted to registers, flags and
    stack memory (total functions instead of `Array` / `HashMap`, `Option` instead of `Except`), with
    the simulation theorem `sim_exec`: whenever the view can execute an instruction, the machine
    executes it with the same effect and touches nothing else (heap, trace, counters).
    All Theorem-B lemmas are proved on the view (plain `simp`/`omega`) and transferred.
-/
import Scc.X86.Machine
import Scc.X86.Backend

namespace Scc.X86

/-! ## straight-line execution on the machine -/

/-- Run instructions one after the other; every one must fall through. -/
def execStraight (c : MachCfg) (la : String → Option Nat) : List Code → State → M State
  | [], s => .ok s
  | code :: rest, s =>
    match execCode c la code s with
    | .ok (s1, .next) => execStraight c la rest s1
    | .ok (_, _) => .error "control-transfer"
    | .error e => .error e

theorem execStraight_append (c : MachCfg) (la : String → Option Nat) (l1 l2 : List Code) (s : State) :
    execStraight c la (l1 ++ l2) s =
      match execStraight c la l1 s with
      | .ok s1 => execStraight c la l2 s1
      | .error e => .error e := by
  induction l1 generalizing s with
  | nil => simp [execStraight]
  | cons code rest ih =>
    simp only [List.cons_append, execStraight]
    cases h : execCode c la code s with
    | error e => simp
    | ok r =>
      obtain ⟨s1, ctl⟩ := r
      cases ctl <;> simp [ih]

/-! ## the functional view -/

/-- Registers, stack memory (by byte address) and flags as total functions. -/
structure AState where
  reg : Nat → Option Word
  mem : Nat → Option Word
  flags : Option (Word × Word)

def AState.setReg (a : AState) (r : Nat) (v : Option Word) : AState :=
  { a with reg := fun x => if x = r then v else a.reg x }

def AState.setMem (a : AState) (n : Nat) (v : Option Word) : AState :=
  { a with mem := fun x => if x = n then v else a.mem x }

@[simp] theorem AState.setReg_reg (a : AState) (r : Nat) (v : Option Word) (x : Nat) :
    (a.setReg r v).reg x = if x = r then v else a.reg x := rfl
@[simp] theorem AState.setReg_mem (a : AState) (r : Nat) (v : Option Word) :
    (a.setReg r v).mem = a.mem := rfl
@[simp] theorem AState.setReg_flags (a : AState) (r : Nat) (v : Option Word) :
    (a.setReg r v).flags = a.flags := rfl
@[simp] theorem AState.setMem_mem (a : AState) (n : Nat) (v : Option Word) (x : Nat) :
    (a.setMem n v).mem x = if x = n then v else a.mem x := rfl
@[simp] theorem AState.setMem_reg (a : AState) (n : Nat) (v : Option Word) :
    (a.setMem n v).reg = a.reg := rfl
@[simp] theorem AState.setMem_flags (a : AState) (n : Nat) (v : Option Word) :
    (a.setMem n v).flags = a.flags := rfl

def ardRaw (a : AState) (r : Reg) : Option (Option Word) := if r < 16 then some (a.reg r) else none
def ard (a : AState) (r : Reg) : Option Word := if r < 16 then a.reg r else none
def awrRaw (a : AState) (r : Reg) (v : Option Word) : Option AState :=
  if r < 16 then some (a.setReg r v) else none
def awr (a : AState) (r : Reg) (v : Word) : Option AState := awrRaw a r (some v)

/-- A stack address: aligned, inside the stack region, not in the heap region. -/
def aaddr (c : MachCfg) (w : Word) : Option Nat :=
  let n := w.toNat
  if n % 8 = 0 ∧ inHeap c n = false ∧ inStack c n = true then some n else none

def aloadRaw (c : MachCfg) (a : AState) (w : Word) : Option (Option Word) :=
  match aaddr c w with
  | some n => some (a.mem n)
  | none => none

def aload (c : MachCfg) (a : AState) (w : Word) : Option Word :=
  match aloadRaw c a w with
  | some (some v) => some v
  | _ => none

def astoreRaw (c : MachCfg) (a : AState) (w : Word) (v : Option Word) : Option AState :=
  match aaddr c w with
  | some n => some (a.setMem n v)
  | none => none

def aimm32 (i : Int) : Option Word := if fitsI32 i then some (BitVec.ofInt 64 i) else none

def aea (a : AState) (r : Reg) (i : Int) : Option Word :=
  match ard a r, aimm32 i with
  | some b, some d => some (b + d)
  | _, _ => none

def areadLoc (c : MachCfg) (a : AState) : Loc → Option Word
  | .r r => ard a r
  | .m b d => match aea a b d with
    | some w => aload c a w
    | none => none

def awriteLoc (c : MachCfg) (a : AState) (l : Loc) (v : Word) : Option AState :=
  match l with
  | .r r => awr a r v
  | .m b d => match aea a b d with
    | some w => astoreRaw c a w (some v)
    | none => none

def areadSrc (c : MachCfg) (a : AState) : Src → Option Word
  | .loc l => areadLoc c a l
  | .imm i => aimm32 i

def aalu (c : MachCfg) (op : Word → Word → Word) (a : AState) (dst : Loc) (src : Src) : Option AState :=
  match areadLoc c a dst with
  | none => none
  | some x =>
    match areadSrc c a src with
    | none => none
    | some y =>
      match awriteLoc c a dst (op x y) with
      | none => none
      | some a1 => some { a1 with flags := none }

def acmp (c : MachCfg) (a : AState) (l : Loc) (s : Src) : Option AState :=
  match areadLoc c a l with
  | none => none
  | some x =>
    match areadSrc c a s with
    | none => none
    | some y => some { a with flags := some (x, y) }

def signExt (x : Word) : Word := if x.slt 0 then BitVec.ofInt 64 (-1) else 0

def aidiv (c : MachCfg) (a : AState) (src : Loc) : Option AState :=
  match ard a 4, ard a 5, areadLoc c a src with
  | some x, some d, some y =>
    if d ≠ signExt x then none
    else if y = 0 then none
    else if x = minInt64 && y = BitVec.ofInt 64 (-1) then none
    else
      match awr a 4 (x.sdiv y) with
      | none => none
      | some a1 =>
        match awr a1 5 (x.srem y) with
        | none => none
        | some a2 => some { a2 with flags := none }
  | _, _, _ => none

/-- The view's semantics of the fall-through instructions (registers / stack memory only). -/
def aexec (c : MachCfg) (la : String → Option Nat) (code : Code) (a : AState) : Option AState :=
  match code with
  | .ADD r r1 => aalu c (· + ·) a (.r r) (.loc (.r r1))
  | .ADDRM r r1 i => aalu c (· + ·) a (.r r) (.loc (.m r1 i))
  | .ADDMR r1 i r => aalu c (· + ·) a (.m r1 i) (.loc (.r r))
  | .ADDI r i => aalu c (· + ·) a (.r r) (.imm i)
  | .ADDIM r i1 i2 => aalu c (· + ·) a (.m r i1) (.imm i2)
  | .SUB r r1 => aalu c (· - ·) a (.r r) (.loc (.r r1))
  | .SUBRM r r1 i => aalu c (· - ·) a (.r r) (.loc (.m r1 i))
  | .SUBMR r1 i r => aalu c (· - ·) a (.m r1 i) (.loc (.r r))
  | .SUBI r i => aalu c (· - ·) a (.r r) (.imm i)
  | .IMUL r r1 => aalu c (· * ·) a (.r r) (.loc (.r r1))
  | .IMULRM r r1 i => aalu c (· * ·) a (.r r) (.loc (.m r1 i))
  | .IDIV r => aidiv c a (.r r)
  | .IDIVM r i => aidiv c a (.m r i)
  | .CQO =>
    match ard a 4 with
    | some x => awr a 5 (signExt x)
    | none => none
  | .LEAL r l =>
    match la l with
    | some n => awr a r (BitVec.ofNat 64 n)
    | none => none
  | .MOV r r1 =>
    match ardRaw a r1 with
    | some v => awrRaw a r v
    | none => none
  | .MOVS r r1 i =>
    match ardRaw a r, aea a r1 i with
    | some v, some w => astoreRaw c a w v
    | _, _ => none
  | .MOVL r r1 i =>
    match aea a r1 i with
    | some w =>
      match aloadRaw c a w with
      | some v => awrRaw a r v
      | none => none
    | none => none
  | .MOVI r i => if fitsI64 i then awr a r (BitVec.ofInt 64 i) else none
  | .MOVIM r i1 i2 =>
    match aimm32 i2 with
    | some v => awriteLoc c a (.m r i1) v
    | none => none
  | .CMP r r1 => acmp c a (.r r) (.loc (.r r1))
  | .CMPRM r r1 i => acmp c a (.r r) (.loc (.m r1 i))
  | .CMPMR r i r1 => acmp c a (.m r i) (.loc (.r r1))
  | .CMPI r i => acmp c a (.r r) (.imm i)
  | .CMPIM r i1 i2 => acmp c a (.m r i1) (.imm i2)
  | .PUSH r =>
    match ardRaw a r, ard a 0 with
    | some v, some sp =>
      match astoreRaw c a (sp - 8) v with
      | some a1 => awr a1 0 (sp - 8)
      | none => none
    | _, _ => none
  | .POP r =>
    match ard a 0 with
    | some sp =>
      match aloadRaw c a sp with
      | some v =>
        match awr a 0 (sp + 8) with
        | some a1 => awrRaw a1 r v
        | none => none
      | none => none
    | none => none
  | .LAB _ | .NOEXECSTACK | .TEXT | .GLOBAL _ | .EXTERN _ | .COMMENT _ => some a
  | _ => none

def aexecList (c : MachCfg) (la : String → Option Nat) : List Code → AState → Option AState
  | [], a => some a
  | code :: rest, a =>
    match aexec c la code a with
    | some a1 => aexecList c la rest a1
    | none => none

theorem aexecList_append (c : MachCfg) (la : String → Option Nat) (l1 l2 : List Code) (a : AState) :
    aexecList c la (l1 ++ l2) a =
      match aexecList c la l1 a with
      | some a1 => aexecList c la l2 a1
      | none => none := by
  induction l1 generalizing a with
  | nil => simp [aexecList]
  | cons code rest ih =>
    simp only [List.cons_append, aexecList]
    cases aexec c la code a <;> simp [ih]

/-! ## the simulation -/

/-- The machine state `st` is viewed as `a`. -/
structure Rel (st : State) (a : AState) : Prop where
  size : st.regs.size = 16
  regs : ∀ r, r < 16 → st.regs[r]? = some (a.reg r)
  mem : ∀ n, st.stackMem[n]? = a.mem n
  flags : st.flags = a.flags

/-- Everything outside the view is unchanged. -/
structure Same (st st' : State) : Prop where
  heapMem : st'.heapMem = st.heapMem
  out : st'.out = st.out
  pc : st'.pc = st.pc
  maxHeapWritten : st'.maxHeapWritten = st.maxHeapWritten
  steps : st'.steps = st.steps

theorem Same.refl (st : State) : Same st st := ⟨rfl, rfl, rfl, rfl, rfl⟩

theorem Same.trans {s1 s2 s3 : State} (h1 : Same s1 s2) (h2 : Same s2 s3) : Same s1 s3 :=
  ⟨h2.heapMem.trans h1.heapMem, h2.out.trans h1.out, h2.pc.trans h1.pc,
   h2.maxHeapWritten.trans h1.maxHeapWritten, h2.steps.trans h1.steps⟩

section Sim
variable {c : MachCfg} {st : State} {a : AState}

theorem sim_rdRaw (h : Rel st a) {r : Reg} {v : Option Word} (hr : ardRaw a r = some v) :
    rdRaw st r = .ok v := by
  unfold ardRaw at hr
  split at hr
  · rename_i hlt
    cases hr
    simp [rdRaw, h.regs r hlt]
  · cases hr

theorem sim_rd (h : Rel st a) {r : Reg} {v : Word} (hr : ard a r = some v) : rd st r = .ok v := by
  unfold ard at hr
  split at hr
  · rename_i hlt
    simp [rd, h.regs r hlt, hr]
  · cases hr

theorem sim_wrRaw (h : Rel st a) {r : Reg} {v : Option Word} {a' : AState}
    (hw : awrRaw a r v = some a') :
    ∃ st', wrRaw st r v = .ok st' ∧ Rel st' a' ∧ Same st st' := by
  unfold awrRaw at hw
  split at hw
  · rename_i hlt
    cases hw
    refine ⟨{ st with regs := st.regs.set! r v }, ?_, ?_, ?_⟩
    · simp [wrRaw, h.size, hlt]
    · refine ⟨by simp [h.size], ?_, h.mem, h.flags⟩
      intro x hx
      simp only [AState.setReg_reg, Array.set!_eq_setIfInBounds, Array.getElem?_setIfInBounds]
      by_cases hxr : r = x
      · subst hxr; simp [h.size, hlt]
      · have : ¬ x = r := fun e => hxr e.symm
        simp [hxr, this, h.regs x hx]
    · exact ⟨rfl, rfl, rfl, rfl, rfl⟩
  · cases hw

theorem sim_wr (h : Rel st a) {r : Reg} {v : Word} {a' : AState} (hw : awr a r v = some a') :
    ∃ st', wr st r v = .ok st' ∧ Rel st' a' ∧ Same st st' := sim_wrRaw h hw

theorem aaddr_spec {w : Word} {n : Nat} (hn : aaddr c w = some n) :
    n = w.toNat ∧ w.toNat % 8 = 0 ∧ inHeap c w.toNat = false ∧ inStack c w.toNat = true := by
  unfold aaddr at hn
  simp only at hn
  split at hn
  · rename_i hc
    cases hn
    exact ⟨rfl, hc.1, hc.2.1, hc.2.2⟩
  · cases hn

theorem sim_loadRaw (h : Rel st a) {w : Word} {v : Option Word} (hl : aloadRaw c a w = some v) :
    loadWordRaw c st w = .ok v := by
  unfold aloadRaw at hl
  split at hl
  · rename_i n hn
    obtain ⟨rfl, h8, hh, hs⟩ := aaddr_spec hn
    cases hl
    simp [loadWordRaw, h8, hh, hs, h.mem]
  · cases hl

theorem sim_load (h : Rel st a) {w : Word} {v : Word} (hl : aload c a w = some v) :
    loadWord c st w = .ok v := by
  unfold aload at hl
  split at hl
  · rename_i v' hv
    cases hl
    simp [loadWord, sim_loadRaw h hv]
  · cases hl

theorem sim_storeRaw (h : Rel st a) {w : Word} {v : Option Word} {a' : AState}
    (hs : astoreRaw c a w v = some a') :
    ∃ st', storeWordRaw c st w v = .ok st' ∧ Rel st' a' ∧ Same st st' := by
  unfold astoreRaw at hs
  split at hs
  · rename_i n hn
    obtain ⟨rfl, h8, hh, hst⟩ := aaddr_spec hn
    cases hs
    refine ⟨{ st with stackMem := match v with
                | some x => st.stackMem.insert w.toNat x
                | none => st.stackMem.erase w.toNat }, ?_, ?_, ?_⟩
    · cases v <;> simp [storeWordRaw, h8, hh, hst]
    · refine ⟨h.size, h.regs, ?_, h.flags⟩
      intro x
      simp only [AState.setMem_mem]
      cases v with
      | none =>
        simp only [Std.HashMap.getElem?_erase]
        by_cases hx : w.toNat = x
        · subst hx; simp
        · have : ¬ x = w.toNat := fun e => hx e.symm
          simp [hx, this, h.mem]
      | some y =>
        simp only [Std.HashMap.getElem?_insert]
        by_cases hx : w.toNat = x
        · subst hx; simp
        · have : ¬ x = w.toNat := fun e => hx e.symm
          simp [hx, this, h.mem]
    · exact ⟨rfl, rfl, rfl, rfl, rfl⟩
  · cases hs

theorem sim_imm32 {i : Int} {v : Word} (hi : aimm32 i = some v) : imm32 i = .ok v := by
  unfold aimm32 at hi
  split at hi
  · rename_i hf; cases hi; simp [imm32, hf]
  · cases hi

theorem sim_ea (h : Rel st a) {r : Reg} {i : Int} {w : Word} (he : aea a r i = some w) :
    ea st r i = .ok w := by
  unfold aea at he
  split at he
  · rename_i b d hb hd
    cases he
    simp [ea, sim_rd h hb, sim_imm32 hd]
  · cases he

theorem sim_readLoc (h : Rel st a) {l : Loc} {v : Word} (hl : areadLoc c a l = some v) :
    readLoc c st l = .ok v := by
  cases l with
  | r r => exact sim_rd h hl
  | m b d =>
    simp only [areadLoc] at hl
    split at hl
    · rename_i w hw
      simp [readLoc, sim_ea h hw, sim_load h hl]
    · cases hl

theorem sim_writeLoc (h : Rel st a) {l : Loc} {v : Word} {a' : AState}
    (hw : awriteLoc c a l v = some a') :
    ∃ st', writeLoc c st l v = .ok st' ∧ Rel st' a' ∧ Same st st' := by
  cases l with
  | r r => exact sim_wr h hw
  | m b d =>
    simp only [awriteLoc] at hw
    split at hw
    · rename_i w hea
      obtain ⟨st', h1, h2, h3⟩ := sim_storeRaw h hw
      exact ⟨st', by simp [writeLoc, sim_ea h hea, storeWord, h1], h2, h3⟩
    · cases hw

theorem sim_readSrc (h : Rel st a) {s : Src} {v : Word} (hs : areadSrc c a s = some v) :
    readSrc c st s = .ok v := by
  cases s with
  | loc l => exact sim_readLoc h hs
  | imm i => exact sim_imm32 hs

theorem Rel.setFlags {st : State} {a : AState} (h : Rel st a) (f : Option (Word × Word)) :
    Rel { st with flags := f } { a with flags := f } :=
  ⟨h.size, h.regs, h.mem, rfl⟩

theorem sim_alu (h : Rel st a) {op : Word → Word → Word} {dst : Loc} {src : Src} {a' : AState}
    (hx : aalu c op a dst src = some a') :
    ∃ st', alu c op st dst src = .ok st' ∧ Rel st' a' ∧ Same st st' := by
  unfold aalu at hx
  split at hx
  · cases hx
  · rename_i x hrd
    split at hx
    · cases hx
    · rename_i y hrs
      split at hx
      · cases hx
      · rename_i a1 hw
        cases hx
        obtain ⟨st1, h1, h2, h3⟩ := sim_writeLoc h hw
        refine ⟨{ st1 with flags := none }, ?_, h2.setFlags none, ⟨h3.heapMem, h3.out, h3.pc, h3.maxHeapWritten, h3.steps⟩⟩
        simp [alu, sim_readLoc h hrd, sim_readSrc h hrs, h1]

theorem sim_cmp (h : Rel st a) {l : Loc} {s : Src} {a' : AState}
    (hx : acmp c a l s = some a') :
    ∃ st', cmpOp c st l s = .ok st' ∧ Rel st' a' ∧ Same st st' := by
  unfold acmp at hx
  split at hx
  · cases hx
  · rename_i x hrd
    split at hx
    · cases hx
    · rename_i y hrs
      cases hx
      exact ⟨{ st with flags := some (x, y) }, by simp [cmpOp, sim_readLoc h hrd, sim_readSrc h hrs],
        h.setFlags _, ⟨rfl, rfl, rfl, rfl, rfl⟩⟩

theorem sim_idiv (h : Rel st a) {src : Loc} {a' : AState} (hx : aidiv c a src = some a') :
    ∃ st', idivOp c st src = .ok st' ∧ Rel st' a' ∧ Same st st' := by
  unfold aidiv at hx
  split at hx
  · rename_i x d y hx4 hx5 hsrc
    split at hx
    · cases hx
    · rename_i hd
      split at hx
      · cases hx
      · rename_i hy0
        split at hx
        · cases hx
        · rename_i hov
          split at hx
          · cases hx
          · rename_i a1 hw1
            split at hx
            · cases hx
            · rename_i a2 hw2
              cases hx
              obtain ⟨st1, e1, r1, s1⟩ := sim_wr h hw1
              obtain ⟨st2, e2, r2, s2⟩ := sim_wr r1 hw2
              refine ⟨{ st2 with flags := none }, ?_, r2.setFlags none, ?_⟩
              · simp only [signExt] at hd
                simp only [idivOp, sim_rd h hx4, sim_rd h hx5, sim_readLoc h hsrc]
                rw [if_neg hd, if_neg hy0, if_neg hov]
                simp only [e1, e2]
              · have := s1.trans s2
                exact ⟨this.heapMem, this.out, this.pc, this.maxHeapWritten, this.steps⟩
  · cases hx

/-- Lift a state-producing simulation to `execCode`'s `seqNext`. -/
theorem seqNext_ok {r : M State} {st' : State} (h : r = .ok st') : seqNext r = .ok (st', .next) := by
  simp [seqNext, h]

/-- SIMULATION: if the view executes `code`, so does the machine, falling through, with the same
    effect on the view and no effect on anything else. -/
theorem sim_exec (la : String → Option Nat) (h : Rel st a) {code : Code} {a' : AState}
    (hx : aexec c la code a = some a') :
    ∃ st', execCode c la code st = .ok (st', .next) ∧ Rel st' a' ∧ Same st st' := by
  cases code <;> simp only [aexec] at hx
  case ADD r r1 => obtain ⟨s, e, r, m⟩ := sim_alu h hx; exact ⟨s, by simp [execCode, seqNext, e], r, m⟩
  case ADDRM r r1 i => obtain ⟨s, e, r, m⟩ := sim_alu h hx; exact ⟨s, by simp [execCode, seqNext, e], r, m⟩
  case ADDMR r1 i r => obtain ⟨s, e, r, m⟩ := sim_alu h hx; exact ⟨s, by simp [execCode, seqNext, e], r, m⟩
  case ADDI r i => obtain ⟨s, e, r, m⟩ := sim_alu h hx; exact ⟨s, by simp [execCode, seqNext, e], r, m⟩
  case ADDIM r i1 i2 => obtain ⟨s, e, r, m⟩ := sim_alu h hx; exact ⟨s, by simp [execCode, seqNext, e], r, m⟩
  case SUB r r1 => obtain ⟨s, e, r, m⟩ := sim_alu h hx; exact ⟨s, by simp [execCode, seqNext, e], r, m⟩
  case SUBRM r r1 i => obtain ⟨s, e, r, m⟩ := sim_alu h hx; exact ⟨s, by simp [execCode, seqNext, e], r, m⟩
  case SUBMR r1 i r => obtain ⟨s, e, r, m⟩ := sim_alu h hx; exact ⟨s, by simp [execCode, seqNext, e], r, m⟩
  case SUBI r i => obtain ⟨s, e, r, m⟩ := sim_alu h hx; exact ⟨s, by simp [execCode, seqNext, e], r, m⟩
  case IMUL r r1 => obtain ⟨s, e, r, m⟩ := sim_alu h hx; exact ⟨s, by simp [execCode, seqNext, e], r, m⟩
  case IMULRM r r1 i => obtain ⟨s, e, r, m⟩ := sim_alu h hx; exact ⟨s, by simp [execCode, seqNext, e], r, m⟩
  case IDIV r => obtain ⟨s, e, r, m⟩ := sim_idiv h hx; exact ⟨s, by simp [execCode, seqNext, e], r, m⟩
  case IDIVM r i => obtain ⟨s, e, r, m⟩ := sim_idiv h hx; exact ⟨s, by simp [execCode, seqNext, e], r, m⟩
  case CQO =>
    split at hx
    · rename_i x h4
      obtain ⟨s, e, r, m⟩ := sim_wr h hx
      refine ⟨s, ?_, r, m⟩
      simp only [signExt] at e
      simp only [execCode, sim_rd h h4, seqNext, e]
    · cases hx
  case LEAL r l =>
    split at hx
    · rename_i n hl
      obtain ⟨s, e, r, m⟩ := sim_wr h hx
      exact ⟨s, by simp [execCode, hl, seqNext, e], r, m⟩
    · cases hx
  case MOV r r1 =>
    split at hx
    · rename_i v hv
      obtain ⟨s, e, r, m⟩ := sim_wrRaw h hx
      exact ⟨s, by simp [execCode, sim_rdRaw h hv, seqNext, e], r, m⟩
    · cases hx
  case MOVS r r1 i =>
    split at hx
    · rename_i v w hv hw
      obtain ⟨s, e, r, m⟩ := sim_storeRaw h hx
      exact ⟨s, by simp [execCode, sim_rdRaw h hv, sim_ea h hw, seqNext, e], r, m⟩
    · cases hx
  case MOVL r r1 i =>
    split at hx
    · rename_i w hw
      split at hx
      · rename_i v hv
        obtain ⟨s, e, r, m⟩ := sim_wrRaw h hx
        exact ⟨s, by simp [execCode, sim_ea h hw, sim_loadRaw h hv, seqNext, e], r, m⟩
      · cases hx
    · cases hx
  case MOVI r i =>
    split at hx
    · rename_i hf
      obtain ⟨s, e, r, m⟩ := sim_wr h hx
      exact ⟨s, by simp [execCode, hf, seqNext, e], r, m⟩
    · cases hx
  case MOVIM r i1 i2 =>
    split at hx
    · rename_i v hv
      obtain ⟨s, e, r, m⟩ := sim_writeLoc h hx
      exact ⟨s, by simp [execCode, sim_imm32 hv, seqNext, e], r, m⟩
    · cases hx
  case CMP r r1 => obtain ⟨s, e, r, m⟩ := sim_cmp h hx; exact ⟨s, by simp [execCode, seqNext, e], r, m⟩
  case CMPRM r r1 i => obtain ⟨s, e, r, m⟩ := sim_cmp h hx; exact ⟨s, by simp [execCode, seqNext, e], r, m⟩
  case CMPMR r i r1 => obtain ⟨s, e, r, m⟩ := sim_cmp h hx; exact ⟨s, by simp [execCode, seqNext, e], r, m⟩
  case CMPI r i => obtain ⟨s, e, r, m⟩ := sim_cmp h hx; exact ⟨s, by simp [execCode, seqNext, e], r, m⟩
  case CMPIM r i1 i2 => obtain ⟨s, e, r, m⟩ := sim_cmp h hx; exact ⟨s, by simp [execCode, seqNext, e], r, m⟩
  case PUSH r =>
    split at hx
    · rename_i v sp hv hsp
      split at hx
      · rename_i a1 hst
        obtain ⟨s1, e1, r1, m1⟩ := sim_storeRaw h hst
        obtain ⟨s2, e2, r2, m2⟩ := sim_wr r1 hx
        exact ⟨s2, by simp only [execCode, sim_rdRaw h hv, sim_rd h hsp, e1, seqNext, e2], r2, m1.trans m2⟩
      · cases hx
    · cases hx
  case POP r =>
    split at hx
    · rename_i sp hsp
      split at hx
      · rename_i v hv
        split at hx
        · rename_i a1 hw
          obtain ⟨s1, e1, r1, m1⟩ := sim_wr h hw
          obtain ⟨s2, e2, r2, m2⟩ := sim_wrRaw r1 hx
          exact ⟨s2, by simp only [execCode, sim_rd h hsp, sim_loadRaw h hv, e1, seqNext, e2], r2, m1.trans m2⟩
        · cases hx
      · cases hx
    · cases hx
  case LAB l => cases hx; exact ⟨st, by simp [execCode], h, Same.refl st⟩
  case NOEXECSTACK => cases hx; exact ⟨st, by simp [execCode], h, Same.refl st⟩
  case TEXT => cases hx; exact ⟨st, by simp [execCode], h, Same.refl st⟩
  case GLOBAL l => cases hx; exact ⟨st, by simp [execCode], h, Same.refl st⟩
  case EXTERN l => cases hx; exact ⟨st, by simp [execCode], h, Same.refl st⟩
  case COMMENT l => cases hx; exact ⟨st, by simp [execCode], h, Same.refl st⟩
  all_goals cases hx

/-- Simulation for instruction lists. -/
theorem sim_execList (la : String → Option Nat) {codes : List Code} (h : Rel st a) {a' : AState}
    (hx : aexecList c la codes a = some a') :
    ∃ st', execStraight c la codes st = .ok st' ∧ Rel st' a' ∧ Same st st' := by
  induction codes generalizing st a with
  | nil => cases hx; exact ⟨st, rfl, h, Same.refl st⟩
  | cons code rest ih =>
    simp only [aexecList] at hx
    split at hx
    · rename_i a1 h1
      obtain ⟨st1, e1, r1, m1⟩ := sim_exec la h h1
      obtain ⟨st2, e2, r2, m2⟩ := ih r1 hx
      exact ⟨st2, by simp [execStraight, e1, e2], r2, m1.trans m2⟩
    · cases hx

end Sim

/-- The view of a machine state. -/
def State.view (st : State) : AState :=
  { reg := fun r => (st.regs[r]?).join, mem := fun n => st.stackMem[n]?, flags := st.flags }

theorem State.rel_view (st : State) (h : st.regs.size = 16) : Rel st st.view := by
  refine ⟨h, ?_, fun _ => rfl, rfl⟩
  intro r hr
  have : r < st.regs.size := by omega
  simp [State.view, Array.getElem?_eq_getElem this]

end Scc.X86
