/-
  Scc.X86.ConcCheck — the EXECUTABLE heap check of the x86-64 SPEC machine (`heapCheck`, Scc/X86/Machine.lean)
  succeeds wherever its predicate holds: `HeapInvAt` (ConcInv.lean) for the full heap region, plus the
  monitor's window (`frontier + 64 ≤ heapBase + maxHeapWritten + 512`: the monitor checks the invariant for the
  region up to 512 bytes above the highest word ever stored).  From the COMPLETENESS of `invCheckFn`
  (Scc/Heap/ProofsCheckComplete.lean).
-/
import Scc.X86.ConcInv
import Scc.Heap.ProofsCheckComplete

set_option linter.unusedVariables false
set_option linter.unusedSimpArgs false

namespace Scc.X86.Conc

open Scc Scc.X86
open Scc.Heap (InvW invCheckFn_complete)

/-- the invariant for a smaller region: only the room for the frontier block depends on the limit -/
theorem invW_window {m : Nat → Nat} {base limit limit' heap free : Nat} {roots pend lin lazy live : List Nat}
    {F : Nat} (I : InvW m base limit heap free roots pend lin lazy live F) (h1 : limit' ≤ limit)
    (h2 : F + 64 ≤ limit') : InvW m base limit' heap free roots pend lin lazy live F :=
  { I with frontier_room := h2, zero_above := fun a ha hl hm => I.zero_above a ha (by omega) hm }

/-- THE MONITOR'S CHECK SUCCEEDS where the invariant holds and the frontier lies inside the monitor's window;
it reports the number of blocks below the frontier -/
theorem heapCheck_ok {m : MonCfg} {X : State} {kinds : List Bool} {roots : List Word} {h f : Word}
    {lin lazy live : List Nat} {F : Nat}
    (hr : (rootLocs m.consts kinds).mapM (fun l => readLoc m.mach X l) = .ok roots)
    (hh : rd X m.consts.heap = .ok h) (hf : rd X m.consts.free = .ok f)
    (I : InvW (memFn X) m.mach.heapBase (m.mach.heapBase + m.mach.heapBytes) h.toNat f.toNat
      (roots.map (·.toNat)) [] lin lazy live F)
    (hw : F + 64 ≤ m.mach.heapBase + X.maxHeapWritten + 512) :
    heapCheck m X kinds = .ok ((F - m.mach.heapBase) / 64) := by
  have hFr := I.frontier_room
  have I' := invW_window (limit' := min (m.mach.heapBase + m.mach.heapBytes) (m.mach.heapBase + X.maxHeapWritten + 512))
    I (Nat.min_le_left _ _) (by rw [Nat.le_min]; exact ⟨hFr, hw⟩)
  obtain ⟨live', hc, _⟩ := invCheckFn_complete I'
  unfold heapCheck
  have hr' : List.mapM (fun l => readLoc m.mach X l)
      (List.map (fun (ki : Bool × Nat) => tempLoc m.consts (2 * ki.2)) (List.filter (fun x => x.1) kinds.zipIdx)) =
      .ok roots := hr
  simp only [hr', hh, hf]
  have hc' : Scc.Heap.invCheckFn (fun a => (X.heapMem.getD a 0).toNat) m.mach.heapBase
      (min (m.mach.heapBase + m.mach.heapBytes) (m.mach.heapBase + X.maxHeapWritten + 512)) h.toNat f.toNat
      (roots.map (·.toNat)) [] = .ok (lin, lazy, live', F) := hc
  rw [hc']
  rfl

end Scc.X86.Conc
