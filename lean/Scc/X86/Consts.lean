/-
  Scc.X86.Consts — the numeric constants of the x86-64 backend, /repo/lang/axcut2x86_64/src/config.rs
  (RESERVED, REGISTER_NUM, SPILL_NUM, RESERVED_SPILLS, STACK/TEMP/HEAP/FREE/RETURN1/RETURN2,
  SPILL_TEMP, TEMPORARY_TEMP, FIELD_SLOT_SIZE, FIELDS_PER_BLOCK, CALLER_SAVE_FIRST/LAST, arg(n),
  jump_length factor) as ONE record `X86Consts` with its current value `consts`.
  THIS FILE IS MEANT TO BE REGENERATED from config.rs by the translator (tie 1 of DESIGN.md): keep it
  free of anything but the record and its value.  Core imports only.
-/
namespace Scc.X86

/-- config.rs: every numeric constant of the crate. Registers are the backend's `Register(n)` numbers. -/
structure X86Consts where
  /-- REGISTER_NUM -/
  registerNum : Nat
  /-- RESERVED -/
  reserved : Nat
  /-- STACK = Register(_) -/
  stack : Nat
  /-- TEMP -/
  temp : Nat
  /-- HEAP -/
  heap : Nat
  /-- FREE -/
  free : Nat
  /-- RETURN1 -/
  return1 : Nat
  /-- RETURN2 -/
  return2 : Nat
  /-- SPILL_NUM -/
  spillNum : Nat
  /-- RESERVED_SPILLS -/
  reservedSpills : Nat
  /-- SPILL_TEMP = Spill(_) -/
  spillTemp : Nat
  /-- TEMPORARY_TEMP = Register(_) -/
  temporaryTemp : Nat
  /-- FIELD_SLOT_SIZE -/
  fieldSlotSize : Nat
  /-- FIELDS_PER_BLOCK -/
  fieldsPerBlock : Nat
  /-- CALLER_SAVE_FIRST -/
  callerSaveFirst : Nat
  /-- CALLER_SAVE_LAST -/
  callerSaveLast : Nat
  /-- arg(0), arg(1), …, arg(5) -/
  argRegs : List Nat
  /-- jump_length(n) = jumpLengthFactor * n -/
  jumpLengthFactor : Nat
  /-- into_routine.rs: registers pushed by `setup` in order (popped by `cleanup` in reverse) -/
  calleeSavePushed : List Nat
  /-- into_routine.rs move_arguments: target register of main's parameter i (1-based i = index+1) -/
  mainParamRegs : List Nat
  deriving Repr, DecidableEq

/-- Current values (config.rs / into_routine.rs as of the verified revision). -/
def consts : X86Consts where
  registerNum := 16
  reserved := 4
  stack := 0
  temp := 1
  heap := 2
  free := 3
  return1 := 4
  return2 := 5
  spillNum := 256
  reservedSpills := 1
  spillTemp := 0
  temporaryTemp := 4
  fieldSlotSize := 8
  fieldsPerBlock := 3
  callerSaveFirst := 4
  callerSaveLast := 11
  argRegs := [7, 6, 5, 1, 8, 9]
  jumpLengthFactor := 5
  calleeSavePushed := [2, 3, 12, 13, 14, 15]
  mainParamRegs := [5, 7, 9, 11, 13]

end Scc.X86
