/-
  Scc.X86.ProofsTransfer — the Theorem-B lemmas of ProofsArith.lean stated on the SPEC machine
  (`execStraight` = iterated `Scc.X86.execCode`), obtained through the two simulations
  temporary level → functional view → machine.

  Vocabulary:  `tempVal sp st t` = contents of temporary `t` in machine state `st` whose `rsp` is `sp`
  (a register, or the spill slot `[rsp + stack_offset p]`);  `Boundary c st sp` = `st` is a state at a
  statement boundary (16 registers, `rsp = sp` defined, the spill area inside the stack region);
  `Preserved sp st st' t` = nothing but temporary `t`, the scratch register TEMP (rcx) and the flags
  differs between `st` and `st'` (registers incl. rsp/HEAP/FREE, every stack word, heap, trace).
-/
import Scc.X86.ProofsArith
import Scc.AxCut.SemPos

namespace Scc.X86

/-- Contents of a temporary (`none` = undefined). -/
def tempVal (sp : Word) (st : State) : Temporary → Option Word
  | .reg r => (st.regs[r]?).join
  | .spill p => st.stackMem[slotAddr sp p]?

def tview (sp : Word) (st : State) : TState := { val := tempVal sp st, flags := st.flags }

/-- A machine state at a statement boundary. -/
structure Boundary (c : MachCfg) (st : State) (sp : Word) : Prop where
  size : st.regs.size = 16
  rsp : st.regs[0]? = some (some sp)
  sp : SpOK c sp

/-- Only temporary `t` (if any), TEMP and the flags may differ. -/
structure Preserved (sp : Word) (st st' : State) (t : Option Temporary) : Prop where
  same : Same st st'
  regs : ∀ r : Nat, r < 16 → r ≠ TEMP → some (Temporary.reg r) ≠ t → st'.regs[r]? = st.regs[r]?
  mem : ∀ n, (∀ p, t = some (.spill p) → n ≠ slotAddr sp p) → st'.stackMem[n]? = st.stackMem[n]?

theorem view_reg (st : State) (hsize : st.regs.size = 16) {r : Nat} (hr : r < 16) :
    st.regs[r]? = some (st.view.reg r) := (st.rel_view hsize).regs r hr

theorem trel_tview {c : MachCfg} {st : State} {sp : Word} (B : Boundary c st sp) :
    TRel sp st.view (tview sp st) := by
  refine ⟨?_, fun r _ _ => rfl, fun p _ => rfl, rfl⟩
  have := view_reg st B.size (by decide : 0 < 16)
  rw [B.rsp] at this
  injection this with h
  exact h.symm

/-- The machine really reads what `tempVal` says. -/
theorem tempVal_readLoc {c : MachCfg} {st : State} {sp : Word} (B : Boundary c st sp) {t : Temporary}
    (ht : OpndOK t) {v : Word} (hv : tempVal sp st t = some v) : readLoc c st (opLoc t) = .ok v := by
  apply sim_readLoc (st.rel_view B.size)
  rw [t_readLoc B.sp (trel_tview B) ht]
  exact hv

/-- TRANSFER: a temporary-level execution from the view of `st` is an execution of the machine. -/
theorem transfer {c : MachCfg} {st : State} {sp : Word} (B : Boundary c st sp) (la : String → Option Nat)
    {codes : List Code} {τ' : TState} (hx : texecList la codes (tview sp st) = some τ')
    {t : Option Temporary}
    (hothers : ∀ u, some u ≠ t → u ≠ .reg TEMP → τ'.val u = tempVal sp st u) :
    ∃ st', execStraight c la codes st = .ok st' ∧ Boundary c st' sp ∧
      (∀ u, OpndOK u → tempVal sp st' u = τ'.val u) ∧ st'.flags = τ'.flags ∧ Preserved sp st st' t := by
  obtain ⟨a', ea, ra, oa⟩ := tsim_execList B.sp la (trel_tview B) hx
  obtain ⟨st', es, rs, ss⟩ := sim_execList la (st.rel_view B.size) ea
  have hreg : ∀ r, r < 16 → st'.regs[r]? = some (a'.reg r) := rs.regs
  refine ⟨st', es, ⟨rs.size, ?_, B.sp⟩, ?_, ?_, ⟨ss, ?_, ?_⟩⟩
  · rw [hreg 0 (by decide), ra.rsp]
  · intro u hu
    cases u with
    | reg r => simp [tempVal, hreg r hu.2, ra.regs r hu.1 hu.2]
    | spill p => simp only [tempVal]; rw [rs.mem, ra.slots p hu]
  · rw [rs.flags, ra.flags]
  · intro r hr hrT hrt
    by_cases h0 : r = 0
    · subst h0
      rw [hreg 0 hr, ra.rsp, B.rsp]
    · have h1 : 1 ≤ r := by omega
      rw [hreg r hr, ra.regs r h1 hr, hothers (.reg r) hrt (fun e => hrT (by injection e)),
        view_reg st B.size hr]
      rfl
  · intro n hn
    by_cases hs : ∃ p, p < 256 ∧ n = slotAddr sp p
    · obtain ⟨p, hp, rfl⟩ := hs
      have hne : some (Temporary.spill p) ≠ t := fun e => hn p e.symm rfl
      rw [rs.mem, ra.slots p hp, hothers (.spill p) hne (by simp)]
      rfl
    · have : ∀ p, p < 256 → n ≠ slotAddr sp p := fun p hp e => hs ⟨p, hp, e⟩
      rw [rs.mem, oa n this]
      rfl

/-- transfer for sequences that update one temporary -/
theorem transfer_upd {c : MachCfg} {st : State} {sp : Word} (B : Boundary c st sp) (la : String → Option Nat)
    {codes : List Code} {t : Temporary} (ht : OpndOK t) {v : Option Word}
    (h : ∃ τ', texecList la codes (tview sp st) = some τ' ∧ TUpd (tview sp st) τ' t v) :
    ∃ st', execStraight c la codes st = .ok st' ∧ Boundary c st' sp ∧ tempVal sp st' t = v ∧
      Preserved sp st st' (some t) := by
  obtain ⟨τ', hx, hu⟩ := h
  obtain ⟨st', e, b, hv, _, hp⟩ := transfer B la hx (t := some t)
    (fun u hne hT => hu.others u (fun e => hne (by rw [e])) hT)
  exact ⟨st', e, b, by rw [hv t ht, hu.val], hp⟩

section Main
variable {c : MachCfg} {la : String → Option Nat} {st : State} {sp : Word}

/-- B-add on the machine -/
theorem add_correct (B : Boundary c st sp) {t s1 s2 : Temporary} (ht : TempOK t) (h1 : TempOK s1)
    (h2 : TempOK s2) {x y : Word} (hx : tempVal sp st s1 = some x) (hy : tempVal sp st s2 = some y) :
    ∃ st', execStraight c la (add t s1 s2) st = .ok st' ∧ Boundary c st' sp ∧
      tempVal sp st' t = some (x + y) ∧ Preserved sp st st' (some t) :=
  transfer_upd B la ht.opnd (t_add (τ := tview sp st) ht h1 h2 hx hy)

/-- B-sub on the machine -/
theorem sub_correct (B : Boundary c st sp) {t s1 s2 : Temporary} (ht : TempOK t) (h1 : TempOK s1)
    (h2 : TempOK s2) {x y : Word} (hx : tempVal sp st s1 = some x) (hy : tempVal sp st s2 = some y) :
    ∃ st', execStraight c la (sub t s1 s2) st = .ok st' ∧ Boundary c st' sp ∧
      tempVal sp st' t = some (x - y) ∧ Preserved sp st st' (some t) :=
  transfer_upd B la ht.opnd (t_sub (τ := tview sp st) ht h1 h2 hx hy)

/-- B-mul on the machine (a spilled target must not alias a source: see `mul_alias_illegal`) -/
theorem mul_correct (B : Boundary c st sp) {t s1 s2 : Temporary} (ht : TempOK t) (h1 : TempOK s1)
    (h2 : TempOK s2) (hal : ∀ p, t = .spill p → t ≠ s1 ∧ t ≠ s2)
    {x y : Word} (hx : tempVal sp st s1 = some x) (hy : tempVal sp st s2 = some y) :
    ∃ st', execStraight c la (mul t s1 s2) st = .ok st' ∧ Boundary c st' sp ∧
      tempVal sp st' t = some (x * y) ∧ Preserved sp st st' (some t) :=
  transfer_upd B la ht.opnd (t_mul (τ := tview sp st) ht h1 h2 hal hx hy)

/-- B-div on the machine: truncated signed quotient; rax, rdx and everything else restored -/
theorem div_correct (B : Boundary c st sp) {t s1 s2 : Temporary} (P : DivPlacement t s1 s2)
    {x y : Word} (hx : tempVal sp st s1 = some x) (hy : tempVal sp st s2 = some y) (hd : DivOK x y) :
    ∃ st', execStraight c la (div t s1 s2) st = .ok st' ∧ Boundary c st' sp ∧
      tempVal sp st' t = some (x.sdiv y) ∧ Preserved sp st st' (some t) :=
  transfer_upd B la P.ht.opnd (t_div (τ := tview sp st) P hx hy hd)

/-- B-rem on the machine: remainder with the sign of the dividend -/
theorem rem_correct (B : Boundary c st sp) {t s1 s2 : Temporary} (P : DivPlacement t s1 s2)
    {x y : Word} (hx : tempVal sp st s1 = some x) (hy : tempVal sp st s2 = some y) (hd : DivOK x y) :
    ∃ st', execStraight c la (rem t s1 s2) st = .ok st' ∧ Boundary c st' sp ∧
      tempVal sp st' t = some (x.srem y) ∧ Preserved sp st st' (some t) :=
  transfer_upd B la P.ht.opnd (t_rem (τ := tview sp st) P hx hy hd)

/-- B-mov on the machine: the (possibly undefined) contents are copied -/
theorem mov_correct (B : Boundary c st sp) {t s : Temporary} (ht : TempOK t) (hs : TempOK s) :
    ∃ st', execStraight c la (mov t s) st = .ok st' ∧ Boundary c st' sp ∧
      tempVal sp st' t = tempVal sp st s ∧ Preserved sp st st' (some t) :=
  transfer_upd B la ht.opnd (t_mov (τ := tview sp st) ht.opnd hs.opnd hs.ne_temp)

/-- B-load_immediate on the machine: every `i64` literal, every placement (repaired code, D5 fixed) -/
theorem loadImmediate_correct (B : Boundary c st sp) {t : Temporary} (ht : TempOK t) {v : Int}
    (h64 : fitsI64 v = true) :
    ∃ st', execStraight c la (loadImmediate t v) st = .ok st' ∧ Boundary c st' sp ∧
      tempVal sp st' t = some (BitVec.ofInt 64 v) ∧ Preserved sp st st' (some t) :=
  transfer_upd B la ht.opnd (t_loadImmediate (τ := tview sp st) ht h64)

/-- B-load_label on the machine -/
theorem loadLabel_correct (B : Boundary c st sp) {t : Temporary} (ht : TempOK t) {name : String} {n : Nat}
    (hl : la name = some n) :
    ∃ st', execStraight c la (loadLabel t name) st = .ok st' ∧ Boundary c st' sp ∧
      tempVal sp st' t = some (BitVec.ofNat 64 n) ∧ Preserved sp st st' (some t) :=
  transfer_upd B la ht.opnd (t_loadLabel (τ := tview sp st) ht hl)

/-- B-compare on the machine: the flags hold the two operands -/
theorem compare_correct (B : Boundary c st sp) {fst snd : Temporary} (h1 : TempOK fst) (h2 : TempOK snd)
    {x y : Word} (hx : tempVal sp st fst = some x) (hy : tempVal sp st snd = some y) :
    ∃ st', execStraight c la (compare fst snd) st = .ok st' ∧ Boundary c st' sp ∧
      st'.flags = some (x, y) ∧ Preserved sp st st' none := by
  obtain ⟨τ', hx', hf, ho⟩ := t_compare (la := la) (τ := tview sp st) h1 h2 hx hy
  obtain ⟨st', e, b, _, hfl, hp⟩ := transfer B la hx' (t := none) (fun u _ hT => ho u hT)
  exact ⟨st', e, b, by rw [hfl, hf], hp⟩

/-- B-compare with zero on the machine -/
theorem compareImmediate_correct (B : Boundary c st sp) {t : Temporary} (h1 : TempOK t) {i : Int}
    (hi : fitsI32 i = true) {x : Word} (hx : tempVal sp st t = some x) :
    ∃ st', execStraight c la (compareImmediate t i) st = .ok st' ∧ Boundary c st' sp ∧
      st'.flags = some (x, BitVec.ofInt 64 i) ∧ Preserved sp st st' none := by
  have hx' := t_compareImmediate (la := la) (τ := tview sp st) h1 hi hx
  obtain ⟨st', e, b, _, hfl, hp⟩ := transfer B la hx' (t := none) (fun u _ _ => rfl)
  exact ⟨st', e, b, by rw [hfl], hp⟩

/-- B-op on the machine for all five operators at once, in the situation of the code generator
    (fresh target: `DivPlacement`), against the AxCut operator semantics `Pos.evalOp` (which is
    undefined exactly on the excluded operands: division by zero and MIN / -1). -/
theorem binop_correct (B : Boundary c st sp) (o : Scc.AxCut.BinOp) {t s1 s2 : Temporary}
    (P : DivPlacement t s1 s2) {x y r : Word} (hx : tempVal sp st s1 = some x)
    (hy : tempVal sp st s2 = some y) (hev : Scc.AxCut.Pos.evalOp o x y = .ok r) :
    ∃ st', execStraight c la (binop o t s1 s2) st = .ok st' ∧ Boundary c st' sp ∧
      tempVal sp st' t = some r ∧ Preserved sp st st' (some t) := by
  have hmin : Scc.AxCut.Pos.minInt = minInt64 := by decide
  have hm1 : (-1 : BitVec 64) = BitVec.ofInt 64 (-1) := by decide
  cases o with
  | sum =>
    simp only [Scc.AxCut.Pos.evalOp, Except.ok.injEq] at hev; subst hev
    exact add_correct B P.ht P.hs1 P.hs2 hx hy
  | sub =>
    simp only [Scc.AxCut.Pos.evalOp, Except.ok.injEq] at hev; subst hev
    exact sub_correct B P.ht P.hs1 P.hs2 hx hy
  | prod =>
    simp only [Scc.AxCut.Pos.evalOp, Except.ok.injEq] at hev; subst hev
    exact mul_correct B P.ht P.hs1 P.hs2 (fun _ _ => ⟨P.t_ne_s1, P.t_ne_s2⟩) hx hy
  | div =>
    simp only [Scc.AxCut.Pos.evalOp] at hev
    split at hev
    · cases hev
    · rename_i h0
      split at hev
      · cases hev
      · rename_i hov
        simp only [Except.ok.injEq] at hev; subst hev
        exact div_correct B P hx hy ⟨h0, by rw [← hmin, ← hm1]; exact hov⟩
  | rem =>
    simp only [Scc.AxCut.Pos.evalOp] at hev
    split at hev
    · cases hev
    · rename_i h0
      split at hev
      · cases hev
      · rename_i hov
        simp only [Except.ok.injEq] at hev; subst hev
        exact rem_correct B P hx hy ⟨h0, by rw [← hmin, ← hm1]; exact hov⟩

/-- B-add_and_jump on the machine (invoke): the final `jmp` goes to `x + imm` -/
theorem addAndJump_correct (B : Boundary c st sp) {t : Temporary} (ht : TempOK t) {imm : Int}
    (hi : fitsI32 imm = true) {x : Word} (hx : tempVal sp st t = some x) :
    addAndJump t imm = addAndJumpPre t imm ++ [.JMP (jumpReg t)] ∧
    ∃ st', execStraight c la (addAndJumpPre t imm) st = .ok st' ∧ Boundary c st' sp ∧
      Preserved sp st st' (some t) ∧
      execCode c la (.JMP (jumpReg t)) st' = .ok (st', .jumpAddr (x + BitVec.ofInt 64 imm).toNat) := by
  refine ⟨addAndJump_eq t imm, ?_⟩
  obtain ⟨τ', hx', hv, ho⟩ := t_addAndJumpPre (la := la) (τ := tview sp st) ht hi hx
  obtain ⟨st', e, b, hvals, _, hp⟩ := transfer B la hx' (t := some t)
    (fun u hne hT => ho u (fun e => hne (by rw [e])) hT)
  refine ⟨st', e, b, hp, ?_⟩
  have hjr : OpndOK (.reg (jumpReg t)) := by
    cases t with
    | reg r => exact ht.opnd
    | spill p => exact opndOK_temp
  have := hvals _ hjr
  rw [hv] at this
  have hrd : rd st' (jumpReg t) = .ok (x + BitVec.ofInt 64 imm) := by
    have h2 := view_reg st' b.size hjr.2
    simp only [tempVal] at this
    rw [h2] at this
    simp only [Option.join_some] at this
    simp [rd, h2, this]
  simp [execCode, hrd]

/-- switch on the machine: `load_label TEMP l; add TEMP TEMP tag; jump TEMP` jumps to
    (address of `l`) + tag, whether the tag is in a register or in a spill slot -/
theorem switchJump_correct (B : Boundary c st sp) {tag : Temporary} (ht : TempOK tag) {l : String} {n : Nat}
    (hl : la l = some n) {x : Word} (hx : tempVal sp st tag = some x) :
    jump (.reg TEMP) = [.JMP TEMP] ∧
    ∃ st', execStraight c la (loadLabel (.reg TEMP) l ++ binop .sum (.reg TEMP) (.reg TEMP) tag) st = .ok st' ∧
      Boundary c st' sp ∧ Preserved sp st st' none ∧
      execCode c la (.JMP TEMP) st' = .ok (st', .jumpAddr (BitVec.ofNat 64 n + x).toNat) := by
  refine ⟨rfl, ?_⟩
  obtain ⟨τ', hx', hv, ho⟩ := t_switchPre (la := la) (τ := tview sp st) ht hl hx
  obtain ⟨st', e, b, hvals, _, hp⟩ := transfer B la hx' (t := none) (fun u _ hT => ho u hT)
  refine ⟨st', e, b, hp, ?_⟩
  have := hvals _ opndOK_temp
  rw [hv] at this
  have hrd : rd st' TEMP = .ok (BitVec.ofNat 64 n + x) := by
    have h2 := view_reg st' b.size (by decide : TEMP < 16)
    simp only [tempVal] at this
    rw [h2] at this
    simp only [Option.join_some] at this
    simp [rd, h2, this]
  simp [execCode, hrd]

end Main

/-! ## conditional jumps -/

/-- AxCut's comparison `sort` on machine words (signed). -/
def ifSortHolds : Scc.AxCut.IfSort → Word → Word → Bool
  | .eq, a, b => a == b
  | .ne, a, b => a != b
  | .lt, a, b => a.slt b
  | .le, a, b => a.sle b
  | .gt, a, b => b.slt a
  | .ge, a, b => b.sle a

/-- Each conditional jump goes to its label exactly when the comparison recorded in the flags holds. -/
theorem condJump_correct (c : MachCfg) (la : String → Option Nat) (sort : Scc.AxCut.IfSort) (l : String)
    (st : State) {a b : Word} (hf : st.flags = some (a, b)) :
    execCode c la (condJump sort l) st =
      .ok (st, if ifSortHolds sort a b then .jumpLabel l else .next) := by
  cases sort <;> simp [condJump, execCode, jcc, hf, ifSortHolds] <;> (split <;> simp_all)

end Scc.X86
