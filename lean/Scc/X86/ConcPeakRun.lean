/-
  Scc.X86.ConcPeakRun — THE THREE-WAY RUN WITH THE FOOTPRINT BOUND OF C10 in place of the coarse room
  hypothesis of `run3_aux` (64·134 bytes per step of the run): if at no statement boundary of the run more
  than `Pk` blocks are in use (`PeakFrom`: blocks that are neither on the reusable nor on the deferred free
  list), then the allocation frontier never rises above `Pk + 1` blocks (`FrBound`, the lift of
  `C10_frontier_bound`: the frontier moves only when both free lists are exhausted, `FrPk`), so a heap of
  `64·(Pk + A + 2)` bytes is enough for a run of ANY length, `A` = the largest number of fields of a `let`
  of the program (`LetLe A`; `A + 1` blocks = the room the memory contract of `Memory::store` asks for).
-/
import Scc.X86.ConcPeak
import Scc.X86.ConcRun

set_option linter.unusedVariables false
set_option linter.unusedSimpArgs false

namespace Scc.X86.Conc

open Scc Scc.AxCut Scc.AxCut.Pos Scc.Backend Scc.Backend.Abs Scc.Backend.Sim Scc.Backend.Subst Scc.X86 Scc.X86.Ref
open Scc.Backend.Sim2 Scc.Backend.Keys
open Scc.Props.C14Generic (LabelSafe)
open Scc.Props.C06Generic (outAfter WithinCapacity Reachable EnoughHeap CodeFits statesOf stopsWithin)
open Scc.Heap (HState InvS InvW Exhausted)
open Scc.Heap.Refine (HRef FrLe Room FrPk)

/-- at most `B` blocks lie below the allocation frontier -/
def FrBound (hs : HState) (B : Nat) : Prop :=
  ∀ rs lin lazy live F, InvS hs rs [] lin lazy live F → (F - hs.base) / 64 ≤ B

/-- at most `Pk` blocks are in use (neither on the reusable nor on the deferred free list) -/
def LiveLe (hs : HState) (Pk : Nat) : Prop :=
  ∀ rs lin lazy live F, InvS hs rs [] lin lazy live F → live.length ≤ Pk

/-- … whenever the deferred free list is empty (the only moments at which the bound is needed: the
frontier moves only when both free lists are exhausted) -/
def LiveLe0 (hs : HState) (Pk : Nat) : Prop :=
  ∀ rs lin live F, InvS hs rs [] lin [] live F → live.length ≤ Pk

theorem LiveLe.le0 {hs : HState} {Pk : Nat} (h : LiveLe hs Pk) : LiveLe0 hs Pk :=
  fun rs lin live F J => h rs lin [] live F J

/-- one step of the bound: the frontier has not moved, or both free lists are exhausted and then the blocks
below the frontier are the blocks in use and the one block of the reusable list -/
theorem FrBound.step {hs hs' : HState} {Pk : Nat} (hb : FrBound hs (Pk + 1)) (hbase : hs'.base = hs.base)
    (hpk : FrPk hs hs') (hw : ∃ rs lin lazy live F, InvS hs rs [] lin lazy live F) (hl : LiveLe0 hs' Pk) :
    FrBound hs' (Pk + 1) := by
  obtain ⟨rs0, lin0, lazy0, live0, F0, I0⟩ := hw
  intro rs lin lazy live F J
  rcases hpk _ _ _ _ _ _ _ _ _ _ I0 J with h | ⟨h1, h2⟩
  · have := hb _ _ _ _ _ I0
    rw [hbase]
    have : (F - hs.base) / 64 ≤ (F0 - hs.base) / 64 := Nat.div_le_div_right (by omega)
    omega
  · subst h2
    have hc := InvW.card J
    have := hl _ _ _ _ J
    simp only [List.length_nil] at hc
    unfold InvS at J
    omega

/-- room below the limit from the bound on the frontier -/
theorem Room.of_frBound {hs : HState} {B n : Nat} (hb : FrBound hs B) (hl : hs.base + 64 * B + n ≤ hs.limit) :
    Room hs n := by
  intro rs lin lazy live F J
  have h1 := hb _ _ _ _ _ J
  have h2 := J.frontier_block
  unfold Scc.Heap.IsBlock at h2
  omega

/-- the trivial bound: a step moves the frontier by at most `δ` blocks -/
theorem FrBound.of_frLe {hs hs' : HState} {B δ : Nat} (hb : FrBound hs B) (hf : FrLe hs hs' (64 * δ))
    (hw : ∃ rs lin lazy live F, InvS hs rs [] lin lazy live F) : FrBound hs' (B + δ) := by
  obtain ⟨rs0, lin0, lazy0, live0, F0, I0⟩ := hw
  intro rs lin lazy live F J
  have h1 := hb _ _ _ _ _ I0
  have h2 := hf.2.2 _ _ _ _ _ _ _ _ _ _ I0 J
  rw [hf.2.1]
  have h3 := I0.frontier_block
  have h4 := J.frontier_block
  unfold Scc.Heap.IsBlock at h3 h4
  rw [hf.2.1] at h4
  omega

section Run3P

variable {F : Frame} (HF : FrameOK F) (h8 : F.c.heapBase % 8 = 0) {mon : MonCfg} (hmon : mon.mach = F.c)
  {px : X86.Prog} {cs pre : List Code} (LA : LoadedA F.c px cs) (hndL : (labs cs).Nodup)
  (hfitX : addrAt F.c.codeBase cs cs.length < 2 ^ 64) (hcs : cs = pre ++ cleanup)
  (hclean : "cleanup" ∉ labs pre) {st0 : State} {h : Word} (E : EntryFacts F st0 h)

/-- THE PEAK HYPOTHESIS from the machine state `X` on: at every statement boundary the machine reaches
from `X` (with at most `C` blocks below the frontier: the trivial bound, `A` blocks per step of the run —
only such boundaries occur), at most `Pk` blocks are in use -/
def PeakFrom (F : Frame) (mon : MonCfg) (px : X86.Prog) (cs : List Code) (P : Program) (hooks : Bool)
    (prog : AxCut.Prog) (st : Pos.State) (X : State) (Pk C : Nat) : Prop :=
  ∀ n X' st' cfg' hs', Reachable prog st st' → stepN mon px n X = .inl X' →
    Rel3 F cs P hooks prog st' cfg' hs' X' → FrBound hs' C → LiveLe0 hs' Pk

theorem PeakFrom.step {F : Frame} {mon : MonCfg} {px : X86.Prog} {cs : List Code} {P : Program} {hooks : Bool}
    {prog : AxCut.Prog} {st st1 : Pos.State} {o : Option (Bool × Word)} {X X' : State} {Pk C n : Nat}
    (h : PeakFrom F mon px cs P hooks prog st X Pk C) (hs : Pos.step prog st = .next st1 o)
    (hn : stepN mon px n X = .inl X') : PeakFrom F mon px cs P hooks prog st1 X' Pk C :=
  fun n' X'' st' cfg' hs' hr hn' R =>
    h (n + n') X'' st' cfg' hs' (Scc.Props.C06Generic.reachable_prepend hs hr) (stepN_trans mon px hn hn') R

include HF h8 hmon LA hndL hfitX hcs hclean E in
/-- THE THREE-WAY RUN UNDER THE FOOTPRINT BOUND: a heap of `64·(Pk + A + 2)` bytes is enough for a terminating
run of any length whose boundaries have at most `Pk` blocks in use; the frontier stays below `Pk + 1` blocks
at every boundary -/
theorem run3_peak (hooks : Bool) (prog : AxCut.Prog) (c : Nat) (code : List MockOp) (nargs c' : Nat)
    (hcomp : (compile mockSym hooks prog).run c = .ok ((code, nargs), c'))
    (hsafe : LabelSafe prog = true) (htp : LinTypedProg prog) (hfit : CodeFits code)
    (DX : XDefsAt cs hooks prog) (hprog : ProgOK prog) (Pk C A : Nat)
    (hA : ∀ d ∈ prog.defs, LetLe A d.body)
    (hbytes : 64 * (Pk + A + 2) ≤ F.c.heapBytes) :
    ∀ (fuel : Nat) (st : Pos.State) (acc : List (Bool × Word)) (cfg : Config) (hs : HState) (X : State)
      (out : List (Bool × Word)) (v : Word) (Cb : Nat),
      Pos.StateTyped prog st → (∀ st', Reachable prog st st' → 2 * st'.ctx.length ≤ 266) →
      Rel3 F cs (Program.ofOps code) hooks prog st cfg hs X → StmtOK st.stmt → LetLe A st.stmt →
      cfg.out = acc → cfg.next + fuel < 2 ^ 64 → FrBound hs (Pk + 1) →
      FrBound hs Cb → Cb + A * fuel ≤ C →
      PeakFrom F mon px cs (Program.ofOps code) hooks prog st X Pk C →
      Pos.runState prog fuel st acc = ⟨out, .done v⟩ →
      (∃ n XL, stepN mon px n X = .inl XL ∧ step mon px XL = .inr (.done v) ∧ XL.out.reverse = out) ∧
      BChain mon px (fun st X => ∃ cfg hs, Rel3 F cs (Program.ofOps code) hooks prog st cfg hs X ∧
          FrBound hs (Pk + 1) ∧ FrBound hs C) (statesOf prog fuel st) X
  | 0, st, acc, cfg, hs, X, out, v, Cb, _, _, _, _, _, _, _, _, _, _, _, h => by simp [Pos.runState] at h
  | fuel + 1, st, acc, cfg, hs, X, out, v, Cb, T, hcap, R, hok, hlet, hacc, hnext, hfb, hcb, hC, hP, h => by
    have hcC : FrBound hs C := fun rs lin lazy live F J => by have := hcb rs lin lazy live F J; omega
    have hX3 : ∃ Γ' ι, X3 F Γ' cfg hs ι X := by
      obtain ⟨Γ', ι, _, _, X3h, _⟩ := R
      exact ⟨Γ', ι, X3h⟩
    obtain ⟨Γ0, ι0, X3h⟩ := hX3
    have hbase := X3h.hrel.base
    have hlimit := X3h.hrel.limit
    have hAr := stmtArity_le hlet
    have hCm : Cb + A ≤ C := by
      have : A ≤ A * (fuel + 1) := Nat.le_mul_of_pos_right A (by omega)
      omega
    have hroom : Room hs (64 * stmtArity st.stmt + 64) := Room.of_frBound hfb (by rw [hbase, hlimit]; omega)
    have hsim := step3P HF h8 hmon LA hndL hfitX hcs hclean E hooks prog c code nargs c' hcomp hsafe htp hfit
      DX hprog st cfg hs X R T (by unfold EnoughHeap; omega) hok hroom
    have hsafe' := Pos.step_safe htp st T
    have hw : ∃ rs lin lazy live F, InvS hs rs [] lin lazy live F := by
      obtain ⟨lin, lazy, live, Fr, I⟩ := X3h.href.conc
      exact ⟨_, lin, lazy, live, Fr, I⟩
    unfold StepSim3P at hsim
    simp only [Pos.runState] at h
    simp only [statesOf]
    cases hst : Pos.step prog st with
    | stuck w => simp [hst] at h
    | done v' =>
      simp only [hst] at h hsim
      obtain ⟨n, XL, h1, h2, h3⟩ := hsim
      simp only [Pos.Behaviour.mk.injEq, Pos.Result.done.injEq] at h
      obtain ⟨rfl, rfl⟩ := h
      exact ⟨⟨n, XL, h1, h2, by rw [h3, hacc]⟩, ⟨cfg, hs, R, hfb, hcC⟩, Or.inl rfl⟩
    | next st' o =>
      simp only [hst] at h hsim
      rw [hst] at hsafe'
      have hc' := hcap st' (Reachable.step Reachable.refl hst)
      obtain ⟨cfg', hs', X', n, h1, hpr, h2, h3, hfr, hpk, R', hok'⟩ := hsim (withinCapacity_of_le hc') hc'
      have hacc' : cfg'.out = outAfter o acc := by rw [h2, hacc]
      have h' : Pos.runState prog fuel st' (outAfter o acc) = ⟨out, .done v⟩ := by
        cases o <;> exact h
      have hlet' : LetLe A st'.stmt := letLe_step hA hst hok.1 hlet
      have hcb' : FrBound hs' (Cb + A) := hcb.of_frLe (FrLe.mono' hfr (by omega)) hw
      have hlive' : LiveLe0 hs' Pk := hP n X' st' cfg' hs' (Reachable.step Reachable.refl hst) h1 R'
        (fun rs lin lazy live F J => by have := hcb' rs lin lazy live F J; omega)
      have hfb' : FrBound hs' (Pk + 1) := hfb.step hfr.2.1 hpk hw hlive'
      have hC' : Cb + A + A * fuel ≤ C := by
        have : A * (fuel + 1) = A * fuel + A := Nat.mul_succ A fuel
        omega
      obtain ⟨⟨n', XL, g1, g2, g3⟩, hch⟩ := run3_peak hooks prog c code nargs c' hcomp hsafe htp hfit DX hprog Pk C A
        hA hbytes fuel st' (outAfter o acc) cfg' hs' X' out v (Cb + A) hsafe'
        (fun st'' hr => hcap st'' (Scc.Props.C06Generic.reachable_prepend hst hr)) R' hok' hlet' hacc' (by omega)
        hfb' hcb' hC' (hP.step hst h1) h'
      exact ⟨⟨n + n', XL, stepN_trans mon px h1 g1, g2, g3⟩, ⟨cfg, hs, R, hfb, hcC⟩, Or.inr ⟨n, X', h1, hch⟩⟩

include HF h8 hmon LA hndL hfitX hcs hclean E in
/-- THE THREE-WAY RUN, EVERY PREFIX (terminating or not): for ANY number `fuel` of steps of the positional
machine from a represented state, the machine passes — without fault — through a boundary state for every
state `statesOf prog fuel st` the positional machine goes through, under the footprint bound -/
theorem run3_prefix (hooks : Bool) (prog : AxCut.Prog) (c : Nat) (code : List MockOp) (nargs c' : Nat)
    (hcomp : (compile mockSym hooks prog).run c = .ok ((code, nargs), c'))
    (hsafe : LabelSafe prog = true) (htp : LinTypedProg prog) (hfit : CodeFits code)
    (DX : XDefsAt cs hooks prog) (hprog : ProgOK prog) (Pk C A : Nat)
    (hA : ∀ d ∈ prog.defs, LetLe A d.body)
    (hbytes : 64 * (Pk + A + 2) ≤ F.c.heapBytes) :
    ∀ (fuel : Nat) (st : Pos.State) (cfg : Config) (hs : HState) (X : State) (Cb : Nat),
      Pos.StateTyped prog st → (∀ st', Reachable prog st st' → 2 * st'.ctx.length ≤ 266) →
      Rel3 F cs (Program.ofOps code) hooks prog st cfg hs X → StmtOK st.stmt → LetLe A st.stmt →
      cfg.next + fuel < 2 ^ 64 → FrBound hs (Pk + 1) →
      FrBound hs Cb → Cb + A * fuel ≤ C →
      PeakFrom F mon px cs (Program.ofOps code) hooks prog st X Pk C →
      BChain mon px (fun st X => ∃ cfg hs, Rel3 F cs (Program.ofOps code) hooks prog st cfg hs X ∧
          FrBound hs (Pk + 1) ∧ FrBound hs C) (statesOf prog fuel st) X
  | 0, st, cfg, hs, X, Cb, _, _, R, _, _, _, hfb, hcb, hC, _ =>
    ⟨⟨cfg, hs, R, hfb, fun rs lin lazy live F J => by have := hcb rs lin lazy live F J; omega⟩, Or.inl rfl⟩
  | fuel + 1, st, cfg, hs, X, Cb, T, hcap, R, hok, hlet, hnext, hfb, hcb, hC, hP => by
    have hcC : FrBound hs C := fun rs lin lazy live F J => by have := hcb rs lin lazy live F J; omega
    have hX3 : ∃ Γ' ι, X3 F Γ' cfg hs ι X := by
      obtain ⟨Γ', ι, _, _, X3h, _⟩ := R
      exact ⟨Γ', ι, X3h⟩
    obtain ⟨Γ0, ι0, X3h⟩ := hX3
    have hbase := X3h.hrel.base
    have hlimit := X3h.hrel.limit
    have hAr := stmtArity_le hlet
    have hCm : Cb + A ≤ C := by
      have : A ≤ A * (fuel + 1) := Nat.le_mul_of_pos_right A (by omega)
      omega
    have hroom : Room hs (64 * stmtArity st.stmt + 64) := Room.of_frBound hfb (by rw [hbase, hlimit]; omega)
    have hsim := step3P HF h8 hmon LA hndL hfitX hcs hclean E hooks prog c code nargs c' hcomp hsafe htp hfit
      DX hprog st cfg hs X R T (by unfold EnoughHeap; omega) hok hroom
    have hsafe' := Pos.step_safe htp st T
    have hw : ∃ rs lin lazy live F, InvS hs rs [] lin lazy live F := by
      obtain ⟨lin, lazy, live, Fr, I⟩ := X3h.href.conc
      exact ⟨_, lin, lazy, live, Fr, I⟩
    unfold StepSim3P at hsim
    simp only [statesOf]
    cases hst : Pos.step prog st with
    | stuck w => exact ⟨⟨cfg, hs, R, hfb, hcC⟩, Or.inl rfl⟩
    | done v' => exact ⟨⟨cfg, hs, R, hfb, hcC⟩, Or.inl rfl⟩
    | next st' o =>
      simp only [hst] at hsim
      rw [hst] at hsafe'
      have hc' := hcap st' (Reachable.step Reachable.refl hst)
      obtain ⟨cfg', hs', X', n, h1, hpr, h2, h3, hfr, hpk, R', hok'⟩ := hsim (withinCapacity_of_le hc') hc'
      have hlet' : LetLe A st'.stmt := letLe_step hA hst hok.1 hlet
      have hcb' : FrBound hs' (Cb + A) := hcb.of_frLe (FrLe.mono' hfr (by omega)) hw
      have hlive' : LiveLe0 hs' Pk := hP n X' st' cfg' hs' (Reachable.step Reachable.refl hst) h1 R'
        (fun rs lin lazy live F J => by have := hcb' rs lin lazy live F J; omega)
      have hfb' : FrBound hs' (Pk + 1) := hfb.step hfr.2.1 hpk hw hlive'
      have hC' : Cb + A + A * fuel ≤ C := by
        have : A * (fuel + 1) = A * fuel + A := Nat.mul_succ A fuel
        omega
      have hch := run3_prefix hooks prog c code nargs c' hcomp hsafe htp hfit DX hprog Pk C A
        hA hbytes fuel st' cfg' hs' X' (Cb + A) hsafe'
        (fun st'' hr => hcap st'' (Scc.Props.C06Generic.reachable_prepend hst hr)) R' hok' hlet' (by omega)
        hfb' hcb' hC' (hP.step hst h1)
      exact ⟨⟨cfg, hs, R, hfb, hcC⟩, Or.inr ⟨n, X', h1, hch⟩⟩

end Run3P

end Scc.X86.Conc
