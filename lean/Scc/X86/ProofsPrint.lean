/-
  Scc.X86.ProofsPrint — `print_preserves` (property C13) FOR EVERY CONTEXT: the sequence emitted by
  code.rs print_i64 (save caller-save registers; move the argument; call; restore) executed on the
  poison machine (the call makes rax rcx rdx rsi rdi r8–r11, the flags and the stack below rsp
  undefined) performs exactly one print call with the value of the source temporary, reads nothing
  undefined, and leaves rsp, HEAP, FREE, every temporary of every live variable and all stack memory
  at or above rsp with their previous contents.
-/
import Scc.X86.ProofsCCMachine
import Scc.X86.ProofsTransfer

namespace Scc.X86

/-! ## straight-line execution with external calls -/

/-- like `execStraight`, but `call f` is the machine's external call (as in `step`) -/
def execSeq (c : MachCfg) (la : String → Option Nat) : List Code → State → M State
  | [], s => .ok s
  | code :: rest, s =>
    match execCode c la code s with
    | .ok (s1, .next) => execSeq c la rest s1
    | .ok (s1, .callExt f) =>
      match callExt s1 f with
      | .ok s2 => execSeq c la rest s2
      | .error e => .error e
    | .ok (_, _) => .error "control-transfer"
    | .error e => .error e

/-- the view after an external call made with `rsp = spn` -/
def callView (a : AState) (spn : Nat) : AState :=
  { reg := fun r => if r ∈ callerSaved then none else a.reg r,
    mem := fun n => if spn ≤ n then a.mem n else none,
    flags := none }

/-- the external call on the functional view; returns the new view and the trace entry -/
def acall (a : AState) (f : String) : Option (AState × (Bool × Word)) :=
  if f ≠ "print_i64" && f ≠ "println_i64" then none else
  match ard a 0, ard a 7 with
  | some sp, some arg =>
    if sp.toNat % 16 ≠ 0 then none
    else some (callView a sp.toNat, (f == "println_i64", arg))
  | _, _ => none

def aexecSeq (c : MachCfg) (la : String → Option Nat) :
    List Code → AState → List (Bool × Word) → Option (AState × List (Bool × Word))
  | [], a, out => some (a, out)
  | .CALL f :: rest, a, out =>
    match acall a f with
    | some (a1, o) => aexecSeq c la rest a1 (o :: out)
    | none => none
  | code :: rest, a, out =>
    match aexec c la code a with
    | some a1 => aexecSeq c la rest a1 out
    | none => none

theorem poisonRegs_get (regs : Array (Option Word)) (hsize : regs.size = 16) (r : Nat) (hr : r < 16) :
    (poisonRegs regs callerSaved)[r]? = if r ∈ callerSaved then some none else regs[r]? := by
  simp only [poisonRegs, callerSaved, List.foldl_cons, List.foldl_nil, Array.set!_eq_setIfInBounds,
    Array.getElem?_setIfInBounds, Array.size_setIfInBounds, hsize]
  have : r = 0 ∨ r = 1 ∨ r = 2 ∨ r = 3 ∨ r = 4 ∨ r = 5 ∨ r = 6 ∨ r = 7 ∨ r = 8 ∨ r = 9 ∨ r = 10 ∨
      r = 11 ∨ r = 12 ∨ r = 13 ∨ r = 14 ∨ r = 15 := by omega
  rcases this with rfl | rfl | rfl | rfl | rfl | rfl | rfl | rfl | rfl | rfl | rfl | rfl | rfl | rfl | rfl | rfl <;>
    simp

/-- the machine state after an external call (the `.ok` branch of `callExt`) -/
def callState (st : State) (f : String) (sp arg : Word) : State :=
  { st with out := (f == "println_i64", arg) :: st.out,
            regs := poisonRegs st.regs callerSaved, flags := none,
            stackMem := st.stackMem.filter (fun a _ => decide (sp.toNat ≤ a)) }

theorem callExt_eq {st : State} {f : String} {sp arg : Word}
    (hf : ¬ ((f ≠ "print_i64" && f ≠ "println_i64") = true)) (hsp : rd st 0 = .ok sp)
    (harg : rd st 7 = .ok arg) (hal : ¬ sp.toNat % 16 ≠ 0) :
    callExt st f = .ok (callState st f sp arg) := by
  unfold callExt
  rw [if_neg hf]
  simp only [hsp, harg]
  rw [if_neg hal]
  rfl

theorem poisonRegs_size (regs : Array (Option Word)) (l : List Nat) : (poisonRegs regs l).size = regs.size := by
  unfold poisonRegs
  induction l generalizing regs with
  | nil => rfl
  | cons r rest ih => rw [List.foldl_cons, ih]; simp

theorem sim_call {st : State} {a : AState} (h : Rel st a) {f : String} {a' : AState} {o : Bool × Word}
    (hx : acall a f = some (a', o)) :
    ∃ st', callExt st f = .ok st' ∧ Rel st' a' ∧ st'.out = o :: st.out ∧ st'.heapMem = st.heapMem ∧
      st'.maxHeapWritten = st.maxHeapWritten := by
  unfold acall at hx
  split at hx
  · cases hx
  · rename_i hf
    split at hx
    · rename_i sp arg hsp harg
      split at hx
      · cases hx
      · rename_i hal
        simp only [Option.some.injEq, Prod.mk.injEq] at hx
        obtain ⟨rfl, rfl⟩ := hx
        refine ⟨callState st f sp arg, callExt_eq hf (sim_rd h hsp) (sim_rd h harg) hal, ?_,
          by simp only [callState], by simp only [callState], by simp only [callState]⟩
        refine ⟨?_, ?_, ?_, rfl⟩
        · simp only [callState, poisonRegs_size, h.size]
        · intro r hr
          simp only [callState]
          rw [poisonRegs_get st.regs h.size r hr]
          by_cases hm : r ∈ callerSaved
          · simp [callView, hm]
          · simp [callView, hm, h.regs r hr]
        · intro n
          simp only [callState]
          rw [Std.HashMap.getElem?_filter', h.mem]
          by_cases hn : sp.toNat ≤ n
          · simp [callView, hn]; cases a.mem n <;> simp
          · simp [callView, hn]
    · cases hx


section Seq
variable {c : MachCfg} {la : String → Option Nat}

def isCall : Code → Bool
  | .CALL _ => true
  | _ => false

theorem aexecSeq_cons_noCall {code : Code} (h : isCall code = false) (rest : List Code) (a : AState)
    (out : List (Bool × Word)) :
    aexecSeq c la (code :: rest) a out =
      match aexec c la code a with
      | some a1 => aexecSeq c la rest a1 out
      | none => none := by
  cases code <;> first | rfl | simp [isCall] at h

theorem aexecSeq_noCall {codes : List Code} (h : ∀ code ∈ codes, isCall code = false) (a : AState)
    (out : List (Bool × Word)) :
    aexecSeq c la codes a out = (aexecList c la codes a).map (fun a' => (a', out)) := by
  induction codes generalizing a with
  | nil => rfl
  | cons code rest ih =>
    rw [aexecSeq_cons_noCall (h code (by simp))]
    simp only [aexecList]
    cases aexec c la code a with
    | none => rfl
    | some a1 => exact ih (fun c' hc' => h c' (by simp [hc'])) a1

theorem aexecSeq_append (l1 l2 : List Code) (a : AState) (out : List (Bool × Word)) :
    aexecSeq c la (l1 ++ l2) a out =
      match aexecSeq c la l1 a out with
      | some (a1, out1) => aexecSeq c la l2 a1 out1
      | none => none := by
  induction l1 generalizing a out with
  | nil => rfl
  | cons code rest ih =>
    by_cases hc : isCall code = true
    · cases code <;> simp [isCall] at hc
      rename_i f
      simp only [List.cons_append, aexecSeq]
      cases acall a f with
      | none => rfl
      | some r => obtain ⟨a1, o⟩ := r; exact ih a1 (o :: out)
    · have hc' : isCall code = false := by simpa using hc
      rw [List.cons_append, aexecSeq_cons_noCall hc', aexecSeq_cons_noCall hc']
      cases aexec c la code a with
      | none => rfl
      | some a1 => exact ih a1 out

theorem sim_execSeq {codes : List Code} {st : State} {a : AState} (h : Rel st a) {a' : AState}
    {out out' : List (Bool × Word)} (hx : aexecSeq c la codes a out = some (a', out'))
    (hout : st.out = out) :
    ∃ st', execSeq c la codes st = .ok st' ∧ Rel st' a' ∧ st'.out = out' ∧
      st'.heapMem = st.heapMem ∧ st'.maxHeapWritten = st.maxHeapWritten := by
  induction codes generalizing st a out with
  | nil =>
    simp only [aexecSeq, Option.some.injEq, Prod.mk.injEq] at hx
    obtain ⟨rfl, rfl⟩ := hx
    exact ⟨st, rfl, h, hout, rfl, rfl⟩
  | cons code rest ih =>
    by_cases hc : isCall code = true
    · cases code <;> simp [isCall] at hc
      rename_i f
      simp only [aexecSeq] at hx
      cases hcall : acall a f with
      | none => simp [hcall] at hx
      | some r =>
        obtain ⟨a1, o⟩ := r
        simp only [hcall] at hx
        obtain ⟨st1, e1, r1, o1, hh1, hm1⟩ := sim_call h hcall
        obtain ⟨st2, e2, r2, o2, hh2, hm2⟩ := ih r1 hx (by rw [o1, hout])
        exact ⟨st2, by simp [execSeq, execCode, e1, e2], r2, o2, hh2.trans hh1, hm2.trans hm1⟩
    · have hc' : isCall code = false := by simpa using hc
      rw [aexecSeq_cons_noCall hc'] at hx
      cases hex : aexec c la code a with
      | none => simp [hex] at hx
      | some a1 =>
        simp only [hex] at hx
        obtain ⟨st1, e1, r1, s1⟩ := sim_exec la h hex
        obtain ⟨st2, e2, r2, o2, hh2, hm2⟩ := ih r1 hx (by rw [s1.out, hout])
        exact ⟨st2, by simp [execSeq, e1, e2], r2, o2, hh2.trans s1.heapMem,
          hm2.trans s1.maxHeapWritten⟩

end Seq

/-! ## facts about registers_to_save -/

theorem regsToSave_cons (b : Scc.AxCut.Binding) (rest : List Scc.AxCut.Binding) (k : Nat) :
    regsToSave (b :: rest) k =
      (if b.chi == .ext then [4 + 2 * k + 1] else [4 + 2 * k, 4 + 2 * k + 1]) ++ regsToSave rest (k + 1) := by
  simp [regsToSave, List.zipIdx_cons, CALLER_SAVE_FIRST, consts]

/-- registers_to_save is strictly increasing -/
theorem regsToSave_sorted (l : List Scc.AxCut.Binding) (k : Nat) : (regsToSave l k).Pairwise (· < ·) := by
  induction l generalizing k with
  | nil => simp [regsToSave]
  | cons b rest ih =>
    rw [regsToSave_cons]
    have hb := (regsToSave_bounds rest (k + 1)).1
    rw [List.pairwise_append]
    refine ⟨?_, ih (k + 1), ?_⟩
    · split <;> simp
    · intro x hx y hy
      have := hb y hy
      split at hx <;> simp at hx <;> omega

theorem regsToSave_nodup (l : List Scc.AxCut.Binding) (k : Nat) : (regsToSave l k).Nodup :=
  (regsToSave_sorted l k).imp (fun h => Nat.ne_of_lt h)

/-- every live register of the first positions is saved -/
theorem mem_regsToSave (l : List Scc.AxCut.Binding) (k i : Nat) (b : Scc.AxCut.Binding)
    (hb : l[i]? = some b) :
    4 + 2 * (k + i) + 1 ∈ regsToSave l k ∧ (b.chi ≠ .ext → 4 + 2 * (k + i) ∈ regsToSave l k) := by
  induction l generalizing k i with
  | nil => simp at hb
  | cons b0 rest ih =>
    rw [regsToSave_cons]
    cases i with
    | zero =>
      simp only [List.getElem?_cons_zero, Option.some.injEq] at hb
      subst hb
      constructor
      · apply List.mem_append_left; split <;> simp
      · intro hne
        apply List.mem_append_left
        have : (b0.chi == Scc.AxCut.Chi.ext) = false := by
          cases hh : b0.chi <;> first | rfl | exact absurd hh hne
        simp [this]
    | succ i =>
      simp only [List.getElem?_cons_succ] at hb
      obtain ⟨h1, h2⟩ := ih (k + 1) i hb
      have e : k + 1 + i = k + (i + 1) := by omega
      rw [e] at h1 h2
      exact ⟨List.mem_append_right _ h1, fun hne => List.mem_append_right _ (h2 hne)⟩

section Restore
variable {c : MachCfg} {la : String → Option Nat}

theorem a_restoreMoves (l : List Nat) (first k : Nat) (a : AState) (hsrc : ∀ r ∈ l, r < first)
    (hnd : l.Nodup) (hlen : l.length = 0 ∨ first + k + l.length ≤ 16) :
    ∃ a', aexecList c la (restoreMoves first l k) a = some a' ∧
      (∀ j (h : j < l.length), a'.reg l[j] = a.reg (first + k + j)) ∧
      (∀ r, r ∉ l → a'.reg r = a.reg r) ∧ a'.mem = a.mem ∧ a'.flags = a.flags := by
  induction l generalizing k a with
  | nil => exact ⟨a, rfl, fun j h => by simp at h, fun _ _ => rfl, rfl, rfl⟩
  | cons r rest ih =>
    have hr : r < first := hsrc r (by simp)
    simp only [List.length_cons] at hlen
    have hlen : first + k + (rest.length + 1) ≤ 16 := by omega
    have hnd' := List.nodup_cons.1 hnd
    have hcons : restoreMoves first (r :: rest) k = Code.MOV r (first + k) :: restoreMoves first rest (k + 1) := by
      simp [restoreMoves, List.zipIdx_cons]
    rw [hcons, aexecList_cons', aexec_MOV' (by omega) (by omega)]
    obtain ⟨a', e, h2, h3, h4, h5⟩ := ih (k + 1) (a.setReg r (a.reg (first + k)))
      (fun r' h' => hsrc r' (by simp [h'])) hnd'.2 (by omega)
    refine ⟨a', e, ?_, ?_, by rw [h4]; rfl, by rw [h5]; rfl⟩
    · intro j hj
      cases j with
      | zero =>
        have := h3 r hnd'.1
        simpa using this
      | succ j =>
        have hj' : j < rest.length := by simpa using hj
        have := h2 j hj'
        simp only [List.getElem_cons_succ]
        rw [this]
        have hlt : r < first := hr
        have hne : first + (k + 1) + j ≠ r := by omega
        simp [hne]
        congr 1; omega
    · intro r' hr'
      have h1 : r' ≠ r := fun e => hr' (by simp [e])
      have h2' : r' ∉ rest := fun e => hr' (by simp [e])
      rw [h3 r' h2']
      simp [h1]

theorem restore_eq (first : Nat) (L : List Nat) :
    restoreCallerSaveRegisters first L =
      restoreMoves first (L.take (backupRegistersUsed first L)) 0 ++
      (if (L.length - backupRegistersUsed first L) % 2 = 0 then [Code.ADDI 0 8] else []) ++
      (L.drop (backupRegistersUsed first L)).reverse.map Code.POP := by
  simp [restoreCallerSaveRegisters, restoreMoves, STACK, address, FIELD_SLOT_SIZE, consts]

/-- `mov r, [rsp + i]` with `rsp = m` -/
theorem aexec_MOVL_rsp (hc : CfgOK c) {a : AState} {r m : Nat} {i : Int} {k : Nat} (hi : i = (k : Int))
    (hr : r < 16) (hsp : a.reg 0 = some (BitVec.ofNat 64 m)) (h32 : fitsI32 i = true)
    (hw : StackWord c (m + k)) :
    aexec c la (.MOVL r 0 i) a = some (a.setReg r (a.mem (m + k))) := by
  subst hi
  have hm : m + k < 2 ^ 64 := by have := hw.high; have := hc.top; omega
  have e : BitVec.ofNat 64 m + BitVec.ofInt 64 (k : Int) = BitVec.ofNat 64 (m + k) := by
    rw [show BitVec.ofInt 64 (k : Int) = BitVec.ofNat 64 k from by simp [BitVec.ofInt_natCast]]
    exact ofNat_add hm
  simp only [aexec, aea, ard, show (0 : Nat) < 16 by decide, if_true, hsp, aimm32, h32, e, aloadRaw,
    aaddr_stackWord hc hw, awrRaw, hr]

/-- contents of the source temporary of a print when `rsp = m` -/
def srcVal (a : AState) (m : Nat) : Temporary → Option Word
  | .reg r => a.reg r
  | .spill p => a.mem (m + (2048 - 8 * (p + 1)))

theorem ofNat_toNat {m : Nat} (h : m < 2 ^ 64) : (BitVec.ofNat 64 m).toNat = m := by
  simp [BitVec.toNat_ofNat, Nat.mod_eq_of_lt h]

/-- What the print sequence leaves unchanged. -/
structure PrintKept (ctx : Scc.AxCut.Ctx) (a a' : AState) (m : Nat) : Prop where
  rsp : a'.reg 0 = a.reg 0
  heap : a'.reg 2 = a.reg 2
  free : a'.reg 3 = a.reg 3
  /-- second temporary (the word) of every variable that lives in a register -/
  snd : ∀ i b, ctx[i]? = some b → 2 * i + 5 < 16 → a'.reg (2 * i + 5) = a.reg (2 * i + 5)
  /-- first temporary (the pointer) of every non-`ext` variable that lives in a register -/
  fst : ∀ i b, ctx[i]? = some b → b.chi ≠ .ext → 2 * i + 4 < 16 → a'.reg (2 * i + 4) = a.reg (2 * i + 4)
  /-- the spill area and everything above it -/
  mem : ∀ n, m ≤ n → a'.mem n = a.mem n

/-- `rsp` at the call: below the pushed registers, plus the padding word when their number is even -/
def callSp (m n2 : Nat) : Nat := m - 8 * n2 - (if n2 % 2 = 0 then 8 else 0)

/-- the save sequence, with everything it establishes -/
theorem a_saveSeq (hc : CfgOK c) (first : Nat) (L : List Nat) (hL : ∀ r ∈ L, 4 ≤ r ∧ r < 12)
    (hLlen : L.length ≤ 8) (hf : 12 ≤ first) (a0 : AState) (m : Nat)
    (hsp : a0.reg 0 = some (BitVec.ofNat 64 m)) (h8 : m % 8 = 0)
    (hlow : c.stackLow + 72 ≤ m) (htop : m ≤ c.stackTop) :
    ∃ a3, aexecList c la (saveCallerSaveRegisters first L) a0 = some a3 ∧
      a3.reg 0 = some (BitVec.ofNat 64 (callSp m (L.length - backupRegistersUsed first L))) ∧
      (∀ r, r ≠ 0 → r < first → a3.reg r = a0.reg r) ∧
      (∀ j (h : j < (L.take (backupRegistersUsed first L)).length),
        a3.reg (first + j) = a0.reg (L.take (backupRegistersUsed first L))[j]) ∧
      (∀ j (h : j < (L.drop (backupRegistersUsed first L)).length),
        a3.mem (m - 8 * (j + 1)) = a0.reg (L.drop (backupRegistersUsed first L))[j]) ∧
      (∀ n, m ≤ n → a3.mem n = a0.mem n) := by
  generalize hused : backupRegistersUsed first L = used
  have hu1 : used ≤ L.length := by
    rw [← hused]; unfold backupRegistersUsed; omega
  have hu2 : first + used ≤ 16 ∨ used = 0 := by
    rw [← hused]; unfold backupRegistersUsed
    simp only [show REGISTER_NUM = 16 from rfl]; omega
  rw [save_eq, hused, aexecList_append, aexecList_append]
  obtain ⟨a1, e1, b1, r1, m1, _⟩ := a_backupMoves (la := la) (L.take used) first 0 a0
    (fun r hr => by have := hL r (List.mem_of_mem_take hr); omega) (by omega)
    (by simp only [List.length_take]; omega)
  have hsp1 : a1.reg 0 = some (BitVec.ofNat 64 m) := by rw [r1 0 (Or.inl (by omega))]; exact hsp
  rw [e1]
  dsimp only
  have hdl : (L.drop used).length = L.length - used := by simp
  have htl : (L.take used).length = used := by simp; omega
  obtain ⟨a2, e2, P⟩ := a_pushList (la := la) hc (L.drop used)
    (fun r hr => by have := hL r (List.mem_of_mem_drop hr); omega) a1 m hsp1 h8
    (by rw [hdl]; omega) htop
  rw [e2]
  dsimp only
  have Prsp : a2.reg 0 = some (BitVec.ofNat 64 (m - 8 * (L.length - used))) := by rw [P.rsp, hdl]
  -- facts about a2 relative to a0
  have R2 : ∀ r, r ≠ 0 → r < first → a2.reg r = a0.reg r := by
    intro r h0 hlt
    rw [P.regs r h0, r1 r (Or.inl (by omega))]
  have B2 : ∀ j (h : j < (L.take used).length), a2.reg (first + j) = a0.reg (L.take used)[j] := by
    intro j hj
    rw [P.regs _ (by omega)]
    have := b1 j hj
    simpa using this
  have S2 : ∀ j (h : j < (L.drop used).length), a2.mem (m - 8 * (j + 1)) = a0.reg (L.drop used)[j] := by
    intro j hj
    rw [P.saved j hj]
    have hlt : (L.drop used)[j] < first := by
      have := hL _ (List.mem_of_mem_drop (List.getElem_mem hj)); omega
    exact r1 _ (Or.inl (by omega))
  have M2 : ∀ n, m ≤ n → a2.mem n = a0.mem n := by
    intro n hn
    rw [P.mem n (fun k hk => by rw [hdl] at hk; omega), m1]
  by_cases hpar : (L.length - used) % 2 = 0
  · rw [if_pos hpar]
    have hm : m - 8 * (L.length - used) < 2 ^ 64 := by have := hc.top; omega
    have hsub := aexec_SUBI_rsp (c := c) (la := la) (a := a2) (k := 8) (i := 8) rfl Prsp (by omega) hm
      (by decide)
    refine ⟨_, by rw [aexecList_cons', hsub]; rfl, ?_, ?_, ?_, ?_, ?_⟩
    · simp [callSp, hpar]
    · intro r h0 hlt; simp [h0, R2 r h0 hlt]
    · intro j hj
      have : first + j ≠ 0 := by omega
      show (if first + j = 0 then _ else a2.reg (first + j)) = _
      rw [if_neg this]; exact B2 j hj
    · intro j hj; exact S2 j hj
    · intro n hn; exact M2 n hn
  · rw [if_neg hpar]
    refine ⟨a2, rfl, ?_, R2, B2, S2, M2⟩
    rw [Prsp]; simp [callSp, hpar]

/-- the restore sequence: from a state that holds the backups (in registers `first + j` and on the
    stack) it reloads every saved register and puts `rsp` back -/
theorem a_restoreSeq (hc : CfgOK c) (first : Nat) (L : List Nat) (hL : ∀ r ∈ L, 4 ≤ r ∧ r < 12)
    (hnd : L.Nodup) (hLlen : L.length ≤ 8) (hf : 12 ≤ first) (a5 : AState) (m : Nat)
    (hsp : a5.reg 0 = some (BitVec.ofNat 64 (callSp m (L.length - backupRegistersUsed first L))))
    (h8 : m % 8 = 0) (hlow : c.stackLow + 72 ≤ m) (htop : m ≤ c.stackTop) :
    ∃ a8, aexecList c la (restoreCallerSaveRegisters first L) a5 = some a8 ∧
      a8.reg 0 = some (BitVec.ofNat 64 m) ∧
      (∀ j (h : j < (L.take (backupRegistersUsed first L)).length),
        a8.reg (L.take (backupRegistersUsed first L))[j] = a5.reg (first + j)) ∧
      (∀ j (h : j < (L.drop (backupRegistersUsed first L)).length),
        a8.reg (L.drop (backupRegistersUsed first L))[j] = a5.mem (m - 8 * (j + 1))) ∧
      (∀ r, r ≠ 0 → r ∉ L → a8.reg r = a5.reg r) ∧ a8.mem = a5.mem := by
  generalize hused : backupRegistersUsed first L = used at hsp ⊢
  have hu1 : used ≤ L.length := by
    rw [← hused]; unfold backupRegistersUsed; omega
  have hu2 : first + used ≤ 16 ∨ used = 0 := by
    rw [← hused]; unfold backupRegistersUsed
    simp only [show REGISTER_NUM = 16 from rfl]; omega
  have hdl : (L.drop used).length = L.length - used := by simp
  have htl : (L.take used).length = used := by simp; omega
  have hndt : (L.take used).Nodup := hnd.sublist (List.take_sublist _ _)
  have hndd : (L.drop used).Nodup := hnd.sublist (List.drop_sublist _ _)
  have hdisj : ∀ r, r ∈ L.take used → r ∉ L.drop used := by
    intro r h1 h2
    have := List.take_append_drop used L ▸ hnd
    exact (List.nodup_append.1 this).2.2 r h1 r h2 rfl
  rw [restore_eq, hused, aexecList_append, aexecList_append]
  obtain ⟨a6, e6, b6, r6, m6, _⟩ := a_restoreMoves (la := la) (L.take used) first 0 a5
    (fun r hr => by have := hL r (List.mem_of_mem_take hr); omega) hndt
    (by simp only [List.length_take]; omega)
  rw [e6]
  dsimp only
  have h0notL : ∀ l : List Nat, (∀ r ∈ l, r ∈ L) → 0 ∉ l := fun l hl h0 => by
    have := hL 0 (hl 0 h0); omega
  have hsp6 : a6.reg 0 = some (BitVec.ofNat 64 (callSp m (L.length - used))) := by
    rw [r6 0 (h0notL _ (fun r hr => List.mem_of_mem_take hr))]; exact hsp
  -- the padding
  have hpadstate : ∃ a7, aexecList c la (if (L.length - used) % 2 = 0 then [Code.ADDI 0 8] else []) a6 = some a7 ∧
      a7.reg 0 = some (BitVec.ofNat 64 (m - 8 * (L.length - used))) ∧
      (∀ r, r ≠ 0 → a7.reg r = a6.reg r) ∧ a7.mem = a6.mem := by
    by_cases hpar : (L.length - used) % 2 = 0
    · rw [if_pos hpar]
      have hcs : callSp m (L.length - used) = m - 8 * (L.length - used) - 8 := by simp [callSp, hpar]
      rw [hcs] at hsp6
      have ht := hc.top
      have hadd := aexec_ADDI_rsp (c := c) (la := la) (a := a6) (k := 8) (i := 8) rfl hsp6 (by omega)
        (by decide)
      refine ⟨{ a6.setReg 0 (some (BitVec.ofNat 64 (m - 8 * (L.length - used) - 8 + 8))) with flags := none },
        by rw [aexecList_cons', hadd]; rfl, ?_, fun r h0 => by simp [h0], rfl⟩
      simp only [AState.setReg_reg, if_true]; congr 2; omega
    · rw [if_neg hpar]
      have hcs : callSp m (L.length - used) = m - 8 * (L.length - used) := by simp [callSp, hpar]
      rw [hcs] at hsp6
      exact ⟨a6, rfl, hsp6, fun _ _ => rfl, rfl⟩
  obtain ⟨a7, e7, hsp7, r7, m7⟩ := hpadstate
  rw [e7]
  dsimp only
  obtain ⟨a8, e8, P⟩ := a_popList (la := la) hc (L.drop used).reverse
    (fun r hr => by have := hL r (List.mem_of_mem_drop (List.mem_reverse.1 hr)); omega)
    (by unfold List.Nodup; rw [List.pairwise_reverse]; exact hndd.imp (fun h => Ne.symm h)) a7 (m - 8 * (L.length - used)) hsp7 (by omega) (by omega)
    (by simp only [List.length_reverse, hdl]; omega)
  refine ⟨a8, e8, ?_, ?_, ?_, ?_, ?_⟩
  · rw [P.rsp]; simp only [List.length_reverse, hdl]; congr 2; omega
  · intro j hj
    have hmem : (L.take used)[j] ∈ L.take used := List.getElem_mem hj
    have hne0 : (L.take used)[j] ≠ 0 := by have := hL _ (List.mem_of_mem_take hmem); omega
    rw [P.regs _ hne0 (by simpa using hdisj _ hmem), r7 _ hne0]
    have := b6 j hj
    simpa using this
  · intro j hj
    rw [hdl] at hj
    have hj' : L.length - used - 1 - j < (L.drop used).reverse.length := by
      simp only [List.length_reverse, hdl]; omega
    have := P.restored (L.length - used - 1 - j) hj'
    rw [List.getElem_reverse] at this
    have e1 : (L.drop used).length - 1 - (L.length - used - 1 - j) = j := by rw [hdl]; omega
    simp only [e1] at this
    rw [this, m7, m6]
    congr 1; omega
  · intro r h0 hr
    have h1 : r ∉ (L.drop used).reverse := fun h => hr (List.mem_of_mem_drop (List.mem_reverse.1 h))
    have h2 : r ∉ L.take used := fun h => hr (List.mem_of_mem_take h)
    rw [P.regs r h0 h1, r7 r h0, r6 r h2]
  · rw [P.mem, m7, m6]

/-- code.rs print_i64: the part before the save sequence -/
def printPre (src : Temporary) : List Code :=
  match src with
  | .spill _ => [Code.COMMENT "#move argument to TEMP before adapting the stack pointer"] ++
      moveToRegister TEMP src
  | .reg _ => []

/-- code.rs print_i64: the move of the argument into `rdi` -/
def printArgMove (src : Temporary) : Code := Code.MOV 7 (jumpReg src)

theorem printI64_eq (nl : Bool) (src : Temporary) (ctx : Scc.AxCut.Ctx) :
    printI64 nl src ctx =
      printPre src ++ [Code.COMMENT "#save caller-save registers"] ++
      saveCallerSaveRegisters (callerSaveRegistersInfo ctx).1 (callerSaveRegistersInfo ctx).2 ++
      [Code.COMMENT "#move argument into place"] ++ [printArgMove src] ++
      [Code.CALL (if nl then "println_i64" else "print_i64"), Code.COMMENT "#restore caller-save registers"] ++
      restoreCallerSaveRegisters (callerSaveRegistersInfo ctx).1 (callerSaveRegistersInfo ctx).2 := by
  cases src <;> rfl

/-- print_preserves (view level) FOR EVERY CONTEXT `ctx` and source placement: the emitted sequence
    makes exactly one external call, with the source's value in `rdi` and `rsp ≡ 0 (mod 16)`, and
    afterwards rsp, HEAP, FREE, every live temporary and the stack from `rsp` upwards are as before,
    although the call made every caller-saved register and the stack below `rsp` undefined. -/
theorem a_print_preserves (hc : CfgOK c) (nl : Bool) (ctx : Scc.AxCut.Ctx) (src : Temporary)
    (hsrc : TempOK src) (hlive : ∀ r, src = .reg r → r < 2 * ctx.length + 4)
    (a : AState) (m : Nat) (hsp : a.reg 0 = some (BitVec.ofNat 64 m)) (h16 : m % 16 = 8)
    (hlow : c.stackLow + 72 ≤ m) (htop : m + 2048 ≤ c.stackTop)
    (x : Word) (hx : srcVal a m src = some x) (out : List (Bool × Word)) :
    ∃ a', aexecSeq c la (printI64 nl src ctx) a out = some (a', (nl, x) :: out) ∧
      PrintKept ctx a a' m := by
  -- the context-dependent data
  have hcs := csri_eq ctx
  generalize hfirst : max (2 * ctx.length + 4) 12 = first at hcs
  generalize hLdef : regsToSave (ctx.take 4) 0 = L at hcs
  have hb := regsToSave_bounds (ctx.take 4) 0
  rw [hLdef] at hb
  obtain ⟨hb1, hb2⟩ := hb
  have hlen4 : (ctx.take 4).length ≤ 4 := by simp; omega
  have hLlen : L.length ≤ 8 := by omega
  have hL : ∀ r ∈ L, 4 ≤ r ∧ r < 12 := fun r hr => by have := hb1 r hr; omega
  have hf12 : 12 ≤ first := by rw [← hfirst]; exact Nat.le_max_right _ _
  have hfctx : 2 * ctx.length + 4 ≤ first := by rw [← hfirst]; exact Nat.le_max_left _ _
  have hnd : L.Nodup := hLdef ▸ regsToSave_nodup _ _
  have ht := hc.top
  have h8 : m % 8 = 0 := by omega
  -- step 0: the source goes to a register that survives the save sequence
  generalize hsrdef : jumpReg src = sr
  have hsr : sr < first ∧ sr ≠ 0 ∧ sr < 16 := by
    rw [← hsrdef]
    cases src with
    | reg r =>
      have h1 := hlive r rfl
      have h2 : 4 ≤ r := hsrc.1
      have h3 : r < 16 := hsrc.2
      simp only [jumpReg]; omega
    | spill p => simp only [jumpReg, TEMP_eq]; omega
  have hpre : ∃ a0, aexecList c la (printPre src) a = some a0 ∧ a0.reg 0 = a.reg 0 ∧
        (∀ r, r ≠ 1 → a0.reg r = a.reg r) ∧ a0.mem = a.mem ∧ a0.reg sr = some x := by
    rw [← hsrdef]
    cases src with
    | reg r => exact ⟨a, rfl, rfl, fun _ _ => rfl, rfl, hx⟩
    | spill p =>
      have hp : p < 256 := hsrc.2
      have hw : StackWord c (m + (2048 - 8 * (p + 1))) := ⟨by omega, by omega, by omega⟩
      have hoff : stackOffset p = ((2048 - 8 * (p + 1) : Nat) : Int) := by rw [stackOffset_eq]; omega
      refine ⟨a.setReg 1 (a.mem (m + (2048 - 8 * (p + 1)))), ?_, by simp, fun r hr => by simp [hr], rfl, ?_⟩
      · simp only [printPre, moveToRegister, List.singleton_append, aexecList_cons', aexec_COMMENT, TEMP_eq,
          STACK_eq]
        rw [aexec_MOVL_rsp hc hoff (by decide : 1 < 16) hsp (fitsI32_stackOffset hp) hw]
        rfl
      · simpa [jumpReg, TEMP_eq, srcVal] using hx
  obtain ⟨a0, e0, hsp0', R0, M0, hx0⟩ := hpre
  have hsp0 : a0.reg 0 = some (BitVec.ofNat 64 m) := by rw [hsp0', hsp]
  -- steps 1-3: save
  obtain ⟨a3, e3, hsp3, R3, B3, S3, M3⟩ := a_saveSeq (la := la) hc first L hL hLlen hf12 a0 m hsp0 h8 hlow
    (by omega)
  generalize hused : backupRegistersUsed first L = used at hsp3 B3 S3
  have hu1 : used ≤ L.length := by rw [← hused]; unfold backupRegistersUsed; omega
  have hu2 : first + used ≤ 16 ∨ used = 0 := by
    rw [← hused]; unfold backupRegistersUsed
    simp only [show REGISTER_NUM = 16 from rfl]; omega
  have htl : (L.take used).length = used := by simp; omega
  have hdl : (L.drop used).length = L.length - used := by simp
  -- the stack pointer at the call
  have hcsp : callSp m (L.length - used) % 16 = 0 ∧ callSp m (L.length - used) ≤ m ∧
      m ≤ callSp m (L.length - used) + 72 ∧ callSp m (L.length - used) ≤ m - 8 * (L.length - used) := by
    unfold callSp; split <;> omega
  -- step 4: the argument
  have hx3 : a3.reg sr = some x := by rw [R3 sr hsr.2.1 hsr.1]; exact hx0
  have e4 : aexec c la (printArgMove src) a3 = some (a3.setReg 7 (some x)) := by
    rw [printArgMove, hsrdef, aexec_MOV' (by decide) hsr.2.2, hx3]
  -- step 5: the call
  have hlt : callSp m (L.length - used) < 2 ^ 64 := by omega
  have e5 : acall (a3.setReg 7 (some x)) (if nl then "println_i64" else "print_i64") =
      some (callView (a3.setReg 7 (some x)) (callSp m (L.length - used)), (nl, x)) := by
    unfold acall
    have hfn : ¬ (((if nl then "println_i64" else "print_i64") ≠ "print_i64" &&
        (if nl then "println_i64" else "print_i64") ≠ "println_i64") = true) := by
      cases nl <;> simp
    rw [if_neg hfn]
    simp only [ard, show (0 : Nat) < 16 by decide, show (7 : Nat) < 16 by decide, if_true,
      AState.setReg_reg, show ¬ ((0 : Nat) = 7) by decide, if_false, hsp3]
    rw [if_neg (by rw [ofNat_toNat hlt]; omega)]
    simp only [ofNat_toNat hlt]
    cases nl <;> simp
  generalize ha5 : callView (a3.setReg 7 (some x)) (callSp m (L.length - used)) = a5 at e5
  have R5 : ∀ r, r ∉ callerSaved → r ≠ 7 → a5.reg r = a3.reg r := by
    intro r h1 h2; rw [← ha5]; simp [callView, h1, h2]
  have M5 : ∀ n, callSp m (L.length - used) ≤ n → a5.mem n = a3.mem n := by
    intro n hn; rw [← ha5]; simp [callView, hn]
  have hsp5 : a5.reg 0 = some (BitVec.ofNat 64 (callSp m (L.length - backupRegistersUsed first L))) := by
    rw [hused, R5 0 (by decide) (by decide), hsp3]
  -- steps 6-8: restore
  obtain ⟨a8, e8, hsp8, B8, S8, R8, M8⟩ := a_restoreSeq (la := la) hc first L hL hnd hLlen hf12 a5 m hsp5 h8
    hlow (by omega)
  rw [hused] at B8 S8
  -- every saved register has its old value
  have hsaved : ∀ r ∈ L, a8.reg r = a.reg r := by
    intro r hr
    have hr1 : r ≠ 1 := by have := hL r hr; omega
    rw [← List.take_append_drop used L] at hr
    rcases List.mem_append.1 hr with h | h
    · obtain ⟨j, hj, rfl⟩ := List.getElem_of_mem h
      have hge : 12 ≤ first + j := by omega
      have hnc : first + j ∉ callerSaved := by
        simp only [callerSaved, List.mem_cons, List.not_mem_nil, or_false]; omega
      have hn7 : first + j ≠ 7 := by omega
      rw [B8 j hj, R5 _ hnc hn7, B3 j hj, R0 _ hr1]
    · obtain ⟨j, hj, rfl⟩ := List.getElem_of_mem h
      rw [hdl] at hj
      have hj' : j < (L.drop used).length := by rw [hdl]; exact hj
      rw [S8 j hj', M5 _ (by omega), S3 j hj', R0 _ hr1]
  -- registers that nothing touches
  have huntouched : ∀ r, r ≠ 0 → r ∉ L → r ∉ callerSaved → r < first → a8.reg r = a.reg r := by
    intro r h0 hL' hcs' hlt'
    have h7 : r ≠ 7 := fun e => hcs' (by simp [callerSaved, e])
    have h1 : r ≠ 1 := fun e => hcs' (by simp [callerSaved, e])
    rw [R8 r h0 hL', R5 r hcs' h7, R3 r h0 hlt', R0 r h1]
  -- assemble the execution
  refine ⟨a8, ?_, ?_⟩
  · rw [printI64_eq, hcs]
    dsimp only
    rw [aexecSeq_append, aexecSeq_append, aexecSeq_append, aexecSeq_append, aexecSeq_append,
      aexecSeq_append]
    rw [aexecSeq_noCall (by cases src <;> simp [printPre, moveToRegister, isCall]), e0]
    dsimp only [Option.map]
    rw [aexecSeq_noCall (by simp [isCall])]
    dsimp only [aexecList, aexec_COMMENT, Option.map]
    rw [aexecSeq_noCall (by
      intro code hcode
      rw [save_eq] at hcode
      simp only [List.mem_append, backupMoves, List.mem_map] at hcode
      rcases hcode with (⟨_, _, rfl⟩ | ⟨_, _, rfl⟩) | hcode
      · rfl
      · rfl
      · split at hcode <;> simp at hcode; subst hcode; rfl), e3]
    dsimp only [Option.map]
    rw [aexecSeq_noCall (by simp [isCall])]
    dsimp only [aexecList, aexec_COMMENT, Option.map]
    rw [aexecSeq_noCall (by simp [printArgMove, isCall])]
    simp only [aexecList, e4, Option.map]
    simp only [aexecSeq, e5, aexec_COMMENT]
    rw [aexecSeq_noCall (by
      intro code hcode
      rw [restore_eq] at hcode
      simp only [List.mem_append, restoreMoves, List.mem_map] at hcode
      rcases hcode with (⟨_, _, rfl⟩ | hcode) | ⟨_, _, rfl⟩
      · rfl
      · split at hcode <;> simp at hcode; subst hcode; rfl
      · rfl), e8]
    rfl
  · refine ⟨by rw [hsp8, hsp], ?_, ?_, ?_, ?_, ?_⟩
    · exact huntouched 2 (by decide) (fun h => by have := hL 2 h; omega) (by decide) (by omega)
    · exact huntouched 3 (by decide) (fun h => by have := hL 3 h; omega) (by decide) (by omega)
    · intro i b hib hlt'
      have hi : i < ctx.length := by
        rcases Nat.lt_or_ge i ctx.length with h | h
        · exact h
        · simp [List.getElem?_eq_none h] at hib
      by_cases hi4 : i < 4
      · have hmem := (mem_regsToSave (ctx.take 4) 0 i b (by rw [List.getElem?_take_of_lt hi4]; exact hib)).1
        rw [hLdef] at hmem
        have e : 4 + 2 * (0 + i) + 1 = 2 * i + 5 := by omega
        rw [e] at hmem
        exact hsaved _ hmem
      · exact huntouched _ (by omega) (fun h => by have := hL _ h; omega) (by simp [callerSaved]; omega)
          (by omega)
    · intro i b hib hne hlt'
      have hi : i < ctx.length := by
        rcases Nat.lt_or_ge i ctx.length with h | h
        · exact h
        · simp [List.getElem?_eq_none h] at hib
      by_cases hi4 : i < 4
      · have hmem := (mem_regsToSave (ctx.take 4) 0 i b (by rw [List.getElem?_take_of_lt hi4]; exact hib)).2 hne
        rw [hLdef] at hmem
        have e : 4 + 2 * (0 + i) = 2 * i + 4 := by omega
        rw [e] at hmem
        exact hsaved _ hmem
      · exact huntouched _ (by omega) (fun h => by have := hL _ h; omega) (by simp [callerSaved]; omega)
          (by omega)
    · intro n hn
      rw [M8, M5 n (by omega), M3 n hn, M0]

/-- What the print sequence leaves unchanged, on the machine. -/
structure PrintKeptM (ctx : Scc.AxCut.Ctx) (st st' : State) (m : Nat) : Prop where
  size : st'.regs.size = 16
  rsp : st'.regs[0]? = st.regs[0]?
  heap : st'.regs[2]? = st.regs[2]?
  free : st'.regs[3]? = st.regs[3]?
  snd : ∀ i b, ctx[i]? = some b → 2 * i + 5 < 16 → st'.regs[2 * i + 5]? = st.regs[2 * i + 5]?
  fst : ∀ i b, ctx[i]? = some b → b.chi ≠ .ext → 2 * i + 4 < 16 → st'.regs[2 * i + 4]? = st.regs[2 * i + 4]?
  mem : ∀ n, m ≤ n → st'.stackMem[n]? = st.stackMem[n]?
  heapMem : st'.heapMem = st.heapMem
  maxHeapWritten : st'.maxHeapWritten = st.maxHeapWritten

/-- print_preserves on the machine, FOR EVERY CONTEXT: from a statement boundary
    (`rsp = m ≡ 8 mod 16`) the code of `print_i64 / println_i64 src` runs without fault — in
    particular the external call finds `rsp ≡ 0 (mod 16)` and a defined argument, and nothing undefined
    is used afterwards although the call poisons rax rcx rdx rsi rdi r8–r11, the flags and the stack
    below `rsp` —, appends exactly `(newline, value of src)` to the trace, and preserves rsp, HEAP,
    FREE, every temporary of every live variable (registers and spill slots), and the heap. -/
theorem print_preserves_machine (hc : CfgOK c) (nl : Bool) (ctx : Scc.AxCut.Ctx) (src : Temporary)
    (hsrc : TempOK src) (hlive : ∀ r, src = .reg r → r < 2 * ctx.length + 4)
    {st : State} {m : Nat} (hsize : st.regs.size = 16)
    (hsp : st.regs[0]? = some (some (BitVec.ofNat 64 m))) (h16 : m % 16 = 8)
    (hlow : c.stackLow + 72 ≤ m) (htop : m + 2048 ≤ c.stackTop)
    {x : Word} (hx : tempVal (BitVec.ofNat 64 m) st src = some x) :
    ∃ st', execSeq c la (printI64 nl src ctx) st = .ok st' ∧ st'.out = (nl, x) :: st.out ∧
      PrintKeptM ctx st st' m := by
  have R := st.rel_view hsize
  have hv : ∀ r : Nat, r < 16 → st.regs[r]? = some (st.view.reg r) := R.regs
  have hsp' : st.view.reg 0 = some (BitVec.ofNat 64 m) := by
    have := hv 0 (by decide); rw [hsp] at this; injection this with e; exact e.symm
  have hm : m < 2 ^ 64 := by have := hc.top; omega
  have hx' : srcVal st.view m src = some x := by
    cases src with
    | reg r => exact hx
    | spill p =>
      simp only [tempVal, slotAddr, ofNat_toNat hm] at hx
      exact hx
  obtain ⟨a', e, K⟩ := a_print_preserves (la := la) hc nl ctx src hsrc hlive st.view m hsp' h16 hlow htop
    x hx' st.out
  obtain ⟨st', es, R', o', hh, hmw⟩ := sim_execSeq R e rfl
  refine ⟨st', es, o', ⟨R'.size, ?_, ?_, ?_, ?_, ?_, ?_, hh, hmw⟩⟩
  · rw [R'.regs 0 (by decide), K.rsp, hv 0 (by decide)]
  · rw [R'.regs 2 (by decide), K.heap, hv 2 (by decide)]
  · rw [R'.regs 3 (by decide), K.free, hv 3 (by decide)]
  · intro i b hib hlt
    rw [R'.regs _ hlt, K.snd i b hib hlt, hv _ hlt]
  · intro i b hib hne hlt
    rw [R'.regs _ hlt, K.fst i b hib hne hlt, hv _ hlt]
  · intro n hn
    rw [R'.mem, K.mem n hn]; rfl

end Restore

end Scc.X86
