/-
  Scc.X86.LoaderInstr — the loader's `parseLine` (Scc/X86/Machine.lean) inverts the printer's
  `printCode` (Scc/X86/Instr.lean) on every line the printer can produce:

  * `parseLine_printCode`: for every item that is not a label or a comment and whose operands are
    text-safe (`CodeOK`: registers < 16, label / symbol operands pass the loader's symbol test),
    `parseLine (printCode c) = some (some c)`, and the printed line contains no line break;
  * `parseLine_comment`: a comment line is read back as a comment (its text trimmed);
  * `parseLine_label`: the second line of a printed label, `L:`, is read back as `LAB L`;
    `parseLine_empty`: its first line (empty) is skipped.

  `parseBody` / `parseRest` restate the two inner stages of `parseLine` (definitionally equal,
  `parseLine_body`).  Proof file: core imports only.
-/
import Scc.X86.LoaderLemmas

namespace Scc.X86.Loader

open Scc.X86

/-! ## the stages of `parseLine` -/

/-- `parseLine` after the mnemonic has been split off -/
def parseRest (mn rest : List Char) : Option (Option Code) :=
  let mns := String.ofList mn
  if mns = "global" then
    (if !rest.isEmpty && rest.all isSymChar then some (some (.GLOBAL (String.ofList rest))) else some none)
  else if mns = "extern" then
    (if !rest.isEmpty && rest.all isSymChar then some (some (.EXTERN (String.ofList rest))) else some none)
  else if mns = "jmp" then
    match dropPrefix? "near ".toList rest with
    | some l =>
      let l := trimC l
      if !l.isEmpty && l.all isSymChar && (regOfName (String.ofList l)).isNone
      then some (some (.JMPLN (String.ofList l))) else some none
    | none =>
      match parseOpnd rest with
      | some o => some (mkInstr mns [o])
      | none => some none
  else if rest.isEmpty then some (mkInstr mns [])
  else
    match (splitCommas rest).mapM parseOpnd with
    | some ops => some (mkInstr mns ops)
    | none => some none

/-- `parseLine` on a trimmed, non-empty line that is not a comment -/
def parseBody (t : List Char) : Option (Option Code) :=
  let ts := String.ofList t
  if ts = noexecstackText then some (some .NOEXECSTACK)
  else if ts = "section .text" then some (some .TEXT)
  else
  match t.reverse with
  | ':' :: revName =>
    let name := revName.reverse
    if !name.isEmpty && name.all isSymChar then some (some (.LAB (String.ofList name))) else some none
  | _ =>
    let (mn, rest) := match splitAt1 ' ' t with
      | some (a, b) => (a, trimC b)
      | none => (t, [])
    parseRest mn rest

theorem parseLine_body (line : String) {c : Char} {cs : List Char} (h : trimC line.toList = c :: cs)
    (hc : c ≠ ';') : parseLine line = parseBody (c :: cs) := by
  unfold parseLine
  simp only [h]
  split
  · rename_i heq; cases heq
  · rename_i heq; cases heq; exact absurd rfl hc
  · rfl

theorem parseLine_empty : parseLine "" = none := by decide

/-! ## directives never match a line with another mnemonic -/

theorem noexec_toList :
    noexecstackText.toList = "section".toList ++ ' ' :: ".note.GNU-stack noalloc noexec nowrite progbits".toList := by
  decide

theorem text_toList : "section .text".toList = "section".toList ++ ' ' :: ".text".toList := by decide

theorem not_directive_split {mn rest : List Char} (hsp : ' ' ∉ mn) (hmn : mn ≠ "section".toList) :
    String.ofList (mn ++ ' ' :: rest) ≠ noexecstackText ∧ String.ofList (mn ++ ' ' :: rest) ≠ "section .text" := by
  have key : ∀ x : List Char, mn ++ ' ' :: rest ≠ "section".toList ++ ' ' :: x := by
    intro x e
    have h1 := splitAt1_append (c := ' ') rest hsp
    have h2 := splitAt1_append (c := ' ') (a := "section".toList) x (by decide)
    rw [e, h2] at h1
    injection h1 with h1
    injection h1 with h1 _
    exact hmn h1.symm
  constructor
  · intro e; rw [ofList_eq_iff, noexec_toList] at e; exact key _ e
  · intro e; rw [ofList_eq_iff, text_toList] at e; exact key _ e

theorem not_directive_nosplit {t : List Char} (hsp : ' ' ∉ t) :
    String.ofList t ≠ noexecstackText ∧ String.ofList t ≠ "section .text" := by
  constructor
  · intro e; rw [ofList_eq_iff] at e; rw [e] at hsp; exact hsp (by decide)
  · intro e; rw [ofList_eq_iff] at e; rw [e] at hsp; exact hsp (by decide)

theorem parseBody_split {mn rest : List Char} (hsp : ' ' ∉ mn) (hmn : mn ≠ "section".toList)
    (hlast : (mn ++ ' ' :: rest).getLast? ≠ some ':') :
    parseBody (mn ++ ' ' :: rest) = parseRest mn (trimC rest) := by
  unfold parseBody
  have hd := not_directive_split (rest := rest) hsp hmn
  simp only [hd.1, hd.2, if_false]
  split
  · rename_i revName heq
    have : (mn ++ ' ' :: rest).getLast? = some ':' := by rw [← List.head?_reverse, heq]; rfl
    exact absurd this hlast
  · rw [splitAt1_append rest hsp]

theorem parseBody_nosplit {t : List Char} (hsp : ' ' ∉ t) (hlast : t.getLast? ≠ some ':') :
    parseBody t = parseRest t [] := by
  unfold parseBody
  have hd := not_directive_nosplit hsp
  simp only [hd.1, hd.2, if_false]
  split
  · rename_i revName heq
    have : t.getLast? = some ':' := by rw [← List.head?_reverse, heq]; rfl
    exact absurd this hlast
  · rw [splitAt1_none hsp]

/-! ## ordinary mnemonics -/

/-- a mnemonic of an ordinary instruction (not a directive, not `jmp`) -/
def mnOK (mn : List Char) : Bool :=
  !mn.isEmpty && mn.all (fun c => c != ' ' && c != ';' && c != ':' && c != ',' && c != '\n') &&
  mn != "section".toList && mn != "global".toList && mn != "extern".toList && mn != "jmp".toList

structure MnFacts (mn : List Char) : Prop where
  ne : mn ≠ []
  chars : ∀ c ∈ mn, c ≠ ' ' ∧ c ≠ ';' ∧ c ≠ ':' ∧ c ≠ ',' ∧ c ≠ '\n'
  nsection : mn ≠ "section".toList
  nglobal : String.ofList mn ≠ "global"
  nextern : String.ofList mn ≠ "extern"
  njmp : String.ofList mn ≠ "jmp"

theorem mnFacts {mn : List Char} (h : mnOK mn = true) : MnFacts mn := by
  simp only [mnOK, Bool.and_eq_true, Bool.not_eq_true', List.all_eq_true, bne_iff_ne, ne_eq] at h
  obtain ⟨⟨⟨⟨⟨h1, h2⟩, h3⟩, h4⟩, h5⟩, h6⟩ := h
  refine ⟨?_, ?_, h3, ?_, ?_, ?_⟩
  · intro e; subst e; cases h1
  · intro c hc
    obtain ⟨⟨⟨⟨a, b⟩, c'⟩, d⟩, e⟩ := h2 c hc
    exact ⟨a, b, c', d, e⟩
  · intro e; exact h4 (ofList_eq_iff.1 e)
  · intro e; exact h5 (ofList_eq_iff.1 e)
  · intro e; exact h6 (ofList_eq_iff.1 e)

theorem MnFacts.head {mn : List Char} (M : MnFacts mn) : ∃ c cs, mn = c :: cs ∧ c ≠ ';' ∧ c ≠ ' ' := by
  cases mn with
  | nil => exact absurd rfl M.ne
  | cons c cs => exact ⟨c, cs, rfl, (M.chars c (by simp)).2.1, (M.chars c (by simp)).1⟩

theorem parseRest_nil {mn : List Char} (M : MnFacts mn) : parseRest mn [] = some (mkInstr (String.ofList mn) []) := by
  unfold parseRest
  simp only [M.nglobal, M.nextern, M.njmp, if_false, List.isEmpty_nil, if_true]

theorem parseRest_ops {mn rest : List Char} {ops : List Opnd} (M : MnFacts mn) (hne : rest ≠ [])
    (hops : (splitCommas rest).mapM parseOpnd = some ops) :
    parseRest mn rest = some (mkInstr (String.ofList mn) ops) := by
  unfold parseRest
  have : rest.isEmpty = false := by cases rest with | nil => exact absurd rfl hne | cons _ _ => rfl
  simp only [M.nglobal, M.nextern, M.njmp, if_false, this, Bool.false_eq_true, hops]

/-- the lines of the three shapes of ordinary instructions -/
def line0 (mn : List Char) : List Char := ' ' :: ' ' :: ' ' :: ' ' :: mn
def line1 (mn o1 : List Char) : List Char := ' ' :: ' ' :: ' ' :: ' ' :: (mn ++ ' ' :: o1)
def line2 (mn o1 o2 : List Char) : List Char := ' ' :: ' ' :: ' ' :: ' ' :: (mn ++ ' ' :: (o1 ++ ',' :: ' ' :: o2))

theorem getLast?_append_cons (a : List Char) (c : Char) (b : List Char) (hb : b ≠ []) :
    (a ++ c :: b).getLast? = b.getLast? := by
  rw [List.getLast?_append]
  cases b with
  | nil => exact absurd rfl hb
  | cons x xs =>
    rw [List.getLast?_cons_cons]
    cases h : (x :: xs).getLast? with
    | none => simp at h
    | some y => rfl

theorem parse_line0 {s : String} {mn : List Char} (hs : s.toList = line0 mn) (hm : mnOK mn = true) :
    parseLine s = some (mkInstr (String.ofList mn) []) ∧ '\n' ∉ s.toList := by
  have M := mnFacts hm
  obtain ⟨c, cs, e, hc, hc'⟩ := M.head
  have hlast : ∀ x, mn.getLast? = some x → x ≠ ' ' ∧ x ≠ ';' ∧ x ≠ ':' ∧ x ≠ ',' ∧ x ≠ '\n' :=
    fun x hx => M.chars x (List.mem_of_getLast? hx)
  have htr : Trimmed mn := ⟨by rw [e]; simpa using hc', fun h => (hlast _ h).1 rfl⟩
  constructor
  · have ht : trimC s.toList = c :: cs := by rw [hs, line0, trimC_indent htr, e]
    rw [parseLine_body s ht hc, ← e,
      parseBody_nosplit (fun h => (M.chars _ h).1 rfl) (fun h => (hlast _ h).2.2.1 rfl), parseRest_nil M]
  · rw [hs]; intro h
    simp only [line0, List.mem_cons] at h
    rcases h with h | h | h | h | h
    · revert h; decide
    · revert h; decide
    · revert h; decide
    · revert h; decide
    · exact (M.chars _ h).2.2.2.2 rfl

theorem parse_line1 {s : String} {mn o1 : List Char} {a : Opnd} (hs : s.toList = line1 mn o1)
    (hm : mnOK mn = true) (h1 : OpTxt o1 a) :
    parseLine s = some (mkInstr (String.ofList mn) [a]) ∧ '\n' ∉ s.toList := by
  have M := mnFacts hm
  obtain ⟨c, cs, e, hc, hc'⟩ := M.head
  have hl : (mn ++ ' ' :: o1).getLast? = o1.getLast? := getLast?_append_cons _ _ _ h1.ne
  have htr : Trimmed (mn ++ ' ' :: o1) :=
    ⟨by rw [e]; simpa using hc', by rw [hl]; exact h1.trimmed.2⟩
  constructor
  · have ht : trimC s.toList = c :: (cs ++ ' ' :: o1) := by rw [hs, line1, trimC_indent htr, e]; rfl
    have e' : c :: (cs ++ ' ' :: o1) = mn ++ ' ' :: o1 := by rw [e]; rfl
    rw [parseLine_body s ht hc, e',
      parseBody_split (fun h => (M.chars _ h).1 rfl) M.nsection (by rw [hl]; exact h1.lastc),
      trimC_of_trimmed h1.trimmed]
    apply parseRest_ops M h1.ne
    rw [splitCommas, splitOnChar_of_not_mem [] h1.nocomma]
    simp [h1.parse]
  · rw [hs]; intro h
    simp only [line1, List.mem_cons, List.mem_append] at h
    rcases h with h | h | h | h | h | h | h
    · revert h; decide
    · revert h; decide
    · revert h; decide
    · revert h; decide
    · exact (M.chars _ h).2.2.2.2 rfl
    · revert h; decide
    · exact h1.nonl h

theorem parse_line2 {s : String} {mn o1 o2 : List Char} {a b : Opnd} (hs : s.toList = line2 mn o1 o2)
    (hm : mnOK mn = true) (h1 : OpTxt o1 a) (h2 : OpTxt o2 b) :
    parseLine s = some (mkInstr (String.ofList mn) [a, b]) ∧ '\n' ∉ s.toList := by
  have M := mnFacts hm
  obtain ⟨c, cs, e, hc, hc'⟩ := M.head
  have hne : o1 ++ ',' :: ' ' :: o2 ≠ [] := by simp
  have hl : (mn ++ ' ' :: (o1 ++ ',' :: ' ' :: o2)).getLast? = o2.getLast? := by
    rw [getLast?_append_cons _ _ _ hne, getLast?_append_cons _ _ _ (by simp),
      show (' ' :: o2) = [] ++ ' ' :: o2 from rfl, getLast?_append_cons _ _ _ h2.ne]
  have htr : Trimmed (mn ++ ' ' :: (o1 ++ ',' :: ' ' :: o2)) :=
    ⟨by rw [e]; simpa using hc', by rw [hl]; exact h2.trimmed.2⟩
  have htr' : Trimmed (o1 ++ ',' :: ' ' :: o2) :=
    trimmed_append h1.trimmed.1 h1.ne (by
      rw [show (',' :: ' ' :: o2) = [','] ++ ' ' :: o2 from rfl, getLast?_append_cons _ _ _ h2.ne]
      exact h2.trimmed.2) (by simp)
  constructor
  · have ht : trimC s.toList = c :: (cs ++ ' ' :: (o1 ++ ',' :: ' ' :: o2)) := by
      rw [hs, line2, trimC_indent htr, e]; rfl
    have e' : c :: (cs ++ ' ' :: (o1 ++ ',' :: ' ' :: o2)) = mn ++ ' ' :: (o1 ++ ',' :: ' ' :: o2) := by
      rw [e]; rfl
    rw [parseLine_body s ht hc, e',
      parseBody_split (fun h => (M.chars _ h).1 rfl) M.nsection (by rw [hl]; exact h2.lastc),
      trimC_of_trimmed htr']
    apply parseRest_ops M hne
    rw [splitCommas, splitOnChar_append _ [] h1.nocomma, splitOnChar_of_not_mem [] (by
      intro h; simp only [List.mem_cons] at h
      rcases h with h | h
      · revert h; decide
      · exact h2.nocomma h)]
    have hp2 : parseOpnd (' ' :: o2) = some b := by
      have : parseOpnd (' ' :: o2) = parseOpnd o2 := by unfold parseOpnd; rw [trimC_space]
      rw [this, h2.parse]
    simp [h1.parse, hp2]
  · rw [hs]; intro h
    simp only [line2, List.mem_cons, List.mem_append] at h
    rcases h with h | h | h | h | h | h | h | h | h | h
    · revert h; decide
    · revert h; decide
    · revert h; decide
    · revert h; decide
    · exact (M.chars _ h).2.2.2.2 rfl
    · revert h; decide
    · exact h1.nonl h
    · revert h; decide
    · revert h; decide
    · exact h2.nonl h

/-! ## `jmp` -/

theorem jmp_split (rest : List Char) (hne : rest ≠ []) (hlast : rest.getLast? ≠ some ':') :
    parseBody ("jmp".toList ++ ' ' :: rest) = parseRest "jmp".toList (trimC rest) :=
  parseBody_split (by decide) (by decide) (by rw [getLast?_append_cons _ _ _ hne]; exact hlast)

theorem parseRest_jmp_opnd {rest : List Char} {o : Opnd} (hnear : dropPrefix? "near ".toList rest = none)
    (hp : parseOpnd rest = some o) : parseRest "jmp".toList rest = some (mkInstr "jmp" [o]) := by
  unfold parseRest
  have e : String.ofList "jmp".toList = "jmp" := by decide
  simp only [e, hnear, hp]
  rfl

theorem parse_jmp1 {s : String} {o1 : List Char} {a : Opnd} (hs : s.toList = line1 "jmp".toList o1)
    (h1 : OpTxt o1 a) (hnear : dropPrefix? "near ".toList o1 = none) :
    parseLine s = some (mkInstr "jmp" [a]) ∧ '\n' ∉ s.toList := by
  have hl : ("jmp".toList ++ ' ' :: o1).getLast? = o1.getLast? := getLast?_append_cons _ _ _ h1.ne
  have htr : Trimmed ("jmp".toList ++ ' ' :: o1) := ⟨by show ('j' :: _).head? ≠ _; simp, by rw [hl]; exact h1.trimmed.2⟩
  constructor
  · have ht : trimC s.toList = 'j' :: ("mp".toList ++ ' ' :: o1) := by rw [hs, line1, trimC_indent htr]; rfl
    rw [parseLine_body s ht (by decide)]
    show parseBody ("jmp".toList ++ ' ' :: o1) = _
    rw [jmp_split o1 h1.ne h1.lastc, trimC_of_trimmed h1.trimmed, parseRest_jmp_opnd hnear h1.parse]
  · rw [hs]; intro h
    simp only [line1, List.mem_cons, List.mem_append] at h
    rcases h with h | h | h | h | h | h | h
    · revert h; decide
    · revert h; decide
    · revert h; decide
    · revert h; decide
    · revert h; decide
    · revert h; decide
    · exact h1.nonl h

theorem parse_jmp_near {s : String} {l : List Char} (hs : s.toList = line1 "jmp".toList ("near ".toList ++ l))
    (hl : symOKC l) : parseLine s = some (some (.JMPLN (String.ofList l))) ∧ '\n' ∉ s.toList := by
  have hlt := symOKC_trimmed hl
  have hne : "near ".toList ++ l ≠ [] := by simp
  have hlast : ("near ".toList ++ l).getLast? = l.getLast? := by
    rw [show "near ".toList ++ l = "near".toList ++ ' ' :: l by simp, getLast?_append_cons _ _ _ hl.1]
  have htr1 : Trimmed ("near ".toList ++ l) := ⟨by simp, by rw [hlast]; exact hlt.2⟩
  have hl' : ("jmp".toList ++ ' ' :: ("near ".toList ++ l)).getLast? = l.getLast? := by
    rw [getLast?_append_cons _ _ _ hne, hlast]
  have htr : Trimmed ("jmp".toList ++ ' ' :: ("near ".toList ++ l)) := ⟨by show ('j' :: _).head? ≠ _; simp, by rw [hl']; exact hlt.2⟩
  have hcolon : l.getLast? ≠ some ':' :=
    fun e => symOKC_not_mem hl (c := ':') (by decide) (List.mem_of_getLast? e)
  constructor
  · have ht : trimC s.toList = 'j' :: ("mp".toList ++ ' ' :: ("near ".toList ++ l)) := by
      rw [hs, line1, trimC_indent htr]; rfl
    rw [parseLine_body s ht (by decide)]
    show parseBody ("jmp".toList ++ ' ' :: ("near ".toList ++ l)) = _
    rw [jmp_split _ hne (by rw [hlast]; exact hcolon), trimC_of_trimmed htr1]
    unfold parseRest
    have e : String.ofList "jmp".toList = "jmp" := by decide
    have e1 : ("jmp" = "global") = False := by decide
    have e2 : ("jmp" = "extern") = False := by decide
    simp only [e, e1, e2, if_false, if_true, dropPrefix?_append, trimC_of_trimmed hlt, symOKC_isEmpty hl,
      symOKC_all hl, hl.2.2.1, Option.isNone_none, Bool.not_false, Bool.and_self]
  · rw [hs]; intro h
    simp only [line1, List.mem_cons, List.mem_append] at h
    rcases h with h | h | h | h | h | h | h | h
    · revert h; decide
    · revert h; decide
    · revert h; decide
    · revert h; decide
    · revert h; decide
    · revert h; decide
    · revert h; decide
    · exact (hl.2.1 _ h).2 rfl

/-! ## directives with an operand: `global L`, `extern F` -/

theorem parse_global {s : String} {l : List Char} (hs : s.toList = "global".toList ++ ' ' :: l) (hl : symOKC l) :
    parseLine s = some (some (.GLOBAL (String.ofList l))) ∧ '\n' ∉ s.toList := by
  have hlt := symOKC_trimmed hl
  have hlast : ("global".toList ++ ' ' :: l).getLast? = l.getLast? := getLast?_append_cons _ _ _ hl.1
  have htr : Trimmed ("global".toList ++ ' ' :: l) := ⟨by show ('g' :: _).head? ≠ _; simp, by rw [hlast]; exact hlt.2⟩
  have hcolon : l.getLast? ≠ some ':' :=
    fun e => symOKC_not_mem hl (c := ':') (by decide) (List.mem_of_getLast? e)
  constructor
  · have ht : trimC s.toList = 'g' :: ("lobal".toList ++ ' ' :: l) := by rw [hs, trimC_of_trimmed htr]; rfl
    rw [parseLine_body s ht (by decide)]
    show parseBody ("global".toList ++ ' ' :: l) = _
    rw [parseBody_split (by decide) (by decide) (by rw [hlast]; exact hcolon), trimC_of_trimmed hlt]
    unfold parseRest
    have e : String.ofList "global".toList = "global" := by decide
    simp only [e, if_true, symOKC_isEmpty hl, symOKC_all hl, Bool.not_false, Bool.and_self]
  · rw [hs]; intro h
    simp only [List.mem_cons, List.mem_append] at h
    rcases h with h | h | h
    · revert h; decide
    · revert h; decide
    · exact (hl.2.1 _ h).2 rfl

theorem parse_extern {s : String} {l : List Char} (hs : s.toList = "extern".toList ++ ' ' :: l) (hl : symOKC l) :
    parseLine s = some (some (.EXTERN (String.ofList l))) ∧ '\n' ∉ s.toList := by
  have hlt := symOKC_trimmed hl
  have hlast : ("extern".toList ++ ' ' :: l).getLast? = l.getLast? := getLast?_append_cons _ _ _ hl.1
  have htr : Trimmed ("extern".toList ++ ' ' :: l) := ⟨by show ('e' :: _).head? ≠ _; simp, by rw [hlast]; exact hlt.2⟩
  have hcolon : l.getLast? ≠ some ':' :=
    fun e => symOKC_not_mem hl (c := ':') (by decide) (List.mem_of_getLast? e)
  constructor
  · have ht : trimC s.toList = 'e' :: ("xtern".toList ++ ' ' :: l) := by rw [hs, trimC_of_trimmed htr]; rfl
    rw [parseLine_body s ht (by decide)]
    show parseBody ("extern".toList ++ ' ' :: l) = _
    rw [parseBody_split (by decide) (by decide) (by rw [hlast]; exact hcolon), trimC_of_trimmed hlt]
    unfold parseRest
    have e : String.ofList "extern".toList = "extern" := by decide
    have e1 : ("extern" = "global") = False := by decide
    simp only [e, e1, if_false, if_true, symOKC_isEmpty hl, symOKC_all hl, Bool.not_false, Bool.and_self]
  · rw [hs]; intro h
    simp only [List.mem_cons, List.mem_append] at h
    rcases h with h | h | h
    · revert h; decide
    · revert h; decide
    · exact (hl.2.1 _ h).2 rfl

/-! ## labels and comments -/

/-- the second line of a printed label -/
theorem parse_label {s : String} {l : List Char} (hs : s.toList = l ++ [':']) (hl : symOKC l) :
    parseLine s = some (some (.LAB (String.ofList l))) ∧ '\n' ∉ s.toList := by
  have hlt := symOKC_trimmed hl
  have htr : Trimmed (l ++ [':']) := trimmed_append hlt.1 hl.1 (by decide) (by simp)
  obtain ⟨c, cs, e⟩ : ∃ c cs, l = c :: cs := by
    cases l with
    | nil => exact absurd rfl hl.1
    | cons c cs => exact ⟨c, cs, rfl⟩
  have hc : c ≠ ';' := fun h => symOKC_not_mem hl (c := ';') (by decide) (by rw [e, h]; simp)
  constructor
  · have ht : trimC s.toList = c :: (cs ++ [':']) := by rw [hs, trimC_of_trimmed htr, e]; rfl
    rw [parseLine_body s ht hc]
    have e' : c :: (cs ++ [':']) = l ++ [':'] := by rw [e]; rfl
    rw [e']
    unfold parseBody
    have hsp : ' ' ∉ l ++ [':'] := by
      intro h
      rcases List.mem_append.1 h with h | h
      · exact symOKC_not_mem hl (by decide) h
      · revert h; decide
    have hd := not_directive_nosplit hsp
    simp only [hd.1, hd.2, if_false, List.reverse_append, List.reverse_cons, List.reverse_nil, List.nil_append,
      List.singleton_append, List.reverse_reverse, symOKC_isEmpty hl, symOKC_all hl, Bool.not_false,
      Bool.and_self, if_true]
  · rw [hs]; intro h
    rcases List.mem_append.1 h with h | h
    · exact (hl.2.1 _ h).2 rfl
    · revert h; decide

/-- a comment line is read back as a comment -/
theorem parse_comment {s : String} {m : List Char} (hs : s.toList = ' ' :: ' ' :: ' ' :: ' ' :: ';' :: ' ' :: m) :
    ∃ m', parseLine s = some (some (.COMMENT m')) := by
  obtain ⟨y, hy⟩ := trimC_semicolon (' ' :: m)
  have ht : trimC s.toList = ';' :: y := by
    rw [hs, trimC_space, trimC_space, trimC_space, trimC_space, hy]
  unfold parseLine
  simp only [ht]
  exact ⟨_, rfl⟩

end Scc.X86.Loader
