/-
  Scc.X86.Machine — SPEC: an x86-64 machine that executes the assembly TEXT emitted by the compiler
  (harness line `S7x`, NASM syntax as printed by /repo/lang/axcut2x86_64/src/code.rs `Print for Code`),
  following the common contract /verif/lean/MACHINES.md:

  * undefined-value tracking (registers, flags, stack memory), memory regions (zero-filled heap,
    undefined stack, everything else out of bounds), 8-byte aligned 8-byte accesses only.
    DEVIATION from the letter of MACHINES.md, forced by the real code: pure data movement
    (`mov r,r`, `mov r,[m]`, `mov [m],r`, `push`, `pop`) COPIES a possibly undefined value instead of
    faulting (the emitted `div`/`rem` sequence backs up a dead `rax`, parallel moves copy the unused
    first temporary of integers, ...); every instruction whose behaviour depends on a value
    (arithmetic, compare, address computation, indirect jump, print argument, result, callee-saved
    check) faults with `read-undefined` on an undefined one, and undefined values cannot be stored
    to the heap.  So "the run never depends on an undefined value" is still what `done` certifies;
  * code layout: `jmp near L` has size 5, every other instruction size 3, labels / comments /
    directives size 0; `lea r, [rel L]` loads the address of L; indirect jumps must hit the start of
    an instruction;
  * System V entry (`rdi` = heap base, up to 5 integer arguments in `rsi rdx rcx r8 r9`, callee-saved
    registers hold sentinels, `rsp` = stackTop - 8 pointing at a return sentinel), external calls
    `print_i64` / `println_i64` (alignment check, trace, poisoning of caller-saved registers, flags
    and the stack below `rsp`), exit checks at `ret` (calling convention);
  * monitors: `heap` (heap invariant `Scc.Heap.invCheckFn` at every `; #ctx [...]` comment),
    `wf` (`wfCheck`, property C14), `cc` (always on).

  Registers are numbered as the backend numbers them (`Register(n)`, config.rs `Print for Register`):
  0 rsp, 1 rcx, 2 rbx, 3 rbp, 4 rax, 5 rdx, 6 rsi, 7 rdi, 8..15 r8..r15.
  The parser produces the backend's own instruction type `Scc.X86.Code` (Instr.lean), i.e. it is the
  inverse of the printer; it accepts exactly the instruction forms the backend can print.
  Core/Std imports only; executable; total (fuel).
-/
import Std.Data.HashMap
import Scc.X86.Instr
import Scc.X86.Consts
import Scc.Heap.Model

namespace Scc.X86

abbrev Word := BitVec 64

/-! ## Parser: one line of text ↦ `Code` -/

def regNames : List String :=
  ["rsp", "rcx", "rbx", "rbp", "rax", "rdx", "rsi", "rdi",
   "r8", "r9", "r10", "r11", "r12", "r13", "r14", "r15"]

def regOfName (s : String) : Option Reg :=
  let i := regNames.idxOf s
  if i < 16 then some i else none

def trimL : List Char → List Char
  | ' ' :: cs => trimL cs
  | cs => cs

def trimC (cs : List Char) : List Char := (trimL (trimL cs).reverse).reverse

/-- Split at the first occurrence of `c` (which is dropped). -/
def splitAt1 (c : Char) : List Char → Option (List Char × List Char)
  | [] => none
  | x :: xs =>
    if x = c then some ([], xs)
    else match splitAt1 c xs with
      | some (a, b) => some (x :: a, b)
      | none => none

def dropPrefix? : List Char → List Char → Option (List Char)
  | [], cs => some cs
  | _ :: _, [] => none
  | p :: ps, c :: cs => if p = c then dropPrefix? ps cs else none

def isDigitStr (cs : List Char) : Bool := !cs.isEmpty && cs.all Char.isDigit

def natOfDigits (cs : List Char) : Nat := cs.foldl (fun n c => 10 * n + (c.toNat - '0'.toNat)) 0

/-- Signed decimal (`-?[0-9]+`), as printed by `Immediate`. -/
def parseInt (cs : List Char) : Option Int :=
  match cs with
  | '-' :: ds => if isDigitStr ds then some (-(natOfDigits ds : Int)) else none
  | ds => if isDigitStr ds then some (natOfDigits ds : Int) else none

/-- Operands as they appear in the text. -/
inductive Opnd where
  | reg (r : Reg)
  | mem (r : Reg) (i : Int)      -- `[r + i]`
  | qmem (r : Reg) (i : Int)     -- `qword [r + i]`
  | rel (l : String)             -- `[rel L]`
  | imm (i : Int)
  | sym (s : String)
  deriving Repr, DecidableEq

def isSymChar (c : Char) : Bool := c ≠ ' ' && c ≠ ',' && c ≠ '[' && c ≠ ']' && c ≠ ':' && c ≠ ';'

/-- `r + i` / `r +i` (inside the brackets). -/
def parseMemInner (cs : List Char) : Option (Reg × Int) :=
  match splitAt1 '+' cs with
  | none => none
  | some (a, b) =>
    match regOfName (String.ofList (trimC a)), parseInt (trimC b) with
    | some r, some i => some (r, i)
    | _, _ => none

def parseBracket (cs : List Char) : Option (List Char) :=
  match cs with
  | '[' :: rest =>
    match rest.reverse with
    | ']' :: inner => some inner.reverse
    | _ => none
  | _ => none

def parseOpnd (cs0 : List Char) : Option Opnd :=
  let cs := trimC cs0
  match dropPrefix? "qword ".toList cs with
  | some rest =>
    match parseBracket (trimC rest) with
    | some inner => (parseMemInner inner).map (fun (r, i) => .qmem r i)
    | none => none
  | none =>
    match parseBracket cs with
    | some inner =>
      match dropPrefix? "rel ".toList inner with
      | some l =>
        let l := trimC l
        if !l.isEmpty && l.all isSymChar then some (.rel (String.ofList l)) else none
      | none => (parseMemInner inner).map (fun (r, i) => .mem r i)
    | none =>
      match regOfName (String.ofList cs) with
      | some r => some (.reg r)
      | none =>
        match parseInt cs with
        | some i => some (.imm i)
        | none => if !cs.isEmpty && cs.all isSymChar then some (.sym (String.ofList cs)) else none

/-- Split on every occurrence of `c` (`cur` = current piece, reversed). -/
def splitOnChar (c : Char) : List Char → List Char → List (List Char)
  | [], cur => [cur.reverse]
  | x :: xs, cur => if x = c then cur.reverse :: splitOnChar c xs [] else splitOnChar c xs (x :: cur)

/-- Split on commas (brackets never contain commas in this syntax). -/
def splitCommas (cs : List Char) : List (List Char) := splitOnChar ',' cs []

/-- Instruction forms, inverse of `printCode`. -/
def mkInstr (mn : String) (ops : List Opnd) : Option Code :=
  match mn, ops with
  | "add", [.reg r, .reg r1] => some (.ADD r r1)
  | "add", [.reg r, .mem r1 i] => some (.ADDRM r r1 i)
  | "add", [.mem r1 i, .reg r] => some (.ADDMR r1 i r)
  | "add", [.reg r, .imm i] => some (.ADDI r i)
  | "add", [.qmem r i1, .imm i2] => some (.ADDIM r i1 i2)
  | "sub", [.reg r, .reg r1] => some (.SUB r r1)
  | "sub", [.reg r, .mem r1 i] => some (.SUBRM r r1 i)
  | "sub", [.mem r1 i, .reg r] => some (.SUBMR r1 i r)
  | "sub", [.reg r, .imm i] => some (.SUBI r i)
  | "imul", [.reg r, .reg r1] => some (.IMUL r r1)
  | "imul", [.reg r, .mem r1 i] => some (.IMULRM r r1 i)
  | "imul", [.mem r1 i, .reg r] => some (.IMULMR r1 i r)
  | "idiv", [.reg r] => some (.IDIV r)
  | "idiv", [.qmem r i] => some (.IDIVM r i)
  | "cqo", [] => some .CQO
  | "jmp", [.reg r] => some (.JMP r)
  | "jmp", [.sym l] => some (.JMPL l)
  | "lea", [.reg r, .rel l] => some (.LEAL r l)
  | "mov", [.reg r, .reg r1] => some (.MOV r r1)
  | "mov", [.mem r1 i, .reg r] => some (.MOVS r r1 i)
  | "mov", [.reg r, .mem r1 i] => some (.MOVL r r1 i)
  | "mov", [.reg r, .imm i] => some (.MOVI r i)
  | "mov", [.qmem r i1, .imm i2] => some (.MOVIM r i1 i2)
  | "cmp", [.reg r, .reg r1] => some (.CMP r r1)
  | "cmp", [.reg r, .mem r1 i] => some (.CMPRM r r1 i)
  | "cmp", [.mem r i, .reg r1] => some (.CMPMR r i r1)
  | "cmp", [.reg r, .imm i] => some (.CMPI r i)
  | "cmp", [.qmem r i1, .imm i2] => some (.CMPIM r i1 i2)
  | "je", [.sym l] => some (.JEL l)
  | "jne", [.sym l] => some (.JNEL l)
  | "jl", [.sym l] => some (.JLL l)
  | "jle", [.sym l] => some (.JLEL l)
  | "jg", [.sym l] => some (.JGL l)
  | "jge", [.sym l] => some (.JGEL l)
  | "push", [.reg r] => some (.PUSH r)
  | "pop", [.reg r] => some (.POP r)
  | "call", [.sym f] => some (.CALL f)
  | "ret", [] => some .RET
  | _, _ => none

def noexecstackText : String := "section .note.GNU-stack noalloc noexec nowrite progbits"

/-- One line of text. `none` = blank line (skipped); `some none` = does not parse. -/
def parseLine (line : String) : Option (Option Code) :=
  let t := trimC line.toList
  match t with
  | [] => none
  | ';' :: rest =>
    -- comment; the printer writes `; <msg>`
    some (some (.COMMENT (String.ofList (match rest with | ' ' :: m => m | m => m))))
  | _ =>
    let ts := String.ofList t
    if ts = noexecstackText then some (some .NOEXECSTACK)
    else if ts = "section .text" then some (some .TEXT)
    else
    match t.reverse with
    | ':' :: revName =>
      let name := revName.reverse
      if !name.isEmpty && name.all isSymChar then some (some (.LAB (String.ofList name))) else some none
    | _ =>
      let (mn, rest) := match splitAt1 ' ' t with
        | some (a, b) => (a, trimC b)
        | none => (t, [])
      let mns := String.ofList mn
      if mns = "global" then
        (if !rest.isEmpty && rest.all isSymChar then some (some (.GLOBAL (String.ofList rest))) else some none)
      else if mns = "extern" then
        (if !rest.isEmpty && rest.all isSymChar then some (some (.EXTERN (String.ofList rest))) else some none)
      else if mns = "jmp" then
        match dropPrefix? "near ".toList rest with
        | some l =>
          let l := trimC l
          if !l.isEmpty && l.all isSymChar && (regOfName (String.ofList l)).isNone
          then some (some (.JMPLN (String.ofList l))) else some none
        | none =>
          match parseOpnd rest with
          | some o => some (mkInstr mns [o])
          | none => some none
      else if rest.isEmpty then some (mkInstr mns [])
      else
        match (splitCommas rest).mapM parseOpnd with
        | some ops => some (mkInstr mns ops)
        | none => some none

/-- Whole text ↦ items with their 1-based line numbers, or the first line that does not parse. -/
def parseLines : List String → Nat → List (Code × Nat) → Except (Nat × String) (List (Code × Nat))
  | [], _, acc => .ok acc.reverse
  | l :: ls, n, acc =>
    match parseLine l with
    | none => parseLines ls (n + 1) acc
    | some none => .error (n, l)
    | some (some c) => parseLines ls (n + 1) ((c, n) :: acc)

def parseText (text : String) : Except (Nat × String) (List (Code × Nat)) :=
  parseLines (text.splitOn "\n") 1 []

/-! ## Layout -/

/-- Size in bytes of an item in the model's layout (MACHINES.md): `jmp near` 5 (its architectural
size = the stride of jump tables), every other instruction 3, labels/comments/directives 0. -/
def codeSize : Code → Nat
  | .JMPLN _ => 5
  | .LAB _ | .NOEXECSTACK | .TEXT | .GLOBAL _ | .EXTERN _ | .COMMENT _ => 0
  | _ => 3

/-- Addresses of the items of `cs` when the first one is placed at `a`. -/
def layoutFrom : Nat → List Code → List Nat
  | _, [] => []
  | a, c :: cs => a :: layoutFrom (a + codeSize c) cs

/-- Machine configuration: where things live. -/
structure MachCfg where
  codeBase : Nat := 0x400000
  heapBase : Nat := 0x10000000
  heapBytes : Nat := 0x2000000          -- 32 MiB, as the C driver allocates
  stackLow : Nat := 0x7ffe0000
  stackTop : Nat := 0x7fff0000
  deriving Repr

structure Prog where
  code : Array Code
  line : Array Nat                        -- text line of each item
  addr : Array Nat                        -- byte address of each item
  labelIdx : Std.HashMap String Nat       -- label ↦ index of its (first) `LAB` item
  addrIdx : Std.HashMap Nat Nat           -- address ↦ index of the instruction (size > 0) starting there

def mkLabelIdx (cs : List Code) : Std.HashMap String Nat :=
  (cs.zipIdx.foldl (fun (m : Std.HashMap String Nat) (ci : Code × Nat) =>
    match ci.1 with
    | .LAB l => if m.contains l then m else m.insert l ci.2
    | _ => m) ∅)

def mkAddrIdx (cs : List Code) (addrs : List Nat) : Std.HashMap Nat Nat :=
  ((cs.zip addrs).zipIdx.foldl (fun (m : Std.HashMap Nat Nat) (cai : (Code × Nat) × Nat) =>
    if codeSize cai.1.1 = 0 then m else m.insert cai.1.2 cai.2) ∅)

def mkProg (cfg : MachCfg) (items : List (Code × Nat)) : Prog :=
  let cs := items.map (·.1)
  let addrs := layoutFrom cfg.codeBase cs
  { code := cs.toArray, line := (items.map (·.2)).toArray, addr := addrs.toArray,
    labelIdx := mkLabelIdx cs, addrIdx := mkAddrIdx cs addrs }

/-- Address of a label = address of the item that defines it. -/
def Prog.labelAddr (p : Prog) (l : String) : Option Nat :=
  match p.labelIdx[l]? with
  | some i => p.addr[i]?
  | none => none

/-! ## State -/

structure State where
  /-- 16 registers, `none` = undefined -/
  regs : Array (Option Word)
  /-- operands of the last `cmp`, or undefined -/
  flags : Option (Word × Word)
  /-- written heap words (unwritten heap words read 0) -/
  heapMem : Std.HashMap Nat Word
  /-- defined stack words (all others are undefined) -/
  stackMem : Std.HashMap Nat Word
  /-- index of the next item -/
  pc : Nat
  /-- trace of external print calls, most recent first: (newline?, argument) -/
  out : List (Bool × Word)
  /-- number of heap bytes below the end of the highest word ever stored to (0 = nothing stored) -/
  maxHeapWritten : Nat
  /-- executed instructions (labels, comments, directives not counted) -/
  steps : Nat

abbrev M := Except String

/-- Raw register read: the possibly undefined contents (used by data movement only). -/
def rdRaw (s : State) (r : Reg) : M (Option Word) :=
  match s.regs[r]? with
  | some v => .ok v
  | none => .error s!"bad-register {r}"

/-- Register read by an instruction whose behaviour depends on the value: must be defined. -/
def rd (s : State) (r : Reg) : M Word :=
  match s.regs[r]? with
  | some (some v) => .ok v
  | some none => .error s!"read-undefined {regName r}"
  | none => .error s!"bad-register {r}"

def wrRaw (s : State) (r : Reg) (v : Option Word) : M State :=
  if r < s.regs.size then .ok { s with regs := s.regs.set! r v }
  else .error s!"bad-register {r}"

def wr (s : State) (r : Reg) (v : Word) : M State := wrRaw s r (some v)

def inHeap (c : MachCfg) (n : Nat) : Bool := c.heapBase ≤ n && n + 8 ≤ c.heapBase + c.heapBytes
def inStack (c : MachCfg) (n : Nat) : Bool := c.stackLow ≤ n && n + 8 ≤ c.stackTop

/-- Raw load: heap words are always defined (zero-filled), stack words may be undefined. -/
def loadWordRaw (c : MachCfg) (s : State) (a : Word) : M (Option Word) :=
  let n := a.toNat
  if n % 8 ≠ 0 then .error s!"unaligned {n}"
  else if inHeap c n then .ok (some (s.heapMem.getD n 0))
  else if inStack c n then .ok s.stackMem[n]?
  else .error s!"oob {n}"

/-- Load by an instruction whose behaviour depends on the value: must be defined. -/
def loadWord (c : MachCfg) (s : State) (a : Word) : M Word :=
  match loadWordRaw c s a with
  | .ok (some v) => .ok v
  | .ok none => .error s!"read-undefined [{a.toNat}]"
  | .error e => .error e

/-- Raw store: an undefined value may be stored to the stack (the word becomes undefined) but not
to the heap (heap words carry no definedness). -/
def storeWordRaw (c : MachCfg) (s : State) (a : Word) (v : Option Word) : M State :=
  let n := a.toNat
  if n % 8 ≠ 0 then .error s!"unaligned {n}"
  else if inHeap c n then
    match v with
    | some w => .ok { s with heapMem := s.heapMem.insert n w,
                             maxHeapWritten := max s.maxHeapWritten (n + 8 - c.heapBase) }
    | none => .error s!"store-undefined-to-heap {n}"
  else if inStack c n then
    .ok { s with stackMem := match v with
                             | some w => s.stackMem.insert n w
                             | none => s.stackMem.erase n }
  else .error s!"oob {n}"

def storeWord (c : MachCfg) (s : State) (a : Word) (v : Word) : M State := storeWordRaw c s a (some v)

/-- Immediates and displacements are sign-extended to 64 bits.  Every form except `mov r64, imm64`
encodes them in 32 bits: outside that range the instruction does not exist.
(`fitsI32` / `fitsI64` are defined in Instr.lean, shared with the backend model.) -/
def imm32 (i : Int) : M Word :=
  if fitsI32 i then .ok (BitVec.ofInt 64 i) else .error s!"imm-out-of-range {i}"

/-- Effective address `[r + i]`. -/
def ea (s : State) (r : Reg) (i : Int) : M Word :=
  match rd s r, imm32 i with
  | .ok b, .ok d => .ok (b + d)
  | .error e, _ => .error e
  | _, .error e => .error e

/-- A location: register or memory operand. -/
inductive Loc where
  | r (r : Reg)
  | m (base : Reg) (disp : Int)

def readLoc (c : MachCfg) (s : State) : Loc → M Word
  | .r r => rd s r
  | .m b d => match ea s b d with
    | .ok a => loadWord c s a
    | .error e => .error e

def writeLoc (c : MachCfg) (s : State) (l : Loc) (v : Word) : M State :=
  match l with
  | .r r => wr s r v
  | .m b d => match ea s b d with
    | .ok a => storeWord c s a v
    | .error e => .error e

/-- Source operand: location or 32-bit immediate. -/
inductive Src where
  | loc (l : Loc)
  | imm (i : Int)

def readSrc (c : MachCfg) (s : State) : Src → M Word
  | .loc l => readLoc c s l
  | .imm i => imm32 i

/-- `dst := op dst src`; arithmetic leaves the flags undefined (the model never lets a jump depend
on flags set by anything but `cmp`). -/
def alu (c : MachCfg) (op : Word → Word → Word) (s : State) (dst : Loc) (src : Src) : M State :=
  match readLoc c s dst with
  | .error e => .error e
  | .ok a =>
    match readSrc c s src with
    | .error e => .error e
    | .ok b =>
      match writeLoc c s dst (op a b) with
      | .error e => .error e
      | .ok s1 => .ok { s1 with flags := none }

/-- `cmp a, b` records its operands. -/
def cmpOp (c : MachCfg) (s : State) (a : Loc) (b : Src) : M State :=
  match readLoc c s a with
  | .error e => .error e
  | .ok x =>
    match readSrc c s b with
    | .error e => .error e
    | .ok y => .ok { s with flags := some (x, y) }

def minInt64 : Word := BitVec.ofNat 64 (2 ^ 63)

/-- `idiv src`: signed division of rdx:rax (required to be the sign extension of rax, as `cqo`
establishes) by `src`; quotient (truncated) to rax, remainder (sign of the dividend) to rdx. -/
def idivOp (c : MachCfg) (s : State) (src : Loc) : M State :=
  match rd s 4, rd s 5, readLoc c s src with
  | .error e, _, _ => .error e
  | _, .error e, _ => .error e
  | _, _, .error e => .error e
  | .ok a, .ok d, .ok b =>
    if d ≠ (if a.slt 0 then BitVec.ofInt 64 (-1) else 0) then .error "idiv-rdx-not-sign-extension"
    else if b = 0 then .error "div-by-zero"
    else if a = minInt64 && b = BitVec.ofInt 64 (-1) then .error "div-overflow"
    else
      match wr s 4 (a.sdiv b) with
      | .error e => .error e
      | .ok s1 =>
        match wr s1 5 (a.srem b) with
        | .error e => .error e
        | .ok s2 => .ok { s2 with flags := none }

/-- What happens to control after an instruction. -/
inductive Ctl where
  | next
  | jumpLabel (l : String)
  | jumpAddr (a : Nat)
  | callExt (f : String)
  | ret
  deriving Repr, DecidableEq

def jcc (s : State) (cond : Word → Word → Bool) (l : String) : M (State × Ctl) :=
  match s.flags with
  | none => .error "read-undefined flags"
  | some (a, b) => .ok (s, if cond a b then .jumpLabel l else .next)

def seqNext (r : M State) : M (State × Ctl) :=
  match r with
  | .ok s => .ok (s, .next)
  | .error e => .error e

/-- Semantics of one item, up to the resolution of control transfers (`labelAddr` gives `lea` the
address of a label). -/
def execCode (c : MachCfg) (labelAddr : String → Option Nat) (code : Code) (s : State) : M (State × Ctl) :=
  match code with
  | .ADD r r1 => seqNext (alu c (· + ·) s (.r r) (.loc (.r r1)))
  | .ADDRM r r1 i => seqNext (alu c (· + ·) s (.r r) (.loc (.m r1 i)))
  | .ADDMR r1 i r => seqNext (alu c (· + ·) s (.m r1 i) (.loc (.r r)))
  | .ADDI r i => seqNext (alu c (· + ·) s (.r r) (.imm i))
  | .ADDIM r i1 i2 => seqNext (alu c (· + ·) s (.m r i1) (.imm i2))
  | .SUB r r1 => seqNext (alu c (· - ·) s (.r r) (.loc (.r r1)))
  | .SUBRM r r1 i => seqNext (alu c (· - ·) s (.r r) (.loc (.m r1 i)))
  | .SUBMR r1 i r => seqNext (alu c (· - ·) s (.m r1 i) (.loc (.r r)))
  | .SUBI r i => seqNext (alu c (· - ·) s (.r r) (.imm i))
  | .IMUL r r1 => seqNext (alu c (· * ·) s (.r r) (.loc (.r r1)))
  | .IMULRM r r1 i => seqNext (alu c (· * ·) s (.r r) (.loc (.m r1 i)))
  -- `imul [mem], reg` is not an x86-64 instruction (the destination of `imul` is a register)
  | .IMULMR _ _ _ => .error "illegal-instruction imul-to-memory"
  | .IDIV r => seqNext (idivOp c s (.r r))
  | .IDIVM r i => seqNext (idivOp c s (.m r i))
  | .CQO =>
    match rd s 4 with
    | .error e => .error e
    | .ok a => seqNext (wr s 5 (if a.slt 0 then BitVec.ofInt 64 (-1) else 0))
  | .JMP r =>
    match rd s r with
    | .error e => .error e
    | .ok a => .ok (s, .jumpAddr a.toNat)
  | .JMPL l => .ok (s, .jumpLabel l)
  | .JMPLN l => .ok (s, .jumpLabel l)
  | .LEAL r l =>
    match labelAddr l with
    | none => .error s!"undefined-label {l}"
    | some a => seqNext (wr s r (BitVec.ofNat 64 a))
  -- data movement copies possibly undefined contents (only USES of undefined values fault)
  | .MOV r r1 =>
    match rdRaw s r1 with
    | .error e => .error e
    | .ok v => seqNext (wrRaw s r v)
  | .MOVS r r1 i =>
    match rdRaw s r, ea s r1 i with
    | .error e, _ => .error e
    | _, .error e => .error e
    | .ok v, .ok a => seqNext (storeWordRaw c s a v)
  | .MOVL r r1 i =>
    match ea s r1 i with
    | .error e => .error e
    | .ok a =>
      match loadWordRaw c s a with
      | .error e => .error e
      | .ok v => seqNext (wrRaw s r v)
  | .MOVI r i =>
    -- `mov r64, imm64`: the only form with a 64-bit immediate
    if fitsI64 i then seqNext (wr s r (BitVec.ofInt 64 i)) else .error s!"imm-out-of-range {i}"
  | .MOVIM r i1 i2 =>
    match imm32 i2 with
    | .error e => .error e
    | .ok v => seqNext (writeLoc c s (.m r i1) v)
  | .CMP r r1 => seqNext (cmpOp c s (.r r) (.loc (.r r1)))
  | .CMPRM r r1 i => seqNext (cmpOp c s (.r r) (.loc (.m r1 i)))
  | .CMPMR r i r1 => seqNext (cmpOp c s (.m r i) (.loc (.r r1)))
  | .CMPI r i => seqNext (cmpOp c s (.r r) (.imm i))
  | .CMPIM r i1 i2 => seqNext (cmpOp c s (.m r i1) (.imm i2))
  | .JEL l => jcc s (fun a b => a == b) l
  | .JNEL l => jcc s (fun a b => a != b) l
  | .JLL l => jcc s (fun a b => a.slt b) l
  | .JLEL l => jcc s (fun a b => a.sle b) l
  | .JGL l => jcc s (fun a b => b.slt a) l
  | .JGEL l => jcc s (fun a b => b.sle a) l
  | .PUSH r =>
    match rdRaw s r, rd s 0 with
    | .error e, _ => .error e
    | _, .error e => .error e
    | .ok v, .ok sp =>
      match storeWordRaw c s (sp - 8) v with
      | .error e => .error e
      | .ok s1 => seqNext (wr s1 0 (sp - 8))
  | .POP r =>
    match rd s 0 with
    | .error e => .error e
    | .ok sp =>
      match loadWordRaw c s sp with
      | .error e => .error e
      | .ok v =>
        match wr s 0 (sp + 8) with
        | .error e => .error e
        | .ok s1 => seqNext (wrRaw s1 r v)
  | .CALL f => .ok (s, .callExt f)
  | .RET => .ok (s, .ret)
  | .LAB _ | .NOEXECSTACK | .TEXT | .GLOBAL _ | .EXTERN _ | .COMMENT _ => .ok (s, .next)

/-! ## External calls, entry, exit -/

/-- Caller-saved registers of the System V ABI: rax rcx rdx rsi rdi r8–r11. -/
def callerSaved : List Reg := [4, 1, 5, 6, 7, 8, 9, 10, 11]
/-- Callee-saved registers (besides rsp): rbx rbp r12–r15. -/
def calleeSaved : List Reg := [2, 3, 12, 13, 14, 15]

def poisonRegs (regs : Array (Option Word)) (rs : List Reg) : Array (Option Word) :=
  rs.foldl (fun a r => a.set! r none) regs

/-- `call print_i64` / `call println_i64`: alignment check (`rsp ≡ 0 mod 16` before the call pushes),
trace, then caller-saved registers, flags and the stack below `rsp` become undefined. -/
def callExt (s : State) (f : String) : M State :=
  if f ≠ "print_i64" && f ≠ "println_i64" then .error s!"call-unknown {f}" else
  match rd s 0, rd s 7 with
  | .error e, _ => .error e
  | _, .error e => .error e
  | .ok sp, .ok arg =>
    if sp.toNat % 16 ≠ 0 then .error "misaligned-call"
    else .ok { s with
      out := (f == "println_i64", arg) :: s.out,
      regs := poisonRegs s.regs callerSaved,
      flags := none,
      stackMem := s.stackMem.filter (fun a _ => decide (sp.toNat ≤ a)) }

def retSentinel : Word := 0x5e7a11ed0000dead#64
/-- Entry value of callee-saved register `r`. -/
def calleeSentinel (r : Reg) : Word := 0xca11ee5a00000000#64 + BitVec.ofNat 64 r

/-- System V argument registers after the heap pointer: rsi rdx rcx r8 r9. -/
def argRegs : List Reg := [6, 5, 1, 8, 9]

def initRegs (c : MachCfg) (args : List Word) : Array (Option Word) :=
  let r0 : Array (Option Word) := Array.replicate 16 none
  let r1 := calleeSaved.foldl (fun a r => a.set! r (some (calleeSentinel r))) r0
  let r2 := (argRegs.zip args).foldl (fun a (ra : Reg × Word) => a.set! ra.1 (some ra.2)) r1
  (r2.set! 7 (some (BitVec.ofNat 64 c.heapBase))).set! 0 (some (BitVec.ofNat 64 (c.stackTop - 8)))

def initState (c : MachCfg) (args : List Word) (entry : Nat) : State :=
  { regs := initRegs c args, flags := none, heapMem := ∅,
    stackMem := (∅ : Std.HashMap Nat Word).insert (c.stackTop - 8) retSentinel,
    pc := entry, out := [], maxHeapWritten := 0, steps := 0 }

inductive Res where
  | done (v : Word)
  | fault (why : String) (pcLine : Nat)
  | ccViolation (what : String)
  | invFail (what : String) (pcLine : Nat)
  | outOfFuel
  | parseError (line : Nat) (text : String)
  deriving Repr, DecidableEq

/-- `ret`: pops the return word, which must be the sentinel with `rsp` back at its entry value + 8;
then every callee-saved register must hold its entry value; the result is `rax`. -/
def retCheck (c : MachCfg) (s : State) : Except Res Word :=
  match rd s 0 with
  | .error e => .error (.fault e 0)
  | .ok sp =>
    match loadWord c s sp with
    | .error e => .error (.fault e 0)
    | .ok w =>
      if w ≠ retSentinel then .error (.fault "ret-to-non-sentinel" 0)
      else if sp.toNat + 8 ≠ c.stackTop then .error (.ccViolation "rsp")
      else
        match calleeSaved.find? (fun r => s.regs[r]? != some (some (calleeSentinel r))) with
        | some r => .error (.ccViolation (regName r))
        | none =>
          match rd s 4 with
          | .error e => .error (.fault e 0)
          | .ok v => .ok v

/-! ## Heap monitor -/

/-- Kinds listed by a `#ctx [x_1:prd y_2:ext …]` comment: `true` = not `ext` (has a pointer). -/
def parseCtx (msg : String) : Option (List Bool) :=
  match dropPrefix? "#ctx [".toList msg.toList with
  | none => none
  | some rest =>
    match rest.reverse with
    | ']' :: inner =>
      let ws := ((String.ofList inner.reverse).splitOn " ").filter (· ≠ "")
      some (ws.map (fun w => (w.splitOn ":").getLast? != some "ext"))
    | _ => none

/-- utils.rs temporary_from_position, as a location relative to the current `rsp`:
register `p + RESERVED`, or the spill slot `stack_offset(Spill(p + RESERVED - REGISTER_NUM + RESERVED_SPILLS))`. -/
def tempLoc (k : X86Consts) (p : Nat) : Loc :=
  let n := p + k.reserved
  if n < k.registerNum then .r n
  else .m k.stack ((k.spillNum * 8 : Nat) - 8 * ((n - k.registerNum + k.reservedSpills : Nat) + 1) : Int)

structure MonCfg where
  heap : Bool := false
  consts : X86Consts := Scc.X86.consts
  mach : MachCfg := {}

/-- Heap invariant at a statement boundary: roots = first temporaries of the non-`ext` variables.
Returns the number of blocks below the frontier.  Words above the highest stored word are zero by
construction, so the zero check above the frontier is limited to a window above it. -/
def heapCheck (m : MonCfg) (s : State) (kinds : List Bool) : Except String Nat :=
  let rootLocs := (kinds.zipIdx.filter (·.1)).map (fun (ki : Bool × Nat) => tempLoc m.consts (2 * ki.2))
  match rootLocs.mapM (fun l => readLoc m.mach s l) with
  | .error e => .error s!"root {e}"
  | .ok roots =>
    match rd s m.consts.heap, rd s m.consts.free with
    | .error e, _ => .error s!"HEAP {e}"
    | _, .error e => .error s!"FREE {e}"
    | .ok h, .ok f =>
      let base := m.mach.heapBase
      let limit := min (base + m.mach.heapBytes) (base + s.maxHeapWritten + 512)
      match Scc.Heap.invCheckFn (fun a => (s.heapMem.getD a 0).toNat) base limit h.toNat f.toNat
              (roots.map (·.toNat)) [] with
      | .error e => .error e
      | .ok (_, _, _, frontier) => .ok ((frontier - base) / Scc.Heap.blockSize)

/-! ## Running -/

structure RunResult where
  out : List (Bool × Word)
  res : Res
  steps : Nat
  maxHeapWritten : Nat
  heapBlocksBelowFrontier : Nat
  deriving Repr

def Prog.lineOf (p : Prog) (pc : Nat) : Nat := p.line.getD pc 0

def finish (s : State) (blocks : Nat) (r : Res) : RunResult :=
  { out := s.out.reverse, res := r, steps := s.steps, maxHeapWritten := s.maxHeapWritten,
    heapBlocksBelowFrontier := blocks }

/-- One item: fetch, execute, resolve control.  `Sum.inr` = the run has ended. -/
def step (m : MonCfg) (p : Prog) (s : State) : State ⊕ Res :=
  match p.code[s.pc]? with
  | none => .inr (.fault "fell-off-end" (p.lineOf (s.pc - 1)))
  | some code =>
    let ln := p.lineOf s.pc
    match execCode m.mach p.labelAddr code s with
    | .error e => .inr (.fault e ln)
    | .ok (s1, ctl) =>
      let s1 := if codeSize code = 0 then s1 else { s1 with steps := s1.steps + 1 }
      match ctl with
      | .next => .inl { s1 with pc := s.pc + 1 }
      | .jumpLabel l =>
        match p.labelIdx[l]? with
        | some i => .inl { s1 with pc := i }
        | none => .inr (.fault s!"undefined-label {l}" ln)
      | .jumpAddr a =>
        match p.addrIdx[a]? with
        | some i => .inl { s1 with pc := i }
        | none => .inr (.fault s!"jump-to-non-instruction {a}" ln)
      | .callExt f =>
        match callExt s1 f with
        | .ok s2 => .inl { s2 with pc := s.pc + 1 }
        | .error e => .inr (.fault e ln)
      | .ret =>
        match retCheck m.mach s1 with
        | .ok v => .inr (.done v)
        | .error (.fault e _) => .inr (.fault e ln)
        | .error r => .inr r

/-- The monitor hook: at a `#ctx` comment (heap monitor on) check the heap invariant. -/
def monitor (m : MonCfg) (p : Prog) (s : State) : Except Res (Option Nat) :=
  if !m.heap then .ok none else
  match p.code[s.pc]? with
  | some (.COMMENT msg) =>
    match parseCtx msg with
    | none => .ok none
    | some kinds =>
      match heapCheck m s kinds with
      | .ok n => .ok (some n)
      | .error e => .error (.invFail e (p.lineOf s.pc))
  | _ => .ok none

def runLoop (m : MonCfg) (p : Prog) : Nat → State → Nat → RunResult
  | 0, s, blocks => finish s blocks .outOfFuel
  | fuel + 1, s, blocks =>
    match monitor m p s with
    | .error r => finish s blocks r
    | .ok b =>
      let blocks := match b with | some n => max blocks n | none => blocks
      match step m p s with
      | .inl s1 => runLoop m p fuel s1 blocks
      | .inr r => finish (match r with | .done _ => { s with steps := s.steps + 1 } | _ => s) blocks r

def emptyResult (r : Res) : RunResult :=
  { out := [], res := r, steps := 0, maxHeapWritten := 0, heapBlocksBelowFrontier := 0 }

/-- Run the routine text from `asm_main` with the given integer arguments. -/
def run (text : String) (args : List Word) (fuel : Nat) (cfg : MonCfg) : RunResult :=
  match parseText text with
  | .error (n, l) => emptyResult (.parseError n l)
  | .ok items =>
    let p := mkProg cfg.mach items
    match p.labelIdx["asm_main"]? with
    | none => emptyResult (.fault "undefined-label asm_main" 0)
    | some entry =>
      if args.length > 5 then emptyResult (.fault "too-many-arguments" 0)
      else runLoop cfg p fuel (initState cfg.mach args entry) 0

/-! ## Well-formedness of the text (C14) -/

def codeLabelDef : Code → Option String
  | .LAB l => some l
  | _ => none

def codeLabelRef : Code → Option String
  | .JMPL l | .JMPLN l | .LEAL _ l | .JEL l | .JNEL l | .JLL l | .JLEL l | .JGL l | .JGEL l
  | .CALL l | .GLOBAL l => some l
  | _ => none

def codeRegs : Code → List Reg
  | .ADD r r1 | .SUB r r1 | .IMUL r r1 | .MOV r r1 | .CMP r r1 => [r, r1]
  | .ADDRM r r1 _ | .SUBRM r r1 _ | .IMULRM r r1 _ | .MOVS r r1 _ | .MOVL r r1 _ | .CMPRM r r1 _ => [r, r1]
  | .ADDMR r1 _ r | .SUBMR r1 _ r | .IMULMR r1 _ r | .CMPMR r1 _ r => [r1, r]
  | .ADDI r _ | .SUBI r _ | .MOVI r _ | .CMPI r _ | .ADDIM r _ _ | .MOVIM r _ _ | .CMPIM r _ _ => [r]
  | .IDIV r | .IDIVM r _ | .JMP r | .LEAL r _ | .PUSH r | .POP r => [r]
  | _ => []

/-- 32-bit fields (displacements and immediates) of each form. -/
def codeImm32s : Code → List Int
  | .ADDRM _ _ i | .SUBRM _ _ i | .IMULRM _ _ i | .MOVS _ _ i | .MOVL _ _ i | .CMPRM _ _ i => [i]
  | .ADDMR _ i _ | .SUBMR _ i _ | .IMULMR _ i _ | .CMPMR _ i _ | .IDIVM _ i => [i]
  | .ADDI _ i | .SUBI _ i | .CMPI _ i => [i]
  | .ADDIM _ i1 i2 | .MOVIM _ i1 i2 | .CMPIM _ i1 i2 => [i1, i2]
  | _ => []

/-- Operand check of one item (`none` = fine). -/
def codeOperandError (c : Code) : Option String :=
  if (codeRegs c).any (fun r => decide (16 ≤ r)) then some "register number out of range"
  else if (codeImm32s c).any (fun i => !fitsI32 i) then some "displacement/immediate does not fit in 32 bits"
  else match c with
    | .MOVI _ i => if fitsI64 i then none else some "immediate does not fit in 64 bits"
    | .IMULMR _ _ _ => some "imul with a memory destination does not exist"
    | _ => none

/-- Every `jmp near` directly follows a label or another `jmp near` (comments aside): table
entries are contiguous, so entry k is `5 k` bytes after the table label. -/
def tableCheck : List (Code × Nat) → Bool → Except String Unit
  | [], _ => .ok ()
  | (c, n) :: rest, inTable =>
    match c with
    | .JMPLN _ => if inTable then tableCheck rest true else .error s!"line {n}: jmp near outside a jump table"
    | .LAB _ => tableCheck rest true
    | .COMMENT _ => tableCheck rest inTable
    | _ => tableCheck rest false

def externals : List String := ["print_i64", "println_i64"]

def wfItems (items : List (Code × Nat)) : Except String Unit :=
  let defs := items.filterMap (fun (c, n) => (codeLabelDef c).map (fun l => (l, n)))
  let defMap : Std.HashMap String Nat := defs.foldl (fun m (l, _) => m.insert l (m.getD l 0 + 1)) ∅
  match defs.find? (fun (l, _) => defMap.getD l 0 ≠ 1) with
  | some (l, n) => .error s!"line {n}: label {l} defined more than once"
  | none =>
    let exts := items.filterMap (fun (c, _) => match c with | .EXTERN f => some f | _ => none)
    match exts.find? (fun f => !externals.contains f || defMap.contains f) with
    | some f => .error s!"extern {f} is not a runtime symbol or is also defined"
    | none =>
      match items.find? (fun (c, _) => match codeLabelRef c with
          | some l => !(defMap.contains l || exts.contains l)
          | none => false) with
      | some (c, n) => .error s!"line {n}: undefined label {(codeLabelRef c).getD ""}"
      | none =>
        match items.findSome? (fun (c, n) => (codeOperandError c).map (fun e => s!"line {n}: {e}")) with
        | some e => .error e
        | none =>
          match items.find? (fun (c, _) => match c with
              | .CALL f => !exts.contains f | _ => false) with
          | some (_, n) => .error s!"line {n}: call of a non-external symbol"
          | none => tableCheck items false

/-- C14 validator on the raw text. -/
def wfCheck (text : String) : Except String Unit :=
  match parseText text with
  | .error (n, l) => .error s!"PARSE-ERROR line {n}: {l}"
  | .ok items => wfItems items

/-! ## Line protocol -/

def renderOut (out : List (Bool × Word)) : String :=
  "[" ++ ",".intercalate (out.map (fun (nl, v) => (if nl then "1:" else "0:") ++ toString v.toInt)) ++ "]"

def renderRes : Res → String
  | .done v => s!"done:{v.toInt}"
  | .fault why ln => s!"fault:{why}@{ln}"
  | .ccViolation what => s!"cc:{what}"
  | .invFail what ln => s!"inv:{what}@{ln}"
  | .outOfFuel => "outOfFuel"
  | .parseError n l => s!"parse:{n}:{l}"

def parseArgs (args : String) : Option (List Word) :=
  ((args.splitOn " ").filter (· ≠ "")).mapM (fun w => (parseInt w.toList).map (BitVec.ofInt 64))

/-- Monitor selection: words separated by `,` or space: `heap` (heap invariant at `#ctx` comments),
`wf` (run `wfCheck` first), `heapbytes=<n>` (size of the heap region). -/
def parseMon (mon : String) : MonCfg × Bool :=
  let ws := (mon.toList.map (fun c => if c = ',' then ' ' else c))
  let ws := ((String.ofList ws).splitOn " ").filter (· ≠ "")
  let hb := ws.findSome? (fun w => match dropPrefix? "heapbytes=".toList w.toList with
    | some d => if isDigitStr d then some (natOfDigits d) else none
    | none => none)
  let mach : MachCfg := match hb with | some n => { heapBytes := n } | none => {}
  ({ heap := ws.contains "heap", mach := mach }, ws.contains "wf")

/-- `OK out=[1:55,0:-73] res=done:300 steps=1234 maxheap=4096 blocks=3`, or
`PARSE-ERROR line <n>: <text>`, or `WF-ERROR <message>` (only with monitor `wf`). -/
def runLine (asmText : String) (args : String) (fuel : Nat) (mon : String) : String :=
  let (cfg, wf) := parseMon mon
  match parseArgs args with
  | none => "BAD-ARGS " ++ args
  | some ws =>
    match (if wf then wfCheck asmText else .ok ()) with
    | .error e => if e.startsWith "PARSE-ERROR" then e else "WF-ERROR " ++ e
    | .ok () =>
      let r := run asmText ws fuel cfg
      match r.res with
      | .parseError n l => s!"PARSE-ERROR line {n}: {l}"
      | res =>
        s!"OK out={renderOut r.out} res={renderRes res} steps={r.steps} maxheap={r.maxHeapWritten}"
          ++ (if cfg.heap then s!" blocks={r.heapBlocksBelowFrontier}" else "")

end Scc.X86
