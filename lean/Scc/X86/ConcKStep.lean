/-
  Scc.X86.ConcKStep — THE THREE-WAY STEP FOR ALL ELEVEN STATEMENT FORMS (`Scc.X86.Ref.K.step3`,
  Scc/X86/RefClosHRun.lean) with the bookkeeping of C10 and of the progress argument (the port of `step3P`,
  Scc/X86/ConcPeak.lean, to programs with closures):
  * `FrPk`: the allocation frontier moves only when both free lists are exhausted afterwards;
  * the room a step needs and the distance the frontier may move are those of the CURRENT statement
    (`allocArity`: the number of fields of a `let`, the number of variables of the environment of a `create`,
    0 for every other statement) instead of the uniform 134 blocks of `step3`;
  * a `call` and an `invoke` execute an item of non-zero size (`IsJump`, the real transition).
  (`step3M`, Scc/X86/ConcKMStep.lean: the same with the program counters of the states in between.)
  `AllocLe A s`: every `let` of `s` has at most `A` fields and every `create` of `s` captures at most `A`
  variables.  NEW for closures: the statement the machine continues with after an `invoke` comes out of a
  closure VALUE, so bounds on statements (`AllocLe A`, the size bound of the progress argument) have to be
  kept for the clauses of every closure inside every value of the environment: `ValAll`, `Hered`,
  `hered_step` (a hereditary predicate on statements and clauses is preserved by the positional machine).
-/
import Scc.X86.ConcKInvoke

set_option linter.unusedVariables false
set_option linter.unusedSimpArgs false

namespace Scc.X86.Ref.K

open Scc Scc.AxCut Scc.AxCut.Pos Scc.Backend Scc.Backend.Abs Scc.Backend.Sim Scc.Backend.Subst Scc.X86
open Scc.Backend.Sim2 Scc.Backend.Keys
open Scc.Props.C14Generic (LabelSafe)
open Scc.Props.C06Generic (outAfter WithinCapacity Reachable EnoughHeap CodeFits fits_of_codeFits
  kinds_of_fieldsTyped chiTys_fst fresh_of_nodup_snoc take_of_append)
open Scc.Heap (HState InvS InvW)
open Scc.Heap.Refine (HRef FrLe Room FrPk)

/-! ## the allocation of a statement -/

def envLen : Option Ctx → Nat
  | some Γc => Γc.length
  | none => 0

/-- the number of fields a statement stores into a fresh object: the room it needs (in blocks, plus one) and
the distance the allocation frontier may move -/
def allocArity : Stmt → Nat
  | .letS _ _ _ args _ _ => args.length
  | .create _ _ env _ _ _ _ => envLen env
  | _ => 0

/-- the statements that leave the current code: the machine executes a jump instruction -/
def IsJump : Stmt → Prop
  | .call _ _ => True
  | .invoke _ _ _ _ => True
  | _ => False

mutual
  /-- every `let` of the statement has at most `A` fields, every `create` captures at most `A` variables -/
  def AllocLe (A : Nat) : Stmt → Prop
    | .lit _ _ next _ => AllocLe A next
    | .op _ _ _ _ next _ => AllocLe A next
    | .print _ _ next _ => AllocLe A next
    | .ifc _ _ _ t e => AllocLe A t ∧ AllocLe A e
    | .exit _ => True
    | .call _ _ => True
    | .subst _ next => AllocLe A next
    | .letS _ _ _ args next _ => args.length ≤ A ∧ AllocLe A next
    | .switch _ _ clauses _ => AllocLeClauses A clauses
    | .create _ _ env clauses next _ _ => envLen env ≤ A ∧ AllocLeClauses A clauses ∧ AllocLe A next
    | .invoke _ _ _ _ => True
  def AllocLeClauses (A : Nat) : Clauses → Prop
    | .nil => True
    | .cons _ _ body rest => AllocLe A body ∧ AllocLeClauses A rest
end

theorem allocLeClauses_nth {A : Nat} : ∀ {cs : Clauses} {i : Nat} {c : Clause}, AllocLeClauses A cs →
    nthClause cs i = some c → AllocLe A c.body
  | .nil, _, _, _, h => by simp [nthClause] at h
  | .cons x ctx body rest, 0, c, hd, h => by
    simp only [nthClause, Option.some.injEq] at h
    subst h
    exact hd.1
  | .cons x ctx body rest, i + 1, c, hd, h => by
    simp only [nthClause] at h
    exact allocLeClauses_nth hd.2 h

mutual
  theorem AllocLe.mono {A B : Nat} (hAB : A ≤ B) : ∀ (s : Stmt), AllocLe A s → AllocLe B s
    | .lit _ _ next _, h => AllocLe.mono hAB next h
    | .op _ _ _ _ next _, h => AllocLe.mono hAB next h
    | .print _ _ next _, h => AllocLe.mono hAB next h
    | .ifc _ _ _ t e, h => ⟨AllocLe.mono hAB t h.1, AllocLe.mono hAB e h.2⟩
    | .exit _, _ => trivial
    | .call _ _, _ => trivial
    | .subst _ next, h => AllocLe.mono hAB next h
    | .letS _ _ _ args next _, h => ⟨Nat.le_trans h.1 hAB, AllocLe.mono hAB next h.2⟩
    | .switch _ _ clauses _, h => AllocLeClauses.mono hAB clauses h
    | .create _ _ env clauses next _ _, h =>
      ⟨Nat.le_trans h.1 hAB, AllocLeClauses.mono hAB clauses h.2.1, AllocLe.mono hAB next h.2.2⟩
    | .invoke _ _ _ _, _ => trivial
  theorem AllocLeClauses.mono {A B : Nat} (hAB : A ≤ B) : ∀ (cs : Clauses), AllocLeClauses A cs → AllocLeClauses B cs
    | .nil, _ => trivial
    | .cons _ _ body rest, h => ⟨AllocLe.mono hAB body h.1, AllocLeClauses.mono hAB rest h.2⟩
end

mutual
  /-- the largest number of fields of a `let` / of variables captured by a `create` of the statement -/
  def maxAlloc : Stmt → Nat
    | .lit _ _ next _ => maxAlloc next
    | .op _ _ _ _ next _ => maxAlloc next
    | .print _ _ next _ => maxAlloc next
    | .ifc _ _ _ t e => max (maxAlloc t) (maxAlloc e)
    | .exit _ => 0
    | .call _ _ => 0
    | .subst _ next => maxAlloc next
    | .letS _ _ _ args next _ => max args.length (maxAlloc next)
    | .switch _ _ clauses _ => maxAllocClauses clauses
    | .create _ _ env clauses next _ _ => max (envLen env) (max (maxAllocClauses clauses) (maxAlloc next))
    | .invoke _ _ _ _ => 0
  def maxAllocClauses : Clauses → Nat
    | .nil => 0
    | .cons _ _ body rest => max (maxAlloc body) (maxAllocClauses rest)
end

mutual
  theorem allocLe_maxAlloc : ∀ (s : Stmt), AllocLe (maxAlloc s) s
    | .lit _ _ next _ => allocLe_maxAlloc next
    | .op _ _ _ _ next _ => allocLe_maxAlloc next
    | .print _ _ next _ => allocLe_maxAlloc next
    | .ifc _ _ _ t e => ⟨AllocLe.mono (Nat.le_max_left _ _) t (allocLe_maxAlloc t),
        AllocLe.mono (Nat.le_max_right _ _) e (allocLe_maxAlloc e)⟩
    | .exit _ => trivial
    | .call _ _ => trivial
    | .subst _ next => allocLe_maxAlloc next
    | .letS _ _ _ args next _ =>
      ⟨Nat.le_max_left _ _, AllocLe.mono (Nat.le_max_right _ _) next (allocLe_maxAlloc next)⟩
    | .switch _ _ clauses _ => allocLeClauses_maxAlloc clauses
    | .create _ _ env clauses next _ _ =>
      ⟨Nat.le_max_left _ _,
       AllocLeClauses.mono (Nat.le_trans (Nat.le_max_left _ _) (Nat.le_max_right _ _)) clauses
         (allocLeClauses_maxAlloc clauses),
       AllocLe.mono (Nat.le_trans (Nat.le_max_right _ _) (Nat.le_max_right _ _)) next (allocLe_maxAlloc next)⟩
    | .invoke _ _ _ _ => trivial
  theorem allocLeClauses_maxAlloc : ∀ (cs : Clauses), AllocLeClauses (maxAllocClauses cs) cs
    | .nil => trivial
    | .cons _ _ body rest => ⟨AllocLe.mono (Nat.le_max_left _ _) body (allocLe_maxAlloc body),
        AllocLeClauses.mono (Nat.le_max_right _ _) rest (allocLeClauses_maxAlloc rest)⟩
end

/-- the largest number of fields of a `let` / of variables captured by a `create` of the program -/
def progMaxAlloc (p : AxCut.Prog) : Nat := (p.defs.map fun d => maxAlloc d.body).foldr max 0

theorem allocLe_progMaxAlloc (p : AxCut.Prog) : ∀ d ∈ p.defs, AllocLe (progMaxAlloc p) d.body := by
  intro d hd
  exact AllocLe.mono (le_foldr_max _ _ (List.mem_map.2 ⟨d, hd, rfl⟩)) d.body (allocLe_maxAlloc d.body)

theorem allocArity_le {A : Nat} {s : Stmt} (h : AllocLe A s) : allocArity s ≤ A := by
  cases s <;> simp only [allocArity] <;> first | exact Nat.zero_le _ | exact h.1

/-! ## hereditary predicates along the run: the clauses inside closure VALUES -/

mutual
  /-- the clauses of every closure inside the value satisfy `Q` -/
  def ValAll (Q : Clauses → Prop) : Pos.Value → Prop
    | .int _ => True
    | .obj _ fields => ValsAll Q fields
    | .clo _ env cl => Q cl ∧ ValsAll Q env
  def ValsAll (Q : Clauses → Prop) : List Pos.Value → Prop
    | [] => True
    | v :: vs => ValAll Q v ∧ ValsAll Q vs
end

theorem valsAll_iff {Q : Clauses → Prop} : ∀ {vs : List Pos.Value}, ValsAll Q vs ↔ ∀ v ∈ vs, ValAll Q v
  | [] => by simp [ValsAll]
  | v :: vs => by
    simp only [ValsAll, List.mem_cons, forall_eq_or_imp]
    rw [valsAll_iff (vs := vs)]

/-- a predicate on statements (`Qs`) and on clauses (`Qc`) that passes to sub-statements -/
structure Hered (Qs : Stmt → Prop) (Qc : Clauses → Prop) : Prop where
  lit : ∀ {x n next fv}, Qs (.lit x n next fv) → Qs next
  op : ∀ {x a o b next fv}, Qs (.op x a o b next fv) → Qs next
  print : ∀ {nl a next fv}, Qs (.print nl a next fv) → Qs next
  ifc : ∀ {s a b t e}, Qs (.ifc s a b t e) → Qs t ∧ Qs e
  subst : ∀ {pairs next}, Qs (.subst pairs next) → Qs next
  letS : ∀ {x ty tag args next fv}, Qs (.letS x ty tag args next fv) → Qs next
  switch : ∀ {x ty cl fv}, Qs (.switch x ty cl fv) → Qc cl
  create : ∀ {x ty env cl next f1 f2}, Qs (.create x ty env cl next f1 f2) → Qc cl ∧ Qs next
  nth : ∀ {cl i c}, Qc cl → nthClause cl i = some c → Qs c.body

theorem hered_allocLe (A : Nat) : Hered (AllocLe A) (AllocLeClauses A) where
  lit h := h
  op h := h
  print h := h
  ifc h := h
  subst h := h
  letS h := h.2
  switch h := h
  create h := ⟨h.2.1, h.2.2⟩
  nth h hc := allocLeClauses_nth h hc

theorem readVar_mem {Γ : Ctx} {ρ : List Pos.Value} {x : Ident} {v : Pos.Value} (h : readVar Γ ρ x = .ok v) :
    v ∈ ρ := by
  unfold readVar at h
  split at h
  · cases h
  · rename_i i _
    split at h
    · cases h
    · rename_i v' hv
      injection h with h
      subst h
      exact List.mem_of_getElem? hv

theorem build_mem (Γ : Ctx) (ρ : List Pos.Value) : ∀ (pairs : List (Binding × Ident)) (vs : List Pos.Value),
    Pos.step.build Γ ρ pairs = .ok vs → ∀ v ∈ vs, v ∈ ρ
  | [], vs, h, v, hv => by
    simp only [Pos.step.build] at h
    injection h with h
    subst h
    cases hv
  | p :: ps, vs, h, v, hv => by
    simp only [Pos.step.build] at h
    split at h
    · cases h
    · rename_i v0 hv0
      split at h
      · cases h
      · rename_i vs0 hvs0
        injection h with h
        subst h
        rcases List.mem_cons.1 hv with rfl | hv
        · exact readVar_mem hv0
        · exact build_mem Γ ρ ps vs0 hvs0 v hv

/-- A HEREDITARY PREDICATE IS PRESERVED BY THE POSITIONAL MACHINE: if the current statement satisfies `Qs`,
the clauses of all closures inside the values of the environment satisfy `Qc`, and the bodies of all
definitions satisfy `Qs`, the same holds after a step -/
theorem hered_step {Qs : Stmt → Prop} {Qc : Clauses → Prop} (H : Hered Qs Qc) {prog : AxCut.Prog}
    (hdefs : ∀ d ∈ prog.defs, Qs d.body) {st st' : Pos.State} {o : Option (Bool × Word)}
    (hs : Pos.step prog st = .next st' o) (h1 : Qs st.stmt) (h2 : ∀ v ∈ st.env, ValAll Qc v) :
    Qs st'.stmt ∧ ∀ v ∈ st'.env, ValAll Qc v := by
  obtain ⟨Γ, ρ, s⟩ := st
  simp only at h1 h2
  have hint : ∀ n, ValAll Qc (.int n) := fun _ => trivial
  cases s with
  | lit x n next fv =>
    simp only [Pos.step] at hs
    injection hs with e1 e2; subst e1
    refine ⟨H.lit h1, fun v hv => ?_⟩
    rcases List.mem_append.1 hv with hv | hv
    · exact h2 v hv
    · simp only [List.mem_singleton] at hv; subst hv; exact hint _
  | op x a o b next fv =>
    simp only [Pos.step] at hs
    split at hs
    · cases hs
    · split at hs
      · cases hs
      · split at hs
        · cases hs
        · injection hs with e1 e2; subst e1
          refine ⟨H.op h1, fun v hv => ?_⟩
          rcases List.mem_append.1 hv with hv | hv
          · exact h2 v hv
          · simp only [List.mem_singleton] at hv; subst hv; exact hint _
  | print nl a next fv =>
    simp only [Pos.step] at hs
    split at hs
    · cases hs
    · injection hs with e1 e2; subst e1; exact ⟨H.print h1, h2⟩
  | ifc srt a b t e =>
    simp only [Pos.step] at hs
    split at hs
    · cases hs
    · split at hs
      · injection hs with e1 e2; subst e1
        refine ⟨?_, h2⟩
        show Qs (if _ then t else e)
        split
        · exact (H.ifc h1).1
        · exact (H.ifc h1).2
      · split at hs
        · cases hs
        · injection hs with e1 e2; subst e1
          refine ⟨?_, h2⟩
          show Qs (if _ then t else e)
          split
          · exact (H.ifc h1).1
          · exact (H.ifc h1).2
  | exit a =>
    simp only [Pos.step] at hs
    split at hs <;> cases hs
  | letS x ty tag args next fv =>
    simp only [Pos.step] at hs
    split at hs
    · cases hs
    · split at hs
      · cases hs
      · injection hs with e1 e2; subst e1
        refine ⟨H.letS h1, fun v hv => ?_⟩
        rcases List.mem_append.1 hv with hv | hv
        · exact h2 v (List.mem_of_mem_take hv)
        · simp only [List.mem_singleton] at hv; subst hv
          show ValsAll Qc _
          exact valsAll_iff.2 (fun w hw => h2 w (List.mem_of_mem_drop hw))
  | switch x ty clauses fv =>
    simp only [Pos.step] at hs
    split at hs
    · rename_i b v hb hv
      split at hs
      · cases hs
      · split at hs
        · rename_i pos fields
          split at hs
          · cases hs
          · rename_i c hc
            split at hs
            · cases hs
            · injection hs with e1 e2; subst e1
              have hvm : Pos.Value.obj pos fields ∈ ρ := List.mem_of_getLast? hv
              have hf : ValsAll Qc fields := h2 _ hvm
              refine ⟨H.nth (H.switch h1) hc, fun w hw => ?_⟩
              rcases List.mem_append.1 hw with hw | hw
              · exact h2 w ((List.dropLast_sublist _).subset hw)
              · exact valsAll_iff.1 hf w hw
        · cases hs
    · cases hs
  | create x ty env clauses next f1 f2 =>
    simp only [Pos.step] at hs
    split at hs
    · cases hs
    · split at hs
      · cases hs
      · injection hs with e1 e2; subst e1
        refine ⟨(H.create h1).2, fun v hv => ?_⟩
        rcases List.mem_append.1 hv with hv | hv
        · exact h2 v (List.mem_of_mem_take hv)
        · simp only [List.mem_singleton] at hv; subst hv
          exact ⟨(H.create h1).1, valsAll_iff.2 (fun w hw => h2 w (List.mem_of_mem_drop hw))⟩
  | invoke x tag ty args =>
    simp only [Pos.step] at hs
    split at hs
    · rename_i b v hb hv
      split at hs
      · cases hs
      · split at hs
        · rename_i Γc ρc cls
          split at hs
          · cases hs
          · split at hs
            · cases hs
            · rename_i c hc
              split at hs
              · cases hs
              · injection hs with e1 e2; subst e1
                have hvm : Pos.Value.clo Γc ρc cls ∈ ρ := List.mem_of_getLast? hv
                have hcl : Qc cls ∧ ValsAll Qc ρc := h2 _ hvm
                refine ⟨H.nth hcl.1 hc, fun w hw => ?_⟩
                rcases List.mem_append.1 hw with hw | hw
                · exact h2 w ((List.dropLast_sublist _).subset hw)
                · exact valsAll_iff.1 hcl.2 w hw
        · cases hs
    · cases hs
  | call l args =>
    simp only [Pos.step] at hs
    split at hs
    · cases hs
    · rename_i d hfd
      split at hs
      · cases hs
      · injection hs with e1 e2; subst e1
        exact ⟨hdefs d (List.mem_of_find?_eq_some hfd), h2⟩
  | subst pairs next =>
    simp only [Pos.step] at hs
    split at hs
    · cases hs
    · rename_i vs hvs
      injection hs with e1 e2; subst e1
      exact ⟨H.subst h1, fun v hv => h2 v (build_mem Γ ρ pairs vs hvs v hv)⟩

/-- the integer arguments of the entry contain no closure -/
theorem valAll_ints (Q : Clauses → Prop) (args : List Word) : ∀ v ∈ args.map Pos.Value.int, ValAll Q v := by
  intro v hv
  obtain ⟨n, _, rfl⟩ := List.mem_map.1 hv
  trivial

/-! ## the step -/

/-- the three-way simulation claim for one step of the positional machine, with the bookkeeping of C10 and
of the progress argument -/
def StepSim3P (F : Frame) (mon : MonCfg) (px : X86.Prog) (cs : List Code) (P : Program) (hooks : Bool)
    (prog : AxCut.Prog) (st : Pos.State) (cfg : Config) (hs : HState) (X : State) : Prop :=
  match Pos.step prog st with
  | .next st' o =>
    WithinCapacity st'.ctx → 2 * st'.ctx.length ≤ 266 →
    ∃ cfg' hs' X' XR n, stepN mon px n X = .inl XR ∧ Tol cs X' XR ∧
      (IsJump st.stmt → ∃ n1 Xm, n1 < n ∧ stepN mon px n1 X = .inl Xm ∧ ¬ NoopAt cs Xm.pc) ∧
      cfg'.out = outAfter o cfg.out ∧ cfg'.next ≤ cfg.next + 1 ∧
      FrLe hs hs' (64 * allocArity st.stmt) ∧ FrPk hs hs' ∧ Rel3 F cs P hooks prog st' cfg' hs' X' ∧
      StmtOK st'.stmt
  | .done v => ∃ n XL, stepN mon px n X = .inl XL ∧ step mon px XL = .inr (.done v) ∧ XL.out = cfg.out
  | .stuck _ => True

section Run3P

variable {F : Frame} (HF : FrameOK F) (h8 : F.c.heapBase % 8 = 0) {mon : MonCfg} (hmon : mon.mach = F.c)
  {px : X86.Prog} {cs pre : List Code} (LA : LoadedA F.c px cs) (hndL : (labs cs).Nodup)
  (hfitX : addrAt F.c.codeBase cs cs.length < 2 ^ 64) (hcs : cs = pre ++ cleanup)
  (hclean : "cleanup" ∉ labs pre) {st0 : State} {h : Word} (E : EntryFacts F st0 h)

include HF h8 hmon LA hndL hfitX hcs hclean E in
/-- THE THREE-WAY STEP: Theorem A's `TheoremA_full` with the x86-64 machine carried along, for ALL ELEVEN
statement forms -/
theorem step3P (hooks : Bool) (prog : AxCut.Prog) (c : Nat) (code : List MockOp) (nargs c' : Nat)
    (hcomp : (compile mockSym hooks prog).run c = .ok ((code, nargs), c'))
    (hsafe : LabelSafe prog = true) (htp : LinTypedProg prog) (hfit : CodeFits code)
    (DX : XDefsAt cs hooks prog) (hprog : ProgOK prog)
    (st : Pos.State) (cfg : Config) (hs : HState) (X : State)
    (R : Rel3 F cs (Program.ofOps code) hooks prog st cfg hs X)
    (T : Pos.StateTyped prog st) (hheap : EnoughHeap cfg) (hok : StmtOK st.stmt)
    (hroom : Room hs (64 * allocArity st.stmt + 64)) :
    StepSim3P F mon px cs (Program.ofOps code) hooks prog st cfg hs X := by
  have L := LA.loaded
  have hreal : ∀ idx, idx < cs.length → ∃ i, idx ≤ i ∧ ∃ h : i < cs.length, codeSize cs[i] ≠ 0 := by
    rw [hcs]; exact real_after pre
  have hnodup := Scc.Props.C14Generic.labels_unique hooks prog c code nargs c' hcomp hsafe
  have D := defsAt_of_compile hooks prog c code nargs c' hcomp hnodup
  have hfits := fits_of_codeFits hfit
  obtain ⟨Γ, ρ, s⟩ := st
  obtain ⟨Γ', ι, κ, hk, RX, X3h, C, kx, kx', items, hrunX, hatX⟩ := R
  obtain ⟨hty, henv⟩ := T
  simp only at hk RX hty henv C
  have hlenk : Γ'.length = Γ.length := keys_length hk
  have hlenρ : ρ.length = Γ'.length := RX.len
  have hdef := X3h.mach_def RX
  unfold StepSim3P
  simp only [StmtOK] at hok
  have hcapX3 := X3h.cap
  cases hty with
  | lit hn hfr hnext =>
    rename_i x n next fv
    simp only [Pos.step]
    intro hcap hcap2
    obtain ⟨cfg', X', m, h1, hm, h2, h3, h4, h5, k1, k1', items', hr', hat', hh, K⟩ :=
      lit_x3 HF hmon L RX (mem_ids_keys hk hfr)
      (by simp [WithinCapacity] at hcap; omega) X3h hrunX hatX hok.1
    exact ⟨cfg', hs, X', X', m, hm, Tol.refl _ _, (fun hj => False.elim hj), h2, by omega, FrLe.refl' hs, FrPk.refl hs,
      ⟨Γ' ++ [⟨x, .ext, .i64⟩], ι, κ, keys_append hk rfl, h4, h5, C.snoc_int hlenρ K hh _ _,
        k1, k1', items', hr', hat'⟩, hok.2⟩
  | op hn ha hb hfr hnext =>
    rename_i x a o b next fv
    simp only [Pos.step]
    cases hra : readInt Γ ρ a with
    | error e => simp
    | ok va =>
      cases hrb : readInt Γ ρ b with
      | error e => simp
      | ok vb =>
        cases hv : Pos.evalOp o va vb with
        | error e => simp [hv]
        | ok v =>
          simp only [hv]
          intro hcap hcap2
          obtain ⟨cfg', X', m, h1, hm, h2, h3, h4, h5, k1, k1', items', hr', hat', hh, K⟩ :=
            op_x3 HF hmon L RX (mem_ids_keys hk hfr)
            (by simp [WithinCapacity] at hcap; omega)
            (by rw [readInt_keys hk]; exact hra) (by rw [readInt_keys hk]; exact hrb) hv X3h hrunX hatX
          exact ⟨cfg', hs, X', X', m, hm, Tol.refl _ _, (fun hj => False.elim hj), h2, by omega, FrLe.refl' hs, FrPk.refl hs,
            ⟨Γ' ++ [⟨x, .ext, .i64⟩], ι, κ, keys_append hk rfl, h4, h5, C.snoc_int hlenρ K hh _ _,
              k1, k1', items', hr', hat'⟩, hok⟩
  | print hn ha hnext =>
    rename_i nl a next fv
    simp only [Pos.step]
    cases hra : readInt Γ ρ a with
    | error e => simp
    | ok v =>
      simp only
      intro _ _
      obtain ⟨cfg', X', m, h1, hm, h2, h3, h4, h5, k1, k1', items', hr', hat', hh, K⟩ := print_x3 HF hmon L RX
        (by rw [readInt_keys hk]; exact hra) X3h hrunX hatX
      exact ⟨cfg', hs, X', X', m, hm, Tol.refl _ _, (fun hj => False.elim hj), h2, by omega, FrLe.refl' hs, FrPk.refl hs,
        ⟨Γ', ι, κ, hk, h4, h5, C.keep rfl K hh, k1, k1', items', hr', hat'⟩, hok⟩
  | ifc hn ha hb ht he =>
    rename_i srt a b t e
    simp only [Pos.step]
    cases hra : readInt Γ ρ a with
    | error err => simp
    | ok va =>
      cases b with
      | none =>
        simp only
        intro _ _
        obtain ⟨cfg', X', m, h1, hm, h2, h3, h4, h5, k1, k1', items', hr', hat', hh, K⟩ :=
          ifc_x3 HF hmon L hndL (b := none) (vb := 0) RX
          (by rw [readInt_keys hk]; exact hra) rfl X3h hrunX hatX
        refine ⟨cfg', hs, X', X', m, hm, Tol.refl _ _, (fun hj => False.elim hj), h2, by omega, FrLe.refl' hs, FrPk.refl hs,
          ⟨Γ', ι, κ, hk, h4, h5, C.keep rfl K hh, k1, k1', items', hr', hat'⟩, ?_⟩
        show StmtB _ _ (if Pos.evalCmp srt va 0 then t else e)
        split
        · exact hok.1
        · exact hok.2
      | some b' =>
        simp only
        cases hrb : readInt Γ ρ b' with
        | error err => simp
        | ok vb =>
          simp only
          intro _ _
          obtain ⟨cfg', X', m, h1, hm, h2, h3, h4, h5, k1, k1', items', hr', hat', hh, K⟩ :=
            ifc_x3 HF hmon L hndL (b := some b') (vb := vb) RX
            (by rw [readInt_keys hk]; exact hra) (by simp only; rw [readInt_keys hk]; exact hrb)
            X3h hrunX hatX
          refine ⟨cfg', hs, X', X', m, hm, Tol.refl _ _, (fun hj => False.elim hj), h2, by omega, FrLe.refl' hs, FrPk.refl hs,
            ⟨Γ', ι, κ, hk, h4, h5, C.keep rfl K hh, k1, k1', items', hr', hat'⟩, ?_⟩
          show StmtB _ _ (if Pos.evalCmp srt va vb then t else e)
          split
          · exact hok.1
          · exact hok.2
  | exit hn ha =>
    rename_i a
    simp only [Pos.step]
    cases hra : readInt Γ ρ a with
    | error e => simp
    | ok v =>
      simp only
      exact exit_x3 HF hmon L hcs hclean E RX (by rw [readInt_keys hk]; exact hra) X3h hrunX hatX
  | call hn hf hc =>
    rename_i l args params
    simp only [Pos.step]
    cases hd : Pos.findDef prog.defs l with
    | none => simp
    | some d =>
      simp only
      by_cases hsh : Pos.chiTys Γ ≠ Pos.chiTys d.ctx ∨ ρ.length ≠ Γ.length
      · simp [hsh]
      · simp only [hsh, if_false]
        intro _ _
        have hchi : Pos.chiTys Γ = Pos.chiTys d.ctx := by
          by_cases h : Pos.chiTys Γ = Pos.chiTys d.ctx
          · exact h
          · exact absurd (Or.inl h) hsh
        obtain ⟨cfg', X', m, h1, hm, h2, h3, h4, h5, k1, k1', items', hr', hat', hh, K, n1, Xm, hn1lt, hn1, hreal1⟩ := call_x3Q hmon L RX D DX hd
          (by rw [keys_chiTys hk]; exact hchi) X3h hrunX hatX
        have hdm : d ∈ prog.defs := List.mem_of_find?_eq_some hd
        have hchi' : Γ'.map (·.chi) = d.ctx.map (·.chi) := by
          rw [keys_chi hk]
          have := congrArg (List.map (·.1)) hchi
          simpa [Pos.chiTys, Function.comp_def] using this
        exact ⟨cfg', hs, X', X', m, hm, Tol.refl _ _, (fun _ => ⟨n1, Xm, hn1lt, hn1, hreal1⟩), h2, by omega,
          FrLe.refl' hs, FrPk.refl hs,
          ⟨d.ctx, ι, κ, rfl, h4, h5, C.keep hchi' K hh, k1, k1', items', hr', hat'⟩, hprog.2 d hdm⟩
  | subst hn hhas hnew hnext =>
    rename_i pairs next
    simp only [Pos.step]
    cases hb : Pos.step.build Γ ρ pairs with
    | error e => simp
    | ok vs =>
      simp only
      intro hcap hcap2
      have hnew' : (pairs.map (·.1.var.id)).Nodup := by
        have : ((pairs.map (·.1)).map (·.var.id)).Nodup := hnew
        rw [List.map_map] at this
        exact this
      have hold : ∀ p ∈ pairs, ∃ b ∈ Γ', b.var.id = p.2.id ∧ b.chi = p.1.chi := by
        intro p hp
        obtain ⟨b, hb', hid, hchi, _⟩ := hasVar_keys hk (hhas p hp)
        exact ⟨b, hb', hid, hchi⟩
      have hpl : 2 * pairs.length ≤ 266 := by simpa using hcap2
      obtain ⟨k, cfg', X', hs', m, h1, hm, hfr, h2, h3, h4, h5, k1, k1', items', hr', hat', SP⟩ :=
        subst_x3 HF h8 hmon L hndL RX
        (nodup_keys hk hn) hnew' hold
        (by simpa [WithinCapacity] using hcap) (by rw [build_keys hk]; exact hb) X3h hrunX hatX
        (by omega) hpl
      exact ⟨cfg', hs', X', X', m, hm, Tol.refl _ _, (fun hj => False.elim hj), h2, by omega, FrLe.mono' hfr (by omega),
        FrPk.of_frLe0 hfr,
        ⟨pairs.map (·.1), ι, κ, rfl, h4, h5, XC.subst C hlenρ RX.heap h1 h4 SP, k1, k1', items', hr', hat'⟩,
        hok.2⟩
  | @letS _ Γ0 Γa x ty tag args sig next fv hn hsplit hkeys hs hs' hfr hnext =>
    have hlenA : Γa.length = args.length := keys_length hkeys
    have hsplit' : Γ = Γ0 ++ Γa := hsplit
    have hkA : args.length ≤ Γ.length := by rw [hsplit']; simp; omega
    simp only [Pos.step]
    by_cases hsh : Γ.length < args.length ∨ ρ.length ≠ Γ.length
    · rw [if_pos hsh]; trivial
    · rw [if_neg hsh]
      cases hpos : Pos.tagPosition prog.types ty tag with
      | error e => trivial
      | ok pos =>
        simp only
        intro hcap hcap2
        have hn0 : Γ.length - args.length = Γ0.length := by rw [hsplit']; simp; omega
        have htake : Γ.take (Γ.length - args.length) = Γ0 := by
          rw [← hlenA]; exact take_of_append hsplit'
        have hkt : Ctx.keys (Γ'.take (Γ'.length - args.length)) = Γ0.keys := by
          rw [hlenk, keys_take hk, htake]
        have hargs133 : args.length ≤ 133 := by omega
        obtain ⟨dT, hdT, hxT⟩ := tagPosition_ok hpos
        have hposlt : pos < dT.xtors.length := by
          have := xtorPosition_go_lt dT.xtors tag 0 pos hxT
          omega
        have hdTm : dT ∈ prog.types := by
          cases ty with
          | i64 => simp [lookupTypeDecl] at hdT
          | decl nm => exact List.mem_of_find?_eq_some hdT
        have hfitT : fitsI64 (jumpLength pos) = true := by
          have := hprog.1 dT hdTm
          unfold maxTagsX86 at this
          unfold fitsI64 jumpLength
          have e5 : (consts.jumpLengthFactor : Int) = 5 := rfl
          rw [e5]
          simp only [decide_eq_true_eq, Bool.and_eq_true]
          omega
        obtain ⟨cfg', X', hs', ι', κ', m, h1, hm, hfr, hpk, h2, h3, h4, h5, k1, k1', items', hr', hat', LP, hmid⟩ :=
          let_x3P HF h8 hmon L hndL RX
          (by rw [hlenk]; exact hkA) (mem_ids_keys hkt hfr) hpos
          (by
            simp only [WithinCapacity, htake, List.length_append, List.length_singleton] at hcap
            rw [hlenk, hn0]; exact hcap) hheap X3h hrunX hatX
          hroom hfitT
        obtain ⟨C0, r, hr, hXB⟩ := XC.let_parts C hlenρ (Nat.sub_le _ _) RX.heap hheap hdef LP
        have hNlen : (Γ'.take (Γ'.length - args.length)).length = Γ'.length - args.length := by simp
        have C' := XC.snoc C0 (by simp [hlenρ]) ⟨x, .prd, ty⟩ (.obj pos (ρ.drop (Γ'.length - args.length)))
          (fun w hw => by
            rw [hNlen, hr]
            exact .obj pos _ r _ w hXB)
        rw [hlenk] at h4 h5 C' hr'
        refine ⟨cfg', hs', X', X', m, hm, Tol.refl _ _, (fun hj => False.elim hj), h2, h3, hfr, hpk,
          ⟨_, ι', κ', ?_, h4, h5, C', k1, k1', items', hr', hat'⟩, hok⟩
        show Ctx.keys (Γ'.take (Γ.length - args.length) ++ [_]) =
          Ctx.keys (Γ.take (Γ.length - args.length) ++ [_])
        rw [htake, ← hlenk]
        exact keys_append hkt rfl
  | @create _ Γn Γe Γc x ty clauses next fc fn d hn hsplit hkeys hd hm hcl hfr hnext =>
    have hlenE : Γe.length = Γc.length := keys_length hkeys
    have hsplit' : Γ = Γn ++ Γe := hsplit
    have hkA : Γc.length ≤ Γ.length := by rw [hsplit']; simp; omega
    simp only [Pos.step]
    by_cases hsh : Γ.length < Γc.length ∨ ρ.length ≠ Γ.length
    · rw [if_pos hsh]; trivial
    · rw [if_neg hsh]
      simp only
      intro hcap hcap2
      have hn0 : Γ.length - Γc.length = Γn.length := by rw [hsplit']; simp; omega
      have htake : Γ.take (Γ.length - Γc.length) = Γn := by
        rw [← hlenE]; exact take_of_append hsplit'
      have hdrop : Γ.drop (Γ.length - Γc.length) = Γe := by
        rw [hn0, hsplit']; simp
      have hkt : Ctx.keys (Γ'.take (Γ'.length - Γc.length)) = Γn.keys := by
        rw [hlenk, keys_take hk, htake]
      have hkd : Ctx.keys (Γ'.drop (Γ'.length - Γc.length)) = Γc.keys := by
        rw [hlenk, keys_drop hk, hdrop]; exact hkeys
      have hc133 : Γc.length ≤ 133 := by omega
      obtain ⟨cfg', X', hs', ι', κ', m, h1, hm, hfr, hpk, h2, h3, h4, h5, k1, k1', items', hr', hat', LP, a, w0, ha, hw0,
        hmeth, hxm, hmid⟩ := create_x3P HF h8 hmon L hndL LA RX (by rw [hlenk]; exact hkA) hkd (mem_ids_keys hkt hfr)
          (by
            simp only [WithinCapacity, htake, List.length_append, List.length_singleton] at hcap
            rw [hlenk, hn0]; exact hcap) hheap X3h hrunX hatX hroom
      obtain ⟨C0, r, hr, hXB⟩ := XC.let_parts C hlenρ (Nat.sub_le _ _) RX.heap hheap hdef LP
      have hNlen : (Γ'.take (Γ'.length - Γc.length)).length = Γ'.length - Γc.length := by simp
      have C' := XC.snoc C0 (by simp [hlenρ]) ⟨x, .cns, ty⟩ (.clo Γc (ρ.drop (Γ'.length - Γc.length)) clauses)
        (fun w hw => by
          rw [hNlen, hr, ha]
          rw [hNlen, hw0] at hw
          injection hw with hw
          subst hw
          exact .clo Γc _ _ clauses r a w0 hkd hXB hmeth hxm hok.1)
      rw [hlenk] at h4 h5 C' hr'
      refine ⟨cfg', hs', X', X', m, hm, Tol.refl _ _, (fun hj => False.elim hj), h2, h3, hfr, hpk,
        ⟨_, ι', κ', ?_, h4, h5, C', k1, k1', items', hr', hat'⟩, hok.2⟩
      show Ctx.keys (Γ'.take (Γ.length - Γc.length) ++ [_]) =
        Ctx.keys (Γ.take (Γ.length - Γc.length) ++ [_])
      rw [htake, ← hlenk]
      exact keys_append hkt rfl
  | @switch _ Γ0 b x ty cls fv d hn hsplit hb hd hm hcl =>
    subst hsplit
    obtain ⟨ρ', v, rfl, hρ', hv⟩ := Pos.env_last henv
    have hbid : b.var.id = x.id := congrArg (·.1) hb
    have hbchi : b.chi = .prd := congrArg (·.2.1) hb
    have hbty : b.ty = ty := congrArg (·.2.2) hb
    rw [hbchi, hbty] at hv
    have hlen : (ρ' ++ [v]).length = (Γ0 ++ [b]).length := by
      rw [henv.length_eq, Pos.chiTys_length]
    have hcnd : ¬ (b.var.id ≠ x.id ∨ (ρ' ++ [v]).length ≠ (Γ0 ++ [b]).length) := by
      simp [hbid, hlen]
    cases hv with
    | obj hd' hx hf =>
      rename_i d' tag xt fields
      have := Pos.lookupTypeDecl_unique hd hd'
      subst this
      obtain ⟨cl, hc1, hc2, hc3⟩ := Pos.nthClause_ok d.xtors cls tag xt hm hx
      have hfl : fields.length = cl.ctx.length := by
        rw [hf.length_eq, hc2, Pos.chiTys_length]
      simp only [Pos.step, List.getLast?_concat, if_neg hcnd, hc1, hfl, ne_eq, not_true_eq_false,
        if_false, List.dropLast_concat]
      intro hcap hcap2
      obtain ⟨Γ0', b', rfl, hk0, hkb⟩ := keys_snoc hk
      have hb'id : b'.var.id = x.id := by
        have := congrArg (·.1) hkb
        simp only [Binding.key] at this
        rw [this]; exact hbid
      have hb'chi : b'.chi = .prd := by
        have := congrArg (·.2.1) hkb
        simp only [Binding.key] at this
        rw [this]; exact hbchi
      have hkinds : fields.map Sim2.kindOf = Mock.kindsOf cl.ctx := by
        rw [kinds_of_fieldsTyped hf, hc2, chiTys_fst]
      have hfr : x.id ∉ Γ0.ids := by rw [← hbid]; exact fresh_of_nodup_snoc hn
      have hlen0 : ρ'.length = Γ0'.length := by simpa using hlenρ
      obtain ⟨k, cfg', X', hs', m, h1, hm, hfr', h2, h3, h4, h5, k1, k1', items', hr', hat', LP⟩ :=
        switch_x3 HF h8 hmon LA hndL hfitX RX
        hfits hb'id (mem_ids_keys hk0 hfr) hc1 hkinds
        (by
          simp only [WithinCapacity, List.length_append] at hcap
          rw [keys_length hk0]; exact hcap) X3h hrunX hatX
        (by
          simp only [List.length_append] at hcap2
          rw [keys_length hk0]; exact hcap2)
      have hXB : ∀ r, cfg.temps.get (2 * Γ0'.length) = some r →
          XB (Program.ofOps code) F.c cs hooks prog.types cfg.heap κ fields r := by
        intro r hr
        have hi1 : Γ0'.length < (Γ0' ++ [b']).length := by simp
        have hi2 : Γ0'.length < (ρ' ++ [Value.obj tag fields]).length := by simp [hlen0]
        obtain ⟨w, hw⟩ := Option.isSome_iff_exists.mp (hdef _ hi1)
        have hC := C _ hi1 hi2 w hw
        have g1 : (Γ0' ++ [b'])[Γ0'.length] = b' := by simp
        have g2 : (ρ' ++ [Value.obj tag fields])[Γ0'.length] = .obj tag fields := by
          rw [List.getElem_append_right (by omega)]; simp [hlen0]
        rw [g1, g2, hb'chi, hr] at hC
        obtain ⟨r', hr', hB⟩ := hC.obj_inv
        simp only [show ((Chi.prd == Chi.ext) = true) = False from by decide, if_false,
          Option.some.injEq] at hr'
        rw [hr']; exact hB
      exact ⟨cfg', hs', X', X', m, hm, Tol.refl _ _, (fun hj => False.elim hj), h2, by omega, FrLe.mono' hfr' (by omega),
        FrPk.of_frLe0 hfr',
        ⟨Γ0' ++ cl.ctx, ι, κ, keys_append hk0 rfl, h4, h5,
          XC.load C hlen0 rfl RX.heap h1 h4 hkinds LP hXB, k1, k1', items', hr', hat'⟩,
        clausesB_nth hok hc1⟩
  | @invoke _ Γa b x tag ty args sig hn hsplit hb hs hs' =>
    subst hsplit
    obtain ⟨ρ', v, rfl, hρ', hv⟩ := Pos.env_last henv
    have hbid : b.var.id = x.id := congrArg (·.1) hb
    have hbchi : b.chi = .cns := congrArg (·.2.1) hb
    have hbty : b.ty = ty := congrArg (·.2.2) hb
    rw [hbchi, hbty] at hv
    have hlen : (ρ' ++ [v]).length = (Γa ++ [b]).length := by
      rw [henv.length_eq, Pos.chiTys_length]
    have hcnd : ¬ (b.var.id ≠ x.id ∨ (ρ' ++ [v]).length ≠ (Γa ++ [b]).length) := by
      simp [hbid, hlen]
    obtain ⟨d, xt, i, hd, hx, hxs, htp'⟩ := Pos.tagPosition_ok hs
    cases hv with
    | clo hd' hm hf hcl =>
      rename_i d' Γc env cls
      have := Pos.lookupTypeDecl_unique hd hd'
      subst this
      obtain ⟨cl, hc1, hc2, hc3⟩ := Pos.nthClause_ok d.xtors cls i xt hm hx
      have hal : (Γa ++ [b]).length - 1 = cl.ctx.length := by
        have : Γa.length = cl.ctx.length := by
          rw [← Pos.chiTys_length Γa, hs', ← hxs, hc2, Pos.chiTys_length]
        simp [this]
      simp only [Pos.step, List.getLast?_concat, if_neg hcnd, htp', hc1, hal, ne_eq, not_true_eq_false,
        if_false, List.dropLast_concat]
      intro hcap hcap2
      obtain ⟨Γa', b', rfl, hk0, hkb⟩ := keys_snoc hk
      have hb'id : b'.var.id = x.id := by
        have := congrArg (·.1) hkb
        simp only [Binding.key] at this
        rw [this]; exact hbid
      have hb'chi : b'.chi = .cns := by
        have := congrArg (·.2.1) hkb
        simp only [Binding.key] at this
        rw [this]; exact hbchi
      have hkinds : env.map Sim2.kindOf = Mock.kindsOf Γc := by
        rw [kinds_of_fieldsTyped hf, chiTys_fst]
      have hfr : x.id ∉ Γa.ids := by rw [← hbid]; exact fresh_of_nodup_snoc hn
      have hargs : Γa'.map (·.chi) = cl.ctx.map (·.chi) := by
        rw [keys_chi hk0]
        have h1 : Ctx.chiTys Γa = Ctx.chiTys cl.ctx := by rw [hs', ← hxs, hc2]
        have := congrArg (List.map (·.1)) h1
        simpa [Ctx.chiTys, Function.comp_def] using this
      have hlen0 : ρ'.length = Γa'.length := by simpa using hlenρ
      -- the closure at the last position: its methods on both sides
      have hi1 : Γa'.length < (Γa' ++ [b']).length := by simp
      have hi2 : Γa'.length < (ρ' ++ [Value.clo Γc env cls]).length := by simp [hlen0]
      obtain ⟨w, hw⟩ := Option.isSome_iff_exists.mp (hdef _ hi1)
      have hC := C _ hi1 hi2 w hw
      have g2 : (ρ' ++ [Value.clo Γc env cls])[Γa'.length] = .clo Γc env cls := by
        rw [List.getElem_append_right (by omega)]; simp [hlen0]
      rw [g2] at hC
      obtain ⟨r0, a, envCtx', hp0, ha0, hke, hXB0, hmeth, hxm, hcb⟩ := hC.clo_inv
      obtain ⟨_, hsome, _, _⟩ := RX.vals _ hi1 hi2
      obtain ⟨aw, haw⟩ := Option.isSome_iff_exists.mp hsome
      have hword : cfg.temps.get (2 * Γa'.length + 1) = some (BitVec.ofNat 64 a) := by
        rw [haw] at ha0 ⊢
        simp only [Option.getD_some] at ha0
        rw [ha0]
      have hposlt : i < d.xtors.length := by
        obtain ⟨dT, hdT, hxT⟩ := tagPosition_ok htp'
        have := Pos.lookupTypeDecl_unique hd hdT
        subst this
        have := xtorPosition_go_lt d.xtors tag 0 i hxT
        omega
      have hdm : d ∈ prog.types := by
        cases ty with
        | i64 => simp [lookupTypeDecl] at hd
        | decl nm => exact List.mem_of_find?_eq_some hd
      have hi32 : fitsI32 (jumpLength i) = true := by
        have := hprog.1 d hdm
        unfold maxTagsX86 at this
        unfold fitsI32 jumpLength
        have e5 : (consts.jumpLengthFactor : Int) = 5 := rfl
        rw [e5]
        simp only [decide_eq_true_eq, Bool.and_eq_true]
        omega
      have hcapW : 2 * (cl.ctx.length + Γc.length) + 2 < Mock.T_TEMP := by
        simpa [WithinCapacity] using hcap
      obtain ⟨k, cfg', X', XR, hs', m, h1, hm, T', hfr', h2, h3, h4, h5, k1, k1', items', hr', hat', LP, ⟨n1, Xm, hn1lt, hn1, hreal1⟩, hmid, hland⟩ :=
        invoke_x3P HF h8 hmon LA hndL hfitX hreal RX hfits hb'id (mem_ids_keys hk0 hfr) htp' hc1
        (fun d0 hd0 => by
          have := Pos.lookupTypeDecl_unique hd hd0
          subst this
          exact Scc.Props.C06Generic.clausesMatch_length _ _ hm)
        hargs hkinds hcapW X3h hke hword hmeth hw hxm hrunX hatX
        (by simpa using hcap2) hi32
      have hXB : ∀ r, cfg.temps.get (2 * Γa'.length) = some r →
          XB (Program.ofOps code) F.c cs hooks prog.types cfg.heap κ env r := by
        intro r hr
        have g1 : (Γa' ++ [b'])[Γa'.length] = b' := by simp
        rw [g1, hb'chi, hr] at hp0
        simp only [show ((Chi.cns == Chi.ext) = true) = False from by decide, if_false,
          Option.some.injEq] at hp0
        rw [hp0]; exact hXB0
      have hkinds' : env.map Sim2.kindOf = Mock.kindsOf envCtx' := by
        rw [show Mock.kindsOf envCtx' = Mock.kindsOf Γc from kinds_of_keys hke]; exact hkinds
      exact ⟨cfg', hs', X', XR, m, hm, T', (fun _ => ⟨n1, Xm, hn1lt, hn1, hreal1⟩), h2, by omega, FrLe.mono' hfr' (by omega),
        FrPk.of_frLe0 hfr',
        ⟨cl.ctx ++ envCtx', ι, κ, keys_append rfl hke, h4, h5,
          XC.load C hlen0 hargs RX.heap h1 h4 hkinds' LP hXB, k1, k1', items', hr', hat'⟩,
        clausesB_nth hcb hc1⟩

end Run3P

end Scc.X86.Ref.K
