/-
  Scc.X86.RefDefs — SPEC definitions for "Theorem B" (C06, x86-64): the REFINEMENT from the abstract
  backend machine `Scc.Backend.Abs` (AbstractMachine.lean: executes the `MockOp`s that the generic code
  generator emits with the mock backend) to the x86-64 SPEC machine (Scc/X86/Machine.lean) executing
  the instructions that the SAME generator emits with `x86Backend`.

  * `OpRel g op blk g'` — the x86 instruction list `blk` is the rendering of the abstract instruction
    `op` (temporary `t` of the mock numbering ↦ `posTemp t` = utils.rs temporary_from_position: registers
    4..15, then spill slots 1..255; RET1 ↦ rax), together with the static side conditions under which
    the backend method is correct (operands within capacity, fresh target of `op`, literal within i64).
    `g`, `g'` : `Mode` is the scratch discipline of parallel_moves.rs before / after the instruction:
    between a `save` and the matching `restore` (`Mode.pm spill`) the abstract scratch cell lives in
    TEMP (`spill = false`: then no spill-to-spill `mov`, which goes through TEMP, may occur) or in the
    reserved slot SPILL_TEMP (`spill = true`).
  * `Seg g ops cs g'` — the code list `cs` is the concatenation of the renderings of `ops`.
  * `At ops cs a i g` — abstract address `a` of `Program.ofOps ops` corresponds to item index `i` of
    the x86 item list `cs`: the suffixes from there on are related by `Seg`.
  * `RepX86` — the representation relation: temporary `t` of the abstract machine ↔ register / spill
    slot `posTemp t`; RET1 ↔ rax; scratch ↔ TEMP / SPILL_TEMP; equal traces; `rsp` at the statement
    boundary value with the callee-save area and the caller's stack above it untouched (what the
    epilogue needs).  INTEGER FRAGMENT: only the WORD parts of the positions (odd temporaries) are
    tracked, and the abstract heap is not represented (see the header of Props/C06X86.lean).
  Core imports only besides the proof files that define `tempVal`, `Boundary`, `posTemp`.
-/
import Scc.X86.MemProofsStore
import Scc.X86.ProofsCCMachine
import Scc.Backend.SimDefs

namespace Scc.X86.Ref

open Scc.AxCut Scc.Backend Scc.Backend.Abs Scc.Backend.Sim Scc.X86

/-- scratch discipline of parallel_moves.rs -/
inductive Mode where
  | normal
  | pm (spill : Bool)
  /-- between `mov RET1 t` and `jumplabel cleanup`: rax holds the result -/
  | exit
  deriving DecidableEq, Repr

/-- the word-part temporary of a position within the capacity of utils.rs temporary_from_position -/
def PosW (t : Nat) : Prop := t % 2 = 1 ∧ t < 267

instance (t : Nat) : Decidable (PosW t) := by unfold PosW; infer_instance

def isSpill : Temporary → Bool
  | .spill _ => true
  | .reg _ => false

/-- where parallel_moves.rs keeps the saved value of a cycle -/
def scratchLoc (spill : Bool) : Temporary := if spill then .spill SPILL_TEMP else .reg TEMP

/-- `blk` renders `op`; `g ⟶ g'` is the scratch mode before / after -/
def OpRel (g : Mode) (op : MockOp) (blk : List Code) (g' : Mode) : Prop :=
  match op with
  | .comment m => blk = [.COMMENT m] ∧ g' = g
  | .label n => blk = [.LAB n] ∧ g = .normal ∧ g' = .normal
  | .jumpLabel n => blk = [.JMPL n] ∧ g' = .normal ∧ (g = .normal ∨ (g = .exit ∧ n = "cleanup"))
  | .jif c a b n => blk = jumpLabelIf c (posTemp a) (posTemp b) n ∧ PosW a ∧ PosW b ∧
      g = .normal ∧ g' = .normal
  | .jifz c a n => blk = jumpLabelIfZero c (posTemp a) n ∧ PosW a ∧ g = .normal ∧ g' = .normal
  | .li t imm => blk = loadImmediate (posTemp t) imm ∧ PosW t ∧ fitsI64 imm = true ∧
      g = .normal ∧ g' = .normal
  | .binop o t a b => blk = binop o (posTemp t) (posTemp a) (posTemp b) ∧ PosW t ∧ PosW a ∧ PosW b ∧
      t ≠ a ∧ t ≠ b ∧ 3 ≤ t ∧ g = .normal ∧ g' = .normal
  | .mov t s =>
      (t = Mock.T_RET1 ∧ PosW s ∧ blk = mov (.reg RETURN1) (posTemp s) ∧ g = .normal ∧ g' = .exit) ∨
      (PosW t ∧ PosW s ∧ blk = mov (posTemp t) (posTemp s) ∧ g' = g ∧
        (g = .pm false → ¬ (isSpill (posTemp t) = true ∧ isSpill (posTemp s) = true)))
  | .print nl s kinds => ∃ ctx : Ctx, blk = printI64 nl (posTemp s) ctx ∧ kinds = Mock.kindsOf ctx ∧
      PosW s ∧ s < 2 * ctx.length ∧ g = .normal ∧ g' = .normal
  | .save t _ => ∃ b, blk = storeTemporary (posTemp t) b ∧ PosW t ∧ (g = .normal ∨ g = .pm b) ∧ g' = .pm b
  | .restore t _ => ∃ b, blk = restoreTemporary (posTemp t) b ∧ PosW t ∧ g = .pm b ∧ g' = .normal
  | _ => False

/-- `cs` is the concatenation of the renderings of `ops` -/
inductive Seg : Mode → List MockOp → List Code → Mode → Prop where
  | nil (g : Mode) : Seg g [] [] g
  | cons {g g1 g' : Mode} {op : MockOp} {blk : List Code} {ops : List MockOp} {cs : List Code} :
      OpRel g op blk g1 → Seg g1 ops cs g' → Seg g (op :: ops) (blk ++ cs) g'

theorem Seg.append {g g1 g' : Mode} {o1 o2 : List MockOp} {c1 c2 : List Code}
    (h1 : Seg g o1 c1 g1) (h2 : Seg g1 o2 c2 g') : Seg g (o1 ++ o2) (c1 ++ c2) g' := by
  induction h1 with
  | nil g => simpa using h2
  | cons hop _ ih =>
    rw [List.cons_append, List.append_assoc]
    exact Seg.cons hop (ih h2)

theorem Seg.single {g g' : Mode} {op : MockOp} {blk : List Code} (h : OpRel g op blk g') :
    Seg g [op] blk g' := by
  have := Seg.cons h (Seg.nil g')
  simpa using this

/-- splitting at an instruction boundary -/
theorem Seg.split {g g' : Mode} : ∀ {o1 o2 : List MockOp} {cs : List Code}, Seg g (o1 ++ o2) cs g' →
    ∃ c1 c2 gm, cs = c1 ++ c2 ∧ Seg g o1 c1 gm ∧ Seg gm o2 c2 g'
  | [], o2, cs, h => ⟨[], cs, g, rfl, Seg.nil g, h⟩
  | op :: o1, o2, cs, h => by
    cases h with
    | cons hop hrest =>
      obtain ⟨c1, c2, gm, e, s1, s2⟩ := Seg.split hrest
      exact ⟨_ ++ c1, c2, gm, by rw [e, List.append_assoc], Seg.cons hop s1, s2⟩

/-- abstract address `a` ↔ item index `i`: the suffixes from there are related -/
def At (ops : List MockOp) (cs : List Code) (a i : Nat) (g : Mode) : Prop :=
  ∃ ops1 ops2 cs1 cs2 tail, ops = ops1 ++ ops2 ∧ cs = cs1 ++ cs2 ++ tail ∧ instrCount ops1 = a ∧
    cs1.length = i ∧ Seg g ops2 cs2 .normal

/-- what is fixed during a run: machine configuration, `rsp` at statement boundaries, the state after
    the prologue (for the callee-save area) -/
structure Frame where
  c : MachCfg
  /-- entry value of `rsp` -/
  m : Nat
  /-- state after the prologue -/
  st1 : State

def Frame.spN (F : Frame) : Nat := F.m - 2096
def Frame.sp (F : Frame) : Word := BitVec.ofNat 64 F.spN

/-- THE REPRESENTATION RELATION (integer fragment) -/
structure RepX86 (F : Frame) (g : Mode) (cfg : Config) (st : State) : Prop where
  bnd : Boundary F.c st F.sp
  /-- word parts of the positions -/
  temps : ∀ t v, PosW t → cfg.temps.get t = some v → tempVal F.sp st (posTemp t) = some v
  /-- RET1 is rax (defined only between `mov RET1 t` and `jumplabel cleanup`) -/
  ret : ∀ v, cfg.temps.get Mock.T_RET1 = some v → g = .exit ∧ tempVal F.sp st (.reg RETURN1) = some v
  /-- the scratch cell of parallel moves -/
  scratch : ∀ b, g = .pm b → ∀ w, cfg.scratch = some w → tempVal F.sp st (scratchLoc b) = some w
  out : st.out = cfg.out
  /-- callee-save area and everything above it: as the prologue left it -/
  frame : ∀ n, F.m - 48 ≤ n → st.stackMem[n]? = F.st1.stackMem[n]?

/-- comments carry no semantics: codes are compared up to the text of comments -/
def stripC : Code → Code
  | .COMMENT _ => .COMMENT ""
  | c => c

end Scc.X86.Ref
