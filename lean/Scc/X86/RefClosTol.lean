/-
  Scc.X86.RefClosTol — the machine "a few no-ops ahead" (C06 on x86-64, `invoke` of a closure of a type
  with ONE method): `jmp reg` to the byte address of the method label lands on the first item of non-zero
  size at that address — labels and comments have size 0, so the machine is `Tol cs X0 X`: at the state `X`,
  which is the statement-boundary state `X0` moved forward over labels and comments.  The simulation
  continues from `X0`; `tol_run` brings the two together again.
-/
import Scc.X86.RefHeapBridge

set_option linter.unusedVariables false
set_option linter.unusedSimpArgs false

namespace Scc.X86.Ref

open Scc.X86

/-- item `i` of the routine has size 0: a label, a comment (or a directive) -/
def NoopAt (cs : List Code) (i : Nat) : Prop := ∃ code, cs[i]? = some code ∧ codeSize code = 0

/-- `X` is `X0` moved forward over labels and comments -/
structure Tol (cs : List Code) (X0 X : State) : Prop where
  le : X0.pc ≤ X.pc
  eq : X = setPS X0 X.pc X0.steps
  noop : ∀ i, X0.pc ≤ i → i < X.pc → NoopAt cs i

theorem setPS_self (s : State) : setPS s s.pc s.steps = s := rfl

theorem Tol.refl (cs : List Code) (X : State) : Tol cs X X := ⟨Nat.le_refl _, rfl, fun i h1 h2 => by omega⟩

theorem Tol.trans {cs : List Code} {a b c : State} (h1 : Tol cs a b) (h2 : Tol cs b c) : Tol cs a c := by
  refine ⟨Nat.le_trans h1.le h2.le, ?_, ?_⟩
  · have e1 := h1.eq
    have e2 := h2.eq
    rw [e2, e1]
    rfl
  · intro i hi1 hi2
    by_cases h : i < b.pc
    · exact h1.noop i hi1 h
    · exact h2.noop i (by omega) hi2

section
variable (m : MonCfg) {p : Prog} {cs : List Code} (L : Loaded p cs)

include L in
/-- a label or a comment does nothing -/
theorem noop_step {s : State} (h : NoopAt cs s.pc) : step m p s = .inl (setPS s (s.pc + 1) s.steps) := by
  have hc := L.code s.pc
  obtain ⟨code, hl, hz⟩ := h
  rw [hl] at hc
  cases hp : p.code[s.pc]? with
  | none => rw [hp] at hc; cases hc
  | some code' =>
    rw [hp] at hc
    simp only [Option.map_some, Option.some.injEq] at hc
    have hz' : codeSize code' = 0 := by rw [← codeSize_strip, hc, codeSize_strip]; exact hz
    cases code' <;> simp [codeSize] at hz' <;> simp [step, hp, execCode, codeSize, setPS]

include L in
/-- a run of labels and comments -/
theorem noop_steps : ∀ (d : Nat) (s : State), (∀ i, s.pc ≤ i → i < s.pc + d → NoopAt cs i) →
    stepN m p d s = .inl (setPS s (s.pc + d) s.steps)
  | 0, s, _ => rfl
  | d + 1, s, h => by
    simp only [stepN]
    rw [noop_step m L (h s.pc (Nat.le_refl _) (by omega))]
    simp only
    have := noop_steps d (setPS s (s.pc + 1) s.steps) (fun i h1 h2 => h i (by simp [setPS] at h1; omega)
      (by simp [setPS] at h2; omega))
    rw [this]
    simp only [setPS]
    congr 2
    omega

include L in
theorem Tol.steps {X0 X : State} (T : Tol cs X0 X) : stepN m p (X.pc - X0.pc) X0 = .inl X := by
  rw [noop_steps m L (X.pc - X0.pc) X0 (fun i h1 h2 => T.noop i h1 (by have := T.le; omega))]
  have : X0.pc + (X.pc - X0.pc) = X.pc := by have := T.le; omega
  rw [this, ← T.eq]

include L in
/-- the simulation runs from the boundary state `X0`, the machine is at `X`: either the machine reaches the
new state, or the new state is still behind the machine (only labels and comments were passed) -/
theorem tol_run {X0 X X1 : State} (T : Tol cs X0 X) {n : Nat} (h : stepN m p n X0 = .inl X1) :
    (∃ k, stepN m p k X = .inl X1) ∨ Tol cs X1 X := by
  by_cases hn : X.pc - X0.pc ≤ n
  · left
    refine ⟨n - (X.pc - X0.pc), ?_⟩
    have := stepN_add m p (X.pc - X0.pc) (n - (X.pc - X0.pc)) X0 X (T.steps m L)
    rw [show X.pc - X0.pc + (n - (X.pc - X0.pc)) = n by omega] at this
    rw [← this]; exact h
  · right
    have hle := T.le
    have h1 := noop_steps m L n X0 (fun i h1 h2 => T.noop i h1 (by omega))
    rw [h1] at h
    injection h with h
    subst h
    refine ⟨by simp [setPS]; omega, ?_, ?_⟩
    · conv => lhs; rw [T.eq]
      rfl
    · intro i hi1 hi2
      exact T.noop i (by simp [setPS] at hi1; omega) hi2

include L in
/-- the same for a halting run: the machine reaches the last state -/
theorem tol_run_done {X0 X XL : State} (T : Tol cs X0 X) {n : Nat} (h : stepN m p n X0 = .inl XL)
    {v : Word} (hd : step m p XL = .inr (.done v)) : ∃ k, stepN m p k X = .inl XL := by
  rcases tol_run m L T h with h1 | h1
  · exact h1
  · by_cases hlt : XL.pc < X.pc
    · have := noop_step m L (h1.noop XL.pc (Nat.le_refl _) hlt)
      rw [this] at hd
      cases hd
    · have e : X.pc = XL.pc := by have := h1.le; omega
      refine ⟨0, ?_⟩
      have := h1.eq
      rw [e] at this
      simp only [stepN]
      rw [this]
      rfl

end

end Scc.X86.Ref
