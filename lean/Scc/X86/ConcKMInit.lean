/-
  Scc.X86.ConcKMInit — THE HEADER OF THE ROUTINE WITH THE PROGRAM COUNTERS IN BETWEEN (`MidS`, Scc/X86/ConcKMid.lean;
  gap (4b) of `C09_x86_monitor_statement`): from the machine's initial state (at the label `asm_main`) through the
  prologue, the parameter moves and the comment `actual code` no `#ctx` comment is passed.  `init_sim3M` is
  `init_sim3` (Scc/X86/RefClosHInit.lean) with this one more conjunct (same proof).
-/
import Scc.X86.ConcKNoCtx

set_option linter.unusedVariables false
set_option linter.unusedSimpArgs false

namespace Scc.X86.Ref.K

open Scc.AxCut Scc.AxCut.Pos Scc.Backend Scc.Backend.Abs Scc.Backend.Sim Scc.Backend.Sim2 Scc.X86
open Scc.Heap (HState InvS InvW)
open Scc.Heap.Refine (HRef)

theorem noCtx_moveArguments : ∀ (n : Nat) {moves : List Code}, moveArguments n = .ok moves → NoCtx moves
  | 0, moves, h => by
    simp only [moveArguments, Except.ok.injEq] at h
    subst h; nc
  | 1, moves, h => by
    simp only [moveArguments] at h
    split at h
    · simp only [Except.ok.injEq] at h
      subst h; nc
    · cases h
  | n + 2, moves, h => by
    simp only [moveArguments] at h
    split at h
    · cases h
    · split at h
      · rename_i rest hrest
        simp only [Except.ok.injEq] at h
        subst h
        exact NoCtx.append (by nc) (noCtx_moveArguments (n + 1) hrest)
      · cases h

/-- `init_sim` with the heap view -/
theorem init_sim3M {mon : MonCfg} (MO : MachOK mon.mach) {p : Prog}
    {routine body : List Code} {args : List Word} (hn : args.length ≤ 5)
    (hr : intoRoutine body args.length = .ok routine) (L : Loaded p routine) :
    ∃ (hdr : List Code) (F : Frame) (h : Word) (st0' : State) (k : Nat) (st2 : State),
      routine = hdr ++ body ++ cleanup ∧ labs hdr = ["asm_main"] ∧ labIdx routine "asm_main" = some 6 ∧
      F.c = mon.mach ∧ FrameOK F ∧ EntryFacts F st0' h ∧
      stepN mon p k (initState mon.mach args 6) = .inl st2 ∧ st2.pc = hdr.length ∧
      RepX86 F .normal (initConfig 0 args) st2 ∧
      HeapRel F.c st2 (Scc.Heap.init F.c.heapBase (F.c.heapBase + F.c.heapBytes)) ∧
      MidS mon p routine k (initState mon.mach args 6) := by
  obtain ⟨moves, hm, hshape⟩ := intoRoutine_shape hr
  have I := initFacts mon.mach args hn 6
  have hc8 := MO.top16
  have hroom := MO.room
  have htop := MO.cfg.top
  -- the label `asm_main`
  have hcs1 : routine = [Code.COMMENT "asmsyntax=nasm", .NOEXECSTACK, .TEXT, .EXTERN "print_i64",
      .EXTERN "println_i64", .GLOBAL "asm_main"] ++ Code.LAB "asm_main" ::
      ((prologue ++ moves ++ [Code.COMMENT "actual code"]) ++ (body ++ cleanup)) := hshape
  have hidx : labIdx routine "asm_main" = some 6 := by
    rw [hcs1]
    exact labIdx_append_of_not_mem _ _ _ (by simp [labs, codeLabelDef])
  obtain ⟨k1, hk1⟩ := step_fall mon L hcs1 (s := initState mon.mach args 6) rfl
    (show execCode mon.mach p.labelAddr (.LAB "asm_main") (initState mon.mach args 6) =
      .ok (initState mon.mach args 6, .next) from rfl)
  -- the prologue
  have E : EntryOK mon.mach (setPS (initState mon.mach args 6) 7 k1) (mon.mach.stackTop - 8) :=
    ⟨MO.cfg, I.size, I.rsp, by omega, by omega, by omega⟩
  obtain ⟨st1, e1, P⟩ := prologue_machine (la := p.labelAddr) E (h := BitVec.ofNat 64 mon.mach.heapBase) I.heap
  -- the parameter moves
  have R1 := st1.rel_view P.size
  obtain ⟨a', ea, hargs, hrsp, hmem⟩ := a_moveArguments mon.mach p.labelAddr args.length moves hn hm st1.view
  obtain ⟨st2, e2, R2, S2⟩ := sim_execList p.labelAddr R1 ea
  obtain ⟨hk2r, hk3r⟩ := a_moveArguments_keep23 mon.mach p.labelAddr args.length moves hn hm st1.view a' ea
  have hB : execStraight mon.mach p.labelAddr (prologue ++ moves ++ [Code.COMMENT "actual code"])
      (setPS (initState mon.mach args 6) 7 k1) = .ok st2 := by
    rw [execStraight_append, execStraight_append, e1]
    simp only [e2]
    rfl
  have hcs2 : routine = ([Code.COMMENT "asmsyntax=nasm", .NOEXECSTACK, .TEXT, .EXTERN "print_i64",
      .EXTERN "println_i64", .GLOBAL "asm_main"] ++ [Code.LAB "asm_main"]) ++
      (prologue ++ moves ++ [Code.COMMENT "actual code"]) ++ (body ++ cleanup) := by
    rw [hcs1]; simp
  obtain ⟨k2, hk2⟩ := steps_block mon L hcs2 (s := setPS (initState mon.mach args 6) 7 k1) rfl hB
  let F : Frame := ⟨mon.mach, mon.mach.stackTop - 8, st1⟩
  have HF : FrameOK F := ⟨MO.cfg, by show (mon.mach.stackTop - 8) % 16 = 8; omega,
    by show mon.mach.stackLow + 2168 ≤ mon.mach.stackTop - 8; omega, by show mon.mach.stackTop - 8 ≤ mon.mach.stackTop; omega⟩
  refine ⟨header moves, F, BitVec.ofNat 64 mon.mach.heapBase, setPS (initState mon.mach args 6) 7 k1,
    1 + (prologue ++ moves ++ [Code.COMMENT "actual code"]).length,
    setPS st2 (([Code.COMMENT "asmsyntax=nasm", .NOEXECSTACK, .TEXT, .EXTERN "print_i64",
      .EXTERN "println_i64", .GLOBAL "asm_main"] ++ [Code.LAB "asm_main"]).length +
      (prologue ++ moves ++ [Code.COMMENT "actual code"]).length) k2,
    ?_, labs_header hn hm, hidx, rfl, HF, ?_, ?_, ?_, ?_, ?_, ?_⟩
  · rw [hcs1]; simp [header]
  · exact ⟨E, P, rfl, by show mon.mach.stackTop % 8 = 0; omega, by show mon.mach.stackLow + 8 ≤ mon.mach.stackTop; omega,
      I.retw, I.callee⟩
  · rw [stepN_add mon p 1 _ _ _ (by rw [stepN_one]; exact hk1)]
    exact hk2
  · simp [setPS, header]; omega
  · apply RepX86.setPS
    have hsp : st2.regs[0]? = some (some F.sp) := by
      rw [R2.regs 0 (by decide), hrsp, ← R1.regs 0 (by decide), P.rsp]
      rfl
    refine ⟨⟨R2.size, hsp, HF.spOK⟩, ?_, ?_, ?_, ?_, ?_⟩
    · intro t v ht hg
      obtain ⟨i, hi, rfl, rfl⟩ := initTemps_get_inv args 0 t v hg
      have hi5 : i < 5 := by omega
      have hpos : posTemp (2 * (0 + i) + 1) = .reg (2 * i + 5) := by
        unfold posTemp
        rw [if_pos (by omega)]
        congr 1; omega
      rw [hpos]
      simp only [tempVal]
      have hlt : 2 * i + 5 < 16 := by omega
      have hareg : argReg i < 16 ∧ argReg i ≠ 0 ∧ argReg i ≠ 2 ∧ argReg i ≠ 3 := by
        have : i = 0 ∨ i = 1 ∨ i = 2 ∨ i = 3 ∨ i = 4 := by omega
        rcases this with rfl | rfl | rfl | rfl | rfl <;> simp [argReg]
      rw [R2.regs _ hlt, hargs i hi, ← R1.regs _ hareg.1, P.regs _ hareg.1 hareg.2.1 hareg.2.2.1 hareg.2.2.2]
      show ((initState mon.mach args 6).regs[argReg i]?).join = _
      rw [I.args i hi]
      rfl
    · intro v hg
      obtain ⟨i, hi, ht, _⟩ := initTemps_get_inv args 0 _ v hg
      exfalso
      unfold Mock.T_RET1 at ht
      omega
    · intro b hb; cases hb
    · rw [S2.out, P.same.out]
      exact I.out
    · intro n _
      rw [R2.mem, hmem]
      rfl
  · -- the heap: nothing written, HEAP = heap base, FREE = heap base + 64
    have hhb : mon.mach.heapBase + 64 < 2 ^ 64 := by
      have := MO.cfg.heapBelow; omega
    refine ⟨rfl, rfl, ?_, ?_, ?_⟩
    · intro a
      show Scc.Heap.Mem.empty.get a = ((setPS st2 _ k2).heapMem.getD a 0).toNat
      have : (setPS st2 (([Code.COMMENT "asmsyntax=nasm", .NOEXECSTACK, .TEXT, .EXTERN "print_i64",
        .EXTERN "println_i64", .GLOBAL "asm_main"] ++ [Code.LAB "asm_main"]).length +
        (prologue ++ moves ++ [Code.COMMENT "actual code"]).length) k2).heapMem = ∅ := by
        show st2.heapMem = ∅
        rw [S2.heapMem, P.same.heapMem]
        rfl
      rw [this]
      simp [Scc.Heap.Mem.empty, Scc.Heap.Mem.get]
    · refine ⟨BitVec.ofNat 64 mon.mach.heapBase, ?_, ?_⟩
      · show st2.regs[HEAP]? = _
        rw [show HEAP = 2 from rfl, R2.regs 2 (by decide), hk2r, ← R1.regs 2 (by decide), P.heap]
      · show (BitVec.ofNat 64 mon.mach.heapBase).toNat = mon.mach.heapBase
        simp [BitVec.toNat_ofNat, Nat.mod_eq_of_lt (show mon.mach.heapBase < 2 ^ 64 by omega)]
    · refine ⟨BitVec.ofNat 64 mon.mach.heapBase + 64, ?_, ?_⟩
      · show st2.regs[FREE]? = _
        rw [show FREE = 3 from rfl, R2.regs 3 (by decide), hk3r, ← R1.regs 3 (by decide), P.free]
      · show (BitVec.ofNat 64 mon.mach.heapBase + 64).toNat = mon.mach.heapBase + Scc.Heap.blockSize
        simp only [BitVec.toNat_add, BitVec.toNat_ofNat, Scc.Heap.blockSize]
        rw [Nat.mod_eq_of_lt (show mon.mach.heapBase < 2 ^ 64 by omega)]
        have : (64 : BitVec 64).toNat = 64 := rfl
        rw [this, Nat.mod_eq_of_lt hhb]
  · exact MidS.trans (midS_one (not_ctxAt_of_split hcs1 rfl (not_isCtx_of_noComment rfl)))
      ((stepN_one mon p _).trans hk1)
      (midS_straight mon L ⟨_, body ++ cleanup, hcs2, rfl⟩ hB
        (NoCtx.append (NoCtx.append (by unfold prologue; nc) (noCtx_moveArguments _ hm)) (by nc)))

end Scc.X86.Ref.K
