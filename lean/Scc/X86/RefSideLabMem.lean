/-
  Scc.X86.RefSideLabMem — SIDE HYPOTHESES of the x86-64 run theorems (C06), part 3a: the labels DEFINED by
  the code of the memory methods of the x86-64 backend (memory.rs: erase_block, share_block_n, store, load).
  Every label definition of that code comes from `skip_if_zero` / `if_zero_then_else`, which define the
  labels `lab<n>` of the numbers they draw: for EVERY run of a memory method from the counter value `k` to
  `k'`, the labels defined by the code are `lab<n>` for pairwise distinct numbers `k < n ≤ k'` (`LFC`).
-/
import Scc.X86.RefStep
import Scc.X86.MemProofsLoad
import Scc.X86.MemProofsStore

set_option linter.unusedVariables false
set_option linter.unusedSimpArgs false

namespace Scc.X86.Ref

open Scc.AxCut Scc.Backend Scc.X86

/-- `L` lists the local labels `lab<n>` of pairwise distinct numbers in `(lo, hi]` -/
def LF (lo hi : Nat) (L : List String) : Prop :=
  ∃ ns : List Nat, L = ns.map labName ∧ ns.Nodup ∧ ∀ n ∈ ns, lo < n ∧ n ≤ hi

theorem LF.nil (lo hi : Nat) : LF lo hi [] := ⟨[], rfl, List.nodup_nil, fun _ h => by cases h⟩

theorem LF.mono {lo hi lo' hi' : Nat} {L : List String} (h : LF lo hi L) (h1 : lo' ≤ lo) (h2 : hi ≤ hi') :
    LF lo' hi' L := by
  obtain ⟨ns, e, nd, hr⟩ := h
  exact ⟨ns, e, nd, fun n hn => by have := hr n hn; omega⟩

theorem LF.append {a b c : Nat} {L1 L2 : List String} (h1 : LF a b L1) (h2 : LF b c L2) (hab : a ≤ b)
    (hbc : b ≤ c) : LF a c (L1 ++ L2) := by
  obtain ⟨n1, e1, d1, r1⟩ := h1
  obtain ⟨n2, e2, d2, r2⟩ := h2
  refine ⟨n1 ++ n2, by rw [e1, e2, List.map_append], ?_, ?_⟩
  · rw [List.nodup_append]
    refine ⟨d1, d2, ?_⟩
    intro x hx y hy e
    have := r1 x hx
    have := r2 y hy
    omega
  · intro n hn
    rcases List.mem_append.1 hn with h | h
    · have := r1 n h; omega
    · have := r2 n h; omega

/-- the same with the two parts in the other order in the code -/
theorem LF.append' {a b c : Nat} {L1 L2 : List String} (h1 : LF a b L1) (h2 : LF b c L2) (hab : a ≤ b)
    (hbc : b ≤ c) : LF a c (L2 ++ L1) := by
  obtain ⟨n1, e1, d1, r1⟩ := h1
  obtain ⟨n2, e2, d2, r2⟩ := h2
  refine ⟨n2 ++ n1, by rw [e1, e2, List.map_append], ?_, ?_⟩
  · rw [List.nodup_append]
    refine ⟨d2, d1, ?_⟩
    intro x hx y hy e
    have := r2 x hx
    have := r1 y hy
    omega
  · intro n hn
    rcases List.mem_append.1 hn with h | h
    · have := r2 n h; omega
    · have := r1 n h; omega

theorem LF.single (k : Nat) : LF k (k + 1) [labName (k + 1)] :=
  ⟨[k + 1], rfl, by simp, fun n hn => by simp at hn; omega⟩

/-- no label is defined -/
def NL (code : List Code) : Prop := ∀ c ∈ code, codeLabelDef c = none

theorem NL.labs {code : List Code} (h : NL code) : labs code = [] := labs_nil_of h

theorem NL.append {a b : List Code} (ha : NL a) (hb : NL b) : NL (a ++ b) := noLab_append ha hb

theorem NL.nil : NL [] := fun _ h => by cases h

theorem labs_cons_lab (l : String) (r : List Code) : labs (.LAB l :: r) = l :: labs r := rfl

theorem labs_cons_other {c : Code} (h : codeLabelDef c = none) (r : List Code) : labs (c :: r) = labs r := by
  unfold labs
  rw [List.filterMap_cons, h]

/-- the labels defined by `code`, generated from counter `k` to `k'` -/
def LFC (k k' : Nat) (code : List Code) : Prop := k ≤ k' ∧ LF k k' (labs code)

theorem LFC.of_nl {code : List Code} (h : NL code) (k : Nat) : LFC k k code :=
  ⟨Nat.le_refl _, by rw [h.labs]; exact LF.nil _ _⟩

theorem LFC.append {a b c : Nat} {c1 c2 : List Code} (h1 : LFC a b c1) (h2 : LFC b c c2) :
    LFC a c (c1 ++ c2) :=
  ⟨by have := h1.1; have := h2.1; omega, by rw [labs_append]; exact h1.2.append h2.2 h1.1 h2.1⟩

theorem LFC.nl_left {a b : Nat} {c1 c2 : List Code} (h1 : NL c1) (h2 : LFC a b c2) : LFC a b (c1 ++ c2) :=
  ⟨h2.1, by rw [labs_append, h1.labs]; exact h2.2⟩

theorem LFC.nl_right {a b : Nat} {c1 c2 : List Code} (h1 : LFC a b c1) (h2 : NL c2) : LFC a b (c1 ++ c2) :=
  ⟨h1.1, by rw [labs_append, h2.labs, List.append_nil]; exact h1.2⟩

/-! ## the two combinators -/

theorem nl_compareImmediate (t : Temporary) (i : Int) : NL (compareImmediate t i) := noLab_compareImmediate t i

theorem labs_skipIfZero (cond : Temporary) (body : List Code) (k : Nat) :
    labs (compareImmediate cond 0 ++ [.JEL (labName (k + 1))] ++ body ++ [.LAB (labName (k + 1))]) =
      labs body ++ [labName (k + 1)] := by
  simp only [labs_append, (nl_compareImmediate cond 0).labs, List.nil_append]
  rfl

theorem lfc_skipIfZero {cond : Temporary} {body : List Code} {a k : Nat} (hb : LFC a k body)
    {code : List Code} {k' : Nat} (h : (skipIfZero cond body).run k = .ok (code, k')) : LFC a k' code := by
  rw [skipIfZero_run] at h
  injection h with h
  injection h with h1 h2
  subst h1 h2
  refine ⟨by have := hb.1; omega, ?_⟩
  rw [labs_skipIfZero]
  exact hb.2.append (LF.single k) hb.1 (by omega)

theorem labs_ifZeroThenElse (c0 : Code) (h0 : codeLabelDef c0 = none) (tb eb : List Code) (k : Nat) :
    labs ([c0, .JEL (labName (k + 1))] ++ eb ++ [.JMPL (labName (k + 2)), .LAB (labName (k + 1))] ++ tb ++
      [.LAB (labName (k + 2))]) = labs eb ++ labName (k + 1) :: (labs tb ++ [labName (k + 2)]) := by
  simp only [labs_append]
  have e1 : labs [c0, Code.JEL (labName (k + 1))] = [] := by
    rw [labs_cons_other h0]; rfl
  rw [e1]
  simp only [List.nil_append, List.append_assoc]
  rfl

/-- `if_zero_then_else`: the branches were generated before, from `a` to `b` and from `b` to `k` (in any
order) -/
theorem lfc_ifZeroThenElse {r : Reg} {off : Option Int} {tb eb : List Code} {a k : Nat}
    (hb : LF a k (labs eb ++ labs tb)) (hak : a ≤ k)
    {code : List Code} {k' : Nat} (h : (ifZeroThenElse r off tb eb).run k = .ok (code, k')) : LFC a k' code := by
  rw [ifZeroThenElse_run] at h
  injection h with h
  injection h with h1 h2
  subst h1 h2
  refine ⟨by omega, ?_⟩
  rw [labs_ifZeroThenElse _ (by cases off <;> rfl)]
  obtain ⟨ns, e, nd, hr⟩ := hb
  -- split the number list along the two branches
  have hlen : (labs eb).length ≤ ns.length := by
    have := congrArg List.length e
    simp at this
    omega
  have e1 : labs eb = (ns.take (labs eb).length).map labName := by
    have := congrArg (List.take (labs eb).length) e
    rw [List.take_left' rfl, ← List.map_take] at this
    exact this
  have e2 : labs tb = (ns.drop (labs eb).length).map labName := by
    have := congrArg (List.drop (labs eb).length) e
    rw [List.drop_left' rfl, ← List.map_drop] at this
    exact this
  refine ⟨ns.take (labs eb).length ++ (k + 1) :: (ns.drop (labs eb).length ++ [k + 2]), ?_, ?_, ?_⟩
  · rw [List.map_append, List.map_cons, List.map_append, ← e1, ← e2]
    rfl
  · have hnd : (ns.take (labs eb).length ++ ns.drop (labs eb).length).Nodup := by
      rw [List.take_append_drop]; exact nd
    rw [List.nodup_append] at hnd ⊢
    obtain ⟨d1, d2, d3⟩ := hnd
    refine ⟨d1, ?_, ?_⟩
    · rw [List.nodup_cons, List.nodup_append]
      refine ⟨?_, d2, by simp, ?_⟩
      · intro hm
        rcases List.mem_append.1 hm with hm | hm
        · have := hr _ (List.mem_of_mem_drop hm); omega
        · simp at hm
      · intro x hx y hy exy
        simp at hy
        have := hr _ (List.mem_of_mem_drop hx); omega
    · intro x hx y hy exy
      have h1 := hr _ (List.mem_of_mem_take hx)
      rcases List.mem_cons.1 hy with hy | hy
      · omega
      · rcases List.mem_append.1 hy with hy | hy
        · exact d3 x hx y hy exy
        · simp at hy; omega
  · intro n hn
    rcases List.mem_append.1 hn with hn | hn
    · have := hr _ (List.mem_of_mem_take hn); omega
    · rcases List.mem_cons.1 hn with hn | hn
      · omega
      · rcases List.mem_append.1 hn with hn | hn
        · have := hr _ (List.mem_of_mem_drop hn); omega
        · simp at hn; omega

/-! ## erase_block, share_block_n, acquire_block: explicit code -/

theorem nl_loadPtr (t : Temporary) : NL (loadPtr t) := by
  cases t <;> simp [loadPtr, NL, codeLabelDef]

theorem lfc_eraseBlock {t : Temporary} {k : Nat} {code : List Code} {k' : Nat}
    (h : (eraseBlock t).run k = .ok (code, k')) : LFC k k' code := by
  rw [eraseBlock_run] at h
  injection h with h
  injection h with h1 h2
  subst h1 h2
  refine ⟨by omega, ?_⟩
  rw [labs_append, (nl_loadPtr t).labs]
  refine ⟨[k + 1, k + 2, k + 3], rfl, ?_, ?_⟩
  · simp
  · intro n hn
    simp only [List.mem_cons, List.not_mem_nil, or_false] at hn
    omega

theorem lfc_shareBlockN {t : Temporary} {n k : Nat} {code : List Code} {k' : Nat}
    (h : (shareBlockN t n).run k = .ok (code, k')) : LFC k k' code := by
  rw [shareBlockN_run] at h
  injection h with h
  injection h with h1 h2
  subst h1 h2
  refine ⟨by omega, ?_⟩
  have e : labs (compareImmediate t 0 ++ [.JEL (labName (k + 1))] ++
      ([.COMMENT "####increment refcount"] ++ loadPtr t ++ [.ADDIM (jumpReg t) 0 (n : Int)]) ++
      [.LAB (labName (k + 1))]) = [labName (k + 1)] := by
    simp only [labs_append, (nl_compareImmediate t 0).labs, (nl_loadPtr t).labs]
    rfl
  rw [e]
  exact LF.single k

theorem nl_acquireHead (t : Temporary) : NL (acquireHead t) := by
  cases t <;> simp [acquireHead, NL, codeLabelDef]

theorem lfc_acquireBlock {t : Temporary} {k : Nat} {code : List Code} {k' : Nat}
    (h : (acquireBlock t).run k = .ok (code, k')) : LFC k k' code := by
  rw [acquireBlock_run] at h
  injection h with h
  injection h with h1 h2
  subst h1 h2
  refine ⟨by omega, ?_⟩
  rw [labs_append, labs_append, (nl_acquireHead t).labs]
  refine ⟨[k + 12, k + 1, k + 2, k + 3, k + 3 + 1, k + 3 + 2, k + 3 + 3, k + 6 + 1, k + 6 + 2, k + 6 + 3,
    k + 10, k + 11, k + 13], ?_, ?_, ?_⟩
  · rfl
  · simp
  · intro n hn
    simp only [List.mem_cons, List.not_mem_nil, or_false] at hn
    omega

/-! ## counters of the auxiliary generators -/

theorem liftE_run {α : Type} {e : Except String α} {k : Nat} {a : α} {k' : Nat}
    (h : (liftE e).run k = .ok (a, k')) : e = .ok a ∧ k' = k := by
  cases e with
  | error m =>
    have h2 : (Except.error m : Except String (α × Nat)) = .ok (a, k') := h
    cases h2
  | ok b =>
    have h2 : (Except.ok (b, k) : Except String (α × Nat)) = .ok (a, k') := h
    injection h2 with h2
    injection h2 with h3 h4
    exact ⟨by rw [h3], h4.symm⟩

theorem freshTemporary_k {n : TempNum} {Γ : Ctx} {k : Nat} {t : Temporary} {k' : Nat}
    (h : (freshTemporary n Γ).run k = .ok (t, k')) : k' = k := (liftE_run h).2

theorem pred1_k {n k m k' : Nat} (h : (pred1 n).run k = .ok (m, k')) : k' = k := by
  cases n with
  | zero => simp [pred1, run_throw_ok] at h
  | succ j => simp only [pred1, run_pure_ok] at h; exact h.2.symm

theorem storeField_nl {n : TempNum} {Γ : Ctx} {r : Reg} {off k : Nat} {code : List Code} {k' : Nat}
    (h : (storeField n Γ r off).run k = .ok (code, k')) : k' = k ∧ NL code := by
  simp only [storeField, run_bind_ok] at h
  obtain ⟨t, k1, h1, h2⟩ := h
  have := freshTemporary_k h1
  subst this
  cases t with
  | reg x => simp only [run_pure_ok] at h2; obtain ⟨rfl, rfl⟩ := h2; exact ⟨rfl, by simp [NL, codeLabelDef]⟩
  | spill x => simp only [run_pure_ok] at h2; obtain ⟨rfl, rfl⟩ := h2; exact ⟨rfl, by simp [NL, codeLabelDef]⟩

theorem loadField_nl {n : TempNum} {Γ : Ctx} {r : Reg} {off k : Nat} {code : List Code} {k' : Nat}
    (h : (loadField n Γ r off).run k = .ok (code, k')) : k' = k ∧ NL code := by
  simp only [loadField, run_bind_ok] at h
  obtain ⟨t, k1, h1, h2⟩ := h
  have := freshTemporary_k h1
  subst this
  cases t with
  | reg x => simp only [run_pure_ok] at h2; obtain ⟨rfl, rfl⟩ := h2; exact ⟨rfl, by simp [NL, codeLabelDef]⟩
  | spill x => simp only [run_pure_ok] at h2; obtain ⟨rfl, rfl⟩ := h2; exact ⟨rfl, by simp [NL, codeLabelDef]⟩

theorem nl_storeZero (r : Reg) (off : Nat) : NL (storeZero r off) := by simp [storeZero, NL, codeLabelDef]

theorem nl_storeZeros (n : Nat) (r : Reg) : NL (storeZeros n r) := by
  intro c hc
  unfold storeZeros at hc
  rw [List.mem_flatten] at hc
  obtain ⟨l, hl, hcl⟩ := hc
  rw [List.mem_map] at hl
  obtain ⟨off, _, rfl⟩ := hl
  exact nl_storeZero r off c hcl

theorem storeValue_nl {b : Binding} {Γ : Ctx} {r : Reg} {off k : Nat} {code : List Code} {k' : Nat}
    (h : (storeValue b Γ r off).run k = .ok (code, k')) : k' = k ∧ NL code := by
  simp only [storeValue, run_bind_ok] at h
  obtain ⟨c1, k1, h1, h2⟩ := h
  obtain ⟨rfl, n1⟩ := storeField_nl h1
  split at h2
  · simp only [run_pure_ok] at h2
    obtain ⟨rfl, rfl⟩ := h2
    exact ⟨rfl, n1.append (nl_storeZero r off)⟩
  · simp only [run_bind_ok, run_pure_ok] at h2
    obtain ⟨c2, k2, h3, rfl, rfl⟩ := h2
    obtain ⟨rfl, n2⟩ := storeField_nl h3
    exact ⟨rfl, n1.append n2⟩

theorem storeValuesLoop_nl (Γ : Ctx) (r : Reg) : ∀ (bs : List Binding) (ff k : Nat) (res : List Code × Nat) (k' : Nat),
    (storeValuesLoop Γ r bs ff).run k = .ok (res, k') → k' = k ∧ NL res.1
  | [], ff, k, res, k', h => by
    simp only [storeValuesLoop, run_pure_ok] at h
    obtain ⟨rfl, rfl⟩ := h
    exact ⟨rfl, NL.nil⟩
  | b :: rest, ff, k, res, k', h => by
    simp only [storeValuesLoop, run_bind_ok, run_pure_ok] at h
    obtain ⟨off, k1, h1, c, k2, h2, ⟨cs, ff'⟩, k3, h3, rfl, rfl⟩ := h
    have := pred1_k h1
    subst this
    obtain ⟨rfl, n1⟩ := storeValue_nl h2
    obtain ⟨rfl, n2⟩ := storeValuesLoop_nl Γ r rest off _ _ _ h3
    exact ⟨rfl, n1.append n2⟩

theorem storeValues_nl {ts Γ : Ctx} {r : Reg} {ff k : Nat} {code : List Code} {k' : Nat}
    (h : (storeValues ts Γ r ff).run k = .ok (code, k')) : k' = k ∧ NL code := by
  simp only [storeValues, run_bind_ok, run_pure_ok] at h
  obtain ⟨⟨cs, ff'⟩, k1, h1, rfl, rfl⟩ := h
  obtain ⟨rfl, n1⟩ := storeValuesLoop_nl Γ r _ _ _ _ _ h1
  refine ⟨rfl, ?_⟩
  refine NL.append (NL.append (NL.append (by simp [NL, codeLabelDef]) n1) ?_) (nl_storeZeros _ _)
  split <;> simp [NL, codeLabelDef]

/-! ## store -/

theorem nl_loadImmediate (t : Temporary) (i : Int) : NL (loadImmediate t i) := noLab_loadImmediate t i

theorem lfc_storeFields : ∀ (fuel : Nat) (ts rem : Ctx) (bp : BlockPosition) (k : Nat) (code : List Code) (k' : Nat),
    (storeFields fuel ts rem bp).run k = .ok (code, k') → LFC k k' code
  | 0, ts, rem, bp, k, code, k', h => by simp [storeFields, run_throw_ok] at h
  | fuel + 1, ts, rem, bp, k, code, k', h => by
    simp only [storeFields] at h
    split at h
    · split at h
      · simp only [run_bind_ok, run_pure_ok] at h
        obtain ⟨t, k1, h1, rfl, rfl⟩ := h
        have := freshTemporary_k h1
        subst this
        exact LFC.of_nl (NL.append (by simp [NL, codeLabelDef]) (nl_loadImmediate t 0)) _
      · simp only [run_pure_ok] at h
        obtain ⟨rfl, rfl⟩ := h
        exact LFC.of_nl NL.nil _
    · have nc : NL [Code.COMMENT "##acquire free block from heap register"] := by simp [NL, codeLabelDef]
      cases bp with
      | last =>
        simp only [reduceCtorEq, ↓reduceIte, eq_self, if_false, if_true, run_bind_ok, run_pure_ok] at h
        obtain ⟨c1, k1, ⟨rfl, rfl⟩, c3, k3, h3, t, k4, h4, c4, k5, h5, c5, k6, h6, rfl, rfl⟩ := h
        obtain ⟨rfl, n3⟩ := storeValues_nl h3
        have := freshTemporary_k h4
        subst this
        have l4 := lfc_acquireBlock h5
        have l5 := lfc_storeFields fuel _ _ _ _ _ _ h6
        have n2 : NL [Code.COMMENT "#allocate memory"] := by simp [NL, codeLabelDef]
        exact (LFC.nl_left (((NL.nil.append n2).append n3).append nc) l4).append l5
      | other =>
        simp only [reduceCtorEq, ↓reduceIte, eq_self, if_false, if_true, run_bind_ok, run_pure_ok] at h
        obtain ⟨c, kc, hc, c1, k1, ⟨rfl, rfl⟩, c3, k3, h3, t, k4, h4, c4, k5, h5, c5, k6, h6, rfl, rfl⟩ := h
        obtain ⟨rfl, n⟩ := storeField_nl hc
        have n1 : NL ([Code.COMMENT "##store link to previous block"] ++ c) :=
          NL.append (by simp [NL, codeLabelDef]) n
        obtain ⟨rfl, n3⟩ := storeValues_nl h3
        have := freshTemporary_k h4
        subst this
        have l4 := lfc_acquireBlock h5
        have l5 := lfc_storeFields fuel _ _ _ _ _ _ h6
        exact (LFC.nl_left (((n1.append NL.nil).append n3).append nc) l4).append l5

theorem lfc_store {ts rem : Ctx} {k : Nat} {code : List Code} {k' : Nat}
    (h : (store ts rem).run k = .ok (code, k')) : LFC k k' code :=
  lfc_storeFields _ _ _ _ _ _ _ h

/-! ## load -/

theorem lfc_loadValue {b : Binding} {Γ : Ctx} {r : Reg} {off : Nat} {m : LoadMode} {k : Nat} {code : List Code}
    {k' : Nat} (h : (loadValue b Γ r off m).run k = .ok (code, k')) : LFC k k' code := by
  simp only [loadValue, run_bind_ok] at h
  obtain ⟨c1, k1, h1, h2⟩ := h
  obtain ⟨rfl, n1⟩ := loadField_nl h1
  split at h2
  · simp only [run_bind_ok] at h2
    obtain ⟨c2, k2, h3, t, k3, h4, h5⟩ := h2
    obtain ⟨rfl, n2⟩ := loadField_nl h3
    have := freshTemporary_k h4
    subst this
    split at h5
    · simp only [run_bind_ok, run_pure_ok] at h5
      obtain ⟨c3, k4, h6, rfl, rfl⟩ := h5
      exact LFC.nl_left (n1.append n2) (lfc_shareBlockN h6)
    · simp only [run_pure_ok] at h5
      obtain ⟨rfl, rfl⟩ := h5
      exact LFC.of_nl (n1.append n2) _
  · simp only [run_pure_ok] at h2
    obtain ⟨rfl, rfl⟩ := h2
    exact LFC.of_nl n1 _

theorem lfc_loadValuesLoop (Γ : Ctx) (r : Reg) (m : LoadMode) : ∀ (bs : List Binding) (ff k : Nat)
    (code : List Code) (k' : Nat), (loadValuesLoop Γ r m bs ff).run k = .ok (code, k') → LFC k k' code
  | [], ff, k, code, k', h => by
    simp only [loadValuesLoop, run_pure_ok] at h
    obtain ⟨rfl, rfl⟩ := h
    exact LFC.of_nl NL.nil _
  | b :: rest, ff, k, code, k', h => by
    simp only [loadValuesLoop, run_bind_ok, run_pure_ok] at h
    obtain ⟨off, k1, h1, c, k2, h2, cs, k3, h3, rfl, rfl⟩ := h
    have := pred1_k h1
    subst this
    exact (lfc_loadValue h2).append (lfc_loadValuesLoop Γ r m rest off _ _ _ h3)

theorem lfc_loadValues {tl Γ : Ctx} {r : Reg} {ff : Nat} {m : LoadMode} {k : Nat} {code : List Code} {k' : Nat}
    (h : (loadValues tl Γ r ff m).run k = .ok (code, k')) : LFC k k' code := by
  simp only [loadValues, run_bind_ok, run_pure_ok] at h
  obtain ⟨cs, k1, h1, rfl, rfl⟩ := h
  exact LFC.nl_left (by simp [NL, codeLabelDef]) (lfc_loadValuesLoop _ _ _ _ _ _ _ _ h1)

theorem nl_releaseBlock (r : Reg) : NL (releaseBlock r) := by simp [releaseBlock, NL, codeLabelDef]

theorem lfc_loadFieldsBlock {r : Reg} {tn e1 e2 : Ctx} {bp : BlockPosition} {m : LoadMode} {k : Nat}
    {code : List Code} {k' : Nat} (h : (loadFieldsBlock r tn e1 e2 bp m).run k = .ok (code, k')) :
    LFC k k' code := by
  have n1 : NL (if m = LoadMode.release then [Code.COMMENT "###release block"] ++ releaseBlock r else []) := by
    split
    · exact NL.append (by simp [NL, codeLabelDef]) (nl_releaseBlock r)
    · exact NL.nil
  cases bp with
  | last =>
    simp only [loadFieldsBlock, reduceCtorEq, ↓reduceIte, eq_self, if_false, if_true, run_bind_ok, run_pure_ok] at h
    obtain ⟨c2, k2, ⟨rfl, rfl⟩, c3, k3, h3, rfl, rfl⟩ := h
    exact LFC.nl_left (n1.append NL.nil) (lfc_loadValues h3)
  | other =>
    simp only [loadFieldsBlock, reduceCtorEq, ↓reduceIte, eq_self, if_false, if_true, run_bind_ok, run_pure_ok] at h
    obtain ⟨c, kc, hc, c2, k2, ⟨rfl, rfl⟩, c3, k3, h3, rfl, rfl⟩ := h
    obtain ⟨rfl, n⟩ := loadField_nl hc
    exact LFC.nl_left (n1.append (NL.append (by simp [NL, codeLabelDef]) n)) (lfc_loadValues h3)

theorem lfc_loadFields : ∀ (fuel : Nat) (tl ex : Ctx) (bp : BlockPosition) (m : LoadMode) (rf : Bool) (k : Nat)
    (res : List Code × Bool) (k' : Nat), (loadFields fuel tl ex bp m rf).run k = .ok (res, k') → LFC k k' res.1
  | 0, tl, ex, bp, m, rf, k, res, k', h => by simp [loadFields, run_throw_ok] at h
  | fuel + 1, tl, ex, bp, m, rf, k, res, k', h => by
    simp only [loadFields] at h
    split at h
    · simp only [run_pure_ok] at h
      obtain ⟨rfl, rfl⟩ := h
      exact LFC.of_nl NL.nil _
    · simp only [run_bind_ok] at h
      obtain ⟨⟨c0, rf0⟩, k1, h1, mb, k2, h2, h3⟩ := h
      have l0 := lfc_loadFields fuel _ _ _ _ _ _ _ _ h1
      have := freshTemporary_k h2
      subst this
      cases mb with
      | reg x =>
        simp only [run_bind_ok, run_pure_ok] at h3
        obtain ⟨c, k3, h4, rfl, rfl⟩ := h3
        exact l0.append (lfc_loadFieldsBlock h4)
      | spill x =>
        simp only [run_bind_ok, run_pure_ok] at h3
        obtain ⟨c, k3, h4, rfl, rfl⟩ := h3
        have n1 : NL (if (!rf0) = true then
            [Code.COMMENT "###evacuate additional scratch register for memory block",
             Code.MOVS TEMPORARY_TEMP STACK (stackOffset SPILL_TEMP)] else []) := by
          split <;> simp [NL, codeLabelDef]
        have n2 : NL [Code.MOVL TEMPORARY_TEMP STACK (stackOffset x)] := by simp [NL, codeLabelDef]
        have n3 : NL (if bp = BlockPosition.last then
            [Code.COMMENT "###restore evacuated register",
             Code.MOVL TEMPORARY_TEMP STACK (stackOffset SPILL_TEMP)] else []) := by
          split <;> simp [NL, codeLabelDef]
        have := ((l0.nl_right n1).nl_right n2).append (lfc_loadFieldsBlock h4)
        exact this.nl_right n3

theorem lfc_loadRegister {r : Reg} {tl ex : Ctx} {k : Nat} {code : List Code} {k' : Nat}
    (h : (loadRegister r tl ex).run k = .ok (code, k')) : LFC k k' code := by
  simp only [loadRegister, run_bind_ok, run_pure_ok] at h
  obtain ⟨⟨cT, rT⟩, k1, h1, ⟨cE, rE⟩, k2, h2, c, k3, h3, rfl, rfl⟩ := h
  have lT := lfc_loadFields _ _ _ _ _ _ _ _ _ h1
  have lE := lfc_loadFields _ _ _ _ _ _ _ _ _ h2
  simp only at lT lE
  have hb : LF k k2 (labs ([Code.COMMENT "##either decrement refcount and share children...",
      Code.ADDIM r REFERENCE_COUNT_OFFSET (-1)] ++ cE) ++
      labs ([Code.COMMENT "##... or release blocks onto linear free list when loading"] ++ cT)) := by
    have e1 : labs ([Code.COMMENT "##either decrement refcount and share children...",
        Code.ADDIM r REFERENCE_COUNT_OFFSET (-1)] ++ cE) = labs cE := by
      rw [labs_append]; rfl
    have e2 : labs ([Code.COMMENT "##... or release blocks onto linear free list when loading"] ++ cT) = labs cT := by
      rw [labs_append]; rfl
    rw [e1, e2]
    exact lT.2.append' lE.2 lT.1 lE.1
  have := lfc_ifZeroThenElse hb (by have := lT.1; have := lE.1; omega) h3
  exact LFC.nl_left (by simp [NL, codeLabelDef]) this

theorem lfc_load {tl ex : Ctx} {k : Nat} {code : List Code} {k' : Nat}
    (h : (load tl ex).run k = .ok (code, k')) : LFC k k' code := by
  simp only [load] at h
  split at h
  · simp only [run_pure_ok] at h
    obtain ⟨rfl, rfl⟩ := h
    exact LFC.of_nl NL.nil _
  · simp only [run_bind_ok] at h
    obtain ⟨mb, k1, h1, h2⟩ := h
    have := freshTemporary_k h1
    subst this
    cases mb with
    | reg x =>
      simp only [run_bind_ok, run_pure_ok] at h2
      obtain ⟨c, k2, h3, rfl, rfl⟩ := h2
      exact LFC.nl_left (by simp [NL, codeLabelDef]) (lfc_loadRegister h3)
    | spill x =>
      simp only [run_bind_ok, run_pure_ok] at h2
      obtain ⟨c, k2, h3, rfl, rfl⟩ := h2
      exact LFC.nl_left (by simp [NL, codeLabelDef]) (lfc_loadRegister h3)

end Scc.X86.Ref
