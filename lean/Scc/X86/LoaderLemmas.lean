/-
  Scc.X86.LoaderLemmas — lemmas about the character-list functions of the x86-64 loader
  (Scc/X86/Machine.lean: `trimL`, `trimC`, `splitAt1`, `dropPrefix?`, `parseInt`, `regOfName`,
  `splitOnChar`, `parseOpnd`) and the OPERAND texts the printer (Scc/X86/Instr.lean `printCode`)
  produces: registers, `[r + i]`, `[r +i]`, `qword [r + i]`, immediates (every `Int`, negative and
  64-bit included), `[rel L]`, symbols.  `OpTxt cs o`: the text `cs` is a trimmed, comma-free,
  single-line operand that `parseOpnd` reads as `o`.
  Proof file: core imports only.
-/
import Scc.X86.Machine
import Scc.StringLemmas

namespace Scc.X86.Loader

open Scc.X86

/-! ## trimming -/

theorem trimL_space (cs : List Char) : trimL (' ' :: cs) = trimL cs := rfl

theorem trimL_of_head {cs : List Char} (h : cs.head? ≠ some ' ') : trimL cs = cs := by
  cases cs with
  | nil => rfl
  | cons c cs =>
    have hc : c ≠ ' ' := fun e => h (by simp [e])
    unfold trimL
    split
    · rename_i heq; cases heq; exact absurd rfl hc
    · rfl

theorem trimC_space (cs : List Char) : trimC (' ' :: cs) = trimC cs := rfl

/-- a text without leading / trailing blank -/
def Trimmed (cs : List Char) : Prop := cs.head? ≠ some ' ' ∧ cs.getLast? ≠ some ' '

theorem trimC_of_trimmed {cs : List Char} (h : Trimmed cs) : trimC cs = cs := by
  unfold trimC
  rw [trimL_of_head h.1, trimL_of_head (by rw [List.head?_reverse]; exact h.2), List.reverse_reverse]

theorem trimC_indent {cs : List Char} (h : Trimmed cs) : trimC (' ' :: ' ' :: ' ' :: ' ' :: cs) = cs := by
  rw [trimC_space, trimC_space, trimC_space, trimC_space, trimC_of_trimmed h]

theorem trimmed_append {a b : List Char} (ha : a.head? ≠ some ' ') (ha' : a ≠ [])
    (hb : b.getLast? ≠ some ' ') (hb' : b ≠ []) : Trimmed (a ++ b) := by
  constructor
  · cases a with
    | nil => exact absurd rfl ha'
    | cons x xs => simpa using ha
  · rw [List.getLast?_append]
    cases hl : b.getLast? with
    | none => exact absurd (List.getLast?_eq_none_iff.1 hl) hb'
    | some c => rw [hl] at hb; simpa using hb

theorem trimL_append_ne {a : List Char} {c : Char} (b : List Char) (hc : c ≠ ' ') :
    trimL (a ++ c :: b) = trimL a ++ c :: b := by
  induction a with
  | nil => simp only [List.nil_append]; rw [trimL_of_head (by simp [hc])]; rfl
  | cons x xs ih =>
    by_cases hx : x = ' '
    · subst hx; simp only [List.cons_append, trimL_space]; exact ih
    · rw [trimL_of_head (cs := x :: xs) (by simp [hx])]
      rw [List.cons_append, trimL_of_head (by simp [hx])]

/-- the trimmed form of a text that starts with `;` still starts with `;` -/
theorem trimC_semicolon (x : List Char) : ∃ y, trimC (';' :: x) = ';' :: y := by
  unfold trimC
  rw [trimL_of_head (cs := ';' :: x) (by simp), List.reverse_cons,
    trimL_append_ne (a := x.reverse) (c := ';') [] (by decide)]
  exact ⟨(trimL x.reverse).reverse, by simp⟩

/-! ## splitting, prefixes -/

theorem splitAt1_append {c : Char} {a : List Char} (b : List Char) (ha : c ∉ a) :
    splitAt1 c (a ++ c :: b) = some (a, b) := by
  induction a with
  | nil => simp [splitAt1]
  | cons x xs ih =>
    have hx : x ≠ c := fun e => ha (by simp [e])
    have hxs : c ∉ xs := fun e => ha (by simp [e])
    simp only [List.cons_append, splitAt1, hx, if_false, ih hxs]

theorem splitAt1_none {c : Char} {a : List Char} (ha : c ∉ a) : splitAt1 c a = none := by
  induction a with
  | nil => rfl
  | cons x xs ih =>
    have hx : x ≠ c := fun e => ha (by simp [e])
    have hxs : c ∉ xs := fun e => ha (by simp [e])
    simp only [splitAt1, hx, if_false, ih hxs]

theorem dropPrefix?_append (p rest : List Char) : dropPrefix? p (p ++ rest) = some rest := by
  induction p with
  | nil => rfl
  | cons x xs ih => simp [dropPrefix?, ih]

theorem dropPrefix?_some {p cs rest : List Char} (h : dropPrefix? p cs = some rest) : cs = p ++ rest := by
  induction p generalizing cs with
  | nil => simp [dropPrefix?] at h; simp [h]
  | cons x xs ih =>
    cases cs with
    | nil => simp [dropPrefix?] at h
    | cons c cs =>
      simp only [dropPrefix?] at h
      split at h
      · rename_i hxc; subst hxc; rw [ih h]; rfl
      · cases h

/-- a text without blanks has no prefix that contains one -/
theorem dropPrefix?_none_of_not_mem {p cs : List Char} {c : Char} (hp : c ∈ p) (hcs : c ∉ cs) :
    dropPrefix? p cs = none := by
  cases h : dropPrefix? p cs with
  | none => rfl
  | some rest =>
    have := dropPrefix?_some h
    exact absurd (by rw [this]; simp [hp]) hcs

/-- the first position at which two texts differ comes before either ends -/
def mismatch : List Char → List Char → Bool
  | x :: p, y :: a => if x = y then mismatch p a else true
  | _, _ => false

theorem dropPrefix?_none_of_mismatch {p a : List Char} (b : List Char) (h : mismatch p a = true) :
    dropPrefix? p (a ++ b) = none := by
  induction p generalizing a with
  | nil => simp [mismatch] at h
  | cons x xs ih =>
    cases a with
    | nil => simp [mismatch] at h
    | cons y ys =>
      simp only [mismatch] at h
      simp only [List.cons_append, dropPrefix?]
      split
      · rename_i hxy; simp only [hxy, if_true] at h; exact ih h
      · rfl

theorem splitOnChar_of_not_mem {c : Char} {a : List Char} (cur : List Char) (ha : c ∉ a) :
    splitOnChar c a cur = [cur.reverse ++ a] := by
  induction a generalizing cur with
  | nil => simp [splitOnChar]
  | cons x xs ih =>
    have hx : x ≠ c := fun e => ha (by simp [e])
    have hxs : c ∉ xs := fun e => ha (by simp [e])
    simp only [splitOnChar, hx, if_false, ih _ hxs]; simp

theorem splitOnChar_append {c : Char} {a : List Char} (b cur : List Char) (ha : c ∉ a) :
    splitOnChar c (a ++ c :: b) cur = (cur.reverse ++ a) :: splitOnChar c b [] := by
  induction a generalizing cur with
  | nil => simp [splitOnChar]
  | cons x xs ih =>
    have hx : x ≠ c := fun e => ha (by simp [e])
    have hxs : c ∉ xs := fun e => ha (by simp [e])
    simp only [List.cons_append, splitOnChar, hx, if_false, ih _ hxs]; simp

/-! ## strings and character lists -/

theorem ofList_eq_iff {cs : List Char} {s : String} : String.ofList cs = s ↔ cs = s.toList := by
  constructor
  · intro h; rw [← h, String.toList_ofList]
  · intro h; rw [h, String.ofList_toList]

/-! ## register names -/

def regC (r : Nat) : List Char := (regName r).toList

theorem regOfName_regName : ∀ r, r < 16 → regOfName (regName r) = some r := by decide

theorem regOfName_some {s : String} {r : Nat} (h : regOfName s = some r) : s ∈ regNames := by
  unfold regOfName at h
  simp only at h
  split at h
  · rename_i hlt
    exact List.idxOf_lt_length_iff.1 (by simpa [regNames] using hlt)
  · cases h

theorem regOfName_none_of_head {cs : List Char} (h : cs.head? ≠ some 'r') :
    regOfName (String.ofList cs) = none := by
  cases hr : regOfName (String.ofList cs) with
  | none => rfl
  | some r =>
    have hm := regOfName_some hr
    have : ∀ s ∈ regNames, s.toList.head? = some 'r' := by decide
    have := this _ hm
    rw [String.toList_ofList] at this
    exact absurd this h

/-- per-register facts about the printed name, all decided on the sixteen names -/
theorem regC_facts : ∀ r, r < 16 →
    (regC r ≠ [] ∧ (regC r).head? = some 'r' ∧
     (∀ c ∈ regC r, c ≠ ' ' ∧ c ≠ ',' ∧ c ≠ '\n' ∧ c ≠ ':' ∧ c ≠ '+' ∧ c ≠ '[' ∧ c ≠ ']' ∧ c ≠ ';') ∧
     regOfName (String.ofList (regC r)) = some r ∧
     mismatch "rel ".toList (regC r) = true ∧ mismatch "qword ".toList (regC r) = true) := by
  decide

theorem regC_ne_nil {r : Nat} (h : r < 16) : regC r ≠ [] := (regC_facts r h).1
theorem regC_head {r : Nat} (h : r < 16) : (regC r).head? = some 'r' := (regC_facts r h).2.1
theorem regC_chars {r : Nat} (h : r < 16) :
    ∀ c ∈ regC r, c ≠ ' ' ∧ c ≠ ',' ∧ c ≠ '\n' ∧ c ≠ ':' ∧ c ≠ '+' ∧ c ≠ '[' ∧ c ≠ ']' ∧ c ≠ ';' :=
  (regC_facts r h).2.2.1
theorem regC_parse {r : Nat} (h : r < 16) : regOfName (String.ofList (regC r)) = some r :=
  (regC_facts r h).2.2.2.1

theorem not_mem_of_chars {cs : List Char} {c : Char} {P : Char → Prop} (h : ∀ x ∈ cs, P x) (hc : ¬ P c) :
    c ∉ cs := fun hm => hc (h c hm)

/-! ## immediates -/

def immC (i : Int) : List Char := (immStr i).toList

theorem immC_ofNat (n : Nat) : immC (Int.ofNat n) = Nat.toDigits 10 n := by
  show (Nat.repr n).toList = _
  exact Nat.toList_repr

theorem immC_negSucc (n : Nat) : immC (Int.negSucc n) = '-' :: Nat.toDigits 10 (n + 1) := by
  show ("-" ++ Nat.repr (n + 1)).toList = _
  rw [String.toList_append, Nat.toList_repr]; rfl

theorem isDigit_toDigits (n : Nat) : ∀ c ∈ Nat.toDigits 10 n, c.isDigit = true :=
  fun _ hc => Nat.isDigit_of_mem_toDigits (by decide) (by decide) hc

theorem isDigitStr_toDigits (n : Nat) : isDigitStr (Nat.toDigits 10 n) = true := by
  unfold isDigitStr
  have hne : Nat.toDigits 10 n ≠ [] := Nat.toDigits_ne_nil
  simp only [Bool.and_eq_true, Bool.not_eq_true', List.all_eq_true]
  refine ⟨?_, isDigit_toDigits n⟩
  cases h : Nat.toDigits 10 n with
  | nil => exact absurd h hne
  | cons _ _ => rfl

theorem natOfDigits_toDigits (n : Nat) : natOfDigits (Nat.toDigits 10 n) = n :=
  Nat.ofDigitChars_ten_toDigits

/-- characters of a printed immediate: digits or the sign -/
def immChar (c : Char) : Bool := c.isDigit || c == '-'

theorem immC_chars (i : Int) : ∀ c ∈ immC i, immChar c = true := by
  intro c hc
  cases i with
  | ofNat n =>
    rw [immC_ofNat] at hc
    simp [immChar, isDigit_toDigits n c hc]
  | negSucc n =>
    rw [immC_negSucc] at hc
    simp only [List.mem_cons] at hc
    rcases hc with rfl | hc
    · rfl
    · simp [immChar, isDigit_toDigits (n + 1) c hc]

theorem immC_ne_nil (i : Int) : immC i ≠ [] := by
  cases i with
  | ofNat n => rw [immC_ofNat]; exact Nat.toDigits_ne_nil
  | negSucc n => rw [immC_negSucc]; simp

theorem immChar_ne {c : Char} (h : immChar c = true) :
    c ≠ ' ' ∧ c ≠ ',' ∧ c ≠ '\n' ∧ c ≠ ':' ∧ c ≠ '+' ∧ c ≠ '[' ∧ c ≠ ']' ∧ c ≠ ';' ∧ c ≠ 'r' ∧ c ≠ 'q' := by
  refine ⟨?_, ?_, ?_, ?_, ?_, ?_, ?_, ?_, ?_, ?_⟩ <;> (intro e; subst e; revert h; decide)

theorem parseInt_immC (i : Int) : parseInt (immC i) = some i := by
  cases i with
  | ofNat n =>
    rw [immC_ofNat]
    unfold parseInt
    split
    · rename_i ds heq
      have := isDigit_toDigits n '-' (by rw [heq]; simp)
      exact absurd this (by decide)
    · simp only [isDigitStr_toDigits, if_true, natOfDigits_toDigits]; rfl
  | negSucc n =>
    rw [immC_negSucc]
    unfold parseInt
    simp only [isDigitStr_toDigits, if_true, natOfDigits_toDigits]
    rw [Int.negSucc_eq]; rfl

theorem immC_head (i : Int) : ∀ c, (immC i).head? = some c → immChar c = true := by
  intro c hc
  exact immC_chars i c (List.mem_of_mem_head? hc)

theorem immC_last (i : Int) : ∀ c, (immC i).getLast? = some c → immChar c = true := by
  intro c hc
  exact immC_chars i c (List.mem_of_getLast? hc)

theorem immC_trimmed (i : Int) : Trimmed (immC i) := by
  constructor
  · intro h; exact absurd (immC_head i _ h) (by decide)
  · intro h; exact absurd (immC_last i _ h) (by decide)

/-! ## symbols -/

/-- the loader's symbol test on character lists (`symOK` of Props/C06X86.lean, restated here because
    the Props file imports this one) -/
def symOKC (l : List Char) : Prop :=
  l ≠ [] ∧ (∀ c ∈ l, isSymChar c = true ∧ c ≠ '\n') ∧ regOfName (String.ofList l) = none ∧ parseInt l = none

theorem isSymChar_ne {c : Char} (h : isSymChar c = true) :
    c ≠ ' ' ∧ c ≠ ',' ∧ c ≠ '[' ∧ c ≠ ']' ∧ c ≠ ':' ∧ c ≠ ';' := by
  simp only [isSymChar, Bool.and_eq_true, decide_eq_true_eq] at h
  obtain ⟨⟨⟨⟨⟨a, b⟩, c⟩, d⟩, e⟩, f⟩ := h
  exact ⟨a, b, c, d, e, f⟩

theorem symOKC_all {l : List Char} (h : symOKC l) : l.all isSymChar = true := by
  simp only [List.all_eq_true]; exact fun c hc => (h.2.1 c hc).1

theorem symOKC_isEmpty {l : List Char} (h : symOKC l) : l.isEmpty = false := by
  cases l with
  | nil => exact absurd rfl h.1
  | cons _ _ => rfl

theorem symOKC_not_mem {l : List Char} (h : symOKC l) {c : Char} (hc : isSymChar c = false) : c ∉ l :=
  fun hm => by have := (h.2.1 c hm).1; rw [hc] at this; cases this

theorem symOKC_trimmed {l : List Char} (h : symOKC l) : Trimmed l := by
  constructor
  · intro e; exact symOKC_not_mem h (c := ' ') (by decide) (List.mem_of_mem_head? e)
  · intro e; exact symOKC_not_mem h (c := ' ') (by decide) (List.mem_of_getLast? e)

/-! ## operand texts -/

/-- `cs` is a trimmed, comma-free, single-line operand text that the loader reads as `o`, and that
    does not end in a colon -/
structure OpTxt (cs : List Char) (o : Opnd) : Prop where
  ne : cs ≠ []
  trimmed : Trimmed cs
  lastc : cs.getLast? ≠ some ':'
  nocomma : ',' ∉ cs
  nonl : '\n' ∉ cs
  parse : parseOpnd cs = some o

theorem parseBracket_brackets (inner : List Char) : parseBracket ('[' :: (inner ++ [']'])) = some inner := by
  simp [parseBracket]

theorem parseBracket_none {cs : List Char} (h : cs.head? ≠ some '[') : parseBracket cs = none := by
  unfold parseBracket
  split
  · exact absurd rfl h
  · rfl

theorem opTxt_reg {r : Nat} (hr : r < 16) : OpTxt (regC r) (.reg r) := by
  have hc := regC_chars hr
  have hne := regC_ne_nil hr
  have hh := regC_head hr
  have htr : Trimmed (regC r) :=
    ⟨by rw [hh]; decide, fun e => (hc _ (List.mem_of_getLast? e)).1 rfl⟩
  refine ⟨hne, htr, fun e => (hc _ (List.mem_of_getLast? e)).2.2.2.1 rfl,
    fun e => (hc _ e).2.1 rfl, fun e => (hc _ e).2.2.1 rfl, ?_⟩
  unfold parseOpnd
  simp only [trimC_of_trimmed htr]
  have h1 : dropPrefix? "qword ".toList (regC r) = none := by
    have := dropPrefix?_none_of_mismatch (a := regC r) [] (regC_facts r hr).2.2.2.2.2
    simpa using this
  have h2 : parseBracket (regC r) = none := parseBracket_none (by rw [hh]; decide)
  simp only [h1, h2, regC_parse hr]

theorem parseOpnd_imm (i : Int) : parseOpnd (immC i) = some (.imm i) := by
  have hch := immC_chars i
  have hne := immC_ne_nil i
  unfold parseOpnd
  simp only [trimC_of_trimmed (immC_trimmed i)]
  have hhead : ∀ c, immChar c = false → (immC i).head? ≠ some c := by
    intro c hc e; have := immC_head i c e; rw [hc] at this; cases this
  have h1 : dropPrefix? "qword ".toList (immC i) = none := by
    cases h : immC i with
    | nil => exact absurd h hne
    | cons c cs =>
      have : c ≠ 'q' := fun e => hhead 'q' (by decide) (by rw [h, e]; rfl)
      show dropPrefix? ('q' :: _) (c :: cs) = none
      simp only [dropPrefix?]
      rw [if_neg (fun e => this e.symm)]
  have h2 : parseBracket (immC i) = none := parseBracket_none (hhead '[' (by decide))
  have h3 : regOfName (String.ofList (immC i)) = none := regOfName_none_of_head (hhead 'r' (by decide))
  simp only [h1, h2, h3, parseInt_immC]

theorem opTxt_imm (i : Int) : OpTxt (immC i) (.imm i) := by
  have hch := immC_chars i
  refine ⟨immC_ne_nil i, immC_trimmed i, ?_, ?_, ?_, parseOpnd_imm i⟩
  · intro e; exact absurd (immC_last i _ e) (by decide)
  · intro e; exact absurd (hch _ e) (by decide)
  · intro e; exact absurd (hch _ e) (by decide)

/-- `[r + i]` -/
def memC (r : Nat) (i : Int) : List Char := '[' :: (regC r ++ ' ' :: '+' :: ' ' :: immC i ++ [']'])
/-- `[r +i]` (the form printed for `CMPRM`) -/
def memC' (r : Nat) (i : Int) : List Char := '[' :: (regC r ++ ' ' :: '+' :: immC i ++ [']'])

theorem parseMemInner_spaced {r : Nat} (hr : r < 16) (i : Int) :
    parseMemInner (regC r ++ ' ' :: '+' :: ' ' :: immC i) = some (r, i) := by
  unfold parseMemInner
  have hc := regC_chars hr
  have hsp : splitAt1 '+' ((regC r ++ [' ']) ++ '+' :: ' ' :: immC i) = some (regC r ++ [' '], ' ' :: immC i) :=
    splitAt1_append _ (by
      intro hm
      simp only [List.mem_append, List.mem_singleton] at hm
      rcases hm with hm | hm
      · exact (hc _ hm).2.2.2.2.1 rfl
      · revert hm; decide)
  rw [show regC r ++ ' ' :: '+' :: ' ' :: immC i = (regC r ++ [' ']) ++ '+' :: ' ' :: immC i by simp, hsp]
  have ht1 : trimC (regC r ++ [' ']) = regC r := by
    have : ∀ r, r < 16 → trimC (regC r ++ [' ']) = regC r := by decide
    exact this r hr
  have ht2 : trimC (' ' :: immC i) = immC i := by rw [trimC_space, trimC_of_trimmed (immC_trimmed i)]
  simp only [ht1, ht2, regC_parse hr, parseInt_immC]

theorem parseMemInner_tight {r : Nat} (hr : r < 16) (i : Int) :
    parseMemInner (regC r ++ ' ' :: '+' :: immC i) = some (r, i) := by
  unfold parseMemInner
  have hc := regC_chars hr
  have hsp : splitAt1 '+' ((regC r ++ [' ']) ++ '+' :: immC i) = some (regC r ++ [' '], immC i) :=
    splitAt1_append _ (by
      intro hm
      simp only [List.mem_append, List.mem_singleton] at hm
      rcases hm with hm | hm
      · exact (hc _ hm).2.2.2.2.1 rfl
      · revert hm; decide)
  rw [show regC r ++ ' ' :: '+' :: immC i = (regC r ++ [' ']) ++ '+' :: immC i by simp, hsp]
  have ht1 : trimC (regC r ++ [' ']) = regC r := by
    have : ∀ r, r < 16 → trimC (regC r ++ [' ']) = regC r := by decide
    exact this r hr
  simp only [ht1, trimC_of_trimmed (immC_trimmed i), regC_parse hr, parseInt_immC]

theorem not_mem_inner {r : Nat} (_hr : r < 16) (i : Int) (mid : List Char) {c : Char}
    (hc1 : c ≠ ' ') (hc2 : c ≠ '+') (hc3 : c ≠ ']') (hr' : ∀ x ∈ regC r, x ≠ c) (hi : immChar c = false)
    (hmid : ∀ x ∈ mid, x = ' ' ∨ x = '+') :
    c ∉ '[' :: (regC r ++ mid ++ immC i ++ [']']) ∨ c = '[' := by
  by_cases hb : c = '['
  · exact Or.inr hb
  · left
    intro hm
    simp only [List.mem_cons, List.mem_append, List.not_mem_nil, or_false] at hm
    rcases hm with hm | ((hm | hm) | hm) | hm
    · exact hb hm
    · exact hr' _ hm rfl
    · rcases hmid _ hm with e | e
      · exact hc1 e
      · exact hc2 e
    · have := immC_chars i _ hm; rw [hi] at this; cases this
    · exact hc3 hm

theorem memC_rel_mismatch {r : Nat} (hr : r < 16) (rest : List Char) :
    dropPrefix? "rel ".toList (regC r ++ rest) = none :=
  dropPrefix?_none_of_mismatch rest (regC_facts r hr).2.2.2.2.1

theorem parseOpnd_bracket {inner : List Char} {r : Nat} {i : Int}
    (hrel : dropPrefix? "rel ".toList inner = none) (hp : parseMemInner inner = some (r, i))
    (htr : Trimmed ('[' :: (inner ++ [']']))) :
    parseOpnd ('[' :: (inner ++ [']'])) = some (.mem r i) := by
  unfold parseOpnd
  simp only [trimC_of_trimmed htr]
  have h1 : dropPrefix? "qword ".toList ('[' :: (inner ++ [']'])) = none := by
    show dropPrefix? ('q' :: _) ('[' :: _) = none
    simp [dropPrefix?]
  simp only [h1, parseBracket_brackets, hrel, hp, Option.map]

theorem trimmed_bracket (inner : List Char) : Trimmed ('[' :: (inner ++ [']'])) := by
  constructor
  · simp
  · rw [show '[' :: (inner ++ [']']) = ('[' :: inner) ++ [']'] by simp, List.getLast?_append]; simp

theorem getLast?_bracket (inner : List Char) : ('[' :: (inner ++ [']'])).getLast? = some ']' := by
  rw [show '[' :: (inner ++ [']']) = ('[' :: inner) ++ [']'] by simp, List.getLast?_append]; simp

theorem opTxt_mem {r : Nat} (hr : r < 16) (i : Int) : OpTxt (memC r i) (.mem r i) := by
  have hc := regC_chars hr
  have e : memC r i = '[' :: ((regC r ++ ' ' :: '+' :: ' ' :: immC i) ++ [']']) := by simp [memC]
  have e' : memC r i = '[' :: (regC r ++ [' ', '+', ' '] ++ immC i ++ [']']) := by simp [memC]
  refine ⟨by simp [memC], by rw [e]; exact trimmed_bracket _, by rw [e, getLast?_bracket]; decide, ?_, ?_, ?_⟩
  · rw [e']
    exact (not_mem_inner hr i _ (by decide) (by decide) (by decide) (fun x hx => (hc x hx).2.1) (by decide)
      (by intro x hx; simp at hx; rcases hx with rfl | rfl | rfl <;> simp)).resolve_right (by decide)
  · rw [e']
    exact (not_mem_inner hr i _ (by decide) (by decide) (by decide) (fun x hx => (hc x hx).2.2.1) (by decide)
      (by intro x hx; simp at hx; rcases hx with rfl | rfl | rfl <;> simp)).resolve_right (by decide)
  · rw [e]
    exact parseOpnd_bracket (memC_rel_mismatch hr _)
      (parseMemInner_spaced hr i) (trimmed_bracket _)

theorem opTxt_mem' {r : Nat} (hr : r < 16) (i : Int) : OpTxt (memC' r i) (.mem r i) := by
  have hc := regC_chars hr
  have e : memC' r i = '[' :: ((regC r ++ ' ' :: '+' :: immC i) ++ [']']) := by simp [memC']
  have e' : memC' r i = '[' :: (regC r ++ [' ', '+'] ++ immC i ++ [']']) := by simp [memC']
  refine ⟨by simp [memC'], by rw [e]; exact trimmed_bracket _, by rw [e, getLast?_bracket]; decide, ?_, ?_, ?_⟩
  · rw [e']
    exact (not_mem_inner hr i _ (by decide) (by decide) (by decide) (fun x hx => (hc x hx).2.1) (by decide)
      (by intro x hx; simp at hx; rcases hx with rfl | rfl <;> simp)).resolve_right (by decide)
  · rw [e']
    exact (not_mem_inner hr i _ (by decide) (by decide) (by decide) (fun x hx => (hc x hx).2.2.1) (by decide)
      (by intro x hx; simp at hx; rcases hx with rfl | rfl <;> simp)).resolve_right (by decide)
  · rw [e]
    exact parseOpnd_bracket (memC_rel_mismatch hr _)
      (parseMemInner_tight hr i) (trimmed_bracket _)

/-- `qword [r + i]` -/
def qmemC (r : Nat) (i : Int) : List Char := "qword ".toList ++ memC r i

theorem opTxt_qmem {r : Nat} (hr : r < 16) (i : Int) : OpTxt (qmemC r i) (.qmem r i) := by
  have hm := opTxt_mem hr i
  have e : memC r i = '[' :: ((regC r ++ ' ' :: '+' :: ' ' :: immC i) ++ [']']) := by simp [memC]
  have htr : Trimmed (qmemC r i) :=
    trimmed_append (by decide) (by decide) hm.trimmed.2 hm.ne
  refine ⟨by simp [qmemC, memC], htr, ?_, ?_, ?_, ?_⟩
  · unfold qmemC; rw [List.getLast?_append, e, getLast?_bracket]; decide
  · unfold qmemC; intro h
    rcases List.mem_append.1 h with h | h
    · revert h; decide
    · exact hm.nocomma h
  · unfold qmemC; intro h
    rcases List.mem_append.1 h with h | h
    · revert h; decide
    · exact hm.nonl h
  · unfold parseOpnd
    simp only [trimC_of_trimmed htr]
    unfold qmemC
    simp only [dropPrefix?_append, trimC_of_trimmed hm.trimmed]
    rw [e, parseBracket_brackets]
    simp only [parseMemInner_spaced hr i, Option.map]

/-- `[rel L]` -/
def relC (l : List Char) : List Char := '[' :: ("rel ".toList ++ l ++ [']'])

theorem opTxt_rel {l : List Char} (hl : symOKC l) : OpTxt (relC l) (.rel (String.ofList l)) := by
  refine ⟨by simp [relC], trimmed_bracket _, by unfold relC; rw [getLast?_bracket]; decide, ?_, ?_, ?_⟩
  · intro h
    simp only [relC, List.mem_cons, List.mem_append] at h
    rcases h with h | (h | h) | h
    · revert h; decide
    · revert h; decide
    · exact symOKC_not_mem hl (by decide) h
    · revert h; decide
  · intro h
    simp only [relC, List.mem_cons, List.mem_append] at h
    rcases h with h | (h | h) | h
    · revert h; decide
    · revert h; decide
    · exact (hl.2.1 _ h).2 rfl
    · revert h; decide
  · unfold parseOpnd relC
    simp only [trimC_of_trimmed (trimmed_bracket _)]
    have h1 : dropPrefix? "qword ".toList ('[' :: ("rel ".toList ++ l ++ [']'])) = none := by
      show dropPrefix? ('q' :: _) ('[' :: _) = none
      simp [dropPrefix?]
    simp only [h1, parseBracket_brackets, dropPrefix?_append, trimC_of_trimmed (symOKC_trimmed hl),
      symOKC_isEmpty hl, symOKC_all hl, Bool.not_false, Bool.and_self, if_true]

theorem opTxt_sym {l : List Char} (hl : symOKC l) : OpTxt l (.sym (String.ofList l)) := by
  have htr := symOKC_trimmed hl
  refine ⟨hl.1, htr, ?_, symOKC_not_mem hl (by decide), fun h => (hl.2.1 _ h).2 rfl, ?_⟩
  · intro e; exact symOKC_not_mem hl (c := ':') (by decide) (List.mem_of_getLast? e)
  · unfold parseOpnd
    simp only [trimC_of_trimmed htr]
    have h1 : dropPrefix? "qword ".toList l = none :=
      dropPrefix?_none_of_not_mem (c := ' ') (by decide) (symOKC_not_mem hl (by decide))
    have h2 : parseBracket l = none :=
      parseBracket_none (fun e => symOKC_not_mem hl (c := '[') (by decide) (List.mem_of_mem_head? e))
    simp only [h1, h2, hl.2.2.1, hl.2.2.2, symOKC_isEmpty hl, symOKC_all hl, Bool.not_false, Bool.and_self,
      if_true]

end Scc.X86.Loader
