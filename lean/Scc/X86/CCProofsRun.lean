/-
  Scc.X86.CCProofsRun — property C13, x86-64, DYNAMIC part: THE CALLING-CONVENTION MONITOR NEVER FIRES
  on the routine of an integer program — for all arguments, all fuel, every run (terminating or not,
  typed or not, whatever the values): the result of the SPEC machine is never `cc-violation` (a
  callee-saved register or `rsp` not restored at `ret`), never the fault `misaligned-call` (`rsp` not
  16-aligned at a call of the print runtime), never `ret-to-non-sentinel`.

  Proof: a single-step invariant `Inv` of the machine's transition function `step`:
    the item list from the program counter on starts with a straight-line segment `todo` whose
    `Future` (CCProofsSeg.lean) is the boundary invariant `Core` at a position from which the text is a
    `CCShape plainInt` body followed by the epilogue (or: `RetReady` at the final `ret`).
  Segments are: the routine header (entered at `asm_main`), a print block, the epilogue; between them
  single plain instructions, whose direct jumps lead to a label of the text, and every label of the
  text other than `asm_main` sits at a boundary position (`bodyAt_label`).
  The loader (`mkProg`) is covered: `holds_mkProg` (label table = first definition).  The parser is NOT:
  the theorems speak about the machine running the item list of the routine (`runItems`), and about
  `run text` for any text that parses to those items.
-/
import Scc.X86.CCProofsSeg

set_option linter.unusedVariables false
set_option linter.unusedSimpArgs false

namespace Scc.X86.CC

open Scc.X86 Scc.AxCut

/-! ## the loader -/

/-- index of the first definition of label `l` in `cs`, counting from `k` -/
def firstLab (l : String) : List Code → Nat → Option Nat
  | [], _ => none
  | c :: cs, k => if c = Code.LAB l then some k else firstLab l cs (k + 1)

theorem firstLab_some {l : String} : ∀ {cs : List Code} {k i : Nat}, firstLab l cs k = some i →
    k ≤ i ∧ cs[i - k]? = some (Code.LAB l)
  | [], _, _, h => by simp [firstLab] at h
  | c :: cs, k, i, h => by
    simp only [firstLab] at h
    split at h
    · rename_i hc
      cases h
      simp [hc]
    · obtain ⟨h1, h2⟩ := firstLab_some h
      refine ⟨by omega, ?_⟩
      have : i - k = (i - (k + 1)) + 1 := by omega
      rw [this, List.getElem?_cons_succ]
      exact h2

/-- the fold of `mkLabelIdx` -/
def labStep (m : Std.HashMap String Nat) (ci : Code × Nat) : Std.HashMap String Nat :=
  match ci.1 with
  | .LAB l => if m.contains l then m else m.insert l ci.2
  | _ => m

theorem labFold (l : String) : ∀ (cs : List Code) (k : Nat) (m : Std.HashMap String Nat),
    ((cs.zipIdx k).foldl labStep m)[l]? = (m[l]?).or (firstLab l cs k)
  | [], k, m => by simp [firstLab]
  | c :: rest, k, m => by
    simp only [List.zipIdx_cons, List.foldl_cons]
    rw [labFold l rest (k + 1)]
    simp only [firstLab]
    by_cases hc : c = Code.LAB l
    · subst hc
      simp only [labStep, if_true]
      by_cases hm : m.contains l = true
      · rw [if_pos hm]
        have : ∃ i, m[l]? = some i := by
          rw [Std.HashMap.contains_eq_isSome_getElem?] at hm
          exact Option.isSome_iff_exists.1 hm
        obtain ⟨i, hi⟩ := this
        simp [hi]
      · rw [if_neg hm]
        have hnone : m[l]? = none := by
          rw [Std.HashMap.contains_eq_isSome_getElem?] at hm
          simpa using hm
        simp [hnone]
    · rw [if_neg hc]
      have : (labStep m (c, k))[l]? = m[l]? := by
        unfold labStep
        cases c <;> try rfl
        rename_i l'
        have hne : l' ≠ l := fun e => hc (by rw [e])
        dsimp only
        split
        · rfl
        · rw [Std.HashMap.getElem?_insert]
          simp [hne]
      rw [this]

theorem mkLabelIdx_spec (cs : List Code) (l : String) : (mkLabelIdx cs)[l]? = firstLab l cs 0 := by
  have := labFold l cs 0 ∅
  simp only [Std.HashMap.getElem?_empty, Option.none_or] at this
  exact this

/-- forget the text of a comment (the machine's parser trims it; comments have no semantics) -/
def stripC : Code → Code
  | .COMMENT _ => .COMMENT ""
  | c => c

theorem execCode_stripC (c : MachCfg) (la : String → Option Nat) (code : Code) (s : State) :
    execCode c la (stripC code) s = execCode c la code s := by
  cases code <;> rfl

theorem execCode_congr {c : MachCfg} {la : String → Option Nat} {code code' : Code} (h : stripC code' = stripC code)
    (s : State) : execCode c la code' s = execCode c la code s := by
  rw [← execCode_stripC c la code', h, execCode_stripC]

theorem eq_of_stripC {code code' : Code} (h : stripC code' = stripC code) (hn : ∀ m, code ≠ Code.COMMENT m) :
    code' = code := by
  cases code <;> cases code' <;> simp [stripC] at h ⊢ <;> first | exact h | (exact absurd rfl (hn _))

theorem firstLab_stripC (l : String) : ∀ (cs : List Code) (k : Nat),
    firstLab l (cs.map stripC) k = firstLab l cs k
  | [], _ => rfl
  | c :: cs, k => by
    simp only [List.map_cons, firstLab]
    have : (stripC c = Code.LAB l) ↔ (c = Code.LAB l) := by
      cases c <;> simp [stripC]
    by_cases hc : c = Code.LAB l
    · rw [if_pos hc, if_pos (this.2 hc)]
    · rw [if_neg hc, if_neg (fun h => hc (this.1 h))]
      exact firstLab_stripC l cs (k + 1)

/-- the program holds the item list UP TO THE TEXT OF COMMENTS; labels resolve to their first
    definition -/
structure Holds (p : Prog) (routine : List Code) : Prop where
  code : ∀ i : Nat, (p.code[i]?).map stripC = (routine[i]?).map stripC
  labels : ∀ l, p.labelIdx[l]? = firstLab l routine 0

theorem holds_mkProg (c : MachCfg) (items : List (Code × Nat)) (routine : List Code)
    (h : (items.map (·.1)).map stripC = routine.map stripC) : Holds (mkProg c items) routine := by
  refine ⟨fun i => ?_, fun l => ?_⟩
  · have : (mkProg c items).code[i]? = (items.map (·.1))[i]? := by simp [mkProg]
    rw [this, ← List.getElem?_map, ← List.getElem?_map, h]
  · show (mkLabelIdx (items.map (·.1)))[l]? = _
    rw [mkLabelIdx_spec, ← firstLab_stripC, h, firstLab_stripC]

theorem Holds.fetch {p : Prog} {routine : List Code} (Hp : Holds p routine) {i : Nat} {code : Code}
    (h : routine[i]? = some code) : ∃ code', p.code[i]? = some code' ∧ stripC code' = stripC code := by
  have := Hp.code i
  rw [h] at this
  cases hp : p.code[i]? with
  | none => rw [hp] at this; simp at this
  | some code' =>
    rw [hp] at this
    simp only [Option.map_some, Option.some.injEq] at this
    exact ⟨code', rfl, this⟩

/-! ## labels of the routine sit at boundary positions -/

def isLab : Code → Bool
  | .LAB _ => true
  | _ => false

def NoLab (l : List Code) : Prop := ∀ c ∈ l, isLab c = false

theorem noLab_append {a b : List Code} (ha : NoLab a) (hb : NoLab b) : NoLab (a ++ b) :=
  fun c hc => (List.mem_append.1 hc).elim (ha c) (hb c)

theorem noLab_printI64 (nl : Bool) (t : Temporary) (ctx : Ctx) : NoLab (printI64 nl t ctx) := by
  rw [printI64_eq, save_eq, restore_eq]
  intro code hcode
  simp only [List.mem_append, backupMoves, restoreMoves, List.mem_map, List.mem_cons, List.not_mem_nil,
    or_false] at hcode
  rcases hcode with (((((hp | rfl) | ((⟨_, _, rfl⟩ | ⟨_, _, rfl⟩) | hpad)) | rfl) | rfl) | (rfl | rfl)) |
    ((⟨_, _, rfl⟩ | hpad) | ⟨_, _, rfl⟩)
  · cases t <;> simp [printPre, moveToRegister] at hp
    rcases hp with rfl | rfl <;> rfl
  all_goals first
    | rfl
    | (split at hpad <;> simp at hpad; subst hpad; rfl)

theorem drop_append_ge {a b : List Code} {n : Nat} (h : a.length ≤ n) :
    (a ++ b).drop n = b.drop (n - a.length) := by
  induction a generalizing n with
  | nil => simp
  | cons x a ih =>
    cases n with
    | zero => simp at h
    | succ n =>
      simp only [List.cons_append, List.drop_succ_cons, List.length_cons, Nat.add_sub_add_right]
      exact ih (by simpa using h)

/-- the text from position `i` on is a body shape followed by the epilogue -/
def BodyAt (routine : List Code) (i : Nat) : Prop :=
  ∃ rest, CCShape plainInt rest ∧ routine.drop i = rest ++ (epilogue ++ [Code.RET])

theorem ccShape_drop_label {plain : Code → Bool} {body : List Code} (h : CCShape plain body) :
    ∀ (j : Nat) (l : String), body[j]? = some (Code.LAB l) → CCShape plain (body.drop j) := by
  induction h with
  | nil => intro j l hj; simp at hj
  | @plain c rest hc hrest ih =>
    intro j l hj
    cases j with
    | zero => exact .plain hc hrest
    | succ j => simpa using ih j l (by simpa using hj)
  | @print nl t ctx rest hs hrest ih =>
    intro j l hj
    by_cases hlt : j < (printI64 nl t ctx).length
    · rw [List.getElem?_append_left hlt] at hj
      have hm := List.mem_of_getElem? hj
      have := noLab_printI64 nl t ctx _ hm
      cases this
    · have hge : (printI64 nl t ctx).length ≤ j := by omega
      rw [List.getElem?_append_right hge] at hj
      rw [drop_append_ge hge]
      exact ih _ l hj

/-- `move_arguments` emits comments and register moves to rdx rdi r9 r11 r13 -/
def isArgMove : Code → Bool
  | .COMMENT _ => true
  | .MOV r _ => decide (1 ≤ r)
  | _ => false

theorem moveArguments_shape : ∀ (n : Nat) (codes : List Code), moveArguments n = .ok codes →
    ∀ c ∈ codes, isArgMove c = true
  | 0, codes, h => by
    simp only [moveArguments, Except.ok.injEq] at h; subst h; simp [isArgMove]
  | 1, codes, h => by
    simp only [moveArguments] at h
    split at h
    · rename_i target src ht hs
      cases h
      have hm := List.mem_of_getElem? ht
      simp only [consts, List.mem_cons, List.not_mem_nil, or_false] at hm
      intro c hc
      simp only [List.mem_cons, List.not_mem_nil, or_false] at hc
      rcases hc with rfl | rfl
      · rfl
      · simp only [isArgMove, decide_eq_true_eq]; omega
    · cases h
  | n + 2, codes, h => by
    simp only [moveArguments] at h
    split at h
    · cases h
    · split at h
      · rename_i target src rest ht hs hrest
        cases h
        have hm := List.mem_of_getElem? ht
        simp only [consts, List.mem_cons, List.not_mem_nil, or_false] at hm
        intro c hc
        simp only [List.cons_append, List.nil_append, List.mem_cons] at hc
        rcases hc with rfl | rfl | hc
        · rfl
        · simp only [isArgMove, decide_eq_true_eq]; omega
        · exact moveArguments_shape (n + 1) rest hrest c hc
      · cases h

theorem straightInt_of_isArgMove {c : Code} (h : isArgMove c = true) : straightInt c = true := by
  cases c <;> simp [isArgMove] at h <;>
    simp [straightInt, plainInt, plainCC, isStackOp, codeWrites, codeMems, isIndirect, codeJumpRef]
  omega

theorem isLab_of_isArgMove {c : Code} (h : isArgMove c = true) : isLab c = false := by
  cases c <;> simp [isArgMove] at h <;> rfl

/-- the only label of the routine header is `asm_main` -/
theorem head_labels {moves : List Code} (hm : ∀ c ∈ moves, isArgMove c = true) :
    ∀ c ∈ routineHead moves, ∀ l, c = Code.LAB l → l = "asm_main" := by
  intro c hc l hl
  subst hl
  simp only [routineHead, preamble, prologue, List.mem_append, List.mem_cons, List.mem_map,
    List.not_mem_nil, or_false, Code.LAB.injEq] at hc
  rcases hc with ((h | h) | h) | h
  · cases h
  · simpa using h
  · rcases h with h | h
    · rcases h with ((h | h) | ⟨_, _, h⟩) | h <;> simp at h
    · have := isLab_of_isArgMove (hm _ h); cases this
  · cases h

theorem tail_labels (j : Nat) (l : String) (h : (epilogue ++ [Code.RET])[j]? = some (Code.LAB l)) : j = 0 := by
  cases j with
  | zero => rfl
  | succ j =>
    have e : epilogue ++ [Code.RET] = Code.LAB "cleanup" ::
        ([Code.COMMENT "free space for register spills", Code.ADDI 0 2048, Code.COMMENT "restore registers"] ++
          [15, 14, 13, 12, 3, 2].map Code.POP ++ [Code.RET]) := rfl
    rw [e, List.getElem?_cons_succ] at h
    have hm := List.mem_of_getElem? h
    simp at hm

/-- EVERY LABEL OF THE ROUTINE OTHER THAN `asm_main` IS AT A BOUNDARY POSITION -/
theorem bodyAt_label {body routine moves : List Code} (hb : CCShape plainInt body)
    (hm : ∀ c ∈ moves, isArgMove c = true)
    (hr : routine = routineHead moves ++ body ++ (epilogue ++ [Code.RET])) {i : Nat} {l : String}
    (hi : routine[i]? = some (Code.LAB l)) (hl : l ≠ "asm_main") : BodyAt routine i := by
  subst hr
  by_cases h1 : i < (routineHead moves).length
  · rw [List.append_assoc, List.getElem?_append_left h1] at hi
    exact absurd (head_labels hm _ (List.mem_of_getElem? hi) l rfl) hl
  · have hge : (routineHead moves).length ≤ i := by omega
    rw [List.append_assoc, List.getElem?_append_right hge] at hi
    unfold BodyAt
    rw [List.append_assoc, drop_append_ge hge]
    by_cases h2 : i - (routineHead moves).length < body.length
    · rw [List.getElem?_append_left h2] at hi
      refine ⟨body.drop (i - (routineHead moves).length), ccShape_drop_label hb _ l hi, ?_⟩
      rw [List.drop_append_of_le_length (by omega)]
    · have hge2 : body.length ≤ i - (routineHead moves).length := by omega
      rw [List.getElem?_append_right hge2] at hi
      have := tail_labels _ l hi
      refine ⟨[], .nil, ?_⟩
      rw [drop_append_ge hge2, this]
      first | done | simp

/-! ## one transition -/

/-- results that are not reports of the calling-convention monitor -/
def CCSafe : Res → Prop
  | .ccViolation _ => False
  | .fault why _ => why ≠ "misaligned-call" ∧ why ≠ "ret-to-non-sentinel"
  | _ => True

theorem ccSafe_fault {e : String} (h : OKErr e) (ln : Nat) : CCSafe (.fault e ln) := ⟨h.1, h.2.1⟩

section Step
variable {m : MonCfg} {p : Prog}

theorem step_err {s : State} {code : Code} {e : String} (hf : p.code[s.pc]? = some code)
    (hx : execCode m.mach p.labelAddr code s = .error e) :
    step m p s = .inr (.fault e (p.lineOf s.pc)) := by
  unfold step
  simp only [hf, hx]

theorem step_jump {s s1 : State} {code : Code} {l : String} {i : Nat} (hf : p.code[s.pc]? = some code)
    (hx : execCode m.mach p.labelAddr code s = .ok (s1, .jumpLabel l)) (hl : p.labelIdx[l]? = some i) :
    step m p s = .inl (setPS s1 i (s.steps + (if codeSize code = 0 then 0 else 1))) := by
  obtain ⟨_, hst⟩ := execCode_pc_steps hx
  unfold step
  simp only [hf, hx, hl]
  by_cases h0 : codeSize code = 0
  · simp only [h0, if_true, Nat.add_zero, setPS, ← hst]
  · simp only [h0, if_false, setPS, hst]

theorem step_jump_undef {s s1 : State} {code : Code} {l : String} (hf : p.code[s.pc]? = some code)
    (hx : execCode m.mach p.labelAddr code s = .ok (s1, .jumpLabel l)) (hl : p.labelIdx[l]? = none) :
    step m p s = .inr (.fault s!"undefined-label {l}" (p.lineOf s.pc)) := by
  unfold step
  simp only [hf, hx, hl]

/-- the body of `callExt` after the name check -/
def callBody' (s : State) (f : String) : M State :=
  match rd s 0, rd s 7 with
  | .error e, _ => .error e
  | _, .error e => .error e
  | .ok sp, .ok arg =>
    if sp.toNat % 16 ≠ 0 then .error "misaligned-call"
    else .ok { s with
      out := (f == "println_i64", arg) :: s.out,
      regs := poisonRegs s.regs callerSaved,
      flags := none,
      stackMem := s.stackMem.filter (fun a _ => decide (sp.toNat ≤ a)) }

theorem callExt_def' (s : State) (f : String) :
    callExt s f = if f ≠ "print_i64" && f ≠ "println_i64" then .error s!"call-unknown {f}"
      else callBody' s f := rfl

theorem callBody_setPS' (s : State) (f : String) (pc k : Nat) :
    callBody' (setPS s pc k) f = mapS pc k (callBody' s f) := by
  unfold callBody'
  simp only [rd_setPS]
  cases rd s 0 with
  | error e => rfl
  | ok sp =>
    cases rd s 7 with
    | error e => rfl
    | ok arg =>
      simp only
      by_cases h2 : sp.toNat % 16 ≠ 0
      · rw [if_pos h2, if_pos h2]; simp only [mapS]
      · rw [if_neg h2, if_neg h2]; simp only [mapS, setPS]

theorem callExt_setPS' (s : State) (f : String) (pc k : Nat) :
    callExt (setPS s pc k) f = mapS pc k (callExt s f) := by
  rw [callExt_def', callExt_def']
  by_cases h1 : (f ≠ "print_i64" && f ≠ "println_i64") = true
  · rw [if_pos h1, if_pos h1]; simp only [mapS]
  · rw [if_neg h1, if_neg h1]; exact callBody_setPS' s f pc k

theorem callExt_pc {s s2 : State} {f : String} (h : callExt s f = .ok s2) : s2.pc = s.pc ∧ s2.steps = s.steps := by
  have := callExt_setPS' s f s.pc s.steps
  rw [setPS_self, h] at this
  simp only [mapS, Except.ok.injEq] at this
  have h1 : s2.pc = (setPS s2 s.pc s.steps).pc := by rw [← this]
  have h2 : s2.steps = (setPS s2 s.pc s.steps).steps := by rw [← this]
  exact ⟨h1, h2⟩

theorem step_call {m : MonCfg} {p : Prog} {s : State} {f : String} (hf : p.code[s.pc]? = some (Code.CALL f)) :
    step m p s =
      match callExt s f with
      | .ok s2 => .inl (setPS s2 (s.pc + 1) (s.steps + 1))
      | .error e => .inr (.fault e (p.lineOf s.pc)) := by
  have hcs : ¬ codeSize (Code.CALL f) = 0 := by simp [codeSize]
  unfold step
  simp only [hf, execCode]
  rw [if_neg hcs]
  have e1 : ({ s with steps := s.steps + 1 } : State) = setPS s s.pc (s.steps + 1) := rfl
  rw [e1, callExt_setPS']
  cases callExt s f with
  | error e => rfl
  | ok s2 => rfl

theorem step_ret {m : MonCfg} {p : Prog} {s : State} (hf : p.code[s.pc]? = some Code.RET) :
    step m p s =
      match retCheck m.mach (setPS s s.pc (s.steps + 1)) with
      | .ok v => .inr (.done v)
      | .error (.fault e _) => .inr (.fault e (p.lineOf s.pc))
      | .error r => .inr r := by
  have hcs : ¬ codeSize Code.RET = 0 := by decide
  unfold step
  simp only [hf, execCode]
  rw [if_neg hcs]
  rfl

theorem execSeq_setPS' (c : MachCfg) (la : String → Option Nat) (codes : List Code) (s : State)
    (pc k : Nat) : execSeq c la codes (setPS s pc k) = mapS pc k (execSeq c la codes s) := by
  induction codes generalizing s with
  | nil => rfl
  | cons code rest ih =>
    simp only [execSeq, execCode_setPS]
    cases execCode c la code s with
    | error e => rfl
    | ok r =>
      obtain ⟨s1, ctl⟩ := r
      cases ctl with
      | next => simp only [mapPS, ih]
      | callExt f =>
        simp only [mapPS, callExt_setPS']
        cases callExt s1 f with
        | error e => rfl
        | ok s2 => simp only [mapS, ih]
      | jumpLabel l => rfl
      | jumpAddr a => rfl
      | ret => rfl

theorem Future.setPS {c : MachCfg} {la : String → Option Nat} {Q : State → Prop}
    (hQ : ∀ s pc k, Q s → Q (setPS s pc k)) {l : List Code} {s : State} (h : Future c la Q l s) (pc k : Nat) :
    Future c la Q l (setPS s pc k) := by
  unfold Future at h ⊢
  rw [execSeq_setPS']
  cases hx : execSeq c la l s with
  | error e => simp only [hx, mapS] at h ⊢; exact h
  | ok s1 => simp only [hx, mapS] at h ⊢; exact hQ _ _ _ h

/-- ONE TRANSITION INSIDE A SEGMENT -/
theorem step_seg {s : State} {code : Code} {rest : List Code} {Q : State → Prop}
    (hQ : ∀ s pc k, Q s → Q (setPS s pc k)) (hf : p.code[s.pc]? = some code)
    (hF : Future m.mach p.labelAddr Q (code :: rest) s) :
    match step m p s with
    | .inl s' => s'.pc = s.pc + 1 ∧ Future m.mach p.labelAddr Q rest s'
    | .inr r => CCSafe r := by
  unfold Future at hF
  simp only [execSeq] at hF
  cases hx : execCode m.mach p.labelAddr code s with
  | error e =>
    simp only [hx] at hF
    rw [step_err hf hx]
    exact ccSafe_fault hF _
  | ok r =>
    obtain ⟨s1, ctl⟩ := r
    simp only [hx] at hF
    cases ctl with
    | next =>
      rw [step_next hf hx]
      exact ⟨rfl, Future.setPS hQ hF _ _⟩
    | callExt f =>
      rcases execCode_ctl hx with h' | ⟨l, _, h'⟩ | ⟨l, _, h'⟩ | ⟨r, a, _, h'⟩ | ⟨f', hcode, hf', hs1⟩ | ⟨_, h', _⟩
      · cases h'
      · cases h'
      · cases h'
      · cases h'
      · cases hf'
        subst hs1
        subst hcode
        rw [step_call hf]
        cases hc : callExt s1 f with
        | error e =>
          simp only [hc] at hF ⊢
          exact ccSafe_fault hF _
        | ok s2 =>
          simp only [hc] at hF ⊢
          exact ⟨rfl, Future.setPS hQ hF _ _⟩
      · cases h'
    | jumpLabel l => exact absurd rfl hF.2.2
    | jumpAddr a => exact absurd rfl hF.2.2
    | ret => exact absurd rfl hF.2.2

end Step

/-! ## the invariant -/

inductive Tgt where
  | body
  | ret

/-- what holds at the end of the current segment, at text position `i` -/
def PostT (c : MachCfg) (routine : List Code) (tgt : Tgt) (i : Nat) (s : State) : Prop :=
  match tgt with
  | .body => Core c s ∧ BodyAt routine i
  | .ret => RetReady c s ∧ routine.drop i = [Code.RET]

theorem PostT.setPS {c : MachCfg} {routine : List Code} {tgt : Tgt} {i : Nat} (s : State) (pc k : Nat)
    (h : PostT c routine tgt i s) : PostT c routine tgt i (setPS s pc k) := by
  cases tgt with
  | body => exact ⟨h.1.setPS _ _, h.2⟩
  | ret => exact ⟨h.1.setPS _ _, h.2⟩

/-- THE INVARIANT of `step`: the text from the program counter on starts with a segment `todo` whose
    future is the boundary invariant (or the exit condition) at the position behind it -/
def Inv (m : MonCfg) (p : Prog) (routine : List Code) (s : State) : Prop :=
  ∃ todo tgt, (∀ j (h : j < todo.length), routine[s.pc + j]? = some todo[j]) ∧
    Future m.mach p.labelAddr (PostT m.mach routine tgt (s.pc + todo.length)) todo s

theorem drop_eq_append_get {l a b : List Code} {i : Nat} (h : l.drop i = a ++ b) :
    ∀ j (hj : j < a.length), l[i + j]? = some a[j] := by
  intro j hj
  have : (l.drop i)[j]? = some a[j] := by
    rw [h, List.getElem?_append_left hj, List.getElem?_eq_getElem hj]
  rwa [List.getElem?_drop] at this

theorem drop_add_of_append {l a b : List Code} {i : Nat} (h : l.drop i = a ++ b) :
    l.drop (i + a.length) = b := by
  rw [← List.drop_drop, h, List.drop_left]

section InvStep
variable {m : MonCfg} {p : Prog} {routine body moves : List Code}

/-- a non-empty segment: one transition keeps the invariant -/
theorem inv_step_seg {s : State} {code : Code} {rest : List Code} {tgt : Tgt} (Hp : Holds p routine)
    (hcode : ∀ j (h : j < (code :: rest).length), routine[s.pc + j]? = some (code :: rest)[j])
    (hF : Future m.mach p.labelAddr (PostT m.mach routine tgt (s.pc + (code :: rest).length)) (code :: rest) s) :
    match step m p s with
    | .inl s' => Inv m p routine s'
    | .inr r => CCSafe r := by
  have hget : routine[s.pc]? = some code := by
    have := hcode 0 (by simp)
    simpa using this
  obtain ⟨code', hf, hst⟩ := Hp.fetch hget
  have hF' : Future m.mach p.labelAddr (PostT m.mach routine tgt (s.pc + (code :: rest).length)) (code' :: rest) s := by
    unfold Future at hF ⊢
    simp only [execSeq] at hF ⊢
    rw [execCode_congr hst]
    exact hF
  have := step_seg (m := m) (p := p) (fun s pc k h => PostT.setPS s pc k h) hf hF'
  cases hs : step m p s with
  | inr r => simp only [hs] at this ⊢; exact this
  | inl s' =>
    simp only [hs] at this ⊢
    obtain ⟨hpc, hF'⟩ := this
    refine ⟨rest, tgt, ?_, ?_⟩
    · intro j hj
      have := hcode (j + 1) (by simpa using hj)
      rw [hpc, Nat.add_assoc, Nat.add_comm 1 j]
      simpa using this
    · have e : s'.pc + rest.length = s.pc + (code :: rest).length := by
        rw [hpc, List.length_cons]; omega
      rw [e]
      exact hF'

/-- THE INVARIANT IS PRESERVED by every transition of the machine, and a run that ends, ends with a
    result that is not a report of the calling-convention monitor -/
theorem inv_step (H : CfgCC m.mach) (Hp : Holds p routine) (hb : CCShape plainInt body)
    (hm : ∀ c ∈ moves, isArgMove c = true)
    (hr : routine = routineHead moves ++ body ++ (epilogue ++ [Code.RET])) {s : State}
    (I : Inv m p routine s) :
    match step m p s with
    | .inl s' => Inv m p routine s'
    | .inr r => CCSafe r := by
  obtain ⟨todo, tgt, hcode, hF⟩ := I
  cases todo with
  | cons code rest => exact inv_step_seg Hp hcode hF
  | nil =>
    have hF' : PostT m.mach routine tgt s.pc s := by simpa [Future, execSeq] using hF
    cases tgt with
    | ret =>
      -- the final `ret`
      obtain ⟨R, hd⟩ := hF'
      have hget : routine[s.pc]? = some Code.RET := by
        have := drop_eq_append_get (a := [Code.RET]) (b := []) (by simpa using hd) 0 (by simp)
        simpa using this
      obtain ⟨code', hf, hst⟩ := Hp.fetch hget
      have : code' = Code.RET := eq_of_stripC hst (fun m h => by cases h)
      subst this
      rw [step_ret hf]
      rcases retCheck_safe H (R.setPS s.pc (s.steps + 1)) with ⟨v, hv⟩ | ⟨e, he, hme⟩
      · rw [hv]; trivial
      · rw [he]; exact ccSafe_fault hme.okErr _
    | body =>
      obtain ⟨C, rest, hshape, hd⟩ := hF'
      cases hshape with
      | nil =>
        -- the epilogue
        refine inv_step_seg (tgt := .ret) (code := Code.LAB "cleanup")
          (rest := [Code.COMMENT "free space for register spills", Code.ADDI 0 2048,
            Code.COMMENT "restore registers"] ++ [15, 14, 13, 12, 3, 2].map Code.POP) Hp ?_ ?_
        · exact drop_eq_append_get (a := epilogue) (b := [Code.RET]) (by simpa using hd)
        · have hF2 := epilogue_future (la := p.labelAddr) H C
          refine hF2.mono fun s' hs' => ⟨hs', ?_⟩
          exact drop_add_of_append (a := epilogue) (b := [Code.RET]) (by simpa using hd)
      | @plain code rest' hc hrest' =>
        -- a plain instruction
        have hget : routine[s.pc]? = some code := by
          have := drop_eq_append_get (a := [code]) (b := rest' ++ (epilogue ++ [Code.RET])) (by simpa using hd) 0
            (by simp)
          simpa using this
        obtain ⟨code', hf, hst⟩ := Hp.fetch hget
        have hnext : BodyAt routine (s.pc + 1) :=
          ⟨rest', hrest', drop_add_of_append (a := [code]) (b := rest' ++ (epilogue ++ [Code.RET]))
            (by simpa using hd)⟩
        cases hx' : execCode m.mach p.labelAddr code' s with
        | error e =>
          rw [step_err hf hx']
          exact ccSafe_fault (execCode_err hx').okErr _
        | ok r =>
          obtain ⟨s1, ctl⟩ := r
          have hx : execCode m.mach p.labelAddr code s = .ok (s1, ctl) := by
            rw [← execCode_congr hst]; exact hx'
          obtain ⟨C1, hctl⟩ := plain_exec H C hc hx
          rcases hctl with rfl | ⟨l, _, rfl, hl⟩
          · rw [step_next hf hx']
            exact ⟨[], .body, fun j hj => by simp at hj, Future.nil ⟨C1.setPS _ _, hnext⟩⟩
          · cases hlab : p.labelIdx[l]? with
            | none =>
              rw [step_jump_undef hf hx' hlab]
              exact ccSafe_fault (merr_undefLabel l).okErr _
            | some i =>
              rw [step_jump hf hx' hlab]
              rw [Hp.labels] at hlab
              obtain ⟨_, hi⟩ := firstLab_some hlab
              simp only [Nat.sub_zero] at hi
              exact ⟨[], .body, fun j hj => by simp at hj,
                Future.nil ⟨C1.setPS _ _, bodyAt_label hb hm hr hi hl⟩⟩
      | @print nl t ctx rest' hs hrest' =>
        -- a print block
        rw [List.append_assoc] at hd
        have hne : printI64 nl t ctx ≠ [] := by
          rw [printI64_split]; simp
        obtain ⟨code, blk, hblk⟩ := List.exists_cons_of_ne_nil hne
        have hF2 : Future m.mach p.labelAddr (PostT m.mach routine .body (s.pc + (code :: blk).length))
            (code :: blk) s := by
          rw [← hblk]
          refine (block_future (la := p.labelAddr) H hs nl C).mono fun s' hs' => ⟨hs', rest', hrest', ?_⟩
          exact drop_add_of_append hd
        refine inv_step_seg (tgt := .body) Hp ?_ hF2
        rw [← hblk]
        exact drop_eq_append_get hd

end InvStep

/-! ## whole runs -/

theorem monitor_err {m : MonCfg} {p : Prog} {s : State} {r : Res} (h : monitor m p s = .error r) :
    ∃ e ln, r = .invFail e ln := by
  unfold monitor at h
  split at h
  · cases h
  · split at h
    · split at h
      · cases h
      · split at h
        · cases h
        · cases h; exact ⟨_, _, rfl⟩
    · cases h

theorem finish_res (s : State) (b : Nat) (r : Res) : (finish s b r).res = r := rfl

/-- every run from a state satisfying the invariant -/
theorem runLoop_safe {m : MonCfg} {p : Prog} {routine body moves : List Code} (H : CfgCC m.mach)
    (Hp : Holds p routine) (hb : CCShape plainInt body) (hm : ∀ c ∈ moves, isArgMove c = true)
    (hr : routine = routineHead moves ++ body ++ (epilogue ++ [Code.RET])) :
    ∀ (fuel : Nat) (s : State) (blocks : Nat), Inv m p routine s → CCSafe (runLoop m p fuel s blocks).res
  | 0, s, blocks, _ => trivial
  | fuel + 1, s, blocks, I => by
    simp only [runLoop]
    cases hmon : monitor m p s with
    | error r =>
      obtain ⟨e, ln, rfl⟩ := monitor_err hmon
      trivial
    | ok b =>
      dsimp only
      have := inv_step H Hp hb hm hr I
      cases hs : step m p s with
      | inl s1 =>
        simp only [hs] at this ⊢
        exact runLoop_safe H Hp hb hm hr fuel s1 _ this
      | inr r =>
        simp only [hs] at this ⊢
        rw [finish_res]
        exact this

/-! ## fuel -/

/-- a run that ends keeps its result with more fuel -/
theorem runLoop_mono {m : MonCfg} {p : Prog} : ∀ (f : Nat) (s : State) (b : Nat),
    (runLoop m p f s b).res ≠ .outOfFuel → ∀ k, runLoop m p (f + k) s b = runLoop m p f s b
  | 0, s, b, h, k => absurd rfl h
  | f + 1, s, b, h, k => by
    rw [show f + 1 + k = (f + k) + 1 by omega]
    simp only [runLoop] at h ⊢
    cases hmon : monitor m p s with
    | error r => rfl
    | ok b' =>
      simp only [hmon] at h ⊢
      cases hs : step m p s with
      | inr r => rfl
      | inl s1 =>
        simp only [hs] at h ⊢
        exact runLoop_mono f s1 _ h k

/-- if some amount of fuel gives `done v`, every amount gives `outOfFuel` or `done v` -/
theorem runLoop_res_of_done {m : MonCfg} {p : Prog} {f0 : Nat} {s : State} {b : Nat} {v : Word}
    (h : (runLoop m p f0 s b).res = .done v) (f : Nat) :
    (runLoop m p f s b).res = .outOfFuel ∨ (runLoop m p f s b).res = .done v := by
  by_cases hle : f ≤ f0
  · by_cases hof : (runLoop m p f s b).res = .outOfFuel
    · exact Or.inl hof
    · have := runLoop_mono f s b hof (f0 - f)
      rw [show f + (f0 - f) = f0 by omega] at this
      rw [← this]; exact Or.inr h
  · have := runLoop_mono f0 s b (by rw [h]; intro e; cases e) (f - f0)
    rw [show f0 + (f - f0) = f by omega] at this
    rw [this]; exact Or.inr h

/-! ## the entry state -/

theorem foldl_set_size (l : List (Reg × Word)) (a : Array (Option Word)) :
    (l.foldl (fun a (ra : Reg × Word) => a.set! ra.1 (some ra.2)) a).size = a.size := by
  induction l generalizing a with
  | nil => rfl
  | cons x rest ih => rw [List.foldl_cons, ih]; simp

theorem foldl_set_get (l : List (Reg × Word)) (a : Array (Option Word)) (r : Nat) (h : ∀ x ∈ l, x.1 ≠ r) :
    (l.foldl (fun a (ra : Reg × Word) => a.set! ra.1 (some ra.2)) a)[r]? = a[r]? := by
  induction l generalizing a with
  | nil => rfl
  | cons x rest ih =>
    rw [List.foldl_cons, ih _ (fun y hy => h y (by simp [hy]))]
    have := h x (by simp)
    simp [Array.set!_eq_setIfInBounds, Array.getElem?_setIfInBounds, this]

theorem initRegs_spec (c : MachCfg) (args : List Word) :
    ∃ r2 : Array (Option Word), r2.size = 16 ∧
      (∀ r : Nat, r ∈ calleeSaved → r2[r]? = some (some (calleeSentinel r))) ∧
      initRegs c args = (r2.set! 7 (some (BitVec.ofNat 64 c.heapBase))).set! 0
        (some (BitVec.ofNat 64 (c.stackTop - 8))) := by
  refine ⟨(argRegs.zip args).foldl (fun a (ra : Reg × Word) => a.set! ra.1 (some ra.2))
    (calleeSaved.foldl (fun a r => a.set! r (some (calleeSentinel r))) (Array.replicate 16 none)), ?_, ?_, rfl⟩
  · rw [foldl_set_size]; rfl
  · intro r hr
    have hna : ∀ x ∈ argRegs.zip args, x.1 ≠ r := by
      intro x hx e
      have := (List.of_mem_zip hx).1
      rw [e] at this
      simp only [calleeSaved, List.mem_cons, List.not_mem_nil, or_false] at hr
      rcases hr with rfl | rfl | rfl | rfl | rfl | rfl <;> simp [argRegs] at this
    rw [foldl_set_get _ _ r hna]
    simp only [calleeSaved, List.mem_cons, List.not_mem_nil, or_false] at hr
    rcases hr with rfl | rfl | rfl | rfl | rfl | rfl <;> rfl

theorem entry_initState (c : MachCfg) (args : List Word) (entry : Nat) : Entry c (initState c args entry) := by
  obtain ⟨r2, h2, hcs2, hI⟩ := initRegs_spec c args
  have hregs : (initState c args entry).regs = (r2.set! 7 (some (BitVec.ofNat 64 c.heapBase))).set! 0
      (some (BitVec.ofNat 64 (c.stackTop - 8))) := hI
  refine ⟨?_, ?_, ⟨BitVec.ofNat 64 c.heapBase, ?_⟩, ?_, ?_⟩
  · rw [hregs]; simp [h2]
  · rw [hregs]; simp [Array.set!_eq_setIfInBounds, Array.getElem?_setIfInBounds, h2]
  · rw [hregs]; simp [Array.set!_eq_setIfInBounds, Array.getElem?_setIfInBounds, h2]
  · show ((∅ : Std.HashMap Nat Word).insert (c.stackTop - 8) retSentinel)[c.stackTop - 8]? = _
    simp
  · intro r hr
    have hr0 : r ≠ 0 ∧ r ≠ 7 := by
      simp only [calleeSaved, List.mem_cons, List.not_mem_nil, or_false] at hr
      rcases hr with rfl | rfl | rfl | rfl | rfl | rfl <;> exact ⟨by decide, by decide⟩
    rw [hregs]
    simp only [Array.set!_eq_setIfInBounds, Array.getElem?_setIfInBounds]
    rw [if_neg (fun e => hr0.1 e.symm), if_neg (fun e => hr0.2 e.symm)]
    exact hcs2 r hr

/-! ## the routine of an integer program -/

/-- the machine on an item list (what `run` does after parsing) -/
def runItems (items : List (Code × Nat)) (args : List Word) (fuel : Nat) (cfg : MonCfg) : RunResult :=
  let p := mkProg cfg.mach items
  match p.labelIdx["asm_main"]? with
  | none => emptyResult (.fault "undefined-label asm_main" 0)
  | some entry =>
    if args.length > 5 then emptyResult (.fault "too-many-arguments" 0)
    else runLoop cfg p fuel (initState cfg.mach args entry) 0

theorem run_eq_runItems' {text : String} {items : List (Code × Nat)} (h : parseText text = .ok items)
    (args : List Word) (fuel : Nat) (cfg : MonCfg) : run text args fuel cfg = runItems items args fuel cfg := by
  unfold run runItems
  rw [h]
  rfl

theorem runItems_res_of_done {items : List (Code × Nat)} {args : List Word} {cfg : MonCfg} {f0 : Nat}
    {v : Word} (h : (runItems items args f0 cfg).res = .done v) (f : Nat) :
    (runItems items args f cfg).res = .outOfFuel ∨ (runItems items args f cfg).res = .done v := by
  unfold runItems at h ⊢
  dsimp only at h ⊢
  cases hl : (mkProg cfg.mach items).labelIdx["asm_main"]? with
  | none => simp only [hl] at h; cases h
  | some entry =>
    simp only [hl] at h ⊢
    split at h
    · cases h
    · rename_i hn
      rw [if_neg hn]
      exact runLoop_res_of_done h f

theorem entry_index (moves rest : List Code) :
    firstLab "asm_main" (routineHead moves ++ rest) 0 = some 6 := by
  simp [routineHead, preamble, firstLab]

theorem routine_drop_entry (moves rest : List Code) :
    (routineHead moves ++ rest).drop 6 =
      (Code.LAB "asm_main" :: (prologue ++ (moves ++ [Code.COMMENT "actual code"]))) ++ rest := by
  simp [routineHead, preamble]

/-- C13 (b), INTEGER PROGRAMS: on the item list of the routine the calling-convention monitor never
    fires — all arguments, all fuel, every monitor configuration -/
theorem cc_safe_items {p : AxCut.Prog} (hp : Scc.Backend.Shape.IntProgC p) {hooks : Bool} {c0 : Nat}
    {body routine : List Code} {nargs : Nat} (hc : compileX86 p hooks c0 = .ok (body, nargs))
    (hr : intoRoutine body nargs = .ok routine) (cfg : MonCfg) (H : CfgCC cfg.mach)
    (items : List (Code × Nat)) (hitems : (items.map (·.1)).map stripC = routine.map stripC)
    (args : List Word) (fuel : Nat) : CCSafe (runItems items args fuel cfg).res := by
  have hb := compile_ccShape_int hp hc
  obtain ⟨moves, hmv, hrt⟩ := routine_anatomy hr
  have hm := moveArguments_shape nargs moves hmv
  have Hp : Holds (mkProg cfg.mach items) routine := holds_mkProg cfg.mach items routine hitems
  unfold runItems
  dsimp only
  have hentry : (mkProg cfg.mach items).labelIdx["asm_main"]? = some 6 := by
    rw [Hp.labels, hrt, List.append_assoc]
    exact entry_index moves _
  rw [hentry]
  dsimp only
  split
  · exact ⟨by decide, by decide⟩
  · apply runLoop_safe H Hp hb hm hrt
    have hdrop : routine.drop 6 =
        (Code.LAB "asm_main" :: (prologue ++ (moves ++ [Code.COMMENT "actual code"]))) ++
          (body ++ (epilogue ++ [Code.RET])) := by
      rw [hrt, List.append_assoc]; exact routine_drop_entry moves _
    refine ⟨Code.LAB "asm_main" :: (prologue ++ (moves ++ [Code.COMMENT "actual code"])), .body, ?_, ?_⟩
    · exact drop_eq_append_get hdrop
    · refine (prologue_future (la := (mkProg cfg.mach items).labelAddr) H
        (entry_initState cfg.mach args 6) (fun c hc => straightInt_of_isArgMove (hm c hc))).mono
        fun s' hs' => ⟨hs', body, hb, ?_⟩
      exact drop_add_of_append hdrop

/-- the same for the machine's own entry point `run` on any text that parses to the items of the
    routine -/
theorem cc_safe_run {p : AxCut.Prog} (hp : Scc.Backend.Shape.IntProgC p) {hooks : Bool} {c0 : Nat}
    {body routine : List Code} {nargs : Nat} (hc : compileX86 p hooks c0 = .ok (body, nargs))
    (hr : intoRoutine body nargs = .ok routine) (cfg : MonCfg) (H : CfgCC cfg.mach)
    {text : String} {items : List (Code × Nat)} (hparse : parseText text = .ok items)
    (hitems : (items.map (·.1)).map stripC = routine.map stripC) (args : List Word) (fuel : Nat) :
    CCSafe (run text args fuel cfg).res := by
  rw [run_eq_runItems' hparse]
  exact cc_safe_items hp hc hr cfg H items hitems args fuel

end Scc.X86.CC
