/-
  Scc.X86.LoaderText — the loader `parseText` (Scc/X86/Machine.lean) inverts the routine printer
  `printProg` (Scc/X86/Instr.lean) on every list of text-safe items:

  * `codeLines c`: the lines a printed item occupies (a label: an empty line and `L:`; anything else:
    one line); `printCode_lines`, `splitOn_printProg`: the lines of the printed routine, through the
    legacy `String.splitOn` (Scc/StringLemmas.lean), are exactly the lines of its items;
  * `parseLines_codes`: reading these lines gives the items back, up to the text of comments, with
    increasing line numbers;
  * `parseText_printProg`: THE ROUND TRIP for every routine whose items are `CodeOK`.
  Proof file: core imports only.
-/
import Scc.X86.LoaderCode

namespace Scc.X86.Loader

open Scc.X86 Scc.Str

set_option linter.unusedSimpArgs false

/-- comments carry no semantics: erase their text (= `Scc.X86.Ref.stripC`, `Scc.Props.C01_stripC`) -/
def stripC : Code → Code
  | .COMMENT _ => .COMMENT ""
  | c => c

/-- the lines of a printed item -/
def codeLines : Code → List String
  | .LAB l => ["", l ++ ":"]
  | c => [printCode c]

theorem codeLines_ne_nil (c : Code) : codeLines c ≠ [] := by
  cases c <;> simp [codeLines]

theorem codeLines_of_not_lab {c : Code} (h : ∀ l, c ≠ .LAB l) : codeLines c = [printCode c] := by
  cases c <;> first | rfl | exact absurd rfl (h _)

theorem printCode_lines (c : Code) : printCode c = "\n".intercalate (codeLines c) := by
  by_cases h : ∃ l, c = .LAB l
  · obtain ⟨l, rfl⟩ := h
    apply String.ext
    simp [codeLines, printCode, String.toList_intercalate, String.toList_append, List.intercalate,
      List.intersperse]
  · rw [codeLines_of_not_lab (fun l e => h ⟨l, e⟩)]
    apply String.ext
    simp [String.toList_intercalate, List.intercalate, List.intersperse]

/-- every line of a text-safe item is a single line -/
theorem codeLines_nl_free {c : Code} (h : CodeOK c) : ∀ l ∈ codeLines c, '\n' ∉ l.toList := by
  intro l hl
  by_cases hlab : ∃ x, c = .LAB x
  · obtain ⟨x, rfl⟩ := hlab
    simp only [codeLines, List.mem_cons, List.not_mem_nil, or_false] at hl
    rcases hl with rfl | rfl
    · simp
    · exact (reads_LAB x h).2.2
  · rw [codeLines_of_not_lab (fun x e => hlab ⟨x, e⟩)] at hl
    simp only [List.mem_singleton] at hl
    subst hl
    by_cases hcom : ∃ m, c = .COMMENT m
    · obtain ⟨m, rfl⟩ := hcom
      exact (reads_COMMENT m h).2
    · exact (parseLine_printCode c h (fun x e => hlab ⟨x, e⟩) (fun m e => hcom ⟨m, e⟩)).2

/-- the lines of the printed routine are the lines of its items -/
theorem splitOn_printProg {cs : List Code} (hne : cs ≠ []) (h : ∀ c ∈ cs, CodeOK c) :
    (printProg cs).splitOn "\n" = cs.flatMap codeLines := by
  unfold printProg
  have e : cs.map printCode = cs.map (fun c => "\n".intercalate (codeLines c)) :=
    List.map_congr_left (fun c _ => printCode_lines c)
  rw [e, newline_eq]
  exact splitOn_intercalate_chunks '\n' codeLines cs hne (fun c _ => codeLines_ne_nil c)
    (fun c hc => codeLines_nl_free (h c hc))

/-- reading the lines of text-safe items gives the items back, up to the text of comments -/
theorem parseLines_codes (cs : List Code) (h : ∀ c ∈ cs, CodeOK c) :
    ∀ (n : Nat) (acc : List (Code × Nat)), ∃ items,
      parseLines (cs.flatMap codeLines) n acc = .ok (acc.reverse ++ items) ∧
      (items.map (·.1)).map stripC = cs.map stripC ∧ ∀ it ∈ items, n ≤ it.2 := by
  induction cs with
  | nil => intro n acc; exact ⟨[], by simp [parseLines], rfl, by simp⟩
  | cons c cs ih =>
    intro n acc
    have hc : CodeOK c := h c (by simp)
    have ih' := ih (fun x hx => h x (by simp [hx]))
    by_cases hlab : ∃ x, c = .LAB x
    · obtain ⟨x, rfl⟩ := hlab
      obtain ⟨items, h1, h2, h3⟩ := ih' (n + 1 + 1) ((.LAB x, n + 1) :: acc)
      refine ⟨(.LAB x, n + 1) :: items, ?_, ?_, ?_⟩
      · simp only [List.flatMap_cons, codeLines, List.cons_append, List.nil_append, parseLines, parseLine_empty,
          (reads_LAB x hc).2.1, h1]
        simp
      · simp [h2]
      · intro it hit
        simp only [List.mem_cons] at hit
        rcases hit with rfl | hit
        · simp
        · have := h3 it hit; omega
    · have hl : codeLines c = [printCode c] := codeLines_of_not_lab (fun x e => hlab ⟨x, e⟩)
      by_cases hcom : ∃ m, c = .COMMENT m
      · obtain ⟨m, rfl⟩ := hcom
        obtain ⟨⟨m', hm'⟩, _⟩ := reads_COMMENT m hc
        obtain ⟨items, h1, h2, h3⟩ := ih' (n + 1) ((.COMMENT m', n) :: acc)
        refine ⟨(.COMMENT m', n) :: items, ?_, ?_, ?_⟩
        · simp only [List.flatMap_cons, hl, List.cons_append, List.nil_append, parseLines, hm', h1]
          simp
        · simp [h2, stripC]
        · intro it hit
          simp only [List.mem_cons] at hit
          rcases hit with rfl | hit
          · simp
          · have := h3 it hit; omega
      · have hp := (parseLine_printCode c hc (fun x e => hlab ⟨x, e⟩) (fun m e => hcom ⟨m, e⟩)).1
        obtain ⟨items, h1, h2, h3⟩ := ih' (n + 1) ((c, n) :: acc)
        refine ⟨(c, n) :: items, ?_, ?_, ?_⟩
        · simp only [List.flatMap_cons, hl, List.cons_append, List.nil_append, parseLines, hp, h1]
          simp
        · simp [h2]
        · intro it hit
          simp only [List.mem_cons] at hit
          rcases hit with rfl | hit
          · simp
          · have := h3 it hit; omega

theorem parseText_printProg_nil : parseText (printProg []) = .ok [] := by
  unfold parseText printProg
  have : ("\n".intercalate (([] : List Code).map printCode)).splitOn "\n" = [""] := by
    rw [newline_eq]; exact splitOn_intercalate_nil '\n'
  rw [this]
  simp [parseLines, parseLine_empty]

/-- THE ROUND TRIP: the loader reads the printed text of a list of text-safe items back as these
    items, up to the text of comments -/
theorem parseText_printProg (cs : List Code) (h : ∀ c ∈ cs, CodeOK c) :
    ∃ items, parseText (printProg cs) = .ok items ∧ (items.map (·.1)).map stripC = cs.map stripC := by
  by_cases hne : cs = []
  · subst hne; exact ⟨[], parseText_printProg_nil, rfl⟩
  · obtain ⟨items, h1, h2, _⟩ := parseLines_codes cs h 1 []
    refine ⟨items, ?_, h2⟩
    unfold parseText
    rw [splitOn_printProg hne h, h1]; rfl

/-- without comments the items are read back EXACTLY -/
theorem parseText_printProg_exact (cs : List Code) (h : ∀ c ∈ cs, CodeOK c) (hnc : ∀ m, .COMMENT m ∉ cs) :
    ∃ items, parseText (printProg cs) = .ok items ∧ items.map (·.1) = cs := by
  obtain ⟨items, h1, h2⟩ := parseText_printProg cs h
  refine ⟨items, h1, ?_⟩
  have hs : ∀ c ∈ cs, stripC c = c := by
    intro c hc
    cases c <;> first | rfl | exact absurd hc (hnc _)
  have hcs : cs.map stripC = cs := by
    rw [List.map_congr_left hs]; simp
  rw [hcs] at h2
  -- the parsed items contain no comments either: a comment would survive `stripC` as a comment
  have hinj : ∀ (a : List Code) (b : List Code), a.map stripC = b → (∀ m, .COMMENT m ∉ b) → a = b := by
    intro a
    induction a with
    | nil => intro b hb _; simpa using hb
    | cons x xs ih =>
      intro b hb hbn
      cases b with
      | nil => simp at hb
      | cons y ys =>
        simp only [List.map_cons, List.cons.injEq] at hb
        have hx : x = y := by
          cases x <;> first | exact hb.1 | (exfalso; apply hbn ""; rw [← hb.1]; simp [stripC])
        rw [hx, ih ys hb.2 (fun m hm => hbn m (by simp [hm]))]
  exact hinj _ _ h2 hnc

end Scc.X86.Loader
