/-
  Scc.X86.ConcKStuck — RUNS OF THE POSITIONAL MACHINE THAT GET STUCK ON A DIVISION, on the x86-64 SPEC machine, all
  programs (the port of Scc/A64/ConcKStuck.lean): the positional machine of a linearly typed program gets stuck only
  at an `op` whose operator is undefined (divisor 0, or MIN / −1: `Pos.step_safe`, `Pos.stuck_op`); the machine runs
  without fault through the backup dance of code.rs `div` / `rem` to the `idiv` of that `op`, and the `idiv` faults
  with `div-by-zero` resp. `div-overflow` (`divFault`, Scc/X86/ConcKDiv.lean) — the two faults property C13 permits.
  * `x_steps_fault`: a block at the program counter whose prefix executes and whose next item faults;
  * `tol_run_fault`: the machine ahead of the boundary by labels and comments reaches the faulting state;
  * `K.op_x3_stuck`, `K.step3_stuck`: at a statement boundary;
  * `run3_stuck`: along the run (a fork of `run3_peak`, Scc/X86/ConcKPeakRun.lean);
  * `runLoop_fault`, `programs_stuck_gen`: on the run loop from `asm_main`;
  * `programs_all_fuel_div` / `programs_dsize_div`: EVERY AMOUNT OF MACHINE FUEL WITHOUT THE HYPOTHESIS THAT THE
    POSITIONAL MACHINE DOES NOT GET STUCK: the result is `outOfFuel`, `done v`, or `fault (divFault w) ln`.
-/
import Scc.X86.ConcKAllFuel
import Scc.X86.ConcKDiv

set_option linter.unusedVariables false
set_option linter.unusedSimpArgs false

namespace Scc.X86.Ref

open Scc.X86

section Fault
variable (m : MonCfg) {p : Prog} {cs : List Code} (L : Loaded p cs)

include L in
/-- a block at the program counter: its prefix executes, its next item faults -/
theorem x_steps_fault {pre post : List Code} {code : Code} {s s0 : State} {e : String}
    (hat : XAt cs s.pc (pre ++ code :: post))
    (hx : execStraight m.mach p.labelAddr pre s = .ok s0)
    (he : execCode m.mach p.labelAddr code s0 = .error e) :
    ∃ XF ln, stepN m p pre.length s = .inl XF ∧ step m p XF = .inr (.fault e ln) := by
  obtain ⟨k, hk⟩ := x_steps_straight m L hat.left hx
  refine ⟨_, p.lineOf (s.pc + pre.length), hk, ?_⟩
  have hget : cs[s.pc + pre.length]? = some code := by
    obtain ⟨cs1, rest, hcs, hl⟩ := hat
    rw [hcs, ← hl]
    simp [List.append_assoc]
  have hc := L.code (s.pc + pre.length)
  rw [hget] at hc
  cases hp : p.code[s.pc + pre.length]? with
  | none => rw [hp] at hc; cases hc
  | some code' =>
    rw [hp] at hc
    simp only [Option.map_some, Option.some.injEq] at hc
    have hex : execCode m.mach p.labelAddr code' (setPS s0 (s.pc + pre.length) k) = .error e := by
      rw [← execCode_strip, hc, execCode_strip, execCode_setPS, he]
      rfl
    have hpc : (setPS s0 (s.pc + pre.length) k).pc = s.pc + pre.length := rfl
    unfold step
    rw [hpc, hp]
    simp only [hex]

include L in
/-- the machine ahead of the boundary by labels and comments reaches the faulting state -/
theorem tol_run_fault {X0 X XL : State} (T : Tol cs X0 X) {n : Nat} (h : stepN m p n X0 = .inl XL)
    {e : String} {ln : Nat} (hd : step m p XL = .inr (.fault e ln)) : ∃ k, stepN m p k X = .inl XL := by
  rcases tol_run m L T h with h1 | h1
  · exact h1
  · by_cases hlt : XL.pc < X.pc
    · have := noop_step m L (h1.noop XL.pc (Nat.le_refl _) hlt)
      rw [this] at hd
      cases hd
    · have e : X.pc = XL.pc := by have := h1.le; omega
      refine ⟨0, ?_⟩
      have := h1.eq
      rw [e] at this
      simp only [stepN]
      rw [this]
      rfl

end Fault

end Scc.X86.Ref

namespace Scc.X86.Ref.K

open Scc.AxCut Scc.AxCut.Pos Scc.Backend Scc.Backend.Abs Scc.Backend.Sim Scc.Backend.Sim2 Scc.X86
open Scc.Backend.Keys
open Scc.Heap (HState InvS InvW)
open Scc.Heap.Refine (HRef)

section Stuck

variable {F : Frame} {mon : MonCfg} (hmon : mon.mach = F.c)
  {px : X86.Prog} {cs : List Code} (L : Loaded px cs)

include hmon L in
/-- THE MACHINE AT AN `op` WHOSE OPERATOR IS UNDEFINED: it runs to the `idiv`, which faults -/
theorem op_x3_stuck {P : Program} {hooks : Bool} {prog : AxCut.Prog} {Γ : Ctx} {ρ : List Value} {x a b : Ident}
    {o : BinOp} {next : Stmt} {fv : FV} {cfg : Config} {va vb : Word} {w : Pos.Why}
    (R : RelX P hooks prog ⟨Γ, ρ, .op x a o b next fv⟩ cfg)
    (hfresh : ∀ b' ∈ Γ, b'.var.id ≠ x.id)
    (ha : readInt Γ ρ a = .ok va) (hb : readInt Γ ρ b = .ok vb) (hv : Pos.evalOp o va vb = .error w)
    {hs : HState} {ι : Nat → Nat} {κ : Nat → Nat → Word} {st : State} (X : X3 F Γ cfg hs ι κ st)
    {kx kx' : Nat} {items : List Code}
    (hrunX : (codeStatementR x86Backend hooks natRen prog.types (.op x a o b next fv) Γ).run kx = .ok (items, kx'))
    (hatX : XAt cs st.pc items) :
    ∃ n XF ln, stepN mon px n st = .inl XF ∧ step mon px XF = .inr (.fault (divFault w) ln) := by
  obtain ⟨p1, hi1, hl1, hg1⟩ := R.readInt ha
  obtain ⟨p2, hi2, hl2, hg2⟩ := R.readInt hb
  simp only at hi1 hi2 hl1 hl2
  -- the kinds of the operands
  have hchi1 : Γ[p1].chi = .ext := by
    have := (R.vals p1 hl1 (by show _ < ρ.length; have hlen : ρ.length = Γ.length := R.len; omega)).2.2.1
    simp only at this
    obtain ⟨_, hpo, hval⟩ := readInt_ok ha
    rw [ctxPosition_eq_posOf] at hi1
    rw [hi1] at hpo
    cases hpo
    rw [List.getElem?_eq_getElem (by show _ < ρ.length; have hlen : ρ.length = Γ.length := R.len; omega)] at hval
    injection hval with hval
    rw [this, hval]; rfl
  have hchi2 : Γ[p2].chi = .ext := by
    have := (R.vals p2 hl2 (by show _ < ρ.length; have hlen : ρ.length = Γ.length := R.len; omega)).2.2.1
    simp only at this
    obtain ⟨_, hpo, hval⟩ := readInt_ok hb
    rw [ctxPosition_eq_posOf] at hi2
    rw [hi2] at hpo
    cases hpo
    rw [List.getElem?_eq_getElem (by show _ < ρ.length; have hlen : ρ.length = Γ.length := R.len; omega)] at hval
    injection hval with hval
    rw [this, hval]; rfl
  -- the x86 code
  simp only [codeStatementR, run_bind_ok, run_pure_ok] at hrunX
  obtain ⟨tX, _, htX, s1X, _, hs1X, s2X, _, hs2X, c2X, k2X, h2X, rfl, rfl⟩ := hrunX
  obtain ⟨pX, hpX, hltX, rfl, rfl⟩ := (x86_vt_run_ok _ _ _ _ _ _).1 htX
  obtain ⟨q1, hq1, hlt1, rfl, rfl⟩ := (x86_vt_run_ok _ _ _ _ _ _).1 hs1X
  obtain ⟨q2, hq2, hlt2, rfl, rfl⟩ := (x86_vt_run_ok _ _ _ _ _ _).1 hs2X
  have hpX' : pX = Γ.length := by
    have := posOf_append_fresh Γ ⟨x, .ext, .i64⟩ hfresh
    rw [this] at hpX
    exact (Option.some.inj hpX).symm
  subst hpX'
  have eq1 : q1 = p1 := by
    rw [ctxPosition_eq_posOf] at hi1
    have := posOf_append_old [⟨x, .ext, .i64⟩] hi1
    rw [this] at hq1; exact (Option.some.inj hq1).symm
  have eq2 : q2 = p2 := by
    rw [ctxPosition_eq_posOf] at hi2
    have := posOf_append_old [⟨x, .ext, .i64⟩] hi2
    rw [this] at hq2; exact (Option.some.inj hq2).symm
  subst eq1 eq2
  simp only [TempNum.toNat] at hltX hlt1 hlt2
  generalize hc0 : hookCode x86Backend hooks Γ ++
    [x86Backend.comment (x.print ++ " <- " ++ a.print ++ " " ++ o.sym ++ " " ++ b.print ++ ";")] = c0 at hatX
  have hc0c : ∀ y ∈ c0, ∃ m', y = Code.COMMENT m' := by rw [← hc0]; exact hook_comments hooks Γ _
  have hxl : x86Backend.binop o (posTemp (2 * Γ.length + TempNum.snd.toNat))
      (posTemp (2 * q1 + TempNum.snd.toNat)) (posTemp (2 * q2 + TempNum.snd.toNat)) =
      binop o (posTemp (2 * Γ.length + 1)) (posTemp (2 * q1 + 1)) (posTemp (2 * q2 + 1)) := rfl
  rw [hxl] at hatX
  have hatA : XAt cs st.pc (c0 ++ (binop o (posTemp (2 * Γ.length + 1)) (posTemp (2 * q1 + 1))
      (posTemp (2 * q2 + 1)) ++ c2X)) := by
    simpa [List.append_assoc] using hatX
  obtain ⟨k0, hk0⟩ := x_steps_straight mon L hatA.left
    (execStraight_comments mon.mach px.labelAddr c0 st hc0c)
  have X0 : X3 F Γ cfg hs ι κ (setPS st (st.pc + c0.length) k0) := X3R.setPS X _ _
  have hw1 := X0.words q1 hl1 va hg1
  have hw2 := X0.words q2 hl2 vb hg2
  rw [hchi1] at hw1
  rw [hchi2] at hw2
  have D : DivPlacement (posTemp (2 * Γ.length + 1)) (posTemp (2 * q1 + 1)) (posTemp (2 * q2 + 1)) := by
    refine ⟨tempOK_posTemp hltX, tempOK_posTemp hlt1, tempOK_posTemp hlt2,
      fun e => by have := posTemp_inj.1 e; omega, fun e => by have := posTemp_inj.1 e; omega, ?_, ?_, ?_⟩
    · unfold posTemp; split
      · intro e; injection e with e; omega
      · intro e; cases e
    · unfold posTemp; split
      · intro e; injection e with e; omega
      · intro e; cases e
    · unfold posTemp; split
      · intro e; injection e with e; omega
      · intro e; cases e
  obtain ⟨pre, code, post, s0, hsplit, hx, hex, _⟩ :=
    op_fault (la := px.labelAddr) X0.bnd o D hw1 hw2 hv
  rw [← hmon] at hx hex
  have hatB : XAt cs (setPS st (st.pc + c0.length) k0).pc (pre ++ code :: (post ++ c2X)) := by
    have := hatA.right
    rw [hsplit] at this
    show XAt cs (st.pc + c0.length) _
    simpa [List.append_assoc] using this
  obtain ⟨XF, ln, hk1, hstep⟩ := x_steps_fault mon L hatB hx hex
  exact ⟨c0.length + pre.length, XF, ln, stepN_trans mon px hk0 hk1, hstep⟩

end Stuck

section Stuck3

variable {F : Frame} {mon : MonCfg} (hmon : mon.mach = F.c)
  {px : X86.Prog} {cs : List Code} (L : Loaded px cs)

include hmon L in
/-- THE STUCK STEP: a step of the positional machine (linearly typed program, typed state) that is stuck is a
division by zero or an overflow of an `op`; from the boundary the machine runs to the `idiv`, which faults -/
theorem step3_stuck (hooks : Bool) (prog : AxCut.Prog) (code : List MockOp) (htp : LinTypedProg prog)
    (st : Pos.State) (cfg : Config) (hs : HState) (X : State)
    (R : Rel3 F cs (Program.ofOps code) hooks prog st cfg hs X)
    (T : Pos.StateTyped prog st) {w : Pos.Why} (hst : Pos.step prog st = .stuck w) :
    ∃ n XF ln, stepN mon px n X = .inl XF ∧ step mon px XF = .inr (.fault (divFault w) ln) := by
  have hsafe := Pos.step_safe htp st T
  rw [hst] at hsafe
  obtain ⟨x, a, o, b, next, fv, va, vb, hstmt, hra, hrb, hv⟩ := Pos.stuck_op hst hsafe
  obtain ⟨Γ, ρ, s⟩ := st
  simp only at hstmt hra hrb
  subst hstmt
  obtain ⟨Γ', ι, κ, hk, RX, X3h, C, kx, kx', items, hrunX, hatX⟩ := R
  obtain ⟨hty, henv⟩ := T
  simp only at hk RX hty henv
  cases hty with
  | op hn ha hb hfr hnext =>
    exact op_x3_stuck hmon L RX (mem_ids_keys hk hfr) (by rw [readInt_keys hk]; exact hra)
      (by rw [readInt_keys hk]; exact hrb) hv X3h hrunX hatX

end Stuck3

end Scc.X86.Ref.K

namespace Scc.X86.ConcK

open Scc Scc.AxCut Scc.AxCut.Pos Scc.Backend Scc.Backend.Abs Scc.Backend.Sim Scc.Backend.Subst Scc.X86 Scc.X86.Ref
open Scc.Backend.Sim2 Scc.Backend.Keys
open Scc.Props.C14Generic (LabelSafe)
open Scc.Props.C06Generic (outAfter WithinCapacity Reachable EnoughHeap CodeFits statesOf stopsWithin)
open Scc.Heap (HState InvS InvW Exhausted)
open Scc.Heap.Refine (HRef FrLe Room FrPk)
open Scc.X86.Conc (BChain FrBound LiveLe LiveLe0 stmtSize clausesSize valsFields run_eq_runState runLoop_outOfFuel)

section Run3S

variable {F : Frame} (HF : FrameOK F) (h8 : F.c.heapBase % 8 = 0) {mon : MonCfg} (hmon : mon.mach = F.c)
  {px : X86.Prog} {cs pre : List Code} (LA : LoadedA F.c px cs) (hndL : (labs cs).Nodup)
  (hfitX : addrAt F.c.codeBase cs cs.length < 2 ^ 64) (hcs : cs = pre ++ cleanup)
  (hclean : "cleanup" ∉ labs pre) {st0 : State} {h : Word} (E : EntryFacts F st0 h)

include HF h8 hmon LA hndL hfitX hcs hclean E in
/-- A RUN OF THE POSITIONAL MACHINE THAT GETS STUCK (on a division), under the footprint bound, all programs: the
machine runs — without fault — to the `idiv` of the `op` the positional machine is stuck at, and the `idiv` faults -/
theorem run3_stuck (hooks : Bool) (prog : AxCut.Prog) (c : Nat) (code : List MockOp) (nargs c' : Nat)
    (hcomp : (compile mockSym hooks prog).run c = .ok ((code, nargs), c'))
    (hsafe : LabelSafe prog = true) (htp : LinTypedProg prog) (hfit : CodeFits code)
    (DX : K.XDefsAt cs hooks prog) (hprog : K.ProgOK prog) (Pk C A : Nat)
    (hA : ∀ d ∈ prog.defs, K.AllocLe A d.body)
    (hbytes : 64 * (Pk + A + 2) ≤ F.c.heapBytes) :
    ∀ (fuel : Nat) (st : Pos.State) (acc : List (Bool × Word)) (cfg : Config) (hs : HState) (X0 X : State)
      (out : List (Bool × Word)) (w : Pos.Why) (Cb : Nat),
      Pos.StateTyped prog st → (∀ st', Reachable prog st st' → 2 * st'.ctx.length ≤ 266) →
      Tol cs X0 X →
      K.Rel3 F cs (Program.ofOps code) hooks prog st cfg hs X0 → K.StmtOK st.stmt → K.AllocLe A st.stmt →
      (∀ w ∈ st.env, K.ValAll (K.AllocLeClauses A) w) →
      cfg.out = acc → cfg.next + fuel < 2 ^ 64 → FrBound hs (Pk + 1) →
      FrBound hs Cb → Cb + A * fuel ≤ C →
      PeakFrom F mon px cs (Program.ofOps code) hooks prog st X Pk C →
      Pos.runState prog fuel st acc = ⟨out, .stuck w⟩ →
      ∃ n XL ln, stepN mon px n X = .inl XL ∧ step mon px XL = .inr (.fault (divFault w) ln)
  | 0, st, acc, cfg, hs, X0, X, out, w, Cb, _, _, _, _, _, _, _, _, _, _, _, _, _, h => by
    simp [Pos.runState] at h
  | fuel + 1, st, acc, cfg, hs, X0, X, out, w, Cb, T, hcap, TL, R, hok, hlet, hvals, hacc, hnext, hfb, hcb, hC,
      hP, h => by
    have L := LA.loaded
    have hcC : FrBound hs C := fun rs lin lazy live F J => by have := hcb rs lin lazy live F J; omega
    have hX3 : ∃ Γ' ι κ, K.X3 F Γ' cfg hs ι κ X0 := by
      obtain ⟨Γ', ι, κ, _, _, X3h, _⟩ := R
      exact ⟨Γ', ι, κ, X3h⟩
    obtain ⟨Γ0, ι0, κ0, X3h⟩ := hX3
    have hbase := X3h.hrel.base
    have hlimit := X3h.hrel.limit
    have hAr := K.allocArity_le hlet
    have hCm : Cb + A ≤ C := by
      have : A ≤ A * (fuel + 1) := Nat.le_mul_of_pos_right A (by omega)
      omega
    have hroom : Room hs (64 * K.allocArity st.stmt + 64) :=
      Conc.Room.of_frBound hfb (by rw [hbase, hlimit]; omega)
    have hsim := K.step3P HF h8 hmon LA hndL hfitX hcs hclean E hooks prog c code nargs c' hcomp hsafe htp hfit
      DX hprog st cfg hs X0 R T (by unfold EnoughHeap; omega) hok hroom
    have hsafe' := Pos.step_safe htp st T
    have hw : ∃ rs lin lazy live F, InvS hs rs [] lin lazy live F := by
      obtain ⟨lin, lazy, live, Fr, I⟩ := X3h.href.conc
      exact ⟨_, lin, lazy, live, Fr, I⟩
    unfold K.StepSim3P at hsim
    simp only [Pos.runState] at h
    cases hst : Pos.step prog st with
    | stuck w' =>
      simp only [hst, Pos.Behaviour.mk.injEq, Pos.Result.stuck.injEq] at h
      obtain ⟨_, rfl⟩ := h
      obtain ⟨n, XF, ln, h1, h2⟩ := K.step3_stuck hmon L hooks prog code htp st cfg hs X0 R T hst
      obtain ⟨k, hk⟩ := tol_run_fault mon L TL h1 h2
      exact ⟨k, XF, ln, hk, h2⟩
    | done v' => simp [hst] at h
    | next st' o =>
      simp only [hst] at h hsim
      rw [hst] at hsafe'
      have hc' := hcap st' (Reachable.step Reachable.refl hst)
      obtain ⟨cfg', hs', X', XR, n, h1, T', hreal, h2, h3, hfr, hpk, R', hok'⟩ :=
        hsim (K.withinCapacity_of_le hc') hc'
      obtain ⟨k, XR', hk, T''⟩ := tol_next mon L TL h1 T'
      have hacc' : cfg'.out = outAfter o acc := by rw [h2, hacc]
      have h' : Pos.runState prog fuel st' (outAfter o acc) = ⟨out, .stuck w⟩ := by
        cases o <;> exact h
      obtain ⟨hlet', hvals'⟩ := K.hered_step (K.hered_allocLe A) hA hst hlet hvals
      have hcb' : FrBound hs' (Cb + A) := hcb.of_frLe (K.FrLe.mono' hfr (by omega)) hw
      have hlive' : LiveLe0 hs' Pk := hP k XR' X' st' cfg' hs' (Reachable.step Reachable.refl hst) hk T'' R'
        (fun rs lin lazy live F J => by have := hcb' rs lin lazy live F J; omega)
      have hfb' : FrBound hs' (Pk + 1) := hfb.step hfr.2.1 hpk hw hlive'
      have hC' : Cb + A + A * fuel ≤ C := by
        have : A * (fuel + 1) = A * fuel + A := Nat.mul_succ A fuel
        omega
      obtain ⟨n', XL, ln, g1, g2⟩ := run3_stuck hooks prog c code nargs c' hcomp hsafe htp hfit DX hprog Pk C A
        hA hbytes fuel st' (outAfter o acc) cfg' hs' X' XR' out w (Cb + A) hsafe'
        (fun st'' hr => hcap st'' (Scc.Props.C06Generic.reachable_prepend hst hr)) T'' R' hok' hlet' hvals' hacc'
        (by omega) hfb' hcb' hC' (hP.step hst hk) h'
      exact ⟨k + n', XL, ln, stepN_trans mon px hk g1, g2⟩

end Run3S

/-! ## the run loop at the faulting instruction -/

/-- the run loop at an item that faults -/
theorem runLoop_fault {m : MonCfg} (hm : m.heap = false) (p : Prog) (n : Nat) (s : State) (b : Nat)
    {e : String} {ln : Nat} (h : step m p s = .inr (.fault e ln)) :
    (runLoop m p (n + 1) s b).res = .fault e ln := by
  simp [runLoop, monitor_off hm, h, finish]

/-- A RUN THAT GETS STUCK ON A DIVISION, ON THE RUN LOOP (heap monitor off), for any source of the peak hypothesis:
there is an amount `N` of fuel such that with more fuel the machine ends in the division fault, and with at most `N`
it is out of fuel -/
theorem programs_stuck_gen (p : AxCut.Prog) (args : List Word) (hooks : Bool) (body routine : List Code)
    (nargs : Nat) (d0 : Def) (ops : List MockOp) (c' : Nat)
    (hsafe : LabelSafe p = true) (htp : LinTypedProg p) (hprog : K.ProgOK p)
    (hcompM : (compile mockSym hooks p).run 0 = .ok ((ops, nargs), c')) (hfit : CodeFits ops)
    (hcompX : compileX86 p hooks 0 = .ok (body, nargs)) (hrout : intoRoutine body nargs = .ok routine)
    (hnd : (labs routine).Nodup)
    (hd : p.defs.head? = some d0) (hentry : ∀ b ∈ d0.ctx, b.chi = .ext ∧ b.ty = .i64)
    (hlen : d0.ctx.length = args.length)
    (hcap : ∀ st, Reachable p ⟨d0.ctx, args.map .int, d0.body⟩ st → 2 * st.ctx.length ≤ 266)
    (fuel : Nat) (out : List (Bool × Word)) (w : Pos.Why) (hfuel : fuel + 1 < 2 ^ 64)
    (hrun : Pos.run p args fuel = ⟨out, .stuck w⟩)
    (cfg : MonCfg) (MO : MachOK cfg.mach) (hheap : cfg.heap = false)
    (hb8 : cfg.mach.heapBase % 8 = 0) (hb0 : 0 < cfg.mach.heapBase)
    (Pk A : Nat) (hA : ∀ d ∈ p.defs, K.AllocLe A d.body) (hbytes : 64 * (Pk + A + 2) ≤ cfg.mach.heapBytes)
    (items : List (Code × Nat)) (hitems : (items.map (·.1)).map stripC = routine.map stripC)
    (hfitX : addrAt cfg.mach.codeBase routine routine.length < 2 ^ 64)
    (hPH : PeakHyp p hooks routine ops cfg items args d0 Pk (A * fuel + 1)) :
    ∃ N, (∀ f, f ≤ N → (runItems items args f cfg).res = .outOfFuel) ∧
      ∀ f, N < f → ∃ ln, (runItems items args f cfg).res = .fault (divFault w) ln := by
  have hmem : d0 ∈ p.defs := by
    cases hdefs : p.defs with
    | nil => rw [hdefs] at hd; simp at hd
    | cons d ds => rw [hdefs] at hd; simp at hd; subst hd; simp
  have hrun' : Pos.runState p fuel ⟨d0.ctx, args.map .int, d0.body⟩ [] = ⟨out, .stuck w⟩ := by
    rw [← run_eq_runState hd hlen]; exact hrun
  have hc0 := hcap _ Reachable.refl
  simp only at hc0
  obtain ⟨F, pre, st0, h, n0, X0, a, En⟩ := entry_setup p args hooks body routine nargs d0 ops c' hsafe htp
    hcompM hcompX hrout hnd hd hentry hlen hc0 cfg MO hb0 (by omega) items hitems
  have hFc := En.fc
  have hfb0 : FrBound (Scc.Heap.init F.c.heapBase (F.c.heapBase + F.c.heapBytes)) (Pk + 1) :=
    frBound_init (by rw [hFc]; exact hb0) (by rw [hFc]; omega) (by omega)
  have hcb0 : FrBound (Scc.Heap.init F.c.heapBase (F.c.heapBase + F.c.heapBytes)) 1 :=
    frBound_init (by rw [hFc]; exact hb0) (by rw [hFc]; omega) (Nat.le_refl _)
  obtain ⟨n, XL, ln, g1, g2⟩ := run3_stuck En.frame (by rw [hFc]; exact hb8) hFc.symm En.loaded hnd
    (by rw [hFc]; exact hfitX) En.split En.clean En.entry hooks p 0 ops nargs c' hcompM hsafe htp hfit En.defs
    hprog Pk (A * fuel + 1) A hA (by rw [hFc]; exact hbytes) fuel _ [] (initConfig a args) _ X0 X0 out w 1 En.typed
    hcap (Tol.refl _ _) En.rel (hprog.2 d0 hmem) (hA d0 hmem) (K.valAll_ints _ args) rfl
    (by rw [En.next1]; omega) hfb0 hcb0 (by omega) (hPH F n0 X0 hFc En.steps) hrun'
  have hargs : ¬ args.length > 5 := by have := En.nargs; omega
  have hrl : ∀ f, runItems items args f cfg =
      runLoop cfg (mkProg cfg.mach items) f (initState cfg.mach args 6) 0 := by
    intro f
    unfold runItems
    simp only [En.main]
    rw [if_neg hargs]
  have hN := stepN_trans cfg _ En.steps g1
  refine ⟨n0 + n, fun f hf => ?_, fun f hf => ?_⟩
  · rw [hrl]
    exact runLoop_outOfFuel hheap _ f (n0 + n) _ XL 0 hN hf
  · obtain ⟨g, rfl⟩ : ∃ g, f = n0 + n + (g + 1) := ⟨f - (n0 + n) - 1, by omega⟩
    rw [hrl, runLoop_stepN hheap _ (n0 + n) (g + 1) _ _ 0 hN]
    exact ⟨ln, runLoop_fault hheap _ g XL 0 g2⟩

/-- EVERY AMOUNT OF MACHINE FUEL (heap monitor off), all programs, WHATEVER THE POSITIONAL MACHINE DOES: the result of
the machine is `outOfFuel`, or `done v` with the result of the positional machine, or the division fault the
positional machine is stuck at -/
theorem programs_all_fuel_div (p : AxCut.Prog) (args : List Word) (hooks : Bool) (body routine : List Code)
    (nargs : Nat) (d0 : Def) (ops : List MockOp) (c' : Nat)
    (hsafe : LabelSafe p = true) (htp : LinTypedProg p) (hprog : K.ProgOK p)
    (hcompM : (compile mockSym hooks p).run 0 = .ok ((ops, nargs), c')) (hfit : CodeFits ops)
    (hcompX : compileX86 p hooks 0 = .ok (body, nargs)) (hrout : intoRoutine body nargs = .ok routine)
    (hnd : (labs routine).Nodup)
    (hd : p.defs.head? = some d0) (hentry : ∀ b ∈ d0.ctx, b.chi = .ext ∧ b.ty = .i64)
    (hlen : d0.ctx.length = args.length)
    (hcap : ∀ st, Reachable p ⟨d0.ctx, args.map .int, d0.body⟩ st → 2 * st.ctx.length ≤ 266)
    (cfg : MonCfg) (MO : MachOK cfg.mach) (hheap : cfg.heap = false)
    (hb8 : cfg.mach.heapBase % 8 = 0) (hb0 : 0 < cfg.mach.heapBase)
    (Pk A M : Nat) (hA : ∀ d ∈ p.defs, K.AllocLe A d.body) (hM : ∀ d ∈ p.defs, stmtSize d.body ≤ M)
    (hbytes : 64 * (Pk + A + 2) ≤ cfg.mach.heapBytes)
    (items : List (Code × Nat)) (hitems : (items.map (·.1)).map stripC = routine.map stripC)
    (hfitX : addrAt cfg.mach.codeBase routine routine.length < 2 ^ 64)
    (fuel' : Nat) (hf : fuel' * (M + 1) + stmtSize d0.body + 1 < 2 ^ 64)
    (hPH : PeakHyp p hooks routine ops cfg items args d0 Pk (A * (fuel' * (M + 1) + stmtSize d0.body) + 1)) :
    (runItems items args fuel' cfg).res = .outOfFuel ∨
      (∃ v out, Pos.run p args (fuel' * (M + 1) + stmtSize d0.body) = ⟨out, .done v⟩ ∧
        (runItems items args fuel' cfg).res = .done v) ∨
      ∃ w out ln, Pos.run p args (fuel' * (M + 1) + stmtSize d0.body) = ⟨out, .stuck w⟩ ∧
        (w = .divByZero ∨ w = .overflow) ∧ (runItems items args fuel' cfg).res = .fault (divFault w) ln := by
  have hrs := run_eq_runState hd hlen (fuel' * (M + 1) + stmtSize d0.body)
  have hmem : d0 ∈ p.defs := by
    cases hdefs : p.defs with
    | nil => rw [hdefs] at hd; simp at hd
    | cons d ds => rw [hdefs] at hd; simp at hd; subst hd; simp
  have T0 : Pos.StateTyped p ⟨d0.ctx, args.map .int, d0.body⟩ :=
    ⟨htp d0 hmem, Pos.ints_typed d0.ctx args hlen hentry⟩
  cases hres : Pos.run p args (fuel' * (M + 1) + stmtSize d0.body) with
  | mk out res =>
  cases res with
  | stuck w =>
    have hw : w = .divByZero ∨ w = .overflow := by
      have := Pos.runState_safe htp (fuel' * (M + 1) + stmtSize d0.body) _ [] T0
      rw [← hrs, hres] at this
      exact this
    obtain ⟨N, h1, h2⟩ := programs_stuck_gen p args hooks body routine nargs d0 ops c' hsafe htp hprog hcompM hfit
      hcompX hrout hnd hd hentry hlen hcap _ out w hf hres cfg MO hheap hb8 hb0 Pk A hA hbytes items hitems hfitX hPH
    by_cases hle : fuel' ≤ N
    · exact Or.inl (h1 fuel' hle)
    · obtain ⟨ln, hln⟩ := h2 fuel' (by omega)
      exact Or.inr (Or.inr ⟨w, out, ln, rfl, hw, hln⟩)
  | done v =>
    obtain ⟨f0, _, h2⟩ := programs_run_gen p args hooks body routine nargs d0 ops c' hsafe htp hprog
      hcompM hfit hcompX hrout hnd hd hentry hcap _ out v hf hres cfg MO hheap hb8 hb0 Pk A hA hbytes items
      hitems hfitX hPH
    rcases CC.runItems_res_of_done (items := items) (args := args) (cfg := cfg) (f0 := f0) (v := v) h2 fuel'
      with h | h
    · exact Or.inl h
    · exact Or.inr (Or.inl ⟨v, out, rfl, h⟩)
  | outOfFuel =>
    left
    rw [hrs] at hres
    obtain ⟨hmain, hargs, n, X, hn, hX⟩ := programs_progress_gen p args hooks body routine nargs d0 ops c' hsafe htp
      hprog hcompM hfit hcompX hrout hnd hd hentry hlen hcap _ hf cfg MO hb8 hb0 Pk A M hA hM hbytes items hitems
      hfitX hPH out hres fuel' (Nat.le_refl _)
    have hargs' : ¬ args.length > 5 := by omega
    unfold runItems
    simp only [hmain]
    rw [if_neg hargs']
    exact runLoop_outOfFuel hheap _ fuel' n _ X 0 hX hn

/-- … under a bound `D` on the fields of the object and closure values of the positional machine's environments -/
theorem programs_dsize_div (p : AxCut.Prog) (args : List Word) (hooks : Bool) (body routine : List Code)
    (nargs : Nat) (d0 : Def) (ops : List MockOp) (c' : Nat)
    (hsafe : LabelSafe p = true) (htp : LinTypedProg p) (hprog : K.ProgOK p)
    (hcompM : (compile mockSym hooks p).run 0 = .ok ((ops, nargs), c')) (hfit : CodeFits ops)
    (hcompX : compileX86 p hooks 0 = .ok (body, nargs)) (hrout : intoRoutine body nargs = .ok routine)
    (hnd : (labs routine).Nodup)
    (hd : p.defs.head? = some d0) (hentry : ∀ b ∈ d0.ctx, b.chi = .ext ∧ b.ty = .i64)
    (hlen : d0.ctx.length = args.length)
    (hcap : ∀ st, Reachable p ⟨d0.ctx, args.map .int, d0.body⟩ st → 2 * st.ctx.length ≤ 266)
    (D : Nat) (hD : ∀ st, Reachable p ⟨d0.ctx, args.map .int, d0.body⟩ st → valsFields st.env ≤ D)
    (cfg : MonCfg) (MO : MachOK cfg.mach) (hheap : cfg.heap = false)
    (hb8 : cfg.mach.heapBase % 8 = 0) (hb0 : 0 < cfg.mach.heapBase)
    (A M : Nat) (hA : ∀ d ∈ p.defs, K.AllocLe A d.body) (hM : ∀ d ∈ p.defs, stmtSize d.body ≤ M)
    (hbytes : 64 * (D + A + 2) ≤ cfg.mach.heapBytes)
    (items : List (Code × Nat)) (hitems : (items.map (·.1)).map stripC = routine.map stripC)
    (hfitX : addrAt cfg.mach.codeBase routine routine.length < 2 ^ 64)
    (fuel' : Nat) (hf : fuel' * (M + 1) + stmtSize d0.body + 1 < 2 ^ 64) :
    (runItems items args fuel' cfg).res = .outOfFuel ∨
      (∃ v out, Pos.run p args (fuel' * (M + 1) + stmtSize d0.body) = ⟨out, .done v⟩ ∧
        (runItems items args fuel' cfg).res = .done v) ∨
      ∃ w out ln, Pos.run p args (fuel' * (M + 1) + stmtSize d0.body) = ⟨out, .stuck w⟩ ∧
        (w = .divByZero ∨ w = .overflow) ∧ (runItems items args fuel' cfg).res = .fault (divFault w) ln :=
  programs_all_fuel_div p args hooks body routine nargs d0 ops c' hsafe htp hprog hcompM hfit hcompX hrout hnd hd
    hentry hlen hcap cfg MO hheap hb8 hb0 D A M hA hM hbytes items hitems hfitX fuel' hf (peakHyp_of_data hD)

end Scc.X86.ConcK
