/-
  Scc.X86.ConcAllFuel — EVERY AMOUNT OF MACHINE FUEL, runs that do not terminate included: composition of the
  progress theorem (`run3_progress`, ConcProgress.lean) with the entry and the run loop.  If the positional
  machine is still running after `N·(M + 1) + |main|` steps, the x86-64 machine started at `asm_main` makes at
  least `N` transitions without fault, so with fuel `N` its result is `outOfFuel`.
-/
import Scc.X86.ConcProgress
import Scc.X86.ConcC10
import Scc.X86.ConcCC

set_option linter.unusedVariables false
set_option linter.unusedSimpArgs false

namespace Scc.X86.Conc

open Scc Scc.AxCut Scc.AxCut.Pos Scc.Backend Scc.Backend.Abs Scc.Backend.Sim Scc.Backend.Subst Scc.X86 Scc.X86.Ref
open Scc.Backend.Sim2 Scc.Backend.Keys
open Scc.Props.C14Generic (LabelSafe)
open Scc.Props.C06Generic (outAfter WithinCapacity Reachable EnoughHeap CodeFits statesOf stopsWithin)
open Scc.Heap (HState InvS InvW Exhausted)
open Scc.Heap.Refine (HRef FrLe Room FrPk)

/-- a machine that makes `n` transitions without ending has not ended with less fuel -/
theorem runLoop_outOfFuel {m : MonCfg} (hm : m.heap = false) (p : Prog) : ∀ (f n : Nat) (s s' : State) (b : Nat),
    stepN m p n s = .inl s' → f ≤ n → (runLoop m p f s b).res = .outOfFuel
  | 0, _, _, _, _, _, _ => rfl
  | f + 1, 0, _, _, _, _, h => absurd h (by omega)
  | f + 1, n + 1, s, s', b, hs, h => by
    simp only [stepN] at hs
    simp only [runLoop, monitor_off hm]
    cases hst : step m p s with
    | inr r => rw [hst] at hs; cases hs
    | inl s1 =>
      rw [hst] at hs
      exact runLoop_outOfFuel hm p f n s1 s' _ hs (by omega)

/-- PROGRESS FROM THE MACHINE'S INITIAL STATE -/
theorem data_programs_progress (p : AxCut.Prog) (args : List Word) (hooks : Bool) (body routine : List Code)
    (nargs : Nat) (d0 : Def) (ops : List MockOp) (c' : Nat)
    (hsafe : LabelSafe p = true) (htp : LinTypedProg p) (hprog : ProgOK p)
    (hcompM : (compile mockSym hooks p).run 0 = .ok ((ops, nargs), c')) (hfit : CodeFits ops)
    (hcompX : compileX86 p hooks 0 = .ok (body, nargs)) (hrout : intoRoutine body nargs = .ok routine)
    (hnd : (labs routine).Nodup)
    (hd : p.defs.head? = some d0) (hentry : ∀ b ∈ d0.ctx, b.chi = .ext ∧ b.ty = .i64)
    (hlen : d0.ctx.length = args.length)
    (hcap : ∀ st, Reachable p ⟨d0.ctx, args.map .int, d0.body⟩ st → 2 * st.ctx.length ≤ 266)
    (fuel : Nat) (hfuel : fuel + 1 < 2 ^ 64)
    (cfg : MonCfg) (MO : MachOK cfg.mach) (hk : cfg.consts = consts)
    (hb8 : cfg.mach.heapBase % 8 = 0) (hb0 : 0 < cfg.mach.heapBase)
    (Pk A M : Nat) (hA : ∀ d ∈ p.defs, LetLe A d.body) (hM : ∀ d ∈ p.defs, stmtSize d.body ≤ M)
    (hbytes : 64 * (Pk + A + 2) ≤ cfg.mach.heapBytes)
    (items : List (Code × Nat)) (hitems : (items.map (·.1)).map stripC = routine.map stripC)
    (hfitX : addrAt cfg.mach.codeBase routine routine.length < 2 ^ 64)
    (hP : PeakAtMost p hooks routine ops cfg items args Pk (A * fuel + 1))
    (out : List (Bool × Word))
    (hrun : Pos.runState p fuel ⟨d0.ctx, args.map .int, d0.body⟩ [] = ⟨out, .outOfFuel⟩)
    (N : Nat) (hN : N * (M + 1) + stmtSize d0.body ≤ fuel) :
    (mkProg cfg.mach items).labelIdx["asm_main"]? = some 6 ∧
    ∃ n X, N ≤ n ∧ stepN cfg (mkProg cfg.mach items) n (initState cfg.mach args 6) = .inl X := by
  have hmem : d0 ∈ p.defs := by
    cases hdefs : p.defs with
    | nil => rw [hdefs] at hd; simp at hd
    | cons d ds => rw [hdefs] at hd; simp at hd; subst hd; simp
  have hc0 := hcap _ Reachable.refl
  simp only at hc0
  obtain ⟨F, pre, st0, h, n0, X0, a, En⟩ := entry_setup p args hooks body routine nargs d0 ops c' hsafe htp
    hcompM hcompX hrout hnd hd hentry hlen hc0 cfg MO hb0 (by omega) items hitems
  have hFc := En.fc
  have hPF : PeakFrom F cfg (mkProg cfg.mach items) routine (Program.ofOps ops) hooks p ⟨d0.ctx, args.map .int, d0.body⟩ X0 Pk (A * fuel + 1) := by
    intro n X' st' cfg' hs' _ hn R hC rs lin live Fr I
    have hB : BoundaryOf p hooks routine ops cfg st' X' := ⟨F, cfg', hs', hFc, R⟩
    obtain ⟨Γ', ι, _, _, X3h, _⟩ := R
    exact hP (n0 + n) X' st' (stepN_trans cfg _ En.steps hn) hB _ _ (heapShapeAt_of_rel hFc.symm hk X3h.hrel I)
      (hC _ _ _ _ _ I)
  have hinit := Scc.Heap.init_inv (base := F.c.heapBase) (limit := F.c.heapBase + F.c.heapBytes)
    (by rw [hFc]; exact hb0) (by rw [hFc]; omega)
  have hfb0 : FrBound (Scc.Heap.init F.c.heapBase (F.c.heapBase + F.c.heapBytes)) (Pk + 1) := by
    intro rs lin lazy live Fr J
    have := (Scc.Heap.InvS.witness_unique hinit J).2.2
    have hb : (Scc.Heap.init F.c.heapBase (F.c.heapBase + F.c.heapBytes)).base = F.c.heapBase := rfl
    rw [hb, this]
    omega
  have hcb0 : FrBound (Scc.Heap.init F.c.heapBase (F.c.heapBase + F.c.heapBytes)) 1 := by
    intro rs lin lazy live Fr J
    have := (Scc.Heap.InvS.witness_unique hinit J).2.2
    have hb : (Scc.Heap.init F.c.heapBase (F.c.heapBase + F.c.heapBytes)).base = F.c.heapBase := rfl
    rw [hb, this]
    omega
  obtain ⟨n, X, hn, hX⟩ := run3_progress En.frame (by rw [hFc]; exact hb8) hFc.symm En.loaded hnd
    (by rw [hFc]; exact hfitX) En.split En.clean En.entry hooks p 0 ops nargs c' hcompM hsafe htp hfit En.defs
    hprog Pk (A * fuel + 1) A M hA hM (by rw [hFc]; exact hbytes) fuel N _ [] (initConfig a args) _ X0 out 1
    En.typed hcap En.rel (hprog.2 d0 hmem) (hA d0 hmem) (by rw [En.next1]; omega) hfb0 hcb0 (by omega) hPF hrun hN
  exact ⟨En.main, n0 + n, X, by omega, stepN_trans cfg _ En.steps hX⟩

theorem run_eq_runState {p : AxCut.Prog} {d0 : Def} {args : List Word} (hd : p.defs.head? = some d0)
    (hlen : d0.ctx.length = args.length) (fuel : Nat) :
    Pos.run p args fuel = Pos.runState p fuel ⟨d0.ctx, args.map .int, d0.body⟩ [] := by
  unfold Pos.run
  cases hdefs : p.defs with
  | nil => rw [hdefs] at hd; simp at hd
  | cons d ds =>
    rw [hdefs] at hd
    simp only [List.head?_cons, Option.some.injEq] at hd
    subst hd
    simp only
    rw [if_neg (by omega)]

/-- EVERY AMOUNT OF MACHINE FUEL (heap monitor off): the result of the machine on the items of the routine is
`outOfFuel`, or `done v` with `v` the result of the positional machine — provided the positional machine
never gets stuck (no division by zero / overflow) and the peak of blocks in use is bounded -/
theorem data_programs_all_fuel (p : AxCut.Prog) (args : List Word) (hooks : Bool) (body routine : List Code)
    (nargs : Nat) (d0 : Def) (ops : List MockOp) (c' : Nat)
    (hsafe : LabelSafe p = true) (htp : LinTypedProg p) (hprog : ProgOK p)
    (hcompM : (compile mockSym hooks p).run 0 = .ok ((ops, nargs), c')) (hfit : CodeFits ops)
    (hcompX : compileX86 p hooks 0 = .ok (body, nargs)) (hrout : intoRoutine body nargs = .ok routine)
    (hnd : (labs routine).Nodup)
    (hd : p.defs.head? = some d0) (hentry : ∀ b ∈ d0.ctx, b.chi = .ext ∧ b.ty = .i64)
    (hlen : d0.ctx.length = args.length)
    (hcap : ∀ st, Reachable p ⟨d0.ctx, args.map .int, d0.body⟩ st → 2 * st.ctx.length ≤ 266)
    (hnostuck : ∀ fuel w, (Pos.run p args fuel).res ≠ .stuck w)
    (cfg : MonCfg) (MO : MachOK cfg.mach) (hk : cfg.consts = consts) (hheap : cfg.heap = false)
    (hb8 : cfg.mach.heapBase % 8 = 0) (hb0 : 0 < cfg.mach.heapBase)
    (Pk A M : Nat) (hA : ∀ d ∈ p.defs, LetLe A d.body) (hM : ∀ d ∈ p.defs, stmtSize d.body ≤ M)
    (hbytes : 64 * (Pk + A + 2) ≤ cfg.mach.heapBytes)
    (items : List (Code × Nat)) (hitems : (items.map (·.1)).map stripC = routine.map stripC)
    (hfitX : addrAt cfg.mach.codeBase routine routine.length < 2 ^ 64)
    (fuel' : Nat) (hf : fuel' * (M + 1) + stmtSize d0.body + 1 < 2 ^ 64)
    (hP : PeakAtMost p hooks routine ops cfg items args Pk (A * (fuel' * (M + 1) + stmtSize d0.body) + 1)) :
    (runItems items args fuel' cfg).res = .outOfFuel ∨
      ∃ v out, Pos.run p args (fuel' * (M + 1) + stmtSize d0.body) = ⟨out, .done v⟩ ∧
        (runItems items args fuel' cfg).res = .done v := by
  have hrs := run_eq_runState hd hlen (fuel' * (M + 1) + stmtSize d0.body)
  cases hres : Pos.run p args (fuel' * (M + 1) + stmtSize d0.body) with
  | mk out res =>
  cases res with
  | stuck w => exact absurd (by rw [hres]) (hnostuck (fuel' * (M + 1) + stmtSize d0.body) w)
  | done v =>
    obtain ⟨f0, _, h2, _⟩ := data_programs_peak_items p args hooks body routine nargs d0 ops c' hsafe htp hprog
      hcompM hfit hcompX hrout hnd hd hentry hcap _ out v hf hres cfg MO hk hheap hb8 hb0 Pk A hA hbytes items
      hitems hfitX hP
    rcases CC.runItems_res_of_done (items := items) (args := args) (cfg := cfg) (f0 := f0) (v := v) h2 fuel'
      with h | h
    · exact Or.inl h
    · exact Or.inr ⟨v, out, rfl, h⟩
  | outOfFuel =>
    left
    rw [hrs] at hres
    obtain ⟨hmain, n, X, hn, hX⟩ := data_programs_progress p args hooks body routine nargs d0 ops c' hsafe htp hprog
      hcompM hfit hcompX hrout hnd hd hentry hlen hcap _ hf cfg MO hk hb8 hb0 Pk A M hA hM hbytes items hitems
      hfitX hP out hres fuel' (Nat.le_refl _)
    have hargs : ¬ args.length > 5 := by
      obtain ⟨_, hnargs⟩ := compile_mock_entry hcompM hd
      rw [hnargs, hlen] at hrout
      obtain ⟨moves, hmv, _⟩ := intoRoutine_shape hrout
      have := moveArguments_le _ _ hmv
      omega
    unfold runItems
    simp only [hmain]
    rw [if_neg hargs]
    exact runLoop_outOfFuel hheap _ fuel' n _ X 0 hX hn

theorem stepN_monOff (m : MonCfg) (p : Prog) : ∀ (n : Nat) (s : State), stepN (monOff m) p n s = stepN m p n s
  | 0, _ => rfl
  | n + 1, s => by
    simp only [stepN, step_monOff]
    cases step m p s with
    | inl s1 => exact stepN_monOff m p n s1
    | inr r => rfl

/-- the peak hypothesis does not look at the heap-monitor flag -/
theorem peakAtMost_monOff {p : AxCut.Prog} {hooks : Bool} {routine : List Code} {ops : List MockOp} {cfg : MonCfg}
    {items : List (Code × Nat)} {args : List Word} {Pk C : Nat}
    (h : PeakAtMost p hooks routine ops cfg items args Pk C) :
    PeakAtMost p hooks routine ops (monOff cfg) items args Pk C := by
  intro n X st hn hB below inUse hsh hb
  have hn' : stepN cfg (mkProg cfg.mach items) n (initState cfg.mach args 6) = .inl X := by
    rw [← stepN_monOff]; exact hn
  exact h n X st hn' hB below inUse hsh hb

end Scc.X86.Conc
