/-
  Scc.X86.ConcKC10 — C10 (heap footprint) on concrete x86-64 runs of ALL programs (data types and closures):
  the port of Scc/X86/ConcC10.lean to the closure-aware relation.  Composition of the peak-based run
  (`run3_peak`, `run3_prefix`, ConcKPeakRun.lean) with the entry (`entry_setup`, ConcKRun.lean) and the generic
  machine facts of ConcMach.lean / ConcC10.lean (`HeapShapeAt`, `runItems_larger_heap`, `withHeapBytes`: they
  do not mention the relation).
  * `PeakAtMost … Pk C` — at no statement boundary (`BoundaryOf`: up to labels and comments) of the machine's
    run are more than `Pk` blocks in use;
  * `programs_peak`, `programs_prefix`, `programs_peak_items`.
-/
import Scc.X86.ConcKPeakRun
import Scc.X86.ConcC10

set_option linter.unusedVariables false
set_option linter.unusedSimpArgs false

namespace Scc.X86.ConcK

open Scc Scc.AxCut Scc.AxCut.Pos Scc.Backend Scc.Backend.Abs Scc.Backend.Sim Scc.Backend.Subst Scc.X86 Scc.X86.Ref
open Scc.Backend.Sim2 Scc.Backend.Keys
open Scc.Props.C14Generic (LabelSafe)
open Scc.Props.C06Generic (outAfter WithinCapacity Reachable EnoughHeap CodeFits statesOf stopsWithin)
open Scc.Heap (HState InvS InvW Exhausted)
open Scc.Heap.Refine (HRef FrLe Room FrPk)
open Scc.X86.Conc (BChain FrBound LiveLe LiveLe0 HeapShapeAt heapShapeAt_of_rel runLoop_done_mhw stepN_mhw mhwOK_init)

theorem heapRel_tol {c : MachCfg} {cs : List Code} {X0 X : State} {hs : HState} (T : Tol cs X0 X)
    (R : HeapRel c X0 hs) : HeapRel c X hs := by
  rw [T.eq]; exact K.heapRel_setPS R _ _

/-- THE PEAK HYPOTHESIS, all programs: at no statement boundary of the machine's run (from `asm_main`) are more
than `Pk` blocks in use.  Only boundaries with at most `C` blocks below the frontier matter -/
def PeakAtMost (p : AxCut.Prog) (hooks : Bool) (routine : List Code) (ops : List MockOp) (cfg : MonCfg)
    (items : List (Code × Nat)) (args : List Word) (Pk C : Nat) : Prop :=
  ∀ n X st, stepN cfg (mkProg cfg.mach items) n (initState cfg.mach args 6) = .inl X →
    BoundaryOf p hooks routine ops cfg st X → ∀ below inUse, HeapShapeAt cfg X below inUse → below ≤ C →
    inUse ≤ Pk

/-- the peak hypothesis holds trivially for `Pk = C` -/
theorem peakAtMost_trivial (p : AxCut.Prog) (hooks : Bool) (routine : List Code) (ops : List MockOp)
    (cfg : MonCfg) (items : List (Code × Nat)) (args : List Word) (C : Nat) :
    PeakAtMost p hooks routine ops cfg items args C C :=
  fun _ _ _ _ _ _ _ h hb => Nat.le_trans h.inUse_le hb

/-- the peak hypothesis on block-level states, from the one on machine states -/
theorem peakFrom_of_peakAtMost {p : AxCut.Prog} {hooks : Bool} {routine : List Code} {ops : List MockOp}
    {cfg : MonCfg} {items : List (Code × Nat)} {args : List Word} {Pk C : Nat} (hk : cfg.consts = consts)
    (hP : PeakAtMost p hooks routine ops cfg items args Pk C) {F : Frame} (hFc : F.c = cfg.mach) {n0 : Nat}
    {X0 : State} (h0 : stepN cfg (mkProg cfg.mach items) n0 (initState cfg.mach args 6) = .inl X0)
    (st : Pos.State) :
    PeakFrom F cfg (mkProg cfg.mach items) routine (Program.ofOps ops) hooks p st X0 Pk C := by
  intro n XR X' st' cfg' hs' _ hn T R hC rs lin live Fr I
  have hB : BoundaryOf p hooks routine ops cfg st' XR := ⟨F, cfg', hs', X', hFc, T, R⟩
  obtain ⟨Γ', ι, κ, _, _, X3h, _⟩ := R
  exact hP (n0 + n) XR st' (stepN_trans cfg _ h0 hn) hB _ _
    (heapShapeAt_of_rel hFc.symm hk (heapRel_tol T X3h.hrel) I) (hC _ _ _ _ _ I)

/-- the frontier of the initial heap: one block -/
theorem frBound_init {base bytes B : Nat} (hb : 0 < base) (hl : 128 ≤ bytes) (hB : 1 ≤ B) :
    FrBound (Scc.Heap.init base (base + bytes)) B := by
  have hinit := Scc.Heap.init_inv (base := base) (limit := base + bytes) hb (by omega)
  intro rs lin lazy live Fr J
  have := (Scc.Heap.InvS.witness_unique hinit J).2.2
  have hbb : (Scc.Heap.init base (base + bytes)).base = base := rfl
  rw [hbb, this]
  omega

/-- the chain of block-level facts as a chain of facts about the raw machine states, using the peak
hypothesis at every state of the chain (they are all on the run) -/
theorem bchain_shape {p : AxCut.Prog} {hooks : Bool} {routine : List Code} {ops : List MockOp} {cfg : MonCfg}
    {items : List (Code × Nat)} {args : List Word} {Pk C : Nat} {F : Frame} (hFc : F.c = cfg.mach)
    (hk : cfg.consts = consts) (hP : PeakAtMost p hooks routine ops cfg items args Pk C) :
    ∀ (sts : List Pos.State) (X : State) (k : Nat),
      stepN cfg (mkProg cfg.mach items) k (initState cfg.mach args 6) = .inl X →
      BChain cfg (mkProg cfg.mach items) (ChainRel F routine (Program.ofOps ops) hooks p Pk C) sts X →
      BChain cfg (mkProg cfg.mach items) (fun st X => BoundaryOf p hooks routine ops cfg st X ∧
        ∃ below inUse, HeapShapeAt cfg X below inUse ∧ below ≤ Pk + 1 ∧ inUse ≤ Pk) sts X := by
  intro sts
  induction sts with
  | nil => intro X k _ _; trivial
  | cons st rest ih =>
    intro X k hk' hc
    obtain ⟨⟨X1, cfgA, hs, T, R, hfb, hcC⟩, hrest⟩ := hc
    have hB : BoundaryOf p hooks routine ops cfg st X := ⟨F, cfgA, hs, X1, hFc, T, R⟩
    have hX3 : ∃ Γ' ι κ, K.X3 F Γ' cfgA hs ι κ X1 := by
      obtain ⟨Γ', ι, κ, _, _, X3h, _⟩ := R
      exact ⟨Γ', ι, κ, X3h⟩
    obtain ⟨Γ', ι, κ, X3h⟩ := hX3
    obtain ⟨lin, lazy, live, Fr, I⟩ := X3h.href.conc
    have hsh := heapShapeAt_of_rel (m := cfg) hFc.symm hk (heapRel_tol T X3h.hrel) I
    refine ⟨⟨hB, _, _, hsh, hfb _ _ _ _ _ I, hP k X st hk' hB _ _ hsh (hcC _ _ _ _ _ I)⟩, ?_⟩
    rcases hrest with e | ⟨n', X', hn', hc'⟩
    · exact Or.inl e
    · exact Or.inr ⟨n', X', hn', ih X' (k + n') (stepN_trans cfg _ hk' hn') hc'⟩

/-- C10 ON THE MACHINE, all programs: the run under the footprint bound -/
theorem programs_peak (p : AxCut.Prog) (args : List Word) (hooks : Bool) (body routine : List Code)
    (nargs : Nat) (d0 : Def) (ops : List MockOp) (c' : Nat)
    (hsafe : LabelSafe p = true) (htp : LinTypedProg p) (hprog : K.ProgOK p)
    (hcompM : (compile mockSym hooks p).run 0 = .ok ((ops, nargs), c')) (hfit : CodeFits ops)
    (hcompX : compileX86 p hooks 0 = .ok (body, nargs)) (hrout : intoRoutine body nargs = .ok routine)
    (hnd : (labs routine).Nodup)
    (hd : p.defs.head? = some d0) (hentry : ∀ b ∈ d0.ctx, b.chi = .ext ∧ b.ty = .i64)
    (hcap : ∀ st, Reachable p ⟨d0.ctx, args.map .int, d0.body⟩ st → 2 * st.ctx.length ≤ 266)
    (fuel : Nat) (out : List (Bool × Word)) (v : Word) (hfuel : fuel + 1 < 2 ^ 64)
    (hrun : Pos.run p args fuel = ⟨out, .done v⟩)
    (cfg : MonCfg) (MO : MachOK cfg.mach) (hk : cfg.consts = consts)
    (hb8 : cfg.mach.heapBase % 8 = 0) (hb0 : 0 < cfg.mach.heapBase)
    (Pk A : Nat) (hA : ∀ d ∈ p.defs, K.AllocLe A d.body) (hbytes : 64 * (Pk + A + 2) ≤ cfg.mach.heapBytes)
    (items : List (Code × Nat)) (hitems : (items.map (·.1)).map stripC = routine.map stripC)
    (hfitX : addrAt cfg.mach.codeBase routine routine.length < 2 ^ 64)
    (hP : PeakAtMost p hooks routine ops cfg items args Pk (A * fuel + 1)) :
    (mkProg cfg.mach items).labelIdx["asm_main"]? = some 6 ∧
    ∃ n0 X0 n XL, stepN cfg (mkProg cfg.mach items) n0 (initState cfg.mach args 6) = .inl X0 ∧
      BChain cfg (mkProg cfg.mach items)
        (fun st X => BoundaryOf p hooks routine ops cfg st X ∧
          ∃ below inUse, HeapShapeAt cfg X below inUse ∧ below ≤ Pk + 1 ∧ inUse ≤ Pk)
        (statesOf p fuel ⟨d0.ctx, args.map .int, d0.body⟩) X0 ∧
      stepN cfg (mkProg cfg.mach items) n X0 = .inl XL ∧ step cfg (mkProg cfg.mach items) XL = .inr (.done v) ∧
      XL.out.reverse = out ∧ XL.maxHeapWritten ≤ cfg.mach.heapBytes := by
  have hmem : d0 ∈ p.defs := by
    cases hdefs : p.defs with
    | nil => rw [hdefs] at hd; simp at hd
    | cons d ds => rw [hdefs] at hd; simp at hd; subst hd; simp
  have hlen : d0.ctx.length = args.length ∧
      Pos.runState p fuel ⟨d0.ctx, args.map .int, d0.body⟩ [] = ⟨out, .done v⟩ := by
    unfold Pos.run at hrun
    cases hdefs : p.defs with
    | nil => rw [hdefs] at hd; simp at hd
    | cons d ds =>
      rw [hdefs] at hd hrun
      simp only [List.head?_cons, Option.some.injEq] at hd
      subst hd
      simp only at hrun
      by_cases hl : d.ctx.length ≠ args.length
      · simp [hl] at hrun
      · simp only [hl, if_false] at hrun
        exact ⟨by omega, hrun⟩
  obtain ⟨hlen, hrun'⟩ := hlen
  have hc0 := hcap _ Reachable.refl
  simp only at hc0
  obtain ⟨F, pre, st0, h, n0, X0, a, En⟩ := entry_setup p args hooks body routine nargs d0 ops c' hsafe htp
    hcompM hcompX hrout hnd hd hentry hlen hc0 cfg MO hb0 (by omega) items hitems
  have hFc := En.fc
  have hPF := peakFrom_of_peakAtMost hk hP hFc En.steps ⟨d0.ctx, args.map .int, d0.body⟩
  have hfb0 : FrBound (Scc.Heap.init F.c.heapBase (F.c.heapBase + F.c.heapBytes)) (Pk + 1) :=
    frBound_init (by rw [hFc]; exact hb0) (by rw [hFc]; omega) (by omega)
  have hcb0 : FrBound (Scc.Heap.init F.c.heapBase (F.c.heapBase + F.c.heapBytes)) 1 :=
    frBound_init (by rw [hFc]; exact hb0) (by rw [hFc]; omega) (Nat.le_refl _)
  obtain ⟨⟨n, XL, g1, g2, g3⟩, hch⟩ := run3_peak En.frame (by rw [hFc]; exact hb8) hFc.symm En.loaded hnd
    (by rw [hFc]; exact hfitX) En.split En.clean En.entry hooks p 0 ops nargs c' hcompM hsafe htp hfit En.defs
    hprog Pk (A * fuel + 1) A hA (by rw [hFc]; exact hbytes) fuel _ [] (initConfig a args) _ X0 X0 out v 1 En.typed
    hcap (Tol.refl _ _) En.rel (hprog.2 d0 hmem) (hA d0 hmem) (K.valAll_ints _ args) rfl
    (by rw [En.next1]; omega) hfb0 hcb0 (by omega) hPF hrun'
  refine ⟨En.main, n0, X0, n, XL, En.steps, bchain_shape hFc hk hP _ X0 n0 En.steps hch, g1, g2, g3, ?_⟩
  exact stepN_mhw (n0 + n) (stepN_trans cfg _ En.steps g1) (mhwOK_init cfg.mach args 6)

/-- C09/C10 ON THE MACHINE FOR EVERY PREFIX OF EVERY RUN (terminating or not), all programs: for ANY number
`fuel` of steps of the positional machine, the machine started at `asm_main` passes — without fault — through a
boundary state for every state the positional machine goes through in `fuel` steps -/
theorem programs_prefix (p : AxCut.Prog) (args : List Word) (hooks : Bool) (body routine : List Code)
    (nargs : Nat) (d0 : Def) (ops : List MockOp) (c' : Nat)
    (hsafe : LabelSafe p = true) (htp : LinTypedProg p) (hprog : K.ProgOK p)
    (hcompM : (compile mockSym hooks p).run 0 = .ok ((ops, nargs), c')) (hfit : CodeFits ops)
    (hcompX : compileX86 p hooks 0 = .ok (body, nargs)) (hrout : intoRoutine body nargs = .ok routine)
    (hnd : (labs routine).Nodup)
    (hd : p.defs.head? = some d0) (hentry : ∀ b ∈ d0.ctx, b.chi = .ext ∧ b.ty = .i64)
    (hlen : d0.ctx.length = args.length)
    (hcap : ∀ st, Reachable p ⟨d0.ctx, args.map .int, d0.body⟩ st → 2 * st.ctx.length ≤ 266)
    (fuel : Nat) (hfuel : fuel + 1 < 2 ^ 64)
    (cfg : MonCfg) (MO : MachOK cfg.mach) (hk : cfg.consts = consts)
    (hb8 : cfg.mach.heapBase % 8 = 0) (hb0 : 0 < cfg.mach.heapBase)
    (Pk A : Nat) (hA : ∀ d ∈ p.defs, K.AllocLe A d.body) (hbytes : 64 * (Pk + A + 2) ≤ cfg.mach.heapBytes)
    (items : List (Code × Nat)) (hitems : (items.map (·.1)).map stripC = routine.map stripC)
    (hfitX : addrAt cfg.mach.codeBase routine routine.length < 2 ^ 64)
    (hP : PeakAtMost p hooks routine ops cfg items args Pk (A * fuel + 1)) :
    (mkProg cfg.mach items).labelIdx["asm_main"]? = some 6 ∧
    ∃ n0 X0, stepN cfg (mkProg cfg.mach items) n0 (initState cfg.mach args 6) = .inl X0 ∧
      BChain cfg (mkProg cfg.mach items)
        (fun st X => BoundaryOf p hooks routine ops cfg st X ∧
          ∃ below inUse, HeapShapeAt cfg X below inUse ∧ below ≤ Pk + 1 ∧ inUse ≤ Pk)
        (statesOf p fuel ⟨d0.ctx, args.map .int, d0.body⟩) X0 := by
  have hmem : d0 ∈ p.defs := by
    cases hdefs : p.defs with
    | nil => rw [hdefs] at hd; simp at hd
    | cons d ds => rw [hdefs] at hd; simp at hd; subst hd; simp
  have hc0 := hcap _ Reachable.refl
  simp only at hc0
  obtain ⟨F, pre, st0, h, n0, X0, a, En⟩ := entry_setup p args hooks body routine nargs d0 ops c' hsafe htp
    hcompM hcompX hrout hnd hd hentry hlen hc0 cfg MO hb0 (by omega) items hitems
  have hFc := En.fc
  have hPF := peakFrom_of_peakAtMost hk hP hFc En.steps ⟨d0.ctx, args.map .int, d0.body⟩
  have hfb0 : FrBound (Scc.Heap.init F.c.heapBase (F.c.heapBase + F.c.heapBytes)) (Pk + 1) :=
    frBound_init (by rw [hFc]; exact hb0) (by rw [hFc]; omega) (by omega)
  have hcb0 : FrBound (Scc.Heap.init F.c.heapBase (F.c.heapBase + F.c.heapBytes)) 1 :=
    frBound_init (by rw [hFc]; exact hb0) (by rw [hFc]; omega) (Nat.le_refl _)
  have hch := run3_prefix En.frame (by rw [hFc]; exact hb8) hFc.symm En.loaded hnd
    (by rw [hFc]; exact hfitX) En.split En.clean En.entry hooks p 0 ops nargs c' hcompM hsafe htp hfit En.defs
    hprog Pk (A * fuel + 1) A hA (by rw [hFc]; exact hbytes) fuel _ (initConfig a args) _ X0 X0 1 En.typed hcap
    (Tol.refl _ _) En.rel (hprog.2 d0 hmem) (hA d0 hmem) (K.valAll_ints _ args) (by rw [En.next1]; omega) hfb0 hcb0
    (by omega) hPF
  exact ⟨En.main, n0, X0, En.steps, bchain_shape hFc hk hP _ X0 n0 En.steps hch⟩

/-- … on the run loop: trace, result and the highest heap address written -/
theorem programs_peak_items (p : AxCut.Prog) (args : List Word) (hooks : Bool) (body routine : List Code)
    (nargs : Nat) (d0 : Def) (ops : List MockOp) (c' : Nat)
    (hsafe : LabelSafe p = true) (htp : LinTypedProg p) (hprog : K.ProgOK p)
    (hcompM : (compile mockSym hooks p).run 0 = .ok ((ops, nargs), c')) (hfit : CodeFits ops)
    (hcompX : compileX86 p hooks 0 = .ok (body, nargs)) (hrout : intoRoutine body nargs = .ok routine)
    (hnd : (labs routine).Nodup)
    (hd : p.defs.head? = some d0) (hentry : ∀ b ∈ d0.ctx, b.chi = .ext ∧ b.ty = .i64)
    (hcap : ∀ st, Reachable p ⟨d0.ctx, args.map .int, d0.body⟩ st → 2 * st.ctx.length ≤ 266)
    (fuel : Nat) (out : List (Bool × Word)) (v : Word) (hfuel : fuel + 1 < 2 ^ 64)
    (hrun : Pos.run p args fuel = ⟨out, .done v⟩)
    (cfg : MonCfg) (MO : MachOK cfg.mach) (hk : cfg.consts = consts) (hheap : cfg.heap = false)
    (hb8 : cfg.mach.heapBase % 8 = 0) (hb0 : 0 < cfg.mach.heapBase)
    (Pk A : Nat) (hA : ∀ d ∈ p.defs, K.AllocLe A d.body) (hbytes : 64 * (Pk + A + 2) ≤ cfg.mach.heapBytes)
    (items : List (Code × Nat)) (hitems : (items.map (·.1)).map stripC = routine.map stripC)
    (hfitX : addrAt cfg.mach.codeBase routine routine.length < 2 ^ 64)
    (hP : PeakAtMost p hooks routine ops cfg items args Pk (A * fuel + 1)) :
    ∃ fuel', (runItems items args fuel' cfg).out = out ∧ (runItems items args fuel' cfg).res = .done v ∧
      (runItems items args fuel' cfg).maxHeapWritten ≤ cfg.mach.heapBytes := by
  obtain ⟨hmain, n0, X0, n, XL, h0, _, g1, g2, g3, hm⟩ := programs_peak p args hooks body routine nargs d0 ops
    c' hsafe htp hprog hcompM hfit hcompX hrout hnd hd hentry hcap fuel out v hfuel hrun cfg MO hk hb8 hb0 Pk A hA
    hbytes items hitems hfitX hP
  have hargs : ¬ args.length > 5 := by
    have hlen : d0.ctx.length = args.length := by
      unfold Pos.run at hrun
      cases hdefs : p.defs with
      | nil => rw [hdefs] at hd; simp at hd
      | cons d ds =>
        rw [hdefs] at hd hrun
        simp only [List.head?_cons, Option.some.injEq] at hd
        subst hd
        simp only at hrun
        by_cases hl : d.ctx.length ≠ args.length
        · simp [hl] at hrun
        · omega
    obtain ⟨_, hnargs⟩ := compile_mock_entry hcompM hd
    rw [hnargs, hlen] at hrout
    obtain ⟨moves, hmv, _⟩ := intoRoutine_shape hrout
    have := moveArguments_le _ _ hmv
    omega
  refine ⟨n0 + (n + 1), ?_⟩
  have hrl : runItems items args (n0 + (n + 1)) cfg =
      runLoop cfg (mkProg cfg.mach items) (n0 + (n + 1)) (initState cfg.mach args 6) 0 := by
    unfold runItems
    simp only [hmain]
    rw [if_neg hargs]
  rw [hrl, runLoop_stepN hheap _ n0 (n + 1) _ _ 0 h0, runLoop_stepN hheap _ n 1 _ _ 0 g1]
  obtain ⟨h1, h2⟩ := runLoop_done hheap (mkProg cfg.mach items) 0 XL 0 g2
  refine ⟨by rw [h1]; exact g3, h2, ?_⟩
  rw [runLoop_done_mhw hheap (mkProg cfg.mach items) 0 XL 0 g2]
  exact hm

end Scc.X86.ConcK
