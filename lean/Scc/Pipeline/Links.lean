/-
  Per-program evaluation of the DECIDABLE hypotheses of `C01_composition` / `C01_middle` / `C12_of_linkChecks`
  and of the decidable content of the links of `C12_chain`: used by the checks C01 and C12 on every accepted
  program of a run (request `links <file.sc>` of sccmodel).
  One line: `OK [validMain|noValidMain] [sequenced] [labelUnsafe] [frag] [int] [data] [e2e] [overCapacity]` | `REJECTED ..` | `FAIL <names of failing checks>`.

  * the hypotheses proper (the theorems take them as `… = true`):
      `noMainCall`   `Scc.Fun.noMainCall p'`              (only reported for programs with a valid `main`)
      `linkChecks`   `C01_linkChecks p'` (= `C12_linkChecks p'`): `stages` succeeds and
                     `input2`, `wtFsScoped3`, `wtAx4`, `wfNonLinear4` hold (also reported one by one)
      `C01_labelSafe p'` is reported as the TAG `labelUnsafe` on an `OK` line, not as a failure: it is a
                     hypothesis of `C01_statement` / `C01_link_x86` only (label-unsafe names are the known
                     finding of C14, outside C01's and C12's typing links); `C12_*` does not use it.
      `C01_fragChecks p'` is reported as the TAG `frag`: the program is in the fragment of
                     `C01_composition_frag` (fun2core's semantics is a theorem there; outside it the
                     hypothesis `C01_link_fun2core_sem` is used).
      `C01_intChecks p'` is reported as the TAG `int`: the back end of the program is in the integer fragment
                     (`IntProg`, `ProgInRange`, capacity, the routine text loads) in which the x86-64 link is
                     a theorem (`C01_x86_int`); `frag int` together: `C01_int_fragment`, no hypothesis left.
      `C01_dataChecks p'` (Props/C01DataChecks.lean) is reported as the TAG `data`: THE hypothesis of
                     `C01_data_fragment` (Props/C01Final.lean) — fun2core's fragment (`C01_fragChecks`, so `data`
                     implies `frag`), no closures in the linearized program (`DataProg`: no `create` / `invoke`),
                     and the decidable side conditions `C01_backChecks` of the x86-64 link with the heap
                     (label-safe and text-safe names, `progCap ≤ 133`, ranges, distinct labels and size of the
                     routine, size of the mock code).  For such programs C01 holds END TO END with no
                     hypothesis left (Theorem A ∘ Theorem B with the heap: `X86.C06_data_programs`).  A program in
                     which `main` calls another definition is never `data` (the continuation `_Cont` is a
                     closure: `create` / `invoke`).  On /repo/examples + /verif/gen/corpus (232 accepted programs
                     with a valid `main`): `frag` 106, `int` 18, `data` 19 (every `int` program and
                     fun2core/s26_exit_leaf_lit.sc).
      `validMain p' && noMainCall p' && C01_backChecks p'` (= `C01_endChecks`, Props/C01End.lean) is reported as
                     the TAG `e2e`: THE decidable hypotheses of the UNCONDITIONAL end-to-end theorem
                     `C01_end_to_end : C01_statement_final` (Props/C01End.lean) — valid `main` that is not
                     called and the side conditions `C01_backChecks` of the x86-64 link; closures, recursion,
                     codata, non-sequenced programs included.  With a valid `main`, `data` implies `e2e`.  On
                     /repo/examples (8) + /verif/gen/corpus (225 accepted programs with a valid `main`): `e2e`
                     on all but regress/c14_xtor_digit_segments.sc (`labelUnsafe`, the finding of C14).
      `C01_capacity p'` is reported as the TAG `overCapacity` when it FAILS: the static capacity condition of
                     Theorem A (`C06Generic.ProgWithinCapacity` of S5: fewer than 500000 live variables in
                     every reachable context), a hypothesis of part (3) of `C01_middle` and of the lemmas through
                     the abstract backend machine only.
  * facts that the theorems DERIVE from `linkChecks` (re-evaluated here as a cross-check of the models against
    the theorems; a failure of one of them with `linkChecks` true would contradict `C12_facts_of_checks`):
      `typesDisjoint2` (not derived; conclusion of `C12_link_fun2core`), `focusPanicFree2`, `uniqueBinders3`,
      `uniqueIds3`, `idsBounded3`, `mainIntParams3` (valid `main` only), `noEnvAnn4`, `linTyped5`
  * the decidable content of `C12_link_codegen` at hooks = true, counter 0: `x86`, `a64`, `rv`.
-/
import Scc.Props.C12
import Scc.Props.C01Checks
import Scc.Props.C01DataChecks
open Scc Scc.Pipeline Scc.Props

namespace Scc.Pipeline.Links


def linksLine (src : String) : String :=
  match Fun.Parse.parse .diagOnOverflow src with
  | .diag c => "REJECTED parse " ++ c.show
  | .panic _ => "REJECTED parse panic"
  | .ok p =>
    match Fun.Check.checkProgram p with
    | .diag c => "REJECTED check " ++ c
    | .panic s => "FAIL checker-panic " ++ s
    | .ok p' =>
      let pre := (if Fun.Check.programNamesOk p then [] else ["programNamesOk"]) ++
                 (if Fun.Typing.annotatedProgram p' then [] else ["annotated"]) ++
                 (if !validMain p' || Fun.noMainCall p' then [] else ["noMainCall"])
      match stages p' with
      | .error e => "FAIL " ++ " ".intercalate (pre ++ ["stages:" ++ e])
      | .ok st =>
        let cs : List (String × Bool) := [
          ("linkChecks", C01_linkChecks p'),
          ("input2", C12_inputB st.s2), ("typesDisjoint2", typesDisjoint st.s2),
          ("focusPanicFree2", st.s2.focusPanicFree),
          ("wtFsScoped3", Core2AxCut.wtFsScopedCheck st.s3), ("uniqueBinders3", Core.uniqueBindersCheck st.s3),
          ("uniqueIds3", Core2AxCut.uniqueIdsCheck st.s3), ("idsBounded3", Core2AxCut.idsBoundedCheck st.s3),
          ("mainIntParams3", !validMain p' || Core2AxCut.mainIntParams st.s3),
          ("wtAx4", C12_isOk (AxCut.Named.wtAxCheck st.s4)), ("wfNonLinear4", AxCut.wfNonLinearCheck st.s4),
          ("noEnvAnn4", AxCut.noEnvAnnProg st.s4), ("linTyped5", C12_isOk (AxCut.linTypedCheck st.s5)),
          -- `backEndX86` tags its errors with the stage (`S6x compile: Out of temporaries`): a capacity message is one
          -- of the documented ones possibly behind that tag
          ("x86", !validMain p' || (match backEndX86 true 0 st.s5 with
              | .ok _ => true
              | .error e => C12_capacityErrors.any (fun m => e == m || e.endsWith (": " ++ m)))),
          ("a64", !validMain p' || C12_okOrCapacityB (A64.compileProg A64.a64Backend st.s5 true 0)),
          ("rv", !validMain p' || C12_okOrCapacityB (RV.compileRoutine st.s5 true 0))]
        let bad := pre ++ (cs.filter (fun c => !c.2)).map (·.1)
        if bad.isEmpty then
          "OK" ++ (if validMain p' then " validMain" else " noValidMain") ++
            (if Fun.Sequenced p' then " sequenced" else "") ++
            (if C01_labelSafe p' then "" else " labelUnsafe") ++
            (if C01_fragChecks p' then " frag" else "") ++
            (if C01_intChecks p' then " int" else "") ++
            (if C01_dataChecks p' then " data" else "") ++
            (if validMain p' && Fun.noMainCall p' && C01_backChecks p' then " e2e" else "") ++
            (if C01_capacity p' then "" else " overCapacity")
        else "FAIL " ++ " ".intercalate bad


end Scc.Pipeline.Links
