/-
  Per-program evaluation of the DECIDABLE content of the hypotheses of `C01_composition` / `C12_chain`
  (the links that are stated for all programs but not proved for all programs): used by the checks
  C01 and C12 on every accepted program of a run (request `links <file.sc>` of sccmodel).
  One line: `OK [validMain|noValidMain] [sequenced]` | `REJECTED ..` | `FAIL <names of failing checks>`.
-/
import Scc.Props.C12
open Scc Scc.Pipeline Scc.Props

namespace Scc.Pipeline.Links


def linksLine (src : String) : String :=
  match Fun.Parse.parse .diagOnOverflow src with
  | .diag c => "REJECTED parse " ++ c.show
  | .panic _ => "REJECTED parse panic"
  | .ok p =>
    match Fun.Check.checkProgram p with
    | .diag c => "REJECTED check " ++ c
    | .panic s => "FAIL checker-panic " ++ s
    | .ok p' =>
      let pre := (if Fun.Check.programNamesOk p then [] else ["programNamesOk"]) ++
                 (if Fun.Typing.annotatedProgram p' then [] else ["annotated"])
      match stages p' with
      | .error e => "FAIL " ++ " ".intercalate (pre ++ ["stages:" ++ e])
      | .ok st =>
        let cs : List (String × Bool) := [
          ("input2", C12_inputB st.s2), ("typesDisjoint2", typesDisjoint st.s2),
          ("focusPanicFree2", st.s2.focusPanicFree),
          ("wtFsScoped3", Core2AxCut.wtFsScopedCheck st.s3), ("uniqueBinders3", Core.uniqueBindersCheck st.s3),
          ("uniqueIds3", Core2AxCut.uniqueIdsCheck st.s3),
          ("wtAx4", C12_isOk (AxCut.Named.wtAxCheck st.s4)), ("wfNonLinear4", AxCut.wfNonLinearCheck st.s4),
          ("noEnvAnn4", AxCut.noEnvAnnProg st.s4), ("linTyped5", C12_isOk (AxCut.linTypedCheck st.s5)),
          ("x86", !validMain p' || C12_okOrCapacityB (backEndX86 true 0 st.s5)),
          ("a64", !validMain p' || C12_okOrCapacityB (A64.compileProg A64.a64Backend st.s5 true 0)),
          ("rv", !validMain p' || C12_okOrCapacityB (RV.compileRoutine st.s5 true 0))]
        let bad := pre ++ (cs.filter (fun c => !c.2)).map (·.1)
        if bad.isEmpty then
          "OK" ++ (if validMain p' then " validMain" else " noValidMain") ++
            (if Fun.Sequenced p' then " sequenced" else "")
        else "FAIL " ++ " ".intercalate bad


end Scc.Pipeline.Links
