/-
  Scc.Pipeline.ShrinkNoEnv — proof file: the output of shrinking (core2axcut) never carries a
  closure-environment annotation: every `create` it builds has `env = none` (the annotation is written
  later, by the linearizer).  This is the side condition `noEnvAnnProg` of C05's semantic theorem
  `C05_T4`, proved here for EVERY input of `shrinkProg` (no typing hypothesis), so that the
  composition theorems need not assume it.
-/
import Scc.Core2AxCut.SizeProofs
import Scc.Core2AxCut.Labels
import Scc.AxCut.LinRelLin

namespace Scc.Pipeline

open Scc Scc.Core2AxCut
open Scc.AxCut (noEnvAnn noEnvAnnClauses noEnvAnnProg)

/-! ## substitution keeps the property -/

mutual
  theorem noEnvAnn_axSubst (σ) : ∀ s, noEnvAnn (axSubstStmt σ s) = noEnvAnn s
    | .subst _ n => by simp [axSubstStmt, noEnvAnn, noEnvAnn_axSubst σ n]
    | .call _ _ => by simp [axSubstStmt, noEnvAnn]
    | .letS _ _ _ _ n _ => by simp [axSubstStmt, noEnvAnn, noEnvAnn_axSubst σ n]
    | .switch _ _ cs _ => by simp [axSubstStmt, noEnvAnn, noEnvAnnClauses_axSubst σ cs]
    | .create _ _ env cs n _ _ => by
      cases env <;>
        simp [axSubstStmt, noEnvAnn, noEnvAnnClauses_axSubst σ cs, noEnvAnn_axSubst σ n]
    | .invoke _ _ _ _ => by simp [axSubstStmt, noEnvAnn]
    | .lit _ _ n _ => by simp [axSubstStmt, noEnvAnn, noEnvAnn_axSubst σ n]
    | .op _ _ _ _ n _ => by simp [axSubstStmt, noEnvAnn, noEnvAnn_axSubst σ n]
    | .print _ _ n _ => by simp [axSubstStmt, noEnvAnn, noEnvAnn_axSubst σ n]
    | .ifc _ _ _ t e => by simp [axSubstStmt, noEnvAnn, noEnvAnn_axSubst σ t, noEnvAnn_axSubst σ e]
    | .exit _ => by simp [axSubstStmt, noEnvAnn]
  theorem noEnvAnnClauses_axSubst (σ) : ∀ cs, noEnvAnnClauses (axSubstClauses σ cs) = noEnvAnnClauses cs
    | .nil => by simp [axSubstClauses, noEnvAnnClauses]
    | .cons _ _ b r => by
      simp [axSubstClauses, noEnvAnnClauses, noEnvAnn_axSubst σ b, noEnvAnnClauses_axSubst σ r]
end

/-! ## the generated clause lists -/

theorem unknownClauses_ne (env : Env) (v ty) : ∀ xs st,
    noEnvAnnClauses (unknownClauses env v ty xs st).1 = true
  | [], st => by simp [unknownClauses, noEnvAnnClauses]
  | x :: xs, st => by
    simp only [unknownClauses]
    generalize freshenCtx (shrinkContext env.codata x.args) st = r1
    obtain ⟨envC, st1⟩ := r1
    have h2 := unknownClauses_ne env v ty xs st1
    revert h2
    generalize unknownClauses env v ty xs st1 = r2
    obtain ⟨rest, st2⟩ := r2
    intro h2
    simp only [noEnvAnnClauses, noEnvAnn, Bool.true_and]
    exact h2

theorem criticalClauses_ne (env : Env) (v ty) (e : AxCut.Stmt) (he : noEnvAnn e = true) : ∀ xs st,
    noEnvAnnClauses (criticalClauses env v ty e xs st).1 = true
  | [], st => by simp [criticalClauses, noEnvAnnClauses]
  | x :: xs, st => by
    simp only [criticalClauses, freshIdentifier]
    generalize freshenCtx (shrinkContext env.codata x.args) st = r1
    obtain ⟨envC, st1⟩ := r1
    have h2 := criticalClauses_ne env v ty e he xs { st1 with maxId := st1.maxId + 1 }
    revert h2
    generalize criticalClauses env v ty e xs { st1 with maxId := st1.maxId + 1 } = r2
    obtain ⟨rest, st2⟩ := r2
    intro h2
    simp only [noEnvAnnClauses, noEnvAnn, noEnvAnn_axSubst, he, Bool.true_and]
    exact h2

/-! ## the invariant -/

/-- no lifted definition carries an annotation -/
def NE (l : List AxCut.Def) : Prop := ∀ d ∈ l, noEnvAnn d.body = true

/-- what the recursive call guarantees -/
def RecNE (rec : Rec) : Prop :=
  ∀ s st r st', rec s st = .ok (r, st') → NE st.lifted → noEnvAnn r = true ∧ NE st'.lifted

section inv
variable {env : Env} {rec : Rec} (hrec : RecNE rec)
include hrec

theorem shrinkClauses_ne : ∀ cs st r st', shrinkClauses env rec cs st = .ok (r, st') → NE st.lifted →
    noEnvAnnClauses r = true ∧ NE st'.lifted
  | .nil, st, r, st', h, hl => by
    simp [shrinkClauses] at h
    obtain ⟨rfl, rfl⟩ := h
    exact ⟨rfl, hl⟩
  | .cons x ctx body rest, st, r, st', h, hl => by
    simp only [shrinkClauses] at h
    split at h
    · cases h
    · rename_i b' st1 hb
      split at h
      · cases h
      · rename_i r' st2 hr
        simp at h
        obtain ⟨rfl, rfl⟩ := h
        obtain ⟨h1, hl1⟩ := hrec body st b' st1 hb hl
        obtain ⟨h2, hl2⟩ := shrinkClauses_ne rest st1 r' st2 hr hl1
        exact ⟨by simp [noEnvAnnClauses, h1, h2], hl2⟩

omit hrec in
theorem shrinkUnknownCuts_ne (v1 v2 ty st r st') (h : shrinkUnknownCuts env v1 v2 ty st = .ok (r, st'))
    (hl : NE st.lifted) : noEnvAnn r = true ∧ NE st'.lifted := by
  cases ty with
  | i64 =>
    simp [shrinkUnknownCuts] at h
    obtain ⟨rfl, rfl⟩ := h
    exact ⟨rfl, hl⟩
  | decl name =>
    simp only [shrinkUnknownCuts] at h
    split at h
    · cases h
    · rename_i d hd
      simp at h
      obtain ⟨rfl, rfl⟩ := h
      refine ⟨?_, ?_⟩
      · simp only [noEnvAnn]
        exact unknownClauses_ne env _ _ d.xtors st
      · rw [(unknownClauses_spec env _ _ d.xtors st).1]
        exact hl

theorem shrinkKnownCuts_ne (name args cs st r st') (h : shrinkKnownCuts rec name args cs st = .ok (r, st'))
    (hl : NE st.lifted) : noEnvAnn r = true ∧ NE st'.lifted := by
  simp only [shrinkKnownCuts] at h
  split at h
  · cases h
  · exact hrec _ _ _ _ h hl

theorem lift_ne (s st r st') (h : lift env rec s st = .ok (r, st')) (hl : NE st.lifted) :
    noEnvAnn r = true ∧ NE st'.lifted := by
  obtain ⟨label, st2, st3, body, _, _, _, _, _, hl2, _, hb, rfl, rfl⟩ := lift_label h
  obtain ⟨h1, hl3⟩ := hrec _ _ body st3 hb (by rw [hl2]; exact hl)
  refine ⟨rfl, ?_⟩
  intro d hd
  simp only [List.mem_cons] at hd
  rcases hd with rfl | hd
  · exact h1
  · exact hl3 d hd

theorem criticalDecl_ne (d name tt vK sK vE sE st r st')
    (h : criticalDecl env rec d name tt vK sK vE sE st = .ok (r, st')) (hl : NE st.lifted) :
    noEnvAnn r = true ∧ NE st'.lifted := by
  simp only [criticalDecl] at h
  split at h
  · cases h
  · rename_i e st1 he
    split at h
    · cases h
    · rename_i k st3 hk
      simp at h
      obtain ⟨rfl, rfl⟩ := h
      have h1 : noEnvAnn e = true ∧ NE st1.lifted := by
        split at he
        · exact hrec _ _ _ _ he hl
        · exact lift_ne hrec _ _ _ _ he hl
      have hcl := criticalClauses_ne env vE tt e h1.1 d.xtors st1
      have hcl2 := (criticalClauses_spec env vE tt e d.xtors st1).1
      obtain ⟨h2, hl2⟩ := hrec sK _ k st3 hk (by rw [hcl2]; exact h1.2)
      exact ⟨by simp [noEnvAnn, hcl, h2], hl2⟩

theorem shrinkCriticalPairs_ne (v1 s1 v2 s2 ty st r st')
    (h : shrinkCriticalPairs env rec v1 s1 v2 s2 ty st = .ok (r, st')) (hl : NE st.lifted) :
    noEnvAnn r = true ∧ NE st'.lifted := by
  cases ty with
  | i64 =>
    simp only [shrinkCriticalPairs] at h
    split at h
    · cases h
    · rename_i b st1 hb
      split at h
      · cases h
      · rename_i c st2 hc
        simp at h
        obtain ⟨rfl, rfl⟩ := h
        obtain ⟨h1, hl1⟩ := hrec s2 st b st1 hb hl
        obtain ⟨h2, hl2⟩ := hrec s1 st1 c st2 hc hl1
        exact ⟨by simp [noEnvAnn, noEnvAnnClauses, h1, h2], hl2⟩
  | decl name =>
    simp only [shrinkCriticalPairs] at h
    split at h
    · cases h
    · split at h
      · exact criticalDecl_ne hrec _ _ _ _ _ _ _ _ _ _ h hl
      · exact criticalDecl_ne hrec _ _ _ _ _ _ _ _ _ _ h hl

/-- one call of `rec`, then a wrapper that adds no annotation -/
theorem wrap_ne {s : Core.FsStmt} {st : St} {f : AxCut.Stmt → AxCut.Stmt} {r st'}
    (hf : ∀ x, noEnvAnn (f x) = noEnvAnn x)
    (h : (match rec s st with
      | .error e => .error e
      | .ok (next, st1) => .ok (f next, st1)) = (.ok (r, st') : Except String (AxCut.Stmt × St)))
    (hl : NE st.lifted) : noEnvAnn r = true ∧ NE st'.lifted := by
  split at h
  · cases h
  · rename_i next st1 hn
    simp at h
    obtain ⟨rfl, rfl⟩ := h
    obtain ⟨h1, hl1⟩ := hrec _ _ _ _ hn hl
    exact ⟨by rw [hf]; exact h1, hl1⟩

/-- `shrinkClauses`, then a wrapper -/
theorem wrapC_ne {cs : Core.FsClauses} {st : St} {f : AxCut.Clauses → AxCut.Stmt} {r st'}
    (hf : ∀ x, noEnvAnn (f x) = noEnvAnnClauses x)
    (h : (match shrinkClauses env rec cs st with
      | .error e => .error e
      | .ok (cl, st1) => .ok (f cl, st1)) = (.ok (r, st') : Except String (AxCut.Stmt × St)))
    (hl : NE st.lifted) : noEnvAnn r = true ∧ NE st'.lifted := by
  split at h
  · cases h
  · rename_i cl st1 hcl
    simp at h
    obtain ⟨rfl, rfl⟩ := h
    obtain ⟨h1, hl1⟩ := shrinkClauses_ne hrec _ _ _ _ hcl hl
    exact ⟨by rw [hf]; exact h1, hl1⟩

/-- `shrinkClauses`, then one call of `rec`, then a wrapper -/
theorem wrap2_ne {cs : Core.FsClauses} {s : Core.FsStmt} {st : St}
    {f : AxCut.Clauses → AxCut.Stmt → AxCut.Stmt} {r st'}
    (hf : ∀ x y, noEnvAnn (f x y) = (noEnvAnnClauses x && noEnvAnn y))
    (h : (match shrinkClauses env rec cs st with
      | .error e => .error e
      | .ok (cl, st1) =>
        match rec s st1 with
        | .error e => .error e
        | .ok (next, st2) => .ok (f cl next, st2)) = (.ok (r, st') : Except String (AxCut.Stmt × St)))
    (hl : NE st.lifted) : noEnvAnn r = true ∧ NE st'.lifted := by
  split at h
  · cases h
  · rename_i cl st1 hcl
    split at h
    · cases h
    · rename_i nx st2 hnx
      simp at h
      obtain ⟨rfl, rfl⟩ := h
      obtain ⟨h1, hl1⟩ := shrinkClauses_ne hrec _ _ _ _ hcl hl
      obtain ⟨h2, hl2⟩ := hrec _ _ _ _ hnx hl1
      exact ⟨by rw [hf, h1, h2]; rfl, hl2⟩

theorem shrinkCut_ne (ty p c st r st') (h : shrinkCut env rec ty p c st = .ok (r, st'))
    (hl : NE st.lifted) : noEnvAnn r = true ∧ NE st'.lifted := by
  unfold shrinkCut at h
  split at h
  all_goals first
    | exact hrec _ _ _ _ h hl
    | exact shrinkKnownCuts_ne hrec _ _ _ _ _ _ h hl
    | exact shrinkUnknownCuts_ne _ _ _ _ _ _ h hl
    | exact shrinkCriticalPairs_ne hrec _ _ _ _ _ _ _ _ h hl
    | exact wrap_ne hrec (by intro x; simp [noEnvAnn]) h hl
    | exact wrap2_ne hrec (by intro x y; simp [noEnvAnn]) h hl
    | exact wrapC_ne hrec (by intro x; simp [noEnvAnn]) h hl
    | (simp only [freshIdentifier, Except.ok.injEq, Prod.mk.injEq] at h
       obtain ⟨rfl, rfl⟩ := h
       exact ⟨by simp [noEnvAnn, invokeRet], hl⟩)
    | cases h

theorem shrinkStmtStep_ne (s st r st') (h : shrinkStmtStep env rec s st = .ok (r, st'))
    (hl : NE st.lifted) : noEnvAnn r = true ∧ NE st'.lifted := by
  cases s with
  | cut ty p c => exact shrinkCut_ne hrec ty p c st r st' h hl
  | ifc sort a b t e =>
    simp only [shrinkStmtStep] at h
    split at h
    · cases h
    · rename_i t' st1 ht
      split at h
      · cases h
      · rename_i e' st2 he
        simp at h
        obtain ⟨rfl, rfl⟩ := h
        obtain ⟨h1, hl1⟩ := hrec t st t' st1 ht hl
        obtain ⟨h2, hl2⟩ := hrec e st1 e' st2 he hl1
        exact ⟨by simp [noEnvAnn, h1, h2], hl2⟩
  | print nl a nx =>
    simp only [shrinkStmtStep] at h
    exact wrap_ne hrec (by intro x; simp [noEnvAnn]) h hl
  | call f args =>
    simp [shrinkStmtStep] at h
    obtain ⟨rfl, rfl⟩ := h
    exact ⟨rfl, hl⟩
  | exit a =>
    simp [shrinkStmtStep] at h
    obtain ⟨rfl, rfl⟩ := h
    exact ⟨rfl, hl⟩

end inv

theorem shrinkStmt_ne (env : Env) : ∀ fuel, RecNE (shrinkStmt env fuel)
  | 0 => by
    intro s st r st' h
    simp [shrinkStmt] at h
  | fuel + 1 => by
    intro s st r st' h hl
    exact shrinkStmtStep_ne (shrinkStmt_ne env fuel) s st r st' h hl

theorem shrinkDef_ne {d : Core.FsDef} {data codata : List Core.TypeDecl} {used : List Core.Ident}
    {m : Nat} {r : List AxCut.Def × List Core.Ident × Nat}
    (h : shrinkDef d data codata used m = .ok r) : NE r.1 := by
  unfold shrinkDef at h
  simp only at h
  split at h
  · cases h
  · rename_i body st hb
    simp only [Except.ok.injEq] at h
    subst h
    obtain ⟨h1, hl1⟩ := shrinkStmt_ne _ _ _ _ _ _ hb (by intro d hd; simp at hd)
    intro x hx
    simp only [List.mem_cons] at hx
    rcases hx with rfl | hx
    · exact h1
    · exact hl1 x hx

theorem shrinkDefs_ne {data codata : List Core.TypeDecl} : ∀ {defs : List Core.FsDef}
    {used : List Core.Ident} {m : Nat} {r : List AxCut.Def × List Core.Ident × Nat},
    shrinkDefs data codata defs used m = .ok r → NE r.1
  | [], used, m, r, h => by
    simp [shrinkDefs] at h
    subst h
    intro d hd
    simp at hd
  | d :: ds, used, m, r, h => by
    unfold shrinkDefs at h
    split at h
    · cases h
    · rename_i dd u1 m1 hd
      split at h
      · cases h
      · rename_i rest u2 m2 hr
        simp only [Except.ok.injEq] at h
        subst h
        have h1 := shrinkDef_ne hd
        have h2 := shrinkDefs_ne hr
        intro x hx
        simp only [List.mem_append] at hx
        rcases hx with hx | hx
        · exact h1 x hx
        · exact h2 x hx

/-- the output of `shrinkProg` has no closure-environment annotations -/
theorem shrinkProg_noEnvAnn {q3 : Core.FsProg} {q4 : AxCut.Prog}
    (h : shrinkProg q3 = .ok q4) : noEnvAnnProg q4 = true := by
  unfold shrinkProg at h
  split at h
  · cases h
  · split at h
    · cases h
    · simp only at h
      split at h
      · cases h
      · rename_i defs u m hd
        simp only [Except.ok.injEq] at h
        subst h
        simp only [noEnvAnnProg, List.all_eq_true]
        exact shrinkDefs_ne hd

end Scc.Pipeline
