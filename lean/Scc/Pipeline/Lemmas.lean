/-
  Scc.Pipeline.Lemmas — proof file for the composition theorems (Props/C01, Props/C12):
  inversion lemmas for the composed functions of Scc/Pipeline.lean, and the structural facts about the
  entry point that the per-pass statements need as side conditions: the definition `main` is the
  FIRST definition of S2, S3, S4 and S5, and its parameters stay integers
  (`prd i64` in Core, `ext i64` in AxCut).
-/
import Scc.Pipeline
import Scc.AxCut.LinMain

namespace Scc.Pipeline

open Scc

/-! ## inversion of the composed functions -/

theorem tagErr_ok {α : Type} {stage : String} {r : Except String α} {a : α} :
    tagErr stage r = .ok a ↔ r = .ok a := by
  cases r <;> simp [tagErr]

theorem stages_ok_iff {p' : Fun.CheckedProgram} {st : Stages} :
    stages p' = .ok st ↔
      Fun2Core.compileProg p' = .ok st.s2 ∧ Core.focusProgE st.s2 = .ok st.s3 ∧
      Core2AxCut.shrinkProg st.s3 = .ok st.s4 ∧ AxCut.linearizeProg st.s4 = .ok st.s5 := by
  unfold stages stageS2 stageS3 stageS4 stageS5
  constructor
  · intro h
    cases h2 : Fun2Core.compileProg p' with
    | error e => simp [h2, tagErr] at h
    | ok q2 =>
      simp only [h2, tagErr] at h
      cases h3 : Core.focusProgE q2 with
      | error e => simp [h3] at h
      | ok q3 =>
        simp only [h3] at h
        cases h4 : Core2AxCut.shrinkProg q3 with
        | error e => simp [h4] at h
        | ok q4 =>
          simp only [h4] at h
          cases h5 : AxCut.linearizeProg q4 with
          | error e => simp [h5] at h
          | ok q5 =>
            simp only [h5, Except.ok.injEq] at h
            subst h
            exact ⟨rfl, h3, h4, h5⟩
  · rintro ⟨h2, h3, h4, h5⟩
    simp only [h2, h3, h4, h5, tagErr]

theorem middleEnd_ok_iff {p' : Fun.CheckedProgram} {q5 : AxCut.Prog} :
    middleEnd p' = .ok q5 ↔ ∃ st, stages p' = .ok st ∧ st.s5 = q5 := by
  unfold middleEnd
  cases h : stages p' with
  | error e => simp
  | ok st => simp

theorem backEndX86_ok_iff {hooks : Bool} {c : Nat} {q5 : AxCut.Prog} {nargs : Nat} {text : String} :
    backEndX86 hooks c q5 = .ok (nargs, text) ↔
      ∃ body routine, X86.compileX86 q5 hooks c = .ok (body, nargs) ∧
        X86.intoRoutine body nargs = .ok routine ∧ text = X86.printProg routine := by
  unfold backEndX86
  cases h1 : X86.compileX86 q5 hooks c with
  | error e => simp [tagErr]
  | ok r =>
    obtain ⟨body, n⟩ := r
    simp only [tagErr]
    cases h2 : X86.intoRoutine body n with
    | error e =>
      simp only [reduceCtorEq, false_iff, not_exists, not_and]
      intro b r hb hr
      injection hb with hb
      injection hb with hb1 hb2
      subst hb1; subst hb2
      rw [h2] at hr
      cases hr
    | ok routine =>
      simp only [Except.ok.injEq, Prod.mk.injEq]
      constructor
      · rintro ⟨rfl, rfl⟩
        exact ⟨body, routine, ⟨rfl, rfl⟩, h2, rfl⟩
      · rintro ⟨b, r, ⟨rfl, rfl⟩, hr, rfl⟩
        rw [h2] at hr
        injection hr with hr
        subst hr
        exact ⟨rfl, rfl⟩

theorem compileAllX86_ok_iff {hooks : Bool} {c : Nat} {p' : Fun.CheckedProgram} {r : Nat × String} :
    compileAllX86 hooks c p' = .ok r ↔ ∃ q5, middleEnd p' = .ok q5 ∧ backEndX86 hooks c q5 = .ok r := by
  unfold compileAllX86
  cases h : middleEnd p' with
  | error e => simp
  | ok q5 => simp

theorem focusProgE_ok_iff {q2 : Core.Prog} {q3 : Core.FsProg} :
    Core.focusProgE q2 = .ok q3 ↔ q2.focusPanicFree = true ∧ q3 = Core.focusProg q2 := by
  unfold Core.focusProgE Core.Prog.focusPanicFree
  by_cases h1 : q2.chiralityOk = true
  · by_cases h2 : (q2.defs.all fun d => d.body.cutsOk) = true
    · simp [h1, h2, eq_comm]
    · simp [h1, h2]
  · simp [h1]

/-! ## the entry point through the stages -/

/-- all parameters are integer producers (Core) -/
def IntPrd (ctx : Core.Ctx) : Prop := ∀ b ∈ ctx, b.chi = .prd ∧ b.ty = .i64

/-- all parameters are integers (AxCut) -/
def IntExt (ctx : AxCut.Ctx) : Prop := ∀ b ∈ ctx, b.chi = .ext ∧ b.ty = .i64

/-- S2: the first definition is `main`, with `k` integer parameters -/
def MainHead2 (k : Nat) (defs : List Core.Def) : Prop :=
  ∃ d ds, defs = d :: ds ∧ d.name.name = "main" ∧ d.ctx.length = k ∧ IntPrd d.ctx

/-- S3 -/
def MainHead3 (k : Nat) (defs : List Core.FsDef) : Prop :=
  ∃ d ds, defs = d :: ds ∧ d.name.name = "main" ∧ d.ctx.length = k ∧ IntPrd d.ctx

/-- S4, S5 -/
def MainHeadAx (k : Nat) (defs : List AxCut.Def) : Prop :=
  ∃ d ds, defs = d :: ds ∧ d.ctx.length = k ∧ IntExt d.ctx

/-! ### S1 → S2 -/

theorem isI64_eq {t : Fun.Ty} (h : isI64 t = true) : t = .i64 := by
  cases t <;> simp_all [isI64]

theorem intPrd_compileContext {ctx : Fun.Ctx}
    (h : ctx.all (fun b => b.chi == .prd && isI64 b.ty) = true) :
    IntPrd (Fun2Core.compileContext ctx) := by
  intro b hb
  simp only [Fun2Core.compileContext, List.mem_map] at hb
  obtain ⟨a, ha, rfl⟩ := hb
  have := List.all_eq_true.1 h a ha
  simp only [Bool.and_eq_true] at this
  obtain ⟨h1, h2⟩ := this
  have h2 := isI64_eq h2
  have h1 : a.chi = .prd := by
    cases hc : a.chi
    · rfl
    · rw [hc] at h1; exact absurd h1 (by decide)
  simp [h1, h2, Fun2Core.compileChi, Fun2Core.compileTy]

theorem mainHead2_append {k : Nat} {l : List Core.Def} (h : MainHead2 k l) (r : List Core.Def) :
    MainHead2 k (l ++ r) := by
  obtain ⟨d, ds, rfl, h1, h2, h3⟩ := h
  exact ⟨d, ds ++ r, rfl, h1, h2, h3⟩

/-- every definition called `main` has `k` parameters and a valid signature -/
def MainsOk (k : Nat) (defs : List Fun.Def) : Prop :=
  ∀ d ∈ defs, d.name = "main" → d.ctx.length = k ∧ mainSigOk d = true

theorem compileMain_head {k : Nat} {d : Fun.Def} {cts : List Core.TypeDecl} {ul : List String}
    {ds : List Core.Def} {ul' : List String} (hn : d.name = "main")
    (hs : d.ctx.length = k ∧ mainSigOk d = true)
    (h : Fun2Core.compileMain d cts ul = .ok (ds, ul')) : MainHead2 k ds := by
  unfold Fun2Core.compileMain at h
  simp only at h
  split at h
  · simp at h
  · split at h
    · simp at h
    · simp only [Except.ok.injEq, Prod.mk.injEq] at h
      obtain ⟨rfl, _⟩ := h
      refine ⟨_, _, rfl, hn, ?_, ?_⟩
      · simp [Fun2Core.compileContext, hs.1]
      · have := hs.2
        simp only [mainSigOk, Bool.and_eq_true] at this
        exact intPrd_compileContext this.1.2

theorem compileDefs_mainHead (k : Nat) (cts : List Core.TypeDecl) :
    ∀ (defs : List Fun.Def) (ul : List String) (acc r : List Core.Def),
      Fun2Core.compileDefs cts defs ul acc = .ok r → MainsOk k defs →
      (MainHead2 k acc ∨ defs.any (fun d => d.name == "main") = true) → MainHead2 k r := by
  intro defs
  induction defs with
  | nil =>
    intro ul acc r h _ hm
    simp only [Fun2Core.compileDefs, Except.ok.injEq] at h
    subst h
    rcases hm with hm | hm
    · exact hm
    · simp at hm
  | cons d rest ih =>
    intro ul acc r h hok hm
    have hokr : MainsOk k rest := fun x hx => hok x (List.mem_cons_of_mem _ hx)
    unfold Fun2Core.compileDefs at h
    by_cases hd : (d.name == "main") = true
    · rw [if_pos hd] at h
      split at h
      · simp at h
      · rename_i ds ul' hcm
        have hdn : d.name = "main" := by simpa using hd
        have hh := compileMain_head hdn (hok d (List.mem_cons_self ..) hdn) hcm
        exact ih ul' (ds ++ acc) r h hokr (.inl (mainHead2_append hh acc))
    · rw [if_neg hd] at h
      split at h
      · simp at h
      · rename_i ds ul' hcd
        refine ih ul' (acc ++ ds) r h hokr ?_
        rcases hm with hm | hm
        · exact .inl (mainHead2_append hm ds)
        · right
          simp only [List.any_cons, Bool.or_eq_true] at hm
          rcases hm with hm | hm
          · exact absurd hm hd
          · exact hm

/-- a valid `main` whose definitions of that name all have `k` parameters -/
def ValidMainK (k : Nat) (p' : Fun.CheckedProgram) : Prop :=
  p'.defs.any (fun d => d.name == "main") = true ∧ MainsOk k p'.defs

theorem compileProg_mainHead {k : Nat} {p' : Fun.CheckedProgram} {q2 : Core.Prog}
    (hv : ValidMainK k p') (h : Fun2Core.compileProg p' = .ok q2) : MainHead2 k q2.defs := by
  unfold Fun2Core.compileProg at h
  simp only at h
  split at h
  · simp at h
  · rename_i defs hd
    simp only [Except.ok.injEq] at h
    subst h
    exact compileDefs_mainHead k _ _ _ _ _ hd hv.2 (.inr hv.1)

/-! ### S2 → S3 -/

theorem uniquifyCtx_length (c : Core.Ctx) (n : Nat) : (Core.uniquifyCtx c n).ctx.length = c.length := by
  induction c generalizing n with
  | nil => simp [Core.uniquifyCtx]
  | cons b r ih =>
    simp only [Core.uniquifyCtx]
    split
    · split <;> simp [ih]
    · simp [ih]

theorem uniquifyCtx_intPrd {c : Core.Ctx} (h : IntPrd c) (n : Nat) : IntPrd (Core.uniquifyCtx c n).ctx := by
  induction c generalizing n with
  | nil => intro b hb; simp [Core.uniquifyCtx] at hb
  | cons b r ih =>
    have hb := h b (List.mem_cons_self ..)
    have hr : IntPrd r := fun x hx => h x (List.mem_cons_of_mem _ hx)
    simp only [Core.uniquifyCtx]
    split
    · split
      · intro x hx
        simp only [List.mem_cons] at hx
        rcases hx with rfl | hx
        · exact hb
        · exact ih hr _ x hx
      · intro x hx
        simp only [List.mem_cons] at hx
        rcases hx with rfl | hx
        · exact hb
        · exact ih hr _ x hx
    · intro x hx
      simp only [List.mem_cons] at hx
      rcases hx with rfl | hx
      · exact hb
      · exact ih hr _ x hx

theorem uniquifyDef_sig (d : Core.Def) (n : Nat) :
    (Core.uniquifyDef d n).1.name = d.name ∧ (Core.uniquifyDef d n).1.ctx = (Core.uniquifyCtx d.ctx n).ctx := by
  simp [Core.uniquifyDef]

theorem focusDef_sig (d : Core.Def) (n : Nat) :
    (Core.focusDef d n).1.name = d.name ∧ (Core.focusDef d n).1.ctx = d.ctx := by
  simp [Core.focusDef]

theorem uniquifyDefs_mainHead {k : Nat} {defs : List Core.Def} (h : MainHead2 k defs) (n : Nat) :
    MainHead2 k (Core.uniquifyDefs defs n).1 := by
  obtain ⟨d, ds, rfl, h1, h2, h3⟩ := h
  simp only [Core.uniquifyDefs]
  refine ⟨_, _, rfl, ?_, ?_, ?_⟩
  · rw [(uniquifyDef_sig d n).1]; exact h1
  · rw [(uniquifyDef_sig d n).2, uniquifyCtx_length]; exact h2
  · rw [(uniquifyDef_sig d n).2]; exact uniquifyCtx_intPrd h3 n

theorem focusDefs_mainHead {k : Nat} {defs : List Core.Def} (h : MainHead2 k defs) (n : Nat) :
    MainHead3 k (Core.focusDefs defs n).1 := by
  obtain ⟨d, ds, rfl, h1, h2, h3⟩ := h
  simp only [Core.focusDefs]
  refine ⟨_, _, rfl, ?_, ?_, ?_⟩
  · rw [(focusDef_sig d n).1]; exact h1
  · rw [(focusDef_sig d n).2]; exact h2
  · rw [(focusDef_sig d n).2]; exact h3

theorem focusProg_mainHead {k : Nat} {q2 : Core.Prog} (h : MainHead2 k q2.defs) :
    MainHead3 k (Core.focusProg q2).defs := by
  have h1 : MainHead2 k (Core.uniquifyProg q2).defs := by
    simpa [Core.uniquifyProg] using uniquifyDefs_mainHead h q2.maxId
  simpa [Core.focusProg, Core.focusOnly] using focusDefs_mainHead h1 (Core.uniquifyProg q2).maxId

/-! ### S3 → S4 -/

theorem shrinkContext_intExt {codata : List Core.TypeDecl} {c : Core.Ctx} (h : IntPrd c) :
    IntExt (Core2AxCut.shrinkContext codata c) := by
  intro b hb
  simp only [Core2AxCut.shrinkContext, List.mem_map] at hb
  obtain ⟨a, ha, rfl⟩ := hb
  obtain ⟨h1, h2⟩ := h a ha
  have e1 : (Core.Ty.i64 == Core.Ty.i64) = true := by decide
  have e2 : (Core.PC.prd == Core.PC.cns) = false := by decide
  simp [Core2AxCut.shrinkBinding, h1, h2, e1, e2]

theorem shrinkDefs_mainHead {k : Nat} {data codata : List Core.TypeDecl} {defs : List Core.FsDef}
    {used : List Core.Ident} {m : Nat} {r : List AxCut.Def × List Core.Ident × Nat}
    (h : MainHead3 k defs)
    (hs : Core2AxCut.shrinkDefs data codata defs used m = .ok r) : MainHeadAx k r.1 := by
  obtain ⟨d, ds, rfl, _, h2, h3⟩ := h
  unfold Core2AxCut.shrinkDefs at hs
  split at hs
  · simp at hs
  · rename_i dd u1 m1 hd
    split at hs
    · simp at hs
    · simp only [Except.ok.injEq] at hs
      subst hs
      unfold Core2AxCut.shrinkDef at hd
      simp only at hd
      split at hd
      · simp at hd
      · simp only [Except.ok.injEq, Prod.mk.injEq] at hd
        obtain ⟨rfl, _⟩ := hd
        refine ⟨_, _, rfl, ?_, shrinkContext_intExt h3⟩
        simp [Core2AxCut.shrinkContext, h2]

theorem shrinkProg_mainHead {k : Nat} {q3 : Core.FsProg} {q4 : AxCut.Prog} (h : MainHead3 k q3.defs)
    (hs : Core2AxCut.shrinkProg q3 = .ok q4) : MainHeadAx k q4.defs := by
  unfold Core2AxCut.shrinkProg at hs
  split at hs
  · simp at hs
  · split at hs
    · simp at hs
    · simp only at hs
      split at hs
      · simp at hs
      · rename_i defs u m hd
        simp only [Except.ok.injEq] at hs
        subst hs
        exact shrinkDefs_mainHead h hd

/-! ### S4 → S5 -/

theorem linearizeDef_sig {d d' : AxCut.Def} {m m' : Nat}
    (h : AxCut.linearizeDef d m = .ok (d', m')) : d'.name = d.name ∧ d'.ctx = d.ctx := by
  unfold AxCut.linearizeDef at h
  simp only at h
  split at h
  · simp at h
  · simp only [Except.ok.injEq, Prod.mk.injEq] at h
    obtain ⟨rfl, _⟩ := h
    exact ⟨rfl, rfl⟩

theorem linearizeProg_mainHead {k : Nat} {q4 q5 : AxCut.Prog} (h : MainHeadAx k q4.defs)
    (hl : AxCut.linearizeProg q4 = .ok q5) : MainHeadAx k q5.defs := by
  obtain ⟨d, ds, hd, h2, h3⟩ := h
  unfold AxCut.linearizeProg at hl
  split at hl
  · simp at hl
  · rename_i defs m hdefs
    simp only [Except.ok.injEq] at hl
    subst hl
    rw [hd] at hdefs
    unfold AxCut.linearizeDefs at hdefs
    split at hdefs
    · simp at hdefs
    · rename_i d' m1 hd1
      split at hdefs
      · simp at hdefs
      · simp only [Except.ok.injEq, Prod.mk.injEq] at hdefs
        obtain ⟨rfl, _⟩ := hdefs
        obtain ⟨_, hc⟩ := linearizeDef_sig hd1
        exact ⟨d', _, rfl, by rw [hc]; exact h2, by rw [hc]; exact h3⟩

/-- the entry point of every stage of a successful compilation of a program with a valid `main` -/
theorem stages_mainHead {k : Nat} {p' : Fun.CheckedProgram} {st : Stages} (hv : ValidMainK k p')
    (h : stages p' = .ok st) :
    MainHead2 k st.s2.defs ∧ MainHead3 k st.s3.defs ∧ MainHeadAx k st.s4.defs ∧
      MainHeadAx k st.s5.defs := by
  obtain ⟨h2, h3, h4, h5⟩ := stages_ok_iff.1 h
  have m2 := compileProg_mainHead hv h2
  obtain ⟨_, e3⟩ := focusProgE_ok_iff.1 h3
  have m3 : MainHead3 k st.s3.defs := by rw [e3]; exact focusProg_mainHead m2
  have m4 := shrinkProg_mainHead m3 h4
  exact ⟨m2, m3, m4, linearizeProg_mainHead m4 h5⟩

/-! ## `validMain` gives `ValidMainK` for the arity of `main` -/

theorem validMainK_of_validMain {p' : Fun.CheckedProgram} (h : validMain p' = true) :
    ValidMainK (mainArity p') p' := by
  unfold validMain at h
  split at h
  · rename_i d hd
    have hmem : ∀ x, x ∈ p'.defs ∧ (x.name == "main") = true ↔ x = d := by
      intro x
      have : x ∈ mainDefs p' ↔ x ∈ p'.defs ∧ (x.name == "main") = true := by
        unfold mainDefs; exact List.mem_filter
      rw [← this, hd]; simp
    have hdm := (hmem d).2 rfl
    refine ⟨List.any_eq_true.2 ⟨d, hdm.1, hdm.2⟩, ?_⟩
    intro x hx hn
    have : x = d := (hmem x).1 ⟨hx, by simpa using hn⟩
    subst this
    simp [mainArity, hd, h]
  · simp at h

end Scc.Pipeline
