/-
  Scc.Pipeline.SizeCompose — C19, composition of the size bounds of all passes along
  `Scc.Pipeline.stages` / `compileAllX86`:

     S1 --fun2core--> S2 --uniquify;focus--> S3 --shrink--> S4 --linearize--> S5 --x86--> routine

  Source size `N = funSrcSize p'`: the definitions (`funProgSize`, the measure of C19.lean) plus the
  type declarations (one per declaration, one per xtor, one per argument; a destructor's continuation
  counts one more).  The declarations must be part of the source size: a `let x : T = f(); g(x)` is a
  critical pair that shrinking eta-expands into one clause per constructor of `T`.
  Explicit polynomials (each is the composition of the bounds of the single passes):
      |S2| ≤ P2 N = 3N(2N+4)            (C19_fun2core_full)
      |S3| ≤ P3 N = 4·P2 N              (SizeFocus)
      nodes S4 ≤ P4 N = (N+2)·P3 N      (C19_shrink_size; N+2 ≥ number of xtors of a type + 1)
      width S4 ≤ PW N = P3 N + N + 1    (SizeWidth: parameter lists, argument lists, clause contexts)
      contexts of S5 ≤ PB N = 2(PW + P4·(PW+1)) + PW + 1     (SizeLin + SizeWidth)
      nodes S5 ≤ P5 N = 2·P4 N          (SizeLin)
      x86 body ≤ 485·(1 + PB N)·P5 N,  routine ≤ that + 44   (SizeX86)
  The last line needs that the new names of the substitutions of S5 are pairwise distinct; this follows
  from `wfNonLinearCheck S4` (decidable; the check `wfNonLinear4` of every run), by
  `linearizeProg_LinTyped`.     Proof file.
-/
import Scc.Pipeline.Lemmas
import Scc.Props.C19
import Scc.Props.C19Shrink
import Scc.Core2AxCut.SizeWidth
import Scc.Backend.SizeX86

set_option linter.unusedVariables false
set_option linter.unusedSimpArgs false

namespace Scc.Pipeline.SizeCompose

open Scc Scc.Pipeline Scc.Fun2Core Scc.Core.SizeFocus Scc.AxCut.SizeLin Scc.Core2AxCut.SizeWidth
  Scc.Backend.SizeGen

/-! ## the size of the source, declarations included -/

def ctorsSize : List Fun.CtorSig → Nat
  | [] => 0
  | c :: cs => 1 + c.args.length + ctorsSize cs

def dtorsSize : List Fun.DtorSig → Nat
  | [] => 0
  | d :: ds => 2 + d.args.length + dtorsSize ds

def dataSize : List Fun.Data → Nat
  | [] => 0
  | d :: ds => 1 + ctorsSize d.ctors + dataSize ds

def codataSize : List Fun.Codata → Nat
  | [] => 0
  | d :: ds => 1 + dtorsSize d.dtors + codataSize ds

/-- size of the type declarations -/
def funDeclsSize (p : Fun.CheckedProgram) : Nat := dataSize p.dataTypes + codataSize p.codataTypes

/-- size of a checked source program: definitions and declarations -/
def funSrcSize (p : Fun.CheckedProgram) : Nat := funProgSize p + funDeclsSize p

/-! ## the declarations of S2 / S3 in terms of the source -/

theorem ctors_len_le (cs : List Fun.CtorSig) : cs.length ≤ ctorsSize cs := by
  induction cs with
  | nil => simp [ctorsSize]
  | cons c cs ih => simp only [List.length_cons, ctorsSize]; omega

theorem dtors_len_le (ds : List Fun.DtorSig) : ds.length ≤ dtorsSize ds := by
  induction ds with
  | nil => simp [dtorsSize]
  | cons d ds ih => simp only [List.length_cons, dtorsSize]; omega

theorem maxXtors_data (ds : List Fun.Data) :
    Core2AxCut.maxXtors (ds.map fun d => (⟨⟨d.name, 0⟩, d.ctors.map compileCtor⟩ : Core.TypeDecl)) ≤
      dataSize ds := by
  induction ds with
  | nil => simp [Core2AxCut.maxXtors, dataSize]
  | cons d ds ih =>
    have := ctors_len_le d.ctors
    simp only [List.map_cons, Core2AxCut.maxXtors, dataSize, List.length_map]; omega

theorem maxXtors_codata (ds : List Fun.Codata) :
    Core2AxCut.maxXtors (ds.map fun d => (⟨⟨d.name, 0⟩, d.dtors.map compileDtor⟩ : Core.TypeDecl)) ≤
      codataSize ds := by
  induction ds with
  | nil => simp [Core2AxCut.maxXtors, codataSize]
  | cons d ds ih =>
    have := dtors_len_le d.dtors
    simp only [List.map_cons, Core2AxCut.maxXtors, codataSize, List.length_map]; omega

theorem ctors_arity_le (cs : List Fun.CtorSig) :
    (cs.map compileCtor).foldr (fun x acc => max x.args.length acc) 0 ≤ ctorsSize cs := by
  induction cs with
  | nil => simp [ctorsSize]
  | cons c cs ih =>
    simp only [List.map_cons, List.foldr_cons, ctorsSize, compileCtor, compileContext, List.length_map]
    omega

theorem dtors_arity_le (ds : List Fun.DtorSig) :
    (ds.map compileDtor).foldr (fun x acc => max x.args.length acc) 0 ≤ dtorsSize ds := by
  induction ds with
  | nil => simp [dtorsSize]
  | cons d ds ih =>
    simp only [List.map_cons, List.foldr_cons, dtorsSize, compileDtor, compileContext, List.length_map,
      List.length_append, List.length_singleton]
    omega

theorem declArity_data (ds : List Fun.Data) :
    declArity (ds.map fun d => (⟨⟨d.name, 0⟩, d.ctors.map compileCtor⟩ : Core.TypeDecl)) ≤ dataSize ds := by
  induction ds with
  | nil => simp [declArity, dataSize]
  | cons d ds ih =>
    have := ctors_arity_le d.ctors
    simp only [List.map_cons, declArity, dataSize]; omega

theorem declArity_codata (ds : List Fun.Codata) :
    declArity (ds.map fun d => (⟨⟨d.name, 0⟩, d.dtors.map compileDtor⟩ : Core.TypeDecl)) ≤
      codataSize ds := by
  induction ds with
  | nil => simp [declArity, codataSize]
  | cons d ds ih =>
    have := dtors_arity_le d.dtors
    simp only [List.map_cons, declArity, codataSize]; omega

theorem declArity_append (a b : List Core.TypeDecl) :
    declArity (a ++ b) = max (declArity a) (declArity b) := by
  induction a with
  | nil => simp [declArity]
  | cons d ds ih => simp only [List.cons_append, declArity, ih]; omega

theorem compileProg_types {p : Fun.CheckedProgram} {q : Core.Prog} (h : compileProg p = .ok q) :
    q.dataTypes = (p.dataTypes.map fun d => (⟨⟨d.name, 0⟩, d.ctors.map compileCtor⟩ : Core.TypeDecl)) ∧
    q.codataTypes = (p.codataTypes.map fun d => (⟨⟨d.name, 0⟩, d.dtors.map compileDtor⟩ : Core.TypeDecl)) := by
  unfold compileProg at h
  simp only at h
  split at h
  · cases h
  · cases h; exact ⟨rfl, rfl⟩

/-! ## linearly typed programs have well-formed substitutions -/

open Scc.AxCut in
mutual
  theorem substOk_of_linTyped {T : List TypeDecl} {S : Sigs} : ∀ (s : Stmt) (Γ : Ctx),
      LinTyped T S Γ s → substOk s = true
    | .subst pairs next, Γ, h => by
      cases h with
      | subst h1 h2 h3 h4 =>
        simp only [substOk, Bool.and_eq_true, decide_eq_true_eq]
        refine ⟨?_, substOk_of_linTyped next _ h4⟩
        have e : Ctx.ids (pairs.map (·.1)) = pairs.map (·.1.var.id) := by
          simp [Ctx.ids, List.map_map, Function.comp_def]
        rw [← e]; exact h3
    | .call _ _, _, _ => by simp [substOk]
    | .letS _ _ _ _ next _, Γ, h => by
      cases h with
      | letS _ _ _ _ _ _ h7 => simp only [substOk]; exact substOk_of_linTyped next _ h7
    | .switch _ _ cs _, Γ, h => by
      cases h with
      | switch _ _ _ _ _ h6 => simp only [substOk]; exact substOkC_of_linTyped cs _ _ h6
    | .create _ _ env cs next _ _, Γ, h => by
      cases h with
      | create _ _ _ _ _ h6 _ h8 =>
        simp only [substOk, Bool.and_eq_true]
        exact ⟨substOkC_of_linTyped cs _ _ h6, substOk_of_linTyped next _ h8⟩
    | .invoke _ _ _ _, _, _ => by simp [substOk]
    | .lit _ _ next _, Γ, h => by
      cases h with
      | lit _ _ h3 => simp only [substOk]; exact substOk_of_linTyped next _ h3
    | .op _ _ _ _ next _, Γ, h => by
      cases h with
      | op _ _ _ _ h5 => simp only [substOk]; exact substOk_of_linTyped next _ h5
    | .print _ _ next _, Γ, h => by
      cases h with
      | print _ _ h3 => simp only [substOk]; exact substOk_of_linTyped next _ h3
    | .ifc _ _ _ t e, Γ, h => by
      cases h with
      | ifc _ _ _ h4 h5 =>
        simp only [substOk, Bool.and_eq_true]
        exact ⟨substOk_of_linTyped t _ h4, substOk_of_linTyped e _ h5⟩
    | .exit _, _, _ => by simp [substOk]
  theorem substOkC_of_linTyped {T : List TypeDecl} {S : Sigs} : ∀ (cs : Clauses) (pre post : Ctx),
      LinTypedClauses T S pre post cs → substOkC cs = true
    | .nil, _, _, _ => by simp [substOkC]
    | .cons _ _ body rest, pre, post, h => by
      cases h with
      | cons h1 h2 =>
        simp only [substOkC, Bool.and_eq_true]
        exact ⟨substOk_of_linTyped body _ h1, substOkC_of_linTyped rest _ _ h2⟩
end

theorem substOkProg_of_linTyped {p : AxCut.Prog} (h : AxCut.LinTypedProg p) : substOkProg p = true := by
  unfold substOkProg
  rw [List.all_eq_true]
  intro d hd
  exact substOk_of_linTyped d.body d.ctx (h d hd)

/-- the new names of every substitution of S5 are pairwise distinct whenever S4 passes the
    (decidable) well-formedness check of the linearizer's input -/
theorem substOkProg_of_wf {q4 q5 : AxCut.Prog} (hwf : AxCut.wfNonLinearCheck q4 = true)
    (h : AxCut.linearizeProg q4 = .ok q5) : substOkProg q5 = true := by
  obtain ⟨p', h1, h2, _⟩ := AxCut.linearizeProg_LinTyped q4 ((AxCut.wfNonLinearCheck_iff q4).1 hwf)
  rw [h] at h1
  cases h1
  exact substOkProg_of_linTyped h2

/-! ## the polynomials -/

def P2 (N : Nat) : Nat := 3 * N * (2 * N + 4)
def P3 (N : Nat) : Nat := 4 * P2 N
def P4 (N : Nat) : Nat := (N + 2) * P3 N
def PW (N : Nat) : Nat := P3 N + N + 1
def PB (N : Nat) : Nat := 2 * (PW N + P4 N * (PW N + 1)) + PW N + 1
def P5 (N : Nat) : Nat := 2 * P4 N
def PX (N : Nat) : Nat := 485 * (1 + PB N) * P5 N + 44

theorem OKdefs_mono {W W' : Nat} (h : W ≤ W') {l : List AxCut.Def} (hl : OKdefs W l) : OKdefs W' l :=
  fun d hd => ⟨Nat.le_trans (hl d hd).1 h, Nat.le_trans (hl d hd).2 h⟩

/-- C19: the sizes of all intermediate programs, polynomial in the size of the source -/
theorem stages_sizes {p' : Fun.CheckedProgram} {st : Stages} (h : stages p' = .ok st) :
    progSize st.s2 ≤ P2 (funSrcSize p') ∧
    fsProgSize st.s3 ≤ P3 (funSrcSize p') ∧
    defsNodes st.s4.defs ≤ P4 (funSrcSize p') ∧
    OKdefs (PW (funSrcSize p')) st.s4.defs ∧
    defsBound st.s4.defs ≤ PB (funSrcSize p') ∧
    defsNodes st.s5.defs ≤ P5 (funSrcSize p') ∧
    defsCap st.s5.defs ≤ PB (funSrcSize p') := by
  obtain ⟨h2, h3, h4, h5⟩ := stages_ok_iff.1 h
  generalize hN : funSrcSize p' = N
  have hn : funProgSize p' ≤ N := by rw [← hN]; unfold funSrcSize; omega
  have hdecl : funDeclsSize p' ≤ N := by rw [← hN]; unfold funSrcSize; omega
  -- S2
  have s2 : progSize st.s2 ≤ P2 N := by
    have := Props.C19_fun2core_full p' st.s2 h2
    refine Nat.le_trans this ?_
    unfold P2
    exact Nat.mul_le_mul (Nat.mul_le_mul_left 3 hn) (by omega)
  -- S3
  have s3 : fsProgSize st.s3 ≤ P3 N := by
    have := focusProgE_size h3
    unfold P3; omega
  -- the declarations of S3
  obtain ⟨ht1, ht2⟩ := compileProg_types h2
  obtain ⟨_, hq3⟩ := focusProgE_ok_iff.1 h3
  have hd3 : st.s3.dataTypes = st.s2.dataTypes ∧ st.s3.codataTypes = st.s2.codataTypes := by
    rw [hq3]; exact Core.SizeFocus.focusProg_types st.s2
  have hx1 := maxXtors_data p'.dataTypes
  have hx2 := maxXtors_codata p'.codataTypes
  have ha1 := declArity_data p'.dataTypes
  have ha2 := declArity_codata p'.codataTypes
  rw [← ht1] at hx1 ha1
  rw [← ht2] at hx2 ha2
  rw [← hd3.1] at hx1 ha1
  rw [← hd3.2] at hx2 ha2
  unfold funDeclsSize at hdecl
  -- S4: nodes
  have s4 : defsNodes st.s4.defs ≤ P4 N := by
    have := Props.C19_shrink_size st.s3 st.s4 h4
    rw [defsSize_eq] at this
    have hf : Props.shrinkFactor st.s3 ≤ N + 2 := by unfold Props.shrinkFactor; omega
    have hs : Core2AxCut.fsDefsSize st.s3.defs ≤ P3 N :=
      Nat.le_trans (fsDefsSize_le st.s3.defs) s3
    exact Nat.le_trans this (Nat.mul_le_mul hf hs)
  -- S4: width
  have hw : progWidth st.s3 ≤ PW N := by
    have hc : declArity [Core2AxCut.contInt] = 1 := by decide
    unfold progWidth PW
    rw [declArity_append, hc]
    omega
  have w4 : OKdefs (PW N) st.s4.defs := OKdefs_mono hw (shrinkProg_width h4)
  -- S4: the bound on the contexts of S5
  have b4 : defsBound st.s4.defs ≤ PB N := by
    have := defsBound_le (PW N) st.s4.defs (defsNodes st.s4.defs) w4 (fun d hd => size_le_defsNodes hd)
    have hm : defsNodes st.s4.defs * (PW N + 1) ≤ P4 N * (PW N + 1) := Nat.mul_le_mul_right _ s4
    unfold PB; omega
  -- S5
  obtain ⟨_, _, n5, c5, _⟩ := linearizeProg_size h5
  refine ⟨s2, s3, s4, w4, b4, ?_, Nat.le_trans c5 b4⟩
  unfold P5; omega

/-- C19 for the whole compiler: the number of instructions of the x86-64 routine is at most `PX N`,
    `N` the size of the checked source program -/
theorem pipeline_x86 {hooks : Bool} {c : Nat} {p' : Fun.CheckedProgram} {nargs : Nat} {text : String}
    (h : compileAllX86 hooks c p' = .ok (nargs, text))
    (hwf : ∀ st, stages p' = .ok st → AxCut.wfNonLinearCheck st.s4 = true) :
    ∃ routine, text = X86.printProg routine ∧ routine.length ≤ PX (funSrcSize p') := by
  obtain ⟨q5, hm, hb⟩ := compileAllX86_ok_iff.1 h
  obtain ⟨st, hst, rfl⟩ := middleEnd_ok_iff.1 hm
  obtain ⟨body, routine, hc, hr, rfl⟩ := backEndX86_ok_iff.1 hb
  obtain ⟨_, _, _, _, _, n5, c5⟩ := stages_sizes hst
  obtain ⟨_, _, _, h5⟩ := stages_ok_iff.1 hst
  have hok := substOkProg_of_wf (hwf st hst) h5
  have hbody := Backend.SizeX86.x86_compile_length hooks st.s5 _ c5 hok c body nargs hc
  have hrout := Backend.SizeX86.intoRoutine_length body nargs routine hr
  refine ⟨routine, rfl, ?_⟩
  have : 485 * (1 + PB (funSrcSize p')) * defsNodes st.s5.defs ≤
      485 * (1 + PB (funSrcSize p')) * P5 (funSrcSize p') := Nat.mul_le_mul_left _ n5
  unfold PX; omega

/-! ## the back half with the parameters of the program itself (sharper than the polynomials in `N`) -/

/-- from S3 on, in terms of `S = |S3|`, `D` = largest number of xtors of a type + 1 (`shrinkFactor`),
    `W = progWidth S3` -/
theorem backhalf_sizes {p3 : Core.FsProg} {q4 q5 : AxCut.Prog}
    (h4 : Core2AxCut.shrinkProg p3 = .ok q4) (h5 : AxCut.linearizeProg q4 = .ok q5) :
    defsNodes q4.defs ≤ Props.shrinkFactor p3 * fsProgSize p3 ∧
    OKdefs (progWidth p3) q4.defs ∧
    defsNodes q5.defs ≤ 2 * (Props.shrinkFactor p3 * fsProgSize p3) ∧
    defsCap q5.defs ≤
      2 * (progWidth p3 + Props.shrinkFactor p3 * fsProgSize p3 * (progWidth p3 + 1)) + progWidth p3 + 1 := by
  have s4 : defsNodes q4.defs ≤ Props.shrinkFactor p3 * fsProgSize p3 := by
    have := Props.C19_shrink_size p3 q4 h4
    rw [defsSize_eq] at this
    exact Nat.le_trans this (Nat.mul_le_mul_left _ (fsDefsSize_le p3.defs))
  have w4 := shrinkProg_width h4
  have b4 := defsBound_le (progWidth p3) q4.defs (defsNodes q4.defs) w4 (fun d hd => size_le_defsNodes hd)
  have hm : defsNodes q4.defs * (progWidth p3 + 1) ≤
      Props.shrinkFactor p3 * fsProgSize p3 * (progWidth p3 + 1) := Nat.mul_le_mul_right _ s4
  obtain ⟨_, _, n5, c5, _⟩ := linearizeProg_size h5
  exact ⟨s4, w4, by omega, by omega⟩

/-- … and the x86-64 code of S5 -/
theorem backhalf_x86 {p3 : Core.FsProg} {q4 q5 : AxCut.Prog} {hooks : Bool} {c : Nat}
    {body : List X86.Code} {nargs : Nat}
    (h4 : Core2AxCut.shrinkProg p3 = .ok q4) (h5 : AxCut.linearizeProg q4 = .ok q5)
    (hwf : AxCut.wfNonLinearCheck q4 = true) (hc : X86.compileX86 q5 hooks c = .ok (body, nargs)) :
    body.length ≤ 485 *
      (1 + (2 * (progWidth p3 + Props.shrinkFactor p3 * fsProgSize p3 * (progWidth p3 + 1)) +
        progWidth p3 + 1)) * (2 * (Props.shrinkFactor p3 * fsProgSize p3)) := by
  obtain ⟨_, _, n5, c5⟩ := backhalf_sizes h4 h5
  have hok := substOkProg_of_wf hwf h5
  have hbody := Backend.SizeX86.x86_compile_length hooks q5 _ c5 hok c body nargs hc
  exact Nat.le_trans hbody (Nat.mul_le_mul_left _ n5)

end Scc.Pipeline.SizeCompose
