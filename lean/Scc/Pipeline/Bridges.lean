/-
  Scc.Pipeline.Bridges — proof file: bridges between predicates that different components use for the
  same fact, needed to chain their theorems (Props/C01, Props/C12):
   * C03's `UniqueBindersGlobal` (Scc/Core/Unique.lean) ⇒ the checker `uniqueBindersCheck` accepts
     (completeness of the checker), and ⇒ core2axcut's `uniqueIdsCheck` (Scc/Core2AxCut/FreeVarsSpec.lean);
   * `wtFsScopedCheck ⇒ wtFsCheck`;  `Core.Prog.wellTyped ⇒ chiralityOk`;
   * C03's `UniqueBindersGlobal` ⇒ `idsBoundedCheck`, and "`main` is the first definition and takes integer
     producers" (`MainHead3`, Scc/Pipeline/Lemmas.lean) ⇒ `mainIntParams` — the two extra side conditions of
     `C04_sem` (Scc/Core2AxCut/NoLift.lean).
-/
import Scc.Core.ProofsUniqueD
import Scc.Core2AxCut.FsTyping
import Scc.Core2AxCut.FreeVarsSpec
import Scc.Core.Typing
import Scc.Core.Focus
import Scc.Core2AxCut.NoLift
import Scc.Pipeline.Lemmas

namespace Scc.Pipeline

open Scc

/-! ## uniqueness of binder ids -/

theorem uniqueBindersCheckDef_complete {m : Nat} {d : Core.FsDef} (h : Core.UniqueBindersGlobal m d) :
    Core.uniqueBindersCheckDef m d = true := by
  obtain ⟨h1, h2, h3⟩ := h
  simp only [Core.uniqueBindersCheckDef, Bool.and_eq_true, Core.nodupB_iff, List.all_eq_true,
    Bool.not_eq_true', decide_eq_true_eq]
  refine ⟨⟨h1, fun i hi => ?_⟩, h3⟩
  have := h2 i hi
  simpa using this

/-- completeness of the executable checker of C03 -/
theorem uniqueBindersCheck_complete {p : Core.FsProg}
    (h : ∀ d ∈ p.defs, Core.UniqueBindersGlobal p.maxId d) : Core.uniqueBindersCheck p = true := by
  simp only [Core.uniqueBindersCheck, List.all_eq_true]
  exact fun d hd => uniqueBindersCheckDef_complete (h d hd)

theorem ctxIds_eq (c : Core.Ctx) : c.map (·.var.id) = Core.ctxIds c := rfl

mutual
  theorem bindersTerm_ids : (t : Core.FsTerm) →
      (Core2AxCut.bindersTerm t).map (·.var.id) = t.binderIds
    | .var _ _ _ => rfl
    | .lit _ => rfl
    | .op _ _ _ => rfl
    | .xtor _ _ _ _ => rfl
    | .mu _ v _ s => by
      simp only [Core2AxCut.bindersTerm, Core.FsTerm.binderIds, List.map_cons, bindersStmt_ids s]
    | .xcase _ _ cs => by
      simp only [Core2AxCut.bindersTerm, Core.FsTerm.binderIds, bindersClauses_ids cs]
  theorem bindersClauses_ids : (cs : Core.FsClauses) →
      (Core2AxCut.bindersClauses cs).map (·.var.id) = cs.binderIds
    | .nil => rfl
    | .cons _ ctx b r => by
      simp only [Core2AxCut.bindersClauses, Core.FsClauses.binderIds, List.map_append,
        bindersStmt_ids b, bindersClauses_ids r, ctxIds_eq, List.append_assoc]
  theorem bindersStmt_ids : (s : Core.FsStmt) →
      (Core2AxCut.bindersStmt s).map (·.var.id) = s.binderIds
    | .cut _ p c => by
      simp only [Core2AxCut.bindersStmt, Core.FsStmt.binderIds, List.map_append, bindersTerm_ids p,
        bindersTerm_ids c]
    | .ifc _ _ _ t e => by
      simp only [Core2AxCut.bindersStmt, Core.FsStmt.binderIds, List.map_append, bindersStmt_ids t,
        bindersStmt_ids e]
    | .print _ _ n => by
      simp only [Core2AxCut.bindersStmt, Core.FsStmt.binderIds, bindersStmt_ids n]
    | .call _ _ => rfl
    | .exit _ => rfl
end

theorem nodupNat_iff (l : List Nat) : Core2AxCut.nodupNat l = true ↔ l.Nodup := by
  induction l with
  | nil => simp [Core2AxCut.nodupNat]
  | cons a l ih => simp [Core2AxCut.nodupNat, ih, List.nodup_cons]

/-- C03's global uniqueness is (more than) the `uniqueIdsCheck` that C04 assumes -/
theorem uniqueIdsCheck_of_global {p : Core.FsProg}
    (h : ∀ d ∈ p.defs, Core.UniqueBindersGlobal p.maxId d) : Core2AxCut.uniqueIdsCheck p = true := by
  simp only [Core2AxCut.uniqueIdsCheck, List.all_eq_true]
  intro d hd
  simp only [Core2AxCut.uniqueIdsDef, nodupNat_iff, List.map_append, bindersStmt_ids]
  exact (h d hd).1

theorem uniqueIdsCheck_of_check {p : Core.FsProg} (h : Core.uniqueBindersCheck p = true) :
    Core2AxCut.uniqueIdsCheck p = true :=
  uniqueIdsCheck_of_global fun d hd => (Core.uniqueBindersCheck_sound h d hd).1

/-- C03's global uniqueness bounds every parameter and binder id by `maxId`: `idsBoundedCheck` of `C04_sem` -/
theorem idsBoundedCheck_of_global {p : Core.FsProg}
    (h : ∀ d ∈ p.defs, Core.UniqueBindersGlobal p.maxId d) : Core2AxCut.idsBoundedCheck p = true := by
  simp only [Core2AxCut.idsBoundedCheck, List.all_eq_true]
  intro d hd
  simp only [Core2AxCut.idsBoundedDef, List.all_eq_true, decide_eq_true_eq]
  intro i hi
  exact (h d hd).2.2 i (List.mem_append_left _ hi)

theorem idsBoundedCheck_of_check {p : Core.FsProg} (h : Core.uniqueBindersCheck p = true) :
    Core2AxCut.idsBoundedCheck p = true :=
  idsBoundedCheck_of_global fun d hd => (Core.uniqueBindersCheck_sound h d hd).1

/-- the entry point of S3 takes integer producers: `mainIntParams` of `C04_sem` -/
theorem mainIntParams_of_mainHead {k : Nat} {p : Core.FsProg} (h : MainHead3 k p.defs) :
    Core2AxCut.mainIntParams p = true := by
  obtain ⟨d, ds, hd, _, _, hint⟩ := h
  simp only [Core2AxCut.mainIntParams, hd, List.all_eq_true, Bool.and_eq_true]
  intro b hb
  obtain ⟨h1, h2⟩ := hint b hb
  rw [h1, h2]
  exact ⟨by decide, by decide⟩

/-! ## typing checks -/

theorem wtFsCheck_of_scoped {p : Core.FsProg} (h : Core2AxCut.wtFsScopedCheck p = true) :
    Core2AxCut.wtFsCheck p = true := by
  simp only [Core2AxCut.wtFsScopedCheck, Bool.and_eq_true] at h
  exact h.1

end Scc.Pipeline
