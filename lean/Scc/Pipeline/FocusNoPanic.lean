/-
  Scc.Pipeline.FocusNoPanic — proof file (C12, no internal failure of `Prog::focus`):
  on a well-typed Core program (`Scc.Core.Prog.wellTyped`) in which no name is declared both as a data
  and as a codata type, uniquify + focus do not panic: none of the three panic sites
  (`Term<Cns>` on a literal / operator: "cannot happen"; `Xtor::focus`; `Op::focus`) is reachable,
  i.e. `focusPanicFree` holds and `focusProgE` returns `ok (focusProg p)`.
-/
import Scc.Core.Typing
import Scc.Core.Focus

namespace Scc.Pipeline

open Scc Scc.Core

/-- no type name is declared both as data and as codata type -/
def typesDisjoint (P : Prog) : Bool :=
  P.dataTypes.all fun d => P.codataTypes.all fun c => decide (d.name ≠ c.name)

theorem findDecl_name {ds : List TypeDecl} {T : Ident} {d : TypeDecl} (h : findDecl ds T = some d) :
    d ∈ ds ∧ d.name = T := by
  unfold findDecl at h
  have h1 := List.mem_of_find?_eq_some h
  have h2 := List.find?_some h
  exact ⟨h1, by simpa using h2⟩

theorem disjoint_find {P : Prog} (hd : typesDisjoint P = true) {T : Ident} {d c : TypeDecl}
    (h1 : findDecl P.dataTypes T = some d) (h2 : findDecl P.codataTypes T = some c) : False := by
  obtain ⟨m1, n1⟩ := findDecl_name h1
  obtain ⟨m2, n2⟩ := findDecl_name h2
  simp only [typesDisjoint, List.all_eq_true] at hd
  have := hd d m1 c m2
  simp only [decide_eq_true_eq] at this
  exact this (by rw [n1, n2])

/-- a producer `xtor` (constructor) is typed at a data type, a consumer `xtor` (destructor) at a
    codata type -/
theorem xtor_check_decl {P : Prog} {Γ : Ctx} {pc pc' : PC} {ty ty' : Ty} {name : Ident} {as : Args}
    (h : (Term.xtor pc' name as ty').check P Γ pc ty = true) :
    ∃ T d, ty = .decl T ∧ findDecl (if pc == .prd then P.dataTypes else P.codataTypes) T = some d := by
  simp only [Term.check, Bool.and_eq_true] at h
  obtain ⟨_, h⟩ := h
  cases ty with
  | i64 => simp at h
  | decl T =>
    simp only at h
    cases hf : findDecl (if pc == .prd then P.dataTypes else P.codataTypes) T with
    | none => rw [hf] at h; simp at h
    | some d => exact ⟨T, d, rfl, hf⟩

section
set_option linter.unusedSectionVars false
variable {P : Prog} (hd : typesDisjoint P = true)
include hd

mutual
  theorem term_ok : (t : Term) → ∀ (Γ : Ctx) (pc : PC) (ty : Ty), t.check P Γ pc ty = true →
      t.chiOk pc = true ∧ t.cutsOk = true
    | .var _ _ _, _, _, _, _ => by simp [Term.chiOk, Term.cutsOk]
    | .lit _, _, pc, _, h => by
      simp only [Term.check, Bool.and_eq_true] at h
      simp [Term.chiOk, Term.cutsOk, h.1]
    | .op a _ b, Γ, pc, ty, h => by
      simp only [Term.check, Bool.and_eq_true] at h
      obtain ⟨⟨⟨h1, _⟩, ha⟩, hb⟩ := h
      have ia := term_ok a Γ .prd .i64 ha
      have ib := term_ok b Γ .prd .i64 hb
      simp [Term.chiOk, Term.cutsOk, h1, ia.1, ia.2, ib.1, ib.2]
    | .mu _ v _ s, Γ, pc, ty, h => by
      simp only [Term.check, Bool.and_eq_true] at h
      have is := stmt_ok s _ h.2
      simp [Term.chiOk, Term.cutsOk, is.1, is.2]
    | .xtor pc' name as ty', Γ, pc, ty, h => by
      simp only [Term.check, Bool.and_eq_true] at h
      obtain ⟨_, h⟩ := h
      cases ty with
      | i64 => simp at h
      | decl T =>
        simp only at h
        split at h
        · simp at h
        · split at h
          · simp at h
          · rename_i sig _
            have ia := args_ok as Γ sig.args h
            simp [Term.chiOk, Term.cutsOk, ia.1, ia.2]
    | .xcase pc' ty' cl, Γ, pc, ty, h => by
      simp only [Term.check, Bool.and_eq_true] at h
      obtain ⟨_, h⟩ := h
      cases ty with
      | i64 => simp at h
      | decl T =>
        simp only at h
        split at h
        · simp at h
        · rename_i d _
          simp only [Bool.and_eq_true] at h
          have ic := clauses_ok cl Γ d.xtors h.1
          simp [Term.chiOk, Term.cutsOk, ic.1, ic.2]
  theorem args_ok : (as : Args) → ∀ (Γ : Ctx) (ctx : Ctx), as.check P Γ ctx = true →
      as.chiOk = true ∧ as.cutsOk = true
    | .nil, _, _, _ => by simp [Args.chiOk, Args.cutsOk]
    | .cons pc t r, Γ, ctx, h => by
      cases ctx with
      | nil => simp [Args.check] at h
      | cons b bs =>
        simp only [Args.check, Bool.and_eq_true] at h
        obtain ⟨⟨_, ht⟩, hr⟩ := h
        have it := term_ok t Γ pc b.ty ht
        have ir := args_ok r Γ bs hr
        simp [Args.chiOk, Args.cutsOk, it.1, it.2, ir.1, ir.2]
  theorem clauses_ok : (cl : Clauses) → ∀ (Γ : Ctx) (sigs : List XtorSig), cl.check P Γ sigs = true →
      cl.chiOk = true ∧ cl.cutsOk = true
    | .nil, _, _, _ => by simp [Clauses.chiOk, Clauses.cutsOk]
    | .cons x ctx b r, Γ, sigs, h => by
      simp only [Clauses.check, Bool.and_eq_true] at h
      obtain ⟨⟨_, hb⟩, hr⟩ := h
      have ib := stmt_ok b _ hb
      have ir := clauses_ok r Γ sigs hr
      simp [Clauses.chiOk, Clauses.cutsOk, ib.1, ib.2, ir.1, ir.2]
  theorem stmt_ok : (s : Stmt) → ∀ (Γ : Ctx), s.check P Γ = true → s.chiOk = true ∧ s.cutsOk = true
    | .cut ty p c, Γ, h => by
      simp only [Stmt.check, Bool.and_eq_true] at h
      obtain ⟨hp, hc⟩ := h
      have ip := term_ok p Γ .prd ty hp
      have ic := term_ok c Γ .cns ty hc
      refine ⟨by simp [Stmt.chiOk, ip.1, ic.1], ?_⟩
      -- the two panic shapes are ill-typed
      cases c with
      | xtor pc2 n2 as2 t2 =>
        obtain ⟨T2, d2, e2, f2⟩ := xtor_check_decl hc
        cases p with
        | xtor pc1 n1 as1 t1 =>
          obtain ⟨T1, d1, e1, f1⟩ := xtor_check_decl hp
          rw [e1] at e2
          injection e2 with e2
          subst e2
          rw [if_pos (by decide : (PC.prd == PC.prd) = true)] at f1
          rw [if_neg (by decide : ¬ (PC.cns == PC.prd) = true)] at f2
          exact absurd (disjoint_find hd f1 f2) id
        | op a o b =>
          simp only [Term.check, Bool.and_eq_true] at hp
          have hi := hp.1.1.2
          rw [e2] at hi
          exact absurd hi Bool.false_ne_true
        | var _ _ _ => simp [Stmt.cutsOk, ip.2, ic.2]
        | lit _ => simp [Stmt.cutsOk, ip.2, ic.2]
        | mu _ _ _ _ => simp [Stmt.cutsOk, ip.2, ic.2]
        | xcase _ _ _ => simp [Stmt.cutsOk, ip.2, ic.2]
      | var _ _ _ => simp [Stmt.cutsOk, ip.2, ic.2]
      | lit _ => simp [Stmt.cutsOk, ip.2, ic.2]
      | op _ _ _ => simp [Stmt.cutsOk, ip.2, ic.2]
      | mu _ _ _ _ => simp [Stmt.cutsOk, ip.2, ic.2]
      | xcase _ _ _ => simp [Stmt.cutsOk, ip.2, ic.2]
    | .ifc _ a b t e, Γ, h => by
      simp only [Stmt.check, Bool.and_eq_true] at h
      obtain ⟨⟨⟨ha, hb⟩, ht⟩, he⟩ := h
      have ia := term_ok a Γ .prd .i64 ha
      have ib := term_ok b Γ .prd .i64 hb
      have it := stmt_ok t Γ ht
      have ie := stmt_ok e Γ he
      simp [Stmt.chiOk, Stmt.cutsOk, ia.1, ia.2, ib.1, ib.2, it.1, it.2, ie.1, ie.2]
    | .ifz _ a t e, Γ, h => by
      simp only [Stmt.check, Bool.and_eq_true] at h
      obtain ⟨⟨ha, ht⟩, he⟩ := h
      have ia := term_ok a Γ .prd .i64 ha
      have it := stmt_ok t Γ ht
      have ie := stmt_ok e Γ he
      simp [Stmt.chiOk, Stmt.cutsOk, ia.1, ia.2, it.1, it.2, ie.1, ie.2]
    | .print _ a n, Γ, h => by
      simp only [Stmt.check, Bool.and_eq_true] at h
      have ia := term_ok a Γ .prd .i64 h.1
      have i_n := stmt_ok n Γ h.2
      simp [Stmt.chiOk, Stmt.cutsOk, ia.1, ia.2, i_n.1, i_n.2]
    | .call f as _, Γ, h => by
      simp only [Stmt.check] at h
      split at h
      · simp at h
      · rename_i d _
        have ia := args_ok as Γ d.ctx h
        simp [Stmt.chiOk, Stmt.cutsOk, ia.1, ia.2]
    | .exit a _, Γ, h => by
      simp only [Stmt.check] at h
      have ia := term_ok a Γ .prd .i64 h
      simp [Stmt.chiOk, Stmt.cutsOk, ia.1, ia.2]
end

end

/-- **focus does not panic on well-typed Core** (with disjoint data / codata type names) -/
theorem focusPanicFree_of_wellTyped {P : Prog} (hd : typesDisjoint P = true)
    (ht : P.wellTyped = true) : P.focusPanicFree = true := by
  simp only [Prog.wellTyped, List.all_eq_true] at ht
  simp only [Prog.focusPanicFree, Prog.chiralityOk, Bool.and_eq_true, List.all_eq_true]
  exact ⟨fun d hm => (stmt_ok hd d.body d.ctx (ht d hm)).1,
    fun d hm => (stmt_ok hd d.body d.ctx (ht d hm)).2⟩

theorem focusProgE_ok_of_wellTyped {P : Prog} (hd : typesDisjoint P = true)
    (ht : P.wellTyped = true) : focusProgE P = .ok (focusProg P) := by
  have h := focusPanicFree_of_wellTyped hd ht
  simp only [Prog.focusPanicFree, Bool.and_eq_true] at h
  simp [focusProgE, h.1, h.2]

end Scc.Pipeline
