/-
  Scc.Sexp — S-expressions: the dump format shared with the Rust harness (DESIGN.md appendix A,
  /verif/harness/src/sx.rs).  Atoms are bare words, strings are "…" with escapes \\ \" \n \r \t.
  Core imports only; executable.
-/
namespace Scc

inductive Sexp where
  | atom (a : String)
  | str (s : String)
  | list (items : List Sexp)
  deriving Repr, BEq, Inhabited

namespace Sexp

def quote (s : String) : String :=
  let body := s.foldl (fun acc c =>
    match c with
    | '\\' => acc ++ "\\\\"
    | '"' => acc ++ "\\\""
    | '\n' => acc ++ "\\n"
    | '\r' => acc ++ "\\r"
    | '\t' => acc ++ "\\t"
    | c => acc.push c) ""
  "\"" ++ body ++ "\""

mutual
  def render : Sexp → String
    | .atom a => a
    | .str s => quote s
    | .list items => "(" ++ renderList items ++ ")"
  def renderList : List Sexp → String
    | [] => ""
    | [x] => render x
    | x :: xs => render x ++ " " ++ renderList xs
end

/-- `(head item …)` -/
def node (head : String) (items : List Sexp) : Sexp := .list (.atom head :: items)

def nat (n : Nat) : Sexp := .atom (toString n)
def int (n : Int) : Sexp := .atom (toString n)

/-- Parser with explicit fuel (= number of characters + 1; each step consumes at least one
character or closes a list). Returns the parsed value and the rest of the input. -/
def isWs (c : Char) : Bool := c == ' ' || c == '\n' || c == '\t' || c == '\r'

def skipWs : List Char → List Char
  | c :: cs => if isWs c then skipWs cs else c :: cs
  | [] => []

def readStr : List Char → List Char → Option (String × List Char)
  | [], _ => none
  | '"' :: cs, acc => some (String.ofList acc.reverse, cs)
  | '\\' :: c :: cs, acc =>
    let c' := match c with | 'n' => '\n' | 'r' => '\r' | 't' => '\t' | x => x
    readStr cs (c' :: acc)
  | ['\\'], _ => none
  | c :: cs, acc => readStr cs (c :: acc)

def readAtom : List Char → List Char → (String × List Char)
  | [], acc => (String.ofList acc.reverse, [])
  | c :: cs, acc =>
    if isWs c || c == '(' || c == ')' then (String.ofList acc.reverse, c :: cs)
    else readAtom cs (c :: acc)

mutual
  def parseOne : Nat → List Char → Option (Sexp × List Char)
    | 0, _ => none
    | fuel + 1, cs =>
      match skipWs cs with
      | [] => none
      | '(' :: rest => parseItems fuel rest []
      | ')' :: _ => none
      | '"' :: rest =>
        match readStr rest [] with
        | some (s, rest') => some (.str s, rest')
        | none => none
      | c :: rest =>
        let (a, rest') := readAtom (c :: rest) []
        some (.atom a, rest')
  def parseItems : Nat → List Char → List Sexp → Option (Sexp × List Char)
    | 0, _, _ => none
    | fuel + 1, cs, acc =>
      match skipWs cs with
      | [] => none
      | ')' :: rest => some (.list acc.reverse, rest)
      | cs' =>
        match parseOne fuel cs' with
        | some (x, rest) => parseItems fuel rest (x :: acc)
        | none => none
end

def parse (s : String) : Option Sexp :=
  let cs := s.toList
  match parseOne (2 * cs.length + 2) cs with
  | some (x, rest) => if (skipWs rest).isEmpty then some x else none
  | none => none

/-! accessors used by the readers -/

def asAtom : Sexp → Option String
  | .atom a => some a
  | _ => none

def asStr : Sexp → Option String
  | .str a => some a
  | _ => none

def asList : Sexp → Option (List Sexp)
  | .list l => some l
  | _ => none

/-- `(head item …)` ↦ items -/
def tagged (head : String) : Sexp → Option (List Sexp)
  | .list (.atom h :: items) => if h == head then some items else none
  | _ => none

def headOf : Sexp → Option (String × List Sexp)
  | .list (.atom h :: items) => some (h, items)
  | _ => none

def asNat (s : Sexp) : Option Nat := s.asAtom.bind String.toNat?
def asInt (s : Sexp) : Option Int := s.asAtom.bind String.toInt?

end Sexp
end Scc
