/-
  Scc.StringLemmasAscii — the core `String` functions used by the AArch64 / RISC-V assembly loaders
  (Scc/A64/Machine.lean `parseLine`, `parseReg`, `parseImm`, `parseHookVar`), characterised on
  `List Char`.  In Lean 4.33 these functions go through `String.Slice` and the `Pattern` machinery;
  every lemma here is proved from the core lemma files (Init/Data/String/Lemmas/*), nothing is assumed:

  * `trimList` and `toList_trimAscii : s.trimAscii.toString.toList = trimList s.toList`
    (`Slice.toList_copy_dropWhile`, `Slice.toList_copy_dropEndWhile` for every `Char → Bool` pattern);
    `trimList_indent`, `trimList_of_trimmed`, `trimList_idem`;
  * `startsWith_iff` / `endsWith_iff` (string pattern: `<+:` / `<:+` on the character lists), and the
    handy forms `startsWith_ofList`, `endsWith_singleton_iff`;
  * `toList_drop`, `toList_dropEnd`, `toList_drop_dropEnd` (+ `.toString`);
  * `isEmpty_iff_toList`;
  * `isNatList`, `toNat?_eq` (`String.toNat?` for EVERY string: digits with `_` separators) and
    `toNat?_repr : (Nat.repr n).toNat? = some n`, `toNat?_toDigits`;
  * `splitOn_space`, `splitOn_colon` (through `Scc.Str.splitOn_singleton`), `splitList_append_sep`,
    `intercalate_splitList` (`[c].intercalate (splitList c l) = l`), `intercalate_space`.
  Proof file: core imports only.
-/
import Scc.StringLemmas

namespace Scc.Str

open String String.Slice

set_option linter.unusedSimpArgs false

/-! ## `dropWhile` / `dropEndWhile` with a character predicate -/

theorem dropWhile_append_of_all {p : Char → Bool} (a b : List Char) (ha : ∀ c ∈ a, p c = true)
    (hb : ∀ c, b.head? = some c → p c = false) : (a ++ b).dropWhile p = b := by
  induction a with
  | nil =>
    cases b with
    | nil => rfl
    | cons x xs => simp [hb x rfl]
  | cons x xs ih =>
    simp only [List.cons_append, List.dropWhile, ha x (by simp)]
    exact ih (fun c hc => ha c (by simp [hc]))

theorem toList_copy_dropWhile (s : Slice) (p : Char → Bool) :
    (s.dropWhile p).copy.toList = s.copy.toList.dropWhile p := by
  have hchain := Pattern.Model.Pos.isLongestMatchAtChain_skipWhile p s.startPos
  rw [Pattern.Model.CharPred.isLongestMatchAtChain_iff_toList] at hchain
  obtain ⟨hle, hall⟩ := hchain
  have hsp := (s.startPos.skipWhile p).splits
  have heq : s.copy = _ := hsp.eq_append
  rw [Slice.slice_startPos] at hall
  show (s.sliceFrom (s.startPos.skipWhile p)).copy.toList = _
  conv => rhs; rw [heq, String.toList_append]
  symm
  apply dropWhile_append_of_all _ _ hall
  intro c hc
  by_cases hend : s.startPos.skipWhile p = s.endPos
  · have := (hsp.eq_endPos_iff).1 hend
    rw [this] at hc; simp at hc
  · obtain ⟨t, ht⟩ := hsp.exists_eq_singleton_append hend
    rw [ht] at hc
    simp at hc
    rw [← hc]
    exact Pos.apply_skipWhile_bool_eq_false

/-- drop the longest suffix of characters satisfying `p` -/
def dropEndWhileList (p : Char → Bool) (l : List Char) : List Char := (l.reverse.dropWhile p).reverse

theorem dropEndWhileList_append_of_all {p : Char → Bool} (a b : List Char) (hb : ∀ c ∈ b, p c = true)
    (ha : ∀ c, a.getLast? = some c → p c = false) : dropEndWhileList p (a ++ b) = a := by
  unfold dropEndWhileList
  rw [List.reverse_append, dropWhile_append_of_all b.reverse a.reverse (by simpa using hb)
    (by intro c hc; rw [List.head?_reverse] at hc; exact ha c hc), List.reverse_reverse]

theorem toList_copy_dropEndWhile (s : Slice) (p : Char → Bool) :
    (s.dropEndWhile p).copy.toList = dropEndWhileList p s.copy.toList := by
  have hchain := Pattern.Model.Pos.isLongestRevMatchAtChain_revSkipWhile p s.endPos
  rw [Pattern.Model.CharPred.isLongestRevMatchAtChain_iff_toList] at hchain
  obtain ⟨hle, hall⟩ := hchain
  have hsp := (s.endPos.revSkipWhile p).splits
  have heq : s.copy = _ := hsp.eq_append
  rw [Slice.slice_endPos] at hall
  show (s.sliceTo (s.endPos.revSkipWhile p)).copy.toList = _
  conv => rhs; rw [heq, String.toList_append]
  symm
  apply dropEndWhileList_append_of_all _ _ hall
  intro c hc
  by_cases hst : s.endPos.revSkipWhile p = s.startPos
  · have := (hsp.eq_startPos_iff).1 hst
    rw [this] at hc; simp at hc
  · obtain ⟨t, ht⟩ := hsp.exists_eq_append_singleton_of_ne_startPos hst
    rw [ht] at hc
    simp at hc
    rw [← hc]
    exact Pos.apply_revSkipWhile_bool_eq_false

/-! ## `trimAscii` -/

/-- the text without its leading and trailing ASCII white space (` `, `\t`, `\r`, `\n`) -/
def trimList (l : List Char) : List Char := dropEndWhileList Char.isWhitespace (l.dropWhile Char.isWhitespace)

theorem toList_trimAscii_slice (s : Slice) : s.trimAscii.copy.toList = trimList s.copy.toList := by
  show ((s.dropWhile Char.isWhitespace).dropEndWhile Char.isWhitespace).copy.toList = _
  rw [toList_copy_dropEndWhile, toList_copy_dropWhile]; rfl

/-- `String.trimAscii`, for every string -/
theorem toList_trimAscii (s : String) : s.trimAscii.toString.toList = trimList s.toList := by
  show s.toSlice.trimAscii.copy.toList = _
  rw [toList_trimAscii_slice, String.copy_toSlice]

theorem trimAscii_eq (s : String) : s.trimAscii.toString = String.ofList (trimList s.toList) := by
  rw [← toList_trimAscii, String.ofList_toList]

/-- a text without leading / trailing white space -/
def Trimmed (l : List Char) : Prop :=
  (∀ c, l.head? = some c → c.isWhitespace = false) ∧ (∀ c, l.getLast? = some c → c.isWhitespace = false)

theorem trimList_ws_append {w l : List Char} (hw : ∀ c ∈ w, c.isWhitespace = true) :
    trimList (w ++ l) = trimList l := by
  induction w with
  | nil => rfl
  | cons x xs ih =>
    unfold trimList
    simp only [List.cons_append, List.dropWhile, hw x (by simp)]
    exact ih (fun c hc => hw c (by simp [hc]))

theorem trimList_of_trimmed {l : List Char} (h : Trimmed l) : trimList l = l := by
  unfold trimList
  have h1 : l.dropWhile Char.isWhitespace = l := by
    simpa using dropWhile_append_of_all (p := Char.isWhitespace) [] l (by simp) h.1
  rw [h1]
  simpa using dropEndWhileList_append_of_all (p := Char.isWhitespace) l [] (by simp) h.2

theorem trimList_append_ws {l w : List Char} (hl : Trimmed l) (hw : ∀ c ∈ w, c.isWhitespace = true) :
    trimList (l ++ w) = l := by
  unfold trimList
  cases l with
  | nil =>
    have : (([] : List Char) ++ w).dropWhile Char.isWhitespace = [] := by
      simpa using dropWhile_append_of_all (p := Char.isWhitespace) w [] hw (by simp)
    rw [this]; rfl
  | cons x xs =>
    have hx : x.isWhitespace = false := hl.1 x rfl
    have h1 : ((x :: xs) ++ w).dropWhile Char.isWhitespace = (x :: xs) ++ w := by
      simp [List.dropWhile, hx]
    rw [h1]
    exact dropEndWhileList_append_of_all _ _ hw hl.2

/-- four blanks of indentation in front of a trimmed text -/
theorem trimList_indent {l : List Char} (h : Trimmed l) : trimList (' ' :: ' ' :: ' ' :: ' ' :: l) = l := by
  have := trimList_ws_append (w := [' ', ' ', ' ', ' ']) (l := l) (by decide)
  simp only [List.cons_append, List.nil_append] at this
  rw [this, trimList_of_trimmed h]

theorem dropWhile_head_not {p : Char → Bool} (l : List Char) :
    ∀ c, (l.dropWhile p).head? = some c → p c = false := by
  induction l with
  | nil => simp
  | cons x xs ih =>
    intro c hc
    by_cases hx : p x = true
    · simp only [List.dropWhile, hx] at hc; exact ih c hc
    · simp only [List.dropWhile, hx] at hc
      simp only [List.head?_cons, Option.some.injEq] at hc
      subst hc; simpa using hx

theorem dropEndWhileList_last_not {p : Char → Bool} (l : List Char) :
    ∀ c, (dropEndWhileList p l).getLast? = some c → p c = false := by
  intro c hc
  unfold dropEndWhileList at hc
  rw [List.getLast?_reverse] at hc
  exact dropWhile_head_not _ c hc

theorem dropWhile_suffix' {p : Char → Bool} (l : List Char) : ∃ a, l = a ++ l.dropWhile p := by
  induction l with
  | nil => exact ⟨[], rfl⟩
  | cons x xs ih =>
    by_cases hx : p x = true
    · obtain ⟨a, ha⟩ := ih
      refine ⟨x :: a, ?_⟩
      simp only [List.dropWhile, hx, List.cons_append]
      rw [← ha]
    · exact ⟨[], by simp [List.dropWhile, hx]⟩

theorem dropEndWhileList_prefix {p : Char → Bool} (l : List Char) : ∃ b, l = dropEndWhileList p l ++ b := by
  obtain ⟨a, ha⟩ := dropWhile_suffix' (p := p) l.reverse
  refine ⟨a.reverse, ?_⟩
  unfold dropEndWhileList
  rw [← List.reverse_append, ← ha, List.reverse_reverse]

/-- the trimmed text is trimmed (or empty) -/
theorem trimmed_trimList (l : List Char) : Trimmed (trimList l) := by
  refine ⟨?_, dropEndWhileList_last_not _⟩
  intro c hc
  unfold trimList at hc
  obtain ⟨b, hb⟩ := dropEndWhileList_prefix (p := Char.isWhitespace) (l.dropWhile Char.isWhitespace)
  have hhead := dropWhile_head_not (p := Char.isWhitespace) l
  cases hd : dropEndWhileList Char.isWhitespace (l.dropWhile Char.isWhitespace) with
  | nil => rw [hd] at hc; simp at hc
  | cons x xs =>
    rw [hd] at hc hb
    simp only [List.head?_cons, Option.some.injEq] at hc
    subst hc
    exact hhead x (by rw [hb]; rfl)

theorem trimList_idem (l : List Char) : trimList (trimList l) = trimList l :=
  trimList_of_trimmed (trimmed_trimList l)

theorem trimAscii_idem (s : String) : s.trimAscii.toString.trimAscii.toString = s.trimAscii.toString := by
  apply String.ext
  rw [toList_trimAscii, toList_trimAscii, trimList_idem]

theorem trimList_nil : trimList [] = [] := rfl

/-! ## trimming at the right end only -/

theorem dropWhile_all_append {p : Char → Bool} (w l : List Char) (hw : ∀ c ∈ w, p c = true) :
    (w ++ l).dropWhile p = l.dropWhile p := by
  induction w with
  | nil => rfl
  | cons x xs ih =>
    simp only [List.cons_append, List.dropWhile, hw x (by simp)]
    exact ih (fun c hc => hw c (by simp [hc]))

theorem dropEndWhileList_append_all {p : Char → Bool} (a w : List Char) (hw : ∀ c ∈ w, p c = true) :
    dropEndWhileList p (a ++ w) = dropEndWhileList p a := by
  unfold dropEndWhileList
  rw [List.reverse_append, dropWhile_all_append _ _ (by simpa using hw)]

theorem dropWhile_split {p : Char → Bool} (l : List Char) :
    ∃ a, l = a ++ l.dropWhile p ∧ ∀ c ∈ a, p c = true := by
  induction l with
  | nil => exact ⟨[], rfl, by simp⟩
  | cons x xs ih =>
    by_cases hx : p x = true
    · obtain ⟨a, ha, hall⟩ := ih
      refine ⟨x :: a, ?_, ?_⟩
      · simp only [List.dropWhile, hx, List.cons_append]; rw [← ha]
      · intro c hc
        simp only [List.mem_cons] at hc
        rcases hc with rfl | hc
        · exact hx
        · exact hall c hc
    · exact ⟨[], by simp [List.dropWhile, hx], by simp⟩

theorem dropEndWhileList_split {p : Char → Bool} (l : List Char) :
    ∃ w, l = dropEndWhileList p l ++ w ∧ ∀ c ∈ w, p c = true := by
  obtain ⟨a, ha, hall⟩ := dropWhile_split (p := p) l.reverse
  refine ⟨a.reverse, ?_, by simpa using hall⟩
  unfold dropEndWhileList
  rw [← List.reverse_append, ← ha, List.reverse_reverse]

theorem dropEndWhileList_append {p : Char → Bool} (a b : List Char) :
    dropEndWhileList p (a ++ b)
      = if dropEndWhileList p b = [] then dropEndWhileList p a else a ++ dropEndWhileList p b := by
  obtain ⟨w, hw, hall⟩ := dropEndWhileList_split (p := p) b
  have hlast := dropEndWhileList_last_not (p := p) b
  generalize dropEndWhileList p b = m at hw hlast
  subst hw
  by_cases hm : m = []
  · subst hm
    simp only [List.nil_append, if_true]
    exact dropEndWhileList_append_all a w hall
  · simp only [hm, if_false]
    rw [← List.append_assoc]
    apply dropEndWhileList_append_of_all _ _ hall
    intro c hc
    rw [List.getLast?_append] at hc
    cases hl : m.getLast? with
    | none => exact absurd (List.getLast?_eq_none_iff.1 hl) hm
    | some d => rw [hl] at hc; simp at hc; subst hc; exact hlast d hl

/-- the text without its trailing white space -/
def rtrimList (l : List Char) : List Char := dropEndWhileList Char.isWhitespace l

theorem rtrimList_last (l : List Char) : ∀ c, (rtrimList l).getLast? = some c → c.isWhitespace = false :=
  dropEndWhileList_last_not l

theorem rtrimList_of_last {l : List Char} (h : ∀ c, l.getLast? = some c → c.isWhitespace = false) :
    rtrimList l = l := by
  unfold rtrimList
  simpa using dropEndWhileList_append_of_all (p := Char.isWhitespace) l [] (by simp) h

/-- trimming a text whose first character is no white space -/
theorem trimList_of_head {l : List Char} (h : ∀ c, l.head? = some c → c.isWhitespace = false) :
    trimList l = rtrimList l := by
  unfold trimList rtrimList
  have h1 : l.dropWhile Char.isWhitespace = l := by
    simpa using dropWhile_append_of_all (p := Char.isWhitespace) [] l (by simp) h
  rw [h1]

/-! ## `startsWith` / `endsWith` with a string pattern -/

theorem startsWith_iff (s pat : String) : s.startsWith pat = true ↔ pat.toList <+: s.toList :=
  String.startsWith_string_iff

theorem endsWith_iff (s pat : String) : s.endsWith pat = true ↔ pat.toList <:+ s.toList := by
  show s.toSlice.endsWith pat = true ↔ _
  rw [Slice.endsWith_string_iff, String.copy_toSlice]

theorem startsWith_eq_decide (s pat : String) : s.startsWith pat = decide (pat.toList <+: s.toList) := by
  rw [Bool.eq_iff_iff, startsWith_iff]; simp

theorem endsWith_eq_decide (s pat : String) : s.endsWith pat = decide (pat.toList <:+ s.toList) := by
  rw [Bool.eq_iff_iff, endsWith_iff]; simp

/-- `endsWith` with a one-character pattern -/
theorem endsWith_singleton_iff (s : String) (c : Char) :
    s.endsWith (String.singleton c) = true ↔ s.toList.getLast? = some c := by
  rw [endsWith_iff, String.toList_singleton]
  constructor
  · rintro ⟨t, ht⟩; rw [← ht]; simp
  · intro h
    obtain ⟨t, ht⟩ : ∃ t, s.toList = t ++ [c] := by
      cases hl : s.toList.reverse with
      | nil => rw [List.reverse_eq_nil_iff] at hl; rw [hl] at h; simp at h
      | cons x xs =>
        have : s.toList = xs.reverse ++ [x] := by
          rw [← List.reverse_reverse s.toList, hl]; simp
        rw [this] at h
        simp at h
        exact ⟨xs.reverse, by rw [this, h]⟩
    exact ⟨t, ht.symm⟩

/-! ## `drop` / `dropEnd` -/

theorem toList_drop (s : String) (n : Nat) : (s.drop n).toString.toList = s.toList.drop n :=
  String.toList_copy_drop

theorem toList_dropEnd (s : String) (n : Nat) :
    (s.dropEnd n).toString.toList = s.toList.take (s.toList.length - n) :=
  String.toList_copy_dropEnd

/-- `((s.drop m).dropEnd n).toString` as the loader writes it (`dropEnd` on the slice) -/
theorem toList_drop_dropEnd (s : String) (m n : Nat) :
    ((s.drop m).dropEnd n).toString.toList = (s.toList.drop m).take ((s.toList.drop m).length - n) := by
  show ((s.drop m).dropEnd n).copy.toList = _
  rw [Slice.toList_copy_dropEnd, String.toList_copy_drop]

theorem take_length_sub_one_append (a : List Char) (c : Char) :
    (a ++ [c]).take ((a ++ [c]).length - 1) = a := by
  simp

/-! ## `isEmpty` -/

theorem isEmpty_iff_toList (s : String) : s.isEmpty = true ↔ s.toList = [] := by
  rw [String.isEmpty_iff, String.toList_eq_nil_iff]

theorem isEmpty_ofList (l : List Char) : (String.ofList l).isEmpty = l.isEmpty := by
  rw [Bool.eq_iff_iff, isEmpty_iff_toList, String.toList_ofList]; simp

/-! ## `toNat?` -/

/-- `String.Slice.isNat` on a list of characters: digits, single `_` separators between digits -/
def isNatList : List Char → Bool → Bool
  | [], last => last
  | c :: cs, last =>
    if c = '_' then (if !last then false else isNatList cs false)
    else if c.isDigit then isNatList cs true
    else false

def natOfList (l : List Char) : Nat :=
  l.foldl (fun n c => if c = '_' then n else n * 10 + (c.toNat - '0'.toNat)) 0

def isNatLoop : List Char → Bool → Option Bool × Bool
  | [], last => (none, last)
  | c :: cs, last =>
    if c = '_' then (if !last then (some false, last) else isNatLoop cs false)
    else if c.isDigit then isNatLoop cs true
    else (some false, last)

theorem isNatLoop_forIn (l : List Char) (last : Bool) :
    (forIn (m := Id) l ((none : Option Bool), last) fun c __s =>
        have lastWasDigit := __s.snd;
        if c = '_' then
          if (!lastWasDigit) = true then pure (ForInStep.done (some false, lastWasDigit))
          else
            have lastWasDigit := false;
            pure (ForInStep.yield (none, lastWasDigit))
        else
          if c.isDigit = true then
            have lastWasDigit := true;
            pure (ForInStep.yield (none, lastWasDigit))
          else pure (ForInStep.done (some false, lastWasDigit)))
      = pure (isNatLoop l last) := by
  induction l generalizing last with
  | nil => rfl
  | cons c cs ih =>
    rw [List.forIn_cons]
    by_cases hc : c = '_'
    · cases last
      · simp [hc, isNatLoop]
      · simp only [hc, isNatLoop, if_true, Bool.not_true, Bool.false_eq_true, if_false]
        exact ih false
    · by_cases hd : c.isDigit = true
      · simp only [hc, hd, isNatLoop, if_true, if_false]
        exact ih true
      · simp [hc, hd, isNatLoop]

theorem isNatLoop_final (l : List Char) (last : Bool) :
    (match (isNatLoop l last).1 with | some r => r | none => (isNatLoop l last).2) = isNatList l last := by
  induction l generalizing last with
  | nil => rfl
  | cons c cs ih =>
    unfold isNatLoop isNatList
    by_cases hc : c = '_'
    · cases last
      · simp [hc]
      · simp only [hc, if_true, Bool.not_true, Bool.false_eq_true, if_false]; exact ih false
    · by_cases hd : c.isDigit = true
      · simp only [hc, hd, if_true, if_false]; exact ih true
      · simp [hc, hd]

theorem isNat_eq (s : Slice) : s.isNat = isNatList s.copy.toList false := by
  unfold Slice.isNat
  simp only [Slice.forIn_eq_forIn_toList]
  rw [← isNatLoop_final]
  have := isNatLoop_forIn s.copy.toList false
  simp only [this]
  generalize isNatLoop s.copy.toList false = r
  obtain ⟨a, b⟩ := r
  cases a <;> rfl

theorem toNat?_eq (s : String) :
    s.toNat? = if isNatList s.toList false then some (natOfList s.toList) else none := by
  show s.toSlice.toNat? = _
  unfold Slice.toNat?
  rw [isNat_eq, Slice.foldl_eq_foldl_toList, String.copy_toSlice]
  rfl

theorem isNatList_digits (l : List Char) (h : ∀ c ∈ l, c.isDigit = true) (last : Bool) :
    isNatList l last = (last || !l.isEmpty) := by
  induction l generalizing last with
  | nil => simp [isNatList]
  | cons c cs ih =>
    have hc : c.isDigit = true := h c (by simp)
    have hu : c ≠ '_' := by intro e; subst e; revert hc; decide
    unfold isNatList
    simp only [hu, hc, if_true, if_false]
    rw [ih (fun x hx => h x (by simp [hx]))]; simp

theorem foldl_digits (l : List Char) (h : ∀ c ∈ l, c.isDigit = true) (init : Nat) :
    l.foldl (fun n c => if c = '_' then n else n * 10 + (c.toNat - '0'.toNat)) init
      = Nat.ofDigitChars 10 l init := by
  unfold Nat.ofDigitChars
  induction l generalizing init with
  | nil => rfl
  | cons c cs ih =>
    have hc : c.isDigit = true := h c (by simp)
    have hu : c ≠ '_' := by intro e; subst e; revert hc; decide
    simp only [List.foldl_cons, hu, if_false]
    rw [ih (fun x hx => h x (by simp [hx])), Nat.mul_comm]

theorem natOfList_digits (l : List Char) (h : ∀ c ∈ l, c.isDigit = true) :
    natOfList l = Nat.ofDigitChars 10 l 0 := foldl_digits l h 0

theorem toNat?_toDigits (n : Nat) : (String.ofList (Nat.toDigits 10 n)).toNat? = some n := by
  have hd : ∀ c ∈ Nat.toDigits 10 n, c.isDigit = true :=
    fun _ hc => Nat.isDigit_of_mem_toDigits (by decide) (by decide) hc
  rw [toNat?_eq, String.toList_ofList, isNatList_digits _ hd, natOfList_digits _ hd,
    Nat.ofDigitChars_ten_toDigits]
  have hne : Nat.toDigits 10 n ≠ [] := Nat.toDigits_ne_nil
  cases h : Nat.toDigits 10 n with
  | nil => exact absurd h hne
  | cons _ _ => rfl

theorem toNat?_repr (n : Nat) : (Nat.repr n).toNat? = some n := by
  have : Nat.repr n = String.ofList (Nat.toDigits 10 n) := by
    apply String.ext; rw [Nat.toList_repr, String.toList_ofList]
  rw [this, toNat?_toDigits]

/-- a text whose first character is neither a digit nor `_`... is no numeral: first char not a digit -/
theorem toNat?_none_of_head {l : List Char} (c : Char) (cs : List Char) (hl : l = c :: cs)
    (hc : c.isDigit = false) : (String.ofList l).toNat? = none := by
  subst hl
  rw [toNat?_eq, String.toList_ofList]
  unfold isNatList
  by_cases hu : c = '_'
  · simp [hu]
  · simp [hu, hc]

theorem toNat?_empty : ("" : String).toNat? = none := by
  rw [toNat?_eq]; rfl

/-! ## splitting at blanks / colons, joining with blanks -/

theorem space_eq : " " = String.singleton ' ' := rfl
theorem colon_eq : ":" = String.singleton ':' := rfl

theorem splitOn_space (s : String) : s.splitOn " " = (splitList ' ' s.toList).map String.ofList := by
  rw [space_eq, splitOn_singleton]

theorem splitOn_colon (s : String) : s.splitOn ":" = (splitList ':' s.toList).map String.ofList := by
  rw [colon_eq, splitOn_singleton]

theorem splitAux_ne_nil (c : Char) (cur l : List Char) : splitAux c cur l ≠ [] := by
  induction l generalizing cur with
  | nil => simp [splitAux]
  | cons x xs ih =>
    unfold splitAux
    split
    · simp
    · exact ih _

theorem splitList_ne_nil (c : Char) (l : List Char) : splitList c l ≠ [] := splitAux_ne_nil c [] l

theorem splitAux_cur (c : Char) (cur l : List Char) :
    ∃ p ps, splitAux c [] l = p :: ps ∧ splitAux c cur l = (cur ++ p) :: ps := by
  induction l generalizing cur with
  | nil => exact ⟨[], [], rfl, by simp [splitAux]⟩
  | cons x xs ih =>
    by_cases hx : x = c
    · exact ⟨[], splitAux c [] xs, by simp [splitAux, hx], by simp [splitAux, hx]⟩
    · obtain ⟨p, ps, h1, h2⟩ := ih [x]
      obtain ⟨p', ps', h1', h2'⟩ := ih (cur ++ [x])
      rw [h1] at h1'
      cases h1'
      exact ⟨[x] ++ p, ps, by simp [splitAux, hx, h2], by simp [splitAux, hx, h2']⟩

/-- first piece separator-free: it is the first piece -/
theorem splitList_append_sep (c : Char) (a rest : List Char) (ha : c ∉ a) :
    splitList c (a ++ c :: rest) = a :: splitList c rest := by
  unfold splitList
  rw [splitAux_sep c [] a rest ha]; rfl

theorem splitList_of_not_mem (c : Char) (a : List Char) (ha : c ∉ a) : splitList c a = [a] := by
  unfold splitList
  rw [splitAux_of_not_mem c [] a ha]; rfl

/-- the pieces of `a ++ c :: b` are the pieces of `a` followed by the pieces of `b` (EVERY `a`) -/
theorem splitList_append_sep' (c : Char) (a b : List Char) :
    splitList c (a ++ c :: b) = splitList c a ++ splitList c b := by
  unfold splitList
  suffices h : ∀ cur, splitAux c cur (a ++ c :: b) = splitAux c cur a ++ splitAux c [] b from h []
  induction a with
  | nil => intro cur; simp [splitAux]
  | cons x xs ih =>
    intro cur
    by_cases hx : x = c
    · simp [splitAux, hx, ih []]
    · simp [splitAux, hx, ih (cur ++ [x])]

/-- joining the pieces with the separator gives the text back -/
theorem intercalate_splitList (c : Char) (l : List Char) : [c].intercalate (splitList c l) = l := by
  unfold splitList
  suffices h : ∀ cur, [c].intercalate (splitAux c cur l) = cur ++ l by simpa using h []
  induction l with
  | nil => intro cur; simp [splitAux, intercalate_singleton']
  | cons x xs ih =>
    intro cur
    by_cases hx : x = c
    · simp only [splitAux, hx, if_true]
      obtain ⟨p, ps, hp, _⟩ := splitAux_cur c [] xs
      rw [hp, intercalate_cons_cons', ← hp, ih []]; simp
    · simp only [splitAux, hx, if_false]
      rw [ih]; simp

theorem intercalate_space (ls : List String) :
    (" ".intercalate ls).toList = [' '].intercalate (ls.map String.toList) := by
  rw [String.toList_intercalate]; rfl

/-- `" ".intercalate` of the pieces of a text split at blanks -/
theorem intercalate_space_splitList (l : List Char) :
    " ".intercalate ((splitList ' ' l).map String.ofList) = String.ofList l := by
  apply String.ext
  rw [intercalate_space, List.map_map]
  have : (String.toList ∘ String.ofList) = id := by funext x; simp
  rw [this, List.map_id, intercalate_splitList, String.toList_ofList]

theorem intercalate_colon_splitList (l : List Char) :
    ":".intercalate ((splitList ':' l).map String.ofList) = String.ofList l := by
  apply String.ext
  rw [String.toList_intercalate, List.map_map]
  have : (String.toList ∘ String.ofList) = id := by funext x; simp
  rw [this, List.map_id]
  exact (intercalate_splitList ':' l).trans String.toList_ofList.symm

/-- pieces of a text split at a separator do not contain it -/
theorem not_mem_of_mem_splitAux (c : Char) (cur l : List Char) (hcur : c ∉ cur) :
    ∀ p ∈ splitAux c cur l, c ∉ p := by
  induction l generalizing cur with
  | nil => intro p hp; simp [splitAux] at hp; subst hp; exact hcur
  | cons x xs ih =>
    intro p hp
    by_cases hx : x = c
    · simp only [splitAux, hx, if_true, List.mem_cons] at hp
      rcases hp with rfl | hp
      · exact hcur
      · exact ih [] (by simp) p hp
    · simp only [splitAux, hx, if_false] at hp
      exact ih (cur ++ [x]) (by simp [hcur]; exact fun e => hx e.symm) p hp

theorem not_mem_of_mem_splitList (c : Char) (l : List Char) : ∀ p ∈ splitList c l, c ∉ p :=
  not_mem_of_mem_splitAux c [] l (by simp)

end Scc.Str
