/-
  Scc.Core.ProofsAlphaSimB — the ς-machine is invariant under α-equivalence: relation between two
  states of the ς-machine (on two definition-wise α-equivalent programs) whose statements have the
  same nameless form relative to the key lists of their environments, and whose values are related
  pointwise (closures by the same relation).  Values, lookups, clause selection.
-/
import Scc.Core.ProofsAlphaSimA
import Scc.Core.ProofsFocusSimA

namespace Scc.Core
namespace AlphaSim

open FocusSim (keys SigLt keys_nil keys_cons)

structure CodeA (k : Nat) (sc1 : List Ident) (s1 : Stmt) (sc2 : List Ident) (s2 : Stmt) : Prop where
  db : dbS sc1 s1 = dbS sc2 s2
  sig1 : SigLt k s1.idents
  sig2 : SigLt k s2.idents

structure CodeAC (k : Nat) (sc1 : List Ident) (c1 : Clauses) (sc2 : List Ident) (c2 : Clauses) :
    Prop where
  db : dbC sc1 c1 = dbC sc2 c2
  sig1 : SigLt k c1.idents
  sig2 : SigLt k c2.idents

theorem CodeA.mono {k k' sc1 s1 sc2 s2} (h : CodeA k sc1 s1 sc2 s2) (hk : k ≤ k') :
    CodeA k' sc1 s1 sc2 s2 := ⟨h.db, h.sig1.mono hk, h.sig2.mono hk⟩
theorem CodeAC.mono {k k' sc1 s1 sc2 s2} (h : CodeAC k sc1 s1 sc2 s2) (hk : k ≤ k') :
    CodeAC k' sc1 s1 sc2 s2 := ⟨h.db, h.sig1.mono hk, h.sig2.mono hk⟩

mutual
  inductive VA (k : Nat) : CVal → CVal → Prop
    | int (n) : VA k (.int n) (.int n)
    | con (c) {vs vs'} : VsA k vs vs' → VA k (.con c vs) (.con c vs')
    | cocase {ρ ρ' cl cl'} : EA k ρ ρ' → CodeAC k (keys ρ) cl (keys ρ') cl' →
        VA k (.cocase ρ cl) (.cocase ρ' cl')
    | thunk {ρ ρ' a a' s s'} : EA k ρ ρ' → CodeA k (a :: keys ρ) s (a' :: keys ρ') s' →
        VA k (.thunk ρ a s) (.thunk ρ' a' s')
    | dtor (d) {vs vs'} : VsA k vs vs' → VA k (.dtor d vs) (.dtor d vs')
    | case {ρ ρ' cl cl'} : EA k ρ ρ' → CodeAC k (keys ρ) cl (keys ρ') cl' →
        VA k (.case ρ cl) (.case ρ' cl')
    | mutilde {ρ ρ' x x' s s'} : EA k ρ ρ' → CodeA k (x :: keys ρ) s (x' :: keys ρ') s' →
        VA k (.mutilde ρ x s) (.mutilde ρ' x' s')
    | halt : VA k .halt .halt
  inductive VsA (k : Nat) : List CVal → List CVal → Prop
    | nil : VsA k [] []
    | cons {v v' vs vs'} : VA k v v' → VsA k vs vs' → VsA k (v :: vs) (v' :: vs')
  inductive EA (k : Nat) : CEnv → CEnv → Prop
    | nil : EA k [] []
    | cons (x x') {v v' ρ ρ'} : VA k v v' → EA k ρ ρ' → EA k ((x, v) :: ρ) ((x', v') :: ρ')
end

mutual
  theorem VA.mono {k k' : Nat} (hk : k ≤ k') : ∀ {v w}, VA k v w → VA k' v w
    | _, _, .int n => .int n
    | _, _, .con c h => .con c (VsA.mono hk h)
    | _, _, .cocase he hc => .cocase (EA.mono hk he) (hc.mono hk)
    | _, _, .thunk he hc => .thunk (EA.mono hk he) (hc.mono hk)
    | _, _, .dtor d h => .dtor d (VsA.mono hk h)
    | _, _, .case he hc => .case (EA.mono hk he) (hc.mono hk)
    | _, _, .mutilde he hc => .mutilde (EA.mono hk he) (hc.mono hk)
    | _, _, .halt => .halt
  theorem VsA.mono {k k' : Nat} (hk : k ≤ k') : ∀ {v w}, VsA k v w → VsA k' v w
    | _, _, .nil => .nil
    | _, _, .cons h1 h2 => .cons (VA.mono hk h1) (VsA.mono hk h2)
  theorem EA.mono {k k' : Nat} (hk : k ≤ k') : ∀ {v w}, EA k v w → EA k' v w
    | _, _, .nil => .nil
    | _, _, .cons x x' h1 h2 => .cons x x' (VA.mono hk h1) (EA.mono hk h2)
end

/-! ## lookups -/

theorem lookup_rel {k : Nat} {ρ ρ' : CEnv} (h : EA k ρ ρ') {x x' : Ident}
    (hv : dbVar (keys ρ) x = dbVar (keys ρ') x') :
    ExRel (VA k) (ρ.lookup x) (ρ'.lookup x') := by
  induction ρ generalizing ρ' with
  | nil =>
    cases h
    simp only [keys_nil, dbVar, DVar.free.injEq] at hv
    simp [Env.lookup, ExRel, hv]
  | cons e r ih =>
    cases h with
    | cons y y' hval hr =>
      simp only [keys_cons, dbVar] at hv
      simp only [Env.lookup]
      by_cases h1 : y = x <;> by_cases h2 : y' = x' <;>
        simp only [h1, h2, if_true, if_false] at hv ⊢
      · exact hval
      · exact absurd hv.symm (FocusSim.DVar.shift_ne_zero _)
      · exact absurd hv (FocusSim.DVar.shift_ne_zero _)
      · exact ih hr (FocusSim.DVar.shift_inj hv)

theorem lookupInt_rel {k : Nat} {ρ ρ' : CEnv} (h : EA k ρ ρ') {x x' : Ident}
    (hv : dbVar (keys ρ) x = dbVar (keys ρ') x') : ρ.lookupInt x = ρ'.lookupInt x' := by
  have := lookup_rel h hv
  unfold Env.lookupInt
  cases h1 : ρ.lookup x <;> cases h2 : ρ'.lookup x' <;> simp only [h1, h2, ExRel] at this
  · simp [this]
  · cases this <;> rfl

theorem argVals_nonvar (ρ : CEnv) (pc : PC) (t : Term) (r : Args) (h : t.isVar = false) :
    argVals ρ (.cons pc t r) = .error .shape := by
  cases t <;> simp [Term.isVar] at h <;> rfl

theorem isVar_alpha {sc1 sc2 : List Ident} {t1 t2 : Term} (h : dbT sc1 t1 = dbT sc2 t2) :
    t1.isVar = t2.isVar := by
  rw [← dbT_isVar sc1 t1, ← dbT_isVar sc2 t2, h]

theorem argVals_rel {k : Nat} {ρ ρ' : CEnv} (h : EA k ρ ρ') :
    (as : Args) → ∀ as' : Args, dbA (keys ρ) as = dbA (keys ρ') as' →
      ExRel (VsA k) (argVals ρ as) (argVals ρ' as')
  | .nil, as', hA => by
    simp only [dbA] at hA
    obtain rfl := dbA_eq_nil hA.symm
    simp [argVals, ExRel, VsA.nil]
  | .cons pc t r, as', hA => by
    simp only [dbA] at hA
    obtain ⟨t', r', rfl, ht, hr⟩ := dbA_eq_cons hA.symm
    have hiv := isVar_alpha ht
    by_cases hv : t.isVar = true
    · obtain ⟨p, v, ty, rfl⟩ := Term.isVar_eq hv
      obtain ⟨p', v', ty', rfl⟩ := Term.isVar_eq (hiv ▸ hv)
      simp only [dbT, DTerm.var.injEq] at ht
      have hb := lookup_rel h ht.2.symm
      have ih := argVals_rel h r r' hr.symm
      simp only [argVals]
      cases h1 : ρ.lookup v <;> cases h2 : ρ'.lookup v' <;> simp only [h1, h2, ExRel] at hb
      · simp [ExRel, hb]
      · cases h3 : argVals ρ r <;> cases h4 : argVals ρ' r' <;> simp only [h3, h4, ExRel] at ih
        · simpa [ExRel] using ih
        · exact VsA.cons hb ih
    · have hv1 : t.isVar = false := by simpa using hv
      have hv2 : t'.isVar = false := by rw [hiv, hv1]
      rw [argVals_nonvar ρ pc t r hv1, argVals_nonvar ρ' pc t' r' (by rw [← hv2, hiv])]
      simp [ExRel]

theorem bind_rel {k : Nat} {ρ ρ' : CEnv} (h : EA k ρ ρ') :
    ∀ (ctx ctx' : Ctx) {vs vs'}, ctx.length = ctx'.length → VsA k vs vs' →
      ExRel (fun e e' => EA k e e' ∧ keys e = ctxVars ctx ++ keys ρ ∧
        keys e' = ctxVars ctx' ++ keys ρ') (ρ.bind ctx vs) (ρ'.bind ctx' vs')
  | [], [], vs, vs', _, hv => by
    cases hv <;> simp [Env.bind, ExRel, h, ctxVars]
  | [], _ :: _, _, _, hl, _ => by simp at hl
  | _ :: _, [], _, _, hl, _ => by simp at hl
  | b :: bs, b' :: bs', vs, vs', hl, hv => by
    cases hv with
    | nil => simp [Env.bind, ExRel]
    | cons hv1 hvs =>
      have := bind_rel h bs bs' (by simpa using hl) hvs
      simp only [Env.bind]
      cases h1 : Env.bind ρ bs _ <;> cases h2 : Env.bind ρ' bs' _ <;>
        simp only [h1, h2, ExRel] at this
      · simpa [ExRel] using this
      · simp only [ExRel, keys_cons, ctxVars, List.map_cons, List.cons_append]
        exact ⟨EA.cons _ _ hv1 this.1, by rw [this.2.1]; rfl, by rw [this.2.2]; rfl⟩

/-! ## values of terms -/

theorem prdVal_op_nonvar (ρ : CEnv) (a b : Term) (o : BinOp)
    (h : ¬ (a.isVar = true ∧ b.isVar = true)) : prdVal ρ (.op a o b) = .error .shape := by
  cases a <;> cases b <;> simp [Term.isVar] at h <;> rfl

theorem prdVal_rel {k : Nat} {ρ ρ' : CEnv} (he : EA k ρ ρ') {p p' : Term}
    (h : dbT (keys ρ) p = dbT (keys ρ') p') (hs : SigLt k p.idents) (hs' : SigLt k p'.idents) :
    ExRel (VA k) (prdVal ρ p) (prdVal ρ' p') := by
  cases p with
  | var pc v t' =>
    simp only [dbT] at h
    obtain ⟨v2, ty2, rfl, hv2⟩ := dbT_eq_var h.symm
    exact lookup_rel he hv2.symm
  | lit i =>
    simp only [dbT] at h
    obtain rfl := dbT_eq_lit h.symm
    simp [prdVal, ExRel, VA.int]
  | op a o b =>
    simp only [dbT] at h
    obtain ⟨a', b', rfl, ha, hb⟩ := dbT_eq_op h.symm
    have hia := isVar_alpha ha.symm
    have hib := isVar_alpha hb.symm
    by_cases hv : a.isVar = true ∧ b.isVar = true
    · obtain ⟨pa, va, ta, rfl⟩ := Term.isVar_eq hv.1
      obtain ⟨pb, vb, tb, rfl⟩ := Term.isVar_eq hv.2
      obtain ⟨pa', va', ta', rfl⟩ := Term.isVar_eq (hia ▸ hv.1)
      obtain ⟨pb', vb', tb', rfl⟩ := Term.isVar_eq (hib ▸ hv.2)
      simp only [dbT, DTerm.var.injEq] at ha hb
      simp only [prdVal, lookupInt_rel he ha.2.symm, lookupInt_rel he hb.2.symm]
      cases ρ'.lookupInt va' <;> cases ρ'.lookupInt vb' <;> simp only [ExRel]
      cases arith o _ _ <;> simp [VA.int]
    · have hv' : ¬ (a'.isVar = true ∧ b'.isVar = true) := by rw [← hia, ← hib]; exact hv
      rw [prdVal_op_nonvar ρ _ _ o hv, prdVal_op_nonvar ρ' _ _ o hv']
      simp [ExRel]
  | mu pc a t' s =>
    simp only [dbT] at h
    obtain ⟨a2, s2, rfl, hs2⟩ := dbT_eq_mu h.symm
    simp only [Term.idents, FocusSim.SigLt_cons] at hs hs'
    simp only [prdVal, ExRel]
    exact VA.thunk he ⟨hs2.symm, hs.2, hs'.2⟩
  | xtor pc name as t1 =>
    simp only [dbT] at h
    obtain ⟨as2, rfl, hA⟩ := dbT_eq_xtor h.symm
    have := argVals_rel he as as2 hA.symm
    simp only [prdVal]
    cases h1 : argVals ρ as <;> cases h2 : argVals ρ' as2 <;> simp only [h1, h2, ExRel] at this ⊢
    · exact this
    · exact VA.con name this
  | xcase pc t' cl =>
    simp only [dbT] at h
    obtain ⟨cl2, rfl, hc⟩ := dbT_eq_xcase h.symm
    simp only [Term.idents] at hs hs'
    simp only [prdVal, ExRel]
    exact VA.cocase he ⟨hc.symm, hs, hs'⟩

theorem cnsVal_rel {k : Nat} {ρ ρ' : CEnv} (he : EA k ρ ρ') {c c' : Term}
    (h : dbT (keys ρ) c = dbT (keys ρ') c') (hs : SigLt k c.idents) (hs' : SigLt k c'.idents) :
    ExRel (VA k) (cnsVal ρ c) (cnsVal ρ' c') := by
  cases c with
  | var pc v t' =>
    simp only [dbT] at h
    obtain ⟨v2, ty2, rfl, hv2⟩ := dbT_eq_var h.symm
    exact lookup_rel he hv2.symm
  | lit i =>
    simp only [dbT] at h
    obtain rfl := dbT_eq_lit h.symm
    simp [cnsVal, ExRel]
  | op a o b =>
    simp only [dbT] at h
    obtain ⟨a', b', rfl, -, -⟩ := dbT_eq_op h.symm
    simp [cnsVal, ExRel]
  | mu pc a t' s =>
    simp only [dbT] at h
    obtain ⟨a2, s2, rfl, hs2⟩ := dbT_eq_mu h.symm
    simp only [Term.idents, FocusSim.SigLt_cons] at hs hs'
    simp only [cnsVal, ExRel]
    exact VA.mutilde he ⟨hs2.symm, hs.2, hs'.2⟩
  | xtor pc name as t1 =>
    simp only [dbT] at h
    obtain ⟨as2, rfl, hA⟩ := dbT_eq_xtor h.symm
    have := argVals_rel he as as2 hA.symm
    simp only [cnsVal]
    cases h1 : argVals ρ as <;> cases h2 : argVals ρ' as2 <;> simp only [h1, h2, ExRel] at this ⊢
    · exact this
    · exact VA.dtor name this
  | xcase pc t' cl =>
    simp only [dbT] at h
    obtain ⟨cl2, rfl, hc⟩ := dbT_eq_xcase h.symm
    simp only [Term.idents] at hs hs'
    simp only [cnsVal, ExRel]
    exact VA.case he ⟨hc.symm, hs, hs'⟩

theorem mu_alpha_iff {sc sc' : List Ident} {p p' : Term} (h : dbT sc p = dbT sc' p') :
    (∃ pc a t s, p = .mu pc a t s) ↔ (∃ pc a t s, p' = .mu pc a t s) := by
  constructor
  · rintro ⟨pc, a, t, s, rfl⟩
    simp only [dbT] at h
    obtain ⟨a2, s2, rfl, -⟩ := dbT_eq_mu h.symm
    exact ⟨_, _, _, _, rfl⟩
  · rintro ⟨pc, a, t, s, rfl⟩
    simp only [dbT] at h
    obtain ⟨a2, s2, rfl, -⟩ := dbT_eq_mu h
    exact ⟨_, _, _, _, rfl⟩

/-! ## clause selection -/

theorem find_rel {k : Nat} {sc1 sc2 : List Ident} (x : Ident) :
    (cl cl2 : Clauses) → dbC sc1 cl = dbC sc2 cl2 → SigLt k cl.idents → SigLt k cl2.idents →
      (cl.find x = none ∧ cl2.find x = none) ∨
      ∃ ctx body ctx2 body2, cl.find x = some (ctx, body) ∧ cl2.find x = some (ctx2, body2) ∧
        ctx.length = ctx2.length ∧ CodeA k (ctxVars ctx ++ sc1) body (ctxVars ctx2 ++ sc2) body2
  | .nil, cl2, h, _, _ => by
    simp only [dbC] at h
    obtain rfl := dbC_eq_nil h.symm
    exact Or.inl ⟨rfl, rfl⟩
  | .cons x0 ctx b r, cl2, h, hs, hs' => by
    simp only [dbC] at h
    obtain ⟨ctx2, b2, r2, rfl, hsig, hb, hr⟩ := dbC_eq_cons h.symm
    simp only [Clauses.idents, FocusSim.SigLt_append] at hs hs'
    simp only [Clauses.find]
    by_cases hx : x0 = x
    · simp only [hx, if_true]
      exact Or.inr ⟨ctx, b, ctx2, b2, rfl, rfl, (ctxSig_length hsig).symm,
        ⟨hb.symm, hs.1.2, hs'.1.2⟩⟩
    · simp only [hx, if_false]
      exact find_rel x r r2 hr.symm hs.2 hs'.2

end AlphaSim
end Scc.Core
