/-
  Scc.Core.ProofsAlphaE — the functional induction proving `focusStmt_cong` (statements C1–C5 of
  ProofsAlphaD).
-/
import Scc.Core.ProofsAlphaD

namespace Scc.Core

theorem monoK_kOp2 {k : Cont} (hk : MonoK k) (b1 : Binding) (o : BinOp) : MonoK (kOp2 b1 o k) :=
  fun _ m => by have := hk ⟨xN m, .prd, .i64⟩ (m + 1); simp only [kOp2]; omega

theorem monoK_kCut3 (ty : Ty) (b1 : Binding) (o : BinOp) (c : Term) : MonoK (kCut3 ty b1 o c) :=
  fun _ m => focusTerm_le c m

theorem monoK_kIfc (srt : IfSort) (b1 : Binding) (t e : Stmt) : MonoK (kIfc srt b1 t e) :=
  fun _ m => by
    have := focusStmt_le t m; have := focusStmt_le e (focusStmt t m).2
    simp only [kIfc]; omega

theorem focus_cong_all :
    (∀ t n, C1 t n) ∧ (∀ cl n, C2 cl n) ∧ (∀ s n, C3 s n) ∧ (∀ t k n, C4 t k n) ∧
      (∀ as k n, C5 as k n) := by
  apply focusTerm.mutual_induct (motive_1 := C1) (motive_2 := C2) (motive_3 := C3)
    (motive_4 := C4) (motive_5 := C5)
  -- focusTerm: var
  · intro pc v ty n sc sc' t' n' h hf hf'
    simp only [dbT] at h
    obtain ⟨v', ty', rfl, hv⟩ := dbT_eq_var h.symm
    simp only [focusTerm, FsTerm.embed, dbT, hv]
  -- lit
  · intro i n sc sc' t' n' h hf hf'
    simp only [dbT] at h
    obtain rfl := dbT_eq_lit h.symm
    rfl
  -- op
  · intro a o b n sc sc' t' n' h hf hf'
    simp only [dbT] at h
    obtain ⟨a', b', rfl, -, -⟩ := dbT_eq_op h.symm
    simp only [focusTerm, panicTerm, FsTerm.embed, dbT]
  -- mu
  · intro pc v ty s n s' n1 heq ih sc sc' t' n' h hf hf'
    simp only [dbT] at h
    obtain ⟨v', s2, rfl, hs⟩ := dbT_eq_mu h.symm
    simp only [Term.idents, FreshL_cons] at hf hf'
    rw [focusTerm_mu_eq, focusTerm_mu_eq]
    simp only [FsTerm.embed, dbT]
    rw [ih (v :: sc) (v' :: sc') s2 n' hs.symm hf.2 hf'.2]
  -- xtor
  · intro pc name as ty n sc sc' t' n' h hf hf'
    simp only [dbT] at h
    obtain ⟨as', rfl, -⟩ := dbT_eq_xtor h.symm
    simp only [focusTerm, panicTerm, FsTerm.embed, dbT]
  -- xcase
  · intro pc ty cl n cl' n1 heq ih sc sc' t' n' h hf hf'
    simp only [dbT] at h
    obtain ⟨cl2, rfl, hc⟩ := dbT_eq_xcase h.symm
    simp only [Term.idents] at hf hf'
    rw [focusTerm_xcase_eq, focusTerm_xcase_eq]
    simp only [FsTerm.embed, dbT]
    rw [ih sc sc' cl2 n' hc.symm hf hf']
  -- bindTerm: var
  · intro pc v ty k n sc sc' t' k' n' h hf hf' hk
    simp only [dbT] at h
    obtain ⟨v', ty', rfl, hv⟩ := dbT_eq_var h.symm
    simp only [Term.idents, FreshL_cons] at hf hf'
    have := hk.cong [] [] ⟨v, pc, ty⟩ ⟨v', pc, ty'⟩ n n' (Nat.le_refl _) (Nat.le_refl _) rfl
      (ExtOK.nil _ _) (ExtOK.nil _ _) rfl hf.1 hf'.1 (by simpa using hv.symm)
    simpa [bindTerm] using this
  -- lit
  · intro i k n x n1 hfresh r n2 hkeq sc sc' t' k' n' h hf hf' hk
    simp only [dbT] at h
    obtain rfl := dbT_eq_lit h.symm
    rw [bindTerm_lit_eq, bindTerm_lit_eq]
    simp only [FsStmt.embed, FsTerm.embed, dbS, dbT]
    have e := hk.underX (ext := []) (ext' := []) (j := n) (j' := n') (m := n + 1) (m' := n' + 1)
      (Nat.le_refl _) (Nat.le_refl _) (by omega) (by omega) rfl (ExtOK.nil _ _) (ExtOK.nil _ _)
      .i64 .i64
    simp only [List.nil_append] at e
    rw [e]
  -- op
  · intro a o b k n ih1 ih2 sc sc' t' k' n' h hf hf' hk
    simp only [dbT] at h
    obtain ⟨a', b', rfl, ha, hb⟩ := dbT_eq_op h.symm
    simp only [Term.idents, FreshL_append] at hf hf'
    rw [bindTerm_op_eq, bindTerm_op_eq]
    exact ih2 sc sc' a' _ n' ha.symm hf.1 hf'.1
      (kcong_bind (K := fun b1 => kOp2 b1 o k) (K' := fun b1 => kOp2 b1 o k') ih1 hb.symm hf.2 hf'.2
        (fun b1 => monoK_kOp2 hk.mono b1 o) (fun b1 => monoK_kOp2 hk.mono' b1 o)
        (fun ext ext' b1 b1' m m' h h' hl he he' _ hg hg' hv =>
          kcong_op2 hk h h' hl he he' hg hg' hv o))
  -- mu prd
  · intro v ty s k n x n1 hfresh s' n2 hs r n3 hkeq ih sc sc' t' k' n' h hf hf' hk
    simp only [freshVar, freshIdentifier, Prod.mk.injEq] at hfresh
    obtain ⟨rfl, rfl⟩ := hfresh
    simp only [dbT] at h
    obtain ⟨v', s2, rfl, hs2⟩ := dbT_eq_mu h.symm
    simp only [Term.idents, FreshL_cons] at hf hf'
    rw [bindTerm_muP_eq, bindTerm_muP_eq]
    simp only [FsStmt.embed, FsTerm.embed, dbS, dbT]
    have := focusStmt_le s (n + 1)
    have := focusStmt_le s2 (n' + 1)
    have e := hk.underX (ext := []) (ext' := []) (j := n) (j' := n')
      (m := (focusStmt s (n + 1)).2) (m' := (focusStmt s2 (n' + 1)).2)
      (Nat.le_refl _) (Nat.le_refl _) (by omega) (by omega) rfl (ExtOK.nil _ _) (ExtOK.nil _ _)
      ty ty
    simp only [List.nil_append] at e
    rw [e, ih (v :: sc) (v' :: sc') s2 (n' + 1) hs2.symm (hf.2.mono (by omega))
      (hf'.2.mono (by omega))]
  -- mu cns
  · intro v ty s k n x n1 hfresh r n2 hkeq s' n3 hs ih sc sc' t' k' n' h hf hf' hk
    simp only [freshCovar, freshIdentifier, Prod.mk.injEq] at hfresh
    obtain ⟨rfl, rfl⟩ := hfresh
    have hn2 : (k ⟨aN n, .cns, ty⟩ (n + 1)).2 = n2 := congrArg Prod.snd hkeq
    rw [← hn2] at ih
    simp only [dbT] at h
    obtain ⟨v', s2, rfl, hs2⟩ := dbT_eq_mu h.symm
    simp only [Term.idents, FreshL_cons] at hf hf'
    rw [bindTerm_muC_eq, bindTerm_muC_eq]
    simp only [FsStmt.embed, FsTerm.embed, dbS, dbT]
    have := hk.mono ⟨aN n, .cns, ty⟩ (n + 1)
    have := hk.mono' ⟨aN n', .cns, ty⟩ (n' + 1)
    have e := hk.underA (ext := []) (ext' := []) (j := n) (j' := n')
      (m := n + 1) (m' := n' + 1)
      (Nat.le_refl _) (Nat.le_refl _) (by omega) (by omega) rfl (ExtOK.nil _ _) (ExtOK.nil _ _)
      ty ty
    simp only [List.nil_append] at e
    rw [e, ih (v :: sc) (v' :: sc') s2 (k' ⟨aN n', .cns, ty⟩ (n' + 1)).2 hs2.symm
      (hf.2.mono (by omega)) (hf'.2.mono (by omega))]
  -- xtor prd
  · intro name as ty k n ih sc sc' t' k' n' h hf hf' hk
    simp only [dbT] at h
    obtain ⟨as', rfl, hA⟩ := dbT_eq_xtor h.symm
    simp only [Term.idents] at hf hf'
    rw [bindTerm_xtorP_eq, bindTerm_xtorP_eq]
    exact ih sc sc' as' _ n' hA.symm hf hf' (kcong_xtorP hk name ty)
  -- xtor cns
  · intro name as ty k n ih sc sc' t' k' n' h hf hf' hk
    simp only [dbT] at h
    obtain ⟨as', rfl, hA⟩ := dbT_eq_xtor h.symm
    simp only [Term.idents] at hf hf'
    rw [bindTerm_xtorC_eq, bindTerm_xtorC_eq]
    exact ih sc sc' as' _ n' hA.symm hf hf' (kcong_xtorC hk name ty)
  -- xcase prd
  · intro ty cl k n x n1 hfresh r n2 hkeq cl' n3 hs ih sc sc' t' k' n' h hf hf' hk
    simp only [freshVar, freshIdentifier, Prod.mk.injEq] at hfresh
    obtain ⟨rfl, rfl⟩ := hfresh
    have hn2 : (k ⟨xN n, .prd, ty⟩ (n + 1)).2 = n2 := congrArg Prod.snd hkeq
    rw [← hn2] at ih
    simp only [dbT] at h
    obtain ⟨cl2, rfl, hc⟩ := dbT_eq_xcase h.symm
    simp only [Term.idents] at hf hf'
    rw [bindTerm_xcaseP_eq, bindTerm_xcaseP_eq]
    simp only [FsStmt.embed, FsTerm.embed, dbS, dbT]
    have := hk.mono ⟨xN n, .prd, ty⟩ (n + 1)
    have := hk.mono' ⟨xN n', .prd, ty⟩ (n' + 1)
    have e := hk.underX (ext := []) (ext' := []) (j := n) (j' := n')
      (m := n + 1) (m' := n' + 1)
      (Nat.le_refl _) (Nat.le_refl _) (by omega) (by omega) rfl (ExtOK.nil _ _) (ExtOK.nil _ _)
      ty ty
    simp only [List.nil_append] at e
    rw [e, ih sc sc' cl2 (k' ⟨xN n', .prd, ty⟩ (n' + 1)).2 hc.symm
      (hf.mono (by omega)) (hf'.mono (by omega))]
  -- xcase cns
  · intro ty cl k n x n1 hfresh r n2 hkeq cl' n3 hs ih sc sc' t' k' n' h hf hf' hk
    simp only [freshCovar, freshIdentifier, Prod.mk.injEq] at hfresh
    obtain ⟨rfl, rfl⟩ := hfresh
    have hn2 : (k ⟨aN n, .cns, ty⟩ (n + 1)).2 = n2 := congrArg Prod.snd hkeq
    rw [← hn2] at ih
    simp only [dbT] at h
    obtain ⟨cl2, rfl, hc⟩ := dbT_eq_xcase h.symm
    simp only [Term.idents] at hf hf'
    rw [bindTerm_xcaseC_eq, bindTerm_xcaseC_eq]
    simp only [FsStmt.embed, FsTerm.embed, dbS, dbT]
    have := hk.mono ⟨aN n, .cns, ty⟩ (n + 1)
    have := hk.mono' ⟨aN n', .cns, ty⟩ (n' + 1)
    have e := hk.underA (ext := []) (ext' := []) (j := n) (j' := n')
      (m := n + 1) (m' := n' + 1)
      (Nat.le_refl _) (Nat.le_refl _) (by omega) (by omega) rfl (ExtOK.nil _ _) (ExtOK.nil _ _)
      ty ty
    simp only [List.nil_append] at e
    rw [e, ih sc sc' cl2 (k' ⟨aN n', .cns, ty⟩ (n' + 1)).2 hc.symm
      (hf.mono (by omega)) (hf'.mono (by omega))]
  -- bindMany: nil
  · intro k n sc sc' as' k' n' h hf hf' hk
    simp only [dbA] at h
    obtain rfl := dbA_eq_nil h.symm
    have := hk.cong [] [] [] [] n n' (Nat.le_refl _) (Nat.le_refl _) rfl
      (ExtOK.nil _ _) (ExtOK.nil _ _) (by simp) (by simp) (by simp [ctxToArgs, dbA])
    simpa [bindMany] using this
  -- cons
  · intro pc t r k n ih1 ih2 sc sc' as' k' n' h hf hf' hk
    simp only [dbA] at h
    obtain ⟨t', r', rfl, ht, hr⟩ := dbA_eq_cons h.symm
    simp only [Args.idents, FreshL_append] at hf hf'
    rw [bindMany_cons_eq, bindMany_cons_eq]
    exact ih2 sc sc' t' _ n' ht.symm hf.1 hf'.1 (kcong_many ih1 hr.symm hf.2 hf'.2 hk)
  -- focusClauses: nil
  · intro n sc sc' cl' n' h hf hf'
    simp only [dbC] at h
    obtain rfl := dbC_eq_nil h.symm
    rfl
  -- cons
  · intro x ctx b r n b' n1 hb r' n2 hr ihb ihr sc sc' cl' n' h hf hf'
    have hn1 : (focusStmt b n).2 = n1 := congrArg Prod.snd hb
    rw [← hn1] at ihr
    simp only [dbC] at h
    obtain ⟨ctx', b2, r2, rfl, hsig, hbody, hrest⟩ := dbC_eq_cons h.symm
    simp only [Clauses.idents, FreshL_append] at hf hf'
    rw [focusClauses_cons_eq, focusClauses_cons_eq]
    simp only [FsClauses.embed, dbC]
    have := focusStmt_le b n
    have := focusStmt_le b2 n'
    rw [hsig, ihb (ctxVars ctx ++ sc) (ctxVars ctx' ++ sc') b2 n' hbody.symm hf.1.2 hf'.1.2,
      ihr sc sc' r2 (focusStmt b2 n').2 hrest.symm (hf.2.mono (by omega)) (hf'.2.mono (by omega))]
  -- focusStmt: cut, constructor on the left
  · intro ty pc name as ty1 c n ihc ih5 sc sc' s' n' h hf hf'
    simp only [dbS, dbT] at h
    obtain ⟨p', c', rfl, hp, hc⟩ := dbS_eq_cut h.symm
    obtain ⟨as', rfl, hA⟩ := dbT_eq_xtor hp
    simp only [Stmt.idents, Term.idents, FreshL_append] at hf hf'
    rw [focusStmt_cut1_eq, focusStmt_cut1_eq]
    exact ih5 sc sc' as' _ n' hA.symm hf.1 hf'.1 (kcong_cut1 ihc hc.symm hf.2 hf'.2 ty pc name)
  -- cut, destructor on the right
  · intro ty p dpc name as ty1 n hnx ihp ih5 sc sc' s' n' h hf hf'
    simp only [dbS, dbT] at h
    obtain ⟨p', c', rfl, hp, hc⟩ := dbS_eq_cut h.symm
    obtain ⟨as', rfl, hA⟩ := dbT_eq_xtor hc
    have hnx' : ∀ pc name as ty, p' = .xtor pc name as ty → False := by
      intro pc name as0 ty0 e
      subst e
      simp only [dbT] at hp
      obtain ⟨as1, rfl, -⟩ := dbT_eq_xtor hp.symm
      exact hnx _ _ _ _ rfl
    simp only [Stmt.idents, Term.idents, FreshL_append] at hf hf'
    rw [focusStmt_cut2_eq _ _ _ _ _ _ _ hnx, focusStmt_cut2_eq _ _ _ _ _ _ _ hnx']
    exact ih5 sc sc' as' _ n' hA.symm hf.2 hf'.2 (kcong_cut2 ihp hp.symm hf.1 hf'.1 ty dpc name)
  -- cut, operator on the left
  · intro ty a o b c n hnx ihc ih1 ih2 sc sc' s' n' h hf hf'
    simp only [dbS, dbT] at h
    obtain ⟨p', c', rfl, hp, hc⟩ := dbS_eq_cut h.symm
    obtain ⟨a', b', rfl, ha, hb⟩ := dbT_eq_op hp
    have hnx' : ∀ dpc name as ty, c' = .xtor dpc name as ty → False := by
      intro pc name as0 ty0 e
      subst e
      simp only [dbT] at hc
      obtain ⟨as1, rfl, -⟩ := dbT_eq_xtor hc.symm
      exact hnx _ _ _ _ rfl
    simp only [Stmt.idents, Term.idents, FreshL_append] at hf hf'
    rw [focusStmt_cut3_eq _ _ _ _ _ _ hnx, focusStmt_cut3_eq _ _ _ _ _ _ hnx']
    exact ih2 sc sc' a' _ n' ha.symm hf.1.1 hf'.1.1
      (kcong_bind (K := fun b1 => kCut3 ty b1 o c) (K' := fun b1 => kCut3 ty b1 o c') ih1 hb.symm
        hf.1.2 hf'.1.2
        (fun b1 => monoK_kCut3 ty b1 o c) (fun b1 => monoK_kCut3 ty b1 o c')
        (fun ext ext' b1 b1' m m' h h' hl he he' _ hg hg' hv =>
          kcong_cut3 ihc hc.symm hf.2 hf'.2 ty o h h' hl he he' hg hg' hv))
  -- cut, the general case
  · intro ty p c n hnp hnc hnop p1 n1 hp1 c1 n2 hc1 ihp ihc sc sc' s' n' h hf hf'
    have hn1 : (focusTerm p n).2 = n1 := congrArg Prod.snd hp1
    rw [← hn1] at ihc
    simp only [dbS] at h
    obtain ⟨p', c', rfl, hp, hc⟩ := dbS_eq_cut h.symm
    have hnp' : ∀ pc name as ty, p' = .xtor pc name as ty → False := by
      intro pc name as0 ty0 e
      subst e
      simp only [dbT] at hp
      obtain ⟨as1, rfl, -⟩ := dbT_eq_xtor hp.symm
      exact hnp _ _ _ _ rfl
    have hnc' : ∀ dpc name as ty, c' = .xtor dpc name as ty → False := by
      intro pc name as0 ty0 e
      subst e
      simp only [dbT] at hc
      obtain ⟨as1, rfl, -⟩ := dbT_eq_xtor hc.symm
      exact hnc _ _ _ _ rfl
    have hnop' : ∀ a o b, p' = .op a o b → False := by
      intro a0 o0 b0 e
      subst e
      simp only [dbT] at hp
      obtain ⟨a1, b1, rfl, -, -⟩ := dbT_eq_op hp.symm
      exact hnop _ _ _ rfl
    simp only [Stmt.idents, FreshL_append] at hf hf'
    rw [focusStmt_cut4_eq _ _ _ _ hnp hnc hnop, focusStmt_cut4_eq _ _ _ _ hnp' hnc' hnop']
    simp only [FsStmt.embed, dbS]
    have := focusTerm_le p n
    have := focusTerm_le p' n'
    rw [ihp sc sc' p' n' hp.symm hf.1 hf'.1,
      ihc sc sc' c' (focusTerm p' n').2 hc.symm (hf.2.mono (by omega)) (hf'.2.mono (by omega))]
  -- ifc
  · intro srt a b t e n iht ihe ih1 ih2 sc sc' s' n' h hf hf'
    simp only [dbS] at h
    obtain ⟨a', b', t', e', rfl, ha, hb, ht, he⟩ := dbS_eq_ifc h.symm
    simp only [Stmt.idents, FreshL_append] at hf hf'
    rw [focusStmt_ifc_eq, focusStmt_ifc_eq]
    exact ih2 sc sc' a' _ n' ha.symm hf.1.1.1 hf'.1.1.1
      (kcong_bind (K := fun b1 => kIfc srt b1 t e) (K' := fun b1 => kIfc srt b1 t' e') ih1 hb.symm
        hf.1.1.2 hf'.1.1.2
        (fun b1 => monoK_kIfc srt b1 t e) (fun b1 => monoK_kIfc srt b1 t' e')
        (fun ext ext' b1 b1' m m' h h' hl hex hex' _ hg hg' hv =>
          kcong_ifc iht ihe ht.symm he.symm hf.1.2 hf'.1.2 hf.2 hf'.2 srt h h' hl hex hex' hg hg' hv))
  -- ifz
  · intro srt a t e n iht ihe ih1 sc sc' s' n' h hf hf'
    simp only [dbS] at h
    obtain ⟨a', t', e', rfl, ha, ht, he⟩ := dbS_eq_ifz h.symm
    simp only [Stmt.idents, FreshL_append] at hf hf'
    rw [focusStmt_ifz_eq, focusStmt_ifz_eq]
    exact ih1 sc sc' a' _ n' ha.symm hf.1.1 hf'.1.1
      (kcong_ifz iht ihe ht.symm he.symm hf.1.2 hf'.1.2 hf.2 hf'.2 srt)
  -- print
  · intro nl a nx n ihn ih1 sc sc' s' n' h hf hf'
    simp only [dbS] at h
    obtain ⟨a', nx', rfl, ha, hn⟩ := dbS_eq_print h.symm
    simp only [Stmt.idents, FreshL_append] at hf hf'
    rw [focusStmt_print_eq, focusStmt_print_eq]
    exact ih1 sc sc' a' _ n' ha.symm hf.1 hf'.1 (kcong_print ihn hn.symm hf.2 hf'.2 nl)
  -- call
  · intro f as ty n ih5 sc sc' s' n' h hf hf'
    simp only [dbS] at h
    obtain ⟨as', rfl, hA⟩ := dbS_eq_call h.symm
    simp only [Stmt.idents] at hf hf'
    rw [focusStmt_call_eq, focusStmt_call_eq]
    exact ih5 sc sc' as' _ n' hA.symm hf hf' (kcong_call f)
  -- exit
  · intro a ty n ih4 sc sc' s' n' h hf hf'
    simp only [dbS] at h
    obtain ⟨a', rfl, ha⟩ := dbS_eq_exit h.symm
    simp only [Stmt.idents] at hf hf'
    rw [focusStmt_exit_eq, focusStmt_exit_eq]
    exact ih4 sc sc' a' _ n' ha.symm hf hf' kcong_exit

/-- **focusing respects α-equivalence and does not depend on the name counter** -/
theorem focusStmt_cong {sc sc' : List Ident} {s s' : Stmt} {n n' : Nat}
    (h : dbS sc s = dbS sc' s') (hf : FreshL n s.idents) (hf' : FreshL n' s'.idents) :
    dbS sc (focusStmt s n).1.embed = dbS sc' (focusStmt s' n').1.embed :=
  focus_cong_all.2.2.1 s n sc sc' s' n' h hf hf'

theorem focusTerm_cong {sc sc' : List Ident} {t t' : Term} {n n' : Nat}
    (h : dbT sc t = dbT sc' t') (hf : FreshL n t.idents) (hf' : FreshL n' t'.idents) :
    dbT sc (focusTerm t n).1.embed = dbT sc' (focusTerm t' n').1.embed :=
  focus_cong_all.1 t n sc sc' t' n' h hf hf'

theorem focusClauses_cong {sc sc' : List Ident} {cl cl' : Clauses} {n n' : Nat}
    (h : dbC sc cl = dbC sc' cl') (hf : FreshL n cl.idents) (hf' : FreshL n' cl'.idents) :
    dbC sc (focusClauses cl n).1.embed = dbC sc' (focusClauses cl' n').1.embed :=
  focus_cong_all.2.1 cl n sc sc' cl' n' h hf hf'

theorem bindTerm_cong {sc sc' : List Ident} {t t' : Term} {k k' : Cont} {n n' : Nat}
    (h : dbT sc t = dbT sc' t') (hf : FreshL n t.idents) (hf' : FreshL n' t'.idents)
    (hk : KCong n n' sc sc' k k') :
    dbS sc (bindTerm t k n).1.embed = dbS sc' (bindTerm t' k' n').1.embed :=
  focus_cong_all.2.2.2.1 t k n sc sc' t' k' n' h hf hf' hk

theorem bindMany_cong {sc sc' : List Ident} {as as' : Args} {k k' : ContVec} {n n' : Nat}
    (h : dbA sc as = dbA sc' as') (hf : FreshL n as.idents) (hf' : FreshL n' as'.idents)
    (hk : KCongV n n' sc sc' k k') :
    dbS sc (bindMany as k n).1.embed = dbS sc' (bindMany as' k' n').1.embed :=
  focus_cong_all.2.2.2.2 as k n sc sc' as' k' n' h hf hf' hk

end Scc.Core
