/-
  Scc.Core.TypedNameless — proof file: Core typing (`Stmt.check`, Scc/Core/Typing.lean) and the strictness
  predicate (`Stmt.strict`, Scc/Core/TypedStrict.lean) as functions of the NAMELESS form `dbS`
  (Scc/Core/ProofsAlphaA.lean).
  * `DStmt.check E Δ` : the checker on nameless forms (a bound variable looks its chirality and type
    up in `Δ` by position, a free variable fails);
  * the nameless form drops the type annotation of variable OCCURRENCES, so it determines the check
    only up to `Stmt.annOk`: "every occurrence is annotated with the type its position expects"
    (context-free):       `s.check P Γ = ((dbS (ctxVars Γ) s).check P.denv (ctxSig Γ) && s.annOk P.denv)`
    (`stmt_check_split`);
  * the checkers depend on the program only through `Prog.denv` (type declarations, and per
    definition its name and the chiralities and types of its parameters);
  * `s.strict P = (dbS sc s).strict P` (`stmt_strict_db`).
-/
import Scc.Core.TypedStrict
import Scc.Core.ProofsAlphaA
import Scc.Core2AxCut.Proofs

namespace Scc.Core

/-! ## what the checkers use of a program -/

structure DEnv where
  data : List TypeDecl
  codata : List TypeDecl
  fsig : Ident → Option (List (PC × Ty))

def Prog.denv (P : Prog) : DEnv :=
  ⟨P.dataTypes, P.codataTypes,
    fun f => (P.defs.find? (fun d => d.name = f)).map (fun d => ctxSig d.ctx)⟩

/-! ## the checker on nameless forms -/

def DVar.lookup (Δ : List (PC × Ty)) : DVar → Option (PC × Ty)
  | .bound i => Δ[i]?
  | .free _ => none

mutual
  def DTerm.check (E : DEnv) (Δ : List (PC × Ty)) (pc : PC) (ty : Ty) : DTerm → Bool
    | .var pc' v =>
      pc' == pc &&
        (match v.lookup Δ with
         | some (c, t) => c == pc && t == ty
         | none => false)
    | .lit _ => pc == .prd && ty == .i64
    | .op a _ b => pc == .prd && ty == .i64 && a.check E Δ .prd .i64 && b.check E Δ .prd .i64
    | .mu pc' ty' s => pc' == pc && ty' == ty && s.check E ((pc.flip, ty) :: Δ)
    | .xtor pc' name as ty' =>
      pc' == pc && ty' == ty &&
        (match ty with
         | .i64 => false
         | .decl T =>
           match findDecl (if pc == .prd then E.data else E.codata) T with
           | none => false
           | some d =>
             match findSig d.xtors name with
             | none => false
             | some sig => as.check E Δ (ctxSig sig.args))
    | .xcase pc' ty' cl =>
      pc' == pc && ty' == ty &&
        (match ty with
         | .i64 => false
         | .decl T =>
           match findDecl (if pc == .prd then E.codata else E.data) T with
           | none => false
           | some d => cl.check E Δ d.xtors && cl.covers d.xtors)
  def DArgs.check (E : DEnv) (Δ : List (PC × Ty)) : DArgs → List (PC × Ty) → Bool
    | .nil, [] => true
    | .cons pc t r, b :: bs => pc == b.1 && t.check E Δ pc b.2 && r.check E Δ bs
    | _, _ => false
  def DClauses.check (E : DEnv) (Δ : List (PC × Ty)) : DClauses → List XtorSig → Bool
    | .nil, _ => true
    | .cons x sig b r, sigs =>
      (match findSig sigs x with
       | none => false
       | some s => decide (sig = ctxSig s.args)) &&
      b.check E (sig ++ Δ) && r.check E Δ sigs
  def DClauses.covers : DClauses → List XtorSig → Bool
    | _, [] => true
    | cl, s :: r => cl.has s.name && cl.covers r
  def DClauses.has : DClauses → Ident → Bool
    | .nil, _ => false
    | .cons x _ _ r, k => x == k || r.has k
  def DStmt.check (E : DEnv) (Δ : List (PC × Ty)) : DStmt → Bool
    | .cut ty p c => p.check E Δ .prd ty && c.check E Δ .cns ty
    | .ifc _ a b t e =>
      a.check E Δ .prd .i64 && b.check E Δ .prd .i64 && t.check E Δ && e.check E Δ
    | .ifz _ a t e => a.check E Δ .prd .i64 && t.check E Δ && e.check E Δ
    | .print _ a n => a.check E Δ .prd .i64 && n.check E Δ
    | .call f as _ =>
      (match E.fsig f with
       | none => false
       | some sig => as.check E Δ sig)
    | .exit a _ => a.check E Δ .prd .i64
end

/-! ## the annotations of variable occurrences -/

mutual
  /-- every variable occurrence carries the type expected at its position -/
  def Term.annOk (E : DEnv) (pc : PC) (ty : Ty) : Term → Bool
    | .var _ _ ty' => ty' == ty
    | .lit _ => true
    | .op a _ b => a.annOk E .prd .i64 && b.annOk E .prd .i64
    | .mu _ _ _ s => s.annOk E
    | .xtor _ name as _ =>
      (match ty with
       | .i64 => true
       | .decl T =>
         match findDecl (if pc == .prd then E.data else E.codata) T with
         | none => true
         | some d =>
           match findSig d.xtors name with
           | none => true
           | some sig => as.annOk E (ctxSig sig.args))
    | .xcase _ _ cl => cl.annOk E
  def Args.annOk (E : DEnv) : Args → List (PC × Ty) → Bool
    | .cons pc t r, b :: bs => t.annOk E pc b.2 && r.annOk E bs
    | _, _ => true
  def Clauses.annOk (E : DEnv) : Clauses → Bool
    | .nil => true
    | .cons _ _ b r => b.annOk E && r.annOk E
  def Stmt.annOk (E : DEnv) : Stmt → Bool
    | .cut ty p c => p.annOk E .prd ty && c.annOk E .cns ty
    | .ifc _ a b t e => a.annOk E .prd .i64 && b.annOk E .prd .i64 && t.annOk E && e.annOk E
    | .ifz _ a t e => a.annOk E .prd .i64 && t.annOk E && e.annOk E
    | .print _ a n => a.annOk E .prd .i64 && n.annOk E
    | .call f as _ =>
      (match E.fsig f with
       | none => true
       | some sig => as.annOk E sig)
    | .exit a _ => a.annOk E .prd .i64
end

/-! ## lookups -/

theorem DVar.lookup_shift1 (v : DVar) (s : PC × Ty) (Δ : List (PC × Ty)) :
    (v.shift 0 1).lookup (s :: Δ) = v.lookup Δ := by
  cases v with
  | free x => simp [DVar.shift, DVar.lookup]
  | bound i => simp [DVar.shift, DVar.lookup]

theorem lookup_dbVar : ∀ (Γ : Ctx) (v : Ident),
    (dbVar (ctxVars Γ) v).lookup (ctxSig Γ) = (lookupBinding Γ v).map fun b => (b.chi, b.ty)
  | [], v => by simp [ctxVars, dbVar, DVar.lookup, lookupBinding]
  | c :: r, v => by
    simp only [ctxVars, List.map_cons, dbVar, ctxSig, lookupBinding]
    split
    · simp [DVar.lookup]
    · rw [DVar.lookup_shift1]
      exact lookup_dbVar r v

theorem ctxMatches_true_iff : ∀ (a b : Ctx), ctxMatches a b = true ↔ ctxSig a = ctxSig b
  | [], [] => by simp [ctxMatches, ctxSig]
  | [], _ :: _ => by simp [ctxMatches, ctxSig]
  | _ :: _, [] => by simp [ctxMatches, ctxSig]
  | x :: as, y :: bs => by
    have ih := ctxMatches_true_iff as bs
    simp only [ctxSig] at ih
    simp only [ctxMatches, ctxSig, List.map_cons, List.cons.injEq, Prod.mk.injEq, Bool.and_eq_true,
      beq_iff_eq, ih, and_assoc]

theorem ctxMatches_iff (a b : Ctx) : ctxMatches a b = decide (ctxSig a = ctxSig b) := by
  rw [Bool.eq_iff_iff]
  simp [ctxMatches_true_iff]

theorem ctxSig_append (a b : Ctx) : ctxSig (a ++ b) = ctxSig a ++ ctxSig b := by simp [ctxSig]

theorem ctxVars_append' (a b : Ctx) : ctxVars (a ++ b) = ctxVars a ++ ctxVars b := by
  simp [ctxVars]

mutual
  theorem clauses_has_db (sc : List Ident) : (cl : Clauses) → ∀ k, (dbC sc cl).has k = cl.has k
    | .nil, k => by simp [dbC, DClauses.has, Clauses.has]
    | .cons x ctx b r, k => by simp [dbC, DClauses.has, Clauses.has, clauses_has_db sc r k]
end

theorem clauses_covers_db (sc : List Ident) (cl : Clauses) :
    ∀ sigs, (dbC sc cl).covers sigs = cl.covers sigs
  | [] => by simp [DClauses.covers, Clauses.covers]
  | s :: r => by
    simp [DClauses.covers, Clauses.covers, clauses_has_db sc cl, clauses_covers_db sc cl r]

/-! ## the check splits into the nameless check and the annotation check -/

theorem and_split4 (a b c d : Bool) : (a && b && (c && d)) = ((a && b && c) && d) := by
  cases a <;> cases b <;> cases c <;> cases d <;> rfl

mutual
  theorem term_check_split (P : Prog) : (t : Term) → ∀ (Γ : Ctx) (pc : PC) (ty : Ty),
      t.check P Γ pc ty =
        ((dbT (ctxVars Γ) t).check P.denv (ctxSig Γ) pc ty && t.annOk P.denv pc ty)
    | .var pc' v ty', Γ, pc, ty => by
      simp only [Term.check, dbT, DTerm.check, Term.annOk, lookup_dbVar]
      cases lookupBinding Γ v with
      | none => simp
      | some b =>
        simp only [Option.map_some]
        cases (pc' == pc) <;> cases (ty' == ty) <;> cases (b.chi == pc) <;> cases (b.ty == ty) <;> rfl
    | .lit k, Γ, pc, ty => by simp [Term.check, dbT, DTerm.check, Term.annOk]
    | .op a o b, Γ, pc, ty => by
      simp only [Term.check, dbT, DTerm.check, Term.annOk, term_check_split P a Γ .prd .i64,
        term_check_split P b Γ .prd .i64]
      generalize (pc == PC.prd) = x1
      generalize (ty == Ty.i64) = x2
      generalize DTerm.check _ _ _ _ (dbT _ a) = x3
      generalize DTerm.check _ _ _ _ (dbT _ b) = x4
      generalize Term.annOk _ _ _ a = x5
      generalize Term.annOk _ _ _ b = x6
      cases x1 <;> cases x2 <;> cases x3 <;> cases x4 <;> cases x5 <;> cases x6 <;> rfl
    | .mu pc' v ty' s, Γ, pc, ty => by
      have ih := stmt_check_split P s (⟨v, pc.flip, ty⟩ :: Γ)
      simp only [ctxVars, ctxSig, List.map_cons] at ih
      simp only [Term.check, dbT, DTerm.check, Term.annOk, ih, ctxVars, ctxSig]
      simp only [Bool.and_assoc]
    | .xtor pc' name as ty', Γ, pc, ty => by
      simp only [Term.check, dbT, DTerm.check, Term.annOk, Prog.denv]
      cases ty with
      | i64 => simp
      | decl T =>
        simp only
        cases findDecl (if pc == .prd then P.dataTypes else P.codataTypes) T with
        | none => simp
        | some d =>
          simp only
          cases findSig d.xtors name with
          | none => simp
          | some sig =>
            simp only
            have ih := args_check_split P as Γ sig.args
            simp only [Prog.denv] at ih
            rw [ih]
            simp only [Bool.and_assoc]
    | .xcase pc' ty' cl, Γ, pc, ty => by
      simp only [Term.check, dbT, DTerm.check, Term.annOk, Prog.denv]
      cases ty with
      | i64 => simp
      | decl T =>
        simp only
        cases findDecl (if pc == .prd then P.codataTypes else P.dataTypes) T with
        | none => simp
        | some d =>
          simp only
          have ih := clauses_check_split P cl Γ d.xtors
          simp only [Prog.denv] at ih
          rw [ih, clauses_covers_db]
          generalize (pc' == pc) = x1
          generalize (ty' == Ty.decl T) = x2
          generalize DClauses.check _ _ _ _ = x3
          generalize Clauses.annOk _ _ = x4
          generalize Clauses.covers _ _ = x5
          cases x1 <;> cases x2 <;> cases x3 <;> cases x4 <;> cases x5 <;> rfl
  theorem args_check_split (P : Prog) : (as : Args) → ∀ (Γ : Ctx) (sig : Ctx),
      as.check P Γ sig =
        ((dbA (ctxVars Γ) as).check P.denv (ctxSig Γ) (ctxSig sig) && as.annOk P.denv (ctxSig sig))
    | .nil, Γ, [] => by simp [Args.check, dbA, DArgs.check, Args.annOk, ctxSig]
    | .nil, Γ, _ :: _ => by simp [Args.check, dbA, DArgs.check, Args.annOk, ctxSig]
    | .cons pc t r, Γ, [] => by simp [Args.check, dbA, DArgs.check, Args.annOk, ctxSig]
    | .cons pc t r, Γ, b :: bs => by
      have ih1 := term_check_split P t Γ pc b.ty
      have ih2 := args_check_split P r Γ bs
      simp only [ctxSig] at ih2
      simp only [Args.check, dbA, DArgs.check, Args.annOk, ctxSig, List.map_cons, ih1, ih2]
      generalize (pc == b.chi) = x1
      generalize DTerm.check _ _ _ _ _ = x2
      generalize DArgs.check _ _ _ _ = x3
      generalize Term.annOk _ _ _ _ = x4
      generalize Args.annOk _ _ _ = x5
      cases x1 <;> cases x2 <;> cases x3 <;> cases x4 <;> cases x5 <;> rfl
  theorem clauses_check_split (P : Prog) : (cl : Clauses) → ∀ (Γ : Ctx) (sigs : List XtorSig),
      cl.check P Γ sigs =
        ((dbC (ctxVars Γ) cl).check P.denv (ctxSig Γ) sigs && cl.annOk P.denv)
    | .nil, Γ, sigs => by simp [Clauses.check, dbC, DClauses.check, Clauses.annOk]
    | .cons x ctx b r, Γ, sigs => by
      have ih1 := stmt_check_split P b (ctx ++ Γ)
      rw [ctxVars_append', ctxSig_append] at ih1
      have ih2 := clauses_check_split P r Γ sigs
      simp only [Clauses.check, dbC, DClauses.check, Clauses.annOk, ih1, ih2]
      cases findSig sigs x with
      | none => simp
      | some s =>
        simp only [ctxMatches_iff]
        generalize decide (ctxSig ctx = ctxSig s.args) = x1
        generalize DStmt.check _ _ _ = x2
        generalize DClauses.check _ _ _ _ = x3
        generalize Stmt.annOk _ _ = x4
        generalize Clauses.annOk _ _ = x5
        cases x1 <;> cases x2 <;> cases x3 <;> cases x4 <;> cases x5 <;> rfl
  theorem stmt_check_split (P : Prog) : (s : Stmt) → ∀ (Γ : Ctx),
      s.check P Γ = ((dbS (ctxVars Γ) s).check P.denv (ctxSig Γ) && s.annOk P.denv)
    | .cut ty p c, Γ => by
      simp only [Stmt.check, dbS, DStmt.check, Stmt.annOk, term_check_split P p Γ .prd ty,
        term_check_split P c Γ .cns ty]
      generalize DTerm.check _ _ _ _ (dbT _ p) = x1
      generalize DTerm.check _ _ _ _ (dbT _ c) = x2
      generalize Term.annOk _ _ _ p = x3
      generalize Term.annOk _ _ _ c = x4
      cases x1 <;> cases x2 <;> cases x3 <;> cases x4 <;> rfl
    | .ifc srt a b t e, Γ => by
      simp only [Stmt.check, dbS, DStmt.check, Stmt.annOk, term_check_split P a Γ .prd .i64,
        term_check_split P b Γ .prd .i64, stmt_check_split P t Γ, stmt_check_split P e Γ]
      generalize DTerm.check _ _ _ _ (dbT _ a) = x1
      generalize DTerm.check _ _ _ _ (dbT _ b) = x2
      generalize DStmt.check _ _ (dbS _ t) = x3
      generalize DStmt.check _ _ (dbS _ e) = x4
      generalize Term.annOk _ _ _ a = x5
      generalize Term.annOk _ _ _ b = x6
      generalize Stmt.annOk _ t = x7
      generalize Stmt.annOk _ e = x8
      cases x1 <;> cases x2 <;> cases x3 <;> cases x4 <;> cases x5 <;> cases x6 <;> cases x7 <;>
        cases x8 <;> rfl
    | .ifz srt a t e, Γ => by
      simp only [Stmt.check, dbS, DStmt.check, Stmt.annOk, term_check_split P a Γ .prd .i64,
        stmt_check_split P t Γ, stmt_check_split P e Γ]
      generalize DTerm.check _ _ _ _ (dbT _ a) = x1
      generalize DStmt.check _ _ (dbS _ t) = x3
      generalize DStmt.check _ _ (dbS _ e) = x4
      generalize Term.annOk _ _ _ a = x5
      generalize Stmt.annOk _ t = x7
      generalize Stmt.annOk _ e = x8
      cases x1 <;> cases x3 <;> cases x4 <;> cases x5 <;> cases x7 <;> cases x8 <;> rfl
    | .print nl a n, Γ => by
      simp only [Stmt.check, dbS, DStmt.check, Stmt.annOk, term_check_split P a Γ .prd .i64,
        stmt_check_split P n Γ]
      generalize DTerm.check _ _ _ _ (dbT _ a) = x1
      generalize DStmt.check _ _ (dbS _ n) = x3
      generalize Term.annOk _ _ _ a = x5
      generalize Stmt.annOk _ n = x7
      cases x1 <;> cases x3 <;> cases x5 <;> cases x7 <;> rfl
    | .call f as ty, Γ => by
      simp only [Stmt.check, dbS, DStmt.check, Stmt.annOk, Prog.denv]
      cases P.defs.find? (fun d => d.name = f) with
      | none => simp
      | some d =>
        simp only [Option.map_some]
        have ih := args_check_split P as Γ d.ctx
        simp only [Prog.denv] at ih
        exact ih
    | .exit a ty, Γ => by
      simp only [Stmt.check, dbS, DStmt.check, Stmt.annOk, term_check_split P a Γ .prd .i64]
end

/-! ## strictness is a property of the nameless form -/

def DClauses.tags : DClauses → List Ident
  | .nil => []
  | .cons x _ _ r => x :: r.tags

mutual
  def DTerm.strict (P : Prog) : DTerm → Bool
    | .var _ _ => true
    | .lit _ => true
    | .op a _ b => a.strict P && b.strict P
    | .mu _ ty s => tyDeclared P ty && s.strict P
    | .xtor _ _ as _ => as.strict P
    | .xcase pc ty cl =>
      (match ty with
       | .i64 => false
       | .decl T =>
         match findDecl (if pc == .prd then P.codataTypes else P.dataTypes) T with
         | some d => decide (cl.tags = d.xtors.map (·.name))
         | none => false) &&
      cl.strict P
  def DArgs.strict (P : Prog) : DArgs → Bool
    | .nil => true
    | .cons _ t r => t.strict P && r.strict P
  def DClauses.strict (P : Prog) : DClauses → Bool
    | .nil => true
    | .cons _ _ b r => b.strict P && r.strict P
  def DStmt.strict (P : Prog) : DStmt → Bool
    | .cut ty p c => tyDeclared P ty && p.strict P && c.strict P
    | .ifc _ a b t e => a.strict P && b.strict P && t.strict P && e.strict P
    | .ifz _ a t e => a.strict P && t.strict P && e.strict P
    | .print _ a n => a.strict P && n.strict P
    | .call _ as _ => as.strict P
    | .exit a _ => a.strict P
end

theorem clauses_tags_db (sc : List Ident) : (cl : Clauses) → (dbC sc cl).tags = cl.tags
  | .nil => by simp [dbC, DClauses.tags, Clauses.tags]
  | .cons x ctx b r => by simp [dbC, DClauses.tags, Clauses.tags, clauses_tags_db sc r]

mutual
  theorem term_strict_db (P : Prog) : (t : Term) → ∀ sc, (dbT sc t).strict P = t.strict P
    | .var _ _ _, _ => by simp [dbT, DTerm.strict, Term.strict]
    | .lit _, _ => by simp [dbT, DTerm.strict, Term.strict]
    | .op a _ b, sc => by
      simp [dbT, DTerm.strict, Term.strict, term_strict_db P a sc, term_strict_db P b sc]
    | .mu _ v _ s, sc => by
      simp [dbT, DTerm.strict, Term.strict, stmt_strict_db P s (v :: sc)]
    | .xtor _ _ as _, sc => by simp [dbT, DTerm.strict, Term.strict, args_strict_db P as sc]
    | .xcase pc ty cl, sc => by
      simp only [dbT, DTerm.strict, Term.strict, clauses_strict_db P cl sc, clauses_tags_db]
      cases ty with
      | i64 => rfl
      | decl T =>
        simp only
        cases findDecl (if pc == .prd then P.codataTypes else P.dataTypes) T <;> rfl
  theorem args_strict_db (P : Prog) : (as : Args) → ∀ sc, (dbA sc as).strict P = as.strict P
    | .nil, _ => by simp [dbA, DArgs.strict, Args.strict]
    | .cons _ t r, sc => by
      simp [dbA, DArgs.strict, Args.strict, term_strict_db P t sc, args_strict_db P r sc]
  theorem clauses_strict_db (P : Prog) : (cl : Clauses) → ∀ sc, (dbC sc cl).strict P = cl.strict P
    | .nil, _ => by simp [dbC, DClauses.strict, Clauses.strict]
    | .cons _ ctx b r, sc => by
      simp [dbC, DClauses.strict, Clauses.strict, stmt_strict_db P b (ctxVars ctx ++ sc),
        clauses_strict_db P r sc]
  theorem stmt_strict_db (P : Prog) : (s : Stmt) → ∀ sc, (dbS sc s).strict P = s.strict P
    | .cut _ p c, sc => by
      simp [dbS, DStmt.strict, Stmt.strict, term_strict_db P p sc, term_strict_db P c sc]
    | .ifc _ a b t e, sc => by
      simp [dbS, DStmt.strict, Stmt.strict, term_strict_db P a sc, term_strict_db P b sc,
        stmt_strict_db P t sc, stmt_strict_db P e sc]
    | .ifz _ a t e, sc => by
      simp [dbS, DStmt.strict, Stmt.strict, term_strict_db P a sc, stmt_strict_db P t sc,
        stmt_strict_db P e sc]
    | .print _ a n, sc => by
      simp [dbS, DStmt.strict, Stmt.strict, term_strict_db P a sc, stmt_strict_db P n sc]
    | .call _ as _, sc => by simp [dbS, DStmt.strict, Stmt.strict, args_strict_db P as sc]
    | .exit a _, sc => by simp [dbS, DStmt.strict, Stmt.strict, term_strict_db P a sc]
end

/-- `strict` depends on the program only through its type declarations -/
theorem tyDeclared_congr {P Q : Prog} (hd : P.dataTypes = Q.dataTypes)
    (hc : P.codataTypes = Q.codataTypes) (ty : Ty) : tyDeclared P ty = tyDeclared Q ty := by
  cases ty <;> simp [tyDeclared, hd, hc]

mutual
  theorem dterm_strict_congr {P Q : Prog} (hd : P.dataTypes = Q.dataTypes)
      (hc : P.codataTypes = Q.codataTypes) : (t : DTerm) → t.strict P = t.strict Q
    | .var _ _ => by simp [DTerm.strict]
    | .lit _ => by simp [DTerm.strict]
    | .op a _ b => by
      simp [DTerm.strict, dterm_strict_congr hd hc a, dterm_strict_congr hd hc b]
    | .mu _ ty s => by
      simp [DTerm.strict, dstmt_strict_congr hd hc s, tyDeclared_congr hd hc]
    | .xtor _ _ as _ => by simp [DTerm.strict, dargs_strict_congr hd hc as]
    | .xcase pc ty cl => by
      simp only [DTerm.strict, dclauses_strict_congr hd hc cl, hd, hc]
  theorem dargs_strict_congr {P Q : Prog} (hd : P.dataTypes = Q.dataTypes)
      (hc : P.codataTypes = Q.codataTypes) : (as : DArgs) → as.strict P = as.strict Q
    | .nil => by simp [DArgs.strict]
    | .cons _ t r => by
      simp [DArgs.strict, dterm_strict_congr hd hc t, dargs_strict_congr hd hc r]
  theorem dclauses_strict_congr {P Q : Prog} (hd : P.dataTypes = Q.dataTypes)
      (hc : P.codataTypes = Q.codataTypes) : (cl : DClauses) → cl.strict P = cl.strict Q
    | .nil => by simp [DClauses.strict]
    | .cons _ _ b r => by
      simp [DClauses.strict, dstmt_strict_congr hd hc b, dclauses_strict_congr hd hc r]
  theorem dstmt_strict_congr {P Q : Prog} (hd : P.dataTypes = Q.dataTypes)
      (hc : P.codataTypes = Q.codataTypes) : (s : DStmt) → s.strict P = s.strict Q
    | .cut _ p c => by
      simp [DStmt.strict, dterm_strict_congr hd hc p, dterm_strict_congr hd hc c,
        tyDeclared_congr hd hc]
    | .ifc _ a b t e => by
      simp [DStmt.strict, dterm_strict_congr hd hc a, dterm_strict_congr hd hc b,
        dstmt_strict_congr hd hc t, dstmt_strict_congr hd hc e]
    | .ifz _ a t e => by
      simp [DStmt.strict, dterm_strict_congr hd hc a, dstmt_strict_congr hd hc t,
        dstmt_strict_congr hd hc e]
    | .print _ a n => by
      simp [DStmt.strict, dterm_strict_congr hd hc a, dstmt_strict_congr hd hc n]
    | .call _ as _ => by simp [DStmt.strict, dargs_strict_congr hd hc as]
    | .exit a _ => by simp [DStmt.strict, dterm_strict_congr hd hc a]
end

end Scc.Core
