/-
  Scc.Core.ProofsFocusSimA — the simulation relation between the ς-machine on an (unfocused) Core
  program and the focused machine on a focused program:
    code:    the focused statement is α-equivalent to `focus` of the unfocused one (at ANY counter
             above its generated names), relative to the key lists of the two environments;
    values:  pointwise, closures by the code relation under their own environments.
  The relation is indexed by the ς-counter `k` of the specification machine (all ς-names of the
  unfocused side are below `k`).
-/
import Scc.Core.ProofsSigmaFocus

namespace Scc.Core
namespace FocusSim

def keys {S C : Type} (ρ : Env S C) : List Ident := ρ.map Prod.fst

@[simp] theorem keys_nil {S C : Type} : keys ([] : Env S C) = [] := rfl
@[simp] theorem keys_cons {S C : Type} (x : Ident) (v : Val S C) (ρ : Env S C) :
    keys ((x, v) :: ρ) = x :: keys ρ := rfl

/-- every ς-name of the list has a number below `k` -/
def SigLt (k : Nat) (l : List Ident) : Prop := ∀ i ∈ l, i.name = "ς" → i.id < k

theorem SigLt.mono {k k' : Nat} {l : List Ident} (h : SigLt k l) (hk : k ≤ k') : SigLt k' l :=
  fun i hi hn => Nat.lt_of_lt_of_le (h i hi hn) hk

@[simp] theorem SigLt_append (k : Nat) (a b : List Ident) :
    SigLt k (a ++ b) ↔ SigLt k a ∧ SigLt k b := by
  simp only [SigLt, List.mem_append]
  constructor
  · intro h; exact ⟨fun i hi => h i (Or.inl hi), fun i hi => h i (Or.inr hi)⟩
  · rintro ⟨h1, h2⟩ i (hi | hi)
    · exact h1 i hi
    · exact h2 i hi

@[simp] theorem SigLt_cons (k : Nat) (a : Ident) (b : List Ident) :
    SigLt k (a :: b) ↔ (a.name = "ς" → a.id < k) ∧ SigLt k b := by
  simp [SigLt]

@[simp] theorem SigLt_nil (k : Nat) : SigLt k [] := by simp [SigLt]

/-- the unfocused statement is acceptable to `focus` and its ς-names are below `k` -/
structure OKS (k : Nat) (s : Stmt) : Prop where
  cuts : s.cutsOk = true
  pcs : s.pcOk = true
  sig : SigLt k s.idents

structure OKC (k : Nat) (cl : Clauses) : Prop where
  cuts : cl.cutsOk = true
  pcs : cl.pcOk = true
  sig : SigLt k cl.idents

theorem OKS.mono {k k' : Nat} {s : Stmt} (h : OKS k s) (hk : k ≤ k') : OKS k' s :=
  ⟨h.cuts, h.pcs, h.sig.mono hk⟩
theorem OKC.mono {k k' : Nat} {s : Clauses} (h : OKC k s) (hk : k ≤ k') : OKC k' s :=
  ⟨h.cuts, h.pcs, h.sig.mono hk⟩

/-- `s2` (in scope `sc2`) is the focused form of `s1` (in scope `sc1`) -/
structure CodeS (k : Nat) (sc1 : List Ident) (s1 : Stmt) (sc2 : List Ident) (s2 : FsStmt) :
    Prop where
  ok : OKS k s1
  foc : ∃ n, FreshL n s1.idents ∧ dbS sc1 (focusStmt s1 n).1.embed = dbS sc2 s2.embed

structure CodeC (k : Nat) (sc1 : List Ident) (c1 : Clauses) (sc2 : List Ident) (c2 : FsClauses) :
    Prop where
  ok : OKC k c1
  foc : ∃ n, FreshL n c1.idents ∧ dbC sc1 (focusClauses c1 n).1.embed = dbC sc2 c2.embed

theorem CodeS.mono {k k' sc1 s1 sc2 s2} (h : CodeS k sc1 s1 sc2 s2) (hk : k ≤ k') :
    CodeS k' sc1 s1 sc2 s2 := ⟨h.ok.mono hk, h.foc⟩
theorem CodeC.mono {k k' sc1 s1 sc2 s2} (h : CodeC k sc1 s1 sc2 s2) (hk : k ≤ k') :
    CodeC k' sc1 s1 sc2 s2 := ⟨h.ok.mono hk, h.foc⟩

mutual
  inductive VR (k : Nat) : CVal → FVal → Prop
    | int (n) : VR k (.int n) (.int n)
    | con (c) {vs vs'} : VsR k vs vs' → VR k (.con c vs) (.con c vs')
    | cocase {ρ ρ' cl cl'} : ER k ρ ρ' → CodeC k (keys ρ) cl (keys ρ') cl' →
        VR k (.cocase ρ cl) (.cocase ρ' cl')
    | thunk {ρ ρ' a a' s s'} : ER k ρ ρ' → CodeS k (a :: keys ρ) s (a' :: keys ρ') s' →
        VR k (.thunk ρ a s) (.thunk ρ' a' s')
    | dtor (d) {vs vs'} : VsR k vs vs' → VR k (.dtor d vs) (.dtor d vs')
    | case {ρ ρ' cl cl'} : ER k ρ ρ' → CodeC k (keys ρ) cl (keys ρ') cl' →
        VR k (.case ρ cl) (.case ρ' cl')
    | mutilde {ρ ρ' x x' s s'} : ER k ρ ρ' → CodeS k (x :: keys ρ) s (x' :: keys ρ') s' →
        VR k (.mutilde ρ x s) (.mutilde ρ' x' s')
    | halt : VR k .halt .halt
  inductive VsR (k : Nat) : List CVal → List FVal → Prop
    | nil : VsR k [] []
    | cons {v v' vs vs'} : VR k v v' → VsR k vs vs' → VsR k (v :: vs) (v' :: vs')
  inductive ER (k : Nat) : CEnv → FEnv → Prop
    | nil : ER k [] []
    | cons (x x') {v v' ρ ρ'} : VR k v v' → ER k ρ ρ' → ER k ((x, v) :: ρ) ((x', v') :: ρ')
end

mutual
  theorem VR.mono {k k' : Nat} (hk : k ≤ k') : ∀ {v w}, VR k v w → VR k' v w
    | _, _, .int n => .int n
    | _, _, .con c h => .con c (VsR.mono hk h)
    | _, _, .cocase he hc => .cocase (ER.mono hk he) (hc.mono hk)
    | _, _, .thunk he hc => .thunk (ER.mono hk he) (hc.mono hk)
    | _, _, .dtor d h => .dtor d (VsR.mono hk h)
    | _, _, .case he hc => .case (ER.mono hk he) (hc.mono hk)
    | _, _, .mutilde he hc => .mutilde (ER.mono hk he) (hc.mono hk)
    | _, _, .halt => .halt
  theorem VsR.mono {k k' : Nat} (hk : k ≤ k') : ∀ {v w}, VsR k v w → VsR k' v w
    | _, _, .nil => .nil
    | _, _, .cons h1 h2 => .cons (VR.mono hk h1) (VsR.mono hk h2)
  theorem ER.mono {k k' : Nat} (hk : k ≤ k') : ∀ {v w}, ER k v w → ER k' v w
    | _, _, .nil => .nil
    | _, _, .cons x x' h1 h2 => .cons x x' (VR.mono hk h1) (ER.mono hk h2)
end

/-! ## lookups -/

theorem DVar.shift_inj {a b : DVar} (h : a.shift 0 1 = b.shift 0 1) : a = b := by
  cases a <;> cases b <;> simp [DVar.shift] at h ⊢ <;> exact h

theorem DVar.shift_ne_zero (a : DVar) : a.shift 0 1 ≠ .bound 0 := by
  cases a <;> simp [DVar.shift]

theorem lookup_rel {k : Nat} {ρ : CEnv} {ρ' : FEnv} (h : ER k ρ ρ') {x x' : Ident}
    (hv : dbVar (keys ρ) x = dbVar (keys ρ') x') :
    ExRel (VR k) (ρ.lookup x) (ρ'.lookup x') := by
  induction ρ generalizing ρ' with
  | nil =>
    cases h
    simp only [keys_nil, dbVar, DVar.free.injEq] at hv
    simp [Env.lookup, ExRel, hv]
  | cons e r ih =>
    cases h with
    | cons y y' hval hr =>
      simp only [keys_cons, dbVar] at hv
      simp only [Env.lookup]
      by_cases h1 : y = x <;> by_cases h2 : y' = x' <;>
        simp only [h1, h2, if_true, if_false] at hv ⊢
      · exact hval
      · exact absurd hv.symm (DVar.shift_ne_zero _)
      · exact absurd hv (DVar.shift_ne_zero _)
      · exact ih hr (DVar.shift_inj hv)

theorem lookupInt_rel {k : Nat} {ρ : CEnv} {ρ' : FEnv} (h : ER k ρ ρ') {x x' : Ident}
    (hv : dbVar (keys ρ) x = dbVar (keys ρ') x') : ρ.lookupInt x = ρ'.lookupInt x' := by
  have := lookup_rel h hv
  unfold Env.lookupInt
  cases h1 : ρ.lookup x <;> cases h2 : ρ'.lookup x' <;> simp only [h1, h2, ExRel] at this
  · simp [this]
  · cases this <;> rfl

/-- the bindings of an argument list all of whose arguments are variables -/
def _root_.Scc.Core.Args.toCtx : Args → Ctx
  | .nil => []
  | .cons _ (.var pc v ty) r => ⟨v, pc, ty⟩ :: r.toCtx
  | .cons _ _ r => r.toCtx

theorem split_none_cons {pc : PC} {t : Term} {r : Args} (h : (Args.cons pc t r).split = none) :
    (∃ p v ty, t = .var p v ty) ∧ r.split = none := by
  simp only [Args.split] at h
  split at h
  · next hv =>
    refine ⟨Term.isVar_eq hv, ?_⟩
    split at h
    · simp at h
    · assumption
  · simp at h

theorem bindMany_allVars : (as : Args) → as.split = none → ∀ k n, bindMany as k n = k as.toCtx n
  | .nil, _, k, n => by simp [bindMany, Args.toCtx]
  | .cons pc t r, h, k, n => by
    obtain ⟨⟨p, v, ty, rfl⟩, hr⟩ := split_none_cons h
    simp only [bindMany, bindTerm, Args.toCtx]
    rw [bindMany_allVars r hr]

theorem argVals_rel {k : Nat} {ρ : CEnv} {ρ' : FEnv} (h : ER k ρ ρ') :
    (as : Args) → as.split = none → ∀ bs' : Ctx,
      dbA (keys ρ) (ctxToArgs as.toCtx) = dbA (keys ρ') (ctxToArgs bs') →
      ExRel (VsR k) (argVals ρ as) (ρ'.lookupAll bs')
  | .nil, _, bs', hA => by
    cases bs' with
    | nil => simp [argVals, Env.lookupAll, ExRel, VsR.nil]
    | cons b r => simp [Args.toCtx, ctxToArgs, dbA] at hA
  | .cons pc t r, hs, bs', hA => by
    obtain ⟨⟨p, v, ty, rfl⟩, hr⟩ := split_none_cons hs
    cases bs' with
    | nil => simp [Args.toCtx, ctxToArgs, dbA] at hA
    | cons b r' =>
      simp only [Args.toCtx, ctxToArgs, dbA, dbT, DArgs.cons.injEq, DTerm.var.injEq] at hA
      have hb := lookup_rel h hA.2.1.2
      have ih := argVals_rel h r hr r' hA.2.2
      simp only [argVals, Env.lookupAll]
      cases h1 : ρ.lookup v <;> cases h2 : ρ'.lookup b.var <;> simp only [h1, h2, ExRel] at hb
      · simp [ExRel, hb]
      · cases h3 : argVals ρ r <;> cases h4 : ρ'.lookupAll r' <;>
          simp only [h3, h4, ExRel] at ih
        · simpa [ExRel] using ih
        · exact VsR.cons hb ih

theorem VsR.length {k : Nat} {vs : List CVal} {vs' : List FVal} (h : VsR k vs vs') :
    vs.length = vs'.length := by
  induction vs generalizing vs' with
  | nil => cases h; rfl
  | cons v r ih => cases h with | cons h1 h2 => simp [ih h2]

/-- binding parameters of equal number: both fail with `arity` or both succeed, related, with the
    parameter names in front of the keys -/
theorem bind_rel {k : Nat} {ρ : CEnv} {ρ' : FEnv} (h : ER k ρ ρ') :
    ∀ (ctx ctx' : Ctx) {vs vs'}, ctx.length = ctx'.length → VsR k vs vs' →
      ExRel (fun e e' => ER k e e' ∧ keys e = ctxVars ctx ++ keys ρ ∧
        keys e' = ctxVars ctx' ++ keys ρ') (ρ.bind ctx vs) (ρ'.bind ctx' vs')
  | [], [], vs, vs', _, hv => by
    cases hv <;> simp [Env.bind, ExRel, h, ctxVars]
  | [], _ :: _, _, _, hl, _ => by simp at hl
  | _ :: _, [], _, _, hl, _ => by simp at hl
  | b :: bs, b' :: bs', vs, vs', hl, hv => by
    cases hv with
    | nil => simp [Env.bind, ExRel]
    | cons hv1 hvs =>
      have := bind_rel h bs bs' (by simpa using hl) hvs
      simp only [Env.bind]
      cases h1 : Env.bind ρ bs _ <;> cases h2 : Env.bind ρ' bs' _ <;>
        simp only [h1, h2, ExRel] at this
      · simpa [ExRel] using this
      · simp only [ExRel, keys_cons, ctxVars, List.map_cons, List.cons_append]
        exact ⟨ER.cons _ _ hv1 this.1, by rw [this.2.1]; rfl, by rw [this.2.2]; rfl⟩

end FocusSim
end Scc.Core
