/-
  Scc.Core.ProofsFocusSem — whole programs: if the definitions of `p2` are α-equivalent to those of
  `p1` and all generated-looking names of `p2` are below its counter, then the ς-machine on `p1` and
  the focused machine on `focusOnly p2` have the same runs (`focusOnly_sim_run`).
  With `p2 = p1` this is "static focusing ≈ the ς-rules"; with `p2 = uniquifyProg p1` it is C03's
  first sentence (the α-equivalence of `uniquify` is proved in ProofsUniquifyAlpha).
-/
import Scc.Core.ProofsFocusSimD

namespace Scc.Core

open FocusSim

theorem exists_freshL (l : List Ident) : ∃ n, FreshL n l := by
  induction l with
  | nil => exact ⟨0, by simp⟩
  | cons a r ih =>
    obtain ⟨n, hn⟩ := ih
    refine ⟨n + a.id, ?_⟩
    intro i hi hg
    rcases List.mem_cons.mp hi with rfl | hi
    · have := hg.2; omega
    · exact hn i hi (hg.mono (by omega))

theorem focusDefs_le : ∀ (ds : List Def) (n : Nat), n ≤ (focusDefs ds n).2
  | [], n => by simp [focusDefs]
  | d :: r, n => by
    have h1 := focusStmt_le d.body n
    have h2 := focusDefs_le r (focusStmt d.body n).2
    simp only [focusDefs, focusDef]
    omega

/-- definition-wise α-equivalence of two programs (same names, same parameter chiralities) -/
structure DefAlpha (d1 d2 : Def) : Prop where
  name : d1.name = d2.name
  chis : d1.ctx.map (·.chi) = d2.ctx.map (·.chi)
  body : dbS (ctxVars d1.ctx) d1.body = dbS (ctxVars d2.ctx) d2.body

def DefsAlpha : List Def → List Def → Prop
  | [], [] => True
  | d :: r, d' :: r' => DefAlpha d d' ∧ DefsAlpha r r'
  | _, _ => False

theorem DefsAlpha.refl : ∀ ds : List Def, DefsAlpha ds ds
  | [] => trivial
  | _ :: r => ⟨⟨rfl, rfl, rfl⟩, DefsAlpha.refl r⟩

theorem defsRel_focusDefs : ∀ (ds1 ds2 : List Def) (n : Nat), DefsAlpha ds1 ds2 →
    (∀ d ∈ ds1, OKS 0 d.body) → (∀ d ∈ ds2, FreshL n d.body.idents) →
    DefsRel ds1 (focusDefs ds2 n).1
  | [], [], _, _, _, _ => by simp [focusDefs, DefsRel]
  | [], _ :: _, _, h, _, _ => by simp [DefsAlpha] at h
  | _ :: _, [], _, h, _, _ => by simp [DefsAlpha] at h
  | d1 :: r1, d2 :: r2, n, h, hok, hf => by
    obtain ⟨hd, hr⟩ := h
    simp only [focusDefs, focusDef, DefsRel]
    refine ⟨⟨hd.name, hd.chis, hok d1 (by simp), ?_⟩, ?_⟩
    · obtain ⟨n1, hn1⟩ := exists_freshL d1.body.idents
      exact ⟨n1, hn1, focusStmt_cong hd.body hn1 (hf d2 (by simp))⟩
    · exact defsRel_focusDefs r1 r2 _ hr (fun d hd' => hok d (by simp [hd']))
        (fun d hd' => (hf d (by simp [hd'])).mono (focusStmt_le d2.body n))

/-- the hypotheses under which `focusOnly p2` simulates `p1` -/
structure FocusInput (p1 p2 : Prog) : Prop where
  codata : p1.codataTypes = p2.codataTypes
  alpha : DefsAlpha p1.defs p2.defs
  ok : ∀ d ∈ p1.defs, OKS 0 d.body
  fresh : ∀ d ∈ p2.defs, FreshL p2.maxId d.body.idents

theorem prel_focusOnly {p1 p2 : Prog} (h : FocusInput p1 p2) : PRel p1 (focusOnly p2) := by
  refine ⟨?_, ?_⟩
  · simp only [focusOnly]; exact h.codata
  · simp only [focusOnly]
    exact defsRel_focusDefs p1.defs p2.defs p2.maxId h.alpha h.ok h.fresh

/-- **static focusing has the same runs as the ς-machine** (up to the α-equivalence `p1 ≡ p2`) -/
theorem focusOnly_sim_run {p1 p2 : Prog} (h : FocusInput p1 p2) (args : List (BitVec 64)) :
    (∀ f, ∃ f', f' ≤ f ∧ fsRun (focusOnly p2) args f' = run p1 args f) ∧
    (∀ f', ∃ f, run p1 args f = fsRun (focusOnly p2) args f') :=
  focus_sim_run (prel_focusOnly h) args

end Scc.Core
