/-
  Scc.Core.ProofsFocusSimD — the simulation, part D: the ς-step keeps the relation; ς-steps
  terminate (measure); runs.  Result (`focus_sim_run`): for related programs every run of the
  ς-machine is matched by a run of the focused machine with at most as much fuel, and every run of
  the focused machine by a run of the ς-machine — with EQUAL behaviours.
-/
import Scc.Core.ProofsFocusSimC

namespace Scc.Core

/-! ## the measure that ς-steps decrease -/

mutual
  /-- number of ς-steps needed to name the term as an argument -/
  def Term.w : Term → Nat
    | .var _ _ _ => 0
    | .lit _ => 1
    | .op a _ b => 1 + a.w + b.w
    | .mu _ _ _ _ => 1
    | .xtor _ _ as _ => 1 + as.w
    | .xcase _ _ _ => 1
  def Args.w : Args → Nat
    | .nil => 0
    | .cons _ t r => t.w + r.w
end

def Term.wtop : Term → Nat
  | .xtor _ _ as _ => as.w
  | .op a _ b => a.w + b.w
  | _ => 0

/-- number of ς-steps before the next proper step -/
def Stmt.sigmaMeasure : Stmt → Nat
  | .cut _ p c => p.wtop + c.wtop
  | .ifc _ a b _ _ => a.w + b.w
  | .ifz _ a _ _ => a.w
  | .print _ a _ => a.w
  | .call _ as _ => as.w
  | .exit a _ => a.w

theorem Term.wtop_lt {t : Term} (h : t.isVar = false) : t.wtop < t.w := by
  cases t <;> simp [Term.isVar] at h <;> simp [Term.wtop, Term.w] <;> omega

theorem ASplit.w_le {as pc t A} (h : ASplit as pc t A) : t.w ≤ as.w := by
  induction h with
  | here _ _ _ _ => simp [Args.w]
  | there _ _ _ _ _ ih => simp only [Args.w]; omega

theorem SSplit.w_le {s pc t S} (h : SSplit s pc t S) : t.w ≤ s.sigmaMeasure := by
  cases h with
  | cutL _ _ _ _ _ _ ha => have := ha.w_le; simp only [Stmt.sigmaMeasure, Term.wtop]; omega
  | cutLR _ _ _ _ _ _ _ _ _ _ ha =>
    have := ha.w_le; simp only [Stmt.sigmaMeasure, Term.wtop]; omega
  | cutR _ _ _ _ _ _ _ ha => have := ha.w_le; simp only [Stmt.sigmaMeasure, Term.wtop]; omega
  | call _ _ _ ha => have := ha.w_le; simp only [Stmt.sigmaMeasure]; omega
  | _ => simp only [Stmt.sigmaMeasure, Term.wtop]; omega

theorem sigmaCut_measure (pc : PC) (t : Term) (y : Ident) (body : Stmt) :
    (sigmaCut pc t y body).sigmaMeasure = t.wtop := by
  cases pc <;> simp [sigmaCut, Stmt.sigmaMeasure, Term.wtop]

namespace FocusSim

/-! ## the ς-step -/

theorem cutsOk_cut_mu_r (ty : Ty) (p : Term) (pc : PC) (v : Ident) (t : Ty) (s : Stmt) :
    (Stmt.cut ty p (.mu pc v t s)).cutsOk = (p.cutsOk && s.cutsOk) := by
  cases p <;> simp [Stmt.cutsOk, Term.cutsOk]

theorem cutsOk_cut_mu_l (ty : Ty) (c : Term) (pc : PC) (v : Ident) (t : Ty) (s : Stmt) :
    (Stmt.cut ty (.mu pc v t s) c).cutsOk = (s.cutsOk && c.cutsOk) := by
  cases c <;> simp [Stmt.cutsOk, Term.cutsOk]

theorem sigmaCut_idents (pc : PC) (t : Term) (y : Ident) (body : Stmt) :
    ∀ i ∈ (sigmaCut pc t y body).idents, i ∈ t.idents ∨ i = y ∨ i ∈ body.idents := by
  intro i hi
  cases pc <;> simp only [sigmaCut, Stmt.idents, Term.idents, List.mem_append, List.mem_cons] at hi <;>
    grind

theorem not_gen_sigma (k m : Nat) : ¬ Gen m (sigmaName k) := by
  intro h
  rcases h.1 with h | h <;> simp [sigmaName] at h

theorem step_sigma {st1 : State} {st2 : FsState} (h : SRel st1 st2) {pc : PC} {t : Term}
    {S : Term → Stmt} (hs : st1.stmt.split = some (pc, t, S)) :
    SRel { st1 with
      stmt := sigmaCut pc t (sigmaName st1.fresh) (S (.var pc (sigmaName st1.fresh) t.ty)),
      fresh := st1.fresh + 1 } st2 := by
  obtain ⟨hout, he, hok, n, hf, hdb⟩ := h
  have hcut := Stmt.cutOkTop_of_cutsOk hok.cuts
  have hsp := SSplit.of_split _ hs hcut
  obtain ⟨hc1, hc2⟩ := hsp.cutsOk hok.cuts
  obtain ⟨hp1, hp2⟩ := hsp.pcOk hok.pcs
  have hy : sigmaName st1.fresh ∉ st1.stmt.idents := by
    intro hmem
    have := hok.sig _ hmem rfl
    simp [sigmaName] at this
  have hyg : ∀ m, ¬ Gen m (sigmaName st1.fresh) := not_gen_sigma _
  have hSid : ∀ i ∈ (S (.var pc (sigmaName st1.fresh) t.ty)).idents,
      i ∈ st1.stmt.idents ∨ i = sigmaName st1.fresh := by
    intro i hi
    rcases hsp.idents_S _ i hi with h | h
    · exact Or.inl h
    · simp only [Term.idents, List.mem_singleton] at h; exact Or.inr h
  have hall : ∀ i ∈ (sigmaCut pc t (sigmaName st1.fresh)
      (S (.var pc (sigmaName st1.fresh) t.ty))).idents,
      i ∈ st1.stmt.idents ∨ i = sigmaName st1.fresh := by
    intro i hi
    rcases sigmaCut_idents _ _ _ _ i hi with h | h | h
    · exact Or.inl (hsp.idents_t i h)
    · exact Or.inr h
    · exact hSid i h
  refine ⟨hout, he.mono (Nat.le_succ _), ⟨?_, ?_, ?_⟩, n, ?_, ?_⟩
  · -- cutsOk
    have hb := hc2 (.var pc (sigmaName st1.fresh) t.ty) rfl
    cases pc
    · simp only [sigmaCut, cutsOk_cut_mu_r, hc1, hb, Bool.and_self]
    · simp only [sigmaCut, cutsOk_cut_mu_l, hc1, hb, Bool.and_self]
  · -- pcOk
    have hb := hp2 (.var pc (sigmaName st1.fresh) t.ty) rfl
    cases pc
    · simp only [sigmaCut, Stmt.pcOk, Term.pcOk, hp1, hb, Bool.and_true]; decide
    · simp only [sigmaCut, Stmt.pcOk, Term.pcOk, hp1, hb, Bool.and_true]; decide
  · -- ς-names
    intro i hi hn
    rcases hall i hi with h | h
    · exact Nat.lt_succ_of_lt (hok.sig i h hn)
    · subst h; simp [sigmaName]
  · intro i hi
    rcases hall i hi with h | h
    · exact hf i h
    · subst h; exact hyg n
  · simp only
    rw [sigma_focus hs hcut hp1 hy hyg hf]
    exact hdb

/-! ## runs -/

variable {p1 : Prog} {q : FsProg}

theorem step_of_split_some {st1 : State} {pc : PC} {t : Term} {S : Term → Stmt}
    (hs : st1.stmt.split = some (pc, t, S)) :
    step p1 st1 = .next { st1 with
      stmt := sigmaCut pc t (sigmaName st1.fresh) (S (.var pc (sigmaName st1.fresh) t.ty)),
      fresh := st1.fresh + 1 } := by
  simp [step, sigmaStep, hs]

/-- forward: the focused machine needs at most as much fuel -/
theorem sim_fwd (hP : PRel p1 q) : ∀ (f : Nat) (st1 : State) (st2 : FsState), SRel st1 st2 →
    ∃ f', f' ≤ f ∧ fsStepN q f' st2 = stepN p1 f st1
  | 0, st1, st2, h => ⟨0, Nat.le_refl _, by simp [stepN, fsStepN, h.out]⟩
  | f + 1, st1, st2, h => by
    cases hs : st1.stmt.split with
    | some x =>
      obtain ⟨pc, t, S⟩ := x
      obtain ⟨f', hle, heq⟩ := sim_fwd hP f _ st2 (step_sigma h hs)
      refine ⟨f', by omega, ?_⟩
      rw [heq]
      simp only [stepN, step_of_split_some hs]
    | none =>
      have hst := step_proper hP h hs
      cases h1 : step p1 st1 <;> cases h2 : fsStep q st2 <;> simp only [h1, h2, StepR] at hst
      · obtain ⟨f', hle, heq⟩ := sim_fwd hP f _ _ hst.1
        refine ⟨f' + 1, by omega, ?_⟩
        simp only [stepN, fsStepN, h1, h2, heq]
      · refine ⟨1, by omega, ?_⟩
        simp only [stepN, fsStepN, h1, h2, hst, h.out]

/-- after finitely many ς-steps the ς-machine is at a statement without non-variable arguments -/
theorem catchup : ∀ (m : Nat) (st1 : State) (st2 : FsState), st1.stmt.sigmaMeasure ≤ m →
    SRel st1 st2 → ∃ (j : Nat) (st1' : State), st1'.stmt.split = none ∧ SRel st1' st2 ∧
      ∀ f, stepN p1 (j + f) st1 = stepN p1 f st1'
  | m, st1, st2, hm, h => by
    cases hs : st1.stmt.split with
    | none => exact ⟨0, st1, hs, h, fun f => by simp⟩
    | some x =>
      obtain ⟨pc, t, S⟩ := x
      have hsp := SSplit.of_split _ hs (Stmt.cutOkTop_of_cutsOk h.code.ok.cuts)
      have hlt : (sigmaCut pc t (sigmaName st1.fresh)
          (S (.var pc (sigmaName st1.fresh) t.ty))).sigmaMeasure < st1.stmt.sigmaMeasure := by
        rw [sigmaCut_measure]
        exact Nat.lt_of_lt_of_le (Term.wtop_lt hsp.notVar) hsp.w_le
      cases m with
      | zero => omega
      | succ m' =>
        obtain ⟨j, st1', h1, h2, h3⟩ := catchup m' _ st2 (by simp only; omega) (step_sigma h hs)
        refine ⟨j + 1, st1', h1, h2, fun f => ?_⟩
        rw [show j + 1 + f = (j + f) + 1 by omega]
        simp only [stepN, step_of_split_some hs]
        exact h3 f

/-- backward: every run of the focused machine is matched by the ς-machine -/
theorem sim_bwd (hP : PRel p1 q) : ∀ (f' : Nat) (st1 : State) (st2 : FsState), SRel st1 st2 →
    ∃ f, stepN p1 f st1 = fsStepN q f' st2
  | 0, st1, st2, h => ⟨0, by simp [stepN, fsStepN, h.out]⟩
  | f' + 1, st1, st2, h => by
    obtain ⟨j, st1', hs, h', hj⟩ := catchup (p1 := p1) _ st1 st2 (Nat.le_refl _) h
    have hst := step_proper hP h' hs
    cases h1 : step p1 st1' <;> cases h2 : fsStep q st2 <;> simp only [h1, h2, StepR] at hst
    · obtain ⟨f, heq⟩ := sim_bwd hP f' _ _ hst.1
      refine ⟨j + (f + 1), ?_⟩
      rw [hj]
      simp only [stepN, fsStepN, h1, h2, heq]
    · refine ⟨j + 1, ?_⟩
      rw [hj]
      simp only [stepN, fsStepN, h1, h2, hst, h'.out]

theorem entryEnv_rel : ∀ (c1 c2 : Ctx) (args : List (BitVec 64)),
    c1.map (·.chi) = c2.map (·.chi) →
    ExRel (fun e e' => ER 0 e e' ∧ keys e = ctxVars c1 ∧ keys e' = ctxVars c2)
      (entryEnv c1 args : Except Why CEnv) (entryEnv c2 args : Except Why FEnv)
  | [], [], args, _ => by
    cases args <;> simp [entryEnv, ExRel, ER.nil, ctxVars]
  | [], _ :: _, _, h => by simp at h
  | _ :: _, [], _, h => by simp at h
  | b :: bs, b' :: bs', args, h => by
    simp only [List.map_cons, List.cons.injEq] at h
    obtain ⟨hb, hr⟩ := h
    cases hchi : b.chi with
    | cns =>
      have hchi' : b'.chi = .cns := by rw [← hb, hchi]
      have := entryEnv_rel bs bs' args hr
      simp only [entryEnv, hchi, hchi']
      cases h1 : (entryEnv bs args : Except Why CEnv) <;>
        cases h2 : (entryEnv bs' args : Except Why FEnv) <;> simp only [h1, h2, ExRel] at this ⊢
      · exact this
      · exact ⟨ER.cons _ _ VR.halt this.1, by simp [ctxVars, this.2.1], by simp [ctxVars, this.2.2]⟩
    | prd =>
      have hchi' : b'.chi = .prd := by rw [← hb, hchi]
      cases args with
      | nil => simp [entryEnv, hchi, hchi', ExRel]
      | cons a as =>
        have := entryEnv_rel bs bs' as hr
        simp only [entryEnv, hchi, hchi']
        cases h1 : (entryEnv bs as : Except Why CEnv) <;>
          cases h2 : (entryEnv bs' as : Except Why FEnv) <;> simp only [h1, h2, ExRel] at this ⊢
        · exact this
        · exact ⟨ER.cons _ _ (VR.int a) this.1, by simp [ctxVars, this.2.1],
            by simp [ctxVars, this.2.2]⟩

/-- **the ς-machine on `p1` and the focused machine on `q` have the same runs** -/
theorem focus_sim_run (hP : PRel p1 q) (args : List (BitVec 64)) :
    (∀ f, ∃ f', f' ≤ f ∧ fsRun q args f' = run p1 args f) ∧
    (∀ f', ∃ f, run p1 args f = fsRun q args f') := by
  unfold run fsRun
  rcases find_def_rel (fun nm => decide (nm.name = mainName)) hP.defs with
    ⟨h1, h2⟩ | ⟨d, d', h1, h2, hd⟩
  · simp only [h1, h2]
    exact ⟨fun f => ⟨f, Nat.le_refl _, trivial⟩, fun f' => ⟨f', trivial⟩⟩
  · simp only [h1, h2]
    have := entryEnv_rel d.ctx d'.ctx args hd.chis
    cases h3 : (entryEnv d.ctx args : Except Why CEnv) <;>
      cases h4 : (entryEnv d'.ctx args : Except Why FEnv) <;> simp only [h3, h4, ExRel] at this ⊢
    · subst this
      exact ⟨fun f => ⟨f, Nat.le_refl _, rfl⟩, fun f' => ⟨f', rfl⟩⟩
    · obtain ⟨he, hk1, hk2⟩ := this
      have hS : SRel ⟨d.body, _, [], 0⟩ ⟨d'.body, _, []⟩ :=
        ⟨rfl, he, by simpa only [hk1, hk2] using hd.code⟩
      exact ⟨fun f => sim_fwd hP f _ _ hS, fun f' => sim_bwd hP f' _ _ hS⟩

end FocusSim
end Scc.Core
