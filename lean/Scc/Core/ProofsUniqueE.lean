/-
  Scc.Core.ProofsUniqueE — C03 "unique binders": the final assembly.
  `focusProg_uniqueBinders`: for every program whose binders all have id 0 and whose variable
  occurrences have ids `≤ maxId` (in particular for every fun2core output: all ids 0), every
  definition of `focusProg p` satisfies `UniqueBindersGlobal` and `UniqueBinders`.
-/
import Scc.Core.ProofsUniqueC
import Scc.Core.ProofsUniqueD
import Scc.Core.ProofsScopeB
import Scc.Core.ProofsScopeC

namespace Scc.Core

/-! ## every occurrence is free, bound outside, or bound by a binder of the term -/

mutual
  theorem FsTerm.occ_cases : (t : FsTerm) → (B : List Nat) →
      ∀ i ∈ t.occIds, i ∈ t.freeIds B ∨ i ∈ B ∨ i ∈ t.binderIds
    | .var _ v _, B => by
      intro i; simp only [FsTerm.occIds, FsTerm.freeIds, mem_unbound]; grind
    | .lit _, _ => by simp [FsTerm.occIds]
    | .op a _ b, B => by
      intro i; simp only [FsTerm.occIds, FsTerm.freeIds, mem_unbound]; grind
    | .mu _ v _ s, B => by
      intro i hi
      have := FsStmt.occ_cases s (v.id :: B) i hi
      simp only [FsTerm.freeIds, FsTerm.binderIds, List.mem_cons] at *
      grind
    | .xtor _ _ as _, B => by
      intro i; simp only [FsTerm.occIds, FsTerm.freeIds, mem_unbound]; grind
    | .xcase _ _ cl, B => by
      intro i hi
      simpa only [FsTerm.freeIds, FsTerm.binderIds] using FsClauses.occ_cases cl B i hi
  theorem FsClauses.occ_cases : (cl : FsClauses) → (B : List Nat) →
      ∀ i ∈ cl.occIds, i ∈ cl.freeIds B ∨ i ∈ B ∨ i ∈ cl.binderIds
    | .nil, _ => by simp [FsClauses.occIds]
    | .cons _ ctx b r, B => by
      intro i hi
      simp only [FsClauses.occIds, List.mem_append] at hi
      have := FsStmt.occ_cases b (ctxIds ctx ++ B) i
      have := FsClauses.occ_cases r B i
      simp only [FsClauses.freeIds, FsClauses.binderIds, List.mem_append] at *
      grind
  theorem FsStmt.occ_cases : (s : FsStmt) → (B : List Nat) →
      ∀ i ∈ s.occIds, i ∈ s.freeIds B ∨ i ∈ B ∨ i ∈ s.binderIds
    | .cut _ p c, B => by
      intro i hi
      simp only [FsStmt.occIds, List.mem_append] at hi
      have := FsTerm.occ_cases p B i
      have := FsTerm.occ_cases c B i
      simp only [FsStmt.freeIds, FsStmt.binderIds, List.mem_append] at *
      grind
    | .ifc _ a (some b) t e, B => by
      intro i hi
      simp only [FsStmt.occIds, List.mem_cons, List.mem_append] at hi
      have := FsStmt.occ_cases t B i
      have := FsStmt.occ_cases e B i
      simp only [FsStmt.freeIds, FsStmt.binderIds, List.mem_append, mem_unbound, List.mem_cons,
        List.not_mem_nil, or_false] at *
      grind
    | .ifc _ a none t e, B => by
      intro i hi
      simp only [FsStmt.occIds, List.mem_cons, List.mem_append] at hi
      have := FsStmt.occ_cases t B i
      have := FsStmt.occ_cases e B i
      simp only [FsStmt.freeIds, FsStmt.binderIds, List.mem_append, mem_unbound, List.mem_cons,
        List.not_mem_nil, or_false] at *
      grind
    | .print _ a n, B => by
      intro i hi
      simp only [FsStmt.occIds, List.mem_cons] at hi
      have := FsStmt.occ_cases n B i
      simp only [FsStmt.freeIds, FsStmt.binderIds, List.mem_append, mem_unbound, List.mem_cons,
        List.not_mem_nil, or_false] at *
      grind
    | .call _ as, B => by
      intro i; simp only [FsStmt.occIds, FsStmt.freeIds, mem_unbound]; grind
    | .exit a, B => by
      intro i; simp only [FsStmt.occIds, FsStmt.freeIds, mem_unbound]; grind
end

/-! ## free names of the definitions of `focusProg p` -/

/-- precondition of C03 (occurrences): every variable occurrence has an id `≤ maxId`
    (fun2core output: all ids are 0) -/
def Prog.OccsOld (p : Prog) : Prop := ∀ d ∈ p.defs, ∀ i ∈ d.body.occIds, i ≤ p.maxId

theorem uniquifyDefs_scoped (m0 : Nat) (ds : List Def) (n : Nat)
    (hz : ∀ d ∈ ds, ∀ b ∈ d.ids, b = 0) (ho : ∀ d ∈ ds, ∀ i ∈ d.body.occIds, i ≤ m0) :
    ∀ d' ∈ (uniquifyDefs ds n).1, ∀ i ∈ d'.body.freeIds (ctxIds d'.ctx), i ≤ m0 := by
  induction ds generalizing n with
  | nil => simp [uniquifyDefs]
  | cons d r ih =>
    have h1 := uniquifyDef_scoped m0 d n (hz d (by simp)) (ho d (by simp))
    have h2 := ih (uniquifyDef d n).2 (fun d' hd' => hz d' (by simp [hd']))
      (fun d' hd' => ho d' (by simp [hd']))
    simp only [uniquifyDefs, List.mem_cons, forall_eq_or_imp]
    exact ⟨h1, h2⟩

theorem focusDefs_scoped (m0 : Nat) (ds : List Def) (n : Nat)
    (h : ∀ d ∈ ds, ∀ i ∈ d.body.freeIds (ctxIds d.ctx), i ≤ m0) :
    ∀ d' ∈ (focusDefs ds n).1, ∀ i ∈ d'.body.freeIds (ctxIds d'.ctx), i ≤ m0 := by
  induction ds generalizing n with
  | nil => simp [focusDefs]
  | cons d r ih =>
    have h1 := focusStmt_scoped m0 d.body n (ctxIds d.ctx) (h d (by simp))
    have h2 := ih (focusDef d n).2 (fun d' hd' => h d' (by simp [hd']))
    simp only [focusDefs, List.mem_cons, forall_eq_or_imp]
    exact ⟨by simpa only [focusDef] using h1, h2⟩

theorem focusProg_scoped (p : Prog) (hz : p.BindersZero) (ho : p.OccsOld) :
    ∀ d ∈ (focusProg p).defs, ∀ i ∈ d.body.freeIds (ctxIds d.ctx), i ≤ p.maxId := by
  have h1 := uniquifyDefs_scoped p.maxId p.defs p.maxId hz ho
  have h2 := focusDefs_scoped p.maxId (uniquifyDefs p.defs p.maxId).1
    (uniquifyDefs p.defs p.maxId).2 h1
  simpa only [focusProg, focusOnly, uniquifyProg] using h2

/-- C03, second sentence (global form): in every definition of `focusProg p` all parameters and
    binders are pairwise distinct, no binder is a free name, every id is `≤ maxId` -/
theorem focusProg_uniqueBindersGlobal (p : Prog) (hz : p.BindersZero) (ho : p.OccsOld) :
    ∀ d ∈ (focusProg p).defs, UniqueBindersGlobal (focusProg p).maxId d := by
  intro d hd
  obtain ⟨hle, hw⟩ := focusProg_binders p hz
  have hw := hw d hd
  have hf := focusProg_scoped p hz ho d hd
  unfold Within FsDef.ids at hw
  refine ⟨hw.1, ?_, ?_⟩
  · intro i hi hb
    have := hf i hi
    have := hw.2 i (by simp [hb])
    omega
  · intro i hi
    simp only [List.mem_append] at hi
    rcases hi with hi | hi
    · exact (hw.2 i (by simpa only [List.mem_append] using hi)).2
    · rcases FsStmt.occ_cases d.body (ctxIds d.ctx) i hi with h | h | h
      · have := hf i h; omega
      · exact (hw.2 i (by simp [h])).2
      · exact (hw.2 i (by simp [h])).2

theorem focusProg_uniqueBinders (p : Prog) (hz : p.BindersZero) (ho : p.OccsOld) :
    ∀ d ∈ (focusProg p).defs, UniqueBinders (focusProg p).maxId d :=
  fun d hd => uniqueBinders_of_global (focusProg_uniqueBindersGlobal p hz ho d hd)

end Scc.Core
