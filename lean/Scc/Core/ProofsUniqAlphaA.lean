/-
  Scc.Core.ProofsUniqAlphaA — renaming lemma for `uniquify`'s name-based substitution:
  a simultaneous substitution of variables by FRESH variables (`substStmt ps cs`) that implements a
  renaming of the scope (`REN`) does not change the nameless form — provided every variable
  occurrence has the chirality of its binder (`DStmt.chiWS`; the substitution is split by chirality:
  `μ a.s` renames only the covariable occurrences of `a`).
-/
import Scc.Core.ProofsAlphaA
import Scc.Core.Typing
import Scc.Core.Uniquify

namespace Scc.Core

/-! ## chirality-consistent scoping, on nameless forms -/

def DVar.chiOK (chis : List PC) (pc : PC) : DVar → Prop
  | .bound i => chis[i]? = some pc
  | .free _ => True

mutual
  /-- every bound variable occurrence has the chirality of its binder -/
  def DTerm.chiWS (chis : List PC) : DTerm → Prop
    | .var pc v => v.chiOK chis pc
    | .lit _ => True
    | .op a _ b => a.chiWS chis ∧ b.chiWS chis
    | .mu pc _ s => s.chiWS (pc.flip :: chis)
    | .xtor _ _ as _ => as.chiWS chis
    | .xcase _ _ cl => cl.chiWS chis
  def DArgs.chiWS (chis : List PC) : DArgs → Prop
    | .nil => True
    | .cons _ t r => t.chiWS chis ∧ r.chiWS chis
  def DClauses.chiWS (chis : List PC) : DClauses → Prop
    | .nil => True
    | .cons _ sig b r => b.chiWS (sig.map (·.1) ++ chis) ∧ r.chiWS chis
  def DStmt.chiWS (chis : List PC) : DStmt → Prop
    | .cut _ p c => p.chiWS chis ∧ c.chiWS chis
    | .ifc _ a b t e => a.chiWS chis ∧ b.chiWS chis ∧ t.chiWS chis ∧ e.chiWS chis
    | .ifz _ a t e => a.chiWS chis ∧ t.chiWS chis ∧ e.chiWS chis
    | .print _ a n => a.chiWS chis ∧ n.chiWS chis
    | .call _ as _ => as.chiWS chis
    | .exit a _ => a.chiWS chis
end

theorem DVar.chiOK_shift {chis pre : List PC} {pc : PC} {v : DVar} :
    (v.shift 0 pre.length).chiOK (pre ++ chis) pc ↔ v.chiOK chis pc := by
  cases v with
  | free x => simp [DVar.shift, DVar.chiOK]
  | bound i =>
    simp only [DVar.shift, Nat.not_lt_zero, if_false, DVar.chiOK]
    rw [List.getElem?_append_right (by omega)]
    simp

/-! ## substitutions by variables -/

/-- the name a variable is renamed to -/
def substName (σ : Subst) (x : Ident) : Ident :=
  match substFind σ x with
  | some (.var _ w _) => w
  | _ => x

/-- all right-hand sides are variables of chirality `pc` -/
def Subst.VarsOf (pc : PC) (σ : Subst) : Prop :=
  ∀ x t, substFind σ x = some t → ∃ w ty, t = .var pc w ty

/-- all right-hand sides have ids above `n` -/
def Subst.RangeGt (n : Nat) (σ : Subst) : Prop :=
  ∀ x pc w ty, substFind σ x = some (.var pc w ty) → n < w.id

theorem substFind_remove_self (σ : Subst) (y : Ident) : substFind (substRemove σ y) y = none := by
  induction σ with
  | nil => simp [substRemove, substFind]
  | cons e r ih =>
    obtain ⟨w, u⟩ := e
    simp only [substRemove]
    by_cases hw : w = y
    · simp only [hw, if_true, ih]
    · simp only [hw, if_false, substFind, ih]

theorem substFind_remove_ne (σ : Subst) {y x : Ident} (h : x ≠ y) :
    substFind (substRemove σ y) x = substFind σ x := by
  induction σ with
  | nil => simp [substRemove, substFind]
  | cons e r ih =>
    obtain ⟨w, u⟩ := e
    simp only [substRemove]
    by_cases hw : w = y
    · have : ¬ w = x := fun e => h (e.symm.trans hw)
      simp only [hw, if_true, ih, substFind]
      rw [if_neg (by rw [← hw]; exact this)]
    · simp only [hw, if_false, substFind, ih]

theorem ctxHasVar_iff (c : Ctx) (w : Ident) : ctxHasVar c w = true ↔ w ∈ ctxVars c := by
  induction c with
  | nil => simp [ctxHasVar, ctxVars]
  | cons b r ih =>
    simp only [ctxHasVar, ctxVars, List.map_cons, List.mem_cons]
    by_cases hb : b.var = w
    · simp [hb]
    · simp only [hb, if_false]
      rw [ih]
      constructor
      · exact Or.inr
      · rintro (e | h)
        · exact absurd e.symm hb
        · exact h

theorem substFind_removeCtx_mem (σ : Subst) (c : Ctx) {x : Ident} (hx : x ∈ ctxVars c) :
    substFind (substRemoveCtx σ c) x = none := by
  induction σ with
  | nil => simp [substRemoveCtx, substFind]
  | cons e r ih =>
    obtain ⟨w, u⟩ := e
    simp only [substRemoveCtx]
    by_cases hw : ctxHasVar c w = true
    · simp only [hw, if_true, ih]
    · have hw' : w ∉ ctxVars c := fun h => hw ((ctxHasVar_iff c w).mpr h)
      have : ¬ w = x := fun e => hw' (e ▸ hx)
      simp only [hw, Bool.false_eq_true, if_false, substFind, ih, this]

theorem substFind_removeCtx_not_mem (σ : Subst) (c : Ctx) {x : Ident} (hx : x ∉ ctxVars c) :
    substFind (substRemoveCtx σ c) x = substFind σ x := by
  induction σ with
  | nil => simp [substRemoveCtx, substFind]
  | cons e r ih =>
    obtain ⟨w, u⟩ := e
    simp only [substRemoveCtx]
    by_cases hw : ctxHasVar c w = true
    · have hw' := (ctxHasVar_iff c w).mp hw
      have : ¬ w = x := fun e => hx (e ▸ hw')
      simp only [hw, if_true, ih, substFind, this, if_false]
    · simp only [hw, Bool.false_eq_true, if_false, substFind, ih]

/-- a substitution obtained by removing the names `pre` -/
structure Removed (pre : List Ident) (σ σ1 : Subst) : Prop where
  mem : ∀ x, x ∈ pre → substFind σ1 x = none
  not_mem : ∀ x, x ∉ pre → substFind σ1 x = substFind σ x

theorem Removed.single (σ : Subst) (y : Ident) : Removed [y] σ (substRemove σ y) :=
  ⟨fun x hx => by
    simp only [List.mem_singleton] at hx
    subst hx; exact substFind_remove_self σ x,
   fun x hx => substFind_remove_ne σ (by simpa using hx)⟩

theorem Removed.ctx (σ : Subst) (c : Ctx) : Removed (ctxVars c) σ (substRemoveCtx σ c) :=
  ⟨fun _ hx => substFind_removeCtx_mem σ c hx, fun _ hx => substFind_removeCtx_not_mem σ c hx⟩

theorem Removed.find_some {pre σ σ1} (h : Removed pre σ σ1) {x : Ident} {t : Term}
    (hf : substFind σ1 x = some t) : substFind σ x = some t := by
  by_cases hx : x ∈ pre
  · rw [h.mem x hx] at hf; simp at hf
  · rw [h.not_mem x hx] at hf; exact hf

theorem Removed.varsOf {pre σ σ1 pc} (h : Removed pre σ σ1) (hv : Subst.VarsOf pc σ) :
    Subst.VarsOf pc σ1 := fun x t hf => hv x t (h.find_some hf)

theorem Removed.rangeGt {pre σ σ1 n} (h : Removed pre σ σ1) (hv : Subst.RangeGt n σ) :
    Subst.RangeGt n σ1 := fun x pc w ty hf => hv x pc w ty (h.find_some hf)

theorem Removed.name_mem {pre σ σ1} (h : Removed pre σ σ1) {x : Ident} (hx : x ∈ pre) :
    substName σ1 x = x := by
  simp [substName, h.mem x hx]

theorem Removed.name_not_mem {pre σ σ1} (h : Removed pre σ σ1) {x : Ident} (hx : x ∉ pre) :
    substName σ1 x = substName σ x := by
  simp [substName, h.not_mem x hx]

/-! ## renamings of a scope implemented by a pair of substitutions -/

def selSubst (pc : PC) (ps cs : Subst) : Subst :=
  match pc with
  | .prd => ps
  | .cns => cs

/-- the substitutions `(ps, cs)` rename scope `sc` into scope `sc'`: a variable occurrence of
    chirality `pc` whose binder (if any) has that chirality is mapped to the name at the same
    position -/
def REN (n : Nat) (ps cs : Subst) (sc sc' : List Ident) (chis : List PC) : Prop :=
  ∀ (pc : PC) (x : Ident), x.id ≤ n → (dbVar sc x).chiOK chis pc →
    dbVar sc' (substName (selSubst pc ps cs) x) = dbVar sc x

theorem dbVar_prefix_mem {pre : List Ident} {x : Ident} (hx : x ∈ pre) (sc sc' : List Ident) :
    dbVar (pre ++ sc) x = dbVar (pre ++ sc') x := by
  induction pre with
  | nil => simp at hx
  | cons y r ih =>
    simp only [List.cons_append, dbVar]
    by_cases hy : y = x
    · simp [hy]
    · simp only [hy, if_false]
      rcases List.mem_cons.mp hx with e | hx'
      · exact absurd e.symm hy
      · rw [ih hx']

theorem substName_id_or_range {σ : Subst} {n : Nat} (hr : Subst.RangeGt n σ) (x : Ident) :
    substName σ x = x ∨ n < (substName σ x).id := by
  unfold substName
  cases hf : substFind σ x with
  | none => exact Or.inl rfl
  | some t =>
    cases t with
    | var pc w ty => exact Or.inr (hr x pc w ty hf)
    | _ => exact Or.inl rfl

theorem REN.ext {n : Nat} {ps cs : Subst} {sc sc' : List Ident} {chis : List PC}
    (h : REN n ps cs sc sc' chis) (hrp : Subst.RangeGt n ps) (hrc : Subst.RangeGt n cs)
    {pre : List Ident} (hpre : ∀ y ∈ pre, y.id ≤ n) {prechis : List PC}
    (hl : prechis.length = pre.length) {ps1 cs1 : Subst} (hp : Removed pre ps ps1)
    (hc : Removed pre cs cs1) :
    REN n ps1 cs1 (pre ++ sc) (pre ++ sc') (prechis ++ chis) := by
  intro pc x hx hchi
  have hsel : Removed pre (selSubst pc ps cs) (selSubst pc ps1 cs1) := by
    cases pc <;> simpa [selSubst]
  have hrs : Subst.RangeGt n (selSubst pc ps cs) := by cases pc <;> simpa [selSubst]
  by_cases hm : x ∈ pre
  · rw [hsel.name_mem hm]
    exact dbVar_prefix_mem hm sc' sc
  · rw [hsel.name_not_mem hm]
    rw [dbVar_append_not_mem _ _ _ hm] at hchi ⊢
    rw [← hl] at hchi
    have hchi' := DVar.chiOK_shift.mp hchi
    have hx' : substName (selSubst pc ps cs) x ∉ pre := by
      rcases substName_id_or_range hrs x with e | e
      · rw [e]; exact hm
      · intro hmem; have := hpre _ hmem; omega
    rw [dbVar_append_not_mem _ _ _ hx', h pc x hx hchi']

/-! ## the renaming lemma -/

def IdsLe (n : Nat) (l : List Ident) : Prop := ∀ i ∈ l, i.id ≤ n

@[simp] theorem IdsLe_nil (n : Nat) : IdsLe n [] := by simp [IdsLe]
@[simp] theorem IdsLe_append (n : Nat) (a b : List Ident) :
    IdsLe n (a ++ b) ↔ IdsLe n a ∧ IdsLe n b := by
  simp only [IdsLe, List.mem_append]
  constructor
  · intro h; exact ⟨fun i hi => h i (Or.inl hi), fun i hi => h i (Or.inr hi)⟩
  · rintro ⟨h1, h2⟩ i (hi | hi)
    · exact h1 i hi
    · exact h2 i hi
@[simp] theorem IdsLe_cons (n : Nat) (a : Ident) (b : List Ident) :
    IdsLe n (a :: b) ↔ a.id ≤ n ∧ IdsLe n b := by
  simp [IdsLe]
theorem IdsLe.mono {n m : Nat} {l : List Ident} (h : IdsLe n l) (hm : n ≤ m) : IdsLe m l :=
  fun i hi => Nat.le_trans (h i hi) hm

theorem ctxSig_map_fst (c : Ctx) : (ctxSig c).map (·.1) = c.map (·.chi) := by
  simp [ctxSig]

section
variable {n : Nat}

mutual
  theorem ren_term : (t : Term) → ∀ {ps cs : Subst} {sc sc' : List Ident} {chis : List PC},
      REN n ps cs sc sc' chis → Subst.VarsOf .prd ps → Subst.VarsOf .cns cs →
      Subst.RangeGt n ps → Subst.RangeGt n cs → IdsLe n t.idents → (dbT sc t).chiWS chis →
      dbT sc t = dbT sc' (substTerm ps cs t)
    | .var .prd v ty, ps, cs, sc, sc', chis, h, hvp, _, _, _, hi, hw => by
      simp only [Term.idents, IdsLe_cons] at hi
      simp only [dbT, DTerm.chiWS] at hw
      have := h .prd v hi.1 hw
      simp only [selSubst, substName] at this
      simp only [substTerm]
      cases hf : substFind ps v with
      | none => simp only [hf] at this ⊢; simp only [dbT, this]
      | some t =>
        obtain ⟨w, ty', rfl⟩ := hvp v t hf
        simp only [hf] at this ⊢
        simp only [dbT, this]
    | .var .cns v ty, ps, cs, sc, sc', chis, h, _, hvc, _, _, hi, hw => by
      simp only [Term.idents, IdsLe_cons] at hi
      simp only [dbT, DTerm.chiWS] at hw
      have := h .cns v hi.1 hw
      simp only [selSubst, substName] at this
      simp only [substTerm]
      cases hf : substFind cs v with
      | none => simp only [hf] at this ⊢; simp only [dbT, this]
      | some t =>
        obtain ⟨w, ty', rfl⟩ := hvc v t hf
        simp only [hf] at this ⊢
        simp only [dbT, this]
    | .lit k, _, _, _, _, _, _, _, _, _, _, _, _ => by simp [substTerm, dbT]
    | .op a o b, ps, cs, sc, sc', chis, h, hvp, hvc, hrp, hrc, hi, hw => by
      simp only [Term.idents, IdsLe_append] at hi
      simp only [dbT, DTerm.chiWS] at hw
      simp only [substTerm, dbT]
      rw [ren_term a h hvp hvc hrp hrc hi.1 hw.1, ren_term b h hvp hvc hrp hrc hi.2 hw.2]
    | .mu pc v ty s, ps, cs, sc, sc', chis, h, hvp, hvc, hrp, hrc, hi, hw => by
      simp only [Term.idents, IdsLe_cons] at hi
      simp only [dbT, DTerm.chiWS] at hw
      simp only [substTerm, dbT]
      have hR := h.ext hrp hrc (pre := [v]) (by simpa using hi.1) (prechis := [pc.flip]) rfl
        (Removed.single ps v) (Removed.single cs v)
      simp only [List.cons_append, List.nil_append] at hR
      rw [ren_stmt s hR ((Removed.single ps v).varsOf hvp) ((Removed.single cs v).varsOf hvc)
        ((Removed.single ps v).rangeGt hrp) ((Removed.single cs v).rangeGt hrc) hi.2 hw]
    | .xtor pc k as ty, ps, cs, sc, sc', chis, h, hvp, hvc, hrp, hrc, hi, hw => by
      simp only [Term.idents] at hi
      simp only [dbT, DTerm.chiWS] at hw
      simp only [substTerm, dbT]
      rw [ren_args as h hvp hvc hrp hrc hi hw]
    | .xcase pc ty cl, ps, cs, sc, sc', chis, h, hvp, hvc, hrp, hrc, hi, hw => by
      simp only [Term.idents] at hi
      simp only [dbT, DTerm.chiWS] at hw
      simp only [substTerm, dbT]
      rw [ren_clauses cl h hvp hvc hrp hrc hi hw]
  theorem ren_args : (as : Args) → ∀ {ps cs : Subst} {sc sc' : List Ident} {chis : List PC},
      REN n ps cs sc sc' chis → Subst.VarsOf .prd ps → Subst.VarsOf .cns cs →
      Subst.RangeGt n ps → Subst.RangeGt n cs → IdsLe n as.idents → (dbA sc as).chiWS chis →
      dbA sc as = dbA sc' (substArgs ps cs as)
    | .nil, _, _, _, _, _, _, _, _, _, _, _, _ => by simp [substArgs, dbA]
    | .cons pc t r, ps, cs, sc, sc', chis, h, hvp, hvc, hrp, hrc, hi, hw => by
      simp only [Args.idents, IdsLe_append] at hi
      simp only [dbA, DArgs.chiWS] at hw
      simp only [substArgs, dbA]
      rw [ren_term t h hvp hvc hrp hrc hi.1 hw.1, ren_args r h hvp hvc hrp hrc hi.2 hw.2]
  theorem ren_clauses : (cl : Clauses) → ∀ {ps cs : Subst} {sc sc' : List Ident} {chis : List PC},
      REN n ps cs sc sc' chis → Subst.VarsOf .prd ps → Subst.VarsOf .cns cs →
      Subst.RangeGt n ps → Subst.RangeGt n cs → IdsLe n cl.idents → (dbC sc cl).chiWS chis →
      dbC sc cl = dbC sc' (substClauses ps cs cl)
    | .nil, _, _, _, _, _, _, _, _, _, _, _, _ => by simp [substClauses, dbC]
    | .cons x ctx b r, ps, cs, sc, sc', chis, h, hvp, hvc, hrp, hrc, hi, hw => by
      simp only [Clauses.idents, IdsLe_append] at hi
      simp only [dbC, DClauses.chiWS, ctxSig_map_fst] at hw
      simp only [substClauses, dbC]
      have hR := h.ext hrp hrc (pre := ctxVars ctx) hi.1.1 (prechis := ctx.map (·.chi))
        (by simp [ctxVars]) (Removed.ctx ps ctx) (Removed.ctx cs ctx)
      rw [ren_stmt b hR ((Removed.ctx ps ctx).varsOf hvp) ((Removed.ctx cs ctx).varsOf hvc)
        ((Removed.ctx ps ctx).rangeGt hrp) ((Removed.ctx cs ctx).rangeGt hrc) hi.1.2 hw.1,
        ren_clauses r h hvp hvc hrp hrc hi.2 hw.2]
  theorem ren_stmt : (s : Stmt) → ∀ {ps cs : Subst} {sc sc' : List Ident} {chis : List PC},
      REN n ps cs sc sc' chis → Subst.VarsOf .prd ps → Subst.VarsOf .cns cs →
      Subst.RangeGt n ps → Subst.RangeGt n cs → IdsLe n s.idents → (dbS sc s).chiWS chis →
      dbS sc s = dbS sc' (substStmt ps cs s)
    | .cut ty p c, ps, cs, sc, sc', chis, h, hvp, hvc, hrp, hrc, hi, hw => by
      simp only [Stmt.idents, IdsLe_append] at hi
      simp only [dbS, DStmt.chiWS] at hw
      simp only [substStmt, dbS]
      rw [ren_term p h hvp hvc hrp hrc hi.1 hw.1, ren_term c h hvp hvc hrp hrc hi.2 hw.2]
    | .ifc srt a b t e, ps, cs, sc, sc', chis, h, hvp, hvc, hrp, hrc, hi, hw => by
      simp only [Stmt.idents, IdsLe_append] at hi
      simp only [dbS, DStmt.chiWS] at hw
      simp only [substStmt, dbS]
      rw [ren_term a h hvp hvc hrp hrc hi.1.1.1 hw.1, ren_term b h hvp hvc hrp hrc hi.1.1.2 hw.2.1,
        ren_stmt t h hvp hvc hrp hrc hi.1.2 hw.2.2.1, ren_stmt e h hvp hvc hrp hrc hi.2 hw.2.2.2]
    | .ifz srt a t e, ps, cs, sc, sc', chis, h, hvp, hvc, hrp, hrc, hi, hw => by
      simp only [Stmt.idents, IdsLe_append] at hi
      simp only [dbS, DStmt.chiWS] at hw
      simp only [substStmt, dbS]
      rw [ren_term a h hvp hvc hrp hrc hi.1.1 hw.1,
        ren_stmt t h hvp hvc hrp hrc hi.1.2 hw.2.1, ren_stmt e h hvp hvc hrp hrc hi.2 hw.2.2]
    | .print nl a nx, ps, cs, sc, sc', chis, h, hvp, hvc, hrp, hrc, hi, hw => by
      simp only [Stmt.idents, IdsLe_append] at hi
      simp only [dbS, DStmt.chiWS] at hw
      simp only [substStmt, dbS]
      rw [ren_term a h hvp hvc hrp hrc hi.1 hw.1, ren_stmt nx h hvp hvc hrp hrc hi.2 hw.2]
    | .call f as ty, ps, cs, sc, sc', chis, h, hvp, hvc, hrp, hrc, hi, hw => by
      simp only [Stmt.idents] at hi
      simp only [dbS, DStmt.chiWS] at hw
      simp only [substStmt, dbS]
      rw [ren_args as h hvp hvc hrp hrc hi hw]
    | .exit a ty, ps, cs, sc, sc', chis, h, hvp, hvc, hrp, hrc, hi, hw => by
      simp only [Stmt.idents] at hi
      simp only [dbS, DStmt.chiWS] at hw
      simp only [substStmt, dbS]
      rw [ren_term a h hvp hvc hrp hrc hi hw]
end

end

end Scc.Core
