/-
  Scc.Core.ProofsAlphaSimC — the ς-machine is invariant under α-equivalence, one step and runs:
  two definition-wise α-equivalent programs without ς-names run in LOCK-STEP on the ς-machine and
  produce equal behaviours for every fuel (`alpha_run_eq`).
-/
import Scc.Core.ProofsAlphaSimB
import Scc.Core.ProofsFocusSimD
import Scc.Core.ProofsFocusSem

namespace Scc.Core
namespace AlphaSim

open FocusSim (keys SigLt keys_nil keys_cons)

structure SRelA (st1 st2 : State) : Prop where
  out : st1.out = st2.out
  fresh : st1.fresh = st2.fresh
  env : EA st1.fresh st1.env st2.env
  code : CodeA st1.fresh (keys st1.env) st1.stmt (keys st2.env) st2.stmt

def StepRA : Step State → Step State → Prop
  | .next st1, .next st2 => SRelA st1 st2
  | .final r, .final r' => r = r'
  | _, _ => False

section
variable {st1 st2 : State}

theorem goto_rel (h : SRelA st1 st2) {s s2 : Stmt} {ρ ρ2 : CEnv}
    (he : EA st1.fresh ρ ρ2) (hc : CodeA st1.fresh (keys ρ) s (keys ρ2) s2) :
    StepRA (st1.goto s ρ) (st2.goto s2 ρ2) := by
  simp only [State.goto, StepRA]
  exact ⟨h.out, h.fresh, he, hc⟩

theorem select_rel (h : SRelA st1 st2) {ρ ρ2 : CEnv} (he : EA st1.fresh ρ ρ2)
    {cl cl2 : Clauses} (hc : CodeAC st1.fresh (keys ρ) cl (keys ρ2) cl2) (x : Ident)
    {vs vs2 : List CVal} (hv : VsA st1.fresh vs vs2) :
    StepRA (st1.select ρ cl x vs) (st2.select ρ2 cl2 x vs2) := by
  simp only [State.select]
  rcases find_rel x cl cl2 hc.db hc.sig1 hc.sig2 with
    ⟨h1, h2⟩ | ⟨ctx, body, ctx2, body2, h1, h2, hl, hcode⟩
  · simp [h1, h2, StepRA, stuck]
  · simp only [h1, h2]
    have := bind_rel he ctx ctx2 hl hv
    cases h3 : Env.bind ρ ctx vs <;> cases h4 : Env.bind ρ2 ctx2 vs2 <;>
      simp only [h3, h4, ExRel] at this ⊢
    · simp [StepRA, stuck, this]
    · obtain ⟨he', hk1, hk2⟩ := this
      refine goto_rel h he' ?_
      rw [hk1, hk2]
      exact hcode

theorem pass_rel (h : SRelA st1 st2) {pv cv pv2 cv2 : CVal} (hp : VA st1.fresh pv pv2)
    (hc : VA st1.fresh cv cv2) : StepRA (st1.pass pv cv) (st2.pass pv2 cv2) := by
  cases hc with
  | mutilde he hcode => exact goto_rel h (EA.cons _ _ hp he) hcode
  | case he hcode =>
    cases hp with
    | con c hvs => exact select_rel h he hcode c hvs
    | _ => simp [State.pass, StepRA, stuck]
  | halt =>
    cases hp with
    | int n => simp [State.pass, StepRA]
    | _ => simp [State.pass, StepRA, stuck]
  | _ => simp [State.pass, StepRA, stuck]

theorem invoke_rel (h : SRelA st1 st2) {pv pv2 : CVal} (hp : VA st1.fresh pv pv2)
    (d : Ident) {vs vs2 : List CVal} (hvs : VsA st1.fresh vs vs2) :
    StepRA (st1.invoke pv d vs) (st2.invoke pv2 d vs2) := by
  cases hp with
  | cocase he hcode => exact select_rel h he hcode d hvs
  | thunk he hcode => exact goto_rel h (EA.cons _ _ (VA.dtor d hvs) he) hcode
  | _ => simp [State.invoke, StepRA, stuck]

theorem stepCut_rel (h : SRelA st1 st2) (cod : Bool) {p c p2 c2 : Term}
    (hp : ExRel (VA st1.fresh) (prdVal st1.env p) (prdVal st2.env p2))
    (hc : ExRel (VA st1.fresh) (cnsVal st1.env c) (cnsVal st2.env c2))
    (hmu : (∃ pc a t s, p = .mu pc a t s) ↔ (∃ pc a t s, p2 = .mu pc a t s)) :
    StepRA (stepCut cod st1 p c) (stepCut cod st2 p2 c2) := by
  have he := h.env
  cases cod
  · by_cases hm : ∃ pc a t s, p = .mu pc a t s
    · obtain ⟨pc, a, t, s, rfl⟩ := hm
      obtain ⟨pc2, a2, t2, s2, rfl⟩ := hmu.mp ⟨_, _, _, _, rfl⟩
      simp only [prdVal, ExRel] at hp
      cases hp with
      | thunk _ hcode =>
        simp only [stepCut, Bool.false_eq_true, if_false]
        cases h1 : cnsVal st1.env c <;> cases h2 : cnsVal st2.env c2 <;>
          simp only [h1, h2, ExRel] at hc ⊢
        · simp [StepRA, stuck, hc]
        · exact goto_rel h (EA.cons _ _ hc he) hcode
    · have hm2 : ¬ ∃ pc a t s, p2 = .mu pc a t s := fun e => hm (hmu.mpr e)
      rw [FocusSim.stepCut_data_nonmu hm, FocusSim.stepCut_data_nonmu hm2]
      cases h1 : prdVal st1.env p <;> cases h2 : prdVal st2.env p2 <;>
        simp only [h1, h2, ExRel] at hp ⊢
      · simp [StepRA, stuck, hp]
      · cases h3 : cnsVal st1.env c <;> cases h4 : cnsVal st2.env c2 <;>
          simp only [h3, h4, ExRel] at hc ⊢
        · simp [StepRA, stuck, hc]
        · exact pass_rel h hp hc
  · simp only [stepCut, if_true]
    cases h3 : cnsVal st1.env c <;> cases h4 : cnsVal st2.env c2 <;>
      simp only [h3, h4, ExRel] at hc ⊢
    · simp [StepRA, stuck, hc]
    · cases hc with
      | mutilde he' hcode =>
        cases h1 : prdVal st1.env p <;> cases h2 : prdVal st2.env p2 <;>
          simp only [h1, h2, ExRel] at hp ⊢
        · simp [StepRA, stuck, hp]
        · exact goto_rel h (EA.cons _ _ hp he') hcode
      | dtor d hvs =>
        cases h1 : prdVal st1.env p <;> cases h2 : prdVal st2.env p2 <;>
          simp only [h1, h2, ExRel] at hp ⊢
        · simp [StepRA, stuck, hp]
        · exact invoke_rel h hp d hvs
      | _ => simp [StepRA, stuck]

end

/-! ## programs -/

structure DefRelA (d1 d2 : Def) : Prop where
  name : d1.name = d2.name
  chis : d1.ctx.map (·.chi) = d2.ctx.map (·.chi)
  code : CodeA 0 (ctxVars d1.ctx) d1.body (ctxVars d2.ctx) d2.body

def DefsRelA : List Def → List Def → Prop
  | [], [] => True
  | d :: r, d' :: r' => DefRelA d d' ∧ DefsRelA r r'
  | _, _ => False

structure PRelA (p1 p2 : Prog) : Prop where
  codata : p1.codataTypes = p2.codataTypes
  defs : DefsRelA p1.defs p2.defs

theorem find_def_rel (f : Ident → Bool) : ∀ {ds ds' : List Def}, DefsRelA ds ds' →
    (ds.find? (fun d => f d.name) = none ∧ ds'.find? (fun d => f d.name) = none) ∨
    ∃ d d', ds.find? (fun d => f d.name) = some d ∧ ds'.find? (fun d => f d.name) = some d' ∧
      DefRelA d d'
  | [], [], _ => Or.inl ⟨rfl, rfl⟩
  | [], _ :: _, h => by simp [DefsRelA] at h
  | _ :: _, [], h => by simp [DefsRelA] at h
  | d :: r, d' :: r', h => by
    obtain ⟨h1, h2⟩ := h
    simp only [List.find?_cons, ← h1.name]
    cases hf : f d.name
    · exact find_def_rel f h2
    · exact Or.inr ⟨d, d', rfl, rfl, h1⟩

theorem DefRelA.ctx_length {d1 d2 : Def} (h : DefRelA d1 d2) : d1.ctx.length = d2.ctx.length := by
  have := congrArg List.length h.chis
  simpa using this

/-! ## one step -/

theorem ty_alpha {sc1 sc2 : List Ident} {t1 t2 : Term} (h : dbT sc1 t1 = dbT sc2 t2)
    (hv : t1.isVar = false) : t1.ty = t2.ty := by
  cases t1 with
  | var pc v ty => simp [Term.isVar] at hv
  | lit i => simp only [dbT] at h; obtain rfl := dbT_eq_lit h.symm; rfl
  | op a o b => simp only [dbT] at h; obtain ⟨a', b', rfl, -, -⟩ := dbT_eq_op h.symm; rfl
  | mu pc v ty s => simp only [dbT] at h; obtain ⟨v', s', rfl, -⟩ := dbT_eq_mu h.symm; rfl
  | xtor pc k as ty => simp only [dbT] at h; obtain ⟨as', rfl, -⟩ := dbT_eq_xtor h.symm; rfl
  | xcase pc ty cl => simp only [dbT] at h; obtain ⟨cl', rfl, -⟩ := dbT_eq_xcase h.symm; rfl

theorem sigLt_sigmaCut {k : Nat} {s : Stmt} {pc : PC} {t : Term} {S : Term → Stmt}
    (hs : s.split = some (pc, t, S)) (hsig : SigLt k s.idents) (ty : Ty) :
    SigLt (k + 1) (sigmaCut pc t (sigmaName k) (S (.var pc (sigmaName k) ty))).idents := by
  have hsp := SSplit.of_split' s hs
  intro i hi hn
  rcases FocusSim.sigmaCut_idents _ _ _ _ i hi with h | h | h
  · exact Nat.lt_succ_of_lt (hsig i (hsp.idents_t i h) hn)
  · subst h; simp [sigmaName]
  · rcases hsp.idents_S _ i h with h | h
    · exact Nat.lt_succ_of_lt (hsig i h hn)
    · simp only [Term.idents, List.mem_singleton] at h
      subst h; simp [sigmaName]

theorem step_rel {p1 p2 : Prog} (hP : PRelA p1 p2) {st1 st2 : State} (h : SRelA st1 st2) :
    StepRA (step p1 st1) (step p2 st2) := by
  obtain ⟨hout, hfr, he, hcode⟩ := h
  have h : SRelA st1 st2 := ⟨hout, hfr, he, hcode⟩
  obtain ⟨hdb, hs1, hs2⟩ := hcode
  rcases split_alpha hdb with ⟨hn1, hn2⟩ | ⟨pc, t1, S1, t2, S2, hsp1, hsp2, ht⟩
  · -- a proper step
    unfold step
    simp only [sigmaStep, hn1, hn2]
    cases hst : st1.stmt with
    | cut ty p c =>
      rw [hst] at hn1 hs1 hdb
      simp only [dbS] at hdb
      obtain ⟨p', c', hst2, hp, hc⟩ := dbS_eq_cut hdb.symm
      rw [hst2] at hs2 ⊢
      simp only [Stmt.idents, FocusSim.SigLt_append] at hs1 hs2
      simp only [hP.codata]
      exact stepCut_rel h _ (prdVal_rel he hp.symm hs1.1 hs2.1)
        (cnsVal_rel he hc.symm hs1.2 hs2.2) (mu_alpha_iff hp.symm)
    | ifc srt a b t e =>
      rw [hst] at hn1 hs1 hdb
      have hab : a.isVar = true ∧ b.isVar = true := by
        simp only [Stmt.split] at hn1
        split at hn1
        · simp at hn1
        · split at hn1
          · simp at hn1
          · simp_all
      obtain ⟨pa, va, ta, rfl⟩ := Term.isVar_eq hab.1
      obtain ⟨pb, vb, tb, rfl⟩ := Term.isVar_eq hab.2
      simp only [dbS, dbT] at hdb
      obtain ⟨a', b', t', e', hst2, ha, hb, ht', he'⟩ := dbS_eq_ifc hdb.symm
      obtain ⟨va', ta', rfl, hva⟩ := dbT_eq_var ha
      obtain ⟨vb', tb', rfl, hvb⟩ := dbT_eq_var hb
      rw [hst2] at hs2 ⊢
      simp only [Stmt.idents, FocusSim.SigLt_append] at hs1 hs2
      simp only [lookupInt_rel he hva.symm, lookupInt_rel he hvb.symm]
      cases st2.env.lookupInt va' with
      | error _ => simp [StepRA, stuck]
      | ok x =>
        cases st2.env.lookupInt vb' with
        | error _ => simp [StepRA, stuck]
        | ok y =>
          by_cases hc : compare srt x y = true
          · simp only [hc, if_true]
            exact goto_rel h he ⟨ht'.symm, hs1.1.2, hs2.1.2⟩
          · simp only [hc, Bool.false_eq_true, if_false]
            exact goto_rel h he ⟨he'.symm, hs1.2, hs2.2⟩
    | ifz srt a t e =>
      rw [hst] at hn1 hs1 hdb
      have hab : a.isVar = true := by
        simp only [Stmt.split] at hn1
        split at hn1
        · simp at hn1
        · simp_all
      obtain ⟨pa, va, ta, rfl⟩ := Term.isVar_eq hab
      simp only [dbS, dbT] at hdb
      obtain ⟨a', t', e', hst2, ha, ht', he'⟩ := dbS_eq_ifz hdb.symm
      obtain ⟨va', ta', rfl, hva⟩ := dbT_eq_var ha
      rw [hst2] at hs2 ⊢
      simp only [Stmt.idents, FocusSim.SigLt_append] at hs1 hs2
      simp only [lookupInt_rel he hva.symm]
      cases st2.env.lookupInt va' with
      | error _ => simp [StepRA, stuck]
      | ok x =>
        by_cases hc : compare srt x 0 = true
        · simp only [hc, if_true]
          exact goto_rel h he ⟨ht'.symm, hs1.1.2, hs2.1.2⟩
        · simp only [hc, Bool.false_eq_true, if_false]
          exact goto_rel h he ⟨he'.symm, hs1.2, hs2.2⟩
    | print nl a nx =>
      rw [hst] at hn1 hs1 hdb
      have hab : a.isVar = true := by
        simp only [Stmt.split] at hn1
        split at hn1
        · simp at hn1
        · simp_all
      obtain ⟨pa, va, ta, rfl⟩ := Term.isVar_eq hab
      simp only [dbS, dbT] at hdb
      obtain ⟨a', nx', hst2, ha, hn'⟩ := dbS_eq_print hdb.symm
      obtain ⟨va', ta', rfl, hva⟩ := dbT_eq_var ha
      rw [hst2] at hs2 ⊢
      simp only [Stmt.idents, FocusSim.SigLt_append] at hs1 hs2
      simp only [lookupInt_rel he hva.symm]
      cases st2.env.lookupInt va' with
      | error _ => simp [StepRA, stuck]
      | ok x =>
        simp only [StepRA]
        exact ⟨by simp [hout], hfr, he, ⟨hn'.symm, hs1.2, hs2.2⟩⟩
    | call f as ty =>
      rw [hst] at hn1 hs1 hdb
      simp only [dbS] at hdb
      obtain ⟨as', hst2, hA⟩ := dbS_eq_call hdb.symm
      rw [hst2]
      simp only
      rcases find_def_rel (fun nm => decide (nm = f)) hP.defs with ⟨h1, h2⟩ | ⟨d, d', h1, h2, hd⟩
      · simp [h1, h2, StepRA, stuck]
      · simp only [h1, h2]
        have hl := argVals_rel he as as' hA.symm
        cases h3 : argVals st1.env as <;> cases h4 : argVals st2.env as' <;>
          simp only [h3, h4, ExRel] at hl ⊢
        · simp [StepRA, stuck, hl]
        · have hb := bind_rel (ρ := []) (ρ' := []) (k := st1.fresh) EA.nil d.ctx d'.ctx
            hd.ctx_length hl
          cases h5 : Env.bind ([] : CEnv) d.ctx _ <;> cases h6 : Env.bind ([] : CEnv) d'.ctx _ <;>
            simp only [h5, h6, ExRel] at hb ⊢
          · simp [StepRA, stuck, hb]
          · obtain ⟨he', hk1, hk2⟩ := hb
            refine goto_rel h he' ?_
            rw [hk1, hk2]
            simpa using hd.code.mono (Nat.zero_le _)
    | exit a ty =>
      rw [hst] at hn1 hs1 hdb
      have hab : a.isVar = true := by
        simp only [Stmt.split] at hn1
        split at hn1
        · simp at hn1
        · simp_all
      obtain ⟨pa, va, ta, rfl⟩ := Term.isVar_eq hab
      simp only [dbS, dbT] at hdb
      obtain ⟨a', hst2, ha⟩ := dbS_eq_exit hdb.symm
      obtain ⟨va', ta', rfl, hva⟩ := dbT_eq_var ha
      rw [hst2]
      simp only [lookupInt_rel he hva.symm]
      cases st2.env.lookupInt va' <;> simp [StepRA, stuck]
  · -- a ς-step on both sides
    rw [FocusSim.step_of_split_some hsp1, FocusSim.step_of_split_some hsp2]
    simp only [StepRA]
    have hnv := (SSplit.of_split' _ hsp1).notVar
    have hty := ty_alpha ht hnv
    have hy1 : sigmaName st1.fresh ∉ st1.stmt.idents := by
      intro hmem; have := hs1 _ hmem rfl; simp [sigmaName] at this
    have hy2 : sigmaName st1.fresh ∉ st2.stmt.idents := by
      intro hmem; have := hs2 _ hmem rfl; simp [sigmaName] at this
    have hw : dbS (sigmaName st1.fresh :: keys st1.env) st1.stmt =
        dbS (sigmaName st1.fresh :: keys st2.env) st2.stmt := by
      have := dbS_weaken (sc := keys st1.env) (sc' := keys st2.env)
        (ext := [sigmaName st1.fresh]) (ext' := [sigmaName st1.fresh]) rfl
        (by simpa using hy1) (by simpa using hy2) hdb
      simpa using this
    have hplug := plug_alpha (x1 := .var pc (sigmaName st1.fresh) t1.ty)
      (x2 := .var pc (sigmaName st1.fresh) t2.ty) hsp1 hsp2 hw (by simp [dbT, dbVar])
    refine ⟨hout, by simp [hfr], he.mono (Nat.le_succ _), ?_, ?_, ?_⟩
    · simp only
      rw [← hfr]
      rw [hty] at hplug
      cases pc
      · simp only [sigmaCut, dbS, dbT, ht, hty, hplug]
      · simp only [sigmaCut, dbS, dbT, ht, hty, hplug]
    · exact sigLt_sigmaCut hsp1 hs1 _
    · simp only
      rw [← hfr]
      exact sigLt_sigmaCut hsp2 hs2 _

/-! ## runs -/

theorem stepN_eq {p1 p2 : Prog} (hP : PRelA p1 p2) : ∀ (f : Nat) (st1 st2 : State),
    SRelA st1 st2 → stepN p1 f st1 = stepN p2 f st2
  | 0, st1, st2, h => by simp [stepN, h.out]
  | f + 1, st1, st2, h => by
    have hs := step_rel hP h
    simp only [stepN]
    cases h1 : step p1 st1 <;> cases h2 : step p2 st2 <;> simp only [h1, h2, StepRA] at hs ⊢
    · exact stepN_eq hP f _ _ hs
    · simp [hs, h.out]

theorem entryEnv_rel : ∀ (c1 c2 : Ctx) (args : List (BitVec 64)),
    c1.map (·.chi) = c2.map (·.chi) →
    ExRel (fun e e' => EA 0 e e' ∧ keys e = ctxVars c1 ∧ keys e' = ctxVars c2)
      (entryEnv c1 args : Except Why CEnv) (entryEnv c2 args : Except Why CEnv)
  | [], [], args, _ => by
    cases args <;> simp [entryEnv, ExRel, EA.nil, ctxVars]
  | [], _ :: _, _, h => by simp at h
  | _ :: _, [], _, h => by simp at h
  | b :: bs, b' :: bs', args, h => by
    simp only [List.map_cons, List.cons.injEq] at h
    obtain ⟨hb, hr⟩ := h
    cases hchi : b.chi with
    | cns =>
      have hchi' : b'.chi = .cns := by rw [← hb, hchi]
      have := entryEnv_rel bs bs' args hr
      simp only [entryEnv, hchi, hchi']
      cases h1 : (entryEnv bs args : Except Why CEnv) <;>
        cases h2 : (entryEnv bs' args : Except Why CEnv) <;> simp only [h1, h2, ExRel] at this ⊢
      · exact this
      · exact ⟨EA.cons _ _ VA.halt this.1, by simp [ctxVars, this.2.1], by simp [ctxVars, this.2.2]⟩
    | prd =>
      have hchi' : b'.chi = .prd := by rw [← hb, hchi]
      cases args with
      | nil => simp [entryEnv, hchi, hchi', ExRel]
      | cons a as =>
        have := entryEnv_rel bs bs' as hr
        simp only [entryEnv, hchi, hchi']
        cases h1 : (entryEnv bs as : Except Why CEnv) <;>
          cases h2 : (entryEnv bs' as : Except Why CEnv) <;> simp only [h1, h2, ExRel] at this ⊢
        · exact this
        · exact ⟨EA.cons _ _ (VA.int a) this.1, by simp [ctxVars, this.2.1],
            by simp [ctxVars, this.2.2]⟩

/-- **α-equivalent programs have equal runs on the ς-machine**, for every fuel -/
theorem run_eq_of_prel {p1 p2 : Prog} (hP : PRelA p1 p2) (args : List (BitVec 64)) (f : Nat) :
    run p1 args f = run p2 args f := by
  unfold run
  rcases find_def_rel (fun nm => decide (nm.name = mainName)) hP.defs with
    ⟨h1, h2⟩ | ⟨d, d', h1, h2, hd⟩
  · simp only [h1, h2]
  · simp only [h1, h2]
    have := entryEnv_rel d.ctx d'.ctx args hd.chis
    cases h3 : (entryEnv d.ctx args : Except Why CEnv) <;>
      cases h4 : (entryEnv d'.ctx args : Except Why CEnv) <;> simp only [h3, h4, ExRel] at this ⊢
    · rw [this]
    · obtain ⟨he, hk1, hk2⟩ := this
      exact stepN_eq hP f _ _ ⟨rfl, rfl, he, by simpa only [hk1, hk2] using hd.code⟩

theorem defsRelA_of_alpha : ∀ {ds ds' : List Def}, DefsAlpha ds ds' →
    (∀ d ∈ ds, SigLt 0 d.body.idents) → (∀ d ∈ ds', SigLt 0 d.body.idents) → DefsRelA ds ds'
  | [], [], _, _, _ => trivial
  | [], _ :: _, h, _, _ => by simp [DefsAlpha] at h
  | _ :: _, [], h, _, _ => by simp [DefsAlpha] at h
  | d :: r, d' :: r', h, h1, h2 => by
    obtain ⟨ha, hr⟩ := h
    exact ⟨⟨ha.name, ha.chis, ha.body, h1 d (by simp), h2 d' (by simp)⟩,
      defsRelA_of_alpha hr (fun x hx => h1 x (by simp [hx])) (fun x hx => h2 x (by simp [hx]))⟩

/-- **the ς-machine is invariant under α-equivalence of programs** -/
theorem alpha_run_eq {p1 p2 : Prog} (hc : p1.codataTypes = p2.codataTypes)
    (hα : DefsAlpha p1.defs p2.defs) (h1 : ∀ d ∈ p1.defs, SigLt 0 d.body.idents)
    (h2 : ∀ d ∈ p2.defs, SigLt 0 d.body.idents) (args : List (BitVec 64)) (f : Nat) :
    run p1 args f = run p2 args f :=
  run_eq_of_prel ⟨hc, defsRelA_of_alpha hα h1 h2⟩ args f

end AlphaSim
end Scc.Core
