/-
  Scc.Core.SizeFocus — C19 for static focusing (second half of `Prog::focus`): node counts of focused
  Core (`fsTermSize` / `fsStmtSize` / `fsDefSize` / `fsProgSize`, counted like `termSize` … of
  Scc.Fun2Core.Size: one per node, one per binding of an argument list / clause context / operand)
  and the bound  |focus s| ≤ 4 · |s|.

  Why linear: `bindTerm t k` calls its continuation `k` exactly ONCE (CPS, no duplication), and wraps
  its result into at most one cut, one μ~/μ binder and the focused `t`:
     literal          ⟨n | μ~x. k x⟩                      3 new nodes (+ the slot of `x` at the use)
     a ⊙ b            ⟨x1 ⊙ x2 | μ~x. k x⟩                5 new nodes
     μ / case / cocase ⟨t' | μ~x. k x⟩ / ⟨μa. k a | t'⟩     3 new nodes + |t'|
     K(args)          ⟨K(xs) | μ~x. k x⟩                  3 + |args| new nodes
  so `|bindTerm t k| + 1 ≤ |k ..| + 4·|t|` whenever `|k b| ≤ K` for every binding `b`.   Proof file.
-/
import Scc.Core.Focus
import Scc.Core.SizeUniquify

namespace Scc.Core.SizeFocus

open Scc.Core Scc.Core.SizeUniquify
open Scc.Fun2Core (termSize argsSize clausesSize stmtSize defSize defsSize progSize)

/-! ## node counts of focused Core -/

mutual
  def fsTermSize : FsTerm → Nat
    | .var _ _ _ => 1
    | .lit _ => 1
    | .op _ _ _ => 3
    | .mu _ _ _ s => 1 + fsStmtSize s
    | .xtor _ _ args _ => 1 + args.length
    | .xcase _ _ cs => 1 + fsClausesSize cs
  def fsClausesSize : FsClauses → Nat
    | .nil => 0
    | .cons _ ctx body rest => 1 + ctx.length + fsStmtSize body + fsClausesSize rest
  def fsStmtSize : FsStmt → Nat
    | .cut _ p c => 1 + fsTermSize p + fsTermSize c
    | .ifc _ _ none t e => 2 + fsStmtSize t + fsStmtSize e
    | .ifc _ _ (some _) t e => 3 + fsStmtSize t + fsStmtSize e
    | .print _ _ n => 2 + fsStmtSize n
    | .call _ args => 1 + args.length
    | .exit _ => 2
end

/-- size of a focused definition: 1 + parameters + body -/
def fsDefSize (d : FsDef) : Nat := 1 + d.ctx.length + fsStmtSize d.body

def fsDefsSize : List FsDef → Nat
  | [] => 0
  | d :: ds => fsDefSize d + fsDefsSize ds

def fsProgSize (p : FsProg) : Nat := fsDefsSize p.defs

/-! ## the bound -/

private def m1 (t : Term) (n : Nat) : Prop := fsTermSize (focusTerm t n).1 ≤ 4 * termSize t
private def m2 (cl : Clauses) (n : Nat) : Prop :=
  fsClausesSize (focusClauses cl n).1 ≤ 4 * clausesSize cl
private def m3 (s : Stmt) (n : Nat) : Prop := fsStmtSize (focusStmt s n).1 ≤ 4 * stmtSize s
private def m4 (t : Term) (k : Cont) (n : Nat) : Prop :=
  ∀ K, (∀ b n1, fsStmtSize (k b n1).1 ≤ K) →
    fsStmtSize (bindTerm t k n).1 + 1 ≤ K + 4 * termSize t
private def m5 (as : Args) (k : ContVec) (n : Nat) : Prop :=
  ∀ K, (∀ bs n1, bs.length = as.toList.length → fsStmtSize (k bs n1).1 ≤ K + bs.length) →
    fsStmtSize (bindMany as k n).1 ≤ K + 4 * argsSize as

local macro "fin" : tactic =>
  `(tactic| (try dsimp only at *
             simp only [freshVar, freshCovar, freshIdentifier, fsStmtSize, fsTermSize, fsClausesSize,
               termSize, stmtSize, argsSize, clausesSize, List.length_cons, List.length_nil] at *
             omega))

theorem focusStmt_size (s : Stmt) (n : Nat) : fsStmtSize (focusStmt s n).1 ≤ 4 * stmtSize s := by
  show m3 s n
  apply focusStmt.induct (motive_1 := m1) (motive_2 := m2) (motive_3 := m3)
    (motive_4 := m4) (motive_5 := m5)
  -- focusTerm
  · intro pc v ty n; simp [m1, focusTerm, fsTermSize, termSize]
  · intro k n; simp [m1, focusTerm, fsTermSize, termSize]
  · intro a o b n; simp only [m1, focusTerm, panicTerm, fsTermSize, termSize]; omega
  · intro pc v ty s n s' n1 heq ih
    simp only [m1, m3] at *
    rw [heq] at ih
    simp only [focusTerm, heq]; fin
  · intro pc name as ty n; simp only [m1, focusTerm, panicTerm, fsTermSize, termSize]; omega
  · intro pc ty cl n cl' n1 heq ih
    simp only [m1, m2] at *
    rw [heq] at ih
    simp only [focusTerm, heq]; fin
  -- bindTerm
  · intro pc v ty k n K hK
    have := hK ⟨v, pc, ty⟩ n
    simp only [bindTerm, termSize]; omega
  · intro i k n x n1 hf s' n2 hk K hK
    have := hK ⟨x, .prd, .i64⟩ n1
    rw [hk] at this
    simp only [bindTerm, hf, hk]; fin
  · intro a o b k n ihb iha K hK
    simp only [m4] at ihb iha
    have h := iha (K + 4 + 4 * termSize b) (fun b1 n1 => by
      have h2 := ihb b1 n1 (K + 5) (fun b2 n2 => by
        have := hK ⟨⟨"x", n2 + 1⟩, .prd, .i64⟩ (n2 + 1)
        fin)
      omega)
    simp only [bindTerm, termSize]; omega
  · intro v ty s k n x n1 hf s' n2 hs r n3 hk ih K hK
    simp only [m3] at ih
    rw [hs] at ih
    have := hK ⟨x, .prd, ty⟩ n2
    rw [hk] at this
    simp only [bindTerm, hf, hs, hk]; fin
  · intro v ty s k n x n1 hf r n2 hk s' n3 hs ih K hK
    simp only [m3] at ih
    rw [hs] at ih
    have := hK ⟨x, .cns, ty⟩ n1
    rw [hk] at this
    simp only [bindTerm, hf, hs, hk]; fin
  · intro name as ty k n ih K hK
    simp only [m5] at ih
    have h := ih (K + 3) (fun bs n1 hbs => by
      have := hK ⟨⟨"x", n1 + 1⟩, .prd, ty⟩ (n1 + 1)
      fin)
    simp only [bindTerm, termSize]; omega
  · intro name as ty k n ih K hK
    simp only [m5] at ih
    have h := ih (K + 3) (fun bs n1 hbs => by
      have := hK ⟨⟨"a", n1 + 1⟩, .cns, ty⟩ (n1 + 1)
      fin)
    simp only [bindTerm, termSize]; omega
  · intro ty cl k n x n1 hf r n2 hk cl' n3 hc ih K hK
    simp only [m2] at ih
    rw [hc] at ih
    have := hK ⟨x, .prd, ty⟩ n1
    rw [hk] at this
    simp only [bindTerm, hf, hc, hk]; fin
  · intro ty cl k n x n1 hf r n2 hk cl' n3 hc ih K hK
    simp only [m2] at ih
    rw [hc] at ih
    have := hK ⟨x, .cns, ty⟩ n1
    rw [hk] at this
    simp only [bindTerm, hf, hc, hk]; fin
  -- bindMany
  · intro k n K hK
    have := hK [] n (by simp [Args.toList])
    simp only [bindMany, argsSize]; simpa using this
  · intro pc t r k n ihr iht K hK
    simp only [m4, m5] at ihr iht
    have h := iht (K + 1 + 4 * argsSize r) (fun b n1 => by
      have h2 := ihr b n1 (K + 1) (fun bs n2 hbs => by
        have := hK (b :: bs) n2 (by simp [Args.toList, hbs])
        simp only [List.length_cons] at this; omega)
      omega)
    simp only [bindMany, argsSize]; omega
  -- focusClauses
  · intro n; simp [m2, focusClauses, fsClausesSize, clausesSize]
  · intro x ctx b r n s' n1 hb cl' n2 hr ihb ihr
    simp only [m2, m3] at *
    rw [hb] at ihb; rw [hr] at ihr
    simp only [focusClauses, hb, hr]; fin
  -- focusStmt: cut
  · intro ty pc name as ty1 c n ihc ih
    simp only [m1, m5] at ihc ih
    have h := ih (2 + 4 * termSize c) (fun bs n1 hbs => by
      have := ihc n1
      fin)
    simp only [m3, focusStmt, stmtSize, termSize]; omega
  · intro ty p dpc name as ty1 n hp ihp ih
    simp only [m1, m5] at ihp ih
    have h := ih (2 + 4 * termSize p) (fun bs n1 hbs => by
      have := ihp n1
      fin)
    have e : (focusStmt (.cut ty p (.xtor dpc name as ty1)) n) =
        bindMany as (fun bs n =>
          match focusTerm p n with
          | (p', n1) => (FsStmt.cut ty p' (FsTerm.xtor dpc name bs ty), n1)) n := by
      cases p <;> first | rfl | exact (hp _ _ _ _ rfl).elim
    simp only [m3, e, stmtSize, termSize]; omega
  · intro ty a o b c n hc ihc ihb iha
    simp only [m1, m4] at ihc ihb iha
    have h := iha (4 + 4 * termSize c + 4 * termSize b) (fun b1 n1 => by
      have h2 := ihb b1 n1 (4 + 4 * termSize c) (fun b2 n2 => by
        have := ihc n2
        fin)
      omega)
    have e : (focusStmt (.cut ty (.op a o b) c) n) =
        bindTerm a (fun b1 n =>
          bindTerm b (fun b2 n =>
            match focusTerm c n with
            | (c', n1) => (FsStmt.cut ty (FsTerm.op b1.var o b2.var) c', n1)) n) n := by
      cases c <;> first | rfl | exact (hc _ _ _ _ rfl).elim
    simp only [m3, e, stmtSize, termSize]; omega
  · intro ty p c n hp hc hop p' n1 hpp c' n2 hcc ihp ihc
    simp only [m1] at ihp ihc
    rw [hpp] at ihp; rw [hcc] at ihc
    have e : (focusStmt (.cut ty p c) n) =
        (match focusTerm p n with
          | (p', n1) => match focusTerm c n1 with
            | (c', n2) => (FsStmt.cut ty p' c', n2)) := by
      cases p <;> cases c <;>
        (first | rfl | (exact (hp _ _ _ _ rfl).elim) | (exact (hc _ _ _ _ rfl).elim) | (exact (hop _ _ _ rfl).elim))
    simp only [m3, e, hpp, hcc]; fin
  -- ifc
  · intro srt a b t e n iht ihe ihb iha
    simp only [m3, m4] at iht ihe ihb iha
    have h := iha (3 + 4 * stmtSize t + 4 * stmtSize e + 4 * termSize b) (fun b1 n1 => by
      have h2 := ihb b1 n1 (3 + 4 * stmtSize t + 4 * stmtSize e) (fun b2 n2 => by
        have h1 := iht n2
        have h3 := ihe (focusStmt t n2).2
        fin)
      omega)
    simp only [m3, focusStmt, stmtSize]; omega
  · intro srt a t e n iht ihe iha
    simp only [m3, m4] at iht ihe iha
    have h := iha (2 + 4 * stmtSize t + 4 * stmtSize e) (fun b1 n1 => by
      have h1 := iht n1
      have h3 := ihe (focusStmt t n1).2
      fin)
    simp only [m3, focusStmt, stmtSize]; omega
  -- print
  · intro nl a nx n ihn iha
    simp only [m3, m4] at ihn iha
    have h := iha (2 + 4 * stmtSize nx) (fun b1 n1 => by
      have h1 := ihn n1
      fin)
    simp only [m3, focusStmt, stmtSize]; omega
  -- call
  · intro f as ty n ih
    simp only [m5] at ih
    have h := ih 1 (fun bs n1 hbs => by simp only [fsStmtSize]; omega)
    simp only [m3, focusStmt, stmtSize]; omega
  -- exit
  · intro a ty n ih
    simp only [m4] at ih
    have h := ih 2 (fun b n1 => by simp only [fsStmtSize]; omega)
    simp only [m3, focusStmt, stmtSize]; omega

theorem focusDef_size (d : Def) (n : Nat) : fsDefSize (focusDef d n).1 ≤ 4 * defSize d := by
  have := focusStmt_size d.body n
  simp only [focusDef, fsDefSize, defSize]; omega

theorem focusDef_ctx (d : Def) (n : Nat) : (focusDef d n).1.ctx = d.ctx := rfl

theorem focusDefs_size (ds : List Def) (n : Nat) : fsDefsSize (focusDefs ds n).1 ≤ 4 * defsSize ds := by
  induction ds generalizing n with
  | nil => simp [focusDefs, fsDefsSize, defsSize]
  | cons d r ih =>
    have h1 := focusDef_size d n
    have h2 := ih (focusDef d n).2
    simp only [focusDefs, fsDefsSize, defsSize]; omega

theorem focusDefs_ctxs (ds : List Def) (n : Nat) :
    (focusDefs ds n).1.map (·.ctx) = ds.map (·.ctx) := by
  induction ds generalizing n with
  | nil => simp [focusDefs]
  | cons d r ih => simp only [focusDefs, List.map_cons, focusDef_ctx, ih]

/-- focusing of a uniquified program: at most 4 times the size -/
theorem focusOnly_size (p : Prog) : fsProgSize (focusOnly p) ≤ 4 * progSize p := by
  simp only [focusOnly, fsProgSize, progSize]; exact focusDefs_size _ _

/-- C19, S2 → S3 (`Prog::focus` = uniquify; focus): `|S3| ≤ 4 · |S2|` -/
theorem focusProg_size (p : Prog) : fsProgSize (focusProg p) ≤ 4 * progSize p := by
  have := focusOnly_size (uniquifyProg p)
  rw [uniquifyProg_size] at this
  exact this

theorem focusProgE_size {p : Prog} {q : FsProg} (h : focusProgE p = .ok q) :
    fsProgSize q ≤ 4 * progSize p := by
  unfold focusProgE at h
  split at h
  · cases h
  · split at h
    · cases h
    · cases h; exact focusProg_size p

/-- the declarations are untouched by `Prog::focus` -/
theorem focusProg_types (p : Prog) :
    (focusProg p).dataTypes = p.dataTypes ∧ (focusProg p).codataTypes = p.codataTypes := by
  simp [focusProg, focusOnly, uniquifyProg]

/-- the parameter lists keep their lengths -/
theorem focusProg_ctx_lengths (p : Prog) :
    (focusProg p).defs.map (·.ctx.length) = p.defs.map (·.ctx.length) := by
  have h1 := focusDefs_ctxs (uniquifyProg p).defs (uniquifyProg p).maxId
  have h2 := uniquifyDefs_ctx_lengths p.defs p.maxId
  have e : ∀ (l : List FsDef), l.map (·.ctx.length) = (l.map (·.ctx)).map List.length := by
    intro l; simp
  have e' : ∀ (l : List Def), l.map (·.ctx.length) = (l.map (·.ctx)).map List.length := by
    intro l; simp
  simp only [focusProg, focusOnly]
  rw [e, h1, ← e']
  simpa [uniquifyProg] using h2

end Scc.Core.SizeFocus
