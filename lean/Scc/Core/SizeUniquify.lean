/-
  Scc.Core.SizeUniquify — C19 for `uniquify` (first half of `Prog::focus`): the node count of
  Scc.Fun2Core.Size (`termSize` / `stmtSize` / `defSize` / `progSize`, the measure in which the bound
  of fun2core is stated) is preserved EXACTLY: uniquify only renames binders (substitution of
  variables for variables) and keeps every context at its length.   Proof file.
-/
import Scc.Core.Uniquify
import Scc.Fun2Core.Size

namespace Scc.Core.SizeUniquify

open Scc.Core
open Scc.Fun2Core (termSize argsSize clausesSize stmtSize defSize defsSize progSize)

theorem Subst.allVars_find_termSize {σ : Subst} (h : σ.allVars = true) {v : Ident} {t : Term}
    (hf : substFind σ v = some t) : termSize t = 1 := by
  induction σ with
  | nil => simp [substFind] at hf
  | cons e r ih =>
    obtain ⟨w, u⟩ := e
    cases u <;> simp [Subst.allVars] at h
    simp only [substFind] at hf
    split at hf
    · cases hf; simp [termSize]
    · exact ih h hf

mutual
  theorem termSize_substTerm (ps cs : Subst) (hp : ps.allVars = true) (hc : cs.allVars = true) :
      (t : Term) → termSize (substTerm ps cs t) = termSize t
    | .var .prd v ty => by
      simp only [substTerm]
      split
      · rfl
      · next h => simp [Subst.allVars_find_termSize hp h, termSize]
    | .var .cns v ty => by
      simp only [substTerm]
      split
      · rfl
      · next h => simp [Subst.allVars_find_termSize hc h, termSize]
    | .lit n => by simp [substTerm]
    | .op a o b => by
      simp [substTerm, termSize, termSize_substTerm ps cs hp hc a, termSize_substTerm ps cs hp hc b]
    | .mu pc v ty s => by
      simp [substTerm, termSize,
        stmtSize_substStmt _ _ (Subst.allVars_remove hp v) (Subst.allVars_remove hc v) s]
    | .xtor pc n as ty => by simp [substTerm, termSize, argsSize_substArgs ps cs hp hc as]
    | .xcase pc ty cl => by simp [substTerm, termSize, clausesSize_substClauses ps cs hp hc cl]
  theorem argsSize_substArgs (ps cs : Subst) (hp : ps.allVars = true) (hc : cs.allVars = true) :
      (as : Args) → argsSize (substArgs ps cs as) = argsSize as
    | .nil => by simp [substArgs]
    | .cons pc t r => by
      simp [substArgs, argsSize, termSize_substTerm ps cs hp hc t, argsSize_substArgs ps cs hp hc r]
  theorem clausesSize_substClauses (ps cs : Subst) (hp : ps.allVars = true) (hc : cs.allVars = true) :
      (cl : Clauses) → clausesSize (substClauses ps cs cl) = clausesSize cl
    | .nil => by simp [substClauses]
    | .cons x ctx b r => by
      simp [substClauses, clausesSize, clausesSize_substClauses ps cs hp hc r,
        stmtSize_substStmt _ _ (Subst.allVars_removeCtx hp ctx) (Subst.allVars_removeCtx hc ctx) b]
  theorem stmtSize_substStmt (ps cs : Subst) (hp : ps.allVars = true) (hc : cs.allVars = true) :
      (s : Stmt) → stmtSize (substStmt ps cs s) = stmtSize s
    | .cut ty p c => by
      simp [substStmt, stmtSize, termSize_substTerm ps cs hp hc p, termSize_substTerm ps cs hp hc c]
    | .ifc srt a b t e => by
      simp [substStmt, stmtSize, termSize_substTerm ps cs hp hc a, termSize_substTerm ps cs hp hc b,
        stmtSize_substStmt ps cs hp hc t, stmtSize_substStmt ps cs hp hc e]
    | .ifz srt a t e => by
      simp [substStmt, stmtSize, termSize_substTerm ps cs hp hc a,
        stmtSize_substStmt ps cs hp hc t, stmtSize_substStmt ps cs hp hc e]
    | .print nl a n => by
      simp [substStmt, stmtSize, termSize_substTerm ps cs hp hc a, stmtSize_substStmt ps cs hp hc n]
    | .call f as ty => by simp [substStmt, stmtSize, argsSize_substArgs ps cs hp hc as]
    | .exit a ty => by simp [substStmt, stmtSize, termSize_substTerm ps cs hp hc a]
end

theorem stmtSize_substIfAny (ps cs : Subst) (hp : ps.allVars = true) (hc : cs.allVars = true)
    (s : Stmt) : stmtSize (substIfAny ps cs s) = stmtSize s := by
  unfold substIfAny; split
  · rfl
  · exact stmtSize_substStmt ps cs hp hc s

theorem uniquifyCtx_ctx_length (c : Ctx) (n : Nat) : (uniquifyCtx c n).ctx.length = c.length := by
  induction c generalizing n with
  | nil => simp [uniquifyCtx]
  | cons b r ih =>
    simp only [uniquifyCtx, freshIdentifier]
    split
    · split <;> simp [ih]
    · simp [ih]

private def m1 (t : Term) (n : Nat) : Prop := termSize (uniquifyTerm t n).1 = termSize t
private def m2 (cl : Clauses) (n : Nat) : Prop := clausesSize (uniquifyClauses cl n).1 = clausesSize cl
private def m3 (s : Stmt) (n : Nat) : Prop := stmtSize (uniquifyStmt s n).1 = stmtSize s
private def m4 (as : Args) (n : Nat) : Prop := argsSize (uniquifyArgs as n).1 = argsSize as

/-- uniquify preserves the node count of a statement exactly -/
theorem uniquifyStmt_size (s : Stmt) (n : Nat) : stmtSize (uniquifyStmt s n).1 = stmtSize s := by
  show m3 s n
  apply uniquifyStmt.induct (motive1 := m1) (motive2 := m2) (motive3 := m3) (motive4 := m4)
  -- uniquifyTerm
  · intro n pc v ty; simp [m1, uniquifyTerm]
  · intro n k; simp [m1, uniquifyTerm]
  · intro n a o b a' n1 ha b' n2 hb iha ihb
    simp only [m1] at *
    rw [ha] at iha; rw [hb] at ihb
    simp only [uniquifyTerm, ha, hb, termSize] at *; omega
  · intro n v ty s hv newVar n1 hfresh s' n2 hs ih
    simp only [m1, m3] at *
    rw [hs, stmtSize_substStmt _ _ (by simp [Subst.allVars]) (by simp [Subst.allVars])] at ih
    simp only [uniquifyTerm, hv, hfresh, hs, if_true, termSize] at *; omega
  · intro n v ty s hv newVar n1 hfresh s' n2 hs ih
    simp only [m1, m3] at *
    rw [hs, stmtSize_substStmt _ _ (by simp [Subst.allVars]) (by simp [Subst.allVars])] at ih
    simp only [uniquifyTerm, hv, hfresh, hs, if_true, termSize] at *; omega
  · intro n pc v ty s hv s' n2 hs ih
    simp only [m1, m3] at *
    rw [hs] at ih
    simp only [uniquifyTerm, hv, hs, if_false, termSize] at *; omega
  · intro n pc name as ty as' n1 has ih
    simp only [m1, m4] at *
    rw [has] at ih
    simp only [uniquifyTerm, has, termSize] at *; omega
  · intro n pc ty cs cl' n1 hcl ih
    simp only [m1, m2] at *
    rw [hcl] at ih
    simp only [uniquifyTerm, hcl, termSize] at *; omega
  -- uniquifyClauses
  · intro n; simp [m2, uniquifyClauses]
  · intro n x ctx b r u s' n2 hs cl' n1 hr ihb ihr
    simp only [m2, m3, u] at *
    rw [hs, stmtSize_substIfAny _ _ (uniquifyCtx_allVars ctx n).1 (uniquifyCtx_allVars ctx n).2] at ihb
    rw [hr] at ihr
    simp only [uniquifyClauses, hs, hr, clausesSize, uniquifyCtx_ctx_length] at *; omega
  -- uniquifyStmt
  · intro n ty p c p' n1 hp c' n2 hc ihp ihc
    simp only [m1, m3] at *
    rw [hp] at ihp; rw [hc] at ihc
    simp only [uniquifyStmt, hp, hc, stmtSize] at *; omega
  · intro n srt a b t e a' n1 ha b' n2 hb t' n3 ht e' n4 he iha ihb iht ihe
    simp only [m1, m3] at *
    rw [ha] at iha; rw [hb] at ihb; rw [ht] at iht; rw [he] at ihe
    simp only [uniquifyStmt, ha, hb, ht, he, stmtSize] at *; omega
  · intro n srt a t e a' n1 ha t' n2 ht e' n3 he iha iht ihe
    simp only [m1, m3] at *
    rw [ha] at iha; rw [ht] at iht; rw [he] at ihe
    simp only [uniquifyStmt, ha, ht, he, stmtSize] at *; omega
  · intro n nl a nx a' n1 ha nx' n2 hnx iha ihnx
    simp only [m1, m3] at *
    rw [ha] at iha; rw [hnx] at ihnx
    simp only [uniquifyStmt, ha, hnx, stmtSize] at *; omega
  · intro n f as ty as' n1 has ih
    simp only [m3, m4] at *
    rw [has] at ih
    simp only [uniquifyStmt, has, stmtSize] at *; omega
  · intro n a ty a' n1 ha ih
    simp only [m1, m3] at *
    rw [ha] at ih
    simp only [uniquifyStmt, ha, stmtSize] at *; omega
  -- uniquifyArgs
  · intro n; simp [m4, uniquifyArgs]
  · intro n pc t r t' n1 ht r' n2 hr iht ihr
    simp only [m1, m4] at *
    rw [ht] at iht; rw [hr] at ihr
    simp only [uniquifyArgs, ht, hr, argsSize] at *; omega

theorem uniquifyDef_size (d : Def) (n : Nat) : defSize (uniquifyDef d n).1 = defSize d := by
  simp only [uniquifyDef, defSize, uniquifyCtx_ctx_length, uniquifyStmt_size,
    stmtSize_substIfAny _ _ (uniquifyCtx_allVars d.ctx n).1 (uniquifyCtx_allVars d.ctx n).2]

theorem uniquifyDef_ctx_length (d : Def) (n : Nat) :
    (uniquifyDef d n).1.ctx.length = d.ctx.length := by
  simp only [uniquifyDef, uniquifyCtx_ctx_length]

theorem uniquifyDefs_size (ds : List Def) (n : Nat) :
    defsSize (uniquifyDefs ds n).1 = defsSize ds := by
  induction ds generalizing n with
  | nil => simp [uniquifyDefs, defsSize]
  | cons d r ih => simp only [uniquifyDefs, defsSize, uniquifyDef_size, ih]

/-- C19, uniquify: the size of the program is preserved exactly -/
theorem uniquifyProg_size (p : Prog) : progSize (uniquifyProg p) = progSize p := by
  simp only [uniquifyProg, progSize, uniquifyDefs_size]

/-- the declarations are untouched -/
theorem uniquifyProg_types (p : Prog) :
    (uniquifyProg p).dataTypes = p.dataTypes ∧ (uniquifyProg p).codataTypes = p.codataTypes := by
  simp [uniquifyProg]

/-- every definition keeps its number of parameters -/
theorem uniquifyDefs_ctx_lengths (ds : List Def) (n : Nat) :
    (uniquifyDefs ds n).1.map (·.ctx.length) = ds.map (·.ctx.length) := by
  induction ds generalizing n with
  | nil => simp [uniquifyDefs]
  | cons d r ih => simp only [uniquifyDefs, List.map_cons, uniquifyDef_ctx_length, ih]

end Scc.Core.SizeUniquify
