/-
  Scc.Core.ProofsUniqAlphaB — `uniquify` is an α-renaming: the nameless form of a statement (in any
  scope) is unchanged by `uniquifyStmt`, provided all binders carry id 0 (they are all renamed), all
  ids are below the counter (the new names are fresh) and variable occurrences have the chirality of
  their binders (`DStmt.chiWS`, a consequence of typing).
-/
import Scc.Core.ProofsUniqAlphaA
import Scc.Core.ProofsUniqueB

namespace Scc.Core

/-! ## substitution by nothing; identifiers after a substitution -/

theorem substRemove_nil (v : Ident) : substRemove [] v = [] := rfl
theorem substRemoveCtx_nil (c : Ctx) : substRemoveCtx [] c = [] := rfl

mutual
  theorem substTerm_nil : (t : Term) → substTerm [] [] t = t
    | .var .prd v ty => by simp [substTerm, substFind]
    | .var .cns v ty => by simp [substTerm, substFind]
    | .lit k => by simp [substTerm]
    | .op a o b => by simp [substTerm, substTerm_nil a, substTerm_nil b]
    | .mu pc v ty s => by simp [substTerm, substRemove_nil, substStmt_nil s]
    | .xtor pc k as ty => by simp [substTerm, substArgs_nil as]
    | .xcase pc ty cl => by simp [substTerm, substClauses_nil cl]
  theorem substArgs_nil : (as : Args) → substArgs [] [] as = as
    | .nil => by simp [substArgs]
    | .cons pc t r => by simp [substArgs, substTerm_nil t, substArgs_nil r]
  theorem substClauses_nil : (cl : Clauses) → substClauses [] [] cl = cl
    | .nil => by simp [substClauses]
    | .cons x ctx b r => by
      simp [substClauses, substRemoveCtx_nil, substStmt_nil b, substClauses_nil r]
  theorem substStmt_nil : (s : Stmt) → substStmt [] [] s = s
    | .cut ty p c => by simp [substStmt, substTerm_nil p, substTerm_nil c]
    | .ifc srt a b t e => by
      simp [substStmt, substTerm_nil a, substTerm_nil b, substStmt_nil t, substStmt_nil e]
    | .ifz srt a t e => by simp [substStmt, substTerm_nil a, substStmt_nil t, substStmt_nil e]
    | .print nl a n => by simp [substStmt, substTerm_nil a, substStmt_nil n]
    | .call f as ty => by simp [substStmt, substArgs_nil as]
    | .exit a ty => by simp [substStmt, substTerm_nil a]
end

theorem substIfAny_eq (ps cs : Subst) (s : Stmt) : substIfAny ps cs s = substStmt ps cs s := by
  unfold substIfAny
  split
  · next h =>
    simp only [Bool.and_eq_true, List.isEmpty_iff] at h
    rw [h.1, h.2, substStmt_nil]
  · rfl

/-- all right-hand sides have ids `≤ m` -/
def Subst.RangeLe (m : Nat) (σ : Subst) : Prop :=
  ∀ x t, substFind σ x = some t → IdsLe m t.idents

theorem Removed.rangeLe {pre σ σ1 m} (h : Removed pre σ σ1) (hv : Subst.RangeLe m σ) :
    Subst.RangeLe m σ1 := fun x t hf => hv x t (h.find_some hf)

section
variable {m : Nat}

mutual
  theorem idsLe_substTerm : (t : Term) → ∀ {ps cs : Subst}, Subst.RangeLe m ps →
      Subst.RangeLe m cs → IdsLe m t.idents → IdsLe m (substTerm ps cs t).idents
    | .var .prd v ty, ps, cs, hp, _, hi => by
      simp only [substTerm]
      cases hf : substFind ps v with
      | none => exact hi
      | some t => exact hp v t hf
    | .var .cns v ty, ps, cs, _, hc, hi => by
      simp only [substTerm]
      cases hf : substFind cs v with
      | none => exact hi
      | some t => exact hc v t hf
    | .lit k, _, _, _, _, hi => by simpa [substTerm] using hi
    | .op a o b, ps, cs, hp, hc, hi => by
      simp only [Term.idents, IdsLe_append] at hi
      simp only [substTerm, Term.idents, IdsLe_append]
      exact ⟨idsLe_substTerm a hp hc hi.1, idsLe_substTerm b hp hc hi.2⟩
    | .mu pc v ty s, ps, cs, hp, hc, hi => by
      simp only [Term.idents, IdsLe_cons] at hi
      simp only [substTerm, Term.idents, IdsLe_cons]
      exact ⟨hi.1, idsLe_substStmt s ((Removed.single ps v).rangeLe hp)
        ((Removed.single cs v).rangeLe hc) hi.2⟩
    | .xtor pc k as ty, ps, cs, hp, hc, hi => by
      simp only [Term.idents] at hi
      simp only [substTerm, Term.idents]
      exact idsLe_substArgs as hp hc hi
    | .xcase pc ty cl, ps, cs, hp, hc, hi => by
      simp only [Term.idents] at hi
      simp only [substTerm, Term.idents]
      exact idsLe_substClauses cl hp hc hi
  theorem idsLe_substArgs : (as : Args) → ∀ {ps cs : Subst}, Subst.RangeLe m ps →
      Subst.RangeLe m cs → IdsLe m as.idents → IdsLe m (substArgs ps cs as).idents
    | .nil, _, _, _, _, _ => by simp [substArgs, Args.idents]
    | .cons pc t r, ps, cs, hp, hc, hi => by
      simp only [Args.idents, IdsLe_append] at hi
      simp only [substArgs, Args.idents, IdsLe_append]
      exact ⟨idsLe_substTerm t hp hc hi.1, idsLe_substArgs r hp hc hi.2⟩
  theorem idsLe_substClauses : (cl : Clauses) → ∀ {ps cs : Subst}, Subst.RangeLe m ps →
      Subst.RangeLe m cs → IdsLe m cl.idents → IdsLe m (substClauses ps cs cl).idents
    | .nil, _, _, _, _, _ => by simp [substClauses, Clauses.idents]
    | .cons x ctx b r, ps, cs, hp, hc, hi => by
      simp only [Clauses.idents, IdsLe_append] at hi
      simp only [substClauses, Clauses.idents, IdsLe_append]
      exact ⟨⟨hi.1.1, idsLe_substStmt b ((Removed.ctx ps ctx).rangeLe hp)
        ((Removed.ctx cs ctx).rangeLe hc) hi.1.2⟩, idsLe_substClauses r hp hc hi.2⟩
  theorem idsLe_substStmt : (s : Stmt) → ∀ {ps cs : Subst}, Subst.RangeLe m ps →
      Subst.RangeLe m cs → IdsLe m s.idents → IdsLe m (substStmt ps cs s).idents
    | .cut ty p c, ps, cs, hp, hc, hi => by
      simp only [Stmt.idents, IdsLe_append] at hi
      simp only [substStmt, Stmt.idents, IdsLe_append]
      exact ⟨idsLe_substTerm p hp hc hi.1, idsLe_substTerm c hp hc hi.2⟩
    | .ifc srt a b t e, ps, cs, hp, hc, hi => by
      simp only [Stmt.idents, IdsLe_append] at hi
      simp only [substStmt, Stmt.idents, IdsLe_append]
      exact ⟨⟨⟨idsLe_substTerm a hp hc hi.1.1.1, idsLe_substTerm b hp hc hi.1.1.2⟩,
        idsLe_substStmt t hp hc hi.1.2⟩, idsLe_substStmt e hp hc hi.2⟩
    | .ifz srt a t e, ps, cs, hp, hc, hi => by
      simp only [Stmt.idents, IdsLe_append] at hi
      simp only [substStmt, Stmt.idents, IdsLe_append]
      exact ⟨⟨idsLe_substTerm a hp hc hi.1.1, idsLe_substStmt t hp hc hi.1.2⟩,
        idsLe_substStmt e hp hc hi.2⟩
    | .print nl a nx, ps, cs, hp, hc, hi => by
      simp only [Stmt.idents, IdsLe_append] at hi
      simp only [substStmt, Stmt.idents, IdsLe_append]
      exact ⟨idsLe_substTerm a hp hc hi.1, idsLe_substStmt nx hp hc hi.2⟩
    | .call f as ty, ps, cs, hp, hc, hi => by
      simp only [Stmt.idents] at hi
      simp only [substStmt, Stmt.idents]
      exact idsLe_substArgs as hp hc hi
    | .exit a ty, ps, cs, hp, hc, hi => by
      simp only [Stmt.idents] at hi
      simp only [substStmt, Stmt.idents]
      exact idsLe_substTerm a hp hc hi
end

end

/-! ## the binder loop `uniquifyCtx` (all binders have id 0) -/

theorem uniquifyCtx_sig (c : Ctx) (n : Nat) : ctxSig (uniquifyCtx c n).ctx = ctxSig c := by
  induction c generalizing n with
  | nil => simp [uniquifyCtx, ctxSig]
  | cons b r ih =>
    simp only [uniquifyCtx, freshIdentifier]
    split
    · split <;> simp [ctxSig] at * <;> exact ih _
    · simp [ctxSig] at *; exact ih _

theorem uniquifyCtx_le (c : Ctx) (n : Nat) : n ≤ (uniquifyCtx c n).maxId := by
  induction c generalizing n with
  | nil => simp [uniquifyCtx]
  | cons b r ih =>
    simp only [uniquifyCtx, freshIdentifier]
    split
    · have := ih (n + 1); split <;> simp only <;> omega
    · exact ih n

/-- what is known of the two substitutions produced by the binder loop -/
structure CtxSubstOK (n m : Nat) (ps cs : Subst) : Prop where
  vp : Subst.VarsOf .prd ps
  vc : Subst.VarsOf .cns cs
  gp : Subst.RangeGt n ps
  gc : Subst.RangeGt n cs
  lp : Subst.RangeLe m ps
  lc : Subst.RangeLe m cs

theorem CtxSubstOK.nil (n m : Nat) : CtxSubstOK n m [] [] := by
  constructor <;> intro x <;> simp [substFind]

theorem CtxSubstOK.consP {n m : Nat} {ps cs : Subst} (h : CtxSubstOK (n + 1) m ps cs) (hm : n + 1 ≤ m)
    (v : Ident) (nm : String) (ty : Ty) :
    CtxSubstOK n m ((v, .var .prd ⟨nm, n + 1⟩ ty) :: ps) cs := by
  refine ⟨?_, h.vc, ?_, fun x pc w ty hf => Nat.lt_of_succ_lt (h.gc x pc w ty hf), ?_, h.lc⟩
  · intro x t hf
    simp only [substFind] at hf
    split at hf
    · cases hf; exact ⟨_, _, rfl⟩
    · exact h.vp x t hf
  · intro x pc w ty' hf
    simp only [substFind] at hf
    split at hf
    · cases hf; simp
    · exact Nat.lt_of_succ_lt (h.gp x pc w ty' hf)
  · intro x t hf
    simp only [substFind] at hf
    split at hf
    · cases hf; simpa [Term.idents] using hm
    · exact h.lp x t hf

theorem CtxSubstOK.consC {n m : Nat} {ps cs : Subst} (h : CtxSubstOK (n + 1) m ps cs) (hm : n + 1 ≤ m)
    (v : Ident) (nm : String) (ty : Ty) :
    CtxSubstOK n m ps ((v, .var .cns ⟨nm, n + 1⟩ ty) :: cs) := by
  refine ⟨h.vp, ?_, fun x pc w ty hf => Nat.lt_of_succ_lt (h.gp x pc w ty hf), ?_, h.lp, ?_⟩
  · intro x t hf
    simp only [substFind] at hf
    split at hf
    · cases hf; exact ⟨_, _, rfl⟩
    · exact h.vc x t hf
  · intro x pc w ty' hf
    simp only [substFind] at hf
    split at hf
    · cases hf; simp
    · exact Nat.lt_of_succ_lt (h.gc x pc w ty' hf)
  · intro x t hf
    simp only [substFind] at hf
    split at hf
    · cases hf; simpa [Term.idents] using hm
    · exact h.lc x t hf

theorem uniquifyCtx_substOK (c : Ctx) (n : Nat) (hz : ∀ b ∈ c, b.var.id = 0) :
    CtxSubstOK n (uniquifyCtx c n).maxId (uniquifyCtx c n).varSubst (uniquifyCtx c n).covarSubst := by
  induction c generalizing n with
  | nil => simpa [uniquifyCtx] using CtxSubstOK.nil n n
  | cons b r ih =>
    have hb : b.var.id = 0 := hz b (by simp)
    have ih' := ih (n + 1) (fun b' hb' => hz b' (by simp [hb']))
    have hle := uniquifyCtx_le r (n + 1)
    simp only [uniquifyCtx, hb, freshIdentifier, if_true]
    split
    · exact ih'.consP hle _ _ _
    · exact ih'.consC hle _ _ _

theorem uniquifyCtx_idsLe (c : Ctx) (n : Nat) (hz : ∀ b ∈ c, b.var.id = 0) :
    IdsLe (uniquifyCtx c n).maxId (ctxVars (uniquifyCtx c n).ctx) := by
  induction c generalizing n with
  | nil => simp [uniquifyCtx, ctxVars]
  | cons b r ih =>
    have hb : b.var.id = 0 := hz b (by simp)
    have ih' := ih (n + 1) (fun b' hb' => hz b' (by simp [hb']))
    have hle := uniquifyCtx_le r (n + 1)
    simp only [uniquifyCtx, hb, freshIdentifier, if_true]
    split <;> simp only [ctxVars, List.map_cons, IdsLe_cons] <;> exact ⟨hle, ih'⟩

theorem ctxVars_cons (b : Binding) (r : Ctx) : ctxVars (b :: r) = b.var :: ctxVars r := rfl

theorem DVar.chiOK_shift1 {chis : List PC} {c pc : PC} {v : DVar} :
    (v.shift 0 1).chiOK (c :: chis) pc ↔ v.chiOK chis pc :=
  DVar.chiOK_shift (pre := [c])

theorem uniquifyCtx_ren (c : Ctx) (n : Nat) (hz : ∀ b ∈ c, b.var.id = 0) (sc0 : List Ident)
    (chis0 : List PC) :
    REN n (uniquifyCtx c n).varSubst (uniquifyCtx c n).covarSubst (ctxVars c ++ sc0)
      (ctxVars (uniquifyCtx c n).ctx ++ sc0) (c.map (·.chi) ++ chis0) := by
  induction c generalizing n with
  | nil =>
    intro pc x _ _
    cases pc <;> simp [uniquifyCtx, selSubst, substName, substFind, ctxVars]
  | cons b r ih =>
    have hb : b.var.id = 0 := hz b (by simp)
    have hz' : ∀ b' ∈ r, b'.var.id = 0 := fun b' hb' => hz b' (by simp [hb'])
    have ih' := ih (n + 1) hz'
    have hok := uniquifyCtx_substOK r (n + 1) hz'
    intro pc x hx hchi
    -- the name `x` is renamed to by the tail
    have key : ∀ x' : Ident, (x' = x ∨ n + 1 < x'.id) → (⟨b.var.name, n + 1⟩ : Ident) ≠ x' := by
      intro x' h e
      rcases h with h | h
      · rw [← e] at h; rw [← h] at hx; simp at hx; omega
      · rw [← e] at h; simp at h
    by_cases hxb : b.var = x
    · -- the head binder
      subst hxb
      simp only [ctxVars, List.map_cons, List.cons_append, dbVar, if_true, DVar.chiOK,
        List.getElem?_cons_zero, Option.some.injEq] at hchi ⊢
      subst hchi
      simp only [uniquifyCtx, hb, freshIdentifier, if_true]
      split
      · next hc => simp [selSubst, hc, substName, substFind, dbVar]
      · next hc => simp [selSubst, hc, substName, substFind, dbVar]
    · simp only [ctxVars_cons, List.map_cons, List.cons_append, dbVar, hxb, if_false] at hchi ⊢
      have hchi' := DVar.chiOK_shift1.mp hchi
      have hrec := ih' pc x (by omega) hchi'
      have hsel : substName (selSubst pc (uniquifyCtx (b :: r) n).varSubst
          (uniquifyCtx (b :: r) n).covarSubst) x =
          substName (selSubst pc (uniquifyCtx r (n + 1)).varSubst
            (uniquifyCtx r (n + 1)).covarSubst) x := by
        simp only [uniquifyCtx, hb, freshIdentifier, if_true]
        split <;> cases pc <;> simp [selSubst, substName, substFind, hxb]
      have hne : (⟨b.var.name, n + 1⟩ : Ident) ≠ substName (selSubst pc
          (uniquifyCtx r (n + 1)).varSubst (uniquifyCtx r (n + 1)).covarSubst) x := by
        apply key
        have hr : Subst.RangeGt (n + 1) (selSubst pc (uniquifyCtx r (n + 1)).varSubst
            (uniquifyCtx r (n + 1)).covarSubst) := by
          cases pc
          · exact hok.gp
          · exact hok.gc
        exact substName_id_or_range hr x
      rw [hsel]
      have hctx : ctxVars (uniquifyCtx (b :: r) n).ctx =
          ⟨b.var.name, n + 1⟩ :: ctxVars (uniquifyCtx r (n + 1)).ctx := by
        simp only [uniquifyCtx, hb, freshIdentifier, if_true]
        split <;> simp [ctxVars_cons]
      rw [hctx]
      simp only [List.cons_append, dbVar, hne, if_false]
      rw [hrec]

end Scc.Core
