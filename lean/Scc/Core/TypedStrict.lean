/-
  Scc.Core.TypedStrict — spec file: the side condition `Prog.strictOk` under which a well-typed Core
  program (`Prog.wellTyped`, Scc/Core/Typing.lean) is focused into a program passing the scoped shape
  typing `Scc.Core2AxCut.wtFsScopedCheck` (theorem `Scc.Core.focusProg_wtFsScoped`,
  Scc/Core/TypedFocusProg.lean).   Not transcribed from Rust.   Core imports only; executable.

  `Stmt.check` is weaker than `wtFsCheck` in four respects; `strictOk` closes exactly these gaps:
  1. (co)case clauses: `Clauses.check` + `covers` accept the clauses in any order and duplicated,
     `wtClauses` wants exactly one clause per declared xtor, in declaration order
       → `Term.strict` at `xcase`: the clause tags, in order, are the declared xtor names;
  2. `wtStmt` wants `tyOk` at every cut; `Stmt.check` accepts `⟨x | a⟩` at an undeclared type, and
     `bind` cuts every non-variable argument at its annotated type
       → `Stmt.strict` at `cut`, `Term.strict` at `mu`: the type is `i64` or declared;
  3. `wtFsCheck` contains `noContName`
       → no data / codata type is called `_Cont` (= `Scc.Core2AxCut.contInt.name`);
  4. `Clauses.check` looks a clause's signature up BY NAME (first hit), `wtClauses` takes the
     signature at the clause's POSITION: they differ when a declaration has two xtors of the same name
       → the xtor names of every declaration are pairwise distinct.
  The output of fun2core satisfies all four (the front end rejects duplicate constructor names and
  reorders clauses to declaration order; `_Cont` is not a Fun identifier).
-/
import Scc.Core.Typing

namespace Scc.Core

/-- `i64` or a declared (data or codata) type -/
def tyDeclared (P : Prog) : Ty → Bool
  | .i64 => true
  | .decl T => (findDecl P.dataTypes T).isSome || (findDecl P.codataTypes T).isSome

/-- the clause tags, in order -/
def Clauses.tags : Clauses → List Ident
  | .nil => []
  | .cons x _ _ r => x :: r.tags

mutual
  def Term.strict (P : Prog) : Term → Bool
    | .var _ _ _ => true
    | .lit _ => true
    | .op a _ b => a.strict P && b.strict P
    | .mu _ _ ty s => tyDeclared P ty && s.strict P
    | .xtor _ _ as _ => as.strict P
    | .xcase pc ty cl =>
      (match ty with
       | .i64 => false
       | .decl T =>
         -- the declaration `Term.check` uses
         match findDecl (if pc == .prd then P.codataTypes else P.dataTypes) T with
         | some d => decide (cl.tags = d.xtors.map (·.name))
         | none => false) &&
      cl.strict P
  def Args.strict (P : Prog) : Args → Bool
    | .nil => true
    | .cons _ t r => t.strict P && r.strict P
  def Clauses.strict (P : Prog) : Clauses → Bool
    | .nil => true
    | .cons _ _ b r => b.strict P && r.strict P
  def Stmt.strict (P : Prog) : Stmt → Bool
    | .cut ty p c => tyDeclared P ty && p.strict P && c.strict P
    | .ifc _ a b t e => a.strict P && b.strict P && t.strict P && e.strict P
    | .ifz _ a t e => a.strict P && t.strict P && e.strict P
    | .print _ a n => a.strict P && n.strict P
    | .call _ as _ => as.strict P
    | .exit a _ => a.strict P
end

/-- the xtor names of a declaration are pairwise distinct -/
def TypeDecl.xtorsDistinct (d : TypeDecl) : Bool := decide (d.xtors.map (·.name)).Nodup

/-- the side condition of `focusProg_wtFsScoped` (see the header) -/
def Prog.strictOk (P : Prog) : Bool :=
  !(P.dataTypes.any fun t => t.name == ⟨"_Cont", 0⟩) &&
  !(P.codataTypes.any fun t => t.name == ⟨"_Cont", 0⟩) &&
  P.dataTypes.all TypeDecl.xtorsDistinct && P.codataTypes.all TypeDecl.xtorsDistinct &&
  P.defs.all fun d => d.body.strict P

/-- line interface: Core dump text ↦ `OK true` / `OK false` -/
def runLineStrictOk (dump : String) : String :=
  match Sexp.parse dump with
  | none => "ERR sexp"
  | some sx =>
    match readProg (dump.length + 10) sx with
    | none => "ERR read"
    | some p => "OK " ++ toString p.strictOk

end Scc.Core
