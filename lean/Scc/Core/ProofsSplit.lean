/-
  Scc.Core.ProofsSplit — the reading `s = S[t]` of an unfocused statement (`Stmt.split`, Sem.lean) as
  an inductive relation, and its consequences: `t` is not a variable, the identifiers of `t` and
  `S[h]`, plugging is a congruence for α-equivalence, the ς-step decreases a measure.
-/
import Scc.Core.ProofsAlphaA
import Scc.Core.ProofsFocusSigma

namespace Scc.Core

inductive ASplit : Args → PC → Term → (Term → Args) → Prop
  | here (pc : PC) (t : Term) (r : Args) : t.isVar = false →
      ASplit (.cons pc t r) pc t (fun h => .cons pc h r)
  | there (pc : PC) (v : Term) (r : Args) {c : PC} {u : Term} {A : Term → Args} :
      v.isVar = true → ASplit r c u A → ASplit (.cons pc v r) c u (fun h => .cons pc v (A h))

theorem ASplit.of_split : (as : Args) → ∀ {pc t A}, as.split = some (pc, t, A) → ASplit as pc t A
  | .nil, _, _, _, h => by simp [Args.split] at h
  | .cons pc' u r, pc, t, A, h => by
    simp only [Args.split] at h
    split at h
    · next hv =>
      split at h
      · next c u' A' hr =>
        simp only [Option.some.injEq, Prod.mk.injEq] at h
        obtain ⟨rfl, rfl, rfl⟩ := h
        exact .there _ _ _ hv (ASplit.of_split r hr)
      · simp at h
    · next hv =>
      simp only [Option.some.injEq, Prod.mk.injEq] at h
      obtain ⟨rfl, rfl, rfl⟩ := h
      exact .here _ _ _ (by simpa using hv)

/-- the positions at which `Stmt.split` finds the argument to be lifted -/
inductive SSplit : Stmt → PC → Term → (Term → Stmt) → Prop
  | cutL (ty : Ty) (pc : PC) (k : Ident) (as : Args) (t : Ty) (cn : Term) {c u A} :
      ASplit as c u A →
      SSplit (.cut ty (.xtor pc k as t) cn) c u (fun h => .cut ty (.xtor pc k (A h) t) cn)
  | cutLR (ty : Ty) (pc : PC) (k : Ident) (as : Args) (t : Ty) (dpc : PC) (d : Ident) (ds : Args)
      (dt : Ty) {c u D} : as.split = none → ASplit ds c u D →
      SSplit (.cut ty (.xtor pc k as t) (.xtor dpc d ds dt)) c u
        (fun h => .cut ty (.xtor pc k as t) (.xtor dpc d (D h) dt))
  | cutR (ty : Ty) (p : Term) (dpc : PC) (d : Ident) (ds : Args) (dt : Ty) {c u D} :
      (∀ pc k as t, p ≠ .xtor pc k as t) → ASplit ds c u D →
      SSplit (.cut ty p (.xtor dpc d ds dt)) c u (fun h => .cut ty p (.xtor dpc d (D h) dt))
  | opL (ty : Ty) (a : Term) (o : BinOp) (b cn : Term) :
      a.isVar = false → (∀ dpc d ds dt, cn ≠ .xtor dpc d ds dt) →
      SSplit (.cut ty (.op a o b) cn) .prd a (fun h => .cut ty (.op h o b) cn)
  | opR (ty : Ty) (a : Term) (o : BinOp) (b cn : Term) :
      a.isVar = true → b.isVar = false → (∀ dpc d ds dt, cn ≠ .xtor dpc d ds dt) →
      SSplit (.cut ty (.op a o b) cn) .prd b (fun h => .cut ty (.op a o h) cn)
  | ifcL (s : IfSort) (a b : Term) (t e : Stmt) : a.isVar = false →
      SSplit (.ifc s a b t e) .prd a (fun h => .ifc s h b t e)
  | ifcR (s : IfSort) (a b : Term) (t e : Stmt) : a.isVar = true → b.isVar = false →
      SSplit (.ifc s a b t e) .prd b (fun h => .ifc s a h t e)
  | ifz (s : IfSort) (a : Term) (t e : Stmt) : a.isVar = false →
      SSplit (.ifz s a t e) .prd a (fun h => .ifz s h t e)
  | print (nl : Bool) (a : Term) (n : Stmt) : a.isVar = false →
      SSplit (.print nl a n) .prd a (fun h => .print nl h n)
  | call (f : Ident) (as : Args) (ty : Ty) {c u A} : ASplit as c u A →
      SSplit (.call f as ty) c u (fun h => .call f (A h) ty)
  | exit (a : Term) (ty : Ty) : a.isVar = false →
      SSplit (.exit a ty) .prd a (fun h => .exit h ty)

theorem SSplit.of_split' (s : Stmt) {pc : PC} {t : Term} {S : Term → Stmt}
    (h : s.split = some (pc, t, S)) : SSplit s pc t S := by
  unfold Stmt.split at h
  split at h
  · next ty kpc k as kt c =>
    split at h
    · next c' u A hs =>
      simp only [Option.some.injEq, Prod.mk.injEq] at h
      obtain ⟨rfl, rfl, rfl⟩ := h
      exact .cutL _ _ _ _ _ _ (ASplit.of_split as hs)
    · next hsn =>
      split at h
      · next dpc d ds dt =>
        split at h
        · next c' u D hs =>
          simp only [Option.some.injEq, Prod.mk.injEq] at h
          obtain ⟨rfl, rfl, rfl⟩ := h
          exact .cutLR _ _ _ _ _ _ _ _ _ hsn (ASplit.of_split ds hs)
        · simp at h
      · simp at h
  · next ty p dpc d ds dt hnx =>
    split at h
    · next c' u D hs =>
      simp only [Option.some.injEq, Prod.mk.injEq] at h
      obtain ⟨rfl, rfl, rfl⟩ := h
      exact .cutR _ _ _ _ _ _ (fun pc k as t e => hnx pc k as t e) (ASplit.of_split ds hs)
    · simp at h
  · next ty a o b c hnx =>
    have hc : ∀ dpc d ds dt, c ≠ .xtor dpc d ds dt := fun dpc d ds dt e => hnx dpc d ds dt e
    split at h
    · next ha =>
      simp only [Option.some.injEq, Prod.mk.injEq] at h
      obtain ⟨rfl, rfl, rfl⟩ := h
      exact .opL _ _ _ _ _ (by simpa using ha) hc
    · next ha =>
      split at h
      · next hb =>
        simp only [Option.some.injEq, Prod.mk.injEq] at h
        obtain ⟨rfl, rfl, rfl⟩ := h
        exact .opR _ _ _ _ _ (by simpa using ha) (by simpa using hb) hc
      · simp at h
  · simp at h
  · next srt a b t' e =>
    split at h
    · next ha =>
      simp only [Option.some.injEq, Prod.mk.injEq] at h
      obtain ⟨rfl, rfl, rfl⟩ := h
      exact .ifcL _ _ _ _ _ (by simpa using ha)
    · next ha =>
      split at h
      · next hb =>
        simp only [Option.some.injEq, Prod.mk.injEq] at h
        obtain ⟨rfl, rfl, rfl⟩ := h
        exact .ifcR _ _ _ _ _ (by simpa using ha) (by simpa using hb)
      · simp at h
  · next srt a t' e =>
    split at h
    · next ha =>
      simp only [Option.some.injEq, Prod.mk.injEq] at h
      obtain ⟨rfl, rfl, rfl⟩ := h
      exact .ifz _ _ _ _ (by simpa using ha)
    · simp at h
  · next nl a nx =>
    split at h
    · next ha =>
      simp only [Option.some.injEq, Prod.mk.injEq] at h
      obtain ⟨rfl, rfl, rfl⟩ := h
      exact .print _ _ _ (by simpa using ha)
    · simp at h
  · next f as ty =>
    split at h
    · next c' u A hs =>
      simp only [Option.some.injEq, Prod.mk.injEq] at h
      obtain ⟨rfl, rfl, rfl⟩ := h
      exact .call _ _ _ (ASplit.of_split as hs)
    · simp at h
  · next a ty =>
    split at h
    · next ha =>
      simp only [Option.some.injEq, Prod.mk.injEq] at h
      obtain ⟨rfl, rfl, rfl⟩ := h
      exact .exit _ _ (by simpa using ha)
    · simp at h

theorem SSplit.of_split (s : Stmt) {pc : PC} {t : Term} {S : Term → Stmt}
    (h : s.split = some (pc, t, S)) (_hok : s.cutOkTop = true) : SSplit s pc t S :=
  SSplit.of_split' s h

/-! ## consequences -/

theorem ASplit.notVar {as pc t A} (h : ASplit as pc t A) : t.isVar = false := by
  induction h with
  | here _ _ _ hv => exact hv
  | there _ _ _ _ _ ih => exact ih

theorem SSplit.notVar {s pc t S} (h : SSplit s pc t S) : t.isVar = false := by
  cases h <;> first | assumption | exact ASplit.notVar (by assumption)

theorem ASplit.idents_t {as pc t A} (h : ASplit as pc t A) : ∀ i ∈ t.idents, i ∈ as.idents := by
  induction h with
  | here _ _ _ _ => intro i hi; simp [Args.idents, hi]
  | there _ _ _ _ _ ih => intro i hi; simp [Args.idents, ih i hi]

theorem ASplit.idents_A {as pc t A} (h : ASplit as pc t A) (x : Term) :
    ∀ i ∈ (A x).idents, i ∈ as.idents ∨ i ∈ x.idents := by
  induction h with
  | here _ _ _ _ =>
    intro i hi; simp only [Args.idents, List.mem_append] at hi ⊢
    rcases hi with hi | hi
    · exact Or.inr hi
    · exact Or.inl (Or.inr hi)
  | there _ _ _ _ _ ih =>
    intro i hi; simp only [Args.idents, List.mem_append] at hi ⊢
    rcases hi with hi | hi
    · exact Or.inl (Or.inl hi)
    · rcases ih i hi with h | h
      · exact Or.inl (Or.inr h)
      · exact Or.inr h

theorem SSplit.idents_t {s pc t S} (h : SSplit s pc t S) : ∀ i ∈ t.idents, i ∈ s.idents := by
  cases h with
  | cutL _ _ _ _ _ _ ha => intro i hi; simp [Stmt.idents, Term.idents, ha.idents_t i hi]
  | cutLR _ _ _ _ _ _ _ _ _ _ ha => intro i hi; simp [Stmt.idents, Term.idents, ha.idents_t i hi]
  | cutR _ _ _ _ _ _ _ ha => intro i hi; simp [Stmt.idents, Term.idents, ha.idents_t i hi]
  | call _ _ _ ha => intro i hi; simp [Stmt.idents, ha.idents_t i hi]
  | _ => intro i hi; simp [Stmt.idents, Term.idents, hi]

theorem SSplit.idents_S {s pc t S} (h : SSplit s pc t S) (x : Term) :
    ∀ i ∈ (S x).idents, i ∈ s.idents ∨ i ∈ x.idents := by
  cases h with
  | cutL _ _ _ _ _ _ ha =>
    intro i hi; simp only [Stmt.idents, Term.idents, List.mem_append] at hi ⊢
    rcases hi with hi | hi
    · rcases ha.idents_A x i hi with h | h
      · exact Or.inl (Or.inl h)
      · exact Or.inr h
    · exact Or.inl (Or.inr hi)
  | cutLR _ _ _ _ _ _ _ _ _ _ ha =>
    intro i hi; simp only [Stmt.idents, Term.idents, List.mem_append] at hi ⊢
    rcases hi with hi | hi
    · exact Or.inl (Or.inl hi)
    · rcases ha.idents_A x i hi with h | h
      · exact Or.inl (Or.inr h)
      · exact Or.inr h
  | cutR _ _ _ _ _ _ _ ha =>
    intro i hi; simp only [Stmt.idents, Term.idents, List.mem_append] at hi ⊢
    rcases hi with hi | hi
    · exact Or.inl (Or.inl hi)
    · rcases ha.idents_A x i hi with h | h
      · exact Or.inl (Or.inr h)
      · exact Or.inr h
  | call _ _ _ ha =>
    intro i hi; simp only [Stmt.idents] at hi ⊢
    exact ha.idents_A x i hi
  | _ =>
    intro i hi; simp only [Stmt.idents, Term.idents, List.mem_append] at hi ⊢
    grind

/-! ### plugging is a congruence for α-equivalence -/

theorem ASplit.plug {as pc t A} (h : ASplit as pc t A) {sc1 sc2 : List Ident} {x y : Term}
    (he : dbA sc1 as = dbA sc2 as) (hx : dbT sc1 x = dbT sc2 y) :
    dbA sc1 (A x) = dbA sc2 (A y) := by
  induction h with
  | here _ _ _ _ =>
    simp only [dbA, DArgs.cons.injEq, true_and] at he ⊢
    exact ⟨hx, he.2⟩
  | there _ _ _ _ _ ih =>
    simp only [dbA, DArgs.cons.injEq, true_and] at he ⊢
    exact ⟨he.1, ih he.2⟩

theorem SSplit.plug {s pc t S} (h : SSplit s pc t S) {sc1 sc2 : List Ident} {x y : Term}
    (he : dbS sc1 s = dbS sc2 s) (hx : dbT sc1 x = dbT sc2 y) :
    dbS sc1 (S x) = dbS sc2 (S y) := by
  cases h with
  | cutL _ _ _ _ _ _ ha =>
    simp only [dbS, dbT, DStmt.cut.injEq, DTerm.xtor.injEq, true_and, and_true] at he ⊢
    exact ⟨ha.plug he.1 hx, he.2⟩
  | cutLR _ _ _ _ _ _ _ _ _ _ ha =>
    simp only [dbS, dbT, DStmt.cut.injEq, DTerm.xtor.injEq, true_and, and_true] at he ⊢
    exact ⟨he.1, ha.plug he.2 hx⟩
  | cutR _ _ _ _ _ _ _ ha =>
    simp only [dbS, dbT, DStmt.cut.injEq, DTerm.xtor.injEq, true_and, and_true] at he ⊢
    exact ⟨he.1, ha.plug he.2 hx⟩
  | call _ _ _ ha =>
    simp only [dbS, DStmt.call.injEq, true_and, and_true] at he ⊢
    exact ha.plug he hx
  | opL | opR =>
    simp only [dbS, dbT, DStmt.cut.injEq, DTerm.op.injEq, true_and] at he ⊢
    grind
  | ifcL | ifcR =>
    simp only [dbS, DStmt.ifc.injEq, true_and] at he ⊢
    grind
  | ifz =>
    simp only [dbS, DStmt.ifz.injEq, true_and] at he ⊢
    grind
  | print =>
    simp only [dbS, DStmt.print.injEq, true_and] at he ⊢
    grind
  | exit =>
    simp only [dbS, DStmt.exit.injEq, and_true] at he ⊢
    exact hx

/-! ## chirality flags agree with positions (what typing guarantees; `Term<Prd>`/`Term<Cns>` in Rust) -/

mutual
  /-- `pc` = chirality of the position the term stands in: binder-like constructors carry that
      chirality, literals and operators are producers -/
  def Term.pcOk : PC → Term → Bool
    | _, .var _ _ _ => true
    | pc, .lit _ => pc == .prd
    | pc, .op a _ b => pc == .prd && a.pcOk .prd && b.pcOk .prd
    | pc, .mu pc' _ _ s => pc' == pc && s.pcOk
    | pc, .xtor pc' _ as _ => pc' == pc && as.pcOk
    | pc, .xcase pc' _ cl => pc' == pc && cl.pcOk
  def Args.pcOk : Args → Bool
    | .nil => true
    | .cons pc t r => t.pcOk pc && r.pcOk
  def Clauses.pcOk : Clauses → Bool
    | .nil => true
    | .cons _ _ b r => b.pcOk && r.pcOk
  def Stmt.pcOk : Stmt → Bool
    | .cut _ p c => p.pcOk .prd && c.pcOk .cns
    | .ifc _ a b t e => a.pcOk .prd && b.pcOk .prd && t.pcOk && e.pcOk
    | .ifz _ a t e => a.pcOk .prd && t.pcOk && e.pcOk
    | .print _ a n => a.pcOk .prd && n.pcOk
    | .call _ as _ => as.pcOk
    | .exit a _ => a.pcOk .prd
end

theorem ASplit.pcOk {as pc t A} (h : ASplit as pc t A) (hok : as.pcOk = true) :
    t.pcOk pc = true ∧ ∀ x, x.pcOk pc = true → (A x).pcOk = true := by
  induction h with
  | here _ _ _ _ =>
    simp only [Args.pcOk, Bool.and_eq_true] at hok ⊢
    exact ⟨hok.1, fun x hx => ⟨hx, hok.2⟩⟩
  | there _ _ _ _ _ ih =>
    simp only [Args.pcOk, Bool.and_eq_true] at hok ⊢
    exact ⟨(ih hok.2).1, fun x hx => ⟨hok.1, (ih hok.2).2 x hx⟩⟩

theorem SSplit.pcOk {s pc t S} (h : SSplit s pc t S) (hok : s.pcOk = true) :
    t.pcOk pc = true ∧ ∀ x, x.pcOk pc = true → (S x).pcOk = true := by
  cases h with
  | cutL _ _ _ _ _ _ ha =>
    simp only [Stmt.pcOk, Term.pcOk, Bool.and_eq_true] at hok ⊢
    exact ⟨(ha.pcOk hok.1.2).1, fun x hx => ⟨⟨hok.1.1, (ha.pcOk hok.1.2).2 x hx⟩, hok.2⟩⟩
  | cutLR _ _ _ _ _ _ _ _ _ _ ha =>
    simp only [Stmt.pcOk, Term.pcOk, Bool.and_eq_true] at hok ⊢
    exact ⟨(ha.pcOk hok.2.2).1, fun x hx => ⟨hok.1, hok.2.1, (ha.pcOk hok.2.2).2 x hx⟩⟩
  | cutR _ _ _ _ _ _ _ ha =>
    simp only [Stmt.pcOk, Term.pcOk, Bool.and_eq_true] at hok ⊢
    exact ⟨(ha.pcOk hok.2.2).1, fun x hx => ⟨hok.1, hok.2.1, (ha.pcOk hok.2.2).2 x hx⟩⟩
  | call _ _ _ ha =>
    simp only [Stmt.pcOk] at hok ⊢
    exact ha.pcOk hok
  | _ =>
    simp only [Stmt.pcOk, Term.pcOk, Bool.and_eq_true] at hok ⊢
    grind

/-! ## the cut shapes on which `focus` panics do not arise -/

theorem ASplit.cutsOk {as pc t A} (h : ASplit as pc t A) (hok : as.cutsOk = true) :
    t.cutsOk = true ∧ ∀ x, x.cutsOk = true → (A x).cutsOk = true := by
  induction h with
  | here _ _ _ _ =>
    simp only [Args.cutsOk, Bool.and_eq_true] at hok ⊢
    exact ⟨hok.1, fun x hx => ⟨hx, hok.2⟩⟩
  | there _ _ _ _ _ ih =>
    simp only [Args.cutsOk, Bool.and_eq_true] at hok ⊢
    exact ⟨(ih hok.2).1, fun x hx => ⟨hok.1, (ih hok.2).2 x hx⟩⟩

theorem Stmt.cutsOk_cut_xtorL {ty pc k as t cn} (h : (Stmt.cut ty (.xtor pc k as t) cn).cutsOk = true) :
    as.cutsOk = true ∧ cn.cutsOk = true ∧ ∀ as', as'.cutsOk = true →
      (Stmt.cut ty (.xtor pc k as' t) cn).cutsOk = true := by
  cases cn <;> simp_all [Stmt.cutsOk, Term.cutsOk]

theorem Stmt.cutsOk_cut_xtorR {ty p dpc d ds dt} (h : (Stmt.cut ty p (.xtor dpc d ds dt)).cutsOk = true) :
    p.cutsOk = true ∧ ds.cutsOk = true ∧ ∀ ds', ds'.cutsOk = true →
      (Stmt.cut ty p (.xtor dpc d ds' dt)).cutsOk = true := by
  cases p <;> simp_all [Stmt.cutsOk, Term.cutsOk]

theorem Stmt.cutsOk_cut_op {ty a o b cn} (h : (Stmt.cut ty (.op a o b) cn).cutsOk = true) :
    a.cutsOk = true ∧ b.cutsOk = true ∧ cn.cutsOk = true ∧ ∀ a' b', a'.cutsOk = true →
      b'.cutsOk = true → (Stmt.cut ty (.op a' o b') cn).cutsOk = true := by
  cases cn <;> simp_all [Stmt.cutsOk, Term.cutsOk]

theorem SSplit.cutsOk {s pc t S} (h : SSplit s pc t S) (hok : s.cutsOk = true) :
    t.cutsOk = true ∧ ∀ x, x.cutsOk = true → (S x).cutsOk = true := by
  cases h with
  | cutL _ _ _ _ _ _ ha =>
    obtain ⟨h1, h2, h3⟩ := Stmt.cutsOk_cut_xtorL hok
    exact ⟨(ha.cutsOk h1).1, fun x hx => h3 _ ((ha.cutsOk h1).2 x hx)⟩
  | cutLR _ _ _ _ _ _ _ _ _ _ ha => simp [Stmt.cutsOk] at hok
  | cutR _ _ _ _ _ _ _ ha =>
    obtain ⟨h1, h2, h3⟩ := Stmt.cutsOk_cut_xtorR hok
    exact ⟨(ha.cutsOk h2).1, fun x hx => h3 _ ((ha.cutsOk h2).2 x hx)⟩
  | call _ _ _ ha =>
    simp only [Stmt.cutsOk] at hok ⊢
    exact ha.cutsOk hok
  | opL =>
    obtain ⟨h1, h2, h3, h4⟩ := Stmt.cutsOk_cut_op hok
    exact ⟨h1, fun x hx => h4 _ _ hx h2⟩
  | opR =>
    obtain ⟨h1, h2, h3, h4⟩ := Stmt.cutsOk_cut_op hok
    exact ⟨h2, fun x hx => h4 _ _ h1 hx⟩
  | _ =>
    simp only [Stmt.cutsOk, Bool.and_eq_true] at hok ⊢
    grind

theorem Stmt.cutOkTop_of_cutsOk {s : Stmt} (h : s.cutsOk = true) : s.cutOkTop = true := by
  unfold Stmt.cutOkTop
  split <;> simp_all [Stmt.cutsOk]

end Scc.Core
