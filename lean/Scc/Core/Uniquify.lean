/-
  Scc.Core.Uniquify — model of name-based simultaneous substitution (`Subst::subst_sim`) and of
  `uniquify` on Core, transcribed from /repo/lang/core_lang/src
    traits/substitution.rs, traits/uniquify.rs, syntax/names.rs (fresh_identifier),
    syntax/program.rs (Prog::uniquify), syntax/def.rs (Def::uniquify),
    syntax/terms/{mod,xvar,mu,clause,xcase,xtor,op}.rs, syntax/arguments.rs,
    syntax/statements/{mod,cut,ifc,print,call,exit}.rs   (impl Subst / impl Uniquify).
  Core imports only; executable.

  The counter `max_id: &mut ID` is threaded explicitly: every function takes the counter and
  returns the new one, in the order in which Rust performs the updates.

  Panics.  `Term<Cns>::subst_sim` (and later `focus`/`bind`) panic with "cannot happen" on a
  `Literal`/`Op` in *consumer* position.  Such a tree cannot come out of fun2core; here it is
  detected by `Prog.chiralityOk` and `uniquifyProgE` returns an error for it (the total function
  `uniquifyProg` leaves such a sub-term unchanged; never rely on it outside `chiralityOk`).
-/
import Scc.Core.Syntax

namespace Scc.Core

/-! ## node count (termination measure of `uniquify`, which recurses on a substituted body) -/

mutual
  def Term.size : Term → Nat
    | .var _ _ _ => 1
    | .lit _ => 1
    | .op a _ b => 1 + a.size + b.size
    | .mu _ _ _ s => 1 + s.size
    | .xtor _ _ as _ => 1 + as.size
    | .xcase _ _ cs => 1 + cs.size
  def Args.size : Args → Nat
    | .nil => 1
    | .cons _ t r => 1 + t.size + r.size
  def Clauses.size : Clauses → Nat
    | .nil => 1
    | .cons _ _ b r => 1 + b.size + r.size
  def Stmt.size : Stmt → Nat
    | .cut _ p c => 1 + p.size + c.size
    | .ifc _ a b t e => 1 + a.size + b.size + t.size + e.size
    | .ifz _ a t e => 1 + a.size + t.size + e.size
    | .print _ a n => 1 + a.size + n.size
    | .call _ as _ => 1 + as.size
    | .exit a _ => 1 + a.size
end

/-! ## substitution (traits/substitution.rs and the `impl Subst` blocks) -/

/-- `&[(Identifier, Term<Prd>)]` resp. `&[(Identifier, Term<Cns>)]` -/
abbrev Subst := List (Ident × Term)

-- xvar.rs: `subst.iter().find(|(var, _)| *var == self.var)`
def substFind : Subst → Ident → Option Term
  | [], _ => none
  | (w, t) :: r, v => if w = v then some t else substFind r v

-- mu.rs Subst for Mu: `if subst.0 != self.variable { reduced.push(subst.clone()) }`
def substRemove : Subst → Ident → Subst
  | [], _ => []
  | (w, t) :: r, v => if w = v then substRemove r v else (w, t) :: substRemove r v

-- context.rs: `self.context.vars().contains(&x)` (set of the bound identifiers, any chirality)
def ctxHasVar : Ctx → Ident → Bool
  | [], _ => false
  | b :: r, v => if b.var = v then true else ctxHasVar r v

-- clause.rs Subst for Clause: `if !self.context.vars().contains(&subst.0) { reduced.push(..) }`
def substRemoveCtx : Subst → Ctx → Subst
  | [], _ => []
  | (w, t) :: r, c => if ctxHasVar c w then substRemoveCtx r c else (w, t) :: substRemoveCtx r c

mutual
  -- terms/mod.rs: impl Subst for Term<Prd> / Term<Cns>; xvar.rs, op.rs, mu.rs, xtor.rs, xcase.rs
  def substTerm (ps cs : Subst) : Term → Term
    | .var .prd v ty =>
      match substFind ps v with
      | none => .var .prd v ty
      | some p => p
    | .var .cns v ty =>
      match substFind cs v with
      | none => .var .cns v ty
      | some c => c
    | .lit n => .lit n                 -- (consumer position: Rust panics, see `chiralityOk`)
    | .op a o b => .op (substTerm ps cs a) o (substTerm ps cs b)
    | .mu pc v ty s => .mu pc v ty (substStmt (substRemove ps v) (substRemove cs v) s)
    | .xtor pc n as ty => .xtor pc n (substArgs ps cs as) ty
    | .xcase pc ty cl => .xcase pc ty (substClauses ps cs cl)
  -- arguments.rs: impl Subst for Arguments / Argument (Vec: in order)
  def substArgs (ps cs : Subst) : Args → Args
    | .nil => .nil
    | .cons pc t r => .cons pc (substTerm ps cs t) (substArgs ps cs r)
  -- clause.rs: impl Subst for Clause (Vec<Clause>: in order)
  def substClauses (ps cs : Subst) : Clauses → Clauses
    | .nil => .nil
    | .cons x ctx b r =>
      .cons x ctx (substStmt (substRemoveCtx ps ctx) (substRemoveCtx cs ctx) b) (substClauses ps cs r)
  -- statements/mod.rs: impl Subst for Statement; cut.rs, ifc.rs, print.rs, call.rs, exit.rs
  def substStmt (ps cs : Subst) : Stmt → Stmt
    | .cut ty p c => .cut ty (substTerm ps cs p) (substTerm ps cs c)
    | .ifc srt a b t e =>
      .ifc srt (substTerm ps cs a) (substTerm ps cs b) (substStmt ps cs t) (substStmt ps cs e)
    | .ifz srt a t e => .ifz srt (substTerm ps cs a) (substStmt ps cs t) (substStmt ps cs e)
    | .print nl a n => .print nl (substTerm ps cs a) (substStmt ps cs n)
    | .call f as ty => .call f (substArgs ps cs as) ty
    | .exit a ty => .exit (substTerm ps cs a) ty
end

/-- all right-hand sides are variables (what `uniquify` substitutes) -/
def Subst.allVars : Subst → Bool
  | [] => true
  | (_, .var _ _ _) :: r => Subst.allVars r
  | _ => false

theorem Subst.allVars_find {σ : Subst} (h : σ.allVars = true) {v : Ident} {t : Term}
    (hf : substFind σ v = some t) : t.size = 1 := by
  induction σ with
  | nil => simp [substFind] at hf
  | cons e r ih =>
    obtain ⟨w, u⟩ := e
    cases u <;> simp [Subst.allVars] at h
    simp only [substFind] at hf
    split at hf
    · cases hf; simp [Term.size]
    · exact ih h hf

theorem Subst.allVars_remove {σ : Subst} (h : σ.allVars = true) (v : Ident) :
    (substRemove σ v).allVars = true := by
  induction σ with
  | nil => simp [substRemove, Subst.allVars]
  | cons e r ih =>
    obtain ⟨w, u⟩ := e
    cases u <;> simp [Subst.allVars] at h
    simp only [substRemove]
    split
    · exact ih h
    · simp [Subst.allVars, ih h]

theorem Subst.allVars_removeCtx {σ : Subst} (h : σ.allVars = true) (c : Ctx) :
    (substRemoveCtx σ c).allVars = true := by
  induction σ with
  | nil => simp [substRemoveCtx, Subst.allVars]
  | cons e r ih =>
    obtain ⟨w, u⟩ := e
    cases u <;> simp [Subst.allVars] at h
    simp only [substRemoveCtx]
    split
    · exact ih h
    · simp [Subst.allVars, ih h]

mutual
  theorem size_substTerm (ps cs : Subst) (hp : ps.allVars = true) (hc : cs.allVars = true) :
      (t : Term) → (substTerm ps cs t).size = t.size
    | .var .prd v ty => by
      simp only [substTerm]
      split
      · rfl
      · next h => simp [Subst.allVars_find hp h, Term.size]
    | .var .cns v ty => by
      simp only [substTerm]
      split
      · rfl
      · next h => simp [Subst.allVars_find hc h, Term.size]
    | .lit n => by simp [substTerm]
    | .op a o b => by
      simp [substTerm, Term.size, size_substTerm ps cs hp hc a, size_substTerm ps cs hp hc b]
    | .mu pc v ty s => by
      simp [substTerm, Term.size,
        size_substStmt _ _ (Subst.allVars_remove hp v) (Subst.allVars_remove hc v) s]
    | .xtor pc n as ty => by simp [substTerm, Term.size, size_substArgs ps cs hp hc as]
    | .xcase pc ty cl => by simp [substTerm, Term.size, size_substClauses ps cs hp hc cl]
  theorem size_substArgs (ps cs : Subst) (hp : ps.allVars = true) (hc : cs.allVars = true) :
      (as : Args) → (substArgs ps cs as).size = as.size
    | .nil => by simp [substArgs]
    | .cons pc t r => by
      simp [substArgs, Args.size, size_substTerm ps cs hp hc t, size_substArgs ps cs hp hc r]
  theorem size_substClauses (ps cs : Subst) (hp : ps.allVars = true) (hc : cs.allVars = true) :
      (cl : Clauses) → (substClauses ps cs cl).size = cl.size
    | .nil => by simp [substClauses]
    | .cons x ctx b r => by
      simp [substClauses, Clauses.size, size_substClauses ps cs hp hc r,
        size_substStmt _ _ (Subst.allVars_removeCtx hp ctx) (Subst.allVars_removeCtx hc ctx) b]
  theorem size_substStmt (ps cs : Subst) (hp : ps.allVars = true) (hc : cs.allVars = true) :
      (s : Stmt) → (substStmt ps cs s).size = s.size
    | .cut ty p c => by
      simp [substStmt, Stmt.size, size_substTerm ps cs hp hc p, size_substTerm ps cs hp hc c]
    | .ifc srt a b t e => by
      simp [substStmt, Stmt.size, size_substTerm ps cs hp hc a, size_substTerm ps cs hp hc b,
        size_substStmt ps cs hp hc t, size_substStmt ps cs hp hc e]
    | .ifz srt a t e => by
      simp [substStmt, Stmt.size, size_substTerm ps cs hp hc a,
        size_substStmt ps cs hp hc t, size_substStmt ps cs hp hc e]
    | .print nl a n => by
      simp [substStmt, Stmt.size, size_substTerm ps cs hp hc a, size_substStmt ps cs hp hc n]
    | .call f as ty => by simp [substStmt, Stmt.size, size_substArgs ps cs hp hc as]
    | .exit a ty => by simp [substStmt, Stmt.size, size_substTerm ps cs hp hc a]
end

/-! ## uniquify -/

-- names.rs: fn fresh_identifier  (`*max_id += 1`, the new identifier carries the new value)
def freshIdentifier (maxId : Nat) (baseName : String) : Ident × Nat :=
  (⟨baseName, maxId + 1⟩, maxId + 1)

/-- result of the binder loop shared by def.rs `Def::uniquify` and clause.rs `Clause::uniquify` -/
structure UCtx where
  ctx : Ctx
  varSubst : Subst
  covarSubst : Subst
  maxId : Nat

-- def.rs / clause.rs: `for binding in self.context.bindings { if binding.var.id == 0 { .. } else { .. } }`
def uniquifyCtx : Ctx → Nat → UCtx
  | [], n => ⟨[], [], [], n⟩
  | b :: r, n =>
    if b.var.id = 0 then
      let (newVar, n1) := freshIdentifier n b.var.name
      let u := uniquifyCtx r n1
      match b.chi with
      | .prd => ⟨⟨newVar, b.chi, b.ty⟩ :: u.ctx, (b.var, .var .prd newVar b.ty) :: u.varSubst,
                 u.covarSubst, u.maxId⟩
      | .cns => ⟨⟨newVar, b.chi, b.ty⟩ :: u.ctx, u.varSubst,
                 (b.var, .var .cns newVar b.ty) :: u.covarSubst, u.maxId⟩
    else
      let u := uniquifyCtx r n
      ⟨b :: u.ctx, u.varSubst, u.covarSubst, u.maxId⟩

theorem uniquifyCtx_allVars (c : Ctx) (n : Nat) :
    (uniquifyCtx c n).varSubst.allVars = true ∧ (uniquifyCtx c n).covarSubst.allVars = true := by
  induction c generalizing n with
  | nil => simp [uniquifyCtx, Subst.allVars]
  | cons b r ih =>
    simp only [uniquifyCtx, freshIdentifier]
    split
    · split <;> simp [Subst.allVars, ih]
    · simp [ih]

/-- `self.body = if var_subst.is_empty() && covar_subst.is_empty() { body } else { body.subst_sim(..) }` -/
def substIfAny (ps cs : Subst) (s : Stmt) : Stmt :=
  if ps.isEmpty && cs.isEmpty then s else substStmt ps cs s

theorem size_substIfAny (ps cs : Subst) (hp : ps.allVars = true) (hc : cs.allVars = true)
    (s : Stmt) : (substIfAny ps cs s).size = s.size := by
  unfold substIfAny; split
  · rfl
  · exact size_substStmt ps cs hp hc s

mutual
  -- terms/mod.rs: impl Uniquify for Term<C>; mu.rs, op.rs, xtor.rs, xcase.rs
  def uniquifyTerm (t : Term) (n : Nat) : Term × Nat :=
    match t with
    | .var pc v ty => (.var pc v ty, n)
    | .lit k => (.lit k, n)
    | .op a o b =>
      let (a', n1) := uniquifyTerm a n
      let (b', n2) := uniquifyTerm b n1
      (.op a' o b', n2)
    | .mu pc v ty s =>
      if v.id = 0 then
        let (newVar, n1) := freshIdentifier n v.name
        match pc with
        | .prd =>   -- subst_covar(old, XVar::covar(new, ty))
          let (s', n2) := uniquifyStmt (substStmt [] [(v, .var .cns newVar ty)] s) n1
          (.mu pc newVar ty s', n2)
        | .cns =>   -- subst_var(old, XVar::var(new, ty))
          let (s', n2) := uniquifyStmt (substStmt [(v, .var .prd newVar ty)] [] s) n1
          (.mu pc newVar ty s', n2)
      else
        let (s', n1) := uniquifyStmt s n
        (.mu pc v ty s', n1)
    | .xtor pc name as ty =>
      let (as', n1) := uniquifyArgs as n
      (.xtor pc name as' ty, n1)
    | .xcase pc ty cl =>
      let (cl', n1) := uniquifyClauses cl n
      (.xcase pc ty cl', n1)
  termination_by t.size
  decreasing_by
    all_goals simp only [Term.size]
    all_goals first
      | omega
      | (rw [size_substStmt _ _ (by simp [Subst.allVars]) (by simp [Subst.allVars])]; omega)
  -- arguments.rs: impl Uniquify for Arguments (Vec: left to right)
  def uniquifyArgs (as : Args) (n : Nat) : Args × Nat :=
    match as with
    | .nil => (.nil, n)
    | .cons pc t r =>
      let (t', n1) := uniquifyTerm t n
      let (r', n2) := uniquifyArgs r n1
      (.cons pc t' r', n2)
  termination_by as.size
  decreasing_by all_goals (simp only [Args.size]; omega)
  -- clause.rs: impl Uniquify for Clause (Vec<Clause>: left to right)
  def uniquifyClauses (cl : Clauses) (n : Nat) : Clauses × Nat :=
    match cl with
    | .nil => (.nil, n)
    | .cons x ctx b r =>
      let u := uniquifyCtx ctx n
      let (b', n1) := uniquifyStmt (substIfAny u.varSubst u.covarSubst b) u.maxId
      let (r', n2) := uniquifyClauses r n1
      (.cons x u.ctx b' r', n2)
  termination_by cl.size
  decreasing_by
    · simp only [Clauses.size]
      rw [size_substIfAny _ _ (uniquifyCtx_allVars ctx n).1 (uniquifyCtx_allVars ctx n).2]
      omega
    · simp only [Clauses.size]; omega
  -- statements/mod.rs: impl Uniquify for Statement; cut.rs, ifc.rs, print.rs, call.rs, exit.rs
  def uniquifyStmt (s : Stmt) (n : Nat) : Stmt × Nat :=
    match s with
    | .cut ty p c =>
      let (p', n1) := uniquifyTerm p n
      let (c', n2) := uniquifyTerm c n1
      (.cut ty p' c', n2)
    | .ifc srt a b t e =>
      let (a', n1) := uniquifyTerm a n
      let (b', n2) := uniquifyTerm b n1
      let (t', n3) := uniquifyStmt t n2
      let (e', n4) := uniquifyStmt e n3
      (.ifc srt a' b' t' e', n4)
    | .ifz srt a t e =>
      let (a', n1) := uniquifyTerm a n
      let (t', n2) := uniquifyStmt t n1
      let (e', n3) := uniquifyStmt e n2
      (.ifz srt a' t' e', n3)
    | .print nl a nx =>
      let (a', n1) := uniquifyTerm a n
      let (nx', n2) := uniquifyStmt nx n1
      (.print nl a' nx', n2)
    | .call f as ty =>
      let (as', n1) := uniquifyArgs as n
      (.call f as' ty, n1)
    | .exit a ty =>
      let (a', n1) := uniquifyTerm a n
      (.exit a' ty, n1)
  termination_by s.size
  decreasing_by all_goals (simp only [Stmt.size]; omega)
end

-- def.rs: fn Def::uniquify
def uniquifyDef (d : Def) (n : Nat) : Def × Nat :=
  let u := uniquifyCtx d.ctx n
  let (b', n1) := uniquifyStmt (substIfAny u.varSubst u.covarSubst d.body) u.maxId
  (⟨d.name, u.ctx, b'⟩, n1)

-- program.rs: fn Prog::uniquify (`for def in defs { def.uniquify(&mut self.max_id) }`)
def uniquifyDefs : List Def → Nat → List Def × Nat
  | [], n => ([], n)
  | d :: r, n =>
    let (d', n1) := uniquifyDef d n
    let (r', n2) := uniquifyDefs r n1
    (d' :: r', n2)

def uniquifyProg (p : Prog) : Prog :=
  let (ds, n) := uniquifyDefs p.defs p.maxId
  ⟨ds, p.dataTypes, p.codataTypes, n⟩

/-! ## the domain on which Rust does not panic: no `Literal`/`Op` in consumer position -/

mutual
  /-- `pc` = chirality of the position the term stands in -/
  def Term.chiOk : PC → Term → Bool
    | _, .var _ _ _ => true
    | pc, .lit _ => pc == .prd
    | pc, .op a _ b => pc == .prd && a.chiOk .prd && b.chiOk .prd
    | _, .mu _ _ _ s => s.chiOk
    | _, .xtor _ _ as _ => as.chiOk
    | _, .xcase _ _ cl => cl.chiOk
  def Args.chiOk : Args → Bool
    | .nil => true
    | .cons pc t r => t.chiOk pc && r.chiOk
  def Clauses.chiOk : Clauses → Bool
    | .nil => true
    | .cons _ _ b r => b.chiOk && r.chiOk
  def Stmt.chiOk : Stmt → Bool
    | .cut _ p c => p.chiOk .prd && c.chiOk .cns
    | .ifc _ a b t e => a.chiOk .prd && b.chiOk .prd && t.chiOk && e.chiOk
    | .ifz _ a t e => a.chiOk .prd && t.chiOk && e.chiOk
    | .print _ a n => a.chiOk .prd && n.chiOk
    | .call _ as _ => as.chiOk
    | .exit a _ => a.chiOk .prd
end

def Prog.chiralityOk (p : Prog) : Bool := p.defs.all fun d => d.body.chiOk

def uniquifyProgE (p : Prog) : Except String Prog :=
  if p.chiralityOk then .ok (uniquifyProg p)
  else .error "literal/operator in consumer position (not a Term<Cns> of any pipeline; Rust: panic \"cannot happen\" in Term<Cns>::subst_sim, at the latest in focus)"

/-- input: the S2 dump text; output: `OK <S2u dump>` or `ERR ..` -/
def runLineUniquify (dumpS2 : String) : String :=
  match Sexp.parse dumpS2 with
  | none => "ERR sexp"
  | some sx =>
    match readProg (dumpS2.length + 10) sx with
    | none => "ERR read"
    | some p =>
      match uniquifyProgE p with
      | .ok q => "OK " ++ q.toSexp.render
      | .error e => "ERR " ++ e

end Scc.Core
