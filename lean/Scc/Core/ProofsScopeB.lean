/-
  Scc.Core.ProofsScopeB — proof side of C03 "binders are distinct from every free name", part B:
  after `uniquify` (on input whose binders all have id 0) every variable occurrence whose id is
  `> m0` is in the scope of the binder with that id (`uniquifyStmt_scoped`).
-/
import Scc.Core.ProofsScopeA

namespace Scc.Core

section
variable (m0 : Nat)

private def s1 (t : Term) (n : Nat) : Prop :=
  ∀ B, (∀ b ∈ t.binderIds, b = 0) → (∀ i ∈ t.occIds, i ≤ m0 ∨ i ∈ B) →
    ∀ i ∈ (uniquifyTerm t n).1.freeIds B, i ≤ m0
private def s2 (cl : Clauses) (n : Nat) : Prop :=
  ∀ B, (∀ b ∈ cl.binderIds, b = 0) → (∀ i ∈ cl.occIds, i ≤ m0 ∨ i ∈ B) →
    ∀ i ∈ (uniquifyClauses cl n).1.freeIds B, i ≤ m0
private def s3 (s : Stmt) (n : Nat) : Prop :=
  ∀ B, (∀ b ∈ s.binderIds, b = 0) → (∀ i ∈ s.occIds, i ≤ m0 ∨ i ∈ B) →
    ∀ i ∈ (uniquifyStmt s n).1.freeIds B, i ≤ m0
private def s4 (as : Args) (n : Nat) : Prop :=
  ∀ B, (∀ b ∈ as.binderIds, b = 0) → (∀ i ∈ as.occIds, i ≤ m0 ∨ i ∈ B) →
    ∀ i ∈ (uniquifyArgs as n).1.freeIds B, i ≤ m0

theorem uniquifyStmt_scoped (s : Stmt) (n : Nat) : s3 m0 s n := by
  apply uniquifyStmt.induct (motive1 := s1 m0) (motive2 := s2 m0) (motive3 := s3 m0)
    (motive4 := s4 m0)
  -- uniquifyTerm
  · intro n pc v ty B _ ho i
    simp only [uniquifyTerm, Term.freeIds, mem_unbound, List.mem_singleton]
    simp only [Term.occIds, List.mem_singleton] at ho
    grind
  · intro n k B _ _
    simp [uniquifyTerm, Term.freeIds]
  · intro n a o b a' n1 ha b' n2 hb iha ihb B hz ho i
    simp only [Term.binderIds, Term.occIds, List.mem_append] at hz ho
    have h1 := iha B (fun x hx => hz x (Or.inl hx)) (fun x hx => ho x (Or.inl hx)) i
    have h2 := ihb B (fun x hx => hz x (Or.inr hx)) (fun x hx => ho x (Or.inr hx)) i
    rw [ha] at h1; rw [hb] at h2
    simp only [uniquifyTerm, ha, hb, Term.freeIds, List.mem_append]
    grind
  · intro n v ty s hv newVar n1 hfresh s' n2 hs ih B hz ho i
    simp only [freshIdentifier, Prod.mk.injEq] at hfresh
    obtain ⟨rfl, rfl⟩ := hfresh
    simp only [Term.binderIds, Term.occIds, List.mem_cons] at hz ho
    have h := ih ((n + 1) :: B) (by
        rw [binderIds_substStmt _ _ (by simp [Subst.allVars]) (by simp [Subst.allVars])]
        exact fun x hx => hz x (Or.inr hx)) (by
        intro j hj
        have := occIds_substStmt _ _ s j hj
        simp only [OccSub, Subst.rangeIds, Term.occIds, List.mem_singleton,
          List.not_mem_nil, List.append_nil, false_or] at this
        simp only [List.mem_cons]
        have := ho j
        grind) i
    rw [hs] at h
    simpa only [uniquifyTerm, hv, freshIdentifier, hs, if_true, Term.freeIds] using h
  · intro n v ty s hv newVar n1 hfresh s' n2 hs ih B hz ho i
    simp only [freshIdentifier, Prod.mk.injEq] at hfresh
    obtain ⟨rfl, rfl⟩ := hfresh
    simp only [Term.binderIds, Term.occIds, List.mem_cons] at hz ho
    have h := ih ((n + 1) :: B) (by
        rw [binderIds_substStmt _ _ (by simp [Subst.allVars]) (by simp [Subst.allVars])]
        exact fun x hx => hz x (Or.inr hx)) (by
        intro j hj
        have := occIds_substStmt _ _ s j hj
        simp only [OccSub, Subst.rangeIds, Term.occIds, List.mem_singleton,
          List.not_mem_nil, List.append_nil, or_false] at this
        simp only [List.mem_cons]
        have := ho j
        grind) i
    rw [hs] at h
    simpa only [uniquifyTerm, hv, freshIdentifier, hs, if_true, Term.freeIds] using h
  · intro n pc v ty s hv s' n2 hs ih B hz
    exact absurd (hz v.id (by simp [Term.binderIds])) hv
  · intro n pc name as ty as' n1 has ih B hz ho i
    simp only [Term.binderIds, Term.occIds] at hz ho
    have h := ih B hz ho i
    rw [has] at h
    simpa only [uniquifyTerm, has, Term.freeIds] using h
  · intro n pc ty cs cl' n1 hcl ih B hz ho i
    simp only [Term.binderIds, Term.occIds] at hz ho
    have h := ih B hz ho i
    rw [hcl] at h
    simpa only [uniquifyTerm, hcl, Term.freeIds] using h
  -- uniquifyClauses
  · intro n B _ _
    simp [uniquifyClauses, Clauses.freeIds]
  · intro n x ctx b r u s' n2 hs cl' n1 hr ihb ihr B hz ho i
    simp only [u] at hs ihb
    simp only [Clauses.binderIds, Clauses.occIds, List.mem_append] at hz ho
    have h1 := ihb (ctxIds (uniquifyCtx ctx n).ctx ++ B) (by
        rw [binderIds_substIfAny _ _ (uniquifyCtx_allVars ctx n).1 (uniquifyCtx_allVars ctx n).2]
        exact fun y hy => hz y (Or.inl (Or.inr hy))) (by
        intro j hj
        have := occIds_substIfAny _ _ b j hj
        have := (uniquifyCtx_range ctx n).1 j
        have := (uniquifyCtx_range ctx n).2 j
        have := ho j
        simp only [OccSub, List.mem_append] at *
        grind) i
    have h2 := ihr B (fun y hy => hz y (Or.inr hy)) (fun y hy => ho y (Or.inr hy)) i
    rw [hs] at h1; rw [hr] at h2
    simp only [uniquifyClauses, hs, hr, Clauses.freeIds, List.mem_append]
    grind
  -- uniquifyStmt
  · intro n ty p c p' n1 hp c' n2 hc ihp ihc B hz ho i
    simp only [Stmt.binderIds, Stmt.occIds, List.mem_append] at hz ho
    have h1 := ihp B (fun x hx => hz x (Or.inl hx)) (fun x hx => ho x (Or.inl hx)) i
    have h2 := ihc B (fun x hx => hz x (Or.inr hx)) (fun x hx => ho x (Or.inr hx)) i
    rw [hp] at h1; rw [hc] at h2
    simp only [uniquifyStmt, hp, hc, Stmt.freeIds, List.mem_append]
    grind
  · intro n srt a b t e a' n1 ha b' n2 hb t' n3 ht e' n4 he iha ihb iht ihe B hz ho i
    simp only [Stmt.binderIds, Stmt.occIds, List.mem_append] at hz ho
    have h1 := iha B (fun x hx => hz x (Or.inl (Or.inl (Or.inl hx))))
      (fun x hx => ho x (Or.inl (Or.inl (Or.inl hx)))) i
    have h2 := ihb B (fun x hx => hz x (Or.inl (Or.inl (Or.inr hx))))
      (fun x hx => ho x (Or.inl (Or.inl (Or.inr hx)))) i
    have h3 := iht B (fun x hx => hz x (Or.inl (Or.inr hx))) (fun x hx => ho x (Or.inl (Or.inr hx))) i
    have h4 := ihe B (fun x hx => hz x (Or.inr hx)) (fun x hx => ho x (Or.inr hx)) i
    rw [ha] at h1; rw [hb] at h2; rw [ht] at h3; rw [he] at h4
    simp only [uniquifyStmt, ha, hb, ht, he, Stmt.freeIds, List.mem_append]
    grind
  · intro n srt a t e a' n1 ha t' n3 ht e' n4 he iha iht ihe B hz ho i
    simp only [Stmt.binderIds, Stmt.occIds, List.mem_append] at hz ho
    have h1 := iha B (fun x hx => hz x (Or.inl (Or.inl hx))) (fun x hx => ho x (Or.inl (Or.inl hx))) i
    have h3 := iht B (fun x hx => hz x (Or.inl (Or.inr hx))) (fun x hx => ho x (Or.inl (Or.inr hx))) i
    have h4 := ihe B (fun x hx => hz x (Or.inr hx)) (fun x hx => ho x (Or.inr hx)) i
    rw [ha] at h1; rw [ht] at h3; rw [he] at h4
    simp only [uniquifyStmt, ha, ht, he, Stmt.freeIds, List.mem_append]
    grind
  · intro n nl a nx a' n1 ha nx' n2 hn iha ihn B hz ho i
    simp only [Stmt.binderIds, Stmt.occIds, List.mem_append] at hz ho
    have h1 := iha B (fun x hx => hz x (Or.inl hx)) (fun x hx => ho x (Or.inl hx)) i
    have h2 := ihn B (fun x hx => hz x (Or.inr hx)) (fun x hx => ho x (Or.inr hx)) i
    rw [ha] at h1; rw [hn] at h2
    simp only [uniquifyStmt, ha, hn, Stmt.freeIds, List.mem_append]
    grind
  · intro n f as ty as' n1 has ih B hz ho i
    simp only [Stmt.binderIds, Stmt.occIds] at hz ho
    have h := ih B hz ho i
    rw [has] at h
    simpa only [uniquifyStmt, has, Stmt.freeIds] using h
  · intro n a ty a' n1 ha ih B hz ho i
    simp only [Stmt.binderIds, Stmt.occIds] at hz ho
    have h := ih B hz ho i
    rw [ha] at h
    simpa only [uniquifyStmt, ha, Stmt.freeIds] using h
  -- uniquifyArgs
  · intro n B _ _
    simp [uniquifyArgs, Args.freeIds]
  · intro n pc t r t' n1 ht r' n2 hr iht ihr B hz ho i
    simp only [Args.binderIds, Args.occIds, List.mem_append] at hz ho
    have h1 := iht B (fun x hx => hz x (Or.inl hx)) (fun x hx => ho x (Or.inl hx)) i
    have h2 := ihr B (fun x hx => hz x (Or.inr hx)) (fun x hx => ho x (Or.inr hx)) i
    rw [ht] at h1; rw [hr] at h2
    simp only [uniquifyArgs, ht, hr, Args.freeIds, List.mem_append]
    grind

end

/-- for a definition: after `uniquify`, the free ids (relative to the new parameters) are old ids -/
theorem uniquifyDef_scoped (m0 : Nat) (d : Def) (n : Nat)
    (hz : ∀ b ∈ ctxIds d.ctx ++ d.body.binderIds, b = 0) (ho : ∀ i ∈ d.body.occIds, i ≤ m0) :
    ∀ i ∈ (uniquifyDef d n).1.body.freeIds (ctxIds (uniquifyDef d n).1.ctx), i ≤ m0 := by
  simp only [List.mem_append] at hz
  have h := uniquifyStmt_scoped m0
    (substIfAny (uniquifyCtx d.ctx n).varSubst (uniquifyCtx d.ctx n).covarSubst d.body)
    (uniquifyCtx d.ctx n).maxId (ctxIds (uniquifyCtx d.ctx n).ctx) (by
      rw [binderIds_substIfAny _ _ (uniquifyCtx_allVars d.ctx n).1 (uniquifyCtx_allVars d.ctx n).2]
      exact fun y hy => hz y (Or.inr hy)) (by
      intro j hj
      have := occIds_substIfAny _ _ d.body j hj
      have := (uniquifyCtx_range d.ctx n).1 j
      have := (uniquifyCtx_range d.ctx n).2 j
      have := ho j
      simp only [OccSub] at *
      grind)
  simpa only [uniquifyDef] using h

end Scc.Core
