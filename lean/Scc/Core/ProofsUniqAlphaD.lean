/-
  Scc.Core.ProofsUniqAlphaD — from typing to the hypotheses of the α-renaming lemma, and whole
  programs: for a well-typed program whose binders all carry id 0 and whose ids are `≤ maxId`,
  `uniquifyProg p` is definition-wise α-equivalent to `p` and all its ids are `≤` its counter
  (`uniquifyProg_alpha`), hence `FocusInput p (uniquifyProg p)`.
-/
import Scc.Core.ProofsUniqAlphaC
import Scc.Core.ProofsFocusSem
import Scc.Core.ProofsUniqueE

namespace Scc.Core

/-! ## typing gives chirality flags and chirality-consistent scoping -/

theorem ctxVars_append (a b : Ctx) : ctxVars (a ++ b) = ctxVars a ++ ctxVars b := by
  simp [ctxVars]

theorem lookupBinding_dbVar : ∀ (Γ : Ctx) (v : Ident) (b : Binding), lookupBinding Γ v = some b →
    (dbVar (ctxVars Γ) v).chiOK (Γ.map (·.chi)) b.chi
  | [], v, b, h => by simp [lookupBinding] at h
  | c :: r, v, b, h => by
    simp only [lookupBinding] at h
    simp only [ctxVars_cons, dbVar, List.map_cons]
    split at h
    · next hc =>
      cases h
      simp [hc, DVar.chiOK]
    · next hc =>
      simp only [hc, if_false]
      exact DVar.chiOK_shift1.mpr (lookupBinding_dbVar r v b h)

mutual
  theorem term_check_chi (P : Prog) : (t : Term) → ∀ (Γ : Ctx) (pc : PC) (ty : Ty),
      t.check P Γ pc ty = true → t.pcOk pc = true ∧ (dbT (ctxVars Γ) t).chiWS (Γ.map (·.chi))
    | .var pc' v ty', Γ, pc, ty, h => by
      simp only [Term.check, Bool.and_eq_true] at h
      refine ⟨rfl, ?_⟩
      simp only [dbT, DTerm.chiWS]
      cases hl : lookupBinding Γ v with
      | none => rw [hl] at h; simp at h
      | some b =>
        rw [hl] at h
        simp only [Bool.and_eq_true] at h
        have h1 := PC.beq_eq h.1.1
        have h2 := PC.beq_eq h.2.1
        rw [h1, ← h2]
        exact lookupBinding_dbVar Γ v b hl
    | .lit k, Γ, pc, ty, h => by
      simp only [Term.check, Bool.and_eq_true] at h
      exact ⟨by simp [Term.pcOk, h.1], by simp [dbT, DTerm.chiWS]⟩
    | .op a o b, Γ, pc, ty, h => by
      simp only [Term.check, Bool.and_eq_true] at h
      have ha := term_check_chi P a Γ .prd .i64 h.1.2
      have hb := term_check_chi P b Γ .prd .i64 h.2
      exact ⟨by simp [Term.pcOk, h.1.1.1, ha.1, hb.1], by simp [dbT, DTerm.chiWS, ha.2, hb.2]⟩
    | .mu pc' v ty' s, Γ, pc, ty, h => by
      simp only [Term.check, Bool.and_eq_true] at h
      have hs := stmt_check_chi P s (⟨v, pc.flip, ty⟩ :: Γ) h.2
      have hpc := PC.beq_eq h.1.1
      refine ⟨by simp [Term.pcOk, h.1.1, hs.1], ?_⟩
      simp only [dbT, DTerm.chiWS]
      rw [hpc]
      simpa [ctxVars_cons] using hs.2
    | .xtor pc' name as ty', Γ, pc, ty, h => by
      simp only [Term.check, Bool.and_eq_true] at h
      obtain ⟨h1, h2⟩ := h
      cases ty with
      | i64 => simp at h2
      | decl T =>
        simp only at h2
        split at h2
        · simp at h2
        · next d _ =>
          split at h2
          · simp at h2
          · next sig _ =>
            have ha := args_check_chi P as Γ sig.args h2
            exact ⟨by simp [Term.pcOk, h1.1, ha.1], by simpa [dbT, DTerm.chiWS] using ha.2⟩
    | .xcase pc' ty' cl, Γ, pc, ty, h => by
      simp only [Term.check, Bool.and_eq_true] at h
      obtain ⟨h1, h2⟩ := h
      cases ty with
      | i64 => simp at h2
      | decl T =>
        simp only at h2
        split at h2
        · simp at h2
        · next d _ =>
          simp only [Bool.and_eq_true] at h2
          have hc := clauses_check_chi P cl Γ d.xtors h2.1
          exact ⟨by simp [Term.pcOk, h1.1, hc.1], by simpa [dbT, DTerm.chiWS] using hc.2⟩
  theorem args_check_chi (P : Prog) : (as : Args) → ∀ (Γ : Ctx) (sig : Ctx),
      as.check P Γ sig = true → as.pcOk = true ∧ (dbA (ctxVars Γ) as).chiWS (Γ.map (·.chi))
    | .nil, Γ, sig, _ => by simp [Args.pcOk, dbA, DArgs.chiWS]
    | .cons pc t r, Γ, [], h => by simp [Args.check] at h
    | .cons pc t r, Γ, b :: bs, h => by
      simp only [Args.check, Bool.and_eq_true] at h
      have ht := term_check_chi P t Γ pc b.ty h.1.2
      have hr := args_check_chi P r Γ bs h.2
      exact ⟨by simp [Args.pcOk, ht.1, hr.1], by simp [dbA, DArgs.chiWS, ht.2, hr.2]⟩
  theorem clauses_check_chi (P : Prog) : (cl : Clauses) → ∀ (Γ : Ctx) (sigs : List XtorSig),
      cl.check P Γ sigs = true → cl.pcOk = true ∧ (dbC (ctxVars Γ) cl).chiWS (Γ.map (·.chi))
    | .nil, Γ, sigs, _ => by simp [Clauses.pcOk, dbC, DClauses.chiWS]
    | .cons x ctx b r, Γ, sigs, h => by
      simp only [Clauses.check, Bool.and_eq_true] at h
      have hb := stmt_check_chi P b (ctx ++ Γ) h.1.2
      have hr := clauses_check_chi P r Γ sigs h.2
      refine ⟨by simp [Clauses.pcOk, hb.1, hr.1], ?_⟩
      simp only [dbC, DClauses.chiWS, ctxSig_map_fst]
      refine ⟨?_, hr.2⟩
      simpa [ctxVars_append] using hb.2
  theorem stmt_check_chi (P : Prog) : (s : Stmt) → ∀ (Γ : Ctx),
      s.check P Γ = true → s.pcOk = true ∧ (dbS (ctxVars Γ) s).chiWS (Γ.map (·.chi))
    | .cut ty p c, Γ, h => by
      simp only [Stmt.check, Bool.and_eq_true] at h
      have hp := term_check_chi P p Γ .prd ty h.1
      have hc := term_check_chi P c Γ .cns ty h.2
      exact ⟨by simp [Stmt.pcOk, hp.1, hc.1], by simp [dbS, DStmt.chiWS, hp.2, hc.2]⟩
    | .ifc srt a b t e, Γ, h => by
      simp only [Stmt.check, Bool.and_eq_true] at h
      have ha := term_check_chi P a Γ .prd .i64 h.1.1.1
      have hb := term_check_chi P b Γ .prd .i64 h.1.1.2
      have ht := stmt_check_chi P t Γ h.1.2
      have he := stmt_check_chi P e Γ h.2
      exact ⟨by simp [Stmt.pcOk, ha.1, hb.1, ht.1, he.1],
        by simp [dbS, DStmt.chiWS, ha.2, hb.2, ht.2, he.2]⟩
    | .ifz srt a t e, Γ, h => by
      simp only [Stmt.check, Bool.and_eq_true] at h
      have ha := term_check_chi P a Γ .prd .i64 h.1.1
      have ht := stmt_check_chi P t Γ h.1.2
      have he := stmt_check_chi P e Γ h.2
      exact ⟨by simp [Stmt.pcOk, ha.1, ht.1, he.1], by simp [dbS, DStmt.chiWS, ha.2, ht.2, he.2]⟩
    | .print nl a n, Γ, h => by
      simp only [Stmt.check, Bool.and_eq_true] at h
      have ha := term_check_chi P a Γ .prd .i64 h.1
      have hn := stmt_check_chi P n Γ h.2
      exact ⟨by simp [Stmt.pcOk, ha.1, hn.1], by simp [dbS, DStmt.chiWS, ha.2, hn.2]⟩
    | .call f as ty, Γ, h => by
      simp only [Stmt.check] at h
      split at h
      · simp at h
      · next d _ =>
        have ha := args_check_chi P as Γ d.ctx h
        exact ⟨by simp [Stmt.pcOk, ha.1], by simpa [dbS, DStmt.chiWS] using ha.2⟩
    | .exit a ty, Γ, h => by
      simp only [Stmt.check] at h
      have ha := term_check_chi P a Γ .prd .i64 h
      exact ⟨by simp [Stmt.pcOk, ha.1], by simpa [dbS, DStmt.chiWS] using ha.2⟩
end

/-! ## identifiers are binders or occurrences -/

mutual
  theorem Term.idents_ids : (t : Term) → ∀ i ∈ t.idents, i.id ∈ t.binderIds ∨ i.id ∈ t.occIds
    | .var pc v ty => by simp [Term.idents, Term.occIds]
    | .lit k => by simp [Term.idents]
    | .op a o b => by
      intro i hi
      simp only [Term.idents, List.mem_append] at hi
      simp only [Term.binderIds, Term.occIds, List.mem_append]
      rcases hi with hi | hi
      · rcases Term.idents_ids a i hi with h | h <;> simp [h]
      · rcases Term.idents_ids b i hi with h | h <;> simp [h]
    | .mu pc v ty s => by
      intro i hi
      simp only [Term.idents, List.mem_cons] at hi
      simp only [Term.binderIds, Term.occIds, List.mem_cons]
      rcases hi with rfl | hi
      · simp
      · rcases Stmt.idents_ids s i hi with h | h <;> simp [h]
    | .xtor pc k as ty => by
      intro i hi
      simp only [Term.idents] at hi
      simp only [Term.binderIds, Term.occIds]
      exact Args.idents_ids as i hi
    | .xcase pc ty cl => by
      intro i hi
      simp only [Term.idents] at hi
      simp only [Term.binderIds, Term.occIds]
      exact Clauses.idents_ids cl i hi
  theorem Args.idents_ids : (as : Args) → ∀ i ∈ as.idents, i.id ∈ as.binderIds ∨ i.id ∈ as.occIds
    | .nil => by simp [Args.idents]
    | .cons pc t r => by
      intro i hi
      simp only [Args.idents, List.mem_append] at hi
      simp only [Args.binderIds, Args.occIds, List.mem_append]
      rcases hi with hi | hi
      · rcases Term.idents_ids t i hi with h | h <;> simp [h]
      · rcases Args.idents_ids r i hi with h | h <;> simp [h]
  theorem Clauses.idents_ids : (cl : Clauses) →
      ∀ i ∈ cl.idents, i.id ∈ cl.binderIds ∨ i.id ∈ cl.occIds
    | .nil => by simp [Clauses.idents]
    | .cons x ctx b r => by
      intro i hi
      simp only [Clauses.idents, List.mem_append] at hi
      simp only [Clauses.binderIds, Clauses.occIds, List.mem_append]
      rcases hi with (hi | hi) | hi
      · left; left; left
        simp only [ctxVars, List.mem_map] at hi
        obtain ⟨b', hb', rfl⟩ := hi
        simp only [ctxIds, List.mem_map]
        exact ⟨b', hb', rfl⟩
      · rcases Stmt.idents_ids b i hi with h | h <;> simp [h]
      · rcases Clauses.idents_ids r i hi with h | h <;> simp [h]
  theorem Stmt.idents_ids : (s : Stmt) → ∀ i ∈ s.idents, i.id ∈ s.binderIds ∨ i.id ∈ s.occIds
    | .cut ty p c => by
      intro i hi
      simp only [Stmt.idents, List.mem_append] at hi
      simp only [Stmt.binderIds, Stmt.occIds, List.mem_append]
      rcases hi with hi | hi
      · rcases Term.idents_ids p i hi with h | h <;> simp [h]
      · rcases Term.idents_ids c i hi with h | h <;> simp [h]
    | .ifc srt a b t e => by
      intro i hi
      simp only [Stmt.idents, List.mem_append] at hi
      simp only [Stmt.binderIds, Stmt.occIds, List.mem_append]
      rcases hi with ((hi | hi) | hi) | hi
      · rcases Term.idents_ids a i hi with h | h <;> simp [h]
      · rcases Term.idents_ids b i hi with h | h <;> simp [h]
      · rcases Stmt.idents_ids t i hi with h | h <;> simp [h]
      · rcases Stmt.idents_ids e i hi with h | h <;> simp [h]
    | .ifz srt a t e => by
      intro i hi
      simp only [Stmt.idents, List.mem_append] at hi
      simp only [Stmt.binderIds, Stmt.occIds, List.mem_append]
      rcases hi with (hi | hi) | hi
      · rcases Term.idents_ids a i hi with h | h <;> simp [h]
      · rcases Stmt.idents_ids t i hi with h | h <;> simp [h]
      · rcases Stmt.idents_ids e i hi with h | h <;> simp [h]
    | .print nl a n => by
      intro i hi
      simp only [Stmt.idents, List.mem_append] at hi
      simp only [Stmt.binderIds, Stmt.occIds, List.mem_append]
      rcases hi with hi | hi
      · rcases Term.idents_ids a i hi with h | h <;> simp [h]
      · rcases Stmt.idents_ids n i hi with h | h <;> simp [h]
    | .call f as ty => by
      intro i hi
      simp only [Stmt.idents] at hi
      simp only [Stmt.binderIds, Stmt.occIds]
      exact Args.idents_ids as i hi
    | .exit a ty => by
      intro i hi
      simp only [Stmt.idents] at hi
      simp only [Stmt.binderIds, Stmt.occIds]
      exact Term.idents_ids a i hi
end

/-! ## definitions and programs -/

/-- what `uniquify` needs of a definition -/
structure UniqInput (n : Nat) (d : Def) : Prop where
  ctxZero : ∀ b ∈ d.ctx, b.var.id = 0
  bindersZero : ∀ b ∈ d.body.binderIds, b = 0
  ids : IdsLe n d.body.idents
  chi : (dbS (ctxVars d.ctx) d.body).chiWS (d.ctx.map (·.chi))

theorem uniquifyDef_alpha (d : Def) (n : Nat) (h : UniqInput n d) :
    DefAlpha d (uniquifyDef d n).1 ∧ IdsLe (uniquifyDef d n).2 (uniquifyDef d n).1.body.idents ∧
      n ≤ (uniquifyDef d n).2 := by
  have hR := uniquifyCtx_ren d.ctx n h.ctxZero [] []
  have hok := uniquifyCtx_substOK d.ctx n h.ctxZero
  have hle := uniquifyCtx_le d.ctx n
  simp only [List.append_nil] at hR
  have hren := ren_stmt d.body hR hok.vp hok.vc hok.gp hok.gc h.ids h.chi
  have hsig := uniquifyCtx_sig d.ctx n
  have hU := uniquifyStmt_alpha
    (substStmt (uniquifyCtx d.ctx n).varSubst (uniquifyCtx d.ctx n).covarSubst d.body)
    (uniquifyCtx d.ctx n).maxId (ctxVars (uniquifyCtx d.ctx n).ctx) (d.ctx.map (·.chi))
    (by
      rw [binderIds_substStmt _ _ (uniquifyCtx_allVars d.ctx n).1 (uniquifyCtx_allVars d.ctx n).2]
      exact h.bindersZero)
    (idsLe_substStmt d.body hok.lp hok.lc (h.ids.mono hle))
    (by rw [← hren]; exact h.chi)
  obtain ⟨e, i, l⟩ := hU
  simp only [uniquifyDef, substIfAny_eq]
  refine ⟨⟨rfl, ?_, ?_⟩, i, by omega⟩
  · simp only
    rw [← ctxSig_map_fst, ← ctxSig_map_fst, hsig]
  · simp only
    rw [hren, e]

theorem uniquifyDefs_alpha : ∀ (ds : List Def) (n : Nat), (∀ d ∈ ds, UniqInput n d) →
    DefsAlpha ds (uniquifyDefs ds n).1 ∧
    (∀ d' ∈ (uniquifyDefs ds n).1, IdsLe (uniquifyDefs ds n).2 d'.body.idents) ∧
    n ≤ (uniquifyDefs ds n).2
  | [], n, _ => by simp [uniquifyDefs, DefsAlpha]
  | d :: r, n, h => by
    obtain ⟨h1, h2, h3⟩ := uniquifyDef_alpha d n (h d (by simp))
    obtain ⟨r1, r2, r3⟩ := uniquifyDefs_alpha r (uniquifyDef d n).2 (fun d' hd' =>
      let hh := h d' (by simp [hd'])
      ⟨hh.ctxZero, hh.bindersZero, hh.ids.mono h3, hh.chi⟩)
    simp only [uniquifyDefs, DefsAlpha]
    refine ⟨⟨h1, r1⟩, ?_, by omega⟩
    intro d' hd'
    rcases List.mem_cons.mp hd' with rfl | hd'
    · exact h2.mono r3
    · exact r2 d' hd'

/-- **`uniquify` is an α-renaming** (definition-wise equal nameless forms), and all identifiers of
    the result are `≤` its counter -/
theorem uniquifyProg_alpha (p : Prog) (h : ∀ d ∈ p.defs, UniqInput p.maxId d) :
    DefsAlpha p.defs (uniquifyProg p).defs ∧
    (∀ d' ∈ (uniquifyProg p).defs, IdsLe (uniquifyProg p).maxId d'.body.idents) := by
  obtain ⟨h1, h2, _⟩ := uniquifyDefs_alpha p.defs p.maxId h
  exact ⟨h1, h2⟩

theorem freshL_of_idsLe {n : Nat} {l : List Ident} (h : IdsLe n l) : FreshL n l :=
  fun i hi hg => by have := h i hi; have := hg.2; omega

open FocusSim in
theorem uniquify_focusInput (p : Prog) (h : ∀ d ∈ p.defs, UniqInput p.maxId d)
    (hok : ∀ d ∈ p.defs, OKS 0 d.body) : FocusInput p (uniquifyProg p) := by
  obtain ⟨h1, h2⟩ := uniquifyProg_alpha p h
  exact ⟨rfl, h1, hok, fun d hd => freshL_of_idsLe (h2 d hd)⟩

/-- `UniqInput` from typing, binders with id 0 and old occurrences -/
theorem uniqInput_of_typed (p : Prog) (ht : p.wellTyped = true) (hz : p.BindersZero)
    (ho : p.OccsOld) : ∀ d ∈ p.defs, UniqInput p.maxId d := by
  intro d hd
  simp only [Prog.wellTyped, List.all_eq_true] at ht
  have hz' := hz d hd
  simp only [Def.ids, List.mem_append] at hz'
  refine ⟨?_, fun b hb => hz' b (Or.inr hb), ?_, (stmt_check_chi p d.body d.ctx (ht d hd)).2⟩
  · intro b hb
    exact hz' b.var.id (Or.inl (by simp only [ctxIds, List.mem_map]; exact ⟨b, hb, rfl⟩))
  · intro i hi
    rcases Stmt.idents_ids d.body i hi with h | h
    · rw [hz' i.id (Or.inr h)]; exact Nat.zero_le _
    · exact ho d hd i.id h

end Scc.Core
