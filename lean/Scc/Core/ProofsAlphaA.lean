/-
  Scc.Core.ProofsAlphaA — α-equivalence of (unfocused) Core as EQUALITY OF NAMELESS IMAGES.
  `dbS sc s` replaces every variable occurrence of `s` by its position in the scope `sc` (a list of
  identifiers, innermost first, first match wins — exactly the lookup order of the machine's
  environments) or keeps the name if it is not in scope; binder names are dropped.  Two statements
  in two scopes are α-equivalent iff their images are equal, so symmetry/transitivity are free.
  Proved here: the weakening law (`dbS_insert`: inserting names that do not occur shifts indices) and
  inversion lemmas.  (Proof file: nothing here is executable model code.)
-/
import Scc.Core.Sem
import Scc.Core.ProofsEmbed

namespace Scc.Core

/-! ## nameless syntax -/

inductive DVar where
  | bound (i : Nat)
  | free (x : Ident)
  deriving DecidableEq

mutual
  inductive DTerm where
    | var (pc : PC) (v : DVar)
    | lit (n : Int)
    | op (a : DTerm) (o : BinOp) (b : DTerm)
    | mu (pc : PC) (ty : Ty) (s : DStmt)
    | xtor (pc : PC) (name : Ident) (args : DArgs) (ty : Ty)
    | xcase (pc : PC) (ty : Ty) (cl : DClauses)
  inductive DArgs where
    | nil
    | cons (pc : PC) (t : DTerm) (rest : DArgs)
  inductive DClauses where
    | nil
    | cons (xtor : Ident) (sig : List (PC × Ty)) (body : DStmt) (rest : DClauses)
  inductive DStmt where
    | cut (ty : Ty) (p : DTerm) (c : DTerm)
    | ifc (sort : IfSort) (a : DTerm) (b : DTerm) (t : DStmt) (e : DStmt)
    | ifz (sort : IfSort) (a : DTerm) (t : DStmt) (e : DStmt)
    | print (nl : Bool) (a : DTerm) (n : DStmt)
    | call (f : Ident) (args : DArgs) (ty : Ty)
    | exit (a : DTerm) (ty : Ty)
end

/-- shift the indices `≥ c` by `j` -/
def DVar.shift (c j : Nat) : DVar → DVar
  | .bound i => if i < c then .bound i else .bound (i + j)
  | .free x => .free x

mutual
  def DTerm.shift (c j : Nat) : DTerm → DTerm
    | .var pc v => .var pc (v.shift c j)
    | .lit n => .lit n
    | .op a o b => .op (a.shift c j) o (b.shift c j)
    | .mu pc ty s => .mu pc ty (s.shift (c + 1) j)
    | .xtor pc k as ty => .xtor pc k (as.shift c j) ty
    | .xcase pc ty cl => .xcase pc ty (cl.shift c j)
  def DArgs.shift (c j : Nat) : DArgs → DArgs
    | .nil => .nil
    | .cons pc t r => .cons pc (t.shift c j) (r.shift c j)
  def DClauses.shift (c j : Nat) : DClauses → DClauses
    | .nil => .nil
    | .cons x sig b r => .cons x sig (b.shift (c + sig.length) j) (r.shift c j)
  def DStmt.shift (c j : Nat) : DStmt → DStmt
    | .cut ty p q => .cut ty (p.shift c j) (q.shift c j)
    | .ifc s a b t e => .ifc s (a.shift c j) (b.shift c j) (t.shift c j) (e.shift c j)
    | .ifz s a t e => .ifz s (a.shift c j) (t.shift c j) (e.shift c j)
    | .print nl a n => .print nl (a.shift c j) (n.shift c j)
    | .call f as ty => .call f (as.shift c j) ty
    | .exit a ty => .exit (a.shift c j) ty
end

/-! ## the nameless image -/

/-- position of `x` in the scope (first match, like `Env.lookup`) -/
def dbVar : List Ident → Ident → DVar
  | [], x => .free x
  | y :: r, x => if y = x then .bound 0 else (dbVar r x).shift 0 1

def ctxVars (c : Ctx) : List Ident := c.map (·.var)

def ctxSig (c : Ctx) : List (PC × Ty) := c.map fun b => (b.chi, b.ty)

mutual
  def dbT (sc : List Ident) : Term → DTerm
    | .var pc v _ => .var pc (dbVar sc v)
    | .lit n => .lit n
    | .op a o b => .op (dbT sc a) o (dbT sc b)
    | .mu pc v ty s => .mu pc ty (dbS (v :: sc) s)
    | .xtor pc k as ty => .xtor pc k (dbA sc as) ty
    | .xcase pc ty cl => .xcase pc ty (dbC sc cl)
  def dbA (sc : List Ident) : Args → DArgs
    | .nil => .nil
    | .cons pc t r => .cons pc (dbT sc t) (dbA sc r)
  def dbC (sc : List Ident) : Clauses → DClauses
    | .nil => .nil
    | .cons x ctx b r => .cons x (ctxSig ctx) (dbS (ctxVars ctx ++ sc) b) (dbC sc r)
  def dbS (sc : List Ident) : Stmt → DStmt
    | .cut ty p c => .cut ty (dbT sc p) (dbT sc c)
    | .ifc s a b t e => .ifc s (dbT sc a) (dbT sc b) (dbS sc t) (dbS sc e)
    | .ifz s a t e => .ifz s (dbT sc a) (dbS sc t) (dbS sc e)
    | .print nl a n => .print nl (dbT sc a) (dbS sc n)
    | .call f as ty => .call f (dbA sc as) ty
    | .exit a ty => .exit (dbT sc a) ty
end

/-! ## all identifiers (binders and occurrences) -/

mutual
  def Term.idents : Term → List Ident
    | .var _ v _ => [v]
    | .lit _ => []
    | .op a _ b => a.idents ++ b.idents
    | .mu _ v _ s => v :: s.idents
    | .xtor _ _ as _ => as.idents
    | .xcase _ _ cl => cl.idents
  def Args.idents : Args → List Ident
    | .nil => []
    | .cons _ t r => t.idents ++ r.idents
  def Clauses.idents : Clauses → List Ident
    | .nil => []
    | .cons _ ctx b r => ctxVars ctx ++ b.idents ++ r.idents
  def Stmt.idents : Stmt → List Ident
    | .cut _ p c => p.idents ++ c.idents
    | .ifc _ a b t e => a.idents ++ b.idents ++ t.idents ++ e.idents
    | .ifz _ a t e => a.idents ++ t.idents ++ e.idents
    | .print _ a n => a.idents ++ n.idents
    | .call _ as _ => as.idents
    | .exit a _ => a.idents
end

/-! ## shifting variables -/

theorem DVar.shift_shift_zero (v : DVar) (j : Nat) :
    (v.shift 0 j).shift 0 1 = v.shift 0 (j + 1) := by
  cases v <;> simp [DVar.shift]; omega

theorem DVar.shift_comm (v : DVar) (c j : Nat) :
    (v.shift c j).shift 0 1 = (v.shift 0 1).shift (c + 1) j := by
  cases v with
  | free x => simp [DVar.shift]
  | bound i =>
    simp only [DVar.shift, Nat.not_lt_zero, if_false]
    by_cases h : i < c
    · simp [h]
    · simp [h]; omega

theorem DVar.shift_zero (v : DVar) (c : Nat) : v.shift c 0 = v := by
  cases v <;> simp [DVar.shift]

theorem dbVar_append_not_mem (ext sc : List Ident) (x : Ident) (h : x ∉ ext) :
    dbVar (ext ++ sc) x = (dbVar sc x).shift 0 ext.length := by
  induction ext with
  | nil => simp [DVar.shift_zero]
  | cons y r ih =>
    simp only [List.mem_cons, not_or] at h
    have hy : ¬ y = x := fun e => h.1 e.symm
    simp only [List.cons_append, dbVar, hy, if_false, ih h.2, List.length_cons,
      DVar.shift_shift_zero]

theorem dbVar_insert (pre ext sc : List Ident) (x : Ident) (h : x ∉ ext) :
    dbVar (pre ++ ext ++ sc) x = (dbVar (pre ++ sc) x).shift pre.length ext.length := by
  induction pre with
  | nil => simpa using dbVar_append_not_mem ext sc x h
  | cons y r ih =>
    simp only [List.cons_append, dbVar, List.length_cons]
    split
    · simp [DVar.shift]
    · rw [ih, DVar.shift_comm]

mutual
  theorem dbT_insert (ext : List Ident) : (u : Term) → ∀ pre sc, (∀ y ∈ ext, y ∉ u.idents) →
      dbT (pre ++ ext ++ sc) u = (dbT (pre ++ sc) u).shift pre.length ext.length
    | .var pc v ty, pre, sc, h => by
      simp only [dbT, DTerm.shift]
      rw [dbVar_insert]
      intro hv; exact h v hv (by simp [Term.idents])
    | .lit n, _, _, _ => by simp [dbT, DTerm.shift]
    | .op a o b, pre, sc, h => by
      simp only [Term.idents, List.mem_append, not_or] at h
      simp only [dbT, DTerm.shift]
      rw [dbT_insert ext a pre sc (fun y hy => (h y hy).1),
        dbT_insert ext b pre sc (fun y hy => (h y hy).2)]
    | .mu pc v ty s, pre, sc, h => by
      simp only [Term.idents, List.mem_cons, not_or] at h
      simp only [dbT, DTerm.shift]
      have := dbS_insert ext s (v :: pre) sc (fun y hy => (h y hy).2)
      simp only [List.cons_append, List.length_cons] at this
      rw [this]
    | .xtor pc k as ty, pre, sc, h => by
      simp only [Term.idents] at h
      simp only [dbT, DTerm.shift]
      rw [dbA_insert ext as pre sc h]
    | .xcase pc ty cl, pre, sc, h => by
      simp only [Term.idents] at h
      simp only [dbT, DTerm.shift]
      rw [dbC_insert ext cl pre sc h]
  theorem dbA_insert (ext : List Ident) : (u : Args) → ∀ pre sc, (∀ y ∈ ext, y ∉ u.idents) →
      dbA (pre ++ ext ++ sc) u = (dbA (pre ++ sc) u).shift pre.length ext.length
    | .nil, _, _, _ => by simp [dbA, DArgs.shift]
    | .cons pc t r, pre, sc, h => by
      simp only [Args.idents, List.mem_append, not_or] at h
      simp only [dbA, DArgs.shift]
      rw [dbT_insert ext t pre sc (fun y hy => (h y hy).1),
        dbA_insert ext r pre sc (fun y hy => (h y hy).2)]
  theorem dbC_insert (ext : List Ident) : (u : Clauses) → ∀ pre sc, (∀ y ∈ ext, y ∉ u.idents) →
      dbC (pre ++ ext ++ sc) u = (dbC (pre ++ sc) u).shift pre.length ext.length
    | .nil, _, _, _ => by simp [dbC, DClauses.shift]
    | .cons x ctx b r, pre, sc, h => by
      simp only [Clauses.idents, List.mem_append, not_or] at h
      simp only [dbC, DClauses.shift]
      have := dbS_insert ext b (ctxVars ctx ++ pre) sc (fun y hy => (h y hy).1.2)
      simp only [List.append_assoc, List.length_append] at this
      rw [dbC_insert ext r pre sc (fun y hy => (h y hy).2)]
      simp only [List.append_assoc]
      rw [this]
      simp [ctxSig, ctxVars, Nat.add_comm]
  theorem dbS_insert (ext : List Ident) : (u : Stmt) → ∀ pre sc, (∀ y ∈ ext, y ∉ u.idents) →
      dbS (pre ++ ext ++ sc) u = (dbS (pre ++ sc) u).shift pre.length ext.length
    | .cut ty p c, pre, sc, h => by
      simp only [Stmt.idents, List.mem_append, not_or] at h
      simp only [dbS, DStmt.shift]
      rw [dbT_insert ext p pre sc (fun y hy => (h y hy).1),
        dbT_insert ext c pre sc (fun y hy => (h y hy).2)]
    | .ifc srt a b t e, pre, sc, h => by
      simp only [Stmt.idents, List.mem_append, not_or] at h
      simp only [dbS, DStmt.shift]
      rw [dbT_insert ext a pre sc (fun y hy => (h y hy).1.1.1),
        dbT_insert ext b pre sc (fun y hy => (h y hy).1.1.2),
        dbS_insert ext t pre sc (fun y hy => (h y hy).1.2),
        dbS_insert ext e pre sc (fun y hy => (h y hy).2)]
    | .ifz srt a t e, pre, sc, h => by
      simp only [Stmt.idents, List.mem_append, not_or] at h
      simp only [dbS, DStmt.shift]
      rw [dbT_insert ext a pre sc (fun y hy => (h y hy).1.1),
        dbS_insert ext t pre sc (fun y hy => (h y hy).1.2),
        dbS_insert ext e pre sc (fun y hy => (h y hy).2)]
    | .print nl a n, pre, sc, h => by
      simp only [Stmt.idents, List.mem_append, not_or] at h
      simp only [dbS, DStmt.shift]
      rw [dbT_insert ext a pre sc (fun y hy => (h y hy).1),
        dbS_insert ext n pre sc (fun y hy => (h y hy).2)]
    | .call f as ty, pre, sc, h => by
      simp only [Stmt.idents] at h
      simp only [dbS, DStmt.shift]
      rw [dbA_insert ext as pre sc h]
    | .exit a ty, pre, sc, h => by
      simp only [Stmt.idents] at h
      simp only [dbS, DStmt.shift]
      rw [dbT_insert ext a pre sc h]
end

/-! ### weakening of α-equivalences (two-sided corollaries) -/

theorem dbVar_weaken {sc sc' ext ext' : List Ident} {x x' : Ident} (hl : ext.length = ext'.length)
    (hx : x ∉ ext) (hx' : x' ∉ ext') (h : dbVar sc x = dbVar sc' x') :
    dbVar (ext ++ sc) x = dbVar (ext' ++ sc') x' := by
  rw [dbVar_append_not_mem _ _ _ hx, dbVar_append_not_mem _ _ _ hx', h, hl]

theorem dbT_weaken {sc sc' ext ext' : List Ident} {u u' : Term} (hl : ext.length = ext'.length)
    (hx : ∀ y ∈ ext, y ∉ u.idents) (hx' : ∀ y ∈ ext', y ∉ u'.idents) (h : dbT sc u = dbT sc' u') :
    dbT (ext ++ sc) u = dbT (ext' ++ sc') u' := by
  have h1 := dbT_insert ext u [] sc hx
  have h2 := dbT_insert ext' u' [] sc' hx'
  simp only [List.nil_append, List.length_nil] at h1 h2
  rw [h1, h2, h, hl]

theorem dbA_weaken {sc sc' ext ext' : List Ident} {u u' : Args} (hl : ext.length = ext'.length)
    (hx : ∀ y ∈ ext, y ∉ u.idents) (hx' : ∀ y ∈ ext', y ∉ u'.idents) (h : dbA sc u = dbA sc' u') :
    dbA (ext ++ sc) u = dbA (ext' ++ sc') u' := by
  have h1 := dbA_insert ext u [] sc hx
  have h2 := dbA_insert ext' u' [] sc' hx'
  simp only [List.nil_append, List.length_nil] at h1 h2
  rw [h1, h2, h, hl]

theorem dbC_weaken {sc sc' ext ext' : List Ident} {u u' : Clauses} (hl : ext.length = ext'.length)
    (hx : ∀ y ∈ ext, y ∉ u.idents) (hx' : ∀ y ∈ ext', y ∉ u'.idents) (h : dbC sc u = dbC sc' u') :
    dbC (ext ++ sc) u = dbC (ext' ++ sc') u' := by
  have h1 := dbC_insert ext u [] sc hx
  have h2 := dbC_insert ext' u' [] sc' hx'
  simp only [List.nil_append, List.length_nil] at h1 h2
  rw [h1, h2, h, hl]

theorem dbS_weaken {sc sc' ext ext' : List Ident} {u u' : Stmt} (hl : ext.length = ext'.length)
    (hx : ∀ y ∈ ext, y ∉ u.idents) (hx' : ∀ y ∈ ext', y ∉ u'.idents) (h : dbS sc u = dbS sc' u') :
    dbS (ext ++ sc) u = dbS (ext' ++ sc') u' := by
  have h1 := dbS_insert ext u [] sc hx
  have h2 := dbS_insert ext' u' [] sc' hx'
  simp only [List.nil_append, List.length_nil] at h1 h2
  rw [h1, h2, h, hl]

/-! ## inversion: the image determines the shape -/

theorem dbT_eq_var {sc : List Ident} {t : Term} {pc : PC} {d : DVar} (h : dbT sc t = .var pc d) :
    ∃ v ty, t = .var pc v ty ∧ dbVar sc v = d := by
  cases t <;> simp [dbT] at h
  exact ⟨_, _, by rw [h.1], h.2⟩

theorem dbT_eq_lit {sc : List Ident} {t : Term} {n : Int} (h : dbT sc t = .lit n) : t = .lit n := by
  cases t <;> simp [dbT] at h
  rw [h]

theorem dbT_eq_op {sc : List Ident} {t : Term} {a b : DTerm} {o : BinOp} (h : dbT sc t = .op a o b) :
    ∃ a' b', t = .op a' o b' ∧ dbT sc a' = a ∧ dbT sc b' = b := by
  cases t <;> simp [dbT] at h
  exact ⟨_, _, by rw [h.2.1], h.1, h.2.2⟩

theorem dbT_eq_mu {sc : List Ident} {t : Term} {pc : PC} {ty : Ty} {d : DStmt}
    (h : dbT sc t = .mu pc ty d) : ∃ v s, t = .mu pc v ty s ∧ dbS (v :: sc) s = d := by
  cases t <;> simp [dbT] at h
  exact ⟨_, _, by rw [h.1, h.2.1], h.2.2⟩

theorem dbT_eq_xtor {sc : List Ident} {t : Term} {pc : PC} {k : Ident} {ty : Ty} {d : DArgs}
    (h : dbT sc t = .xtor pc k d ty) : ∃ as, t = .xtor pc k as ty ∧ dbA sc as = d := by
  cases t <;> simp [dbT] at h
  exact ⟨_, by rw [h.1, h.2.1, h.2.2.2], h.2.2.1⟩

theorem dbT_eq_xcase {sc : List Ident} {t : Term} {pc : PC} {ty : Ty} {d : DClauses}
    (h : dbT sc t = .xcase pc ty d) : ∃ cl, t = .xcase pc ty cl ∧ dbC sc cl = d := by
  cases t <;> simp [dbT] at h
  exact ⟨_, by rw [h.1, h.2.1], h.2.2⟩

theorem dbA_eq_nil {sc : List Ident} {as : Args} (h : dbA sc as = .nil) : as = .nil := by
  cases as <;> simp [dbA] at h
  rfl

theorem dbA_eq_cons {sc : List Ident} {as : Args} {pc : PC} {d : DTerm} {r : DArgs}
    (h : dbA sc as = .cons pc d r) : ∃ t r', as = .cons pc t r' ∧ dbT sc t = d ∧ dbA sc r' = r := by
  cases as <;> simp [dbA] at h
  exact ⟨_, _, by rw [h.1], h.2.1, h.2.2⟩

theorem dbC_eq_nil {sc : List Ident} {cl : Clauses} (h : dbC sc cl = .nil) : cl = .nil := by
  cases cl <;> simp [dbC] at h
  rfl

theorem dbC_eq_cons {sc : List Ident} {cl : Clauses} {x : Ident} {sig : List (PC × Ty)}
    {d : DStmt} {r : DClauses} (h : dbC sc cl = .cons x sig d r) :
    ∃ ctx b r', cl = .cons x ctx b r' ∧ ctxSig ctx = sig ∧ dbS (ctxVars ctx ++ sc) b = d ∧
      dbC sc r' = r := by
  cases cl <;> simp [dbC] at h
  exact ⟨_, _, _, by rw [h.1], h.2.1, h.2.2.1, h.2.2.2⟩

theorem dbS_eq_cut {sc : List Ident} {s : Stmt} {ty : Ty} {p c : DTerm} (h : dbS sc s = .cut ty p c) :
    ∃ p' c', s = .cut ty p' c' ∧ dbT sc p' = p ∧ dbT sc c' = c := by
  cases s <;> simp [dbS] at h
  exact ⟨_, _, by rw [h.1], h.2.1, h.2.2⟩

theorem dbS_eq_ifc {sc : List Ident} {s : Stmt} {srt : IfSort} {a b : DTerm} {t e : DStmt}
    (h : dbS sc s = .ifc srt a b t e) :
    ∃ a' b' t' e', s = .ifc srt a' b' t' e' ∧ dbT sc a' = a ∧ dbT sc b' = b ∧ dbS sc t' = t ∧
      dbS sc e' = e := by
  cases s <;> simp [dbS] at h
  exact ⟨_, _, _, _, by rw [h.1], h.2.1, h.2.2.1, h.2.2.2.1, h.2.2.2.2⟩

theorem dbS_eq_ifz {sc : List Ident} {s : Stmt} {srt : IfSort} {a : DTerm} {t e : DStmt}
    (h : dbS sc s = .ifz srt a t e) :
    ∃ a' t' e', s = .ifz srt a' t' e' ∧ dbT sc a' = a ∧ dbS sc t' = t ∧ dbS sc e' = e := by
  cases s <;> simp [dbS] at h
  exact ⟨_, _, _, by rw [h.1], h.2.1, h.2.2.1, h.2.2.2⟩

theorem dbS_eq_print {sc : List Ident} {s : Stmt} {nl : Bool} {a : DTerm} {n : DStmt}
    (h : dbS sc s = .print nl a n) :
    ∃ a' n', s = .print nl a' n' ∧ dbT sc a' = a ∧ dbS sc n' = n := by
  cases s <;> simp [dbS] at h
  exact ⟨_, _, by rw [h.1], h.2.1, h.2.2⟩

theorem dbS_eq_call {sc : List Ident} {s : Stmt} {f : Ident} {as : DArgs} {ty : Ty}
    (h : dbS sc s = .call f as ty) : ∃ as', s = .call f as' ty ∧ dbA sc as' = as := by
  cases s <;> simp [dbS] at h
  exact ⟨_, by rw [h.1, h.2.2], h.2.1⟩

theorem dbS_eq_exit {sc : List Ident} {s : Stmt} {a : DTerm} {ty : Ty}
    (h : dbS sc s = .exit a ty) : ∃ a', s = .exit a' ty ∧ dbT sc a' = a := by
  cases s <;> simp [dbS] at h
  exact ⟨_, by rw [h.2], h.1⟩

theorem ctxSig_length {c c' : Ctx} (h : ctxSig c = ctxSig c') : c.length = c'.length := by
  have := congrArg List.length h
  simpa [ctxSig] using this

theorem ctxVars_length (c : Ctx) : (ctxVars c).length = c.length := by simp [ctxVars]

end Scc.Core
