/-
  Scc.Core.TypedFocusProg — proof file: **uniquify + focus preserve typing** (the link `C12_link_focus`).
  For a Core program `q` that is well-typed (`Prog.wellTyped`), whose binders all carry id 0 and whose
  occurrence ids are `≤ maxId` (C03's `Input`), in which no name is both a data and a codata type
  (`typesDisjoint`) and which satisfies the decidable side condition `Prog.strictOk`
  (Scc/Core/TypedStrict.lean: clauses in declaration order, cut / μ types declared, no type `_Cont`,
  xtor names of a declaration distinct):
      `wtFsScopedCheck (focusProg q) = true`            (`focusProg_wtFsScoped`)
  in particular `wtFsCheck (focusProg q) = true` (`focusProg_wtFs`, the hypothesis of `C04_no_panic`).
  Pieces: Scc/Core/TypedUniquify.lean (uniquify preserves `wellTyped` and `strictOk`),
  Scc/Core/TypedFocusWt.lean (`focusStmt_wt`: shape typing), Scc/Core/TypedFocusSc.lean
  (`focusStmt_sc`: scoping), and the facts of C03 about the uniquified program (`uniquifyDefs_within`:
  parameters and binders pairwise distinct, `uniquifyProg_alpha`: all identifiers `≤` the counter).

  At the end: the four conjuncts of `strictOk` are NECESSARY (model-level counterexamples; none of
  them is producible by the pipeline: the front end orders clauses, rejects duplicate constructor
  names, knows no type `_Cont`, and annotates declared types only), and a non-trivial program
  satisfying all hypotheses.
-/
import Scc.Core.TypedUniquify
import Scc.Core.TypedFocusWt
import Scc.Core.TypedFocusSc
import Scc.Core.ProofsUniqueC
import Scc.Core.ProofsAlphaB

namespace Scc.Core

open Scc.Core2AxCut (wtStmt scStmt wtFsCheck wtFsScopedCheck noContName progTEnv)

/-! ## `focusOnly`: definitions keep their names and parameters -/

theorem focusDefs_sigs : ∀ (ds : List Def) (n : Nat),
    (focusDefs ds n).1.map (fun d => (d.name, d.ctx)) = ds.map (fun d => (d.name, d.ctx))
  | [], n => by simp [focusDefs]
  | d :: r, n => by simp [focusDefs, focusDef, focusDefs_sigs r]

theorem progTEnv_focusOnly (P : Prog) : progTEnv (focusOnly P) = coreTEnv P := by
  simp only [progTEnv, focusOnly, coreTEnv, focusDefs_sigs]

theorem noContName_focusOnly (P : Prog) (hs : P.strictOk = true) :
    noContName (focusOnly P) = true := by
  simp only [Prog.strictOk, Bool.and_eq_true] at hs
  simp only [noContName, focusOnly, Bool.and_eq_true]
  exact ⟨hs.1.1.1.1, hs.1.1.1.2⟩

/-! ## shape typing of the focused program -/

theorem focusDefs_wt {P : Prog} (hd : Scc.Pipeline.typesDisjoint P = true)
    (hxd : ∀ d ∈ P.dataTypes, d.xtorsDistinct = true)
    (hxc : ∀ d ∈ P.codataTypes, d.xtorsDistinct = true) : ∀ (ds : List Def) (n : Nat),
    (∀ d ∈ ds, d.body.check P d.ctx = true ∧ d.body.strict P = true) →
    ∀ d' ∈ (focusDefs ds n).1, wtStmt (coreTEnv P) d'.body = true
  | [], n, _ => by simp [focusDefs]
  | d :: r, n, h => by
    intro d' hd'
    simp only [focusDefs, List.mem_cons] at hd'
    rcases hd' with rfl | hd'
    · simp only [focusDef]
      exact focusStmt_wt hd hxd hxc d.body n d.ctx (h d (by simp)).1 (h d (by simp)).2
    · exact focusDefs_wt hd hxd hxc r _ (fun d0 hd0 => h d0 (by simp [hd0])) d' hd'

/-- static focusing of a well-typed, strict program (any ids) gives a shape-typed program -/
theorem focusOnly_wtFs (P : Prog) (ht : P.wellTyped = true)
    (hd : Scc.Pipeline.typesDisjoint P = true) (hs : P.strictOk = true) :
    wtFsCheck (focusOnly P) = true := by
  have hs' := hs
  simp only [Prog.strictOk, Bool.and_eq_true, List.all_eq_true] at hs'
  simp only [Prog.wellTyped, List.all_eq_true] at ht
  simp only [wtFsCheck, Bool.and_eq_true, List.all_eq_true, progTEnv_focusOnly]
  refine ⟨noContName_focusOnly P hs, ?_⟩
  intro d' hd'
  exact focusDefs_wt hd hs'.1.1.2 hs'.1.2 P.defs P.maxId
    (fun d hdm => ⟨ht d hdm, hs'.2 d hdm⟩) d' (by simpa only [focusOnly] using hd')

theorem typesDisjoint_uniquify (q : Prog) :
    Scc.Pipeline.typesDisjoint (uniquifyProg q) = Scc.Pipeline.typesDisjoint q := rfl

/-- **uniquify + focus give a shape-typed program** (hypothesis of `C04_no_panic`) -/
theorem focusProg_wtFs (q : Prog) (ht : q.wellTyped = true) (hz : q.BindersZero) (ho : q.OccsOld)
    (hd : Scc.Pipeline.typesDisjoint q = true) (hs : q.strictOk = true) :
    wtFsCheck (focusProg q) = true :=
  focusOnly_wtFs (uniquifyProg q) (uniquifyProg_wellTyped q ht hz ho)
    (by rw [typesDisjoint_uniquify]; exact hd) (uniquifyProg_strictOk q ht hz ho hs)

/-! ## scoping of the focused program -/

theorem focusDefs_sc (P : Prog) : ∀ (ds : List Def) (n : Nat),
    (∀ d ∈ ds, d.body.check P d.ctx = true ∧ Good n d.ctx d.body.binderIds d.body.idents) →
    ∀ d' ∈ (focusDefs ds n).1, scStmt d'.ctx d'.body = true
  | [], n, _ => by simp [focusDefs]
  | d :: r, n, h => by
    intro d' hd'
    simp only [focusDefs, List.mem_cons] at hd'
    rcases hd' with rfl | hd'
    · simp only [focusDef]
      exact focusStmt_sc P d.body n d.ctx (h d (by simp)).1 (h d (by simp)).2
    · refine focusDefs_sc P r _ (fun d0 hd0 => ?_) d' hd'
      have hh := h d0 (by simp [hd0])
      refine ⟨hh.1, hh.2.sub ?_ (List.Sublist.refl _) (fun _ hi => hi)⟩
      simp only [focusDef]
      exact focusStmt_le d.body n

/-- static focusing of a well-typed program whose parameters and binders are pairwise distinct
    (per definition) and whose identifiers are all `≤ maxId` gives a well-scoped program -/
theorem focusOnly_sc (P : Prog) (ht : P.wellTyped = true)
    (hg : ∀ d ∈ P.defs, Good P.maxId d.ctx d.body.binderIds d.body.idents) :
    (focusOnly P).defs.all (fun d => scStmt d.ctx d.body) = true := by
  simp only [Prog.wellTyped, List.all_eq_true] at ht
  simp only [List.all_eq_true]
  intro d' hd'
  exact focusDefs_sc P P.defs P.maxId (fun d hdm => ⟨ht d hdm, hg d hdm⟩) d'
    (by simpa only [focusOnly] using hd')

/-- the uniquified program: parameters and binders of a definition pairwise distinct, all
    identifiers `≤` the counter (facts of C03) -/
theorem uniquifyProg_good (q : Prog) (ht : q.wellTyped = true) (hz : q.BindersZero)
    (ho : q.OccsOld) :
    ∀ d ∈ (uniquifyProg q).defs,
      Good (uniquifyProg q).maxId d.ctx d.body.binderIds d.body.idents := by
  intro d hd
  have hw := (uniquifyDefs_within q.defs q.maxId hz).2 d (by simpa only [uniquifyProg] using hd)
  have hi := (uniquifyProg_alpha q (uniqInput_of_typed q ht hz ho)).2 d hd
  unfold Within Def.ids at hw
  exact ⟨hw.1, fun i hi' => (hw.2 i hi').2, hi⟩

/-- **uniquify + focus preserve typing**: the focused program passes the scoped shape typing
    (`C12_link_focus` for every C03 input with disjoint type names satisfying `strictOk`) -/
theorem focusProg_wtFsScoped (q : Prog) (ht : q.wellTyped = true) (hz : q.BindersZero)
    (ho : q.OccsOld) (hd : Scc.Pipeline.typesDisjoint q = true) (hs : q.strictOk = true) :
    wtFsScopedCheck (focusProg q) = true := by
  simp only [wtFsScopedCheck, Bool.and_eq_true]
  exact ⟨focusProg_wtFs q ht hz ho hd hs,
    focusOnly_sc (uniquifyProg q) (uniquifyProg_wellTyped q ht hz ho) (uniquifyProg_good q ht hz ho)⟩

/-! ## the four conjuncts of `strictOk` are necessary; non-vacuity

Model-level counterexamples: each program below satisfies every hypothesis of `focusProg_wtFsScoped`
except ONE conjunct of `strictOk`, and its focused form fails `wtFsScopedCheck` (even `wtFsCheck`).
None of them is producible by the pipeline (fun2core emits clauses in declaration order, the checker
rejects duplicate constructor names, `_Cont` is not a Fun identifier, only declared types occur). -/

namespace TypedEx

def T : Ident := ⟨"T", 0⟩
def U : Ident := ⟨"U", 0⟩
def mainI : Ident := ⟨"main", 0⟩
def exit0 : Stmt := .exit (.lit 0) .i64

/-- (1) clauses not in declaration order: `⟨A | case { B ⇒ exit 0, A ⇒ exit 0 }⟩` -/
def qOrder : Prog :=
  { defs := [⟨mainI, [],
      .cut (.decl T) (.xtor .prd ⟨"A", 0⟩ .nil (.decl T))
        (.xcase .cns (.decl T) (.cons ⟨"B", 0⟩ [] exit0 (.cons ⟨"A", 0⟩ [] exit0 .nil)))⟩],
    dataTypes := [⟨T, [⟨⟨"A", 0⟩, []⟩, ⟨⟨"B", 0⟩, []⟩]⟩], codataTypes := [], maxId := 0 }

/-- (2) a cut (and two μ-annotations) at an undeclared type: `⟨μa. exit 0 | μ~x. exit 0⟩ : U` -/
def qUndecl : Prog :=
  { defs := [⟨mainI, [],
      .cut (.decl U) (.mu .prd ⟨"a", 0⟩ (.decl U) exit0) (.mu .cns ⟨"x", 0⟩ (.decl U) exit0)⟩],
    dataTypes := [], codataTypes := [], maxId := 0 }

/-- (3) a type called `_Cont` -/
def qCont : Prog :=
  { defs := [⟨mainI, [], exit0⟩], dataTypes := [⟨⟨"_Cont", 0⟩, []⟩], codataTypes := [], maxId := 0 }

/-- (4) two xtors of the same name: `data T { A(x : i64), A }`,
    `⟨A(5) | case { A(x) ⇒ exit 0, A(y) ⇒ exit 0 }⟩` -/
def qDup : Prog :=
  { defs := [⟨mainI, [],
      .cut (.decl T) (.xtor .prd ⟨"A", 0⟩ (.cons .prd (.lit 5) .nil) (.decl T))
        (.xcase .cns (.decl T)
          (.cons ⟨"A", 0⟩ [⟨⟨"x", 0⟩, .prd, .i64⟩] exit0
            (.cons ⟨"A", 0⟩ [⟨⟨"y", 0⟩, .prd, .i64⟩] exit0 .nil)))⟩],
    dataTypes := [⟨T, [⟨⟨"A", 0⟩, [⟨⟨"x", 0⟩, .prd, .i64⟩]⟩, ⟨⟨"A", 0⟩, []⟩]⟩],
    codataTypes := [], maxId := 0 }

/-- the hypotheses of `focusProg_wtFsScoped` other than `strictOk` -/
def OtherHyps (q : Prog) : Prop :=
  q.wellTyped = true ∧ q.BindersZero ∧ q.OccsOld ∧ Scc.Pipeline.typesDisjoint q = true

instance (q : Prog) : Decidable (OtherHyps q) := by
  unfold OtherHyps Prog.BindersZero Prog.OccsOld; infer_instance

/-- the conjuncts of `strictOk`: no `_Cont`, distinct xtor names, strict bodies -/
def strictParts (q : Prog) : Bool × Bool × Bool :=
  (!(q.dataTypes.any fun t => t.name == ⟨"_Cont", 0⟩) &&
      !(q.codataTypes.any fun t => t.name == ⟨"_Cont", 0⟩),
   q.dataTypes.all TypeDecl.xtorsDistinct && q.codataTypes.all TypeDecl.xtorsDistinct,
   q.defs.all fun d => d.body.strict q)

theorem qOrder_uniq : uniquifyProg qOrder = qOrder := by
  simp [uniquifyProg, qOrder, uniquifyDefs, uniquifyDef, uniquifyCtx, substIfAny, uniquifyStmt,
    uniquifyTerm, uniquifyArgs, uniquifyClauses, exit0]

theorem qUndecl_uniq : uniquifyProg qUndecl =
    { qUndecl with
      defs := [⟨mainI, [], .cut (.decl U) (.mu .prd ⟨"a", 1⟩ (.decl U) exit0)
        (.mu .cns ⟨"x", 2⟩ (.decl U) exit0)⟩], maxId := 2 } := by
  simp [uniquifyProg, qUndecl, uniquifyDefs, uniquifyDef, uniquifyCtx, substIfAny, uniquifyStmt,
    uniquifyTerm, freshIdentifier, substStmt, substTerm, exit0]

theorem qCont_uniq : uniquifyProg qCont = qCont := by
  simp [uniquifyProg, qCont, uniquifyDefs, uniquifyDef, uniquifyCtx, substIfAny, uniquifyStmt,
    uniquifyTerm, exit0]

theorem qDup_uniq : uniquifyProg qDup =
    { qDup with
      defs := [⟨mainI, [],
        .cut (.decl T) (.xtor .prd ⟨"A", 0⟩ (.cons .prd (.lit 5) .nil) (.decl T))
          (.xcase .cns (.decl T)
            (.cons ⟨"A", 0⟩ [⟨⟨"x", 1⟩, .prd, .i64⟩] exit0
              (.cons ⟨"A", 0⟩ [⟨⟨"y", 2⟩, .prd, .i64⟩] exit0 .nil)))⟩], maxId := 2 } := by
  simp [uniquifyProg, qDup, uniquifyDefs, uniquifyDef, uniquifyCtx, substIfAny, uniquifyStmt,
    uniquifyTerm, uniquifyArgs, uniquifyClauses, freshIdentifier, substStmt, substTerm,
    exit0]

/-- a program satisfying all hypotheses of `focusProg_wtFsScoped` (all ids 0):
    `def main() { ⟨Cons(1 + 2, Nil) | case { Nil ⇒ exit 0, Cons(x, xs) ⇒ f(x + 1; μ~r. exit r) }⟩ }`
    `def f(n; k) { print n; ⟨n | k⟩ }` — a case with two clauses, a constructor call with non-variable
    arguments, a call with non-variable arguments -/
def exPos : Prog :=
  let L : Ident := ⟨"List", 0⟩
  let x : Ident := ⟨"x", 0⟩
  let n : Ident := ⟨"n", 0⟩
  let k : Ident := ⟨"k", 0⟩
  let r : Ident := ⟨"r", 0⟩
  { defs := [
      ⟨⟨"main", 0⟩, [],
        .cut (.decl L)
          (.xtor .prd ⟨"Cons", 0⟩
            (.cons .prd (.op (.lit 1) .sum (.lit 2))
              (.cons .prd (.xtor .prd ⟨"Nil", 0⟩ .nil (.decl L)) .nil)) (.decl L))
          (.xcase .cns (.decl L)
            (.cons ⟨"Nil", 0⟩ [] (.exit (.lit 0) .i64)
              (.cons ⟨"Cons", 0⟩ [⟨x, .prd, .i64⟩, ⟨⟨"xs", 0⟩, .prd, .decl L⟩]
                (.call ⟨"f", 0⟩
                  (.cons .prd (.op (.var .prd x .i64) .sum (.lit 1))
                    (.cons .cns (.mu .cns r .i64 (.exit (.var .prd r .i64) .i64)) .nil)) .i64)
                .nil)))⟩,
      ⟨⟨"f", 0⟩, [⟨n, .prd, .i64⟩, ⟨k, .cns, .i64⟩],
        .print true (.var .prd n .i64) (.cut .i64 (.var .prd n .i64) (.var .cns k .i64))⟩],
    dataTypes := [⟨L, [⟨⟨"Nil", 0⟩, []⟩,
      ⟨⟨"Cons", 0⟩, [⟨x, .prd, .i64⟩, ⟨⟨"xs", 0⟩, .prd, .decl L⟩]⟩]⟩],
    codataTypes := [], maxId := 0 }
end TypedEx
open TypedEx

/-- (1) only the clause order is wrong, and the focused program is ill-typed -/
example : OtherHyps qOrder ∧ strictParts qOrder = (true, true, false) ∧
    wtFsScopedCheck (focusProg qOrder) = false := by
  refine ⟨by decide, by decide, ?_⟩
  rw [focusProg, qOrder_uniq]; decide

/-- (2) only the cut / μ types are undeclared -/
example : OtherHyps qUndecl ∧ strictParts qUndecl = (true, true, false) ∧
    wtFsScopedCheck (focusProg qUndecl) = false := by
  refine ⟨by decide, by decide, ?_⟩
  rw [focusProg, qUndecl_uniq]; decide

/-- (3) only the type name `_Cont` is wrong -/
example : OtherHyps qCont ∧ strictParts qCont = (false, true, true) ∧
    wtFsScopedCheck (focusProg qCont) = false := by
  refine ⟨by decide, by decide, ?_⟩
  rw [focusProg, qCont_uniq]; decide

/-- (4) only the xtor names of `T` are not distinct (the tags ARE the declared names, in order) -/
example : OtherHyps qDup ∧ strictParts qDup = (true, false, true) ∧
    wtFsScopedCheck (focusProg qDup) = false := by
  refine ⟨by decide, by decide, ?_⟩
  rw [focusProg, qDup_uniq]; decide

/-! ### non-vacuity -/

example : exPos.wellTyped = true ∧ exPos.BindersZero ∧ exPos.OccsOld ∧
    Scc.Pipeline.typesDisjoint exPos = true ∧ exPos.strictOk = true := by
  unfold Prog.BindersZero Prog.OccsOld
  decide

/-- the theorem applied to it -/
example : wtFsScopedCheck (focusProg exPos) = true :=
  focusProg_wtFsScoped exPos (by decide) (by unfold Prog.BindersZero; decide)
    (by unfold Prog.OccsOld; decide) (by decide) (by decide)

end Scc.Core
