/-
  Scc.Core.ProofsUniqueC — proof side of C03 "unique binders", part C: whole programs.
  `focusProg_binders`: for a program whose binders all have id 0, in every definition of
  `focusProg p` the parameters and ALL binders are pairwise distinct and lie in
  `(p.maxId, (focusProg p).maxId]`.
-/
import Scc.Core.ProofsUniqueB

namespace Scc.Core

def Def.ids (d : Def) : List Nat := ctxIds d.ctx ++ d.body.binderIds
def FsDef.ids (d : FsDef) : List Nat := ctxIds d.ctx ++ d.body.binderIds

/-- precondition of C03 (binders): every parameter and every binder has id 0 — what fun2core
    produces (all its identifiers have id 0) -/
def Prog.BindersZero (p : Prog) : Prop := ∀ d ∈ p.defs, ∀ b ∈ d.ids, b = 0

/-- pairwise distinct ids from `(lo, hi]` -/
def Within (lo hi : Nat) (l : List Nat) : Prop := l.Nodup ∧ ∀ b ∈ l, lo < b ∧ b ≤ hi

theorem uniquifyDefs_within (ds : List Def) (n : Nat) (hz : ∀ d ∈ ds, ∀ b ∈ d.ids, b = 0) :
    n ≤ (uniquifyDefs ds n).2 ∧
      ∀ d' ∈ (uniquifyDefs ds n).1, Within n (uniquifyDefs ds n).2 d'.ids := by
  induction ds generalizing n with
  | nil => simp [uniquifyDefs]
  | cons d r ih =>
    have h1 := uniquifyDef_fresh d n (hz d (by simp))
    have h2 := ih (uniquifyDef d n).2 (fun d' hd' => hz d' (by simp [hd']))
    simp only [uniquifyDefs, List.mem_cons, forall_eq_or_imp]
    unfold Fresh Within Def.ids at *
    grind

theorem Ext.prepend {M l old c n n'} (h : Ext M l old n n') (ho : OldOK M (c ++ old)) (hM : M ≤ n) :
    Ext M (c ++ l) (c ++ old) n n' := by
  unfold Ext OldOK at *
  simp only [List.nodup_append, List.mem_append] at *
  grind

theorem focusDef_within (M m0 : Nat) (d : Def) (n : Nat) (hM : M ≤ n) (hm : m0 ≤ M)
    (hd : Within m0 M d.ids) :
    n ≤ (focusDef d n).2 ∧ Within m0 (focusDef d n).2 (focusDef d n).1.ids := by
  have ho : OldOK M (ctxIds d.ctx ++ d.body.binderIds) := ⟨hd.1, fun b hb => (hd.2 b hb).2⟩
  have h := (focusStmt_ext M d.body n hM ho.right).prepend ho hM
  simp only [focusDef, FsDef.ids]
  unfold Ext Within Def.ids at *
  grind

theorem focusDefs_within (M m0 : Nat) (ds : List Def) (n : Nat) (hM : M ≤ n) (hm : m0 ≤ M)
    (hd : ∀ d ∈ ds, Within m0 M d.ids) :
    n ≤ (focusDefs ds n).2 ∧ ∀ d' ∈ (focusDefs ds n).1, Within m0 (focusDefs ds n).2 d'.ids := by
  induction ds generalizing n with
  | nil => simp [focusDefs]
  | cons d r ih =>
    have h1 := focusDef_within M m0 d n hM hm (hd d (by simp))
    have h2 := ih (focusDef d n).2 (by omega) (fun d' hd' => hd d' (by simp [hd']))
    simp only [focusDefs, List.mem_cons, forall_eq_or_imp]
    unfold Within at *
    grind

/-- all binders of every definition of `focusProg p` are pairwise distinct, new
    (`> p.maxId`) and `≤` the final counter -/
theorem focusProg_binders (p : Prog) (hz : p.BindersZero) :
    p.maxId ≤ (focusProg p).maxId ∧
      ∀ d ∈ (focusProg p).defs, Within p.maxId (focusProg p).maxId d.ids := by
  have h1 := uniquifyDefs_within p.defs p.maxId hz
  have h2 := focusDefs_within (uniquifyDefs p.defs p.maxId).2 p.maxId (uniquifyDefs p.defs p.maxId).1
    (uniquifyDefs p.defs p.maxId).2 (Nat.le_refl _) h1.1 h1.2
  simp only [focusProg, focusOnly, uniquifyProg]
  exact ⟨by omega, h2.2⟩

end Scc.Core
