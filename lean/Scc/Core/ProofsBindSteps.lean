/-
  Scc.Core.ProofsBindSteps — per-form lemmas for `bind` on the focused machine:
  "`bind t k` evaluates `t`, binds the result to the fresh variable `x`, and continues with `k x`".
  One lemma per producer form whose evaluation is a single machine step:
    variable (no step), literal, operator on variables, constructor on variables, cocase,
    μ at a data/integer type (jumps into the body with the continuation `μ~x.k x` as consumer
    value), μ at a codata type (suspended as a thunk = by name).
  The corresponding behaviour of the specification machine on `S[t]` is its definition: one
  ς-step to `⟨t | μ~ς.S[ς]⟩` and then the same cut rule (Sem.lean).
-/
import Scc.Core.Focus
import Scc.Core.Sem

namespace Scc.Core

/-- the fresh variable `bind` creates at counter `n` -/
def bindVar (n : Nat) : Ident := ⟨"x", n + 1⟩

/-- variable: `bind x k = k x`, no machine step -/
theorem bind_var (pc : PC) (v : Ident) (ty : Ty) (k : Cont) (n : Nat) :
    bindTerm (.var pc v ty) k n = k ⟨v, pc, ty⟩ n := by
  simp [bindTerm]

/-- shape of `bind t k` for a literal -/
theorem bind_lit_eq (i : Int) (k : Cont) (n : Nat) :
    (bindTerm (.lit i) k n).1 =
      .cut .i64 (.lit i) (.mu .cns (bindVar n) .i64 (k ⟨bindVar n, .prd, .i64⟩ (n + 1)).1) := by
  simp [bindTerm, freshVar, freshIdentifier, bindVar]

/-- literal: one step, `x ↦ i`, continue with `k x` -/
theorem fsStep_bind_lit (q : FsProg) (st : FsState) (i : Int) (k : Cont) (n : Nat)
    (h : st.stmt = (bindTerm (.lit i) k n).1) :
    fsStep q st = .next { st with
      stmt := (k ⟨bindVar n, .prd, .i64⟩ (n + 1)).1,
      env := (bindVar n, .int (BitVec.ofInt 64 i)) :: st.env } := by
  rw [bind_lit_eq] at h
  simp [fsStep, h, isCodata, fsStepCut, fsPrdVal, fsCnsVal, FsState.pass, FsState.goto]

/-- shape of `bind t k` for an operator whose operands are variables -/
theorem bind_op_vars_eq (pa pb : PC) (a b : Ident) (ta tb : Ty) (o : BinOp) (k : Cont) (n : Nat) :
    (bindTerm (.op (.var pa a ta) o (.var pb b tb)) k n).1 =
      .cut .i64 (.op a o b) (.mu .cns (bindVar n) .i64 (k ⟨bindVar n, .prd, .i64⟩ (n + 1)).1) := by
  simp [bindTerm, freshVar, freshIdentifier, bindVar]

/-- operator on variables: one step computing the result (or stuck with the arithmetic fault) -/
theorem fsStep_bind_op (q : FsProg) (st : FsState) (pa pb : PC) (a b : Ident) (ta tb : Ty)
    (o : BinOp) (k : Cont) (n : Nat) (x y : BitVec 64)
    (h : st.stmt = (bindTerm (.op (.var pa a ta) o (.var pb b tb)) k n).1)
    (ha : st.env.lookupInt a = .ok x) (hb : st.env.lookupInt b = .ok y) :
    fsStep q st =
      match arith o x y with
      | .ok z => .next { st with
          stmt := (k ⟨bindVar n, .prd, .i64⟩ (n + 1)).1,
          env := (bindVar n, .int z) :: st.env }
      | .error e => .final (.stuck e) := by
  rw [bind_op_vars_eq] at h
  simp only [fsStep, h, isCodata, fsStepCut, fsPrdVal, ha, hb, fsCnsVal]
  cases arith o x y <;> simp [FsState.pass, FsState.goto, stuck]

/-- shape of `bind t k` for a cocase -/
theorem bind_cocase_eq (ty : Ty) (cl : Clauses) (k : Cont) (n : Nat) :
    (bindTerm (.xcase .prd ty cl) k n).1 =
      .cut ty (.xcase .prd ty (focusClauses cl (k ⟨bindVar n, .prd, ty⟩ (n + 1)).2).1)
        (.mu .cns (bindVar n) ty (k ⟨bindVar n, .prd, ty⟩ (n + 1)).1) := by
  simp [bindTerm, freshVar, freshIdentifier, bindVar]

/-- cocase (at its codata type): one step, `x ↦ cocase ρ clauses`, continue with `k x` -/
theorem fsStep_bind_cocase (q : FsProg) (st : FsState) (ty : Ty) (cl : Clauses) (k : Cont) (n : Nat)
    (h : st.stmt = (bindTerm (.xcase .prd ty cl) k n).1) (hty : isCodata q.codataTypes ty = true) :
    fsStep q st = .next { st with
      stmt := (k ⟨bindVar n, .prd, ty⟩ (n + 1)).1,
      env := (bindVar n,
        .cocase st.env (focusClauses cl (k ⟨bindVar n, .prd, ty⟩ (n + 1)).2).1) :: st.env } := by
  rw [bind_cocase_eq] at h
  simp [fsStep, h, hty, fsStepCut, fsPrdVal, fsCnsVal, FsState.goto]

/-- shape of `bind t k` for `μa.s` -/
theorem bind_mu_eq (a : Ident) (ty : Ty) (s : Stmt) (k : Cont) (n : Nat) :
    (bindTerm (.mu .prd a ty s) k n).1 =
      .cut ty (.mu .prd a ty (focusStmt s (n + 1)).1)
        (.mu .cns (bindVar n) ty (k ⟨bindVar n, .prd, ty⟩ (focusStmt s (n + 1)).2).1) := by
  simp [bindTerm, freshVar, freshIdentifier, bindVar]

/-- `μa.s` at a data/integer type: evaluated ONCE, now: jump into the focused body with `a` bound to
    the continuation `μ~x.k x` -/
theorem fsStep_bind_mu_data (q : FsProg) (st : FsState) (a : Ident) (ty : Ty) (s : Stmt) (k : Cont)
    (n : Nat) (h : st.stmt = (bindTerm (.mu .prd a ty s) k n).1)
    (hty : isCodata q.codataTypes ty = false) :
    fsStep q st = .next { st with
      stmt := (focusStmt s (n + 1)).1,
      env := (a, .mutilde st.env (bindVar n)
        (k ⟨bindVar n, .prd, ty⟩ (focusStmt s (n + 1)).2).1) :: st.env } := by
  rw [bind_mu_eq] at h
  simp [fsStep, h, hty, fsStepCut, fsCnsVal, FsState.goto]

/-- `μa.s` at a codata type: BY NAME: `x` is bound to the thunk, `k x` runs first; the body runs at
    every destructor call on `x` (rule `invoke` of the machine) -/
theorem fsStep_bind_mu_codata (q : FsProg) (st : FsState) (a : Ident) (ty : Ty) (s : Stmt) (k : Cont)
    (n : Nat) (h : st.stmt = (bindTerm (.mu .prd a ty s) k n).1)
    (hty : isCodata q.codataTypes ty = true) :
    fsStep q st = .next { st with
      stmt := (k ⟨bindVar n, .prd, ty⟩ (focusStmt s (n + 1)).2).1,
      env := (bindVar n, .thunk st.env a (focusStmt s (n + 1)).1) :: st.env } := by
  rw [bind_mu_eq] at h
  simp [fsStep, h, hty, fsStepCut, fsPrdVal, fsCnsVal, FsState.goto]

/-- constructor whose arguments are all variables: `bind_many` is the identity on them -/
theorem bindMany_vars (as : Ctx) (k : ContVec) (n : Nat) :
    bindMany (Args.ofList (as.map fun b => (b.chi, Term.var b.chi b.var b.ty))) k n = k as n := by
  induction as generalizing k with
  | nil => simp [Args.ofList, bindMany]
  | cons b r ih =>
    simp only [List.map_cons, Args.ofList, bindMany, bindTerm]
    rw [ih]

/-- constructor on variables: one step, `x ↦ K(values)`, continue with `k x` -/
theorem fsStep_bind_ctor (q : FsProg) (st : FsState) (name : Ident) (as : Ctx) (ty : Ty) (k : Cont)
    (n : Nat) (vs : List FVal)
    (h : st.stmt = (bindTerm (.xtor .prd name
      (Args.ofList (as.map fun b => (b.chi, Term.var b.chi b.var b.ty))) ty) k n).1)
    (hty : isCodata q.codataTypes ty = false) (hvs : st.env.lookupAll as = .ok vs) :
    fsStep q st = .next { st with
      stmt := (k ⟨bindVar n, .prd, ty⟩ (n + 1)).1,
      env := (bindVar n, .con name vs) :: st.env } := by
  simp only [bindTerm, bindMany_vars, freshVar, freshIdentifier] at h
  simp [fsStep, h, hty, fsStepCut, fsPrdVal, hvs, fsCnsVal, FsState.pass, FsState.goto, bindVar]

end Scc.Core
