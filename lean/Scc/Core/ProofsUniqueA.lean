/-
  Scc.Core.ProofsUniqueA — proof side of C03 "unique binders", part A:
  binder lists of unfocused Core, the interval invariants `Fresh`/`Ext`, and
  `focusStmt_ext`: focusing keeps all old binders, adds only binders from the counter interval, and
  keeps the whole list duplicate-free.
-/
import Scc.Core.Focus
import Scc.Core.Unique

namespace Scc.Core

/-! ## binder ids of unfocused Core -/

mutual
  def Term.binderIds : Term → List Nat
    | .var _ _ _ => []
    | .lit _ => []
    | .op a _ b => a.binderIds ++ b.binderIds
    | .mu _ v _ s => v.id :: s.binderIds
    | .xtor _ _ as _ => as.binderIds
    | .xcase _ _ cl => cl.binderIds
  def Args.binderIds : Args → List Nat
    | .nil => []
    | .cons _ t r => t.binderIds ++ r.binderIds
  def Clauses.binderIds : Clauses → List Nat
    | .nil => []
    | .cons _ ctx b r => ctxIds ctx ++ b.binderIds ++ r.binderIds
  def Stmt.binderIds : Stmt → List Nat
    | .cut _ p c => p.binderIds ++ c.binderIds
    | .ifc _ a b t e => a.binderIds ++ b.binderIds ++ t.binderIds ++ e.binderIds
    | .ifz _ a t e => a.binderIds ++ t.binderIds ++ e.binderIds
    | .print _ a n => a.binderIds ++ n.binderIds
    | .call _ as _ => as.binderIds
    | .exit a _ => a.binderIds
end

/-- `l` extends `old` by new ids from the interval `(n, n']`: every element of `l` is an old binder
    (`≤ M`) or a new one, and `l` has no duplicates -/
def Ext (M : Nat) (l old : List Nat) (n n' : Nat) : Prop :=
  n ≤ n' ∧ l.Nodup ∧ ∀ b ∈ l, (b ∈ old ∧ b ≤ M) ∨ (n < b ∧ b ≤ n')

/-- the old binders: duplicate-free and below `M` -/
def OldOK (M : Nat) (old : List Nat) : Prop := old.Nodup ∧ ∀ b ∈ old, b ≤ M


theorem OldOK.tail {M b old} (h : OldOK M (b :: old)) : OldOK M old := by
  unfold OldOK at *; simp only [List.nodup_cons, List.mem_cons] at h; grind
theorem OldOK.left {M o1 o2} (h : OldOK M (o1 ++ o2)) : OldOK M o1 := by
  unfold OldOK at *; simp only [List.nodup_append, List.mem_append] at h; grind
theorem OldOK.right {M o1 o2} (h : OldOK M (o1 ++ o2)) : OldOK M o2 := by
  unfold OldOK at *; simp only [List.nodup_append, List.mem_append] at h; grind
theorem OldOK.disj {M o1 o2} (h : OldOK M (o1 ++ o2)) : ∀ b, b ∈ o1 → b ∈ o2 → False := by
  unfold OldOK at *; simp only [List.nodup_append, List.mem_append] at h; grind

theorem OldOK.comm {M o1 o2} (h : OldOK M (o1 ++ o2)) : OldOK M (o2 ++ o1) := by
  unfold OldOK at *; simp only [List.nodup_append, List.mem_append] at *; grind

theorem Ext.nil {M old n n'} (h : n ≤ n') : Ext M [] old n n' := by simp [Ext, h]

theorem Ext.append {M l1 o1 l2 o2 n n1 n2} (h1 : Ext M l1 o1 n n1) (h2 : Ext M l2 o2 n1 n2)
    (hM : M ≤ n) (hd : ∀ b, b ∈ o1 → b ∈ o2 → False) : Ext M (l1 ++ l2) (o1 ++ o2) n n2 := by
  unfold Ext at *
  simp only [List.nodup_append, List.mem_append] at *
  grind

theorem Ext.consNew {M l old n n'} (h : Ext M l old (n+1) n') (hM : M ≤ n) :
    Ext M ((n+1) :: l) old n n' := by
  unfold Ext at *
  simp only [List.nodup_cons, List.mem_cons] at *
  grind

theorem Ext.consOld {M l old b n n'} (h : Ext M l old n n') (ho : OldOK M (b :: old)) (hM : M ≤ n) :
    Ext M (b :: l) (b :: old) n n' := by
  unfold Ext OldOK at *
  simp only [List.nodup_cons, List.mem_cons] at *
  grind

theorem Ext.weaken {M l old old' n n1 n'} (h : Ext M l old n1 n') (hn : n ≤ n1)
    (hs : ∀ b, b ∈ old → b ∈ old') : Ext M l old' n n' := by
  unfold Ext at *
  grind

theorem Ext.perm {M l l' old n n'} (h : Ext M l old n n') (hp : l.Perm l') : Ext M l' old n n' := by
  unfold Ext at *
  refine ⟨h.1, hp.nodup_iff.mp h.2.1, fun b hb => h.2.2 b (hp.mem_iff.mpr hb)⟩

theorem Ext.le {M l old n n'} (h : Ext M l old n n') : n ≤ n' := h.1

section focus
variable (M : Nat)

private def m1 (t : Term) (n : Nat) : Prop :=
  M ≤ n → OldOK M t.binderIds →
    Ext M (focusTerm t n).1.binderIds t.binderIds n (focusTerm t n).2
private def m2 (cl : Clauses) (n : Nat) : Prop :=
  M ≤ n → OldOK M cl.binderIds →
    Ext M (focusClauses cl n).1.binderIds cl.binderIds n (focusClauses cl n).2
private def m3 (s : Stmt) (n : Nat) : Prop :=
  M ≤ n → OldOK M s.binderIds →
    Ext M (focusStmt s n).1.binderIds s.binderIds n (focusStmt s n).2
private def m4 (t : Term) (k : Cont) (n : Nat) : Prop :=
  ∀ oldK, M ≤ n → OldOK M (t.binderIds ++ oldK) →
    (∀ b n1, n ≤ n1 → Ext M (k b n1).1.binderIds oldK n1 (k b n1).2) →
    Ext M (bindTerm t k n).1.binderIds (t.binderIds ++ oldK) n (bindTerm t k n).2
private def m5 (as : Args) (k : ContVec) (n : Nat) : Prop :=
  ∀ oldK, M ≤ n → OldOK M (as.binderIds ++ oldK) →
    (∀ bs n1, n ≤ n1 → Ext M (k bs n1).1.binderIds oldK n1 (k bs n1).2) →
    Ext M (bindMany as k n).1.binderIds (as.binderIds ++ oldK) n (bindMany as k n).2

theorem focusStmt_ext (s : Stmt) (n : Nat) : m3 M s n := by
  apply focusStmt.induct (motive_1 := m1 M) (motive_2 := m2 M) (motive_3 := m3 M)
    (motive_4 := m4 M) (motive_5 := m5 M)
  -- focusTerm
  · intro pc v ty n hM _
    simp [focusTerm, Term.binderIds, FsTerm.binderIds, Ext]
  · intro k n hM _
    simp [focusTerm, Term.binderIds, FsTerm.binderIds, Ext]
  · intro a o b n hM _
    simp [focusTerm, panicTerm, FsTerm.binderIds, Ext]
  · intro pc v ty s n s' n1 heq ih hM hold
    simp only [Term.binderIds] at hold
    simp only [focusTerm, heq, Term.binderIds, FsTerm.binderIds]
    have ih := ih hM hold.tail
    rw [heq] at ih
    exact ih.consOld hold hM
  · intro pc name as ty n hM _
    simp [focusTerm, panicTerm, FsTerm.binderIds, Ext]
  · intro pc ty cl n cl' n1 heq ih hM hold
    simp only [Term.binderIds] at hold
    simp only [focusTerm, heq, Term.binderIds, FsTerm.binderIds]
    have ih := ih hM hold
    rw [heq] at ih
    exact ih
  -- bindTerm
  · intro pc v ty k n oldK hM hold hk
    simp only [bindTerm, Term.binderIds, List.nil_append]
    exact hk _ n (Nat.le_refl _)
  · intro i k n x n1 hfresh r n2 hkeq oldK hM hold hk
    simp only [freshVar, freshIdentifier, Prod.mk.injEq] at hfresh
    obtain ⟨rfl, rfl⟩ := hfresh
    have h := hk ⟨⟨"x", n + 1⟩, .prd, .i64⟩ (n + 1) (by omega)
    simp only [bindTerm, freshVar, freshIdentifier, hkeq, Term.binderIds, FsStmt.binderIds,
      FsTerm.binderIds, List.nil_append]
    rw [hkeq] at h
    exact h.consNew hM
  · intro a o b k n ih1 ih2 oldK hM hold hk
    simp only [Term.binderIds, List.append_assoc] at hold ⊢
    simp only [bindTerm]
    apply ih2 (b.binderIds ++ oldK) hM hold
    intro b1 n1 hn1
    apply ih1 b1 n1 oldK (by omega) hold.right
    intro b2 n2 hn2
    have h := hk ⟨⟨"x", n2 + 1⟩, .prd, .i64⟩ (n2 + 1) (by omega)
    simp only [freshVar, freshIdentifier]
    rcases hkeq : k ⟨⟨"x", n2 + 1⟩, .prd, .i64⟩ (n2 + 1) with ⟨r, n3⟩
    rw [hkeq] at h
    simp only [FsStmt.binderIds, FsTerm.binderIds, List.nil_append]
    exact h.consNew (by omega)
  · intro v ty s k n x n1 hfresh s' n2 hs r n3 hkeq ih oldK hM hold hk
    simp only [freshVar, freshIdentifier, Prod.mk.injEq] at hfresh
    obtain ⟨rfl, rfl⟩ := hfresh
    simp only [Term.binderIds, List.cons_append] at hold ⊢
    have h1 := ih (by omega) hold.tail.left
    rw [hs] at h1
    have h2 := hk ⟨⟨"x", n + 1⟩, .prd, ty⟩ n2 (by have := h1.le; omega)
    rw [hkeq] at h2
    simp only [bindTerm, freshVar, freshIdentifier, hs, hkeq, FsStmt.binderIds, FsTerm.binderIds]
    unfold Ext OldOK at *
    simp only [List.nodup_append, List.nodup_cons, List.mem_append, List.mem_cons] at *
    grind
  · intro v ty s k n x n1 hfresh r n2 hkeq s' n3 hs ih oldK hM hold hk
    simp only [freshCovar, freshIdentifier, Prod.mk.injEq] at hfresh
    obtain ⟨rfl, rfl⟩ := hfresh
    simp only [Term.binderIds, List.cons_append] at hold ⊢
    have h2 := hk ⟨⟨"a", n + 1⟩, .cns, ty⟩ (n + 1) (by omega)
    rw [hkeq] at h2
    have h1 := ih (by have := h2.le; omega) hold.tail.left
    rw [hs] at h1
    simp only [bindTerm, freshCovar, freshIdentifier, hs, hkeq, FsStmt.binderIds, FsTerm.binderIds]
    unfold Ext OldOK at *
    simp only [List.nodup_append, List.nodup_cons, List.mem_append, List.mem_cons] at *
    grind
  · intro name as ty k n ih oldK hM hold hk
    simp only [Term.binderIds] at hold ⊢
    simp only [bindTerm]
    apply ih oldK hM hold
    intro bs n2 hn2
    have h := hk ⟨⟨"x", n2 + 1⟩, .prd, ty⟩ (n2 + 1) (by omega)
    simp only [freshVar, freshIdentifier]
    rcases hkeq : k ⟨⟨"x", n2 + 1⟩, .prd, ty⟩ (n2 + 1) with ⟨r, n3⟩
    rw [hkeq] at h
    simp only [FsStmt.binderIds, FsTerm.binderIds, List.nil_append]
    exact h.consNew (by omega)
  · intro name as ty k n ih oldK hM hold hk
    simp only [Term.binderIds] at hold ⊢
    simp only [bindTerm]
    apply ih oldK hM hold
    intro bs n2 hn2
    have h := hk ⟨⟨"a", n2 + 1⟩, .cns, ty⟩ (n2 + 1) (by omega)
    simp only [freshCovar, freshIdentifier]
    rcases hkeq : k ⟨⟨"a", n2 + 1⟩, .cns, ty⟩ (n2 + 1) with ⟨r, n3⟩
    rw [hkeq] at h
    simp only [FsStmt.binderIds, FsTerm.binderIds, List.append_nil]
    exact h.consNew (by omega)
  · intro ty cl k n x n1 hfresh r n2 hkeq cl' n3 hs ih oldK hM hold hk
    simp only [freshVar, freshIdentifier, Prod.mk.injEq] at hfresh
    obtain ⟨rfl, rfl⟩ := hfresh
    simp only [Term.binderIds] at hold ⊢
    have h2 := hk ⟨⟨"x", n + 1⟩, .prd, ty⟩ (n + 1) (by omega)
    rw [hkeq] at h2
    have h1 := ih (by have := h2.le; omega) hold.left
    rw [hs] at h1
    simp only [bindTerm, freshVar, freshIdentifier, hs, hkeq, FsStmt.binderIds, FsTerm.binderIds]
    unfold Ext OldOK at *
    simp only [List.nodup_append, List.nodup_cons, List.mem_append, List.mem_cons] at *
    grind
  · intro ty cl k n x n1 hfresh r n2 hkeq cl' n3 hs ih oldK hM hold hk
    simp only [freshCovar, freshIdentifier, Prod.mk.injEq] at hfresh
    obtain ⟨rfl, rfl⟩ := hfresh
    simp only [Term.binderIds] at hold ⊢
    have h2 := hk ⟨⟨"a", n + 1⟩, .cns, ty⟩ (n + 1) (by omega)
    rw [hkeq] at h2
    have h1 := ih (by have := h2.le; omega) hold.left
    rw [hs] at h1
    simp only [bindTerm, freshCovar, freshIdentifier, hs, hkeq, FsStmt.binderIds, FsTerm.binderIds]
    unfold Ext OldOK at *
    simp only [List.nodup_append, List.nodup_cons, List.mem_append, List.mem_cons] at *
    grind
  -- bindMany
  · intro k n oldK hM hold hk
    simp only [bindMany, Args.binderIds, List.nil_append]
    exact hk [] n (Nat.le_refl _)
  · intro pc t r k n ih1 ih2 oldK hM hold hk
    simp only [Args.binderIds, List.append_assoc] at hold ⊢
    simp only [bindMany]
    apply ih2 (r.binderIds ++ oldK) hM hold
    intro b n1 hn1
    apply ih1 b n1 oldK (by omega) hold.right
    intro bs n2 hn2
    exact hk (b :: bs) n2 (by omega)
  -- focusClauses
  · intro n hM _
    simp [focusClauses, FsClauses.binderIds, Clauses.binderIds, Ext]
  · intro x ctx b r n b' n1 hb r' n2 hr ihb ihr hM hold
    simp only [Clauses.binderIds, List.append_assoc] at hold ⊢
    have h1 := ihb hM hold.right.left
    rw [hb] at h1
    have h2 := ihr (by have := h1.le; omega) hold.right.right
    rw [hr] at h2
    simp only [focusClauses, hb, hr, FsClauses.binderIds, List.append_assoc]
    unfold Ext OldOK at *
    simp only [List.nodup_append, List.mem_append] at *
    grind
  -- focusStmt: cut
  · intro ty pc name as ty1 c n ihc ih5 hM hold
    simp only [Stmt.binderIds, Term.binderIds] at hold ⊢
    simp only [focusStmt]
    apply ih5 c.binderIds hM hold
    intro bs n1 hn1
    have h := ihc n1 (by omega) hold.right
    simpa only [FsStmt.binderIds, FsTerm.binderIds, List.nil_append] using h
  · intro ty p dpc name as ty1 n hnx ihp ih5 hM hold
    simp only [Stmt.binderIds, Term.binderIds] at hold ⊢
    rw [focusStmt.eq_2 _ _ _ _ _ _ _ hnx]
    refine (ih5 p.binderIds hM hold.comm ?_).weaken (Nat.le_refl _) (by simp; grind)
    intro bs n1 hn1
    have h := ihp n1 (by omega) hold.left
    simpa only [FsStmt.binderIds, FsTerm.binderIds, List.append_nil] using h
  · intro ty a o b c n hnx ihc ih1 ih2 hM hold
    simp only [Stmt.binderIds, Term.binderIds, List.append_assoc] at hold ⊢
    rw [focusStmt.eq_3 _ _ _ _ _ _ hnx]
    apply ih2 (b.binderIds ++ c.binderIds) hM hold
    intro b1 n1 hn1
    apply ih1 b1 n1 c.binderIds (by omega) hold.right
    intro b2 n2 hn2
    have h := ihc n2 (by omega) hold.right.right
    simpa only [FsStmt.binderIds, FsTerm.binderIds, List.nil_append] using h
  · intro ty p c n hnp hnc hnop p' n1 hp c' n2 hc ihp ihc hM hold
    simp only [Stmt.binderIds] at hold ⊢
    rw [focusStmt.eq_4 _ _ _ _ hnp hnc hnop]
    have h1 := ihp hM hold.left
    rw [hp] at h1
    have h2 := ihc (by have := h1.le; omega) hold.right
    rw [hc] at h2
    simp only [hp, hc, FsStmt.binderIds]
    exact h1.append h2 hM hold.disj
  -- focusStmt: ifc, ifz, print, call, exit
  · intro srt a b t e n iht ihe ih1 ih2 hM hold
    simp only [Stmt.binderIds, List.append_assoc] at hold ⊢
    simp only [focusStmt]
    apply ih2 (b.binderIds ++ (t.binderIds ++ e.binderIds)) hM hold
    intro b1 n1 hn1
    apply ih1 b1 n1 (t.binderIds ++ e.binderIds) (by omega) hold.right
    intro b2 n2 hn2
    have h1 := iht n2 (by omega) hold.right.right.left
    have h2 := ihe (focusStmt t n2).2 (by have := h1.le; omega) hold.right.right.right
    simpa only [FsStmt.binderIds] using h1.append h2 (by omega) hold.right.right.disj
  · intro srt a t e n iht ihe ih1 hM hold
    simp only [Stmt.binderIds, List.append_assoc] at hold ⊢
    simp only [focusStmt]
    apply ih1 (t.binderIds ++ e.binderIds) hM hold
    intro b1 n1 hn1
    have h1 := iht n1 (by omega) hold.right.left
    have h2 := ihe (focusStmt t n1).2 (by have := h1.le; omega) hold.right.right
    simpa only [FsStmt.binderIds] using h1.append h2 (by omega) hold.right.disj
  · intro nl a nx n ihn ih1 hM hold
    simp only [Stmt.binderIds] at hold ⊢
    simp only [focusStmt]
    apply ih1 nx.binderIds hM hold
    intro b1 n1 hn1
    simpa only [FsStmt.binderIds] using ihn n1 (by omega) hold.right
  · intro f as ty n ih5 hM hold
    simp only [Stmt.binderIds] at hold ⊢
    simp only [focusStmt]
    have := ih5 [] hM (by simpa using hold) (fun bs n1 _ => by simp [FsStmt.binderIds, Ext])
    simpa using this
  · intro a ty n ih4 hM hold
    simp only [Stmt.binderIds] at hold ⊢
    simp only [focusStmt]
    have := ih4 [] hM (by simpa using hold) (fun b n1 _ => by simp [FsStmt.binderIds, Ext])
    simpa using this

end focus

end Scc.Core
