/-
  Scc.Core.Typing — a (simple, executable) type checker for unfocused Core programs, used only to
  STATE C03 ("for every well-typed Core program ...").  core_lang has no checker of its own; the
  rules are the standard ones of the sequent calculus with the declarations of the program:
  a context is a list of bindings (first match wins, like the machine's environments), one
  namespace for variables and covariables.   Core imports only; executable.
-/
import Scc.Core.Syntax

namespace Scc.Core

def lookupBinding : Ctx → Ident → Option Binding
  | [], _ => none
  | b :: r, v => if b.var = v then some b else lookupBinding r v

def findDecl (ds : List TypeDecl) (T : Ident) : Option TypeDecl := ds.find? fun d => d.name = T

def findSig (sigs : List XtorSig) (x : Ident) : Option XtorSig := sigs.find? fun s => s.name = x

def PC.flip : PC → PC
  | .prd => .cns
  | .cns => .prd

/-- same length, same chiralities and types (names are the clause's own) -/
def ctxMatches : Ctx → Ctx → Bool
  | [], [] => true
  | a :: as, b :: bs => a.chi == b.chi && a.ty == b.ty && ctxMatches as bs
  | _, _ => false

mutual
  /-- `t` is a term of chirality `pc` and type `ty` in context `Γ` -/
  def Term.check (P : Prog) (Γ : Ctx) (pc : PC) (ty : Ty) : Term → Bool
    | .var pc' v ty' =>
      pc' == pc && ty' == ty &&
        (match lookupBinding Γ v with
         | some b => b.chi == pc && b.ty == ty
         | none => false)
    | .lit _ => pc == .prd && ty == .i64
    | .op a _ b => pc == .prd && ty == .i64 && a.check P Γ .prd .i64 && b.check P Γ .prd .i64
    | .mu pc' v ty' s => pc' == pc && ty' == ty && s.check P (⟨v, pc.flip, ty⟩ :: Γ)
    | .xtor pc' name as ty' =>
      pc' == pc && ty' == ty &&
        (match ty with
         | .i64 => false
         | .decl T =>
           match findDecl (if pc == .prd then P.dataTypes else P.codataTypes) T with
           | none => false
           | some d =>
             match findSig d.xtors name with
             | none => false
             | some sig => as.check P Γ sig.args)
    | .xcase pc' ty' cl =>
      pc' == pc && ty' == ty &&
        (match ty with
         | .i64 => false
         | .decl T =>
           match findDecl (if pc == .prd then P.codataTypes else P.dataTypes) T with
           | none => false
           | some d => cl.check P Γ d.xtors && cl.covers d.xtors)
  def Args.check (P : Prog) (Γ : Ctx) : Args → Ctx → Bool
    | .nil, [] => true
    | .cons pc t r, b :: bs => pc == b.chi && t.check P Γ pc b.ty && r.check P Γ bs
    | _, _ => false
  /-- every clause is for an xtor of the type, with matching parameters, and its body is typed -/
  def Clauses.check (P : Prog) (Γ : Ctx) : Clauses → List XtorSig → Bool
    | .nil, _ => true
    | .cons x ctx b r, sigs =>
      (match findSig sigs x with
       | none => false
       | some sig => ctxMatches ctx sig.args) &&
      b.check P (ctx ++ Γ) && r.check P Γ sigs
  /-- every xtor of the type has a clause -/
  def Clauses.covers : Clauses → List XtorSig → Bool
    | _, [] => true
    | cl, s :: r => cl.has s.name && cl.covers r
  def Clauses.has : Clauses → Ident → Bool
    | .nil, _ => false
    | .cons x _ _ r, k => x == k || r.has k
  def Stmt.check (P : Prog) (Γ : Ctx) : Stmt → Bool
    | .cut ty p c => p.check P Γ .prd ty && c.check P Γ .cns ty
    | .ifc _ a b t e =>
      a.check P Γ .prd .i64 && b.check P Γ .prd .i64 && t.check P Γ && e.check P Γ
    | .ifz _ a t e => a.check P Γ .prd .i64 && t.check P Γ && e.check P Γ
    | .print _ a n => a.check P Γ .prd .i64 && n.check P Γ
    | .call f as _ =>
      (match P.defs.find? (fun d => d.name = f) with
       | none => false
       | some d => as.check P Γ d.ctx)
    | .exit a _ => a.check P Γ .prd .i64
end

/-- a well-typed Core program -/
def Prog.wellTyped (P : Prog) : Bool := P.defs.all fun d => d.body.check P d.ctx

/-- line interface: Core dump text ↦ `OK true` / `OK false` -/
def runLineWellTyped (dump : String) : String :=
  match Sexp.parse dump with
  | none => "ERR sexp"
  | some sx =>
    match readProg (dump.length + 10) sx with
    | none => "ERR read"
    | some p => "OK " ++ toString p.wellTyped

end Scc.Core
