/-
  Scc.Core.TypedUniquify — proof file: `uniquify` PRESERVES CORE TYPING and strictness.
  For a well-typed program whose binders all carry id 0 and whose occurrence ids are `≤ maxId`
  (C03's `Input`):   `(uniquifyProg p).wellTyped = true`   (`uniquifyProg_wellTyped`)   and
  `(uniquifyProg p).strictOk = p.strictOk`                  (`uniquifyProg_strictOk`).
  Method (Scc/Core/TypedNameless.lean): `Stmt.check` = the check of the nameless form (unchanged by
  `uniquify`: `uniquifyProg_alpha`) ∧ `annOk` (variable occurrences carry the type their position
  expects).  `annOk` is preserved because the substitutions of `uniquify` replace an occurrence of a
  binder by a variable annotated with THE BINDER'S type (`TySub`), which for a well-typed statement
  is the type the position expects (`subst_annOk_stmt`); functional induction over `uniquify`
  (`uniquify_annOk`), the typing of the intermediate (substituted) statements again by the split.
-/
import Scc.Core.TypedNameless
import Scc.Core.ProofsUniqAlphaD
import Scc.Core.ProofsUniqAlphaE

namespace Scc.Core

/-! ## lookups -/

theorem lookupBinding_append_not_mem (pre Γ : Ctx) (u : Ident) (h : u ∉ ctxVars pre) :
    lookupBinding (pre ++ Γ) u = lookupBinding Γ u := by
  induction pre with
  | nil => rfl
  | cons b r ih =>
    simp only [ctxVars, List.map_cons, List.mem_cons, not_or] at h
    simp only [List.cons_append, lookupBinding]
    rw [if_neg (fun e => h.1 e.symm)]
    exact ih h.2

/-! ## substitutions that respect the types of the binders -/

/-- a variable bound in `Γ` is replaced (if at all) by a variable of its chirality annotated with
    its type -/
def TySub (ps cs : Subst) (Γ : Ctx) : Prop :=
  ∀ v b, lookupBinding Γ v = some b →
    (b.chi = .prd → ∀ t, substFind ps v = some t → ∃ w, t = .var .prd w b.ty) ∧
    (b.chi = .cns → ∀ t, substFind cs v = some t → ∃ w, t = .var .cns w b.ty)

theorem TySub.ext {ps cs : Subst} {Γ : Ctx} (h : TySub ps cs Γ) (pre : Ctx) {ps1 cs1 : Subst}
    (hp : Removed (ctxVars pre) ps ps1) (hc : Removed (ctxVars pre) cs cs1) :
    TySub ps1 cs1 (pre ++ Γ) := by
  intro v b hl
  by_cases hm : v ∈ ctxVars pre
  · refine ⟨fun _ t ht => ?_, fun _ t ht => ?_⟩
    · rw [hp.mem v hm] at ht; cases ht
    · rw [hc.mem v hm] at ht; cases ht
  · rw [lookupBinding_append_not_mem pre Γ v hm] at hl
    obtain ⟨h1, h2⟩ := h v b hl
    refine ⟨fun hb t ht => h1 hb t ?_, fun hb t ht => h2 hb t ?_⟩
    · rw [hp.not_mem v hm] at ht; exact ht
    · rw [hc.not_mem v hm] at ht; exact ht

theorem TySub.cons {ps cs : Subst} {Γ : Ctx} (h : TySub ps cs Γ) (b : Binding) :
    TySub (substRemove ps b.var) (substRemove cs b.var) (b :: Γ) := by
  have := h.ext [b] (ps1 := substRemove ps b.var) (cs1 := substRemove cs b.var)
    (by simpa [ctxVars] using Removed.single ps b.var)
    (by simpa [ctxVars] using Removed.single cs b.var)
  simpa using this

section
variable (P : Prog)

mutual
  theorem subst_annOk_term : (t : Term) → ∀ (ps cs : Subst) (Γ : Ctx) (pc : PC) (ty : Ty),
      TySub ps cs Γ → t.check P Γ pc ty = true → (substTerm ps cs t).annOk P.denv pc ty = true
    | .var .prd v ty', ps, cs, Γ, pc, ty, hS, h => by
      simp only [Term.check, Bool.and_eq_true] at h
      obtain ⟨⟨h1, h2⟩, h3⟩ := h
      simp only [substTerm]
      cases hf : substFind ps v with
      | none => simpa [Term.annOk] using h2
      | some p =>
        simp only
        cases hl : lookupBinding Γ v with
        | none => rw [hl] at h3; cases h3
        | some b =>
          rw [hl] at h3
          simp only [Bool.and_eq_true] at h3
          have hb : b.chi = .prd := by rw [eq_of_beq h3.1, ← eq_of_beq h1]
          obtain ⟨w, rfl⟩ := (hS v b hl).1 hb p hf
          simpa [Term.annOk] using h3.2
    | .var .cns v ty', ps, cs, Γ, pc, ty, hS, h => by
      simp only [Term.check, Bool.and_eq_true] at h
      obtain ⟨⟨h1, h2⟩, h3⟩ := h
      simp only [substTerm]
      cases hf : substFind cs v with
      | none => simpa [Term.annOk] using h2
      | some p =>
        simp only
        cases hl : lookupBinding Γ v with
        | none => rw [hl] at h3; cases h3
        | some b =>
          rw [hl] at h3
          simp only [Bool.and_eq_true] at h3
          have hb : b.chi = .cns := by rw [eq_of_beq h3.1, ← eq_of_beq h1]
          obtain ⟨w, rfl⟩ := (hS v b hl).2 hb p hf
          simpa [Term.annOk] using h3.2
    | .lit k, _, _, _, _, _, _, _ => by simp [substTerm, Term.annOk]
    | .op a o b, ps, cs, Γ, pc, ty, hS, h => by
      simp only [Term.check, Bool.and_eq_true] at h
      simp only [substTerm, Term.annOk, Bool.and_eq_true]
      exact ⟨subst_annOk_term a ps cs Γ .prd .i64 hS h.1.2, subst_annOk_term b ps cs Γ .prd .i64 hS h.2⟩
    | .mu pc' v ty' s, ps, cs, Γ, pc, ty, hS, h => by
      simp only [Term.check, Bool.and_eq_true] at h
      simp only [substTerm, Term.annOk]
      exact subst_annOk_stmt s _ _ _ (hS.cons ⟨v, pc.flip, ty⟩) h.2
    | .xtor pc' name as ty', ps, cs, Γ, pc, ty, hS, h => by
      simp only [Term.check, Bool.and_eq_true] at h
      obtain ⟨_, h⟩ := h
      simp only [substTerm, Term.annOk, Prog.denv]
      cases ty with
      | i64 => rfl
      | decl T =>
        simp only at h ⊢
        cases hd : findDecl (if pc == .prd then P.dataTypes else P.codataTypes) T with
        | none => rfl
        | some d =>
          rw [hd] at h
          simp only at h ⊢
          cases hs : findSig d.xtors name with
          | none => rfl
          | some sig =>
            rw [hs] at h
            simp only at h ⊢
            exact subst_annOk_args as ps cs Γ sig.args hS h
    | .xcase pc' ty' cl, ps, cs, Γ, pc, ty, hS, h => by
      simp only [Term.check, Bool.and_eq_true] at h
      obtain ⟨_, h⟩ := h
      simp only [substTerm, Term.annOk]
      cases ty with
      | i64 => cases h
      | decl T =>
        simp only at h
        cases hd : findDecl (if pc == .prd then P.codataTypes else P.dataTypes) T with
        | none => rw [hd] at h; cases h
        | some d =>
          rw [hd] at h
          simp only [Bool.and_eq_true] at h
          exact subst_annOk_clauses cl ps cs Γ d.xtors hS h.1
  theorem subst_annOk_args : (as : Args) → ∀ (ps cs : Subst) (Γ : Ctx) (sig : Ctx),
      TySub ps cs Γ → as.check P Γ sig = true →
      (substArgs ps cs as).annOk P.denv (ctxSig sig) = true
    | .nil, _, _, _, _, _, _ => by simp [substArgs, Args.annOk]
    | .cons pc t r, ps, cs, Γ, [], hS, h => by simp [Args.check] at h
    | .cons pc t r, ps, cs, Γ, b :: bs, hS, h => by
      simp only [Args.check, Bool.and_eq_true] at h
      simp only [substArgs, ctxSig, List.map_cons, Args.annOk, Bool.and_eq_true]
      exact ⟨subst_annOk_term t ps cs Γ pc b.ty hS h.1.2, subst_annOk_args r ps cs Γ bs hS h.2⟩
  theorem subst_annOk_clauses : (cl : Clauses) → ∀ (ps cs : Subst) (Γ : Ctx) (sigs : List XtorSig),
      TySub ps cs Γ → cl.check P Γ sigs = true → (substClauses ps cs cl).annOk P.denv = true
    | .nil, _, _, _, _, _, _ => by simp [substClauses, Clauses.annOk]
    | .cons x ctx b r, ps, cs, Γ, sigs, hS, h => by
      simp only [Clauses.check, Bool.and_eq_true] at h
      simp only [substClauses, Clauses.annOk, Bool.and_eq_true]
      exact ⟨subst_annOk_stmt b _ _ _ (hS.ext ctx (Removed.ctx ps ctx) (Removed.ctx cs ctx)) h.1.2,
        subst_annOk_clauses r ps cs Γ sigs hS h.2⟩
  theorem subst_annOk_stmt : (s : Stmt) → ∀ (ps cs : Subst) (Γ : Ctx),
      TySub ps cs Γ → s.check P Γ = true → (substStmt ps cs s).annOk P.denv = true
    | .cut ty p c, ps, cs, Γ, hS, h => by
      simp only [Stmt.check, Bool.and_eq_true] at h
      simp only [substStmt, Stmt.annOk, Bool.and_eq_true]
      exact ⟨subst_annOk_term p ps cs Γ .prd ty hS h.1, subst_annOk_term c ps cs Γ .cns ty hS h.2⟩
    | .ifc srt a b t e, ps, cs, Γ, hS, h => by
      simp only [Stmt.check, Bool.and_eq_true] at h
      simp only [substStmt, Stmt.annOk, Bool.and_eq_true]
      exact ⟨⟨⟨subst_annOk_term a ps cs Γ .prd .i64 hS h.1.1.1,
        subst_annOk_term b ps cs Γ .prd .i64 hS h.1.1.2⟩, subst_annOk_stmt t ps cs Γ hS h.1.2⟩,
        subst_annOk_stmt e ps cs Γ hS h.2⟩
    | .ifz srt a t e, ps, cs, Γ, hS, h => by
      simp only [Stmt.check, Bool.and_eq_true] at h
      simp only [substStmt, Stmt.annOk, Bool.and_eq_true]
      exact ⟨⟨subst_annOk_term a ps cs Γ .prd .i64 hS h.1.1, subst_annOk_stmt t ps cs Γ hS h.1.2⟩,
        subst_annOk_stmt e ps cs Γ hS h.2⟩
    | .print nl a n, ps, cs, Γ, hS, h => by
      simp only [Stmt.check, Bool.and_eq_true] at h
      simp only [substStmt, Stmt.annOk, Bool.and_eq_true]
      exact ⟨subst_annOk_term a ps cs Γ .prd .i64 hS h.1, subst_annOk_stmt n ps cs Γ hS h.2⟩
    | .call f as ty, ps, cs, Γ, hS, h => by
      simp only [Stmt.check] at h
      simp only [substStmt, Stmt.annOk, Prog.denv]
      cases hd : P.defs.find? (fun d => d.name = f) with
      | none => rfl
      | some d =>
        rw [hd] at h
        simp only [Option.map_some] at h ⊢
        exact subst_annOk_args as ps cs Γ d.ctx hS h
    | .exit a ty, ps, cs, Γ, hS, h => by
      simp only [Stmt.check] at h
      simp only [substStmt, Stmt.annOk]
      exact subst_annOk_term a ps cs Γ .prd .i64 hS h
end

/-- a substitution that is a renaming of the scope (equal nameless forms) and respects the types
    of the binders preserves typing -/
theorem check_substStmt {s : Stmt} {Γ Γ' : Ctx} {ps cs : Subst} (hc : s.check P Γ = true)
    (hdb : dbS (ctxVars Γ) s = dbS (ctxVars Γ') (substStmt ps cs s)) (hsig : ctxSig Γ' = ctxSig Γ)
    (hT : TySub ps cs Γ) : (substStmt ps cs s).check P Γ' = true := by
  have hc' := hc
  rw [stmt_check_split, Bool.and_eq_true] at hc'
  rw [stmt_check_split, Bool.and_eq_true, ← hdb, hsig]
  exact ⟨hc'.1, subst_annOk_stmt P s ps cs Γ hT hc⟩

end

/-! ## the substitutions of `uniquify` respect the types of the binders -/

theorem tySub_single_cns (v w : Ident) (ty : Ty) (Γ : Ctx) :
    TySub [] [(v, .var .cns w ty)] (⟨v, .cns, ty⟩ :: Γ) := by
  intro u b hl
  refine ⟨fun _ t ht => by simp [substFind] at ht, fun _ t ht => ?_⟩
  simp only [substFind] at ht
  split at ht
  · next hv =>
    subst hv
    simp only [lookupBinding, if_true, Option.some.injEq] at hl
    subst hl
    cases ht
    exact ⟨w, rfl⟩
  · cases ht

theorem tySub_single_prd (v w : Ident) (ty : Ty) (Γ : Ctx) :
    TySub [(v, .var .prd w ty)] [] (⟨v, .prd, ty⟩ :: Γ) := by
  intro u b hl
  refine ⟨fun _ t ht => ?_, fun _ t ht => by simp [substFind] at ht⟩
  simp only [substFind] at ht
  split at ht
  · next hv =>
    subst hv
    simp only [lookupBinding, if_true, Option.some.injEq] at hl
    subst hl
    cases ht
    exact ⟨w, rfl⟩
  · cases ht

theorem uniquifyCtx_tySub (c : Ctx) (n : Nat) (hz : ∀ b ∈ c, b.var.id = 0) (Γ : Ctx) :
    TySub (uniquifyCtx c n).varSubst (uniquifyCtx c n).covarSubst (c ++ Γ) := by
  induction c generalizing n with
  | nil =>
    intro v b _
    simp [uniquifyCtx, substFind]
  | cons b0 r ih =>
    have hb : b0.var.id = 0 := hz b0 (by simp)
    have ih' := ih (n + 1) (fun b' hb' => hz b' (by simp [hb']))
    intro v b hl
    simp only [List.cons_append, lookupBinding] at hl
    by_cases hv : b0.var = v
    · rw [if_pos hv] at hl
      cases hl
      simp only [uniquifyCtx, hb, freshIdentifier, if_true]
      cases hchi : b0.chi with
      | prd =>
        refine ⟨fun _ t ht => ?_, fun h => nomatch h⟩
        simp only [substFind, hv, if_true, Option.some.injEq] at ht
        exact ⟨_, ht.symm⟩
      | cns =>
        refine ⟨(fun h => nomatch h), fun _ t ht => ?_⟩
        simp only [substFind, hv, if_true, Option.some.injEq] at ht
        exact ⟨_, ht.symm⟩
    · rw [if_neg hv] at hl
      obtain ⟨h1, h2⟩ := ih' v b hl
      simp only [uniquifyCtx, hb, freshIdentifier, if_true]
      cases b0.chi with
      | prd =>
        refine ⟨fun hb t ht => h1 hb t ?_, h2⟩
        simpa only [substFind, hv, if_false] using ht
      | cns =>
        refine ⟨h1, fun hb t ht => h2 hb t ?_⟩
        simpa only [substFind, hv, if_false] using ht

/-! ## `uniquify` preserves `annOk` (functional induction) -/

section
variable (P : Prog)

def A1 (t : Term) (n : Nat) : Prop :=
  ∀ Γ pc ty, t.check P Γ pc ty = true → (∀ b ∈ t.binderIds, b = 0) → IdsLe n t.idents →
    (uniquifyTerm t n).1.annOk P.denv pc ty = true ∧ n ≤ (uniquifyTerm t n).2
def A2 (cl : Clauses) (n : Nat) : Prop :=
  ∀ Γ sigs, cl.check P Γ sigs = true → (∀ b ∈ cl.binderIds, b = 0) → IdsLe n cl.idents →
    (uniquifyClauses cl n).1.annOk P.denv = true ∧ n ≤ (uniquifyClauses cl n).2
def A3 (s : Stmt) (n : Nat) : Prop :=
  ∀ Γ, s.check P Γ = true → (∀ b ∈ s.binderIds, b = 0) → IdsLe n s.idents →
    (uniquifyStmt s n).1.annOk P.denv = true ∧ n ≤ (uniquifyStmt s n).2
def A4 (as : Args) (n : Nat) : Prop :=
  ∀ Γ sig, as.check P Γ sig = true → (∀ b ∈ as.binderIds, b = 0) → IdsLe n as.idents →
    (uniquifyArgs as n).1.annOk P.denv (ctxSig sig) = true ∧ n ≤ (uniquifyArgs as n).2

theorem uniquify_annOk (s : Stmt) (n : Nat) : A3 P s n := by
  apply uniquifyStmt.induct (motive1 := A1 P) (motive2 := A2 P) (motive3 := A3 P) (motive4 := A4 P)
  -- uniquifyTerm: var, lit
  · intro n pc' v ty' Γ pc ty hc _ _
    simp only [Term.check, Bool.and_eq_true] at hc
    simp only [uniquifyTerm, Term.annOk]
    exact ⟨hc.1.2, Nat.le_refl _⟩
  · intro n k Γ pc ty _ _ _
    simp [uniquifyTerm, Term.annOk]
  -- op
  · intro n a o b a' n1 ha b' n2 hb iha ihb Γ pc ty hc hz hi
    simp only [Term.check, Bool.and_eq_true] at hc
    simp only [Term.binderIds, List.mem_append] at hz
    simp only [Term.idents, IdsLe_append] at hi
    obtain ⟨e1, l1⟩ := iha Γ .prd .i64 hc.1.2 (fun x hx => hz x (Or.inl hx)) hi.1
    rw [ha] at e1 l1
    obtain ⟨e2, l2⟩ := ihb Γ .prd .i64 hc.2 (fun x hx => hz x (Or.inr hx)) (hi.2.mono l1)
    rw [hb] at e2 l2
    simp only at e1 l1 e2 l2
    simp only [uniquifyTerm, ha, hb, Term.annOk, Bool.and_eq_true]
    exact ⟨⟨e1, e2⟩, by omega⟩
  -- μ binding a covariable, id 0
  · intro n v ty' s hv newVar n1 hfresh s' n2 hs ih Γ pc ty hc hz hi
    simp only [freshIdentifier, Prod.mk.injEq] at hfresh
    obtain ⟨rfl, rfl⟩ := hfresh
    simp only [Term.check, Bool.and_eq_true] at hc
    obtain ⟨⟨h1, h2⟩, h3⟩ := hc
    obtain rfl := PC.beq_eq h1
    obtain rfl : ty' = ty := eq_of_beq h2
    simp only [PC.flip] at h3
    simp only [Term.binderIds, List.mem_cons] at hz
    simp only [Term.idents, IdsLe_cons] at hi
    have hchi := (stmt_check_chi P s _ h3).2
    simp only [ctxVars_cons, List.map_cons] at hchi
    obtain ⟨hR, hok⟩ := ren_single_cns n v hv ty' (ctxVars Γ) (Γ.map (·.chi))
    have hren := ren_stmt s hR hok.vp hok.vc hok.gp hok.gc hi.2 hchi
    have hc' : (substStmt [] [(v, .var .cns ⟨v.name, n + 1⟩ ty')] s).check P
        (⟨⟨v.name, n + 1⟩, .cns, ty'⟩ :: Γ) = true :=
      check_substStmt P h3 (by simpa only [ctxVars_cons] using hren) (by simp [ctxSig])
        (tySub_single_cns v _ ty' Γ)
    obtain ⟨e, l⟩ := ih _ hc'
      (by
        rw [binderIds_substStmt _ _ (by simp [Subst.allVars]) (by simp [Subst.allVars])]
        exact fun x hx => hz x (Or.inr hx))
      (idsLe_substStmt s hok.lp hok.lc (hi.2.mono (Nat.le_succ _)))
    rw [hs] at e l
    simp only at e l
    simp only [uniquifyTerm, hv, freshIdentifier, hs, if_true, Term.annOk]
    exact ⟨e, by omega⟩
  -- μ~ binding a variable, id 0
  · intro n v ty' s hv newVar n1 hfresh s' n2 hs ih Γ pc ty hc hz hi
    simp only [freshIdentifier, Prod.mk.injEq] at hfresh
    obtain ⟨rfl, rfl⟩ := hfresh
    simp only [Term.check, Bool.and_eq_true] at hc
    obtain ⟨⟨h1, h2⟩, h3⟩ := hc
    obtain rfl := PC.beq_eq h1
    obtain rfl : ty' = ty := eq_of_beq h2
    simp only [PC.flip] at h3
    simp only [Term.binderIds, List.mem_cons] at hz
    simp only [Term.idents, IdsLe_cons] at hi
    have hchi := (stmt_check_chi P s _ h3).2
    simp only [ctxVars_cons, List.map_cons] at hchi
    obtain ⟨hR, hok⟩ := ren_single_prd n v hv ty' (ctxVars Γ) (Γ.map (·.chi))
    have hren := ren_stmt s hR hok.vp hok.vc hok.gp hok.gc hi.2 hchi
    have hc' : (substStmt [(v, .var .prd ⟨v.name, n + 1⟩ ty')] [] s).check P
        (⟨⟨v.name, n + 1⟩, .prd, ty'⟩ :: Γ) = true :=
      check_substStmt P h3 (by simpa only [ctxVars_cons] using hren) (by simp [ctxSig])
        (tySub_single_prd v _ ty' Γ)
    obtain ⟨e, l⟩ := ih _ hc'
      (by
        rw [binderIds_substStmt _ _ (by simp [Subst.allVars]) (by simp [Subst.allVars])]
        exact fun x hx => hz x (Or.inr hx))
      (idsLe_substStmt s hok.lp hok.lc (hi.2.mono (Nat.le_succ _)))
    rw [hs] at e l
    simp only at e l
    simp only [uniquifyTerm, hv, freshIdentifier, hs, if_true, Term.annOk]
    exact ⟨e, by omega⟩
  -- μ with id ≠ 0: excluded
  · intro n pc' v ty' s hv s' n2 hs ih Γ pc ty _ hz _
    exact absurd (hz v.id (by simp [Term.binderIds])) hv
  -- xtor
  · intro n pc' name as ty' as' n1 has ih Γ pc ty hc hz hi
    simp only [Term.check, Bool.and_eq_true] at hc
    obtain ⟨_, hc⟩ := hc
    simp only [Term.binderIds] at hz
    simp only [Term.idents] at hi
    simp only [uniquifyTerm, has, Term.annOk, Prog.denv]
    cases ty with
    | i64 => cases hc
    | decl T =>
      simp only at hc ⊢
      cases hd : findDecl (if pc == .prd then P.dataTypes else P.codataTypes) T with
      | none => rw [hd] at hc; cases hc
      | some d =>
        rw [hd] at hc
        simp only at hc ⊢
        cases hsg : findSig d.xtors name with
        | none => rw [hsg] at hc; cases hc
        | some sig =>
          rw [hsg] at hc
          simp only at hc ⊢
          have := ih Γ sig.args hc hz hi
          rw [has] at this
          exact this
  -- xcase
  · intro n pc' ty' cs cl' n1 hcl ih Γ pc ty hc hz hi
    simp only [Term.check, Bool.and_eq_true] at hc
    obtain ⟨_, hc⟩ := hc
    simp only [Term.binderIds] at hz
    simp only [Term.idents] at hi
    simp only [uniquifyTerm, hcl, Term.annOk]
    cases ty with
    | i64 => cases hc
    | decl T =>
      simp only at hc
      cases hd : findDecl (if pc == .prd then P.codataTypes else P.dataTypes) T with
      | none => rw [hd] at hc; cases hc
      | some d =>
        rw [hd] at hc
        simp only [Bool.and_eq_true] at hc
        have := ih Γ d.xtors hc.1 hz hi
        rw [hcl] at this
        exact this
  -- uniquifyClauses
  · intro n Γ sigs _ _ _
    simp [uniquifyClauses, Clauses.annOk]
  · intro n x ctx b r u s' n2 hs cl' n1 hr ihb ihr Γ sigs hc hz hi
    simp only [u] at hs ihb
    simp only [Clauses.check, Bool.and_eq_true] at hc
    obtain ⟨⟨_, hcb⟩, hcr⟩ := hc
    simp only [Clauses.binderIds, List.mem_append] at hz
    simp only [Clauses.idents, IdsLe_append] at hi
    have hzc : ∀ b' ∈ ctx, b'.var.id = 0 := fun b' hb' =>
      hz _ (Or.inl (Or.inl (by simp only [ctxIds, List.mem_map]; exact ⟨b', hb', rfl⟩)))
    have hchi := (stmt_check_chi P b _ hcb).2
    rw [ctxVars_append, List.map_append] at hchi
    have hR := uniquifyCtx_ren ctx n hzc (ctxVars Γ) (Γ.map (·.chi))
    have hok := uniquifyCtx_substOK ctx n hzc
    have hle := uniquifyCtx_le ctx n
    have hren := ren_stmt b hR hok.vp hok.vc hok.gp hok.gc hi.1.2 hchi
    rw [substIfAny_eq] at hs ihb
    have hc' : (substStmt (uniquifyCtx ctx n).varSubst (uniquifyCtx ctx n).covarSubst b).check P
        ((uniquifyCtx ctx n).ctx ++ Γ) = true :=
      check_substStmt P hcb (by simpa only [ctxVars_append] using hren)
        (by rw [ctxSig_append, ctxSig_append, uniquifyCtx_sig]) (uniquifyCtx_tySub ctx n hzc Γ)
    obtain ⟨e, l⟩ := ihb _ hc'
      (by
        rw [binderIds_substStmt _ _ (uniquifyCtx_allVars ctx n).1 (uniquifyCtx_allVars ctx n).2]
        exact fun y hy => hz y (Or.inl (Or.inr hy)))
      (idsLe_substStmt b hok.lp hok.lc (hi.1.2.mono hle))
    rw [hs] at e l
    simp only at e l
    obtain ⟨e2, l2⟩ := ihr Γ sigs hcr (fun y hy => hz y (Or.inr hy))
      (hi.2.mono (Nat.le_trans hle l))
    rw [hr] at e2 l2
    simp only at e2 l2
    simp only [uniquifyClauses, substIfAny_eq, hs, hr, Clauses.annOk, Bool.and_eq_true]
    exact ⟨⟨e, e2⟩, by omega⟩
  -- uniquifyStmt: cut
  · intro n ty p c p' n1 hp c' n2 hc ihp ihc Γ hck hz hi
    simp only [Stmt.check, Bool.and_eq_true] at hck
    simp only [Stmt.binderIds, List.mem_append] at hz
    simp only [Stmt.idents, IdsLe_append] at hi
    obtain ⟨e1, l1⟩ := ihp Γ .prd ty hck.1 (fun x hx => hz x (Or.inl hx)) hi.1
    rw [hp] at e1 l1
    obtain ⟨e2, l2⟩ := ihc Γ .cns ty hck.2 (fun x hx => hz x (Or.inr hx)) (hi.2.mono l1)
    rw [hc] at e2 l2
    simp only at e1 l1 e2 l2
    simp only [uniquifyStmt, hp, hc, Stmt.annOk, Bool.and_eq_true]
    exact ⟨⟨e1, e2⟩, by omega⟩
  -- ifc
  · intro n srt a b t e a' n1 ha b' n2 hb t' n3 ht e' n4 he iha ihb iht ihe Γ hck hz hi
    simp only [Stmt.check, Bool.and_eq_true] at hck
    simp only [Stmt.binderIds, List.mem_append] at hz
    simp only [Stmt.idents, IdsLe_append] at hi
    obtain ⟨e1, l1⟩ := iha Γ .prd .i64 hck.1.1.1 (fun x hx => hz x (Or.inl (Or.inl (Or.inl hx))))
      hi.1.1.1
    rw [ha] at e1 l1
    obtain ⟨e2, l2⟩ := ihb Γ .prd .i64 hck.1.1.2 (fun x hx => hz x (Or.inl (Or.inl (Or.inr hx))))
      (hi.1.1.2.mono l1)
    rw [hb] at e2 l2
    simp only at e1 l1 e2 l2
    obtain ⟨e3, l3⟩ := iht Γ hck.1.2 (fun x hx => hz x (Or.inl (Or.inr hx))) (hi.1.2.mono (by omega))
    rw [ht] at e3 l3
    simp only at e3 l3
    obtain ⟨e4, l4⟩ := ihe Γ hck.2 (fun x hx => hz x (Or.inr hx)) (hi.2.mono (by omega))
    rw [he] at e4 l4
    simp only at e4 l4
    simp only [uniquifyStmt, ha, hb, ht, he, Stmt.annOk, Bool.and_eq_true]
    exact ⟨⟨⟨⟨e1, e2⟩, e3⟩, e4⟩, by omega⟩
  -- ifz
  · intro n srt a t e a' n1 ha t' n3 ht e' n4 he iha iht ihe Γ hck hz hi
    simp only [Stmt.check, Bool.and_eq_true] at hck
    simp only [Stmt.binderIds, List.mem_append] at hz
    simp only [Stmt.idents, IdsLe_append] at hi
    obtain ⟨e1, l1⟩ := iha Γ .prd .i64 hck.1.1 (fun x hx => hz x (Or.inl (Or.inl hx))) hi.1.1
    rw [ha] at e1 l1
    simp only at e1 l1
    obtain ⟨e3, l3⟩ := iht Γ hck.1.2 (fun x hx => hz x (Or.inl (Or.inr hx))) (hi.1.2.mono l1)
    rw [ht] at e3 l3
    simp only at e3 l3
    obtain ⟨e4, l4⟩ := ihe Γ hck.2 (fun x hx => hz x (Or.inr hx)) (hi.2.mono (by omega))
    rw [he] at e4 l4
    simp only at e4 l4
    simp only [uniquifyStmt, ha, ht, he, Stmt.annOk, Bool.and_eq_true]
    exact ⟨⟨⟨e1, e3⟩, e4⟩, by omega⟩
  -- print
  · intro n nl a nx a' n1 ha nx' n2 hn iha ihn Γ hck hz hi
    simp only [Stmt.check, Bool.and_eq_true] at hck
    simp only [Stmt.binderIds, List.mem_append] at hz
    simp only [Stmt.idents, IdsLe_append] at hi
    obtain ⟨e1, l1⟩ := iha Γ .prd .i64 hck.1 (fun x hx => hz x (Or.inl hx)) hi.1
    rw [ha] at e1 l1
    simp only at e1 l1
    obtain ⟨e2, l2⟩ := ihn Γ hck.2 (fun x hx => hz x (Or.inr hx)) (hi.2.mono l1)
    rw [hn] at e2 l2
    simp only at e2 l2
    simp only [uniquifyStmt, ha, hn, Stmt.annOk, Bool.and_eq_true]
    exact ⟨⟨e1, e2⟩, by omega⟩
  -- call
  · intro n f as ty as' n1 has ih Γ hck hz hi
    simp only [Stmt.check] at hck
    simp only [Stmt.binderIds] at hz
    simp only [Stmt.idents] at hi
    simp only [uniquifyStmt, has, Stmt.annOk, Prog.denv]
    cases hd : P.defs.find? (fun d => d.name = f) with
    | none => rw [hd] at hck; cases hck
    | some d =>
      rw [hd] at hck
      simp only [Option.map_some] at hck ⊢
      have := ih Γ d.ctx hck hz hi
      rw [has] at this
      exact this
  -- exit
  · intro n a ty a' n1 ha ih Γ hck hz hi
    simp only [Stmt.check] at hck
    simp only [Stmt.binderIds] at hz
    simp only [Stmt.idents] at hi
    have := ih Γ .prd .i64 hck hz hi
    rw [ha] at this
    simpa only [uniquifyStmt, ha, Stmt.annOk] using this
  -- uniquifyArgs
  · intro n Γ sig _ _ _
    simp [uniquifyArgs, Args.annOk]
  · intro n pc t r t' n1 ht r' n2 hr iht ihr Γ sig hck hz hi
    cases sig with
    | nil => simp [Args.check] at hck
    | cons b bs =>
      simp only [Args.check, Bool.and_eq_true] at hck
      simp only [Args.binderIds, List.mem_append] at hz
      simp only [Args.idents, IdsLe_append] at hi
      obtain ⟨e1, l1⟩ := iht Γ pc b.ty hck.1.2 (fun x hx => hz x (Or.inl hx)) hi.1
      rw [ht] at e1 l1
      simp only at e1 l1
      obtain ⟨e2, l2⟩ := ihr Γ bs hck.2 (fun x hx => hz x (Or.inr hx)) (hi.2.mono l1)
      rw [hr] at e2 l2
      simp only at e2 l2
      simp only [uniquifyArgs, ht, hr, ctxSig, List.map_cons, Args.annOk, Bool.and_eq_true]
      exact ⟨⟨e1, e2⟩, by omega⟩

/-! ## definitions -/

/-- `uniquify` preserves the typing of a definition (checked against the ORIGINAL program `P`;
    the uniquified program has the same `denv`, see below) -/
theorem uniquifyDef_check (d : Def) (n : Nat) (hc : d.body.check P d.ctx = true)
    (h : UniqInput n d) :
    (uniquifyDef d n).1.body.check P (uniquifyDef d n).1.ctx = true := by
  have hR := uniquifyCtx_ren d.ctx n h.ctxZero [] []
  have hok := uniquifyCtx_substOK d.ctx n h.ctxZero
  have hle := uniquifyCtx_le d.ctx n
  simp only [List.append_nil] at hR
  have hren := ren_stmt d.body hR hok.vp hok.vc hok.gp hok.gc h.ids h.chi
  have hsig := uniquifyCtx_sig d.ctx n
  have hT := uniquifyCtx_tySub d.ctx n h.ctxZero []
  simp only [List.append_nil] at hT
  -- the substituted body is well-typed in the renamed context
  have hc' := check_substStmt P hc hren hsig hT
  -- nameless part: `uniquifyDef_alpha`
  obtain ⟨hα, _, _⟩ := uniquifyDef_alpha d n h
  -- annotation part: the functional induction
  have hA := (uniquify_annOk P
    (substStmt (uniquifyCtx d.ctx n).varSubst (uniquifyCtx d.ctx n).covarSubst d.body)
    (uniquifyCtx d.ctx n).maxId _ hc'
    (by
      rw [binderIds_substStmt _ _ (uniquifyCtx_allVars d.ctx n).1 (uniquifyCtx_allVars d.ctx n).2]
      exact h.bindersZero)
    (idsLe_substStmt d.body hok.lp hok.lc (h.ids.mono hle))).1
  have hc0 := hc
  rw [stmt_check_split, Bool.and_eq_true] at hc0
  rw [stmt_check_split, Bool.and_eq_true, ← hα.body]
  refine ⟨?_, ?_⟩
  · have : ctxSig (uniquifyDef d n).1.ctx = ctxSig d.ctx := by
      simp only [uniquifyDef]; exact hsig
    rw [this]; exact hc0.1
  · simpa only [uniquifyDef, substIfAny_eq] using hA

theorem uniquifyDefs_check : ∀ (ds : List Def) (n : Nat),
    (∀ d ∈ ds, d.body.check P d.ctx = true ∧ UniqInput n d) →
    ∀ d' ∈ (uniquifyDefs ds n).1, d'.body.check P d'.ctx = true
  | [], n, _ => by simp [uniquifyDefs]
  | d :: r, n, h => by
    intro d' hd'
    simp only [uniquifyDefs, List.mem_cons] at hd'
    obtain ⟨_, _, hle⟩ := uniquifyDef_alpha d n (h d (by simp)).2
    rcases hd' with rfl | hd'
    · exact uniquifyDef_check P d n (h d (by simp)).1 (h d (by simp)).2
    · exact uniquifyDefs_check r _ (fun d0 hd0 =>
        let hh := h d0 (by simp [hd0])
        ⟨hh.1, hh.2.ctxZero, hh.2.bindersZero, hh.2.ids.mono hle, hh.2.chi⟩) d' hd'

end

/-! ## the uniquified program has the same `denv` -/

theorem uniquifyDefs_sigs : ∀ (ds : List Def) (n : Nat),
    (uniquifyDefs ds n).1.map (fun d => (d.name, ctxSig d.ctx)) =
      ds.map (fun d => (d.name, ctxSig d.ctx))
  | [], n => by simp [uniquifyDefs]
  | d :: r, n => by
    simp only [uniquifyDefs, List.map_cons, uniquifyDefs_sigs r, uniquifyDef, uniquifyCtx_sig]

theorem find_sig_map (f : Ident) : ∀ (ds : List Def),
    (ds.find? (fun d => d.name = f)).map (fun d => ctxSig d.ctx) =
      ((ds.map fun d => (d.name, ctxSig d.ctx)).find? (fun p => p.1 = f)).map (·.2)
  | [] => rfl
  | d :: r => by
    simp only [List.map_cons, List.find?_cons]
    by_cases h : d.name = f
    · simp [h]
    · simp [h, find_sig_map f r]

theorem denv_congr {P Q : Prog} (hd : P.dataTypes = Q.dataTypes)
    (hc : P.codataTypes = Q.codataTypes)
    (hs : P.defs.map (fun d => (d.name, ctxSig d.ctx)) = Q.defs.map (fun d => (d.name, ctxSig d.ctx))) :
    P.denv = Q.denv := by
  simp only [Prog.denv, hd, hc, DEnv.mk.injEq, true_and]
  funext f
  rw [find_sig_map, find_sig_map, hs]

theorem check_congr {P Q : Prog} (h : P.denv = Q.denv) (s : Stmt) (Γ : Ctx) :
    s.check P Γ = s.check Q Γ := by
  rw [stmt_check_split, stmt_check_split, h]

theorem uniquifyProg_denv (p : Prog) : (uniquifyProg p).denv = p.denv :=
  denv_congr rfl rfl (by simp only [uniquifyProg]; exact uniquifyDefs_sigs p.defs p.maxId)

/-! ## programs -/

/-- **`uniquify` preserves Core typing** (on C03's inputs) -/
theorem uniquifyProg_wellTyped (p : Prog) (ht : p.wellTyped = true) (hz : p.BindersZero)
    (ho : p.OccsOld) : (uniquifyProg p).wellTyped = true := by
  have hin := uniqInput_of_typed p ht hz ho
  have ht' := ht
  simp only [Prog.wellTyped, List.all_eq_true] at ht' ⊢
  intro d' hd'
  rw [check_congr (uniquifyProg_denv p)]
  exact uniquifyDefs_check p p.defs p.maxId (fun d hd => ⟨ht' d hd, hin d hd⟩) d' hd'

/-- `uniquify` preserves strictness of the bodies -/
theorem uniquifyProg_strict (p : Prog) (ht : p.wellTyped = true) (hz : p.BindersZero)
    (ho : p.OccsOld) (hs : ∀ d ∈ p.defs, d.body.strict p = true) :
    ∀ d' ∈ (uniquifyProg p).defs, d'.body.strict (uniquifyProg p) = true := by
  have hα := (uniquifyProg_alpha p (uniqInput_of_typed p ht hz ho)).1
  refine DefsAlpha.forall_body (Q := fun d => d.body.strict (uniquifyProg p) = true) ?_ hα ?_
  · intro d d' h hq
    rw [← stmt_strict_db _ _ (ctxVars d'.ctx), ← h.body, stmt_strict_db]
    exact hq
  · intro d hd
    rw [← stmt_strict_db _ _ [], dstmt_strict_congr (P := uniquifyProg p) (Q := p) rfl rfl,
      stmt_strict_db]
    exact hs d hd

theorem uniquifyProg_strictOk (p : Prog) (ht : p.wellTyped = true) (hz : p.BindersZero)
    (ho : p.OccsOld) (hs : p.strictOk = true) : (uniquifyProg p).strictOk = true := by
  simp only [Prog.strictOk, Bool.and_eq_true, List.all_eq_true] at hs ⊢
  exact ⟨hs.1, uniquifyProg_strict p ht hz ho hs.2⟩

end Scc.Core
