/-
  Scc.Core.TypedFocusWt — proof file: static focusing maps Core-well-typed (`Stmt.check`), strict
  (`Stmt.strict`, Scc/Core/TypedStrict.lean) statements to statements passing the environment-free
  shape typing `Scc.Core2AxCut.wtStmt` of focused Core, in the typing environment `coreTEnv P` read
  off the unfocused program (`focusStmt_wt`).
  Hypotheses on the program: no name is declared both as data and codata type (`typesDisjoint`), the
  xtor names of every declaration are pairwise distinct (`TypeDecl.xtorsDistinct`).
  Proof: functional induction `focusStmt.induct` with five motives (focusTerm, focusClauses,
  focusStmt, bindTerm, bindMany); no counters / freshness are needed since `wt*` ignore scoping.
-/
import Scc.Core.TypedStrict
import Scc.Core.Focus
import Scc.Core2AxCut.Proofs
import Scc.Pipeline.FocusNoPanic

namespace Scc.Core

open Scc.Pipeline
open Scc.Core2AxCut (wtTerm wtStmt wtClauses declOf tyOk sigMatch isCodata contInt)

/-- the typing environment of the focused program, read off the unfocused one -/
def coreTEnv (P : Prog) : Core2AxCut.TEnv :=
  ⟨P.dataTypes ++ [Core2AxCut.contInt], P.codataTypes, P.defs.map fun d => (d.name, d.ctx)⟩

/-! ## bridging lemmas between `Scc.Core.Typing` and `Scc.Core2AxCut.FsTyping` -/

theorem ctxMatches_eq_sigMatch : ∀ (a b : Ctx), ctxMatches a b = sigMatch a b
  | [], [] => rfl
  | [], _ :: _ => rfl
  | _ :: _, [] => rfl
  | a :: as, b :: bs => by simp only [ctxMatches, sigMatch, ctxMatches_eq_sigMatch as bs]

theorem findDecl_eq_beq (ds : List TypeDecl) (T : Ident) :
    findDecl ds T = ds.find? (fun d => d.name == T) := by
  unfold findDecl
  congr 1
  funext d
  by_cases h : d.name = T <;> simp [h]

theorem findSig_eq_beq (sigs : List XtorSig) (x : Ident) :
    Core.findSig sigs x = sigs.find? (fun s => s.name == x) := by
  unfold Core.findSig
  congr 1
  funext d
  by_cases h : d.name = x <;> simp [h]

theorem findSig_of_nodup : ∀ (sigs : List XtorSig), (sigs.map (·.name)).Nodup →
    ∀ s ∈ sigs, Core.findSig sigs s.name = some s
  | [], _, s, hs => by simp at hs
  | a :: r, hn, s, hs => by
    simp only [List.map_cons, List.nodup_cons, List.mem_map, not_exists, not_and] at hn
    simp only [List.mem_cons] at hs
    unfold Core.findSig
    rcases hs with rfl | hs
    · simp
    · have hne : ¬ a.name = s.name := fun e => hn.1 s hs e.symm
      rw [List.find?_cons_of_neg (by simpa using hne)]
      exact findSig_of_nodup r hn.2 s hs

theorem xtors_nodup_of_find {l : List TypeDecl} (hl : ∀ d ∈ l, d.xtorsDistinct = true)
    {T : Ident} {d : TypeDecl} (h : findDecl l T = some d) : (d.xtors.map (·.name)).Nodup := by
  have := hl d (findDecl_name h).1
  simpa [TypeDecl.xtorsDistinct] using this

theorem isCodata_of_find {P : Prog} {T : Ident} {d : TypeDecl}
    (h : findDecl P.codataTypes T = some d) : isCodata P.codataTypes (.decl T) = true := by
  obtain ⟨hm, hn⟩ := findDecl_name h
  simp only [isCodata, List.any_eq_true]
  exact ⟨d, hm, by simp [hn]⟩

theorem isCodata_false_of_data {P : Prog} (hd : typesDisjoint P = true) {T : Ident} {d : TypeDecl}
    (h : findDecl P.dataTypes T = some d) : isCodata P.codataTypes (.decl T) = false := by
  obtain ⟨hm, hn⟩ := findDecl_name h
  cases hc : isCodata P.codataTypes (.decl T) with
  | false => rfl
  | true =>
    simp only [isCodata, List.any_eq_true, beq_iff_eq] at hc
    obtain ⟨c, hcm, hcn⟩ := hc
    simp only [typesDisjoint, List.all_eq_true, decide_eq_true_eq] at hd
    exact absurd (hn.trans hcn.symm) (hd d hm c hcm)

theorem declOf_data {P : Prog} (hd : typesDisjoint P = true) {T : Ident} {d : TypeDecl}
    (h : findDecl P.dataTypes T = some d) : declOf (coreTEnv P) (.decl T) = some d := by
  have hc := isCodata_false_of_data hd h
  rw [findDecl_eq_beq] at h
  simp only [declOf, coreTEnv, hc, Bool.false_eq_true, if_false, List.find?_append, h, Option.some_or]

theorem declOf_codata {P : Prog} {T : Ident} {d : TypeDecl}
    (h : findDecl P.codataTypes T = some d) : declOf (coreTEnv P) (.decl T) = some d := by
  have hc := isCodata_of_find h
  rw [findDecl_eq_beq] at h
  simp only [declOf, coreTEnv, hc, if_true, h]

theorem tyOk_data {P : Prog} (hd : typesDisjoint P = true) {T : Ident} {d : TypeDecl}
    (h : findDecl P.dataTypes T = some d) : tyOk (coreTEnv P) (.decl T) = true := by
  simp only [tyOk, declOf_data hd h, Option.isSome_some]

theorem tyOk_codata {P : Prog} {T : Ident} {d : TypeDecl}
    (h : findDecl P.codataTypes T = some d) : tyOk (coreTEnv P) (.decl T) = true := by
  simp only [tyOk, declOf_codata h, Option.isSome_some]

theorem tyOk_of_declared {P : Prog} (hd : typesDisjoint P = true) {ty : Ty}
    (h : tyDeclared P ty = true) : tyOk (coreTEnv P) ty = true := by
  cases ty with
  | i64 => rfl
  | decl T =>
    simp only [tyDeclared, Bool.or_eq_true, Option.isSome_iff_exists] at h
    rcases h with ⟨d, h⟩ | ⟨d, h⟩
    · exact tyOk_data hd h
    · exact tyOk_codata h

theorem findSig_defs {P : Prog} {f : Ident} {d : Def}
    (h : P.defs.find? (fun d => d.name = f) = some d) :
    Core2AxCut.findSig (coreTEnv P).sigs f = some d.ctx := by
  have h' : P.defs.find? ((fun p : Ident × Ctx => p.1 == f) ∘ fun d : Def => (d.name, d.ctx)) = some d := by
    rw [← h]
    congr 1
    funext d
    by_cases h : d.name = f <;> simp [h]
  simp only [Core2AxCut.findSig, coreTEnv, List.find?_map, h', Option.map_some]

/-! ## inversion of `Term.check` / `Term.strict` -/

theorem xtor_check_inv {P : Prog} {Γ : Ctx} {pc pc' : PC} {ty ty' : Ty} {name : Ident} {as : Args}
    (h : (Term.xtor pc' name as ty').check P Γ pc ty = true) :
    pc' = pc ∧ ty' = ty ∧ ∃ T d sig, ty = .decl T ∧
      findDecl (if pc == .prd then P.dataTypes else P.codataTypes) T = some d ∧
      Core.findSig d.xtors name = some sig ∧ as.check P Γ sig.args = true := by
  simp only [Term.check, Bool.and_eq_true] at h
  obtain ⟨⟨h1, h2⟩, h⟩ := h
  refine ⟨eq_of_beq h1, eq_of_beq h2, ?_⟩
  cases ty with
  | i64 => simp at h
  | decl T =>
    simp only at h
    split at h
    · simp at h
    · rename_i d hf
      split at h
      · simp at h
      · rename_i sig hsig
        exact ⟨T, d, sig, rfl, hf, hsig, h⟩

theorem xcase_check_inv {P : Prog} {Γ : Ctx} {pc pc' : PC} {ty ty' : Ty} {cl : Clauses}
    (h : (Term.xcase pc' ty' cl).check P Γ pc ty = true) :
    pc' = pc ∧ ty' = ty ∧ ∃ T d, ty = .decl T ∧
      findDecl (if pc == .prd then P.codataTypes else P.dataTypes) T = some d ∧
      cl.check P Γ d.xtors = true := by
  simp only [Term.check, Bool.and_eq_true] at h
  obtain ⟨⟨h1, h2⟩, h⟩ := h
  refine ⟨eq_of_beq h1, eq_of_beq h2, ?_⟩
  cases ty with
  | i64 => simp at h
  | decl T =>
    simp only at h
    split at h
    · simp at h
    · rename_i d hf
      simp only [Bool.and_eq_true] at h
      exact ⟨T, d, rfl, hf, h.1⟩

theorem xcase_strict_inv {P : Prog} {pc : PC} {T : Ident} {cl : Clauses} {d : TypeDecl}
    (hs : (Term.xcase pc (.decl T) cl).strict P = true)
    (hf : findDecl (if pc == .prd then P.codataTypes else P.dataTypes) T = some d) :
    cl.tags = d.xtors.map (·.name) ∧ cl.strict P = true := by
  simp only [Term.strict, hf, Bool.and_eq_true, decide_eq_true_eq] at hs
  exact hs

theorem cns_not_op {P : Prog} {Γ : Ctx} {ty : Ty} {c : Term} (h : c.check P Γ .cns ty = true) :
    ∀ a o b, c ≠ .op a o b := by
  intro a o b e
  subst e
  simp [Term.check] at h

/-- `⟨K(..) | D(..)⟩` is ill-typed when data and codata type names are disjoint -/
theorem xtor_xtor_false {P : Prog} (hd : typesDisjoint P = true) {Γ : Ctx} {ty : Ty}
    {pc1 pc2 : PC} {n1 n2 : Ident} {as1 as2 : Args} {t1 t2 : Ty}
    (hp : (Term.xtor pc1 n1 as1 t1).check P Γ .prd ty = true)
    (hc : (Term.xtor pc2 n2 as2 t2).check P Γ .cns ty = true) : False := by
  obtain ⟨T1, d1, e1, f1⟩ := xtor_check_decl hp
  obtain ⟨T2, d2, e2, f2⟩ := xtor_check_decl hc
  rw [e1] at e2
  injection e2 with e2
  subst e2
  rw [if_pos (by decide : (PC.prd == PC.prd) = true)] at f1
  rw [if_neg (by decide : ¬ (PC.cns == PC.prd) = true)] at f2
  exact disjoint_find hd f1 f2

/-! ## typing of the focused xtor / xcase and of the cut types -/

section
variable {P : Prog} (hd : typesDisjoint P = true)
include hd

theorem tyOk_xtor_side {pc : PC} {T : Ident} {d : TypeDecl}
    (hf : findDecl (if pc == .prd then P.dataTypes else P.codataTypes) T = some d) :
    tyOk (coreTEnv P) (.decl T) = true := by
  cases pc
  · exact tyOk_data hd (by simpa using hf)
  · exact tyOk_codata (by simpa using hf)

theorem tyOk_xcase_side {pc : PC} {T : Ident} {d : TypeDecl}
    (hf : findDecl (if pc == .prd then P.codataTypes else P.dataTypes) T = some d) :
    tyOk (coreTEnv P) (.decl T) = true := by
  cases pc
  · exact tyOk_codata (by simpa using hf)
  · exact tyOk_data hd (by simpa using hf)

theorem wt_xtor {pc : PC} {T name : Ident} {d : TypeDecl} {sig : XtorSig} {bs : Ctx}
    (hf : findDecl (if pc == .prd then P.dataTypes else P.codataTypes) T = some d)
    (hsig : Core.findSig d.xtors name = some sig) (hm : sigMatch bs sig.args = true) :
    wtTerm (coreTEnv P) pc (.decl T) (.xtor pc name bs (.decl T)) = true := by
  rw [findSig_eq_beq] at hsig
  cases pc
  · have hf' : findDecl P.dataTypes T = some d := by simpa using hf
    have h1 := declOf_data hd hf'
    have h2 : isCodata (coreTEnv P).codata (.decl T) = false := isCodata_false_of_data hd hf'
    simp [wtTerm, h1, h2, hsig, hm]
  · have hf' : findDecl P.codataTypes T = some d := by simpa using hf
    have h1 := declOf_codata hf'
    have h2 : isCodata (coreTEnv P).codata (.decl T) = true := isCodata_of_find hf'
    simp [wtTerm, h1, h2, hsig, hm]

theorem wt_xcase {pc : PC} {T : Ident} {d : TypeDecl} {cl' : FsClauses}
    (hf : findDecl (if pc == .prd then P.codataTypes else P.dataTypes) T = some d)
    (hcl : wtClauses (coreTEnv P) d.xtors cl' = true) :
    wtTerm (coreTEnv P) pc (.decl T) (.xcase pc (.decl T) cl') = true := by
  cases pc
  · have hf' : findDecl P.codataTypes T = some d := by simpa using hf
    have h1 := declOf_codata hf'
    have h2 : isCodata (coreTEnv P).codata (.decl T) = true := isCodata_of_find hf'
    simp [wtTerm, h1, h2, hcl]
  · have hf' : findDecl P.dataTypes T = some d := by simpa using hf
    have h1 := declOf_data hd hf'
    have h2 : isCodata (coreTEnv P).codata (.decl T) = false := isCodata_false_of_data hd hf'
    simp [wtTerm, h1, h2, hcl]

end

theorem wtTerm_mu (E : Core2AxCut.TEnv) (pc : PC) (v : Ident) (ty : Ty) (r : FsStmt) :
    wtTerm E pc ty (.mu pc v ty r) = wtStmt E r := by
  simp [wtTerm]

/-! ## the induction -/

section
variable {P : Prog} (hd : typesDisjoint P = true)
  (hxd : ∀ d ∈ P.dataTypes, d.xtorsDistinct = true)
  (hxc : ∀ d ∈ P.codataTypes, d.xtorsDistinct = true)

private def W1 (P : Prog) (t : Term) (n : Nat) : Prop :=
  ∀ Γ pc ty, t.check P Γ pc ty = true → t.strict P = true →
    (∀ a o b, t ≠ .op a o b) → (∀ pc n as ty, t ≠ .xtor pc n as ty) →
    wtTerm (coreTEnv P) pc ty (focusTerm t n).1 = true
private def W2 (P : Prog) (cl : Clauses) (n : Nat) : Prop :=
  ∀ Γ (all sigs : List XtorSig), cl.check P Γ all = true → cl.strict P = true →
    cl.tags = sigs.map (·.name) → (∀ s ∈ sigs, Core.findSig all s.name = some s) →
    wtClauses (coreTEnv P) sigs (focusClauses cl n).1 = true
private def W3 (P : Prog) (s : Stmt) (n : Nat) : Prop :=
  ∀ Γ, s.check P Γ = true → s.strict P = true → wtStmt (coreTEnv P) (focusStmt s n).1 = true
private def W4 (P : Prog) (t : Term) (k : Cont) (n : Nat) : Prop :=
  ∀ Γ pc ty, t.check P Γ pc ty = true → t.strict P = true →
    (∀ b m, b.chi = pc → b.ty = ty → wtStmt (coreTEnv P) (k b m).1 = true) →
    wtStmt (coreTEnv P) (bindTerm t k n).1 = true
private def W5 (P : Prog) (as : Args) (k : ContVec) (n : Nat) : Prop :=
  ∀ Γ sig, as.check P Γ sig = true → as.strict P = true →
    (∀ bs m, sigMatch bs sig = true → wtStmt (coreTEnv P) (k bs m).1 = true) →
    wtStmt (coreTEnv P) (bindMany as k n).1 = true

include hxd hxc in
theorem xcase_nodup {pc : PC} {T : Ident} {d : TypeDecl}
    (hf : findDecl (if pc == .prd then P.codataTypes else P.dataTypes) T = some d) :
    (d.xtors.map (·.name)).Nodup := by
  cases pc
  · exact xtors_nodup_of_find hxc (by simpa using hf)
  · exact xtors_nodup_of_find hxd (by simpa using hf)

include hd hxd hxc in
theorem focusStmt_W3 (s : Stmt) (n : Nat) : W3 P s n := by
  apply focusStmt.induct (motive_1 := W1 P) (motive_2 := W2 P) (motive_3 := W3 P)
    (motive_4 := W4 P) (motive_5 := W5 P)
  -- focusTerm: var, lit, op, mu, xtor, xcase
  · intro pc v ty n Γ pc0 ty0 h _ _ _
    simp only [Term.check, Bool.and_eq_true] at h
    simp only [focusTerm, wtTerm, h.1.1, h.1.2, Bool.and_self]
  · intro k n Γ pc0 ty0 h _ _ _
    simpa only [focusTerm, wtTerm, Term.check] using h
  · intro a o b n Γ pc0 ty0 _ _ hno _
    exact absurd rfl (hno a o b)
  · intro pc v ty s n s' n1 heq ih Γ pc0 ty0 h hs _ _
    simp only [Term.check, Bool.and_eq_true] at h
    simp only [Term.strict, Bool.and_eq_true] at hs
    have := ih _ h.2 hs.2
    rw [heq] at this
    simp only [focusTerm, heq, wtTerm, h.1.1, h.1.2, this, Bool.and_self]
  · intro pc name as ty n Γ pc0 ty0 _ _ _ hnx
    exact absurd rfl (hnx pc name as ty)
  · intro pc ty cl n cl' n1 heq ih Γ pc0 ty0 h hs _ _
    obtain ⟨rfl, rfl, T, d, rfl, hf, hcl⟩ := xcase_check_inv h
    obtain ⟨htags, hst⟩ := xcase_strict_inv hs hf
    have := ih Γ d.xtors d.xtors hcl hst htags (findSig_of_nodup _ (xcase_nodup hxd hxc hf))
    rw [heq] at this
    simp only [focusTerm, heq]
    exact wt_xcase hd hf this
  -- bindTerm: var, lit, op, mu prd, mu cns, xtor prd, xtor cns, xcase prd, xcase cns
  · intro pc v ty k n Γ pc0 ty0 h _ hk
    simp only [Term.check, Bool.and_eq_true, beq_iff_eq] at h
    simp only [bindTerm]
    exact hk _ n h.1.1 h.1.2
  · intro i k n x n1 hfresh r n2 hkeq Γ pc0 ty0 h _ hk
    simp only [Term.check, Bool.and_eq_true, beq_iff_eq] at h
    obtain ⟨rfl, rfl⟩ := h
    have := hk ⟨x, .prd, .i64⟩ n1 rfl rfl
    rw [hkeq] at this
    simp only [bindTerm, hfresh, hkeq, wtStmt, wtTerm, tyOk, this, beq_self_eq_true, Bool.and_self]
  · intro a o b k n ih1 ih2 Γ pc0 ty0 h hs hk
    simp only [Term.check, Bool.and_eq_true, beq_iff_eq] at h
    obtain ⟨⟨⟨rfl, rfl⟩, ha⟩, hb⟩ := h
    simp only [Term.strict, Bool.and_eq_true] at hs
    simp only [bindTerm]
    apply ih2 Γ .prd .i64 ha hs.1
    intro b1 m1 _ _
    apply ih1 b1 m1 Γ .prd .i64 hb hs.2
    intro b2 m2 _ _
    have := hk ⟨(freshVar m2).1, .prd, .i64⟩ (freshVar m2).2 rfl rfl
    simp only [wtStmt, wtTerm, tyOk, this, beq_self_eq_true, Bool.and_self]
  · intro v ty s k n x n1 hfresh s' n2 hseq r n3 hkeq ih Γ pc0 ty0 h hs hk
    simp only [Term.check, Bool.and_eq_true, beq_iff_eq] at h
    obtain ⟨⟨rfl, rfl⟩, hc⟩ := h
    simp only [Term.strict, Bool.and_eq_true] at hs
    have h1 := ih _ hc hs.2
    rw [hseq] at h1
    have h2 := hk ⟨x, .prd, ty⟩ n2 rfl rfl
    rw [hkeq] at h2
    simp only [bindTerm, hfresh, hseq, hkeq, wtStmt, wtTerm, tyOk_of_declared hd hs.1, h1, h2,
      beq_self_eq_true, Bool.and_self]
  · intro v ty s k n x n1 hfresh r n2 hkeq s' n3 hseq ih Γ pc0 ty0 h hs hk
    simp only [Term.check, Bool.and_eq_true, beq_iff_eq] at h
    obtain ⟨⟨rfl, rfl⟩, hc⟩ := h
    simp only [Term.strict, Bool.and_eq_true] at hs
    have h1 := ih _ hc hs.2
    rw [hseq] at h1
    have h2 := hk ⟨x, .cns, ty⟩ n1 rfl rfl
    rw [hkeq] at h2
    simp only [bindTerm, hfresh, hseq, hkeq, wtStmt, wtTerm, tyOk_of_declared hd hs.1, h1, h2,
      beq_self_eq_true, Bool.and_self]
  · intro name as ty k n ih Γ pc0 ty0 h hs hk
    obtain ⟨rfl, rfl, T, d, sig, rfl, hf, hsig, has⟩ := xtor_check_inv h
    simp only [Term.strict] at hs
    simp only [bindTerm]
    apply ih Γ sig.args has hs
    intro bs m hm
    have h1 := hk ⟨(freshVar m).1, .prd, .decl T⟩ (freshVar m).2 rfl rfl
    have h2 := wt_xtor hd hf hsig hm
    simp only [wtStmt, wtTerm_mu, tyOk_xtor_side hd hf, h1, h2, Bool.and_self]
  · intro name as ty k n ih Γ pc0 ty0 h hs hk
    obtain ⟨rfl, rfl, T, d, sig, rfl, hf, hsig, has⟩ := xtor_check_inv h
    simp only [Term.strict] at hs
    simp only [bindTerm]
    apply ih Γ sig.args has hs
    intro bs m hm
    have h1 := hk ⟨(freshCovar m).1, .cns, .decl T⟩ (freshCovar m).2 rfl rfl
    have h2 := wt_xtor hd hf hsig hm
    simp only [wtStmt, wtTerm_mu, tyOk_xtor_side hd hf, h1, h2, Bool.and_self]
  · intro ty cl k n x n1 hfresh r n2 hkeq cl' n3 hceq ih Γ pc0 ty0 h hs hk
    obtain ⟨rfl, rfl, T, d, rfl, hf, hcl⟩ := xcase_check_inv h
    obtain ⟨htags, hst⟩ := xcase_strict_inv hs hf
    have h1 := ih Γ d.xtors d.xtors hcl hst htags (findSig_of_nodup _ (xcase_nodup hxd hxc hf))
    rw [hceq] at h1
    have h2 := hk ⟨x, .prd, .decl T⟩ n1 rfl rfl
    rw [hkeq] at h2
    have h3 := wt_xcase hd hf h1
    simp only [bindTerm, hfresh, hceq, hkeq, wtStmt, wtTerm_mu, tyOk_xcase_side hd hf, h2, h3,
      Bool.and_self]
  · intro ty cl k n x n1 hfresh r n2 hkeq cl' n3 hceq ih Γ pc0 ty0 h hs hk
    obtain ⟨rfl, rfl, T, d, rfl, hf, hcl⟩ := xcase_check_inv h
    obtain ⟨htags, hst⟩ := xcase_strict_inv hs hf
    have h1 := ih Γ d.xtors d.xtors hcl hst htags (findSig_of_nodup _ (xcase_nodup hxd hxc hf))
    rw [hceq] at h1
    have h2 := hk ⟨x, .cns, .decl T⟩ n1 rfl rfl
    rw [hkeq] at h2
    have h3 := wt_xcase hd hf h1
    simp only [bindTerm, hfresh, hceq, hkeq, wtStmt, wtTerm_mu, tyOk_xcase_side hd hf, h2, h3,
      Bool.and_self]
  -- bindMany: nil, cons
  · intro k n Γ sig h _ hk
    cases sig with
    | nil =>
      simp only [bindMany]
      exact hk [] n rfl
    | cons _ _ => simp [Args.check] at h
  · intro pc t r k n ih1 ih2 Γ sig h hs hk
    cases sig with
    | nil => simp [Args.check] at h
    | cons b0 bs0 =>
      simp only [Args.check, Bool.and_eq_true, beq_iff_eq] at h
      obtain ⟨⟨hpc, ht⟩, hr⟩ := h
      simp only [Args.strict, Bool.and_eq_true] at hs
      simp only [bindMany]
      apply ih2 Γ pc b0.ty ht hs.1
      intro b m hchi hty
      apply ih1 b m Γ bs0 hr hs.2
      intro bs m2 hm
      apply hk
      simp only [sigMatch, hchi, hpc, hty, hm, beq_self_eq_true, Bool.and_self]
  -- focusClauses: nil, cons
  · intro n Γ all sigs _ _ htags _
    cases sigs with
    | nil => simp only [focusClauses, wtClauses]
    | cons _ _ => simp [Clauses.tags] at htags
  · intro x ctx b r n b' n1 hb r' n2 hr ihb ihr Γ all sigs h hs htags hall
    cases sigs with
    | nil => simp [Clauses.tags] at htags
    | cons s0 rest =>
      simp only [Clauses.tags, List.map_cons, List.cons.injEq] at htags
      obtain ⟨rfl, htags⟩ := htags
      simp only [Clauses.check, Bool.and_eq_true] at h
      obtain ⟨⟨hm, hbc⟩, hrc⟩ := h
      rw [hall s0 (List.mem_cons_self ..)] at hm
      simp only [ctxMatches_eq_sigMatch] at hm
      simp only [Clauses.strict, Bool.and_eq_true] at hs
      have h1 := ihb _ hbc hs.1
      rw [hb] at h1
      have h2 := ihr Γ all rest hrc hs.2 htags (fun s hs => hall s (List.mem_cons_of_mem _ hs))
      rw [hr] at h2
      simp only [focusClauses, hb, hr, wtClauses, hm, h1, h2, beq_self_eq_true, Bool.and_self]
  -- focusStmt: cut (four arms)
  · intro ty pc name as ty1 c n ihc ih5 Γ h hs
    simp only [Stmt.check, Bool.and_eq_true] at h
    obtain ⟨hp, hc⟩ := h
    simp only [Stmt.strict, Term.strict, Bool.and_eq_true] at hs
    obtain ⟨rfl, rfl, T, d, sig, rfl, hf, hsig, has⟩ := xtor_check_inv hp
    simp only [focusStmt]
    apply ih5 Γ sig.args has hs.1.2
    intro bs m hm
    have hnx : ∀ pc n as ty, c ≠ .xtor pc n as ty := by
      intro pc2 n2 as2 t2 e
      subst e
      exact xtor_xtor_false hd hp hc
    have h1 := ihc m Γ .cns (.decl T) hc hs.2 (cns_not_op hc) hnx
    have h2 := wt_xtor hd hf hsig hm
    simp only [wtStmt, tyOk_xtor_side hd hf, h1, h2, Bool.and_self]
  · intro ty p dpc name as ty1 n hnx ihp ih5 Γ h hs
    simp only [Stmt.check, Bool.and_eq_true] at h
    obtain ⟨hp, hc⟩ := h
    simp only [Stmt.strict, Term.strict, Bool.and_eq_true] at hs
    obtain ⟨rfl, rfl, T, d, sig, rfl, hf, hsig, has⟩ := xtor_check_inv hc
    rw [focusStmt.eq_2 _ _ _ _ _ _ _ hnx]
    apply ih5 Γ sig.args has hs.2
    intro bs m hm
    have hnop : ∀ a o b, p ≠ .op a o b := by
      intro a o b e
      subst e
      simp [Term.check] at hp
    have h1 := ihp m Γ .prd (.decl T) hp hs.1.2 hnop hnx
    have h2 := wt_xtor hd hf hsig hm
    simp only [wtStmt, tyOk_xtor_side hd hf, h1, h2, Bool.and_self]
  · intro ty a o b c n hnx ihc ih1 ih2 Γ h hs
    simp only [Stmt.check, Term.check, Bool.and_eq_true, beq_iff_eq] at h
    obtain ⟨⟨⟨⟨_, rfl⟩, ha⟩, hb⟩, hc⟩ := h
    simp only [Stmt.strict, Term.strict, Bool.and_eq_true] at hs
    rw [focusStmt.eq_3 _ _ _ _ _ _ hnx]
    apply ih2 Γ .prd .i64 ha hs.1.2.1
    intro b1 m1 _ _
    apply ih1 b1 m1 Γ .prd .i64 hb hs.1.2.2
    intro b2 m2 _ _
    have h1 := ihc m2 Γ .cns .i64 hc hs.2 (cns_not_op hc) hnx
    simp only [wtStmt, wtTerm, tyOk, h1, beq_self_eq_true, Bool.and_self]
  · intro ty p c n hnp hnc hnop p' n1 hp c' n2 hc ihp ihc Γ h hs
    simp only [Stmt.check, Bool.and_eq_true] at h
    simp only [Stmt.strict, Bool.and_eq_true] at hs
    rw [focusStmt.eq_4 _ _ _ _ hnp hnc hnop]
    have h1 := ihp Γ .prd ty h.1 hs.1.2 hnop hnp
    have h2 := ihc Γ .cns ty h.2 hs.2 (cns_not_op h.2) hnc
    rw [hp] at h1
    rw [hc] at h2
    simp only [hp, hc, wtStmt, tyOk_of_declared hd hs.1.1, h1, h2, Bool.and_self]
  -- focusStmt: ifc, ifz, print, call, exit
  · intro srt a b t e n iht ihe ih1 ih2 Γ h hs
    simp only [Stmt.check, Bool.and_eq_true] at h
    obtain ⟨⟨⟨ha, hb⟩, ht⟩, he⟩ := h
    simp only [Stmt.strict, Bool.and_eq_true] at hs
    obtain ⟨⟨⟨sa, sb⟩, st⟩, se⟩ := hs
    simp only [focusStmt]
    apply ih2 Γ .prd .i64 ha sa
    intro b1 m1 _ _
    apply ih1 b1 m1 Γ .prd .i64 hb sb
    intro b2 m2 _ _
    have h1 := iht m2 Γ ht st
    have h2 := ihe (focusStmt t m2).2 Γ he se
    simp only [wtStmt, h1, h2, Bool.and_self]
  · intro srt a t e n iht ihe ih1 Γ h hs
    simp only [Stmt.check, Bool.and_eq_true] at h
    obtain ⟨⟨ha, ht⟩, he⟩ := h
    simp only [Stmt.strict, Bool.and_eq_true] at hs
    obtain ⟨⟨sa, st⟩, se⟩ := hs
    simp only [focusStmt]
    apply ih1 Γ .prd .i64 ha sa
    intro b1 m1 _ _
    have h1 := iht m1 Γ ht st
    have h2 := ihe (focusStmt t m1).2 Γ he se
    simp only [wtStmt, h1, h2, Bool.and_self]
  · intro nl a nx n ihn ih1 Γ h hs
    simp only [Stmt.check, Bool.and_eq_true] at h
    simp only [Stmt.strict, Bool.and_eq_true] at hs
    simp only [focusStmt]
    apply ih1 Γ .prd .i64 h.1 hs.1
    intro b1 m1 _ _
    have h1 := ihn m1 Γ h.2 hs.2
    simp only [wtStmt, h1]
  · intro f as ty n ih5 Γ h hs
    simp only [Stmt.check] at h
    simp only [Stmt.strict] at hs
    split at h
    · simp at h
    · rename_i d hfd
      simp only [focusStmt]
      apply ih5 Γ d.ctx h hs
      intro bs m hm
      simp only [wtStmt, findSig_defs hfd, hm]
  · intro a ty n ih4 Γ h hs
    simp only [Stmt.check] at h
    simp only [Stmt.strict] at hs
    simp only [focusStmt]
    apply ih4 Γ .prd .i64 h hs
    intro b m _ _
    simp only [wtStmt]

end

/-- **static focusing maps Core-well-typed, strict statements to shape-typed focused statements** -/
theorem focusStmt_wt {P : Prog} (hd : Scc.Pipeline.typesDisjoint P = true)
    (hxd : ∀ d ∈ P.dataTypes, d.xtorsDistinct = true) (hxc : ∀ d ∈ P.codataTypes, d.xtorsDistinct = true)
    (s : Stmt) (n : Nat) (Γ : Ctx) :
    s.check P Γ = true → s.strict P = true →
    Core2AxCut.wtStmt (coreTEnv P) (focusStmt s n).1 = true :=
  fun h hs => focusStmt_W3 hd hxd hxc s n Γ h hs

/-! ## non-vacuity: a program with a data type, a constructor call and a case -/

private def exList : Ident := ⟨"List", 0⟩
private def exProg : Prog :=
  { defs := [⟨⟨"main", 0⟩, [],
      .cut (.decl exList)
        (.xtor .prd ⟨"Cons", 0⟩ (.cons .prd (.op (.lit 1) .sum (.lit 2))
          (.cons .prd (.xtor .prd ⟨"Nil", 0⟩ .nil (.decl exList)) .nil)) (.decl exList))
        (.xcase .cns (.decl exList)
          (.cons ⟨"Nil", 0⟩ [] (.exit (.lit 0) .i64)
          (.cons ⟨"Cons", 0⟩ [⟨⟨"x", 1⟩, .prd, .i64⟩, ⟨⟨"xs", 2⟩, .prd, .decl exList⟩]
            (.exit (.var .prd ⟨"x", 1⟩ .i64) .i64) .nil)))⟩],
    dataTypes := [⟨exList, [⟨⟨"Nil", 0⟩, []⟩,
      ⟨⟨"Cons", 0⟩, [⟨⟨"x", 0⟩, .prd, .i64⟩, ⟨⟨"xs", 0⟩, .prd, .decl exList⟩]⟩]⟩],
    codataTypes := [⟨⟨"Fun", 0⟩, [⟨⟨"Ap", 0⟩, [⟨⟨"x", 0⟩, .prd, .i64⟩, ⟨⟨"a", 0⟩, .cns, .i64⟩]⟩]⟩],
    maxId := 2 }

example : typesDisjoint exProg = true ∧ (∀ d ∈ exProg.dataTypes, d.xtorsDistinct = true) ∧
    (∀ d ∈ exProg.codataTypes, d.xtorsDistinct = true) ∧
    (∀ d ∈ exProg.defs, d.body.check exProg d.ctx = true ∧ d.body.strict exProg = true) := by
  decide

/-- the theorem applied to the example (and the conclusion also holds by evaluation) -/
example : ∀ d ∈ exProg.defs, wtStmt (coreTEnv exProg) (focusStmt d.body exProg.maxId).1 = true :=
  fun d hm => focusStmt_wt (by decide) (by decide) (by decide) d.body _ d.ctx
    ((by decide : ∀ d ∈ exProg.defs, d.body.check exProg d.ctx = true) d hm)
    ((by decide : ∀ d ∈ exProg.defs, d.body.strict exProg = true) d hm)


end Scc.Core
