/-
  Scc.Core.ProofsFocusSimB — the simulation, part B: the focused form of a statement without
  non-variable arguments (a "value cut"), and related values of related terms.
-/
import Scc.Core.ProofsFocusSimA

namespace Scc.Core
namespace FocusSim

/-! ## inversion through `embed` -/

theorem fsT_inv_var {sc : List Ident} {p2 : FsTerm} {pc : PC} {d : DVar}
    (h : dbT sc p2.embed = .var pc d) : ∃ v ty, p2 = .var pc v ty ∧ dbVar sc v = d := by
  cases p2 <;> simp [FsTerm.embed, dbT] at h
  exact ⟨_, _, by rw [h.1], h.2⟩

theorem fsT_inv_lit {sc : List Ident} {p2 : FsTerm} {i : Int}
    (h : dbT sc p2.embed = .lit i) : p2 = .lit i := by
  cases p2 <;> simp [FsTerm.embed, dbT] at h
  rw [h]

theorem fsT_inv_op {sc : List Ident} {p2 : FsTerm} {pa pb : PC} {da db : DVar} {o : BinOp}
    (h : dbT sc p2.embed = .op (.var pa da) o (.var pb db)) :
    ∃ a b, p2 = .op a o b ∧ dbVar sc a = da ∧ dbVar sc b = db := by
  cases p2 <;> simp [FsTerm.embed, dbT, varI64] at h
  exact ⟨_, _, by rw [h.2.1], h.1.2, h.2.2.2⟩

theorem fsT_inv_mu {sc : List Ident} {p2 : FsTerm} {pc : PC} {ty : Ty} {d : DStmt}
    (h : dbT sc p2.embed = .mu pc ty d) :
    ∃ v s2, p2 = .mu pc v ty s2 ∧ dbS (v :: sc) s2.embed = d := by
  cases p2 <;> simp [FsTerm.embed, dbT] at h
  exact ⟨_, _, by rw [h.1, h.2.1], h.2.2⟩

theorem fsT_inv_xtor {sc : List Ident} {p2 : FsTerm} {pc : PC} {name : Ident} {ty : Ty} {A : DArgs}
    (h : dbT sc p2.embed = .xtor pc name A ty) :
    ∃ as2, p2 = .xtor pc name as2 ty ∧ dbA sc (ctxToArgs as2) = A := by
  cases p2 <;> simp [FsTerm.embed, dbT] at h
  exact ⟨_, by rw [h.1, h.2.1, h.2.2.2], h.2.2.1⟩

theorem fsT_inv_xcase {sc : List Ident} {p2 : FsTerm} {pc : PC} {ty : Ty} {d : DClauses}
    (h : dbT sc p2.embed = .xcase pc ty d) :
    ∃ cl2, p2 = .xcase pc ty cl2 ∧ dbC sc cl2.embed = d := by
  cases p2 <;> simp [FsTerm.embed, dbT] at h
  exact ⟨_, by rw [h.1, h.2.1], h.2.2⟩

theorem fsC_inv_nil {sc : List Ident} {c2 : FsClauses} (h : dbC sc c2.embed = .nil) : c2 = .nil := by
  cases c2 <;> simp [FsClauses.embed, dbC] at h
  rfl

theorem fsC_inv_cons {sc : List Ident} {c2 : FsClauses} {x : Ident} {sig : List (PC × Ty)}
    {d : DStmt} {r : DClauses} (h : dbC sc c2.embed = .cons x sig d r) :
    ∃ ctx b r', c2 = .cons x ctx b r' ∧ ctxSig ctx = sig ∧ dbS (ctxVars ctx ++ sc) b.embed = d ∧
      dbC sc r'.embed = r := by
  cases c2 <;> simp [FsClauses.embed, dbC] at h
  exact ⟨_, _, _, by rw [h.1], h.2.1, h.2.2.1, h.2.2.2⟩

theorem fsS_inv_cut {sc : List Ident} {s2 : FsStmt} {ty : Ty} {p c : DTerm}
    (h : dbS sc s2.embed = .cut ty p c) :
    ∃ p2 c2, s2 = .cut ty p2 c2 ∧ dbT sc p2.embed = p ∧ dbT sc c2.embed = c := by
  cases s2 with
  | ifc s a b t e => cases b <;> simp [FsStmt.embed, dbS] at h
  | cut ty' p' c' =>
    simp only [FsStmt.embed, dbS, DStmt.cut.injEq] at h
    exact ⟨_, _, by rw [h.1], h.2.1, h.2.2⟩
  | _ => simp [FsStmt.embed, dbS] at h

theorem fsS_inv_ifc {sc : List Ident} {s2 : FsStmt} {srt : IfSort} {pa pb : PC} {da db : DVar}
    {t e : DStmt} (h : dbS sc s2.embed = .ifc srt (.var pa da) (.var pb db) t e) :
    ∃ a2 b2 t2 e2, s2 = .ifc srt a2 (some b2) t2 e2 ∧ dbVar sc a2 = da ∧ dbVar sc b2 = db ∧
      dbS sc t2.embed = t ∧ dbS sc e2.embed = e := by
  cases s2 with
  | ifc s a b t' e' =>
    cases b with
    | none => simp [FsStmt.embed, dbS] at h
    | some b =>
      simp only [FsStmt.embed, dbS, dbT, varI64, DStmt.ifc.injEq, DTerm.var.injEq] at h
      exact ⟨_, _, _, _, by rw [h.1], h.2.1.2, h.2.2.1.2, h.2.2.2.1, h.2.2.2.2⟩
  | _ => simp [FsStmt.embed, dbS] at h

theorem fsS_inv_ifz {sc : List Ident} {s2 : FsStmt} {srt : IfSort} {pa : PC} {da : DVar}
    {t e : DStmt} (h : dbS sc s2.embed = .ifz srt (.var pa da) t e) :
    ∃ a2 t2 e2, s2 = .ifc srt a2 none t2 e2 ∧ dbVar sc a2 = da ∧
      dbS sc t2.embed = t ∧ dbS sc e2.embed = e := by
  cases s2 with
  | ifc s a b t' e' =>
    cases b with
    | some b => simp [FsStmt.embed, dbS] at h
    | none =>
      simp only [FsStmt.embed, dbS, dbT, varI64, DStmt.ifz.injEq, DTerm.var.injEq] at h
      exact ⟨_, _, _, by rw [h.1], h.2.1.2, h.2.2.1, h.2.2.2⟩
  | _ => simp [FsStmt.embed, dbS] at h

theorem fsS_inv_print {sc : List Ident} {s2 : FsStmt} {nl : Bool} {pa : PC} {da : DVar}
    {t : DStmt} (h : dbS sc s2.embed = .print nl (.var pa da) t) :
    ∃ a2 t2, s2 = .print nl a2 t2 ∧ dbVar sc a2 = da ∧ dbS sc t2.embed = t := by
  cases s2 with
  | ifc s a b t' e' => cases b <;> simp [FsStmt.embed, dbS] at h
  | print nl' a' n' =>
    simp only [FsStmt.embed, dbS, dbT, varI64, DStmt.print.injEq, DTerm.var.injEq] at h
    exact ⟨_, _, by rw [h.1], h.2.1.2, h.2.2⟩
  | _ => simp [FsStmt.embed, dbS] at h

theorem fsS_inv_call {sc : List Ident} {s2 : FsStmt} {f : Ident} {A : DArgs} {ty : Ty}
    (h : dbS sc s2.embed = .call f A ty) :
    ∃ as2, s2 = .call f as2 ∧ dbA sc (ctxToArgs as2) = A := by
  cases s2 with
  | ifc s a b t' e' => cases b <;> simp [FsStmt.embed, dbS] at h
  | call f' as' =>
    simp only [FsStmt.embed, dbS, DStmt.call.injEq] at h
    exact ⟨_, by rw [h.1], h.2.1⟩
  | _ => simp [FsStmt.embed, dbS] at h

theorem fsS_inv_exit {sc : List Ident} {s2 : FsStmt} {pa : PC} {da : DVar} {ty : Ty}
    (h : dbS sc s2.embed = .exit (.var pa da) ty) :
    ∃ a2, s2 = .exit a2 ∧ dbVar sc a2 = da := by
  cases s2 with
  | ifc s a b t' e' => cases b <;> simp [FsStmt.embed, dbS] at h
  | exit a' =>
    simp only [FsStmt.embed, dbS, dbT, varI64, DStmt.exit.injEq, DTerm.var.injEq] at h
    exact ⟨_, rfl, h.1.2⟩
  | _ => simp [FsStmt.embed, dbS] at h

/-! ## the focused form of a term in a cut without non-variable arguments -/

def _root_.Scc.Core.Term.varName : Term → Ident
  | .var _ v _ => v
  | _ => default

/-- the focused form of `t` in a cut at type `ty` all of whose arguments are variables -/
def fval (ty : Ty) : Term → Nat → FsTerm × Nat
  | .var pc v t', n => (.var pc v t', n)
  | .lit i, n => (.lit i, n)
  | .op a o b, n => (.op a.varName o b.varName, n)
  | .mu pc v t' s, n => (.mu pc v t' (focusStmt s n).1, (focusStmt s n).2)
  | .xtor pc name as _, n => (.xtor pc name as.toCtx ty, n)
  | .xcase pc t' cl, n => (.xcase pc t' (focusClauses cl n).1, (focusClauses cl n).2)

/-- operands / arguments are variables -/
def _root_.Scc.Core.Term.isVal : Term → Bool
  | .op a _ b => a.isVar && b.isVar
  | .xtor _ _ as _ => as.split.isNone
  | _ => true

theorem fval_le (ty : Ty) (t : Term) (n : Nat) : n ≤ (fval ty t n).2 := by
  cases t <;> simp only [fval, Nat.le_refl]
  · exact focusStmt_le _ _
  · exact focusClauses_le _ _

theorem focusTerm_eq_fval (ty : Ty) (t : Term) (n : Nat)
    (h1 : ∀ pc name as t1, t ≠ .xtor pc name as t1) (h2 : ∀ a o b, t ≠ .op a o b) :
    focusTerm t n = fval ty t n := by
  cases t with
  | xtor pc name as t1 => exact absurd rfl (h1 pc name as t1)
  | op a o b => exact absurd rfl (h2 a o b)
  | _ => rfl

theorem Stmt.cutsOk_cut {ty : Ty} {p c : Term} (h : (Stmt.cut ty p c).cutsOk = true) :
    p.cutsOk = true ∧ c.cutsOk = true := by
  cases p <;> cases c <;> simp_all [Stmt.cutsOk, Term.cutsOk]

theorem PC.cns_ne_prd : (PC.cns == PC.prd) = false := by decide

theorem isVal_of_ne {t : Term} (h1 : ∀ pc name as t1, t ≠ .xtor pc name as t1)
    (h2 : ∀ a o b, t ≠ .op a o b) : t.isVal = true := by
  cases t with
  | xtor pc name as t1 => exact absurd rfl (h1 pc name as t1)
  | op a o b => exact absurd rfl (h2 a o b)
  | _ => rfl

/-- shape of a cut on which the ς-machine does not take a ς-step -/
theorem cut_none {ty : Ty} {p c : Term} (hs : (Stmt.cut ty p c).split = none)
    (hok : (Stmt.cut ty p c).cutsOk = true) (hpc : (Stmt.cut ty p c).pcOk = true) (n : Nat) :
    p.isVal = true ∧ c.isVal = true ∧
    (focusStmt (.cut ty p c) n).1 = .cut ty (fval ty p n).1 (fval ty c (fval ty p n).2).1 := by
  simp only [Stmt.pcOk, Bool.and_eq_true] at hpc
  have hco : ∀ a o b, c ≠ .op a o b := by
    intro a o b e; subst e; simp [Term.pcOk, PC.cns_ne_prd] at hpc
  by_cases hpx : ∃ pc k as t1, p = .xtor pc k as t1
  · obtain ⟨pc, k, as, t1, rfl⟩ := hpx
    have hcx : ∀ dpc d ds dt, c ≠ .xtor dpc d ds dt := by
      intro dpc d ds dt e; subst e; simp [Stmt.cutsOk] at hok
    have has : as.split = none := by
      simp only [Stmt.split] at hs
      split at hs
      · simp at hs
      · assumption
    refine ⟨by simp [Term.isVal, has], isVal_of_ne hcx hco, ?_⟩
    rw [focusStmt_cut1_eq, bindMany_allVars as has]
    simp only [kCut1]
    rw [focusTerm_eq_fval ty c n hcx hco]
    rfl
  · have hpx' : ∀ pc k as t1, p ≠ .xtor pc k as t1 := fun pc k as t1 e => hpx ⟨pc, k, as, t1, e⟩
    by_cases hcx : ∃ dpc d ds dt, c = .xtor dpc d ds dt
    · obtain ⟨dpc, d, ds, dt, rfl⟩ := hcx
      have hpo : ∀ a o b, p ≠ .op a o b := by
        intro a o b e; subst e; simp [Stmt.cutsOk] at hok
      have hds : ds.split = none := by
        cases p with
        | xtor pc k as t1 => exact absurd rfl (hpx' pc k as t1)
        | _ =>
          simp only [Stmt.split] at hs
          split at hs
          · simp at hs
          · assumption
      refine ⟨isVal_of_ne hpx' hpo, by simp [Term.isVal, hds], ?_⟩
      rw [focusStmt_cut2_eq _ _ _ _ _ _ _ (fun pc k as t1 e => hpx' pc k as t1 e),
        bindMany_allVars ds hds]
      simp only [kCut2]
      rw [focusTerm_eq_fval ty p n hpx' hpo]
      rfl
    · have hcx' : ∀ dpc d ds dt, c ≠ .xtor dpc d ds dt :=
        fun dpc d ds dt e => hcx ⟨dpc, d, ds, dt, e⟩
      have hcv : c.isVal = true := isVal_of_ne hcx' hco
      by_cases hpo : ∃ a o b, p = .op a o b
      · obtain ⟨a, o, b, rfl⟩ := hpo
        have hab : a.isVar = true ∧ b.isVar = true := by
          cases c with
          | xtor dpc d ds dt => exact absurd rfl (hcx' dpc d ds dt)
          | _ =>
            simp only [Stmt.split] at hs
            split at hs
            · simp at hs
            · split at hs
              · simp at hs
              · simp_all
        obtain ⟨pa, va, ta, rfl⟩ := Term.isVar_eq hab.1
        obtain ⟨pb, vb, tb, rfl⟩ := Term.isVar_eq hab.2
        refine ⟨by simp [Term.isVal, Term.isVar], hcv, ?_⟩
        rw [focusStmt_cut3_eq _ _ _ _ _ _ (fun dpc d ds dt e => hcx' dpc d ds dt e)]
        simp only [bindTerm, kCut3]
        rw [focusTerm_eq_fval ty c n hcx' hco]
        rfl
      · have hpo' : ∀ a o b, p ≠ .op a o b := fun a o b e => hpo ⟨a, o, b, e⟩
        refine ⟨isVal_of_ne hpx' hpo', hcv, ?_⟩
        rw [focusStmt_cut4_eq _ _ _ _ (fun pc k as t1 e => hpx' pc k as t1 e)
          (fun dpc d ds dt e => hcx' dpc d ds dt e) (fun a o b e => hpo' a o b e)]
        simp only
        rw [focusTerm_eq_fval ty p n hpx' hpo', focusTerm_eq_fval ty c _ hcx' hco]

/-! ## related terms have related values -/

structure OKT (k : Nat) (pc : PC) (t : Term) : Prop where
  cuts : t.cutsOk = true
  pcs : t.pcOk pc = true
  sig : SigLt k t.idents

theorem OKS.cut {k : Nat} {ty : Ty} {p c : Term} (h : OKS k (.cut ty p c)) :
    OKT k .prd p ∧ OKT k .cns c := by
  obtain ⟨h1, h2, h3⟩ := h
  have := Stmt.cutsOk_cut h1
  simp only [Stmt.pcOk, Bool.and_eq_true] at h2
  simp only [Stmt.idents, SigLt_append] at h3
  exact ⟨⟨this.1, h2.1, h3.1⟩, ⟨this.2, h2.2, h3.2⟩⟩

theorem prdVal_rel {k : Nat} {ρ : CEnv} {ρ' : FEnv} (he : ER k ρ ρ') {ty : Ty} {p : Term} {n : Nat}
    {p2 : FsTerm} (hv : p.isVal = true) (hok : OKT k .prd p) (hf : FreshL n p.idents)
    (h : dbT (keys ρ) (fval ty p n).1.embed = dbT (keys ρ') p2.embed) :
    ExRel (VR k) (prdVal ρ p) (fsPrdVal ρ' p2) := by
  cases p with
  | var pc v t' =>
    simp only [fval, FsTerm.embed, dbT] at h
    obtain ⟨v2, ty2, rfl, hv2⟩ := fsT_inv_var h.symm
    exact lookup_rel he hv2.symm
  | lit i =>
    simp only [fval, FsTerm.embed, dbT] at h
    obtain rfl := fsT_inv_lit h.symm
    simp [prdVal, fsPrdVal, ExRel, VR.int]
  | op a o b =>
    simp only [Term.isVal, Bool.and_eq_true] at hv
    obtain ⟨pa, va, ta, rfl⟩ := Term.isVar_eq hv.1
    obtain ⟨pb, vb, tb, rfl⟩ := Term.isVar_eq hv.2
    simp only [fval, Term.varName, FsTerm.embed, varI64, dbT] at h
    obtain ⟨a2, b2, rfl, ha, hb⟩ := fsT_inv_op h.symm
    simp only [prdVal, fsPrdVal, lookupInt_rel he ha.symm, lookupInt_rel he hb.symm]
    cases ρ'.lookupInt a2 <;> cases ρ'.lookupInt b2 <;> simp only [ExRel]
    cases arith o _ _ <;> simp [VR.int]
  | mu pc a t' s =>
    simp only [fval, FsTerm.embed, dbT] at h
    obtain ⟨a2, s2, rfl, hs⟩ := fsT_inv_mu h.symm
    simp only [Term.idents, FreshL_cons] at hf
    have hoks : OKS k s := by
      obtain ⟨h1, h2, h3⟩ := hok
      simp only [Term.cutsOk] at h1
      simp only [Term.pcOk, Bool.and_eq_true] at h2
      simp only [Term.idents, SigLt_cons] at h3
      exact ⟨h1, h2.2, h3.2⟩
    simp only [prdVal, fsPrdVal, ExRel]
    exact VR.thunk he ⟨hoks, n, hf.2, hs.symm⟩
  | xtor pc name as t1 =>
    simp only [Term.isVal, Option.isNone_iff_eq_none] at hv
    simp only [fval, FsTerm.embed, dbT] at h
    obtain ⟨as2, rfl, hA⟩ := fsT_inv_xtor h.symm
    have := argVals_rel he as hv as2 hA.symm
    simp only [prdVal, fsPrdVal]
    cases h1 : argVals ρ as <;> cases h2 : ρ'.lookupAll as2 <;> simp only [h1, h2, ExRel] at this ⊢
    · exact this
    · exact VR.con name this
  | xcase pc t' cl =>
    simp only [fval, FsTerm.embed, dbT] at h
    obtain ⟨cl2, rfl, hc⟩ := fsT_inv_xcase h.symm
    simp only [Term.idents] at hf
    have hokc : OKC k cl := by
      obtain ⟨h1, h2, h3⟩ := hok
      simp only [Term.cutsOk] at h1
      simp only [Term.pcOk, Bool.and_eq_true] at h2
      simp only [Term.idents] at h3
      exact ⟨h1, h2.2, h3⟩
    simp only [prdVal, fsPrdVal, ExRel]
    exact VR.cocase he ⟨hokc, n, hf, hc.symm⟩

theorem cnsVal_rel {k : Nat} {ρ : CEnv} {ρ' : FEnv} (he : ER k ρ ρ') {ty : Ty} {c : Term} {n : Nat}
    {c2 : FsTerm} (hv : c.isVal = true) (hok : OKT k .cns c) (hf : FreshL n c.idents)
    (h : dbT (keys ρ) (fval ty c n).1.embed = dbT (keys ρ') c2.embed) :
    ExRel (VR k) (cnsVal ρ c) (fsCnsVal ρ' c2) := by
  cases c with
  | var pc v t' =>
    simp only [fval, FsTerm.embed, dbT] at h
    obtain ⟨v2, ty2, rfl, hv2⟩ := fsT_inv_var h.symm
    exact lookup_rel he hv2.symm
  | lit i =>
    have := hok.pcs
    simp [Term.pcOk, PC.cns_ne_prd] at this
  | op a o b =>
    have := hok.pcs
    simp [Term.pcOk, PC.cns_ne_prd] at this
  | mu pc a t' s =>
    simp only [fval, FsTerm.embed, dbT] at h
    obtain ⟨a2, s2, rfl, hs⟩ := fsT_inv_mu h.symm
    simp only [Term.idents, FreshL_cons] at hf
    have hoks : OKS k s := by
      obtain ⟨h1, h2, h3⟩ := hok
      simp only [Term.cutsOk] at h1
      simp only [Term.pcOk, Bool.and_eq_true] at h2
      simp only [Term.idents, SigLt_cons] at h3
      exact ⟨h1, h2.2, h3.2⟩
    simp only [cnsVal, fsCnsVal, ExRel]
    exact VR.mutilde he ⟨hoks, n, hf.2, hs.symm⟩
  | xtor pc name as t1 =>
    simp only [Term.isVal, Option.isNone_iff_eq_none] at hv
    simp only [fval, FsTerm.embed, dbT] at h
    obtain ⟨as2, rfl, hA⟩ := fsT_inv_xtor h.symm
    have := argVals_rel he as hv as2 hA.symm
    simp only [cnsVal, fsCnsVal]
    cases h1 : argVals ρ as <;> cases h2 : ρ'.lookupAll as2 <;> simp only [h1, h2, ExRel] at this ⊢
    · exact this
    · exact VR.dtor name this
  | xcase pc t' cl =>
    simp only [fval, FsTerm.embed, dbT] at h
    obtain ⟨cl2, rfl, hc⟩ := fsT_inv_xcase h.symm
    simp only [Term.idents] at hf
    have hokc : OKC k cl := by
      obtain ⟨h1, h2, h3⟩ := hok
      simp only [Term.cutsOk] at h1
      simp only [Term.pcOk, Bool.and_eq_true] at h2
      simp only [Term.idents] at h3
      exact ⟨h1, h2.2, h3⟩
    simp only [cnsVal, fsCnsVal, ExRel]
    exact VR.case he ⟨hokc, n, hf, hc.symm⟩

/-- a `μ` stays a `μ` -/
theorem fval_mu_iff {sc sc' : List Ident} {ty : Ty} {p : Term} {n : Nat} {p2 : FsTerm}
    (h : dbT sc (fval ty p n).1.embed = dbT sc' p2.embed) :
    (∃ pc a t s, p = .mu pc a t s) ↔ (∃ pc a t s, p2 = .mu pc a t s) := by
  constructor
  · rintro ⟨pc, a, t, s, rfl⟩
    simp only [fval, FsTerm.embed, dbT] at h
    obtain ⟨a2, s2, rfl, -⟩ := fsT_inv_mu h.symm
    exact ⟨_, _, _, _, rfl⟩
  · rintro ⟨pc, a, t, s, rfl⟩
    cases p <;> simp [fval, FsTerm.embed, dbT, varI64] at h
    exact ⟨_, _, _, _, rfl⟩

/-! ## clause selection -/

theorem find_rel {k : Nat} {sc1 sc2 : List Ident} (x : Ident) :
    (cl : Clauses) → ∀ (n : Nat) (cl2 : FsClauses), OKC k cl → FreshL n cl.idents →
      dbC sc1 (focusClauses cl n).1.embed = dbC sc2 cl2.embed →
      (cl.find x = none ∧ cl2.find x = none) ∨
      ∃ ctx body ctx2 body2, cl.find x = some (ctx, body) ∧ cl2.find x = some (ctx2, body2) ∧
        ctx.length = ctx2.length ∧ CodeS k (ctxVars ctx ++ sc1) body (ctxVars ctx2 ++ sc2) body2
  | .nil, n, cl2, _, _, h => by
    simp only [focusClauses, FsClauses.embed, dbC] at h
    obtain rfl := fsC_inv_nil h.symm
    exact Or.inl ⟨rfl, rfl⟩
  | .cons x0 ctx b r, n, cl2, hok, hf, h => by
    rw [focusClauses_cons_eq] at h
    simp only [FsClauses.embed, dbC] at h
    obtain ⟨ctx2, b2, r2, rfl, hsig, hb, hr⟩ := fsC_inv_cons h.symm
    simp only [Clauses.idents, FreshL_append] at hf
    obtain ⟨h1, h2, h3⟩ := hok
    simp only [Clauses.cutsOk, Bool.and_eq_true] at h1
    simp only [Clauses.pcOk, Bool.and_eq_true] at h2
    simp only [Clauses.idents, SigLt_append] at h3
    simp only [Clauses.find, FsClauses.find]
    by_cases hx : x0 = x
    · simp only [hx, if_true]
      refine Or.inr ⟨ctx, b, ctx2, b2, rfl, rfl, (ctxSig_length hsig).symm, ?_⟩
      exact ⟨⟨h1.1, h2.1, h3.1.2⟩, n, hf.1.2, hb.symm⟩
    · simp only [hx, if_false]
      exact find_rel x r (focusStmt b n).2 r2 ⟨h1.2, h2.2, h3.2⟩
        (hf.2.mono (focusStmt_le b n)) hr.symm

end FocusSim
end Scc.Core
