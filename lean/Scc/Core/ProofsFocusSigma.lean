/-
  Scc.Core.ProofsFocusSigma — static focusing follows the ς-order of the specification machine:
  if the machine reads an unfocused statement as `S[t]` (`Stmt.split`, Sem.lean: `t` the leftmost
  non-variable argument), then
        focus (S[t]) = bind t (fun x => focus (S[x]))
  EXACTLY (same counter threading).  So the implementation's `bind`/`bind_many` lifts the same
  argument as the textbook ς-rule and continues with the same residual statement.
-/
import Scc.Core.Focus
import Scc.Core.Sem

namespace Scc.Core

/-- the variable term for a binding handed to a continuation -/
def Binding.toTerm (b : Binding) : Term := .var b.chi b.var b.ty

theorem Term.isVar_eq {t : Term} (h : t.isVar = true) : ∃ pc v ty, t = .var pc v ty := by
  cases t <;> simp [Term.isVar] at h
  exact ⟨_, _, _, rfl⟩

theorem bindMany_split : (as : Args) → ∀ pc t A, as.split = some (pc, t, A) →
    ∀ k n, bindMany as k n = bindTerm t (fun b n' => bindMany (A b.toTerm) k n') n
  | .nil, _, _, _, h => by simp [Args.split] at h
  | .cons pc' u r, pc, t, A, h => by
    intro k n
    simp only [Args.split] at h
    split at h
    · next hv =>
      obtain ⟨p, v, ty, rfl⟩ := Term.isVar_eq hv
      split at h
      · next c u' A' hr =>
        simp only [Option.some.injEq, Prod.mk.injEq] at h
        obtain ⟨rfl, rfl, rfl⟩ := h
        simp only [bindMany, bindTerm]
        exact bindMany_split r _ _ _ hr _ n
      · simp at h
    · simp only [Option.some.injEq, Prod.mk.injEq] at h
      obtain ⟨rfl, rfl, rfl⟩ := h
      simp only [bindMany, Binding.toTerm, bindTerm]

/-- top-level condition excluding the two shapes on which Rust's `Cut::focus` panics -/
def Stmt.cutOkTop : Stmt → Bool
  | .cut _ (.xtor _ _ _ _) (.xtor _ _ _ _) => false
  | .cut _ (.op _ _ _) (.xtor _ _ _ _) => false
  | _ => true

theorem focusStmt_split (s : Stmt) (pc : PC) (t : Term) (S : Term → Stmt)
    (h : s.split = some (pc, t, S)) (hok : s.cutOkTop = true) (n : Nat) :
    focusStmt s n = bindTerm t (fun b n' => focusStmt (S b.toTerm) n') n := by
  unfold Stmt.split at h
  split at h
  · -- ⟨K(as) | c⟩
    next ty kpc k as kt c =>
    split at h
    · next c' u A hs =>
      simp only [Option.some.injEq, Prod.mk.injEq] at h
      obtain ⟨rfl, rfl, rfl⟩ := h
      simp only [focusStmt]
      exact bindMany_split as _ _ _ hs _ n
    · split at h
      · simp [Stmt.cutOkTop] at hok
      · simp at h
  · -- ⟨p | D(ds)⟩, p not a constructor
    next ty p dpc d ds dt hnx =>
    split at h
    · next c' u D hs =>
      simp only [Option.some.injEq, Prod.mk.injEq] at h
      obtain ⟨rfl, rfl, rfl⟩ := h
      rw [focusStmt.eq_2 _ _ _ _ _ _ _ hnx]
      rw [bindMany_split ds _ _ _ hs _ n]
      congr 1
      funext b n'
      rw [focusStmt.eq_2 _ _ _ _ _ _ _ hnx]
    · simp at h
  · -- ⟨a ⊙ b | c⟩, c not a destructor
    next ty a o b c hnx =>
    rw [focusStmt.eq_3 _ _ _ _ _ _ hnx]
    split at h
    · next ha =>
      simp only [Option.some.injEq, Prod.mk.injEq] at h
      obtain ⟨rfl, rfl, rfl⟩ := h
      congr 1
      funext b1 n'
      rw [focusStmt.eq_3 _ _ _ _ _ _ hnx]
      simp only [Binding.toTerm, bindTerm]
    · next ha =>
      split at h
      · next hb =>
        simp only [Option.some.injEq, Prod.mk.injEq] at h
        obtain ⟨rfl, rfl, rfl⟩ := h
        simp only [Bool.not_eq_true, Bool.not_eq_false'] at ha
        obtain ⟨p, v, vt, rfl⟩ := Term.isVar_eq (by simpa using ha)
        simp only [bindTerm]
        congr 1
        funext b2 n'
        rw [focusStmt.eq_3 _ _ _ _ _ _ hnx]
        simp only [Binding.toTerm, bindTerm]
      · simp at h
  · simp at h
  · -- ifc
    next srt a b t' e =>
    split at h
    · simp only [Option.some.injEq, Prod.mk.injEq] at h
      obtain ⟨rfl, rfl, rfl⟩ := h
      simp only [focusStmt, Binding.toTerm, bindTerm]
    · next ha =>
      split at h
      · simp only [Option.some.injEq, Prod.mk.injEq] at h
        obtain ⟨rfl, rfl, rfl⟩ := h
        obtain ⟨p, v, vt, rfl⟩ := Term.isVar_eq (by simpa using ha)
        simp only [focusStmt, Binding.toTerm, bindTerm]
      · simp at h
  · -- ifz
    next srt a t' e =>
    split at h
    · simp only [Option.some.injEq, Prod.mk.injEq] at h
      obtain ⟨rfl, rfl, rfl⟩ := h
      simp only [focusStmt, Binding.toTerm, bindTerm]
    · simp at h
  · -- print
    next nl a nx =>
    split at h
    · simp only [Option.some.injEq, Prod.mk.injEq] at h
      obtain ⟨rfl, rfl, rfl⟩ := h
      simp only [focusStmt, Binding.toTerm, bindTerm]
    · simp at h
  · -- call
    next f as ty =>
    split at h
    · next c' u A hs =>
      simp only [Option.some.injEq, Prod.mk.injEq] at h
      obtain ⟨rfl, rfl, rfl⟩ := h
      simp only [focusStmt]
      exact bindMany_split as _ _ _ hs _ n
    · simp at h
  · -- exit
    next a ty =>
    split at h
    · simp only [Option.some.injEq, Prod.mk.injEq] at h
      obtain ⟨rfl, rfl, rfl⟩ := h
      simp only [focusStmt, Binding.toTerm, bindTerm]
    · simp at h

end Scc.Core
