/-
  Scc.Core.ProofsAlphaSimA — the reading `s = S[t]` (`Stmt.split`) on nameless forms: `DStmt.split`
  mirrors `Stmt.split`, and the nameless image of a split is the split of the nameless image
  (`dbS_split_none`, `dbS_split_some`).  Hence α-equivalent statements are split at the same
  position, into α-equivalent arguments and contexts.
-/
import Scc.Core.ProofsSplit

set_option linter.unusedSimpArgs false

namespace Scc.Core

def DTerm.isVar : DTerm → Bool
  | .var _ _ => true
  | _ => false

theorem dbT_isVar (sc : List Ident) (t : Term) : (dbT sc t).isVar = t.isVar := by
  cases t <;> rfl

def DArgs.split : DArgs → Option (PC × DTerm × (DTerm → DArgs))
  | .nil => none
  | .cons pc t r =>
    if t.isVar then
      match DArgs.split r with
      | some (c, u, A) => some (c, u, fun h => .cons pc t (A h))
      | none => none
    else some (pc, t, fun h => .cons pc h r)

def DStmt.split : DStmt → Option (PC × DTerm × (DTerm → DStmt))
  | .cut ty (.xtor pc k as t) c =>
    match as.split with
    | some (c', u, A) => some (c', u, fun h => .cut ty (.xtor pc k (A h) t) c)
    | none =>
      match c with
      | .xtor dpc d ds dt =>
        match ds.split with
        | some (c', u, D) => some (c', u, fun h => .cut ty (.xtor pc k as t) (.xtor dpc d (D h) dt))
        | none => none
      | _ => none
  | .cut ty p (.xtor dpc d ds dt) =>
    match ds.split with
    | some (c', u, D) => some (c', u, fun h => .cut ty p (.xtor dpc d (D h) dt))
    | none => none
  | .cut ty (.op a o b) c =>
    if !a.isVar then some (.prd, a, fun h => .cut ty (.op h o b) c)
    else if !b.isVar then some (.prd, b, fun h => .cut ty (.op a o h) c)
    else none
  | .cut _ _ _ => none
  | .ifc s a b t e =>
    if !a.isVar then some (.prd, a, fun h => .ifc s h b t e)
    else if !b.isVar then some (.prd, b, fun h => .ifc s a h t e)
    else none
  | .ifz s a t e => if !a.isVar then some (.prd, a, fun h => .ifz s h t e) else none
  | .print nl a n => if !a.isVar then some (.prd, a, fun h => .print nl h n) else none
  | .call f as ty =>
    match as.split with
    | some (c', u, A) => some (c', u, fun h => .call f (A h) ty)
    | none => none
  | .exit a ty => if !a.isVar then some (.prd, a, fun h => .exit h ty) else none

/-- the split of the image: `none` for `none`, and for `some (pc, t, A)` the image of `t` and a
    nameless context that commutes with plugging -/
def SplitImgA (sc : List Ident) (as : Args) : Prop :=
  match as.split with
  | none => (dbA sc as).split = none
  | some (pc, t, A) => ∃ DA, (dbA sc as).split = some (pc, dbT sc t, DA) ∧
      ∀ x, dbA sc (A x) = DA (dbT sc x)

theorem dbA_split (sc : List Ident) : (as : Args) → SplitImgA sc as
  | .nil => by simp [SplitImgA, Args.split, dbA, DArgs.split]
  | .cons pc u r => by
    have ih := dbA_split sc r
    unfold SplitImgA at ih ⊢
    simp only [Args.split, dbA, DArgs.split, dbT_isVar]
    by_cases hu : u.isVar = true
    · simp only [hu, if_true]
      cases hr : r.split with
      | none =>
        rw [hr] at ih
        simp only [ih]
      | some x =>
        obtain ⟨c, u', A'⟩ := x
        rw [hr] at ih
        obtain ⟨DA, h1, h2⟩ := ih
        simp only [h1]
        exact ⟨_, rfl, fun x => by simp only [dbA, h2]⟩
    · simp only [hu, Bool.false_eq_true, if_false]
      exact ⟨_, rfl, fun x => by simp only [dbA]⟩

def SplitImgS (sc : List Ident) (s : Stmt) : Prop :=
  match s.split with
  | none => (dbS sc s).split = none
  | some (pc, t, S) => ∃ DS, (dbS sc s).split = some (pc, dbT sc t, DS) ∧
      ∀ x, dbS sc (S x) = DS (dbT sc x)

theorem SplitImgA.none {sc : List Ident} {as : Args} (h : SplitImgA sc as) (hs : as.split = none) :
    (dbA sc as).split = none := by
  unfold SplitImgA at h; rw [hs] at h; exact h

theorem SplitImgA.some {sc : List Ident} {as : Args} (h : SplitImgA sc as) {pc t A}
    (hs : as.split = some (pc, t, A)) :
    ∃ DA, (dbA sc as).split = some (pc, dbT sc t, DA) ∧ ∀ x, dbA sc (A x) = DA (dbT sc x) := by
  unfold SplitImgA at h; rw [hs] at h; exact h

theorem dbS_split (sc : List Ident) (s : Stmt) : SplitImgS sc s := by
  unfold SplitImgS
  cases s with
  | cut ty p c =>
    by_cases hpx : ∃ pc k as t1, p = .xtor pc k as t1
    · obtain ⟨pc, k, as, t1, rfl⟩ := hpx
      have ha := dbA_split sc as
      cases has : as.split with
      | some x =>
        obtain ⟨c', u, A⟩ := x
        obtain ⟨DA, h1, h2⟩ := ha.some has
        simp only [Stmt.split, has, dbS, dbT, DStmt.split, h1]
        exact ⟨_, rfl, fun x => by simp only [dbS, dbT, h2]⟩
      | none =>
        have h1 := ha.none has
        cases c with
        | xtor dpc d ds dt =>
          have hd := dbA_split sc ds
          cases hds : ds.split with
          | some x =>
            obtain ⟨c', u, D⟩ := x
            obtain ⟨DD, h3, h4⟩ := hd.some hds
            simp only [Stmt.split, has, hds, dbS, dbT, DStmt.split, h1, h3]
            exact ⟨_, rfl, fun x => by simp only [dbS, dbT, h4]⟩
          | none =>
            have h3 := hd.none hds
            simp only [Stmt.split, has, hds, dbS, dbT, DStmt.split, h1, h3]
        | _ => simp only [Stmt.split, has, dbS, dbT, DStmt.split, h1]
    · have hpx' : ∀ pc k as t1, p ≠ .xtor pc k as t1 := fun pc k as t1 e => hpx ⟨pc, k, as, t1, e⟩
      by_cases hcx : ∃ dpc d ds dt, c = .xtor dpc d ds dt
      · obtain ⟨dpc, d, ds, dt, rfl⟩ := hcx
        have hd := dbA_split sc ds
        cases hds : ds.split with
        | some x =>
          obtain ⟨c', u, D⟩ := x
          obtain ⟨DD, h3, h4⟩ := hd.some hds
          cases p with
          | xtor pc k as t1 => exact absurd rfl (hpx' pc k as t1)
          | _ =>
            simp only [Stmt.split, hds, dbS, dbT, DStmt.split, h3]
            exact ⟨_, rfl, fun x => by simp only [dbS, dbT, h4]⟩
        | none =>
          have h3 := hd.none hds
          cases p with
          | xtor pc k as t1 => exact absurd rfl (hpx' pc k as t1)
          | _ => simp only [Stmt.split, hds, dbS, dbT, DStmt.split, h3]
      · have hcx' : ∀ dpc d ds dt, c ≠ .xtor dpc d ds dt :=
          fun dpc d ds dt e => hcx ⟨dpc, d, ds, dt, e⟩
        cases p with
        | xtor pc k as t1 => exact absurd rfl (hpx' pc k as t1)
        | op a o b =>
          cases c with
          | xtor dpc d ds dt => exact absurd rfl (hcx' dpc d ds dt)
          | _ =>
            simp only [Stmt.split, dbS, dbT, DStmt.split, dbT_isVar]
            by_cases ha : a.isVar = true
            · by_cases hb : b.isVar = true
              · simp [ha, hb]
              · simp only [ha, hb, Bool.not_true, Bool.false_eq_true, if_false, Bool.not_false,
                  if_true]
                exact ⟨_, rfl, fun x => by simp only [dbS, dbT]⟩
            · simp only [ha, Bool.not_false, if_true]
              exact ⟨_, rfl, fun x => by simp only [dbS, dbT]⟩
        | _ =>
          cases c with
          | xtor dpc d ds dt => exact absurd rfl (hcx' dpc d ds dt)
          | _ => simp only [Stmt.split, dbS, dbT, DStmt.split]
  | ifc srt a b t e =>
    simp only [Stmt.split, dbS, DStmt.split, dbT_isVar]
    by_cases ha : a.isVar = true
    · by_cases hb : b.isVar = true
      · simp [ha, hb]
      · simp only [ha, hb, Bool.not_true, Bool.false_eq_true, if_false, Bool.not_false, if_true]
        exact ⟨_, rfl, fun x => by simp only [dbS]⟩
    · simp only [ha, Bool.not_false, if_true]
      exact ⟨_, rfl, fun x => by simp only [dbS]⟩
  | ifz srt a t e =>
    simp only [Stmt.split, dbS, DStmt.split, dbT_isVar]
    by_cases ha : a.isVar = true
    · simp [ha]
    · simp only [ha, Bool.not_false, if_true]
      exact ⟨_, rfl, fun x => by simp only [dbS]⟩
  | print nl a n =>
    simp only [Stmt.split, dbS, DStmt.split, dbT_isVar]
    by_cases ha : a.isVar = true
    · simp [ha]
    · simp only [ha, Bool.not_false, if_true]
      exact ⟨_, rfl, fun x => by simp only [dbS]⟩
  | call f as ty =>
    have ha := dbA_split sc as
    cases has : as.split with
    | some x =>
      obtain ⟨c', u, A⟩ := x
      obtain ⟨DA, h1, h2⟩ := ha.some has
      simp only [Stmt.split, has, dbS, DStmt.split, h1]
      exact ⟨_, rfl, fun x => by simp only [dbS, h2]⟩
    | none =>
      have h1 := ha.none has
      simp only [Stmt.split, has, dbS, DStmt.split, h1]
  | exit a ty =>
    simp only [Stmt.split, dbS, DStmt.split, dbT_isVar]
    by_cases ha : a.isVar = true
    · simp [ha]
    · simp only [ha, Bool.not_false, if_true]
      exact ⟨_, rfl, fun x => by simp only [dbS]⟩

theorem dbS_split_none {sc : List Ident} {s : Stmt} (hs : s.split = none) :
    (dbS sc s).split = none := by
  have h := dbS_split sc s; unfold SplitImgS at h; rw [hs] at h; exact h

theorem dbS_split_some {sc : List Ident} {s : Stmt} {pc t S} (hs : s.split = some (pc, t, S)) :
    ∃ DS, (dbS sc s).split = some (pc, dbT sc t, DS) ∧ ∀ x, dbS sc (S x) = DS (dbT sc x) := by
  have h := dbS_split sc s; unfold SplitImgS at h; rw [hs] at h; exact h

/-- **α-equivalent statements are split alike** -/
theorem split_alpha {sc1 sc2 : List Ident} {s1 s2 : Stmt} (h : dbS sc1 s1 = dbS sc2 s2) :
    (s1.split = none ∧ s2.split = none) ∨
    ∃ pc t1 S1 t2 S2, s1.split = some (pc, t1, S1) ∧ s2.split = some (pc, t2, S2) ∧
      dbT sc1 t1 = dbT sc2 t2 := by
  cases h1 : s1.split with
  | none =>
    cases h2 : s2.split with
    | none => exact Or.inl ⟨rfl, rfl⟩
    | some x =>
      obtain ⟨pc, t2, S2⟩ := x
      obtain ⟨DS, e, _⟩ := dbS_split_some (sc := sc2) h2
      rw [← h, dbS_split_none h1] at e
      simp at e
  | some x =>
    obtain ⟨pc, t1, S1⟩ := x
    obtain ⟨DS1, e1, _⟩ := dbS_split_some (sc := sc1) h1
    cases h2 : s2.split with
    | none =>
      rw [h, dbS_split_none h2] at e1
      simp at e1
    | some y =>
      obtain ⟨pc2, t2, S2⟩ := y
      obtain ⟨DS2, e2, _⟩ := dbS_split_some (sc := sc2) h2
      rw [h, e2] at e1
      simp only [Option.some.injEq, Prod.mk.injEq] at e1
      obtain ⟨rfl, ht, _⟩ := e1
      exact Or.inr ⟨_, _, _, _, _, rfl, rfl, ht.symm⟩

/-- … and plugging α-equivalent terms into the two contexts gives α-equivalent statements, in any
    pair of scopes in which the statements are α-equivalent -/
theorem plug_alpha {sc1 sc2 : List Ident} {s1 s2 : Stmt} {pc1 pc2 t1 t2 S1 S2}
    (h1 : s1.split = some (pc1, t1, S1)) (h2 : s2.split = some (pc2, t2, S2))
    (h : dbS sc1 s1 = dbS sc2 s2) {x1 x2 : Term} (hx : dbT sc1 x1 = dbT sc2 x2) :
    dbS sc1 (S1 x1) = dbS sc2 (S2 x2) := by
  obtain ⟨DS1, e1, p1⟩ := dbS_split_some (sc := sc1) h1
  obtain ⟨DS2, e2, p2⟩ := dbS_split_some (sc := sc2) h2
  rw [h, e2] at e1
  simp only [Option.some.injEq, Prod.mk.injEq] at e1
  obtain ⟨_, _, hDS⟩ := e1
  rw [p1, p2, hx, hDS]

end Scc.Core
