/-
  Scc.Core.ProofsSigmaFocus — the ς-step of the specification machine does not change the focused
  form of a statement, up to α-equivalence:
      focus ⟨t | μ~ς.S[ς]⟩  ≡α  focus S[t]          (and the dual for a consumer `t`)
  (`sigma_focus`).  Together with `focusStmt_cong` this is the whole static content of
  "focusing follows the ς-rules".
-/
import Scc.Core.ProofsAlphaE
import Scc.Core.ProofsSplit

namespace Scc.Core

/-- the continuation `fun x => focus (S[x])` of `focusStmt_split` -/
def kFoc (S : Term → Stmt) : Cont := fun b n' => focusStmt (S b.toTerm) n'

theorem monoK_kFoc (S : Term → Stmt) : MonoK (kFoc S) := fun _ m => focusStmt_le _ m

theorem focusStmt_split' (s : Stmt) (pc : PC) (t : Term) (S : Term → Stmt)
    (h : s.split = some (pc, t, S)) (hok : s.cutOkTop = true) (n : Nat) :
    focusStmt s n = bindTerm t (kFoc S) n := focusStmt_split s pc t S h hok n

section
variable {s : Stmt} {pc : PC} {t : Term} {S : Term → Stmt}

/-- `S[y]` under `y` and `S[z]` under `z` have the same focused form -/
theorem sigma_core (h : SSplit s pc t S) {sc : List Ident} {n0 : Nat}
    (hf : FreshL n0 s.idents) {y z : Ident} (hy : y ∉ s.idents) (hyg : ∀ m, ¬ Gen m y)
    {ext ext' : List Ident} {m m' j j' : Nat} (hl : ext.length = ext'.length)
    (he : ExtOK n0 j ext) (he' : ExtOK n0 j' ext') (hz : Gen n0 z) (hz' : ¬ Gen m' z)
    (hm : n0 ≤ m) (hm' : n0 ≤ m') (pc' : PC) (ty ty' : Ty) :
    dbS (y :: (ext ++ sc)) (focusStmt (S (.var pc' y ty)) m).1.embed =
      dbS (z :: (ext' ++ sc)) (focusStmt (S (.var pc' z ty')) m').1.embed := by
  apply focusStmt_cong
  · apply h.plug
    · have := dbS_weaken (sc := sc) (sc' := sc) (ext := y :: ext) (ext' := z :: ext') (u := s)
        (u' := s) (by simp [hl])
        (by
          intro i hi
          rcases List.mem_cons.mp hi with rfl | hi
          · exact hy
          · exact he.not_mem hf i hi)
        (by
          intro i hi
          rcases List.mem_cons.mp hi with rfl | hi
          · exact fun hzz => hf _ hzz hz
          · exact he'.not_mem hf i hi) rfl
      simpa using this
    · simp [dbT, dbVar]
  · intro i hi
    rcases h.idents_S _ i hi with hi | hi
    · exact hf.mono hm i hi
    · simp only [Term.idents, List.mem_singleton] at hi
      subst hi; exact hyg m
  · intro i hi
    rcases h.idents_S _ i hi with hi | hi
    · exact hf.mono hm' i hi
    · simp only [Term.idents, List.mem_singleton] at hi
      subst hi; exact hz'

theorem kcong_sig_xtorP (h : SSplit s pc t S) {sc : List Ident} {n : Nat}
    (hf : FreshL n s.idents) {y : Ident} (hy : y ∉ s.idents) (hyg : ∀ m, ¬ Gen m y)
    (name : Ident) (ty : Ty) :
    KCongV n n sc sc (kCut1 ty .prd name (.mu .cns y ty (S (.var .prd y ty))))
      (kXtorP name ty (kFoc S)) where
  mono := fun b m => focusTerm_le _ m
  mono' := fun b m => by
    have := focusStmt_le (S (Binding.toTerm ⟨xN m, .prd, ty⟩)) (m + 1)
    simp only [kXtorP, kFoc]; omega
  cong := by
    intro ext ext' bs bs' m m' hm hm' hl he he' hg hg' hA
    simp only [kCut1, kXtorP, kFoc, focusTerm_mu_eq, Binding.toTerm, FsStmt.embed, FsTerm.embed,
      dbS, dbT]
    rw [hA, sigma_core h hf hy hyg (z := xN m') hl he he' (gen_x n m' hm') (not_gen_x m') hm
      (by omega) .prd ty ty]

theorem kcong_sig_xtorC (h : SSplit s pc t S) {sc : List Ident} {n : Nat}
    (hf : FreshL n s.idents) {y : Ident} (hy : y ∉ s.idents) (hyg : ∀ m, ¬ Gen m y)
    (name : Ident) (ty : Ty) :
    KCongV n n sc sc (kCut2 ty (.mu .prd y ty (S (.var .cns y ty))) .cns name)
      (kXtorC name ty (kFoc S)) where
  mono := fun b m => focusTerm_le _ m
  mono' := fun b m => by
    have := focusStmt_le (S (Binding.toTerm ⟨aN m, .cns, ty⟩)) (m + 1)
    simp only [kXtorC, kFoc]; omega
  cong := by
    intro ext ext' bs bs' m m' hm hm' hl he he' hg hg' hA
    simp only [kCut2, kXtorC, kFoc, focusTerm_mu_eq, Binding.toTerm, FsStmt.embed, FsTerm.embed,
      dbS, dbT]
    rw [hA, sigma_core h hf hy hyg (z := aN m') hl he he' (gen_a n m' hm') (not_gen_a m') hm
      (by omega) .cns ty ty]

theorem kcong_sig_op2 (h : SSplit s pc t S) {sc : List Ident} {n : Nat}
    (hf : FreshL n s.idents) {y : Ident} (hy : y ∉ s.idents) (hyg : ∀ m, ¬ Gen m y) (o : BinOp)
    {ext1 ext1' : List Ident}
    {m1 m1' : Nat} (hm : n ≤ m1) (hm' : n ≤ m1') (hl : ext1.length = ext1'.length)
    (he : ExtOK n m1 ext1) (he' : ExtOK n m1' ext1') {b1 b1' : Binding}
    (hb : ¬ Gen m1 b1.var) (hb' : ¬ Gen m1' b1'.var)
    (hv : dbVar (ext1 ++ sc) b1.var = dbVar (ext1' ++ sc) b1'.var) :
    KCong m1 m1' (ext1 ++ sc) (ext1' ++ sc)
      (kCut3 .i64 b1 o (.mu .cns y .i64 (S (.var .prd y .i64)))) (kOp2 b1' o (kFoc S)) where
  mono := fun b m => focusTerm_le _ m
  mono' := fun b m => by
    have := focusStmt_le (S (Binding.toTerm ⟨xN m, .prd, .i64⟩)) (m + 1)
    simp only [kOp2, kFoc]; omega
  cong := by
    intro ext2 ext2' b2 b2' m2 m2' h2 h2' hl2 he2 he2' hchi hg hg' hv2
    simp only [kCut3, kOp2, kFoc, focusTerm_mu_eq, Binding.toTerm, FsStmt.embed, FsTerm.embed,
      varI64, dbS, dbT]
    have e1 := dbVar_weaken hl2 (not_mem_of_gen hb (fun i hi => (he2 i hi).1))
      (not_mem_of_gen hb' (fun i hi => (he2' i hi).1)) hv
    have e3 := sigma_core h (sc := sc) hf hy hyg (z := xN m2') (ext := ext2 ++ ext1) (ext' := ext2' ++ ext1')
      (m := m2) (m' := m2' + 1) (by simp [hl, hl2]) (he.append he2 hm h2) (he'.append he2' hm' h2')
      (gen_x n m2' (by omega)) (not_gen_x m2') (by omega) (by omega) .prd .i64 .i64
    simp only [List.append_assoc] at e3
    rw [e1, hv2, e3]

end

theorem kcong_refl_C4 (b : Term) : ∀ (k : Cont) (n : Nat), C4 b k n :=
  fun k n => focus_cong_all.2.2.2.1 b k n

theorem PC.beq_eq {a b : PC} (h : (a == b) = true) : a = b := by
  cases a <;> cases b <;> first | rfl | exact absurd h (by decide)

theorem not_gen_x_le {n m : Nat} (h : n + 1 ≤ m) : ¬ Gen m (xN n) :=
  fun hg => by have := hg.2; simp [xN] at this; omega
theorem not_gen_a_le {n m : Nat} (h : n + 1 ≤ m) : ¬ Gen m (aN n) :=
  fun hg => by have := hg.2; simp [aN] at this; omega

/-- **the ς-step preserves the focused form** -/
theorem sigma_focus {s : Stmt} {pc : PC} {t : Term} {S : Term → Stmt}
    (hs : s.split = some (pc, t, S)) (hok : s.cutOkTop = true) (hchi : t.pcOk pc = true)
    {y : Ident} (hy : y ∉ s.idents) (hyg : ∀ m, ¬ Gen m y) {n : Nat} (hf : FreshL n s.idents)
    (sc : List Ident) :
    dbS sc (focusStmt (sigmaCut pc t y (S (.var pc y t.ty))) n).1.embed =
      dbS sc (focusStmt s n).1.embed := by
  have h := SSplit.of_split s hs hok
  have hft : FreshL n t.idents := fun i hi => hf i (h.idents_t i hi)
  have hnv := h.notVar
  rw [focusStmt_split' s pc t S hs hok n]
  have core0 : ∀ (z : Ident) (m m' : Nat), Gen n z → ¬ Gen m' z → n ≤ m → n ≤ m' →
      ∀ (pc' : PC) (ty ty' : Ty),
      dbS (y :: sc) (focusStmt (S (.var pc' y ty)) m).1.embed =
        dbS (z :: sc) (focusStmt (S (.var pc' z ty')) m').1.embed := by
    intro z m m' hz hz' hm hm' pc' ty ty'
    have := sigma_core h (sc := sc) hf hy hyg (ext := []) (ext' := []) (m := m) (m' := m') rfl
      (ExtOK.nil n n) (ExtOK.nil n n) hz hz' hm hm' pc' ty ty'
    simpa using this
  cases pc with
  | prd =>
    cases t with
    | var pc' v ty => simp [Term.isVar] at hnv
    | lit i =>
      simp only [sigmaCut, Term.ty]
      rw [focusStmt_cut4_eq _ _ _ _ (by intro _ _ _ _ e; cases e) (by intro _ _ _ _ e; cases e)
        (by intro _ _ _ e; cases e), bindTerm_lit_eq]
      simp only [focusTerm, kFoc, Binding.toTerm, FsStmt.embed, FsTerm.embed,
        dbS, dbT]
      rw [core0 (xN n) n (n + 1) (gen_x n n (Nat.le_refl _)) (not_gen_x n) (Nat.le_refl _)
        (by omega)]
    | op a o b =>
      simp only [sigmaCut, Term.ty]
      simp only [Term.idents, FreshL_append] at hft
      rw [focusStmt_cut3_eq _ _ _ _ _ _ (by intro _ _ _ _ e; cases e), bindTerm_op_eq]
      apply bindTerm_cong rfl hft.1 hft.1
      exact kcong_bind (K := fun b1 => kCut3 .i64 b1 o (.mu .cns y .i64 (S (.var .prd y .i64))))
        (K' := fun b1 => kOp2 b1 o (kFoc S)) (fun b1 n1 => kcong_refl_C4 b _ n1) rfl hft.2 hft.2
        (fun b1 => monoK_kCut3 _ b1 o _) (fun b1 => monoK_kOp2 (monoK_kFoc S) b1 o)
        (fun ext ext' b1 b1' m m' hm hm' hl he he' _ hg hg' hv =>
          kcong_sig_op2 h hf hy hyg o hm hm' hl he he' hg hg' hv)
    | mu pc' a ty s0 =>
      simp only [Term.pcOk, Bool.and_eq_true] at hchi
      obtain rfl := PC.beq_eq hchi.1
      simp only [Term.idents, FreshL_cons] at hft
      simp only [sigmaCut, Term.ty]
      rw [focusStmt_cut4_eq _ _ _ _ (by intro _ _ _ _ e; cases e) (by intro _ _ _ _ e; cases e)
        (by intro _ _ _ e; cases e), bindTerm_muP_eq]
      simp only [focusTerm_mu_eq, kFoc, Binding.toTerm, FsStmt.embed, FsTerm.embed, dbS, dbT]
      have := focusStmt_le s0 n
      have := focusStmt_le s0 (n + 1)
      rw [focusStmt_cong (sc := a :: sc) (sc' := a :: sc) (s := s0) (s' := s0) (n := n)
          (n' := n + 1) rfl hft.2 (hft.2.mono (by omega)),
        core0 (xN n) (focusStmt s0 n).2 (focusStmt s0 (n + 1)).2 (gen_x n n (Nat.le_refl _))
          (not_gen_x_le (by omega)) (by omega) (by omega)]
    | xtor pc' name as ty =>
      simp only [Term.pcOk, Bool.and_eq_true] at hchi
      obtain rfl := PC.beq_eq hchi.1
      simp only [Term.idents] at hft
      simp only [sigmaCut, Term.ty]
      rw [focusStmt_cut1_eq, bindTerm_xtorP_eq]
      exact bindMany_cong rfl hft hft (kcong_sig_xtorP h hf hy hyg name ty)
    | xcase pc' ty cl =>
      simp only [Term.pcOk, Bool.and_eq_true] at hchi
      obtain rfl := PC.beq_eq hchi.1
      simp only [Term.idents] at hft
      simp only [sigmaCut, Term.ty]
      rw [focusStmt_cut4_eq _ _ _ _ (by intro _ _ _ _ e; cases e) (by intro _ _ _ _ e; cases e)
        (by intro _ _ _ e; cases e), bindTerm_xcaseP_eq]
      simp only [focusTerm_xcase_eq, focusTerm_mu_eq, kFoc, Binding.toTerm, FsStmt.embed,
        FsTerm.embed, dbS, dbT]
      have := focusClauses_le cl n
      have := focusStmt_le (S (.var .prd (xN n) ty)) (n + 1)
      rw [focusClauses_cong (sc := sc) (sc' := sc) (cl := cl) (cl' := cl) (n := n)
          (n' := (focusStmt (S (.var .prd (xN n) ty)) (n + 1)).2) rfl hft (hft.mono (by omega)),
        core0 (xN n) (focusClauses cl n).2 (n + 1) (gen_x n n (Nat.le_refl _))
          (not_gen_x n) (by omega) (by omega)]
  | cns =>
    cases t with
    | var pc' v ty => simp [Term.isVar] at hnv
    | lit i => simp only [Term.pcOk] at hchi; exact absurd hchi (by decide)
    | op a o b =>
      simp only [Term.pcOk, Bool.and_eq_true] at hchi; exact absurd hchi.1.1 (by decide)
    | mu pc' v ty s0 =>
      simp only [Term.pcOk, Bool.and_eq_true] at hchi
      obtain rfl := PC.beq_eq hchi.1
      simp only [Term.idents, FreshL_cons] at hft
      simp only [sigmaCut, Term.ty]
      rw [focusStmt_cut4_eq _ _ _ _ (by intro _ _ _ _ e; cases e) (by intro _ _ _ _ e; cases e)
        (by intro _ _ _ e; cases e), bindTerm_muC_eq]
      simp only [focusTerm_mu_eq, kFoc, Binding.toTerm, FsStmt.embed, FsTerm.embed, dbS, dbT]
      have := focusStmt_le (S (.var .cns y ty)) n
      have := focusStmt_le (S (.var .cns (aN n) ty)) (n + 1)
      rw [focusStmt_cong (sc := v :: sc) (sc' := v :: sc) (s := s0) (s' := s0)
          (n := (focusStmt (S (.var .cns y ty)) n).2)
          (n' := (focusStmt (S (.var .cns (aN n) ty)) (n + 1)).2) rfl (hft.2.mono (by omega))
          (hft.2.mono (by omega)),
        core0 (aN n) n (n + 1) (gen_a n n (Nat.le_refl _)) (not_gen_a n) (by omega) (by omega)]
    | xtor pc' name as ty =>
      simp only [Term.pcOk, Bool.and_eq_true] at hchi
      obtain rfl := PC.beq_eq hchi.1
      simp only [Term.idents] at hft
      simp only [sigmaCut, Term.ty]
      rw [focusStmt_cut2_eq _ _ _ _ _ _ _ (by intro _ _ _ _ e; cases e), bindTerm_xtorC_eq]
      exact bindMany_cong rfl hft hft (kcong_sig_xtorC h hf hy hyg name ty)
    | xcase pc' ty cl =>
      simp only [Term.pcOk, Bool.and_eq_true] at hchi
      obtain rfl := PC.beq_eq hchi.1
      simp only [Term.idents] at hft
      simp only [sigmaCut, Term.ty]
      rw [focusStmt_cut4_eq _ _ _ _ (by intro _ _ _ _ e; cases e) (by intro _ _ _ _ e; cases e)
        (by intro _ _ _ e; cases e), bindTerm_xcaseC_eq]
      simp only [focusTerm_xcase_eq, focusTerm_mu_eq, kFoc, Binding.toTerm, FsStmt.embed,
        FsTerm.embed, dbS, dbT]
      have := focusStmt_le (S (.var .cns y ty)) n
      have := focusStmt_le (S (.var .cns (aN n) ty)) (n + 1)
      rw [focusClauses_cong (sc := sc) (sc' := sc) (cl := cl) (cl' := cl)
          (n := (focusStmt (S (.var .cns y ty)) n).2)
          (n' := (focusStmt (S (.var .cns (aN n) ty)) (n + 1)).2) rfl (hft.mono (by omega))
          (hft.mono (by omega)),
        core0 (aN n) n (n + 1) (gen_a n n (Nat.le_refl _)) (not_gen_a n) (by omega) (by omega)]

end Scc.Core
