/-
  Scc.Core.ProofsUniqAlphaC — `uniquifyStmt_alpha`: the functional induction over `uniquify`
  (statements U1–U4), and the consequences for definitions and programs.
-/
import Scc.Core.ProofsUniqAlphaB

namespace Scc.Core

/-! ## the single binder of a `μ` -/

theorem ren_single_cns (n : Nat) (v : Ident) (hv : v.id = 0) (ty : Ty) (sc : List Ident)
    (chis : List PC) :
    REN n [] [(v, .var .cns ⟨v.name, n + 1⟩ ty)] (v :: sc) (⟨v.name, n + 1⟩ :: sc) (.cns :: chis) ∧
    CtxSubstOK n (n + 1) [] [(v, .var .cns ⟨v.name, n + 1⟩ ty)] := by
  have h1 := uniquifyCtx_ren [⟨v, .cns, ty⟩] n (by simp [hv]) sc chis
  have h2 := uniquifyCtx_substOK [⟨v, .cns, ty⟩] n (by simp [hv])
  simp only [uniquifyCtx, hv, freshIdentifier, if_true, ctxVars, List.map_cons, List.map_nil,
    List.cons_append, List.nil_append] at h1 h2
  exact ⟨h1, h2⟩

theorem ren_single_prd (n : Nat) (v : Ident) (hv : v.id = 0) (ty : Ty) (sc : List Ident)
    (chis : List PC) :
    REN n [(v, .var .prd ⟨v.name, n + 1⟩ ty)] [] (v :: sc) (⟨v.name, n + 1⟩ :: sc) (.prd :: chis) ∧
    CtxSubstOK n (n + 1) [(v, .var .prd ⟨v.name, n + 1⟩ ty)] [] := by
  have h1 := uniquifyCtx_ren [⟨v, .prd, ty⟩] n (by simp [hv]) sc chis
  have h2 := uniquifyCtx_substOK [⟨v, .prd, ty⟩] n (by simp [hv])
  simp only [uniquifyCtx, hv, freshIdentifier, if_true, ctxVars, List.map_cons, List.map_nil,
    List.cons_append, List.nil_append] at h1 h2
  exact ⟨h1, h2⟩

/-! ## the four statements -/

def U1 (t : Term) (n : Nat) : Prop :=
  ∀ sc chis, (∀ b ∈ t.binderIds, b = 0) → IdsLe n t.idents → (dbT sc t).chiWS chis →
    dbT sc t = dbT sc (uniquifyTerm t n).1 ∧
    IdsLe (uniquifyTerm t n).2 (uniquifyTerm t n).1.idents ∧ n ≤ (uniquifyTerm t n).2
def U2 (cl : Clauses) (n : Nat) : Prop :=
  ∀ sc chis, (∀ b ∈ cl.binderIds, b = 0) → IdsLe n cl.idents → (dbC sc cl).chiWS chis →
    dbC sc cl = dbC sc (uniquifyClauses cl n).1 ∧
    IdsLe (uniquifyClauses cl n).2 (uniquifyClauses cl n).1.idents ∧ n ≤ (uniquifyClauses cl n).2
def U3 (s : Stmt) (n : Nat) : Prop :=
  ∀ sc chis, (∀ b ∈ s.binderIds, b = 0) → IdsLe n s.idents → (dbS sc s).chiWS chis →
    dbS sc s = dbS sc (uniquifyStmt s n).1 ∧
    IdsLe (uniquifyStmt s n).2 (uniquifyStmt s n).1.idents ∧ n ≤ (uniquifyStmt s n).2
def U4 (as : Args) (n : Nat) : Prop :=
  ∀ sc chis, (∀ b ∈ as.binderIds, b = 0) → IdsLe n as.idents → (dbA sc as).chiWS chis →
    dbA sc as = dbA sc (uniquifyArgs as n).1 ∧
    IdsLe (uniquifyArgs as n).2 (uniquifyArgs as n).1.idents ∧ n ≤ (uniquifyArgs as n).2

theorem uniquifyStmt_alpha (s : Stmt) (n : Nat) : U3 s n := by
  apply uniquifyStmt.induct (motive1 := U1) (motive2 := U2) (motive3 := U3) (motive4 := U4)
  -- uniquifyTerm: var, lit
  · intro n pc v ty sc chis _ hi _
    simp only [uniquifyTerm]
    exact ⟨trivial, hi, Nat.le_refl _⟩
  · intro n k sc chis _ hi _
    simp only [uniquifyTerm]
    exact ⟨trivial, hi, Nat.le_refl _⟩
  -- op
  · intro n a o b a' n1 ha b' n2 hb iha ihb sc chis hz hi hw
    simp only [Term.binderIds, List.mem_append] at hz
    simp only [Term.idents, IdsLe_append] at hi
    simp only [dbT, DTerm.chiWS] at hw
    obtain ⟨e1, i1, l1⟩ := iha sc chis (fun x hx => hz x (Or.inl hx)) hi.1 hw.1
    rw [ha] at e1 i1 l1
    obtain ⟨e2, i2, l2⟩ := ihb sc chis (fun x hx => hz x (Or.inr hx)) (hi.2.mono l1) hw.2
    rw [hb] at e2 i2 l2
    simp only [uniquifyTerm, ha, hb, dbT, Term.idents, IdsLe_append]
    simp only at e1 i1 l1 e2 i2 l2
    exact ⟨by rw [e1, e2], ⟨i1.mono l2, i2⟩, by omega⟩
  -- μ binding a covariable, id 0
  · intro n v ty s hv newVar n1 hfresh s' n2 hs ih sc chis hz hi hw
    simp only [freshIdentifier, Prod.mk.injEq] at hfresh
    obtain ⟨rfl, rfl⟩ := hfresh
    simp only [Term.binderIds, List.mem_cons] at hz
    simp only [Term.idents, IdsLe_cons] at hi
    simp only [dbT, DTerm.chiWS, PC.flip] at hw
    obtain ⟨hR, hok⟩ := ren_single_cns n v hv ty sc chis
    have hren := ren_stmt s hR hok.vp hok.vc hok.gp hok.gc hi.2 hw
    obtain ⟨e, i, l⟩ := ih (⟨v.name, n + 1⟩ :: sc) (.cns :: chis)
      (by
        rw [binderIds_substStmt _ _ (by simp [Subst.allVars]) (by simp [Subst.allVars])]
        exact fun x hx => hz x (Or.inr hx))
      (idsLe_substStmt s hok.lp hok.lc (hi.2.mono (Nat.le_succ _)))
      (by rw [← hren]; exact hw)
    rw [hs] at e i l
    simp only at e i l
    simp only [uniquifyTerm, hv, freshIdentifier, hs, if_true, dbT, Term.idents, IdsLe_cons]
    exact ⟨by rw [hren, e], ⟨by simpa using l, i⟩, by omega⟩
  -- μ~ binding a variable, id 0
  · intro n v ty s hv newVar n1 hfresh s' n2 hs ih sc chis hz hi hw
    simp only [freshIdentifier, Prod.mk.injEq] at hfresh
    obtain ⟨rfl, rfl⟩ := hfresh
    simp only [Term.binderIds, List.mem_cons] at hz
    simp only [Term.idents, IdsLe_cons] at hi
    simp only [dbT, DTerm.chiWS, PC.flip] at hw
    obtain ⟨hR, hok⟩ := ren_single_prd n v hv ty sc chis
    have hren := ren_stmt s hR hok.vp hok.vc hok.gp hok.gc hi.2 hw
    obtain ⟨e, i, l⟩ := ih (⟨v.name, n + 1⟩ :: sc) (.prd :: chis)
      (by
        rw [binderIds_substStmt _ _ (by simp [Subst.allVars]) (by simp [Subst.allVars])]
        exact fun x hx => hz x (Or.inr hx))
      (idsLe_substStmt s hok.lp hok.lc (hi.2.mono (Nat.le_succ _)))
      (by rw [← hren]; exact hw)
    rw [hs] at e i l
    simp only at e i l
    simp only [uniquifyTerm, hv, freshIdentifier, hs, if_true, dbT, Term.idents, IdsLe_cons]
    exact ⟨by rw [hren, e], ⟨by simpa using l, i⟩, by omega⟩
  -- μ with id ≠ 0: excluded
  · intro n pc v ty s hv s' n2 hs ih sc chis hz _ _
    exact absurd (hz v.id (by simp [Term.binderIds])) hv
  -- xtor
  · intro n pc name as ty as' n1 has ih sc chis hz hi hw
    simp only [Term.binderIds] at hz
    simp only [Term.idents] at hi
    simp only [dbT, DTerm.chiWS] at hw
    obtain ⟨e, i, l⟩ := ih sc chis hz hi hw
    rw [has] at e i l
    simp only [uniquifyTerm, has, dbT, Term.idents]
    exact ⟨by rw [e], i, l⟩
  -- xcase
  · intro n pc ty cs cl' n1 hcl ih sc chis hz hi hw
    simp only [Term.binderIds] at hz
    simp only [Term.idents] at hi
    simp only [dbT, DTerm.chiWS] at hw
    obtain ⟨e, i, l⟩ := ih sc chis hz hi hw
    rw [hcl] at e i l
    simp only [uniquifyTerm, hcl, dbT, Term.idents]
    exact ⟨by rw [e], i, l⟩
  -- uniquifyClauses
  · intro n sc chis _ _ _
    simp [uniquifyClauses, Clauses.idents]
  · intro n x ctx b r u s' n2 hs cl' n1 hr ihb ihr sc chis hz hi hw
    simp only [u] at hs ihb
    simp only [Clauses.binderIds, List.mem_append] at hz
    simp only [Clauses.idents, IdsLe_append] at hi
    simp only [dbC, DClauses.chiWS, ctxSig_map_fst] at hw
    have hzc : ∀ b' ∈ ctx, b'.var.id = 0 := fun b' hb' =>
      hz _ (Or.inl (Or.inl (by simp only [ctxIds, List.mem_map]; exact ⟨b', hb', rfl⟩)))
    have hR := uniquifyCtx_ren ctx n hzc sc chis
    have hok := uniquifyCtx_substOK ctx n hzc
    have hle := uniquifyCtx_le ctx n
    have hren := ren_stmt b hR hok.vp hok.vc hok.gp hok.gc hi.1.2 hw.1
    have hsig := uniquifyCtx_sig ctx n
    have hchis : (uniquifyCtx ctx n).ctx.map (·.chi) = ctx.map (·.chi) := by
      rw [← ctxSig_map_fst, hsig, ctxSig_map_fst]
    rw [substIfAny_eq] at hs ihb
    obtain ⟨e, i, l⟩ := ihb (ctxVars (uniquifyCtx ctx n).ctx ++ sc) (ctx.map (·.chi) ++ chis)
      (by
        rw [binderIds_substStmt _ _ (uniquifyCtx_allVars ctx n).1 (uniquifyCtx_allVars ctx n).2]
        exact fun y hy => hz y (Or.inl (Or.inr hy)))
      (idsLe_substStmt b hok.lp hok.lc (hi.1.2.mono hle))
      (by rw [← hren]; exact hw.1)
    rw [hs] at e i l
    simp only at e i l
    obtain ⟨e2, i2, l2⟩ := ihr sc chis (fun y hy => hz y (Or.inr hy))
      (hi.2.mono (Nat.le_trans hle l)) hw.2
    rw [hr] at e2 i2 l2
    simp only at e2 i2 l2
    simp only [uniquifyClauses, substIfAny_eq, hs, hr, dbC, Clauses.idents, IdsLe_append]
    refine ⟨by rw [hsig, hren, e, e2], ⟨⟨?_, i.mono l2⟩, i2⟩, by omega⟩
    exact (uniquifyCtx_idsLe ctx n hzc).mono (Nat.le_trans l l2)
  -- uniquifyStmt: cut
  · intro n ty p c p' n1 hp c' n2 hc ihp ihc sc chis hz hi hw
    simp only [Stmt.binderIds, List.mem_append] at hz
    simp only [Stmt.idents, IdsLe_append] at hi
    simp only [dbS, DStmt.chiWS] at hw
    obtain ⟨e1, i1, l1⟩ := ihp sc chis (fun x hx => hz x (Or.inl hx)) hi.1 hw.1
    rw [hp] at e1 i1 l1
    obtain ⟨e2, i2, l2⟩ := ihc sc chis (fun x hx => hz x (Or.inr hx)) (hi.2.mono l1) hw.2
    rw [hc] at e2 i2 l2
    simp only at e1 i1 l1 e2 i2 l2
    simp only [uniquifyStmt, hp, hc, dbS, Stmt.idents, IdsLe_append]
    exact ⟨by rw [e1, e2], ⟨i1.mono l2, i2⟩, by omega⟩
  -- ifc
  · intro n srt a b t e a' n1 ha b' n2 hb t' n3 ht e' n4 he iha ihb iht ihe sc chis hz hi hw
    simp only [Stmt.binderIds, List.mem_append] at hz
    simp only [Stmt.idents, IdsLe_append] at hi
    simp only [dbS, DStmt.chiWS] at hw
    obtain ⟨e1, i1, l1⟩ := iha sc chis (fun x hx => hz x (Or.inl (Or.inl (Or.inl hx)))) hi.1.1.1 hw.1
    rw [ha] at e1 i1 l1
    obtain ⟨e2, i2, l2⟩ := ihb sc chis (fun x hx => hz x (Or.inl (Or.inl (Or.inr hx))))
      (hi.1.1.2.mono l1) hw.2.1
    rw [hb] at e2 i2 l2
    simp only at e1 i1 l1 e2 i2 l2
    obtain ⟨e3, i3, l3⟩ := iht sc chis (fun x hx => hz x (Or.inl (Or.inr hx)))
      (hi.1.2.mono (by omega)) hw.2.2.1
    rw [ht] at e3 i3 l3
    simp only at e3 i3 l3
    obtain ⟨e4, i4, l4⟩ := ihe sc chis (fun x hx => hz x (Or.inr hx))
      (hi.2.mono (by omega)) hw.2.2.2
    rw [he] at e4 i4 l4
    simp only at e4 i4 l4
    simp only [uniquifyStmt, ha, hb, ht, he, dbS, Stmt.idents, IdsLe_append]
    exact ⟨by rw [e1, e2, e3, e4],
      ⟨⟨⟨i1.mono (by omega), i2.mono (by omega)⟩, i3.mono l4⟩, i4⟩, by omega⟩
  -- ifz
  · intro n srt a t e a' n1 ha t' n3 ht e' n4 he iha iht ihe sc chis hz hi hw
    simp only [Stmt.binderIds, List.mem_append] at hz
    simp only [Stmt.idents, IdsLe_append] at hi
    simp only [dbS, DStmt.chiWS] at hw
    obtain ⟨e1, i1, l1⟩ := iha sc chis (fun x hx => hz x (Or.inl (Or.inl hx))) hi.1.1 hw.1
    rw [ha] at e1 i1 l1
    simp only at e1 i1 l1
    obtain ⟨e3, i3, l3⟩ := iht sc chis (fun x hx => hz x (Or.inl (Or.inr hx)))
      (hi.1.2.mono l1) hw.2.1
    rw [ht] at e3 i3 l3
    simp only at e3 i3 l3
    obtain ⟨e4, i4, l4⟩ := ihe sc chis (fun x hx => hz x (Or.inr hx))
      (hi.2.mono (by omega)) hw.2.2
    rw [he] at e4 i4 l4
    simp only at e4 i4 l4
    simp only [uniquifyStmt, ha, ht, he, dbS, Stmt.idents, IdsLe_append]
    exact ⟨by rw [e1, e3, e4], ⟨⟨i1.mono (by omega), i3.mono l4⟩, i4⟩, by omega⟩
  -- print
  · intro n nl a nx a' n1 ha nx' n2 hn iha ihn sc chis hz hi hw
    simp only [Stmt.binderIds, List.mem_append] at hz
    simp only [Stmt.idents, IdsLe_append] at hi
    simp only [dbS, DStmt.chiWS] at hw
    obtain ⟨e1, i1, l1⟩ := iha sc chis (fun x hx => hz x (Or.inl hx)) hi.1 hw.1
    rw [ha] at e1 i1 l1
    simp only at e1 i1 l1
    obtain ⟨e2, i2, l2⟩ := ihn sc chis (fun x hx => hz x (Or.inr hx)) (hi.2.mono l1) hw.2
    rw [hn] at e2 i2 l2
    simp only at e2 i2 l2
    simp only [uniquifyStmt, ha, hn, dbS, Stmt.idents, IdsLe_append]
    exact ⟨by rw [e1, e2], ⟨i1.mono l2, i2⟩, by omega⟩
  -- call
  · intro n f as ty as' n1 has ih sc chis hz hi hw
    simp only [Stmt.binderIds] at hz
    simp only [Stmt.idents] at hi
    simp only [dbS, DStmt.chiWS] at hw
    obtain ⟨e, i, l⟩ := ih sc chis hz hi hw
    rw [has] at e i l
    simp only [uniquifyStmt, has, dbS, Stmt.idents]
    exact ⟨by rw [e], i, l⟩
  -- exit
  · intro n a ty a' n1 ha ih sc chis hz hi hw
    simp only [Stmt.binderIds] at hz
    simp only [Stmt.idents] at hi
    simp only [dbS, DStmt.chiWS] at hw
    obtain ⟨e, i, l⟩ := ih sc chis hz hi hw
    rw [ha] at e i l
    simp only [uniquifyStmt, ha, dbS, Stmt.idents]
    exact ⟨by rw [e], i, l⟩
  -- uniquifyArgs
  · intro n sc chis _ _ _
    simp [uniquifyArgs, Args.idents]
  · intro n pc t r t' n1 ht r' n2 hr iht ihr sc chis hz hi hw
    simp only [Args.binderIds, List.mem_append] at hz
    simp only [Args.idents, IdsLe_append] at hi
    simp only [dbA, DArgs.chiWS] at hw
    obtain ⟨e1, i1, l1⟩ := iht sc chis (fun x hx => hz x (Or.inl hx)) hi.1 hw.1
    rw [ht] at e1 i1 l1
    simp only at e1 i1 l1
    obtain ⟨e2, i2, l2⟩ := ihr sc chis (fun x hx => hz x (Or.inr hx)) (hi.2.mono l1) hw.2
    rw [hr] at e2 i2 l2
    simp only at e2 i2 l2
    simp only [uniquifyArgs, ht, hr, dbA, Args.idents, IdsLe_append]
    exact ⟨by rw [e1, e2], ⟨i1.mono l2, i2⟩, by omega⟩

end Scc.Core
