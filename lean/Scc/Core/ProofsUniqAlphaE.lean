/-
  Scc.Core.ProofsUniqAlphaE — what `uniquify` preserves besides the nameless form:
  `cutsOk` and `pcOk` are properties of the nameless form (hence α-invariant), and every identifier
  of the result carries the NAME of an identifier of the input (so no `ς` is introduced).
  Consequence: `uniquifyProg p` is itself an admissible input of the focusing simulation
  (`uniquifyProg_oks`), which gives the semantic form of "uniquify is an α-renaming".
-/
import Scc.Core.ProofsUniqAlphaD

namespace Scc.Core

/-! ## `cutsOk`, `pcOk` on nameless forms -/

mutual
  def DTerm.cutsOk : DTerm → Bool
    | .var _ _ => true
    | .lit _ => true
    | .op a _ b => a.cutsOk && b.cutsOk
    | .mu _ _ s => s.cutsOk
    | .xtor _ _ as _ => as.cutsOk
    | .xcase _ _ cl => cl.cutsOk
  def DArgs.cutsOk : DArgs → Bool
    | .nil => true
    | .cons _ t r => t.cutsOk && r.cutsOk
  def DClauses.cutsOk : DClauses → Bool
    | .nil => true
    | .cons _ _ b r => b.cutsOk && r.cutsOk
  def DStmt.cutsOk : DStmt → Bool
    | .cut _ (.xtor _ _ as _) (.xtor _ _ _ _) => as.cutsOk && false
    | .cut _ (.op _ _ _) (.xtor _ _ as _) => as.cutsOk && false
    | .cut _ p c => p.cutsOk && c.cutsOk
    | .ifc _ a b t e => a.cutsOk && b.cutsOk && t.cutsOk && e.cutsOk
    | .ifz _ a t e => a.cutsOk && t.cutsOk && e.cutsOk
    | .print _ a n => a.cutsOk && n.cutsOk
    | .call _ as _ => as.cutsOk
    | .exit a _ => a.cutsOk
end

mutual
  theorem dbT_cutsOk (sc : List Ident) : (t : Term) → (dbT sc t).cutsOk = t.cutsOk
    | .var _ _ _ => rfl
    | .lit _ => rfl
    | .op a o b => by simp [dbT, DTerm.cutsOk, Term.cutsOk, dbT_cutsOk sc a, dbT_cutsOk sc b]
    | .mu pc v ty s => by simp [dbT, DTerm.cutsOk, Term.cutsOk, dbS_cutsOk (v :: sc) s]
    | .xtor pc k as ty => by simp [dbT, DTerm.cutsOk, Term.cutsOk, dbA_cutsOk sc as]
    | .xcase pc ty cl => by simp [dbT, DTerm.cutsOk, Term.cutsOk, dbC_cutsOk sc cl]
  theorem dbA_cutsOk (sc : List Ident) : (as : Args) → (dbA sc as).cutsOk = as.cutsOk
    | .nil => rfl
    | .cons pc t r => by simp [dbA, DArgs.cutsOk, Args.cutsOk, dbT_cutsOk sc t, dbA_cutsOk sc r]
  theorem dbC_cutsOk (sc : List Ident) : (cl : Clauses) → (dbC sc cl).cutsOk = cl.cutsOk
    | .nil => rfl
    | .cons x ctx b r => by
      simp [dbC, DClauses.cutsOk, Clauses.cutsOk, dbS_cutsOk (ctxVars ctx ++ sc) b,
        dbC_cutsOk sc r]
  theorem dbS_cutsOk (sc : List Ident) : (s : Stmt) → (dbS sc s).cutsOk = s.cutsOk
    | .cut ty p c => by
      have hp := dbT_cutsOk sc p
      have hc := dbT_cutsOk sc c
      cases p <;> cases c <;>
        simp_all [dbS, dbT, DStmt.cutsOk, Stmt.cutsOk, DTerm.cutsOk, Term.cutsOk]
    | .ifc srt a b t e => by
      simp [dbS, DStmt.cutsOk, Stmt.cutsOk, dbT_cutsOk sc a, dbT_cutsOk sc b, dbS_cutsOk sc t,
        dbS_cutsOk sc e]
    | .ifz srt a t e => by
      simp [dbS, DStmt.cutsOk, Stmt.cutsOk, dbT_cutsOk sc a, dbS_cutsOk sc t, dbS_cutsOk sc e]
    | .print nl a n => by
      simp [dbS, DStmt.cutsOk, Stmt.cutsOk, dbT_cutsOk sc a, dbS_cutsOk sc n]
    | .call f as ty => by simp [dbS, DStmt.cutsOk, Stmt.cutsOk, dbA_cutsOk sc as]
    | .exit a ty => by simp [dbS, DStmt.cutsOk, Stmt.cutsOk, dbT_cutsOk sc a]
end

mutual
  def DTerm.pcOk : PC → DTerm → Bool
    | _, .var _ _ => true
    | pc, .lit _ => pc == .prd
    | pc, .op a _ b => pc == .prd && a.pcOk .prd && b.pcOk .prd
    | pc, .mu pc' _ s => pc' == pc && s.pcOk
    | pc, .xtor pc' _ as _ => pc' == pc && as.pcOk
    | pc, .xcase pc' _ cl => pc' == pc && cl.pcOk
  def DArgs.pcOk : DArgs → Bool
    | .nil => true
    | .cons pc t r => t.pcOk pc && r.pcOk
  def DClauses.pcOk : DClauses → Bool
    | .nil => true
    | .cons _ _ b r => b.pcOk && r.pcOk
  def DStmt.pcOk : DStmt → Bool
    | .cut _ p c => p.pcOk .prd && c.pcOk .cns
    | .ifc _ a b t e => a.pcOk .prd && b.pcOk .prd && t.pcOk && e.pcOk
    | .ifz _ a t e => a.pcOk .prd && t.pcOk && e.pcOk
    | .print _ a n => a.pcOk .prd && n.pcOk
    | .call _ as _ => as.pcOk
    | .exit a _ => a.pcOk .prd
end

mutual
  theorem dbT_pcOk (sc : List Ident) (pc : PC) : (t : Term) → (dbT sc t).pcOk pc = t.pcOk pc
    | .var _ _ _ => rfl
    | .lit _ => rfl
    | .op a o b => by simp [dbT, DTerm.pcOk, Term.pcOk, dbT_pcOk sc .prd a, dbT_pcOk sc .prd b]
    | .mu pc' v ty s => by simp [dbT, DTerm.pcOk, Term.pcOk, dbS_pcOk (v :: sc) s]
    | .xtor pc' k as ty => by simp [dbT, DTerm.pcOk, Term.pcOk, dbA_pcOk sc as]
    | .xcase pc' ty cl => by simp [dbT, DTerm.pcOk, Term.pcOk, dbC_pcOk sc cl]
  theorem dbA_pcOk (sc : List Ident) : (as : Args) → (dbA sc as).pcOk = as.pcOk
    | .nil => rfl
    | .cons pc t r => by simp [dbA, DArgs.pcOk, Args.pcOk, dbT_pcOk sc pc t, dbA_pcOk sc r]
  theorem dbC_pcOk (sc : List Ident) : (cl : Clauses) → (dbC sc cl).pcOk = cl.pcOk
    | .nil => rfl
    | .cons x ctx b r => by
      simp [dbC, DClauses.pcOk, Clauses.pcOk, dbS_pcOk (ctxVars ctx ++ sc) b, dbC_pcOk sc r]
  theorem dbS_pcOk (sc : List Ident) : (s : Stmt) → (dbS sc s).pcOk = s.pcOk
    | .cut ty p c => by
      simp [dbS, DStmt.pcOk, Stmt.pcOk, dbT_pcOk sc .prd p, dbT_pcOk sc .cns c]
    | .ifc srt a b t e => by
      simp [dbS, DStmt.pcOk, Stmt.pcOk, dbT_pcOk sc .prd a, dbT_pcOk sc .prd b, dbS_pcOk sc t,
        dbS_pcOk sc e]
    | .ifz srt a t e => by
      simp [dbS, DStmt.pcOk, Stmt.pcOk, dbT_pcOk sc .prd a, dbS_pcOk sc t, dbS_pcOk sc e]
    | .print nl a n => by
      simp [dbS, DStmt.pcOk, Stmt.pcOk, dbT_pcOk sc .prd a, dbS_pcOk sc n]
    | .call f as ty => by simp [dbS, DStmt.pcOk, Stmt.pcOk, dbA_pcOk sc as]
    | .exit a ty => by simp [dbS, DStmt.pcOk, Stmt.pcOk, dbT_pcOk sc .prd a]
end

theorem DefAlpha.cutsOk {d d' : Def} (h : DefAlpha d d') : d'.body.cutsOk = d.body.cutsOk := by
  rw [← dbS_cutsOk (ctxVars d'.ctx), ← dbS_cutsOk (ctxVars d.ctx), h.body]

theorem DefAlpha.pcOk {d d' : Def} (h : DefAlpha d d') : d'.body.pcOk = d.body.pcOk := by
  rw [← dbS_pcOk (ctxVars d'.ctx), ← dbS_pcOk (ctxVars d.ctx), h.body]

/-! ## names -/

/-- every identifier of the list has a name satisfying `P` -/
def AllN (P : String → Prop) (l : List Ident) : Prop := ∀ i ∈ l, P i.name

@[simp] theorem AllN_nil (P : String → Prop) : AllN P [] := by simp [AllN]
@[simp] theorem AllN_append (P : String → Prop) (a b : List Ident) :
    AllN P (a ++ b) ↔ AllN P a ∧ AllN P b := by
  simp only [AllN, List.mem_append]
  constructor
  · intro h; exact ⟨fun i hi => h i (Or.inl hi), fun i hi => h i (Or.inr hi)⟩
  · rintro ⟨h1, h2⟩ i (hi | hi)
    · exact h1 i hi
    · exact h2 i hi
@[simp] theorem AllN_cons (P : String → Prop) (a : Ident) (b : List Ident) :
    AllN P (a :: b) ↔ P a.name ∧ AllN P b := by
  simp [AllN]

def Subst.RangeN (P : String → Prop) (σ : Subst) : Prop :=
  ∀ x t, substFind σ x = some t → AllN P t.idents

theorem Removed.rangeN {pre σ σ1 P} (h : Removed pre σ σ1) (hv : Subst.RangeN P σ) :
    Subst.RangeN P σ1 := fun x t hf => hv x t (h.find_some hf)

section
variable {P : String → Prop}

mutual
  theorem allN_substTerm : (t : Term) → ∀ {ps cs : Subst}, Subst.RangeN P ps →
      Subst.RangeN P cs → AllN P t.idents → AllN P (substTerm ps cs t).idents
    | .var .prd v ty, ps, cs, hp, _, hi => by
      simp only [substTerm]
      cases hf : substFind ps v with
      | none => exact hi
      | some t => exact hp v t hf
    | .var .cns v ty, ps, cs, _, hc, hi => by
      simp only [substTerm]
      cases hf : substFind cs v with
      | none => exact hi
      | some t => exact hc v t hf
    | .lit k, _, _, _, _, hi => by simpa [substTerm] using hi
    | .op a o b, ps, cs, hp, hc, hi => by
      simp only [Term.idents, AllN_append] at hi
      simp only [substTerm, Term.idents, AllN_append]
      exact ⟨allN_substTerm a hp hc hi.1, allN_substTerm b hp hc hi.2⟩
    | .mu pc v ty s, ps, cs, hp, hc, hi => by
      simp only [Term.idents, AllN_cons] at hi
      simp only [substTerm, Term.idents, AllN_cons]
      exact ⟨hi.1, allN_substStmt s ((Removed.single ps v).rangeN hp)
        ((Removed.single cs v).rangeN hc) hi.2⟩
    | .xtor pc k as ty, ps, cs, hp, hc, hi => by
      simp only [Term.idents] at hi
      simp only [substTerm, Term.idents]
      exact allN_substArgs as hp hc hi
    | .xcase pc ty cl, ps, cs, hp, hc, hi => by
      simp only [Term.idents] at hi
      simp only [substTerm, Term.idents]
      exact allN_substClauses cl hp hc hi
  theorem allN_substArgs : (as : Args) → ∀ {ps cs : Subst}, Subst.RangeN P ps →
      Subst.RangeN P cs → AllN P as.idents → AllN P (substArgs ps cs as).idents
    | .nil, _, _, _, _, _ => by simp [substArgs, Args.idents]
    | .cons pc t r, ps, cs, hp, hc, hi => by
      simp only [Args.idents, AllN_append] at hi
      simp only [substArgs, Args.idents, AllN_append]
      exact ⟨allN_substTerm t hp hc hi.1, allN_substArgs r hp hc hi.2⟩
  theorem allN_substClauses : (cl : Clauses) → ∀ {ps cs : Subst}, Subst.RangeN P ps →
      Subst.RangeN P cs → AllN P cl.idents → AllN P (substClauses ps cs cl).idents
    | .nil, _, _, _, _, _ => by simp [substClauses, Clauses.idents]
    | .cons x ctx b r, ps, cs, hp, hc, hi => by
      simp only [Clauses.idents, AllN_append] at hi
      simp only [substClauses, Clauses.idents, AllN_append]
      exact ⟨⟨hi.1.1, allN_substStmt b ((Removed.ctx ps ctx).rangeN hp)
        ((Removed.ctx cs ctx).rangeN hc) hi.1.2⟩, allN_substClauses r hp hc hi.2⟩
  theorem allN_substStmt : (s : Stmt) → ∀ {ps cs : Subst}, Subst.RangeN P ps →
      Subst.RangeN P cs → AllN P s.idents → AllN P (substStmt ps cs s).idents
    | .cut ty p c, ps, cs, hp, hc, hi => by
      simp only [Stmt.idents, AllN_append] at hi
      simp only [substStmt, Stmt.idents, AllN_append]
      exact ⟨allN_substTerm p hp hc hi.1, allN_substTerm c hp hc hi.2⟩
    | .ifc srt a b t e, ps, cs, hp, hc, hi => by
      simp only [Stmt.idents, AllN_append] at hi
      simp only [substStmt, Stmt.idents, AllN_append]
      exact ⟨⟨⟨allN_substTerm a hp hc hi.1.1.1, allN_substTerm b hp hc hi.1.1.2⟩,
        allN_substStmt t hp hc hi.1.2⟩, allN_substStmt e hp hc hi.2⟩
    | .ifz srt a t e, ps, cs, hp, hc, hi => by
      simp only [Stmt.idents, AllN_append] at hi
      simp only [substStmt, Stmt.idents, AllN_append]
      exact ⟨⟨allN_substTerm a hp hc hi.1.1, allN_substStmt t hp hc hi.1.2⟩,
        allN_substStmt e hp hc hi.2⟩
    | .print nl a nx, ps, cs, hp, hc, hi => by
      simp only [Stmt.idents, AllN_append] at hi
      simp only [substStmt, Stmt.idents, AllN_append]
      exact ⟨allN_substTerm a hp hc hi.1, allN_substStmt nx hp hc hi.2⟩
    | .call f as ty, ps, cs, hp, hc, hi => by
      simp only [Stmt.idents] at hi
      simp only [substStmt, Stmt.idents]
      exact allN_substArgs as hp hc hi
    | .exit a ty, ps, cs, hp, hc, hi => by
      simp only [Stmt.idents] at hi
      simp only [substStmt, Stmt.idents]
      exact allN_substTerm a hp hc hi
end

theorem rangeN_nil : Subst.RangeN P [] := by intro x t h; simp [substFind] at h

theorem rangeN_cons {σ : Subst} (h : Subst.RangeN P σ) (v : Ident) (pc : PC) (w : Ident) (ty : Ty)
    (hw : P w.name) : Subst.RangeN P ((v, .var pc w ty) :: σ) := by
  intro x t hf
  simp only [substFind] at hf
  split at hf
  · cases hf; simpa [Term.idents] using hw
  · exact h x t hf

theorem uniquifyCtx_names (c : Ctx) (n : Nat) (h : AllN P (ctxVars c)) :
    AllN P (ctxVars (uniquifyCtx c n).ctx) ∧ Subst.RangeN P (uniquifyCtx c n).varSubst ∧
      Subst.RangeN P (uniquifyCtx c n).covarSubst := by
  induction c generalizing n with
  | nil => exact ⟨by simp [uniquifyCtx, ctxVars], rangeN_nil, rangeN_nil⟩
  | cons b r ih =>
    simp only [ctxVars_cons, AllN_cons] at h
    simp only [uniquifyCtx, freshIdentifier]
    split
    · obtain ⟨h1, h2, h3⟩ := ih (n + 1) h.2
      split
      · exact ⟨by simp [ctxVars_cons, h.1, h1], rangeN_cons h2 _ _ _ _ h.1, h3⟩
      · exact ⟨by simp [ctxVars_cons, h.1, h1], h2, rangeN_cons h3 _ _ _ _ h.1⟩
    · obtain ⟨h1, h2, h3⟩ := ih n h.2
      exact ⟨by simp [ctxVars_cons, h.1, h1], h2, h3⟩

end

/-! ### `uniquify` introduces no new names -/

def N1 (t : Term) (n : Nat) : Prop :=
  ∀ P : String → Prop, AllN P t.idents → AllN P (uniquifyTerm t n).1.idents
def N2 (cl : Clauses) (n : Nat) : Prop :=
  ∀ P : String → Prop, AllN P cl.idents → AllN P (uniquifyClauses cl n).1.idents
def N3 (s : Stmt) (n : Nat) : Prop :=
  ∀ P : String → Prop, AllN P s.idents → AllN P (uniquifyStmt s n).1.idents
def N4 (as : Args) (n : Nat) : Prop :=
  ∀ P : String → Prop, AllN P as.idents → AllN P (uniquifyArgs as n).1.idents

theorem uniquifyStmt_names (s : Stmt) (n : Nat) : N3 s n := by
  apply uniquifyStmt.induct (motive1 := N1) (motive2 := N2) (motive3 := N3) (motive4 := N4)
  · intro n pc v ty P hi
    simpa only [uniquifyTerm] using hi
  · intro n k P hi
    simpa only [uniquifyTerm] using hi
  · intro n a o b a' n1 ha b' n2 hb iha ihb P hi
    simp only [Term.idents, AllN_append] at hi
    have h1 := iha P hi.1
    have h2 := ihb P hi.2
    rw [ha] at h1; rw [hb] at h2
    simp only [uniquifyTerm, ha, hb, Term.idents, AllN_append]
    exact ⟨h1, h2⟩
  · intro n v ty s hv newVar n1 hfresh s' n2 hs ih P hi
    simp only [freshIdentifier, Prod.mk.injEq] at hfresh
    obtain ⟨rfl, rfl⟩ := hfresh
    simp only [Term.idents, AllN_cons] at hi
    have h := ih P (allN_substStmt s rangeN_nil (rangeN_cons rangeN_nil _ _ _ _ hi.1) hi.2)
    rw [hs] at h
    simp only [uniquifyTerm, hv, freshIdentifier, hs, if_true, Term.idents, AllN_cons]
    exact ⟨hi.1, h⟩
  · intro n v ty s hv newVar n1 hfresh s' n2 hs ih P hi
    simp only [freshIdentifier, Prod.mk.injEq] at hfresh
    obtain ⟨rfl, rfl⟩ := hfresh
    simp only [Term.idents, AllN_cons] at hi
    have h := ih P (allN_substStmt s (rangeN_cons rangeN_nil _ _ _ _ hi.1) rangeN_nil hi.2)
    rw [hs] at h
    simp only [uniquifyTerm, hv, freshIdentifier, hs, if_true, Term.idents, AllN_cons]
    exact ⟨hi.1, h⟩
  · intro n pc v ty s hv s' n2 hs ih P hi
    simp only [Term.idents, AllN_cons] at hi
    have h := ih P hi.2
    rw [hs] at h
    simp only [uniquifyTerm, hv, hs, if_false, Term.idents, AllN_cons]
    exact ⟨hi.1, h⟩
  · intro n pc name as ty as' n1 has ih P hi
    simp only [Term.idents] at hi
    have h := ih P hi
    rw [has] at h
    simpa only [uniquifyTerm, has, Term.idents] using h
  · intro n pc ty cs cl' n1 hcl ih P hi
    simp only [Term.idents] at hi
    have h := ih P hi
    rw [hcl] at h
    simpa only [uniquifyTerm, hcl, Term.idents] using h
  -- clauses
  · intro n P _
    simp [uniquifyClauses, Clauses.idents]
  · intro n x ctx b r u s' n2 hs cl' n1 hr ihb ihr P hi
    simp only [u] at hs ihb
    simp only [Clauses.idents, AllN_append] at hi
    obtain ⟨c1, c2, c3⟩ := uniquifyCtx_names (P := P) ctx n hi.1.1
    rw [substIfAny_eq] at hs ihb
    have h1 := ihb P (allN_substStmt b c2 c3 hi.1.2)
    have h2 := ihr P hi.2
    rw [hs] at h1; rw [hr] at h2
    simp only [uniquifyClauses, substIfAny_eq, hs, hr, Clauses.idents, AllN_append]
    exact ⟨⟨c1, h1⟩, h2⟩
  -- statements
  · intro n ty p c p' n1 hp c' n2 hc ihp ihc P hi
    simp only [Stmt.idents, AllN_append] at hi
    have h1 := ihp P hi.1
    have h2 := ihc P hi.2
    rw [hp] at h1; rw [hc] at h2
    simp only [uniquifyStmt, hp, hc, Stmt.idents, AllN_append]
    exact ⟨h1, h2⟩
  · intro n srt a b t e a' n1 ha b' n2 hb t' n3 ht e' n4 he iha ihb iht ihe P hi
    simp only [Stmt.idents, AllN_append] at hi
    have h1 := iha P hi.1.1.1
    have h2 := ihb P hi.1.1.2
    have h3 := iht P hi.1.2
    have h4 := ihe P hi.2
    rw [ha] at h1; rw [hb] at h2; rw [ht] at h3; rw [he] at h4
    simp only [uniquifyStmt, ha, hb, ht, he, Stmt.idents, AllN_append]
    exact ⟨⟨⟨h1, h2⟩, h3⟩, h4⟩
  · intro n srt a t e a' n1 ha t' n3 ht e' n4 he iha iht ihe P hi
    simp only [Stmt.idents, AllN_append] at hi
    have h1 := iha P hi.1.1
    have h3 := iht P hi.1.2
    have h4 := ihe P hi.2
    rw [ha] at h1; rw [ht] at h3; rw [he] at h4
    simp only [uniquifyStmt, ha, ht, he, Stmt.idents, AllN_append]
    exact ⟨⟨h1, h3⟩, h4⟩
  · intro n nl a nx a' n1 ha nx' n2 hn iha ihn P hi
    simp only [Stmt.idents, AllN_append] at hi
    have h1 := iha P hi.1
    have h2 := ihn P hi.2
    rw [ha] at h1; rw [hn] at h2
    simp only [uniquifyStmt, ha, hn, Stmt.idents, AllN_append]
    exact ⟨h1, h2⟩
  · intro n f as ty as' n1 has ih P hi
    simp only [Stmt.idents] at hi
    have h := ih P hi
    rw [has] at h
    simpa only [uniquifyStmt, has, Stmt.idents] using h
  · intro n a ty a' n1 ha ih P hi
    simp only [Stmt.idents] at hi
    have h := ih P hi
    rw [ha] at h
    simpa only [uniquifyStmt, ha, Stmt.idents] using h
  -- args
  · intro n P _
    simp [uniquifyArgs, Args.idents]
  · intro n pc t r t' n1 ht r' n2 hr iht ihr P hi
    simp only [Args.idents, AllN_append] at hi
    have h1 := iht P hi.1
    have h2 := ihr P hi.2
    rw [ht] at h1; rw [hr] at h2
    simp only [uniquifyArgs, ht, hr, Args.idents, AllN_append]
    exact ⟨h1, h2⟩

theorem uniquifyDef_names (P : String → Prop) (d : Def) (n : Nat) (hc : AllN P (ctxVars d.ctx))
    (hb : AllN P d.body.idents) : AllN P (uniquifyDef d n).1.body.idents := by
  obtain ⟨_, c2, c3⟩ := uniquifyCtx_names (P := P) d.ctx n hc
  have := uniquifyStmt_names
    (substStmt (uniquifyCtx d.ctx n).varSubst (uniquifyCtx d.ctx n).covarSubst d.body)
    (uniquifyCtx d.ctx n).maxId P (allN_substStmt d.body c2 c3 hb)
  simpa only [uniquifyDef, substIfAny_eq] using this

theorem uniquifyDefs_names (P : String → Prop) : ∀ (ds : List Def) (n : Nat),
    (∀ d ∈ ds, AllN P (ctxVars d.ctx) ∧ AllN P d.body.idents) →
    ∀ d' ∈ (uniquifyDefs ds n).1, AllN P d'.body.idents
  | [], n, _ => by simp [uniquifyDefs]
  | d :: r, n, h => by
    intro d' hd'
    simp only [uniquifyDefs, List.mem_cons] at hd'
    rcases hd' with rfl | hd'
    · exact uniquifyDef_names P d n (h d (by simp)).1 (h d (by simp)).2
    · exact uniquifyDefs_names P r _ (fun d0 hd0 => h d0 (by simp [hd0])) d' hd'

theorem DefsAlpha.forall_body {Q : Def → Prop} (hQ : ∀ d d', DefAlpha d d' → Q d → Q d') :
    ∀ {ds ds' : List Def}, DefsAlpha ds ds' → (∀ d ∈ ds, Q d) → ∀ d' ∈ ds', Q d'
  | [], [], _, _ => by simp
  | [], _ :: _, h, _ => by simp [DefsAlpha] at h
  | _ :: _, [], h, _ => by simp [DefsAlpha] at h
  | d :: r, d' :: r', h, hq => by
    obtain ⟨h1, h2⟩ := h
    intro x hx
    rcases List.mem_cons.mp hx with rfl | hx
    · exact hQ d _ h1 (hq d (by simp))
    · exact DefsAlpha.forall_body hQ h2 (fun d0 hd0 => hq d0 (by simp [hd0])) x hx

open FocusSim in
/-- the uniquified program is itself an admissible input of the focusing simulation -/
theorem uniquifyProg_oks (p : Prog) (h : ∀ d ∈ p.defs, UniqInput p.maxId d)
    (hok : ∀ d ∈ p.defs, OKS 0 d.body) (hctx : ∀ d ∈ p.defs, AllN (· ≠ "ς") (ctxVars d.ctx)) :
    ∀ d' ∈ (uniquifyProg p).defs, OKS 0 d'.body := by
  obtain ⟨hα, _⟩ := uniquifyProg_alpha p h
  have hc : ∀ d' ∈ (uniquifyProg p).defs, d'.body.cutsOk = true :=
    DefsAlpha.forall_body (Q := fun d => d.body.cutsOk = true)
      (fun d d' ha hq => by rw [ha.cutsOk]; exact hq) hα (fun d hd => (hok d hd).cuts)
  have hp : ∀ d' ∈ (uniquifyProg p).defs, d'.body.pcOk = true :=
    DefsAlpha.forall_body (Q := fun d => d.body.pcOk = true)
      (fun d d' ha hq => by rw [ha.pcOk]; exact hq) hα (fun d hd => (hok d hd).pcs)
  have hn := uniquifyDefs_names (· ≠ "ς") p.defs p.maxId (fun d hd =>
    ⟨hctx d hd, fun i hi hn => by have := (hok d hd).sig i hi hn; omega⟩)
  intro d' hd'
  refine ⟨hc d' hd', hp d' hd', ?_⟩
  intro i hi hnm
  exact absurd hnm (hn d' hd' i hi)

end Scc.Core
