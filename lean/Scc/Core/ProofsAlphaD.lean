/-
  Scc.Core.ProofsAlphaD — `focusStmt_cong`: focusing respects α-equivalence and is independent of the
  name counter (see ProofsAlphaC for the set-up).
-/
import Scc.Core.ProofsAlphaC

namespace Scc.Core

/-! ## the five statements (motives of the functional induction) -/

def C1 (t : Term) (n : Nat) : Prop :=
  ∀ sc sc' t' n', dbT sc t = dbT sc' t' → FreshL n t.idents → FreshL n' t'.idents →
    dbT sc (focusTerm t n).1.embed = dbT sc' (focusTerm t' n').1.embed
def C2 (cl : Clauses) (n : Nat) : Prop :=
  ∀ sc sc' cl' n', dbC sc cl = dbC sc' cl' → FreshL n cl.idents → FreshL n' cl'.idents →
    dbC sc (focusClauses cl n).1.embed = dbC sc' (focusClauses cl' n').1.embed
def C3 (s : Stmt) (n : Nat) : Prop :=
  ∀ sc sc' s' n', dbS sc s = dbS sc' s' → FreshL n s.idents → FreshL n' s'.idents →
    dbS sc (focusStmt s n).1.embed = dbS sc' (focusStmt s' n').1.embed
def C4 (t : Term) (k : Cont) (n : Nat) : Prop :=
  ∀ sc sc' t' k' n', dbT sc t = dbT sc' t' → FreshL n t.idents → FreshL n' t'.idents →
    KCong n n' sc sc' k k' →
    dbS sc (bindTerm t k n).1.embed = dbS sc' (bindTerm t' k' n').1.embed
def C5 (as : Args) (k : ContVec) (n : Nat) : Prop :=
  ∀ sc sc' as' k' n', dbA sc as = dbA sc' as' → FreshL n as.idents → FreshL n' as'.idents →
    KCongV n n' sc sc' k k' →
    dbS sc (bindMany as k n).1.embed = dbS sc' (bindMany as' k' n').1.embed

/-! ## the continuations of `focus` respect α-equivalence -/

section
variable {n n' : Nat} {sc sc' : List Ident}

theorem kcong_op2 {k k' : Cont} (hk : KCong n n' sc sc' k k') {ext1 ext1' : List Ident}
    {m1 m1' : Nat} (hm : n ≤ m1) (hm' : n' ≤ m1') (hl : ext1.length = ext1'.length)
    (he : ExtOK n m1 ext1) (he' : ExtOK n' m1' ext1') {b1 b1' : Binding}
    (hb : ¬ Gen m1 b1.var) (hb' : ¬ Gen m1' b1'.var)
    (hv : dbVar (ext1 ++ sc) b1.var = dbVar (ext1' ++ sc') b1'.var) (o : BinOp) :
    KCong m1 m1' (ext1 ++ sc) (ext1' ++ sc') (kOp2 b1 o k) (kOp2 b1' o k') where
  mono := fun b m => by
    have := hk.mono ⟨xN m, .prd, .i64⟩ (m + 1); simp only [kOp2]; omega
  mono' := fun b m => by
    have := hk.mono' ⟨xN m, .prd, .i64⟩ (m + 1); simp only [kOp2]; omega
  cong := by
    intro ext2 ext2' b2 b2' m2 m2' h2 h2' hl2 he2 he2' hchi hg hg' hv2
    simp only [kOp2, FsStmt.embed, FsTerm.embed, varI64, dbS, dbT]
    have e1 := dbVar_weaken hl2 (not_mem_of_gen hb (fun i hi => (he2 i hi).1))
      (not_mem_of_gen hb' (fun i hi => (he2' i hi).1)) hv
    have e3 := hk.underX (j := m2) (j' := m2') (m := m2 + 1) (m' := m2' + 1) (by omega) (by omega)
      (by omega) (by omega) (by simp [hl, hl2] : (ext2 ++ ext1).length = (ext2' ++ ext1').length)
      (he.append he2 hm h2) (he'.append he2' hm' h2') .i64 .i64
    simp only [List.append_assoc] at e3
    rw [e1, hv2, e3]

theorem kcong_xtorP {k k' : Cont} (hk : KCong n n' sc sc' k k') (name : Ident) (ty : Ty) :
    KCongV n n' sc sc' (kXtorP name ty k) (kXtorP name ty k') where
  mono := fun b m => by
    have := hk.mono ⟨xN m, .prd, ty⟩ (m + 1); simp only [kXtorP]; omega
  mono' := fun b m => by
    have := hk.mono' ⟨xN m, .prd, ty⟩ (m + 1); simp only [kXtorP]; omega
  cong := by
    intro ext ext' bs bs' m m' h h' hl he he' hg hg' hA
    simp only [kXtorP, FsStmt.embed, FsTerm.embed, dbS, dbT]
    have e3 := hk.underX (j := m) (j' := m') (m := m + 1) (m' := m' + 1) h h'
      (by omega) (by omega) hl he he' ty ty
    rw [hA, e3]

theorem kcong_xtorC {k k' : Cont} (hk : KCong n n' sc sc' k k') (name : Ident) (ty : Ty) :
    KCongV n n' sc sc' (kXtorC name ty k) (kXtorC name ty k') where
  mono := fun b m => by
    have := hk.mono ⟨aN m, .cns, ty⟩ (m + 1); simp only [kXtorC]; omega
  mono' := fun b m => by
    have := hk.mono' ⟨aN m, .cns, ty⟩ (m + 1); simp only [kXtorC]; omega
  cong := by
    intro ext ext' bs bs' m m' h h' hl he he' hg hg' hA
    simp only [kXtorC, FsStmt.embed, FsTerm.embed, dbS, dbT]
    have e3 := hk.underA (j := m) (j' := m') (m := m + 1) (m' := m' + 1) h h'
      (by omega) (by omega) hl he he' ty ty
    rw [hA, e3]

theorem kcong_cut1 {c c' : Term} (ihc : ∀ n, C1 c n) (hc : dbT sc c = dbT sc' c')
    (hf : FreshL n c.idents) (hf' : FreshL n' c'.idents) (ty : Ty) (pc : PC) (name : Ident) :
    KCongV n n' sc sc' (kCut1 ty pc name c) (kCut1 ty pc name c') where
  mono := fun b m => focusTerm_le c m
  mono' := fun b m => focusTerm_le c' m
  cong := by
    intro ext ext' bs bs' m m' h h' hl he he' hg hg' hA
    simp only [kCut1, FsStmt.embed, FsTerm.embed, dbS, dbT]
    rw [hA, ihc m (ext ++ sc) (ext' ++ sc') c' m'
      (dbT_weaken hl (he.not_mem hf) (he'.not_mem hf') hc) (hf.mono h) (hf'.mono h')]

theorem kcong_cut2 {p p' : Term} (ihp : ∀ n, C1 p n) (hp : dbT sc p = dbT sc' p')
    (hf : FreshL n p.idents) (hf' : FreshL n' p'.idents) (ty : Ty) (dpc : PC) (name : Ident) :
    KCongV n n' sc sc' (kCut2 ty p dpc name) (kCut2 ty p' dpc name) where
  mono := fun b m => focusTerm_le p m
  mono' := fun b m => focusTerm_le p' m
  cong := by
    intro ext ext' bs bs' m m' h h' hl he he' hg hg' hA
    simp only [kCut2, FsStmt.embed, FsTerm.embed, dbS, dbT]
    rw [hA, ihp m (ext ++ sc) (ext' ++ sc') p' m'
      (dbT_weaken hl (he.not_mem hf) (he'.not_mem hf') hp) (hf.mono h) (hf'.mono h')]

theorem kcong_cut3 {c c' : Term} (ihc : ∀ n, C1 c n) (hc : dbT sc c = dbT sc' c')
    (hf : FreshL n c.idents) (hf' : FreshL n' c'.idents) (ty : Ty) (o : BinOp)
    {ext1 ext1' : List Ident}
    {m1 m1' : Nat} (hm : n ≤ m1) (hm' : n' ≤ m1') (hl : ext1.length = ext1'.length)
    (he : ExtOK n m1 ext1) (he' : ExtOK n' m1' ext1') {b1 b1' : Binding}
    (hb : ¬ Gen m1 b1.var) (hb' : ¬ Gen m1' b1'.var)
    (hv : dbVar (ext1 ++ sc) b1.var = dbVar (ext1' ++ sc') b1'.var) :
    KCong m1 m1' (ext1 ++ sc) (ext1' ++ sc') (kCut3 ty b1 o c) (kCut3 ty b1' o c') where
  mono := fun b m => focusTerm_le c m
  mono' := fun b m => focusTerm_le c' m
  cong := by
    intro ext2 ext2' b2 b2' m2 m2' h2 h2' hl2 he2 he2' hchi hg hg' hv2
    simp only [kCut3, FsStmt.embed, FsTerm.embed, varI64, dbS, dbT]
    have e1 := dbVar_weaken hl2 (not_mem_of_gen hb (fun i hi => (he2 i hi).1))
      (not_mem_of_gen hb' (fun i hi => (he2' i hi).1)) hv
    have hE := he.append he2 hm h2
    have hE' := he'.append he2' hm' h2'
    have e3 := ihc m2 ((ext2 ++ ext1) ++ sc) ((ext2' ++ ext1') ++ sc') c' m2'
      (dbT_weaken (by simp [hl, hl2]) (hE.not_mem hf) (hE'.not_mem hf') hc)
      (hf.mono (by omega)) (hf'.mono (by omega))
    simp only [List.append_assoc] at e3
    rw [e1, hv2, e3]

theorem kcong_ifc {t t' e e' : Stmt} (iht : ∀ n, C3 t n) (ihe : ∀ n, C3 e n)
    (ht : dbS sc t = dbS sc' t') (he0 : dbS sc e = dbS sc' e')
    (hft : FreshL n t.idents) (hft' : FreshL n' t'.idents)
    (hfe : FreshL n e.idents) (hfe' : FreshL n' e'.idents) (srt : IfSort)
    {ext1 ext1' : List Ident}
    {m1 m1' : Nat} (hm : n ≤ m1) (hm' : n' ≤ m1') (hl : ext1.length = ext1'.length)
    (he : ExtOK n m1 ext1) (he' : ExtOK n' m1' ext1') {b1 b1' : Binding}
    (hb : ¬ Gen m1 b1.var) (hb' : ¬ Gen m1' b1'.var)
    (hv : dbVar (ext1 ++ sc) b1.var = dbVar (ext1' ++ sc') b1'.var) :
    KCong m1 m1' (ext1 ++ sc) (ext1' ++ sc') (kIfc srt b1 t e) (kIfc srt b1' t' e') where
  mono := fun b m => by
    have := focusStmt_le t m; have := focusStmt_le e (focusStmt t m).2
    simp only [kIfc]; omega
  mono' := fun b m => by
    have := focusStmt_le t' m; have := focusStmt_le e' (focusStmt t' m).2
    simp only [kIfc]; omega
  cong := by
    intro ext2 ext2' b2 b2' m2 m2' h2 h2' hl2 he2 he2' hchi hg hg' hv2
    simp only [kIfc, FsStmt.embed, varI64, dbS, dbT]
    have e1 := dbVar_weaken hl2 (not_mem_of_gen hb (fun i hi => (he2 i hi).1))
      (not_mem_of_gen hb' (fun i hi => (he2' i hi).1)) hv
    have hE := he.append he2 hm h2
    have hE' := he'.append he2' hm' h2'
    have hll : (ext2 ++ ext1).length = (ext2' ++ ext1').length := by simp [hl, hl2]
    have e3 := iht m2 ((ext2 ++ ext1) ++ sc) ((ext2' ++ ext1') ++ sc') t' m2'
      (dbS_weaken hll (hE.not_mem hft) (hE'.not_mem hft') ht)
      (hft.mono (by omega)) (hft'.mono (by omega))
    have := focusStmt_le t m2
    have := focusStmt_le t' m2'
    have e4 := ihe (focusStmt t m2).2 ((ext2 ++ ext1) ++ sc) ((ext2' ++ ext1') ++ sc') e'
      (focusStmt t' m2').2
      (dbS_weaken hll (hE.not_mem hfe) (hE'.not_mem hfe') he0)
      (hfe.mono (by omega)) (hfe'.mono (by omega))
    simp only [List.append_assoc] at e3 e4
    rw [e1, hv2, e3, e4]

theorem kcong_ifz {t t' e e' : Stmt} (iht : ∀ n, C3 t n) (ihe : ∀ n, C3 e n)
    (ht : dbS sc t = dbS sc' t') (he0 : dbS sc e = dbS sc' e')
    (hft : FreshL n t.idents) (hft' : FreshL n' t'.idents)
    (hfe : FreshL n e.idents) (hfe' : FreshL n' e'.idents) (srt : IfSort) :
    KCong n n' sc sc' (kIfz srt t e) (kIfz srt t' e') where
  mono := fun b m => by
    have := focusStmt_le t m; have := focusStmt_le e (focusStmt t m).2
    simp only [kIfz]; omega
  mono' := fun b m => by
    have := focusStmt_le t' m; have := focusStmt_le e' (focusStmt t' m).2
    simp only [kIfz]; omega
  cong := by
    intro ext ext' b b' m m' h h' hl he he' hchi hg hg' hv
    simp only [kIfz, FsStmt.embed, varI64, dbS, dbT]
    have e3 := iht m (ext ++ sc) (ext' ++ sc') t' m'
      (dbS_weaken hl (he.not_mem hft) (he'.not_mem hft') ht) (hft.mono h) (hft'.mono h')
    have := focusStmt_le t m
    have := focusStmt_le t' m'
    have e4 := ihe (focusStmt t m).2 (ext ++ sc) (ext' ++ sc') e' (focusStmt t' m').2
      (dbS_weaken hl (he.not_mem hfe) (he'.not_mem hfe') he0)
      (hfe.mono (by omega)) (hfe'.mono (by omega))
    rw [hv, e3, e4]

theorem kcong_print {nx nx' : Stmt} (ihn : ∀ n, C3 nx n) (hn : dbS sc nx = dbS sc' nx')
    (hf : FreshL n nx.idents) (hf' : FreshL n' nx'.idents) (nl : Bool) :
    KCong n n' sc sc' (kPrint nl nx) (kPrint nl nx') where
  mono := fun b m => focusStmt_le nx m
  mono' := fun b m => focusStmt_le nx' m
  cong := by
    intro ext ext' b b' m m' h h' hl he he' hchi hg hg' hv
    simp only [kPrint, FsStmt.embed, varI64, dbS, dbT]
    rw [hv, ihn m (ext ++ sc) (ext' ++ sc') nx' m'
      (dbS_weaken hl (he.not_mem hf) (he'.not_mem hf') hn) (hf.mono h) (hf'.mono h')]

theorem kcong_call (f : Ident) : KCongV n n' sc sc' (kCall f) (kCall f) where
  mono := fun b m => Nat.le_refl _
  mono' := fun b m => Nat.le_refl _
  cong := by
    intro ext ext' bs bs' m m' h h' hl he he' hg hg' hA
    simp only [kCall, FsStmt.embed, dbS]
    rw [hA]

theorem kcong_exit : KCong n n' sc sc' kExit kExit where
  mono := fun b m => Nat.le_refl _
  mono' := fun b m => Nat.le_refl _
  cong := by
    intro ext ext' b b' m m' h h' hl he he' hchi hg hg' hv
    simp only [kExit, FsStmt.embed, varI64, dbS, dbT]
    rw [hv]

/-- binding the second operand under the first -/
theorem kcong_bind {b b' : Term} {K K' : Binding → Cont}
    (ih : ∀ b1 n1, C4 b (K b1) n1) (hb : dbT sc b = dbT sc' b')
    (hf : FreshL n b.idents) (hf' : FreshL n' b'.idents)
    (hmK : ∀ b1, MonoK (K b1)) (hmK' : ∀ b1, MonoK (K' b1))
    (hK : ∀ ext ext' b1 b1' m m', n ≤ m → n' ≤ m' → ext.length = ext'.length →
      ExtOK n m ext → ExtOK n' m' ext' → b1.chi = b1'.chi → ¬ Gen m b1.var → ¬ Gen m' b1'.var →
      dbVar (ext ++ sc) b1.var = dbVar (ext' ++ sc') b1'.var →
      KCong m m' (ext ++ sc) (ext' ++ sc') (K b1) (K' b1')) :
    KCong n n' sc sc' (fun b1 n1 => bindTerm b (K b1) n1) (fun b1 n1 => bindTerm b' (K' b1) n1) where
  mono := fun b1 m => bindTerm_le b (K b1) m (hmK b1)
  mono' := fun b1 m => bindTerm_le b' (K' b1) m (hmK' b1)
  cong := by
    intro ext ext' b1 b1' m m' h h' hl he he' hchi hg hg' hv
    exact ih b1 m (ext ++ sc) (ext' ++ sc') b' (K' b1') m'
      (dbT_weaken hl (he.not_mem hf) (he'.not_mem hf') hb) (hf.mono h) (hf'.mono h')
      (hK ext ext' b1 b1' m m' h h' hl he he' hchi hg hg' hv)

theorem kcong_consV {k k' : ContVec} (hk : KCongV n n' sc sc' k k') {ext1 ext1' : List Ident}
    {m1 m1' : Nat} (hm : n ≤ m1) (hm' : n' ≤ m1') (hl : ext1.length = ext1'.length)
    (he : ExtOK n m1 ext1) (he' : ExtOK n' m1' ext1') {b b' : Binding} (hchi : b.chi = b'.chi)
    (hb : ¬ Gen m1 b.var) (hb' : ¬ Gen m1' b'.var)
    (hv : dbVar (ext1 ++ sc) b.var = dbVar (ext1' ++ sc') b'.var) :
    KCongV m1 m1' (ext1 ++ sc) (ext1' ++ sc') (fun bs n2 => k (b :: bs) n2)
      (fun bs n2 => k' (b' :: bs) n2) where
  mono := fun bs m => hk.mono (b :: bs) m
  mono' := fun bs m => hk.mono' (b' :: bs) m
  cong := by
    intro ext2 ext2' bs bs' m2 m2' h2 h2' hl2 he2 he2' hg hg' hA
    have e1 := dbVar_weaken hl2 (not_mem_of_gen hb (fun i hi => (he2 i hi).1))
      (not_mem_of_gen hb' (fun i hi => (he2' i hi).1)) hv
    have := hk.cong (ext2 ++ ext1) (ext2' ++ ext1') (b :: bs) (b' :: bs') m2 m2' (by omega)
      (by omega) (by simp [hl, hl2]) (he.append he2 hm h2) (he'.append he2' hm' h2')
      (by
        intro x hx
        rcases List.mem_cons.mp hx with rfl | hx
        · exact fun hgg => hb (hgg.mono h2)
        · exact hg x hx)
      (by
        intro x hx
        rcases List.mem_cons.mp hx with rfl | hx
        · exact fun hgg => hb' (hgg.mono h2')
        · exact hg' x hx)
      (by
        simp only [ctxToArgs, dbA, dbT, List.append_assoc]
        rw [hchi, e1, hA])
    simpa only [List.append_assoc] using this

theorem kcong_many {r r' : Args} {k k' : ContVec}
    (ih : ∀ b n1, C5 r (fun bs n2 => k (b :: bs) n2) n1) (hr : dbA sc r = dbA sc' r')
    (hf : FreshL n r.idents) (hf' : FreshL n' r'.idents) (hk : KCongV n n' sc sc' k k') :
    KCong n n' sc sc' (fun b n1 => bindMany r (fun bs n2 => k (b :: bs) n2) n1)
      (fun b n1 => bindMany r' (fun bs n2 => k' (b :: bs) n2) n1) where
  mono := fun b m => bindMany_le r _ m (fun bs m => hk.mono (b :: bs) m)
  mono' := fun b m => bindMany_le r' _ m (fun bs m => hk.mono' (b :: bs) m)
  cong := by
    intro ext ext' b b' m m' h h' hl he he' hchi hg hg' hv
    exact ih b m (ext ++ sc) (ext' ++ sc') r' (fun bs n2 => k' (b' :: bs) n2) m'
      (dbA_weaken hl (he.not_mem hf) (he'.not_mem hf') hr) (hf.mono h) (hf'.mono h')
      (kcong_consV hk h h' hl he he' hchi hg hg' hv)

end

end Scc.Core
