/-
  Scc.Core.ProofsAlphaB — the name counter of `focus` only grows (`focusStmt_le`), and the notion of
  "generated name" used for freshness.
-/
import Scc.Core.Focus
import Scc.Core.ProofsAlphaA

namespace Scc.Core

/-! ## generated names -/

/-- `i` is a name that `focus` generates at a counter `> n` (`fresh_var` / `fresh_covar`) -/
def Gen (n : Nat) (i : Ident) : Prop := (i.name = "x" ∨ i.name = "a") ∧ n < i.id

/-- no identifier of the list is generated after `n` -/
def FreshL (n : Nat) (l : List Ident) : Prop := ∀ i ∈ l, ¬ Gen n i

theorem Gen.mono {n m : Nat} {i : Ident} (h : Gen m i) (hn : n ≤ m) : Gen n i :=
  ⟨h.1, Nat.lt_of_le_of_lt hn h.2⟩

theorem FreshL.mono {n m : Nat} {l : List Ident} (h : FreshL n l) (hn : n ≤ m) : FreshL m l :=
  fun i hi hg => h i hi (hg.mono hn)

@[simp] theorem FreshL_nil (n : Nat) : FreshL n [] := by simp [FreshL]

@[simp] theorem FreshL_append (n : Nat) (a b : List Ident) :
    FreshL n (a ++ b) ↔ FreshL n a ∧ FreshL n b := by
  simp only [FreshL, List.mem_append]
  constructor
  · intro h; exact ⟨fun i hi => h i (Or.inl hi), fun i hi => h i (Or.inr hi)⟩
  · rintro ⟨h1, h2⟩ i (hi | hi)
    · exact h1 i hi
    · exact h2 i hi

@[simp] theorem FreshL_cons (n : Nat) (a : Ident) (b : List Ident) :
    FreshL n (a :: b) ↔ ¬ Gen n a ∧ FreshL n b := by
  simp [FreshL]

theorem gen_x (n m : Nat) (h : n ≤ m) : Gen n ⟨"x", m + 1⟩ := ⟨Or.inl rfl, by simp; omega⟩
theorem gen_a (n m : Nat) (h : n ≤ m) : Gen n ⟨"a", m + 1⟩ := ⟨Or.inr rfl, by simp; omega⟩
theorem not_gen_x (m : Nat) : ¬ Gen (m + 1) ⟨"x", m + 1⟩ := fun h => Nat.lt_irrefl _ h.2
theorem not_gen_a (m : Nat) : ¬ Gen (m + 1) ⟨"a", m + 1⟩ := fun h => Nat.lt_irrefl _ h.2

/-- a name that is not generated after `m` differs from everything generated after `m` -/
theorem not_mem_of_gen {m : Nat} {x : Ident} {ext : List Ident} (hx : ¬ Gen m x)
    (he : ∀ i ∈ ext, Gen m i) : x ∉ ext := fun h => hx (he x h)

/-! ## the counter only grows -/

def MonoK (k : Cont) : Prop := ∀ b m, m ≤ (k b m).2
def MonoKV (k : ContVec) : Prop := ∀ bs m, m ≤ (k bs m).2

private def l1 (t : Term) (n : Nat) : Prop := n ≤ (focusTerm t n).2
private def l2 (cl : Clauses) (n : Nat) : Prop := n ≤ (focusClauses cl n).2
private def l3 (s : Stmt) (n : Nat) : Prop := n ≤ (focusStmt s n).2
private def l4 (t : Term) (k : Cont) (n : Nat) : Prop := MonoK k → n ≤ (bindTerm t k n).2
private def l5 (as : Args) (k : ContVec) (n : Nat) : Prop := MonoKV k → n ≤ (bindMany as k n).2

private theorem focus_le_all :
    (∀ t n, l1 t n) ∧ (∀ cl n, l2 cl n) ∧ (∀ s n, l3 s n) ∧ (∀ t k n, l4 t k n) ∧
      (∀ as k n, l5 as k n) := by
  apply focusTerm.mutual_induct (motive_1 := l1) (motive_2 := l2) (motive_3 := l3)
    (motive_4 := l4) (motive_5 := l5)
  -- focusTerm
  · intro pc v ty n; simp [l1, focusTerm]
  · intro k n; simp [l1, focusTerm]
  · intro a o b n; simp [l1, focusTerm]
  · intro pc v ty s n s' n1 heq ih
    simp only [l1, l3, focusTerm, heq] at ih ⊢; exact ih
  · intro pc name as ty n; simp [l1, focusTerm]
  · intro pc ty cl n cl' n1 heq ih
    simp only [l1, l2, focusTerm, heq] at ih ⊢; exact ih
  -- bindTerm
  · intro pc v ty k n hk
    simp only [bindTerm]; exact hk _ _
  · intro i k n x n1 hfresh r n2 hkeq hk
    simp only [freshVar, freshIdentifier, Prod.mk.injEq] at hfresh
    obtain ⟨rfl, rfl⟩ := hfresh
    have := hk ⟨⟨"x", n + 1⟩, .prd, .i64⟩ (n + 1)
    simp only [bindTerm, freshVar, freshIdentifier, hkeq] at this ⊢
    omega
  · intro a o b k n ih1 ih2 hk
    simp only [bindTerm]
    apply ih2
    intro b1 n1
    apply ih1 b1 n1
    intro b2 n2
    have := hk ⟨⟨"x", n2 + 1⟩, .prd, .i64⟩ (n2 + 1)
    simp only [freshVar, freshIdentifier]
    omega
  · intro v ty s k n x n1 hfresh s' n2 hs r n3 hkeq ih hk
    simp only [freshVar, freshIdentifier, Prod.mk.injEq] at hfresh
    obtain ⟨rfl, rfl⟩ := hfresh
    have h2 := hk ⟨⟨"x", n + 1⟩, .prd, ty⟩ n2
    simp only [l3, hs] at ih
    simp only [bindTerm, freshVar, freshIdentifier, hs, hkeq] at h2 ⊢
    omega
  · intro v ty s k n x n1 hfresh r n2 hkeq s' n3 hs ih hk
    simp only [freshCovar, freshIdentifier, Prod.mk.injEq] at hfresh
    obtain ⟨rfl, rfl⟩ := hfresh
    have h2 := hk ⟨⟨"a", n + 1⟩, .cns, ty⟩ (n + 1)
    simp only [l3, hs] at ih
    simp only [bindTerm, freshCovar, freshIdentifier, hs, hkeq] at h2 ⊢
    omega
  · intro name as ty k n ih hk
    simp only [bindTerm]
    apply ih
    intro bs n2
    have := hk ⟨⟨"x", n2 + 1⟩, .prd, ty⟩ (n2 + 1)
    simp only [freshVar, freshIdentifier]
    omega
  · intro name as ty k n ih hk
    simp only [bindTerm]
    apply ih
    intro bs n2
    have := hk ⟨⟨"a", n2 + 1⟩, .cns, ty⟩ (n2 + 1)
    simp only [freshCovar, freshIdentifier]
    omega
  · intro ty cl k n x n1 hfresh r n2 hkeq cl' n3 hs ih hk
    simp only [freshVar, freshIdentifier, Prod.mk.injEq] at hfresh
    obtain ⟨rfl, rfl⟩ := hfresh
    have h2 := hk ⟨⟨"x", n + 1⟩, .prd, ty⟩ (n + 1)
    simp only [l2, hs] at ih
    simp only [bindTerm, freshVar, freshIdentifier, hs, hkeq] at h2 ⊢
    omega
  · intro ty cl k n x n1 hfresh r n2 hkeq cl' n3 hs ih hk
    simp only [freshCovar, freshIdentifier, Prod.mk.injEq] at hfresh
    obtain ⟨rfl, rfl⟩ := hfresh
    have h2 := hk ⟨⟨"a", n + 1⟩, .cns, ty⟩ (n + 1)
    simp only [l2, hs] at ih
    simp only [bindTerm, freshCovar, freshIdentifier, hs, hkeq] at h2 ⊢
    omega
  -- bindMany
  · intro k n hk
    simp only [bindMany]; exact hk _ _
  · intro pc t r k n ih1 ih2 hk
    simp only [bindMany]
    apply ih2
    intro b n1
    apply ih1 b n1
    intro bs n2
    exact hk _ _
  -- focusClauses
  · intro n; simp [l2, focusClauses]
  · intro x ctx b r n b' n1 hb r' n2 hr ihb ihr
    simp only [l2, l3, hb, hr] at ihb ihr
    simp only [l2, focusClauses, hb, hr]
    omega
  -- focusStmt: cut
  · intro ty pc name as ty1 c n ihc ih5
    simp only [l3, focusStmt]
    apply ih5
    intro bs n1
    exact ihc n1
  · intro ty p dpc name as ty1 n hnx ihp ih5
    simp only [l3]
    rw [focusStmt.eq_2 _ _ _ _ _ _ _ hnx]
    apply ih5
    intro bs n1
    exact ihp n1
  · intro ty a o b c n hnx ihc ih1 ih2
    simp only [l3]
    rw [focusStmt.eq_3 _ _ _ _ _ _ hnx]
    apply ih2
    intro b1 n1
    apply ih1 b1 n1
    intro b2 n2
    exact ihc n2
  · intro ty p c n hnp hnc hnop p' n1 hp c' n2 hc ihp ihc
    simp only [l3, l1, hp, hc] at ihp ihc ⊢
    rw [focusStmt.eq_4 _ _ _ _ hnp hnc hnop]
    simp only [hp, hc]
    omega
  -- ifc, ifz, print, call, exit
  · intro srt a b t e n iht ihe ih1 ih2
    simp only [l3, focusStmt]
    apply ih2
    intro b1 n1
    apply ih1 b1 n1
    intro b2 n2
    have h1 := iht n2
    have h2 := ihe (focusStmt t n2).2
    simp only [l3] at h1 h2
    show n2 ≤ (focusStmt e (focusStmt t n2).2).2
    omega
  · intro srt a t e n iht ihe ih1
    simp only [l3, focusStmt]
    apply ih1
    intro b1 n1
    have h1 := iht n1
    have h2 := ihe (focusStmt t n1).2
    simp only [l3] at h1 h2
    show n1 ≤ (focusStmt e (focusStmt t n1).2).2
    omega
  · intro nl a nx n ihn ih1
    simp only [l3, focusStmt]
    apply ih1
    intro b1 n1
    exact ihn n1
  · intro f as ty n ih5
    simp only [l3, focusStmt]
    apply ih5
    intro bs n1
    exact Nat.le_refl _
  · intro a ty n ih4
    simp only [l3, focusStmt]
    apply ih4
    intro b n1
    exact Nat.le_refl _

theorem focusTerm_le (t : Term) (n : Nat) : n ≤ (focusTerm t n).2 := focus_le_all.1 t n
theorem focusClauses_le (cl : Clauses) (n : Nat) : n ≤ (focusClauses cl n).2 := focus_le_all.2.1 cl n
theorem focusStmt_le (s : Stmt) (n : Nat) : n ≤ (focusStmt s n).2 := focus_le_all.2.2.1 s n
theorem bindTerm_le (t : Term) (k : Cont) (n : Nat) (hk : MonoK k) : n ≤ (bindTerm t k n).2 :=
  focus_le_all.2.2.2.1 t k n hk
theorem bindMany_le (as : Args) (k : ContVec) (n : Nat) (hk : MonoKV k) :
    n ≤ (bindMany as k n).2 := focus_le_all.2.2.2.2 as k n hk

end Scc.Core
